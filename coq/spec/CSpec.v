(* Tables written from ISO/IEC 9899:1999 (and the C11 items pycparser documents),
   never from the code.  Spellings are Coq strings; classes are compared with
   the regenerated tables through the lexer's own spelling tables. *)
From Coq Require Import List NArith Bool Arith String.
Import ListNotations.
From PV Require Import Regex Base.
Open Scope string_scope.

(* 6.4.1 keywords *)
Definition c99_keywords : list string :=
  ["auto"; "break"; "case"; "char"; "const"; "continue"; "default"; "do"; "double"; "else"; "enum"; "extern";
   "float"; "for"; "goto"; "if"; "inline"; "int"; "long"; "register"; "restrict"; "return"; "short"; "signed";
   "sizeof"; "static"; "struct"; "switch"; "typedef"; "union"; "unsigned"; "void"; "volatile"; "while";
   "_Bool"; "_Complex"].
(* C11 keywords pycparser documents *)
Definition c11_keywords : list string :=
  ["_Alignas"; "_Alignof"; "_Atomic"; "_Noreturn"; "_Static_assert"; "_Thread_local"].

(* 6.4.6 punctuators (without the digraphs and the preprocessor-only # ##) *)
Definition c99_punctuators : list string :=
  ["["; "]"; "("; ")"; "{"; "}"; "."; "->"; "++"; "--"; "&"; "*"; "+"; "-"; "~"; "!"; "/"; "%"; "<<"; ">>"; "<"; ">";
   "<="; ">="; "=="; "!="; "^"; "|"; "&&"; "||"; "?"; ":"; ";"; "..."; "="; "*="; "/="; "%="; "+="; "-="; "<<="; ">>=";
   "&="; "^="; "|="; ","].
Definition c99_digraphs : list string := ["<:"; ":>"; "<%"; "%>"; "%:"].

(* 6.5.5 - 6.5.14: binary operators by level; a higher level binds tighter *)
Definition c99_binary_levels : list (string * nat) :=
  [("||", 0); ("&&", 1); ("|", 2); ("^", 3); ("&", 4); ("==", 5); ("!=", 5);
   ("<", 6); (">", 6); ("<=", 6); (">=", 6); ("<<", 7); (">>", 7); ("+", 8); ("-", 8); ("*", 9); ("/", 9); ("%", 9)]%nat.

(* 6.5.16 assignment operators *)
Definition c99_assignment_ops : list string :=
  ["="; "*="; "/="; "%="; "+="; "-="; "<<="; ">>="; "&="; "^="; "|="].

(* 6.7.1, 6.7.2, 6.7.3, 6.7.4: what may start declaration-specifiers *)
Definition c99_storage_class : list string := ["typedef"; "extern"; "static"; "auto"; "register"].
Definition c99_type_qualifier : list string := ["const"; "restrict"; "volatile"].
Definition c99_function_spec : list string := ["inline"].
Definition c99_type_spec_kw : list string :=
  ["void"; "char"; "short"; "int"; "long"; "float"; "double"; "signed"; "unsigned"; "_Bool"; "_Complex"; "struct"; "union"; "enum"].
