(* Extraction of the executable model.  Only ExtrOcamlBasic is used:
   bool, option, unit, list, prod, sumbool, sumor map to OCaml's; andb/orb are
   inlined.  nat, positive, N, Z, ascii, string stay Coq datatypes. *)
From Coq Require Import ExtrOcamlBasic.
From Coq Require Extraction.
From PV Require Import Api.
Extraction "model.ml" handle.
