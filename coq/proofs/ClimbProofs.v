(* C02 core: the precedence-climbing loops of _parse_binary_expression are sound
   for the stratified C grammar, for every operator sequence of any length.
   [climb]/[inner] mirror the two nested loops with operands opaque; the
   component is tied to the code at its own entry point by correspondence
   (harness: CParser._parse_binary_expression on `a0 op1 a1 ...`). *)
From Coq Require Import List Arith Lia Bool.
Import ListNotations.

Section Climb.
Variable atom op : Type.
Variable prec : op -> nat.
Inductive tree := Leaf (a: atom) | Bin (o: op) (l r: tree).
Definition rest := list (op * atom).

Fixpoint climb (fuel: nat) (minp: nat) (lhs: tree) (r: rest) : option (tree * rest) :=
  match fuel with O => None | S f =>
   match r with
   | [] => Some (lhs, [])
   | (o,a) :: r1 =>
       if prec o <? minp then Some (lhs, r)
       else match inner f (prec o) (Leaf a) r1 with
            | None => None
            | Some (rhs, r2) => climb f minp (Bin o lhs rhs) r2
            end
   end end
with inner (fuel: nat) (p: nat) (rhs: tree) (r: rest) : option (tree * rest) :=
  match fuel with O => None | S f =>
   match r with
   | [] => Some (rhs, [])
   | (o2,_) :: _ =>
       if p <? prec o2 then
         match climb f (prec o2) rhs r with
         | None => None
         | Some (rhs', r') => inner f p rhs' r'
         end
       else Some (rhs, r)
   end end.

(* The stratified grammar: level-p expression over a head operand h and a tail l
   (C99 6.5.5-6.5.14: level p is  level-(p+1) | level-p op_p level-(p+1)). *)
Inductive D : nat -> tree -> rest -> tree -> Prop :=
| D_atom : forall p h, D p h [] h
| D_up : forall p h l t, D (S p) h l t -> D p h l t
| D_bin : forall p h l1 o a l2 t1 t2, prec o = p -> D p h l1 t1 -> D (S p) (Leaf a) l2 t2 ->
          D p h (l1 ++ (o,a) :: l2) (Bin o t1 t2).

Definition head_le (q: nat) (l: rest) : Prop :=
  match l with [] => True | (o,_) :: _ => prec o <= q end.
Definition head_lt (q: nat) (l: rest) : Prop :=
  match l with [] => True | (o,_) :: _ => prec o < q end.

Lemma D_down : forall q p h l t, D q h l t -> p <= q -> D p h l t.
Proof.
  intros q p h l t HD Hle. induction Hle as [|q' Hle IH].
  - exact HD.
  - apply IH. apply D_up. exact HD.
Qed.

Lemma D_nil : forall p h l t, D p h l t -> l = [] -> t = h.
Proof.
  intros p h l t HD. induction HD as [p h0 | p h0 l t HD IH | p h0 la o a lb ta tb Hp HDa IHa HDb IHb]; intros Hl.
  - reflexivity.
  - auto.
  - destruct la; discriminate.
Qed.

Lemma D_head_ge : forall p h l t, D p h l t ->
  match l with [] => True | (o,_) :: _ => p <= prec o end.
Proof.
  intros p h l t HD. induction HD as [p h0 | p h0 l t HD IH | p h0 la o a lb ta tb Hp HDa IHa HDb IHb].
  - exact I.
  - destruct l as [|[o a] l]; [exact I| lia].
  - destruct la as [|[o1 a1] la]; simpl; [lia | exact IHa].
Qed.

Lemma compose : forall p' h' l2 t, D p' h' l2 t ->
  forall q h l1, D q h l1 h' -> p' <= q -> head_le q l2 -> D p' h (l1 ++ l2) t.
Proof.
  intros p' h' l2 t HD. induction HD as [p h0 | p h0 l t HD IH | p h0 la o a lb ta tb Hp HDa IHa HDb IHb];
    intros q h l1 H1 Hle Hhd.
  - rewrite app_nil_r. eapply D_down; eauto.
  - destruct (Nat.eq_dec p q) as [->|Hne].
    + pose proof (D_head_ge _ _ _ _ HD) as Hge.
      destruct l as [|[o a] l].
      * pose proof (D_nil _ _ _ _ HD eq_refl) as ->. rewrite app_nil_r. exact H1.
      * simpl in Hhd. lia.
    + apply D_up. eapply IH; eauto. lia.
  - rewrite app_assoc. apply D_bin; auto.
    destruct la as [|x la].
    + rewrite app_nil_r. pose proof (D_nil _ _ _ _ HDa eq_refl) as ->.
      eapply D_down; eauto.
    + eapply IHa; eauto.
Qed.

Definition sound_climb (f: nat) : Prop := forall m lhs r t r',
  climb f m lhs r = Some (t, r') -> exists l, r = l ++ r' /\ D m lhs l t /\ head_lt m r'.
Definition sound_inner (f: nat) : Prop := forall p rhs r t r',
  inner f p rhs r = Some (t, r') -> exists l, r = l ++ r' /\ D (S p) rhs l t /\ head_le p r'.

Lemma sound : forall f, sound_climb f /\ sound_inner f.
Proof.
  induction f as [|f [IHc IHi]]; split.
  - intros m lhs r t r' H; discriminate.
  - intros p rhs r t r' H; discriminate.
  - intros m lhs r t r' H. cbn [climb] in H.
    destruct r as [|[o a] r1].
    + inversion H; subst. exists []. repeat split; try constructor.
    + destruct (prec o <? m) eqn:Hlt.
      * inversion H; subst. exists []. repeat split; try constructor.
        apply Nat.ltb_lt in Hlt. exact Hlt.
      * apply Nat.ltb_ge in Hlt.
        destruct (inner f (prec o) (Leaf a) r1) as [[rhs r2]|] eqn:Hin; [|discriminate].
        apply IHi in Hin. destruct Hin as (l1 & -> & HD1 & Hhd1).
        apply IHc in H. destruct H as (l2 & -> & HD2 & Hhd2).
        exists ((o,a) :: l1 ++ l2). split; [simpl; now rewrite app_assoc|]. split; [|exact Hhd2].
        change ((o,a) :: l1 ++ l2) with (((o,a) :: l1) ++ l2).
        eapply compose; [exact HD2| |exact Hlt|].
        -- change ((o,a)::l1) with ([] ++ (o,a) :: l1). apply D_bin; auto. constructor.
        -- destruct l2 as [|[o2 a2] l2]; [exact I|]. exact Hhd1.
  - intros p rhs r t r' H. cbn [inner] in H.
    destruct r as [|[o2 a2] r1].
    + inversion H; subst. exists []. repeat split; try constructor.
    + destruct (p <? prec o2) eqn:Hlt.
      * apply Nat.ltb_lt in Hlt.
        destruct (climb f (prec o2) rhs ((o2,a2)::r1)) as [[rhs' rr]|] eqn:Hc; [|discriminate].
        apply IHc in Hc. destruct Hc as (l1 & Hr & HD1 & Hhd1).
        apply IHi in H. destruct H as (l2 & -> & HD2 & Hhd2).
        exists (l1 ++ l2). split; [rewrite Hr; now rewrite app_assoc|]. split; [|exact Hhd2].
        eapply compose; [exact HD2|exact HD1|lia|].
        destruct l2 as [|[o3 a3] l2]; [exact I|]. simpl in *. lia.
      * inversion H; subst. exists []. repeat split; try constructor.
        apply Nat.ltb_ge in Hlt. exact Hlt.
Qed.

(* the whole operator sequence, entered as _parse_binary_expression() does (min_prec = 0) *)
Theorem climb_sound : forall fuel a0 r t,
  climb fuel 0 (Leaf a0) r = Some (t, []) -> D 0 (Leaf a0) r t.
Proof.
  intros fuel a0 r t H. destruct (sound fuel) as [Hc _]. apply Hc in H.
  destruct H as (l & Hr & HD & _). rewrite app_nil_r in Hr. subst. exact HD.
Qed.


(* ---- the stratified grammar is unambiguous: an operator sequence has at most one tree ---- *)
Lemma D_all_ge : forall p h l t, D p h l t -> Forall (fun oa => p <= prec (fst oa)) l.
Proof.
  intros p h l t HD. induction HD as [p h0 | p h0 l t HD IH | p h0 la o a lb ta tb Hp HDa IHa HDb IHb].
  - constructor.
  - eapply Forall_impl; [|exact IH]. intros x Hx. cbn in Hx. lia.
  - apply Forall_app. split; [exact IHa|]. constructor; [cbn; lia|].
    eapply Forall_impl; [|exact IHb]. intros x Hx. cbn in Hx. lia.
Qed.

Lemma split_unique : forall (Q: op * atom -> Prop) l1 x l2 l1' x' l2',
  l1 ++ x :: l2 = l1' ++ x' :: l2' -> Q x -> Q x' -> Forall (fun y => ~ Q y) l2 -> Forall (fun y => ~ Q y) l2' ->
  l1 = l1' /\ x = x' /\ l2 = l2'.
Proof.
  intros Q. induction l1 as [|y l1 IH]; intros x l2 l1' x' l2' E Qx Qx' F2 F2'.
  - destruct l1' as [|y' l1']; cbn in E.
    + injection E as -> ->. auto.
    + injection E as -> ->. exfalso. rewrite Forall_forall in F2. apply (F2 x'); [apply in_or_app; right; left; reflexivity|exact Qx'].
  - destruct l1' as [|y' l1']; cbn in E.
    + injection E as -> <-. exfalso. rewrite Forall_forall in F2'. apply (F2' x); [apply in_or_app; right; left; reflexivity|exact Qx].
    + injection E as -> E. destruct (IH _ _ _ _ _ E Qx Qx' F2 F2') as (-> & -> & ->). auto.
Qed.

Theorem D_unique : forall p h l t1, D p h l t1 -> forall t2, D p h l t2 -> t1 = t2.
Proof.
  intros p h l t1 HD. induction HD as [p h0 | p h0 l t HD IH | p h0 la o a lb ta tb Hp HDa IHa HDb IHb]; intros t2 H2.
  - symmetry. eapply D_nil; [exact H2|reflexivity].
  - inversion H2 as [p' h' | p' h' l' t' H2' | p' h' la' o' a' lb' ta' tb' Hp' HDa' HDb']; subst.
    + eapply D_nil; [exact HD|reflexivity].
    + apply IH. exact H2'.
    + exfalso. apply D_all_ge in HD. rewrite Forall_forall in HD.
      specialize (HD (o', a') ltac:(apply in_or_app; right; left; reflexivity)). cbn in HD. lia.
  - inversion H2 as [p' h' | p' h' l' t' H2' | p' h' la' o' a' lb' ta' tb' Hp' HDa' HDb' El]; subst.
    + destruct la; discriminate.
    + exfalso. apply D_all_ge in H2'. rewrite Forall_forall in H2'.
      specialize (H2' (o, a) ltac:(apply in_or_app; right; left; reflexivity)). cbn in H2'. lia.
    + pose proof (D_all_ge _ _ _ _ HDb) as Gb. pose proof (D_all_ge _ _ _ _ HDb') as Gb'.
      assert (A1: Forall (fun y => ~ prec (fst y) = prec o) lb).
      { eapply Forall_impl; [|exact Gb]. intros x Hx Hq. cbn in Hx. lia. }
      assert (A2: Forall (fun y => ~ prec (fst y) = prec o) lb').
      { eapply Forall_impl; [|exact Gb']. intros x Hx Hq. cbn in Hx. lia. }
      match goal with El: _ ++ _ :: _ = _ ++ _ :: _ |- _ =>
        destruct (split_unique (fun oa => prec (fst oa) = prec o) _ _ _ _ _ _ El) as (E1 & E2 & E3);
        try assumption; try reflexivity end.
      injection E2 as E2a E2b. subst. f_equal; [apply IHa; exact HDa'|apply IHb; exact HDb'].
Qed.

End Climb.
