(* C04: algebraic laws of the scope stack model (all names, all stacks). *)
From Coq Require Import List NArith Bool Arith Lia.
Import ListNotations.
From PV Require Import Regex Base LexTables ParserTables NodeModel ParserBase.

Lemma name_eqb_refl : forall n, name_eqb n n = true.
Proof.
  destruct n as [s|]; [|reflexivity]. cbn. induction s as [|c s IH]; [reflexivity|].
  cbn. rewrite N.eqb_refl. exact IH.
Qed.

Lemma str_eqb_sym : forall a b, str_eqb a b = str_eqb b a.
Proof.
  induction a as [|x a IH]; destruct b as [|y b]; cbn; auto.
  rewrite N.eqb_sym. rewrite IH. reflexivity.
Qed.
Lemma name_eqb_sym : forall a b, name_eqb a b = name_eqb b a.
Proof. destruct a, b; cbn; auto. apply str_eqb_sym. Qed.

Lemma str_eqb_trans : forall a b c, str_eqb a b = true -> str_eqb b c = true -> str_eqb a c = true.
Proof.
  induction a as [|x a IH]; destruct b as [|y b]; destruct c as [|z c]; cbn; auto; try discriminate.
  intros H1 H2. apply andb_true_iff in H1. apply andb_true_iff in H2. destruct H1 as [A1 B1]. destruct H2 as [A2 B2].
  apply N.eqb_eq in A1. apply N.eqb_eq in A2. subst. rewrite N.eqb_refl. cbn. eapply IH; eauto.
Qed.
Lemma name_eqb_trans : forall a b c, name_eqb a b = true -> name_eqb b c = true -> name_eqb a c = true.
Proof. destruct a, b, c; cbn; auto; try discriminate. apply str_eqb_trans. Qed.

(* dict assignment then lookup *)
Lemma scope_get_set_same : forall n b sc, scope_get n (scope_set n b sc) = Some b.
Proof.
  intros n b sc. induction sc as [|[k v] r IH]; cbn.
  - rewrite name_eqb_refl. reflexivity.
  - destruct (name_eqb n k) eqn:E; cbn; rewrite E; [reflexivity|exact IH].
Qed.

Lemma scope_get_set_other : forall n m b sc, name_eqb m n = false -> scope_get m (scope_set n b sc) = scope_get m sc.
Proof.
  intros n m b sc Hne. induction sc as [|[k v] r IH]; cbn.
  - rewrite Hne. reflexivity.
  - destruct (name_eqb n k) eqn:E; cbn.
    + destruct (name_eqb m k) eqn:E2; [|reflexivity].
      exfalso. rewrite name_eqb_sym in E. pose proof (name_eqb_trans _ _ _ E2 E) as H. congruence.
    + destruct (name_eqb m k); [reflexivity|exact IH].
Qed.

(* a declaration in the innermost scope decides the lookup of its own name ... *)
Theorem lookup_after_declare : forall n b top rest,
  is_type_in n (scope_set n b top :: rest) = b.
Proof. intros. cbn. rewrite scope_get_set_same. reflexivity. Qed.

(* ... and of no other name *)
Theorem lookup_other_name : forall n m b top rest, name_eqb m n = false ->
  is_type_in m (scope_set n b top :: rest) = is_type_in m (top :: rest).
Proof. intros. cbn. rewrite scope_get_set_other by assumption. reflexivity. Qed.

(* entering a scope changes nothing until something is declared in it; leaving it restores the outer view *)
Theorem lookup_fresh_scope : forall n scs, is_type_in n ([] :: scs) = is_type_in n scs.
Proof. reflexivity. Qed.

(* an inner ordinary declaration hides an outer typedef, an inner typedef re-introduces the name *)
Theorem inner_hides_outer : forall n b b' top outer rest,
  is_type_in n (scope_set n b top :: scope_set n b' outer :: rest) = b.
Proof. intros. apply lookup_after_declare. Qed.

(* a name never declared is not a type *)
Theorem undeclared_not_type : forall n scs,
  forallb (fun sc => match scope_get n sc with None => true | Some _ => false end) scs = true -> is_type_in n scs = false.
Proof.
  intros n scs. induction scs as [|sc r IH]; cbn; [reflexivity|].
  intros H. apply andb_true_iff in H. destruct H as [H1 H2].
  destruct (scope_get n sc); [discriminate|]. apply IH. exact H2.
Qed.

(* the same-scope clash rule of _add_typedef_name / _add_identifier *)
Theorem add_identifier_clash : forall (P: Type) (s: pstate P) n c top rest,
  scopes P s = top :: rest -> scope_get n top = Some true ->
  exists l m, add_identifier P n c s = Err l m.
Proof.
  intros P s n c top rest Hs Hg. unfold add_identifier, bind, get. rewrite Hs, Hg. eexists; eexists; reflexivity.
Qed.
Theorem add_typedef_clash : forall (P: Type) (s: pstate P) n c top rest,
  scopes P s = top :: rest -> scope_get n top = Some false ->
  exists l m, add_typedef_name P n c s = Err l m.
Proof.
  intros P s n c top rest Hs Hg. unfold add_typedef_name, bind, get. rewrite Hs, Hg. eexists; eexists; reflexivity.
Qed.

(* ---- refinement of C's block-scope rule, for every declaration history ------------------- *)
(* The specification looks at the *history* of events, scanning backwards for the nearest
   declaration that is still in scope; the implementation keeps a stack of dictionaries. *)
Inductive event := EOpen | EClose | EDecl (n: option str) (is_typedef: bool).

Definition frame := list (option str * bool).

(* the scope-stack effect of the parser's operations (_push_scope, _pop_scope, _add_typedef_name,
   _add_identifier); None = the operation raises (unmatched close, same-scope clash) *)
Fixpoint run_events (evs: list event) (scs: list frame) : option (list frame) :=
  match evs with
  | [] => Some scs
  | EOpen :: r => run_events r ([] :: scs)
  | EClose :: r => match scs with _ :: ((_ :: _) as t) => run_events r t | _ => None end
  | EDecl n b :: r =>
    match scs with
    | top :: t =>
      match scope_get n top with
      | Some b' => if Bool.eqb b b' then run_events r (scope_set n b top :: t) else None
      | None => run_events r (scope_set n b top :: t)
      end
    | [] => None
    end
  end.

(* specification (C99 6.2.1): h is the history, most recent event first; skip counts the closed
   blocks we are currently scanning over *)
Fixpoint lookup_back (h: list event) (skip: nat) (n: option str) : bool :=
  match h with
  | [] => false
  | EClose :: r => lookup_back r (S skip) n
  | EOpen :: r => lookup_back r (Nat.pred skip) n
  | EDecl m b :: r => if Nat.eqb skip 0 && name_eqb n m then b else lookup_back r skip n
  end.

Definition Inv (scs: list frame) (h: list event) : Prop :=
  scs <> [] /\ forall n k, (k < length scs)%nat -> is_type_in n (skipn k scs) = lookup_back h k n.

Lemma scope_get_set_eq : forall n m b sc, name_eqb n m = true -> scope_get n (scope_set m b sc) = Some b.
Proof.
  intros n m b sc E. induction sc as [|[k v] r IH]; cbn.
  - rewrite E. reflexivity.
  - destruct (name_eqb m k) eqn:E2; cbn.
    + rewrite (name_eqb_trans _ _ _ E E2). reflexivity.
    + destruct (name_eqb n k) eqn:E3; [|exact IH].
      exfalso. rewrite name_eqb_sym in E. rewrite (name_eqb_trans _ _ _ E E3) in E2. discriminate.
Qed.

Lemma is_type_in_set : forall n m b top t,
  is_type_in n (scope_set m b top :: t) = if name_eqb n m then b else is_type_in n (top :: t).
Proof.
  intros n m b top t. destruct (name_eqb n m) eqn:E.
  - cbn. rewrite (scope_get_set_eq _ _ _ _ E). reflexivity.
  - apply lookup_other_name. exact E.
Qed.

Lemma step_inv : forall e scs h scs1,
  Inv scs h -> run_events [e] scs = Some scs1 -> Inv scs1 (e :: h).
Proof.
  intros e scs h scs1 [Hne HI] Hr. destruct e as [| |m b]; cbn in Hr.
  - inversion Hr; subst. split; [discriminate|]. intros n k Hk. destruct k as [|k]; cbn [skipn lookup_back Nat.pred].
    + rewrite lookup_fresh_scope. apply (HI n 0%nat). destruct scs; [congruence|cbn; lia].
    + apply HI. cbn in Hk. lia.
  - destruct scs as [|top [|f2 t]]; try discriminate. inversion Hr; subst. split; [discriminate|].
    intros n k Hk. cbn [lookup_back]. specialize (HI n (S k)). cbn [skipn] in HI. apply HI. cbn in *. lia.
  - destruct scs as [|top t]; [discriminate|].
    assert (Hs: scs1 = scope_set m b top :: t).
    { destruct (scope_get m top) as [b'|]; [destruct (Bool.eqb b b'); [|discriminate]|]; inversion Hr; reflexivity. }
    subst scs1. split; [discriminate|]. intros n k Hk. destruct k as [|k]; cbn [skipn lookup_back Nat.eqb andb].
    + rewrite is_type_in_set. destruct (name_eqb n m); [reflexivity|]. apply (HI n 0%nat). cbn. lia.
    + specialize (HI n (S k)). cbn [skipn] in HI. apply HI. cbn in *. lia.
Qed.

Lemma run_events_cons : forall e r scs, run_events (e :: r) scs =
  match run_events [e] scs with Some s1 => run_events r s1 | None => None end.
Proof.
  intros e r scs. destruct e as [| |m b]; cbn.
  - reflexivity.
  - destruct scs as [|top [|f2 t]]; reflexivity.
  - destruct scs as [|top t]; [reflexivity|].
    destruct (scope_get m top) as [b'|]; [destruct (Bool.eqb b b')|]; reflexivity.
Qed.

Lemma run_inv : forall evs scs h scs', Inv scs h -> run_events evs scs = Some scs' -> Inv scs' (rev evs ++ h).
Proof.
  induction evs as [|e r IH]; intros scs h scs' HI Hr.
  - cbn in Hr. inversion Hr; subst. exact HI.
  - rewrite run_events_cons in Hr. destruct (run_events [e] scs) as [s1|] eqn:E; [|discriminate].
    cbn [rev]. rewrite <- app_assoc. cbn [app]. eapply IH; [|exact Hr]. eapply step_inv; eauto.
Qed.

(* For every history of scope entries, scope exits and declarations that the parser's operations
   accept, an identifier is a type name in the stack model exactly when the nearest declaration of
   it that is still in scope (scanning the history backwards) is a typedef. *)
Theorem scope_refines : forall evs scs n,
  run_events evs [[]] = Some scs -> is_type_in n scs = lookup_back (rev evs) 0 n.
Proof.
  intros evs scs n Hr.
  assert (H0: Inv [[]] []).
  { split; [discriminate|]. intros m k Hk. cbn in Hk. assert (k = 0)%nat by lia. subst. reflexivity. }
  pose proof (run_inv _ _ _ _ H0 Hr) as [Hne HI]. rewrite app_nil_r in HI.
  specialize (HI n 0%nat). cbn [skipn] in HI. apply HI.
  destruct scs; [congruence|cbn; lia].
Qed.

(* the events are what the parser's operations do to the stack *)
Theorem push_is_open : forall (P: Type) (s: pstate P), exists s', push_scope P s = Ok (tt, s') /\ Some (scopes P s') = run_events [EOpen] (scopes P s).
Proof. intros. eexists. split; reflexivity. Qed.

Theorem add_identifier_is_decl : forall (P: Type) (s s': pstate P) n c,
  add_identifier P n c s = Ok (tt, s') -> run_events [EDecl n false] (scopes P s) = Some (scopes P s').
Proof.
  intros P s s' n c H. unfold add_identifier, bind, get in H. destruct (scopes P s) as [|top t] eqn:Es; [discriminate|].
  destruct (scope_get n top) as [[|]|] eqn:Eg; try discriminate;
  unfold set_top in H; rewrite Es in H; inversion H; subst; cbn; rewrite Eg; reflexivity.
Qed.

Theorem add_typedef_is_decl : forall (P: Type) (s s': pstate P) n c,
  add_typedef_name P n c s = Ok (tt, s') -> run_events [EDecl n true] (scopes P s) = Some (scopes P s').
Proof.
  intros P s s' n c H. unfold add_typedef_name, bind, get in H. destruct (scopes P s) as [|top t] eqn:Es; [discriminate|].
  destruct (scope_get n top) as [[|]|] eqn:Eg; try discriminate;
  unfold set_top in H; rewrite Es in H; inversion H; subst; cbn; rewrite Eg; reflexivity.
Qed.
