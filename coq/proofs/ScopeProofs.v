(* C04: algebraic laws of the scope stack model (all names, all stacks). *)
From Coq Require Import List NArith Bool Arith.
Import ListNotations.
From PV Require Import Regex Base LexTables ParserTables NodeModel ParserBase.

Lemma name_eqb_refl : forall n, name_eqb n n = true.
Proof.
  destruct n as [s|]; [|reflexivity]. cbn. induction s as [|c s IH]; [reflexivity|].
  cbn. rewrite N.eqb_refl. exact IH.
Qed.

Lemma str_eqb_sym : forall a b, str_eqb a b = str_eqb b a.
Proof.
  induction a as [|x a IH]; destruct b as [|y b]; cbn; auto.
  rewrite N.eqb_sym. rewrite IH. reflexivity.
Qed.
Lemma name_eqb_sym : forall a b, name_eqb a b = name_eqb b a.
Proof. destruct a, b; cbn; auto. apply str_eqb_sym. Qed.

Lemma str_eqb_trans : forall a b c, str_eqb a b = true -> str_eqb b c = true -> str_eqb a c = true.
Proof.
  induction a as [|x a IH]; destruct b as [|y b]; destruct c as [|z c]; cbn; auto; try discriminate.
  intros H1 H2. apply andb_true_iff in H1. apply andb_true_iff in H2. destruct H1 as [A1 B1]. destruct H2 as [A2 B2].
  apply N.eqb_eq in A1. apply N.eqb_eq in A2. subst. rewrite N.eqb_refl. cbn. eapply IH; eauto.
Qed.
Lemma name_eqb_trans : forall a b c, name_eqb a b = true -> name_eqb b c = true -> name_eqb a c = true.
Proof. destruct a, b, c; cbn; auto; try discriminate. apply str_eqb_trans. Qed.

(* dict assignment then lookup *)
Lemma scope_get_set_same : forall n b sc, scope_get n (scope_set n b sc) = Some b.
Proof.
  intros n b sc. induction sc as [|[k v] r IH]; cbn.
  - rewrite name_eqb_refl. reflexivity.
  - destruct (name_eqb n k) eqn:E; cbn; rewrite E; [reflexivity|exact IH].
Qed.

Lemma scope_get_set_other : forall n m b sc, name_eqb m n = false -> scope_get m (scope_set n b sc) = scope_get m sc.
Proof.
  intros n m b sc Hne. induction sc as [|[k v] r IH]; cbn.
  - rewrite Hne. reflexivity.
  - destruct (name_eqb n k) eqn:E; cbn.
    + destruct (name_eqb m k) eqn:E2; [|reflexivity].
      exfalso. rewrite name_eqb_sym in E. pose proof (name_eqb_trans _ _ _ E2 E) as H. congruence.
    + destruct (name_eqb m k); [reflexivity|exact IH].
Qed.

(* a declaration in the innermost scope decides the lookup of its own name ... *)
Theorem lookup_after_declare : forall n b top rest,
  is_type_in n (scope_set n b top :: rest) = b.
Proof. intros. cbn. rewrite scope_get_set_same. reflexivity. Qed.

(* ... and of no other name *)
Theorem lookup_other_name : forall n m b top rest, name_eqb m n = false ->
  is_type_in m (scope_set n b top :: rest) = is_type_in m (top :: rest).
Proof. intros. cbn. rewrite scope_get_set_other by assumption. reflexivity. Qed.

(* entering a scope changes nothing until something is declared in it; leaving it restores the outer view *)
Theorem lookup_fresh_scope : forall n scs, is_type_in n ([] :: scs) = is_type_in n scs.
Proof. reflexivity. Qed.

(* an inner ordinary declaration hides an outer typedef, an inner typedef re-introduces the name *)
Theorem inner_hides_outer : forall n b b' top outer rest,
  is_type_in n (scope_set n b top :: scope_set n b' outer :: rest) = b.
Proof. intros. apply lookup_after_declare. Qed.

(* a name never declared is not a type *)
Theorem undeclared_not_type : forall n scs,
  forallb (fun sc => match scope_get n sc with None => true | Some _ => false end) scs = true -> is_type_in n scs = false.
Proof.
  intros n scs. induction scs as [|sc r IH]; cbn; [reflexivity|].
  intros H. apply andb_true_iff in H. destruct H as [H1 H2].
  destruct (scope_get n sc); [discriminate|]. apply IH. exact H2.
Qed.

(* the same-scope clash rule of _add_typedef_name / _add_identifier *)
Theorem add_identifier_clash : forall (P: Type) (s: pstate P) n c top rest,
  scopes P s = top :: rest -> scope_get n top = Some true ->
  exists l m, add_identifier P n c s = Err l m.
Proof.
  intros P s n c top rest Hs Hg. unfold add_identifier, bind, get. rewrite Hs, Hg. eexists; eexists; reflexivity.
Qed.
Theorem add_typedef_clash : forall (P: Type) (s: pstate P) n c top rest,
  scopes P s = top :: rest -> scope_get n top = Some false ->
  exists l m, add_typedef_name P n c s = Err l m.
Proof.
  intros P s n c top rest Hs Hg. unfold add_typedef_name, bind, get. rewrite Hs, Hg. eexists; eexists; reflexivity.
Qed.
