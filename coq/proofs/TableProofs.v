(* Table theorems: the regenerated lexer/parser tables against the C99 tables of spec/CSpec.v.
   Every statement is a finite computation over tables regenerated from /repo on each run. *)
From Coq Require Import List NArith Bool Arith String.
Import ListNotations.
From PV Require Import Regex Base LexTables ParserTables CSpec.

Definition kw_kind (s: string) : option kind := assoc_str (s2l s) keyword_map.
Definition punct_kind (s: string) : option kind :=
  option_map fst (find (fun e => str_eqb (snd e) (s2l s)) fixed_tokens).
Definition kmem (k: kind) (l: list kind) : bool := existsb (kind_eqb k) l.
Definition okmem (k: option kind) (l: list kind) : bool := match k with Some k => kmem k l | None => false end.
Definition is_some {A} (o: option A) : bool := match o with Some _ => true | None => false end.

(* every C99 keyword and each documented C11 keyword is a keyword of the lexer, each with its own class *)
Theorem keywords_covered : forallb (fun s => is_some (kw_kind s)) (c99_keywords ++ c11_keywords) = true.
Proof. vm_compute. reflexivity. Qed.

Fixpoint nodup_kinds (l: list kind) : bool :=
  match l with [] => true | k :: r => negb (kmem k r) && nodup_kinds r end.
Theorem keyword_classes_distinct : nodup_kinds (map snd keyword_map) = true.
Proof. vm_compute. reflexivity. Qed.

(* every C99 punctuator of 6.4.6 is a fixed token, each with its own class *)
Theorem punctuators_covered : forallb (fun s => is_some (punct_kind s)) c99_punctuators = true.
Proof. vm_compute. reflexivity. Qed.
Theorem punctuator_classes_distinct : nodup_kinds (map fst fixed_tokens) = true.
Proof. vm_compute. reflexivity. Qed.

(* ... but the digraphs are not (full statement refuted): *)
Theorem digraphs_covered_refuted : forallb (fun s => is_some (punct_kind s)) c99_digraphs = false.
Proof. vm_compute. reflexivity. Qed.

(* the parser's binary precedence table is exactly C99's level assignment *)
Definition prec_lookup (k: kind) : option nat :=
  (fix go (l: list (kind * nat)) := match l with [] => None | (k', p) :: r => if kind_eqb k k' then Some p else go r end) tbl_BINARY_PRECEDENCE.

Theorem precedence_is_c99 :
  forallb (fun e => match punct_kind (fst e) with
                    | Some k => match prec_lookup k with Some p => Nat.eqb p (snd e) | None => false end
                    | None => false end) c99_binary_levels = true
  /\ List.length tbl_BINARY_PRECEDENCE = List.length c99_binary_levels.
Proof. split; vm_compute; reflexivity. Qed.

Theorem assignment_ops_are_c99 :
  forallb (fun s => okmem (punct_kind s) tbl_ASSIGNMENT_OPS) c99_assignment_ops = true
  /\ List.length tbl_ASSIGNMENT_OPS = List.length c99_assignment_ops.
Proof. split; vm_compute; reflexivity. Qed.

(* FIRST(declaration-specifiers): every keyword that may start declaration specifiers is in _DECL_START *)
Theorem decl_start_covers_c99 :
  forallb (fun s => okmem (kw_kind s) tbl_DECL_START)
          (c99_storage_class ++ c99_type_qualifier ++ c99_function_spec ++ c99_type_spec_kw ++
           ["_Alignas"; "_Atomic"; "_Noreturn"; "_Thread_local"]%string) = true
  /\ kmem K_TYPEID tbl_DECL_START = true.
Proof. split; vm_compute; reflexivity. Qed.

(* the declaration / expression decision is deterministic: the two FIRST sets are disjoint *)
Theorem decl_expr_disjoint : forallb (fun k => negb (kmem k tbl_STARTS_EXPRESSION)) tbl_DECL_START = true.
Proof. vm_compute. reflexivity. Qed.

(* FIRST(expression) contains the identifier, every constant and string class, '(' and all prefix operators *)
Theorem starts_expression_covers :
  forallb (fun k => kmem k tbl_STARTS_EXPRESSION)
    ([K_ID; K_LPAREN; K_SIZEOF; K_uALIGNOF] ++ tbl_INT_CONST ++ tbl_FLOAT_CONST ++ tbl_CHAR_CONST ++ tbl_STRING_LITERAL ++ tbl_WSTR_LITERAL) = true
  /\ forallb (fun s => okmem (punct_kind s) tbl_STARTS_EXPRESSION) ["++"; "--"; "&"; "*"; "+"; "-"; "~"; "!"]%string = true.
Proof. split; vm_compute; reflexivity. Qed.

(* FIRST(statement) beyond expressions *)
Theorem starts_statement_covers :
  forallb (fun s => okmem (kw_kind s) tbl_STARTS_STATEMENT)
    ["if"; "switch"; "while"; "do"; "for"; "goto"; "break"; "continue"; "return"; "case"; "default"]%string = true
  /\ forallb (fun s => okmem (punct_kind s) tbl_STARTS_STATEMENT) ["{"; ";"]%string = true.
Proof. split; vm_compute; reflexivity. Qed.

(* no binary operator token is an assignment operator or starts a declaration *)
Theorem binop_not_assign : forallb (fun e => negb (kmem (fst e) tbl_ASSIGNMENT_OPS)) tbl_BINARY_PRECEDENCE = true.
Proof. vm_compute. reflexivity. Qed.

(* ---- the generator's precedence table mirrors the parser's ----------------------------- *)
From PV Require Import GenTables.
Definition punct_kind_l (s: list N) : option kind :=
  option_map fst (find (fun e => str_eqb (snd e) s) fixed_tokens).

Theorem generator_precedence_mirrors_parser :
  forallb (fun e => match punct_kind_l (fst e) with
                    | Some k => match prec_lookup k with Some p => Nat.eqb p (snd e) | None => false end
                    | None => false end) gen_precedence_map = true
  /\ List.length gen_precedence_map = List.length tbl_BINARY_PRECEDENCE.
Proof. split; vm_compute; reflexivity. Qed.
