(* C07 / C05, generator side of StmtTrip: for every statement of StmtTrip.st (blocks included) the generator MODEL
   (_generate_stmt, visit_If / visit_While / visit_DoWhile / visit_For / visit_Return / visit_Break /
   visit_Continue / visit_Goto / visit_EmptyStatement / visit_Compound) prints [gst rp lv x] at indentation level lv and
   restores the indentation level; that text with blanks and newlines removed is the concatenation of
   the spellings of the token sequence [stoks rp x]. *)
From Coq Require Import String.
From Coq Require Import List NArith ZArith Bool Arith Lia.
Import ListNotations.
From PV Require Import Regex Base AstDefs AstSpec AstImpl GenTables NodeModel Generator ClimbProofs GenParen GenBinop.
From PV Require Import LexTables ParserTables LexerProofs TableProofs RoundTrip RoundTripGen RoundTripX GenExpr DeclTrip StmtTrip.
Open Scope nat_scope.

Section GS.
Variable C : Type.
Variable rp : bool.
Variable dok : bool.
Notation swf := (swfd dok).
Notation swfl := (StmtTrip.swfl dok).
Notation node := (value C).
Notation embC := (embC C).
Notation ptext := (ptext rp).

Definition oembC (o: option ex) : node := match o with Some e => embC e | None => VNone end.
Definition tdx (vs: list str) (x: str) : node := VNode C_TypeDecl [VStr x; VList []; VNone; VNode C_IdentifierType [VList (map (fun v => VStr v) vs)] None] None.
Fixpoint embS (x: st) : node :=
  match x with
  | SExpr e => embC e
  | SEmpty => VNode C_EmptyStatement [] None
  | SReturn o => VNode C_Return [oembC o] None
  | SBreak => VNode C_Break [] None
  | SContinue => VNode C_Continue [] None
  | SGoto l => VNode C_Goto [VStr l] None
  | SIf c th el => VNode C_If [embC c; embS th; match el with Some e => embS e | None => VNone end] None
  | SWhile c b => VNode C_While [embC c; embS b] None
  | SDo b c => VNode C_DoWhile [embC c; embS b] None
  | SFor i c n b => VNode C_For [oembC i; oembC c; oembC n; embS b] None
  | SBlock items => VNode C_Compound [match items with [] => VNone | _ => VList (map embS items) end] None
  | SLabel l b => VNode C_Label [VStr l; embS b] None
  | SDecl ty x i => VNode C_Decl [VStr x; VList []; VList []; VList []; VList []; tdx (map snd ty) x; oembC i; VNone] None
  end.

Definition ind (lv: Z) : str := repeat 32%N (Z.to_nat lv).
Definition nl : str := [10%N].
Definition isif (x: st) : bool := match x with SIf _ _ _ => true | _ => false end.
Definition isexpr (x: st) : bool := match x with SExpr _ | SDecl _ _ _ => true | _ => false end.   (* gets a `;` from _generate_stmt *)
Definition isblock (x: st) : bool := match x with SBlock _ => true | _ => false end.

(* what _generate_stmt makes of the text v that visit printed for y, with the indentation string pre *)
Definition wrapg (pre: str) (y: st) (v: str) : str :=
  if isblock y then v else pre ++ (if isexpr y then v ++ s ";" ++ nl else if isif y then v else v ++ nl).

Definition ot1 (o: option ex) : str := match o with Some e => ptext e | None => [] end.
Definition ot2 (o: option ex) : str := match o with Some e => s " " ++ ptext e | None => [] end.

(* vis x lv: what visit prints for the statement node at indentation level lv *)
Fixpoint vis (x: st) (lv: Z) : str :=
  match x with
  | SExpr e => ptext e
  | SEmpty => s ";"
  | SReturn None => s "return;"
  | SReturn (Some e) => s "return" ++ s " " ++ ptext e ++ s ";"
  | SBreak => s "break;"
  | SContinue => s "continue;"
  | SGoto l => s "goto " ++ l ++ s ";"
  | SIf c th None => s "if (" ++ ptext c ++ s ")" ++ nl ++ wrapg (ind (lv + 2)) th (vis th lv)
  | SIf c th (Some el) => s "if (" ++ ptext c ++ s ")" ++ nl ++ wrapg (ind (lv + 2)) th (vis th lv) ++ ind lv ++ s "else" ++ nl ++ wrapg (ind (lv + 2)) el (vis el lv)
  | SWhile c b => s "while (" ++ ptext c ++ s ")" ++ nl ++ wrapg (ind (lv + 2)) b (vis b lv)
  | SDo b c => s "do" ++ nl ++ wrapg (ind (lv + 2)) b (vis b lv) ++ ind lv ++ s "while (" ++ ptext c ++ s ");"
  | SFor i c n b => s "for (" ++ ot1 i ++ s ";" ++ ot2 c ++ s ";" ++ ot2 n ++ s ")" ++ nl ++ wrapg (ind (lv + 2)) b (vis b lv)
  | SBlock items => ind lv ++ s "{" ++ nl ++ concat_str (map (fun y => wrapg (ind (lv + 2)) y (vis y (lv + 2))) items) ++ ind lv ++ s "}" ++ nl
  | SLabel l b => l ++ s ":" ++ nl ++ wrapg (ind lv) b (vis b lv)
  | SDecl ty x i => join_str (s " ") (map snd ty) ++ s " " ++ x ++
                    match i with Some e => s " = " ++ (if iscomma e then s "(" ++ ptext e ++ s ")" else ptext e) | None => [] end
  end.
Definition gst (lv: Z) (y: st) : str := wrapg (ind (lv + 2)) y (vis y lv).    (* _generate_stmt(y, add_indent=True) at level lv *)
Definition gs0 (lv: Z) (y: st) : str := wrapg (ind lv) y (vis y lv).          (* _generate_stmt(y) at level lv *)

(* fuel that suffices *)
Definition osize (o: option ex) : nat := match o with Some e => size e | None => 0 end.
Fixpoint cost (x: st) : nat :=
  match x with
  | SExpr e => 3 * size e + 2
  | SReturn o => 3 * osize o + 2
  | SIf c th el => 3 * size c + cost th + match el with Some e => cost e | None => 0 end + 2
  | SWhile c b | SDo b c => 3 * size c + cost b + 2
  | SFor i c n b => 3 * osize i + 3 * osize c + 3 * osize n + cost b + 2
  | SBlock items => list_sum (map cost items) + 2
  | SLabel _ b => cost b + 2
  | SDecl _ _ i => 3 * osize i + 8
  | _ => 2
  end.

Lemma gs_eq : forall f n addi,
  generate_stmt C rp (S f) n addi =
  gbind (if addi then add_indent 2 else gret tt) (fun _ => gbind make_indent (fun i0 =>
  gbind (if addi then add_indent (-2) else gret tt) (fun _ =>
  if stmt_with_semicolon C n then gbind (visit C rp f n) (fun x => gret (i0 ++ x ++ s ";" ++ [10%N]))
  else if is_c C C_Compound n then visit C rp f n
  else if is_c C C_If n then gbind (visit C rp f n) (fun x => gret (i0 ++ x))
  else gbind (visit C rp f n) (fun x => gret (i0 ++ x ++ [10%N]))))).
Proof. reflexivity. Qed.

Lemma semi_emb : forall e, stmt_with_semicolon C (embC e) = true.
Proof. destruct e; reflexivity. Qed.

(* the tail of _generate_stmt once the indentation string is known *)
Lemma gs_tail : forall f x lv pre v, visit C rp f (embS x) lv = GOk (v, lv) ->
  (if stmt_with_semicolon C (embS x) then gbind (visit C rp f (embS x)) (fun t => gret (pre ++ t ++ s ";" ++ [10%N]))
   else if is_c C C_Compound (embS x) then visit C rp f (embS x)
   else if is_c C C_If (embS x) then gbind (visit C rp f (embS x)) (fun t => gret (pre ++ t))
   else gbind (visit C rp f (embS x)) (fun t => gret (pre ++ t ++ [10%N]))) lv = GOk (wrapg pre x v, lv).
Proof.
  intros f x lv pre v Hv. unfold wrapg. destruct x as [e| |o| | |l|c th el|c b|b c|i c nx b|items|lb b|ty dx di]; cbn [embS isexpr isif isblock] in *.
  13: { set (N := VNode C_Decl _ None) in *. change (stmt_with_semicolon C N) with true. cbv iota. unfold gbind. rewrite Hv. reflexivity. }
  - rewrite semi_emb. unfold gbind. rewrite Hv. reflexivity.
  - change (stmt_with_semicolon C (VNode C_EmptyStatement [] None)) with false. cbv iota.
    change (is_c C C_Compound (VNode C_EmptyStatement [] None)) with false. change (is_c C C_If (VNode C_EmptyStatement [] None)) with false. cbv iota.
    unfold gbind. rewrite Hv. reflexivity.
  - change (stmt_with_semicolon C (VNode C_Return [oembC o] None)) with false. cbv iota.
    change (is_c C C_Compound (VNode C_Return [oembC o] None)) with false. change (is_c C C_If (VNode C_Return [oembC o] None)) with false. cbv iota.
    unfold gbind. rewrite Hv. reflexivity.
  - change (stmt_with_semicolon C (VNode C_Break [] None)) with false. cbv iota.
    change (is_c C C_Compound (VNode C_Break [] None)) with false. change (is_c C C_If (VNode C_Break [] None)) with false. cbv iota. unfold gbind. rewrite Hv. reflexivity.
  - change (stmt_with_semicolon C (VNode C_Continue [] None)) with false. cbv iota.
    change (is_c C C_Compound (VNode C_Continue [] None)) with false. change (is_c C C_If (VNode C_Continue [] None)) with false. cbv iota. unfold gbind. rewrite Hv. reflexivity.
  - change (stmt_with_semicolon C (VNode C_Goto [VStr l] None)) with false. cbv iota.
    change (is_c C C_Compound (VNode C_Goto [VStr l] None)) with false. change (is_c C C_If (VNode C_Goto [VStr l] None)) with false. cbv iota. unfold gbind. rewrite Hv. reflexivity.
  - set (N := VNode C_If _ None) in *. change (stmt_with_semicolon C N) with false. cbv iota.
    change (is_c C C_Compound N) with false. change (is_c C C_If N) with true. cbv iota. unfold gbind. rewrite Hv. reflexivity.
  - set (N := VNode C_While _ None) in *. change (stmt_with_semicolon C N) with false. cbv iota.
    change (is_c C C_Compound N) with false. change (is_c C C_If N) with false. cbv iota. unfold gbind. rewrite Hv. reflexivity.
  - set (N := VNode C_DoWhile _ None) in *. change (stmt_with_semicolon C N) with false. cbv iota.
    change (is_c C C_Compound N) with false. change (is_c C C_If N) with false. cbv iota. unfold gbind. rewrite Hv. reflexivity.
  - set (N := VNode C_For _ None) in *. change (stmt_with_semicolon C N) with false. cbv iota.
    change (is_c C C_Compound N) with false. change (is_c C C_If N) with false. cbv iota. unfold gbind. rewrite Hv. reflexivity.
  - set (N := VNode C_Compound _ None) in *. change (stmt_with_semicolon C N) with false. cbv iota.
    change (is_c C C_Compound N) with true. cbv iota. exact Hv.
  - set (N := VNode C_Label _ None) in *. change (stmt_with_semicolon C N) with false. cbv iota.
    change (is_c C C_Compound N) with false. change (is_c C C_If N) with false. cbv iota. unfold gbind. rewrite Hv. reflexivity.
Qed.

Lemma gs_run_t : forall f x lv v, visit C rp f (embS x) lv = GOk (v, lv) ->
  generate_stmt C rp (S f) (embS x) true lv = GOk (wrapg (ind (lv + 2)) x v, lv).
Proof.
  intros f x lv v Hv. rewrite gs_eq. unfold gbind at 1. unfold add_indent at 1. unfold gbind at 1. unfold make_indent, get_indent. unfold gbind at 1.
  unfold gret at 1. unfold gbind at 1. unfold add_indent at 1. replace (lv + 2 + -2)%Z with lv by lia.
  apply (gs_tail f x lv (repeat 32%N (Z.to_nat (lv + 2))) v Hv).
Qed.
Lemma gs_run_f : forall f x lv v, visit C rp f (embS x) lv = GOk (v, lv) ->
  generate_stmt C rp (S f) (embS x) false lv = GOk (wrapg (ind lv) x v, lv).
Proof.
  intros f x lv v Hv. rewrite gs_eq. unfold gbind at 1. unfold gret at 1. unfold gbind at 1. unfold make_indent, get_indent. unfold gbind at 1.
  unfold gret at 1. unfold gbind at 1. unfold gret at 1.
  apply (gs_tail f x lv (repeat 32%N (Z.to_nat lv)) v Hv).
Qed.

Lemma visit_if : forall f c t e co,
  visit C rp (S f) (VNode C_If [c; t; e] co) =
  gbind (if truthy_v C c then visit C rp f c else gret []) (fun cs => gbind (generate_stmt C rp f t true) (fun ts =>
  if truthy_v C e then
    gbind make_indent (fun i0 => gbind (generate_stmt C rp f e true) (fun es =>
    gret (s "if (" ++ cs ++ s ")" ++ [10%N] ++ ts ++ i0 ++ s "else" ++ [10%N] ++ es)))
  else gret (s "if (" ++ cs ++ s ")" ++ [10%N] ++ ts))).
Proof. reflexivity. Qed.
Lemma visit_while : forall f c b co,
  visit C rp (S f) (VNode C_While [c; b] co) =
  gbind (if truthy_v C c then visit C rp f c else gret []) (fun cs => gbind (generate_stmt C rp f b true) (fun ss =>
  gret (s "while (" ++ cs ++ s ")" ++ [10%N] ++ ss))).
Proof. reflexivity. Qed.
Lemma visit_do : forall f c b co,
  visit C rp (S f) (VNode C_DoWhile [c; b] co) =
  gbind (generate_stmt C rp f b true) (fun ss => gbind make_indent (fun i0 =>
  gbind (if truthy_v C c then visit C rp f c else gret []) (fun cs =>
  gret (s "do" ++ [10%N] ++ ss ++ i0 ++ s "while (" ++ cs ++ s ");")))).
Proof. reflexivity. Qed.
Lemma visit_for : forall f i c n b co,
  visit C rp (S f) (VNode C_For [i; c; n; b] co) =
  gbind (if truthy_v C i then visit C rp f i else gret []) (fun is' =>
  gbind (if truthy_v C c then gbind (visit C rp f c) (fun x => gret (s " " ++ x)) else gret []) (fun cs =>
  gbind (if truthy_v C n then gbind (visit C rp f n) (fun x => gret (s " " ++ x)) else gret []) (fun ns =>
  gbind (generate_stmt C rp f b true) (fun ss =>
  gret (s "for (" ++ is' ++ s ";" ++ cs ++ s ";" ++ ns ++ s ")" ++ [10%N] ++ ss))))).
Proof. reflexivity. Qed.
Lemma visit_return : forall f e co,
  visit C rp (S f) (VNode C_Return [e] co) =
  if truthy_v C e then gbind (visit C rp f e) (fun x => gret (s "return" ++ s " " ++ x ++ s ";")) else gret (s "return;").
Proof. reflexivity. Qed.
Lemma visit_compound : forall f bi co,
  visit C rp (S f) (VNode C_Compound [bi] co) =
  gbind make_indent (fun i0 => gbind (add_indent 2) (fun _ =>
  gbind (if truthy_v C bi then gbind (as_list C bi) (fun l => gbind (mapM (fun x => generate_stmt C rp f x false) l) (fun xs => gret (concat_str xs))) else gret []) (fun body =>
  gbind (add_indent (-2)) (fun _ => gbind make_indent (fun i2 =>
  gret (i0 ++ s "{" ++ [10%N] ++ body ++ i2 ++ s "}" ++ [10%N])))))).
Proof. reflexivity. Qed.

Lemma visit_label : forall f l b co,
  visit C rp (S f) (VNode C_Label [VStr l; b] co) =
  gbind (generate_stmt C rp f b false) (fun ss => gret (l ++ s ":" ++ [10%N] ++ ss)).
Proof. reflexivity. Qed.

Lemma truthy_emb : forall e, truthy_v C (embC e) = true.
Proof. destruct e; reflexivity. Qed.
Lemma truthy_embS : forall x, truthy_v C (embS x) = true.
Proof. destruct x; try reflexivity. apply truthy_emb. Qed.

Lemma mapM_gs : forall f items L, (forall y, In y items -> generate_stmt C rp f (embS y) false L = GOk (gs0 L y, L)) ->
  mapM (fun x => generate_stmt C rp f x false) (map embS items) L = GOk (map (gs0 L) items, L).
Proof.
  intros f items L. induction items as [|y r IH]; intros H; [reflexivity|]. cbn [map mapM].
  unfold gbind at 1. rewrite (H y (or_introl eq_refl)). unfold gbind at 1. rewrite IH by (intros z Hz; apply H; right; exact Hz). reflexivity.
Qed.

Lemma swfl_in : forall (l: list st) y, swfl l -> In y l -> bwfd dok y.
Proof. induction l as [|z r IH]; intros y Hw Hy; [destruct Hy|]. destruct Hw as [Hz Hr]. destruct Hy as [->|Hy]; [exact Hz|apply IH; assumption]. Qed.

(* visit_Decl on `T x` / `T x = e`: _generate_decl, _generate_type on the TypeDecl, the initializer through _visit_expr *)
Lemma gen_tdx : forall f vs x em st, x <> [] -> generate_type C rp (S (S f)) (tdx vs x) [] em st =
  GOk (join_str (s " ") vs ++ (if em then s " " ++ x else []), st).
Proof.
  intros f vs x em st Hx. destruct x as [|x0 xr]; [congruence|].
  change (generate_type C rp (S (S f)) (tdx vs (x0 :: xr)) [] em st) with
    (gbind (join_strs C (s " ") (VList (map (fun v => VStr v) vs))) (fun ts0 =>
       gbind (if em then gret (x0 :: xr) else gret []) (fun nstr0 =>
       gret (ts0 ++ (match nstr0 with [] => [] | _ => s " " ++ nstr0 end)))) st).
  unfold gbind at 1. unfold join_strs, join_list. unfold gbind at 1. rewrite strs_of_strs. unfold gret at 1.
  destruct em; unfold gbind, gret; cbn [app]; rewrite ?app_nil_r; reflexivity.
Qed.

Lemma visit_declS : forall ty x i, x <> [] -> owf i -> forall fuel lv, 3 * osize i + 8 <= fuel ->
  visit C rp fuel (embS (SDecl ty x i)) lv = GOk (vis (SDecl ty x i) lv, lv).
Proof.
  intros ty x i Hx Hi fuel lv Hf. do 5 (destruct fuel as [|fuel]; [lia|]). cbn [embS].
  set (T := tdx (map snd ty) x).
  change (visit C rp (S (S (S (S (S fuel))))) (VNode C_Decl [VStr x; VList []; VList []; VList []; VList []; T; oembC i; VNone] None) lv) with
    (gbind (gbind (gbind (generate_type C rp (S (S fuel)) T [] true) (fun t => gret ([] ++ [] ++ [] ++ t))) (fun x0 => gret (VStr x0))) (fun s0 =>
     gbind (gret s0) (fun s1 =>
     gbind (if truthy_v C (oembC i) then gbind (as_str C s1) (fun a => gbind (visit_expr C rp (S (S (S fuel))) (oembC i)) (fun x1 => gret (VStr (a ++ s " = " ++ x1)))) else gret s1) (fun s2 =>
     as_str C s2))) lv).
  unfold T. unfold gbind at 1. unfold gbind at 1. unfold gbind at 1. rewrite (gen_tdx fuel (map snd ty) x true lv Hx).
  unfold gret at 1. unfold gret at 1. cbn [app]. unfold gbind at 1. unfold gret at 1.
  destruct i as [e|]; cbn [oembC vis osize owf] in *.
  - rewrite truthy_emb. unfold gbind at 1. unfold gbind at 1. unfold as_str at 1. unfold gret at 1.
    rewrite visit_expr_emb.
    assert (HE: visit C rp (S (S fuel)) (embC e) lv = GOk (ptext e, lv)) by (apply (visit_prints_x C rp (size e) e (le_n _) Hi); lia).
    destruct (iscomma e); unfold gbind; rewrite HE; unfold gret, as_str; rewrite <- ?app_assoc; reflexivity.
  - unfold gbind, gret, as_str. rewrite app_nil_r. reflexivity.
Qed.

Lemma in_csum : forall (l: list st) a, In a l -> cost a <= list_sum (map cost l).
Proof.
  induction l as [|x r IH]; intros a H; [destruct H|]. change (list_sum (map cost (x :: r))) with (cost x + list_sum (map cost r)).
  destruct H as [E|H]; [subst a; lia|]. specialize (IH a H). lia.
Qed.

Theorem vis_prints : forall n x, ssize x <= n -> swf x -> forall fuel lv, cost x <= fuel -> visit C rp fuel (embS x) lv = GOk (vis x lv, lv).
Proof.
  induction n as [|n IH]; intros x Hn Hw fuel lv Hf; [destruct x; cbn in Hn; lia|].
  assert (HG: forall y f, ssize y <= n -> swf y -> cost y < f -> generate_stmt C rp f (embS y) true lv = GOk (gst lv y, lv)).
  { intros y f Hy Hwy Hfy. destruct f as [|f]; [lia|]. apply gs_run_t. apply IH; [exact Hy|exact Hwy|lia]. }
  assert (HE: forall e f, wf e -> 3 * size e <= f -> visit C rp f (embC e) lv = GOk (ptext e, lv)).
  { intros e f He Hfe. exact (visit_prints_x C rp (size e) e (le_n _) He f lv Hfe). }
  destruct x as [e| |o| | |l|c th el|c b|b c|i c nx b|items|lb b|ty dx di]; cbn [ssize] in Hn; cbn [swfd] in Hw; cbn [cost] in Hf; cbn [embS]; [| | | | | | | | | | | |contradiction].
  - apply HE; [exact Hw|lia].
  - destruct fuel as [|fu]; [lia|]. reflexivity.
  - destruct fuel as [|fu]; [lia|]. rewrite visit_return. destruct o as [e|]; cbn [oembC osize owf] in *; [|reflexivity].
    rewrite truthy_emb. unfold gbind. rewrite (HE e fu Hw) by lia. reflexivity.
  - destruct fuel as [|fu]; [lia|]. reflexivity.
  - destruct fuel as [|fu]; [lia|]. reflexivity.
  - destruct fuel as [|fu]; [lia|]. reflexivity.
  - destruct Hw as (Hc & Hth & Hel). destruct fuel as [|fu]; [lia|]. rewrite visit_if. rewrite truthy_emb.
    unfold gbind at 1. rewrite (HE c fu Hc) by lia. unfold gbind at 1. rewrite (HG th fu) by (try exact Hth; lia).
    destruct el as [el|].
    + destruct Hel as (_ & Hwel). rewrite truthy_embS. unfold gbind at 1. unfold make_indent, get_indent. unfold gbind at 1. unfold gret at 1.
      unfold gbind at 1. rewrite (HG el fu) by (try exact Hwel; lia). reflexivity.
    + reflexivity.
  - destruct Hw as (Hc & Hb). destruct fuel as [|fu]; [lia|]. rewrite visit_while. rewrite truthy_emb.
    unfold gbind at 1. rewrite (HE c fu Hc) by lia. unfold gbind at 1. rewrite (HG b fu) by (try exact Hb; lia). reflexivity.
  - destruct Hw as (Hb & Hc). destruct fuel as [|fu]; [lia|]. rewrite visit_do.
    unfold gbind at 1. rewrite (HG b fu) by (try exact Hb; lia). unfold gbind at 1. unfold make_indent, get_indent. unfold gbind at 1. unfold gret at 1.
    rewrite truthy_emb. unfold gbind at 1. rewrite (HE c fu Hc) by lia. reflexivity.
  - destruct Hw as (Hi & Hc & Hnx & Hb). destruct fuel as [|fu]; [lia|]. rewrite visit_for.
    assert (E1: (if truthy_v C (oembC i) then visit C rp fu (oembC i) else gret []) lv = GOk (ot1 i, lv)).
    { destruct i as [e|]; cbn [oembC osize owf ot1] in *; [rewrite truthy_emb; apply HE; [exact Hi|lia]|reflexivity]. }
    assert (E2: (if truthy_v C (oembC c) then gbind (visit C rp fu (oembC c)) (fun x => gret (s " " ++ x)) else gret []) lv = GOk (ot2 c, lv)).
    { destruct c as [e|]; cbn [oembC osize owf ot2] in *; [rewrite truthy_emb; unfold gbind; rewrite (HE e fu Hc) by lia; reflexivity|reflexivity]. }
    assert (E3: (if truthy_v C (oembC nx) then gbind (visit C rp fu (oembC nx)) (fun x => gret (s " " ++ x)) else gret []) lv = GOk (ot2 nx, lv)).
    { destruct nx as [e|]; cbn [oembC osize owf ot2] in *; [rewrite truthy_emb; unfold gbind; rewrite (HE e fu Hnx) by lia; reflexivity|reflexivity]. }
    unfold gbind at 1. rewrite E1. unfold gbind at 1. rewrite E2. unfold gbind at 1. rewrite E3.
    unfold gbind at 1. rewrite (HG b fu) by (try exact Hb; lia). reflexivity.
  - (* block *)
    destruct fuel as [|fu]; [lia|]. rewrite visit_compound.
    unfold gbind at 1. unfold make_indent at 1, get_indent. unfold gbind at 1. unfold gret at 1.
    unfold gbind at 1. unfold add_indent at 1.
    destruct items as [|y0 r0].
    + cbn [truthy_v]. unfold gbind at 1. unfold gret at 1. unfold gbind at 1. unfold add_indent at 1. replace (lv + 2 + -2)%Z with lv by lia.
      unfold gbind at 1. unfold make_indent, get_indent. unfold gbind at 1. unfold gret. cbn [vis map concat_str]. reflexivity.
    + set (items := y0 :: r0) in *. change (truthy_v C (VList (map embS items))) with true. cbv iota.
      unfold gbind at 1. unfold gbind at 1. unfold as_list at 1. unfold gret at 1. unfold gbind at 1.
      assert (HM: mapM (fun x => generate_stmt C rp fu x false) (map embS items) (lv + 2)%Z = GOk (map (gs0 (lv + 2)) items, (lv + 2)%Z)).
      { apply mapM_gs. intros y Hy. assert (Hwy: bwfd dok y) by (exact (swfl_in items y Hw Hy)).
        pose proof (in_ssum items y Hy) as Hsy. pose proof (in_csum items y Hy) as Hcy.
        destruct fu as [|fu']; [lia|]. apply gs_run_f.
        destruct y as [e| |o| | |l|c th el|c b|b c|i c nx b|items2|lb b|ty dx di]; try (apply IH; [lia|exact Hwy|lia]).
        cbn [bwfd] in Hwy. destruct Hwy as (_ & _ & _ & Hi & Hx). apply visit_declS; [exact Hx|exact Hi|cbn [cost] in Hcy; lia]. }
      rewrite HM. unfold gret at 1. unfold gbind at 1. unfold add_indent at 1. replace (lv + 2 + -2)%Z with lv by lia.
      unfold gbind at 1. unfold make_indent, get_indent. unfold gbind at 1. unfold gret. cbn [vis]. reflexivity.
  - (* label *)
    destruct fuel as [|fu]; [lia|]. rewrite visit_label. destruct fu as [|fu']; [lia|].
    unfold gbind at 1. rewrite (gs_run_f fu' b lv (vis b lv)) by (apply IH; [lia|exact Hw|lia]). reflexivity.
Qed.

(* what _generate_stmt prints for a statement in a sub-statement position *)
Theorem gst_prints : forall x, swf x -> forall fuel lv, cost x < fuel -> generate_stmt C rp fuel (embS x) true lv = GOk (gst lv x, lv).
Proof.
  intros x Hw fuel lv Hf. destruct fuel as [|f]; [lia|]. apply gs_run_t. apply (vis_prints (ssize x) x (le_n _) Hw). lia.
Qed.
End GS.

(* ---- the text and the tokens ---- *)
Definition nn (c: N) : bool := negb (N.eqb c 10).
Definition despace2 (t: str) : str := filter nn (despace t).
Lemma despace2_app : forall a b, despace2 (a ++ b) = despace2 a ++ despace2 b.
Proof. intros a b. unfold despace2. rewrite despace_app. apply filter_app. Qed.
Lemma despace2_ind : forall lv, despace2 (ind lv) = [].
Proof. intros lv. unfold ind, despace2, despace. induction (Z.to_nat lv) as [|n IH]; [reflexivity|]. cbn [repeat filter]. exact IH. Qed.

Definition oall (Q: ex -> Prop) (o: option ex) : Prop := match o with Some e => Q e | None => True end.
Fixpoint sexprs (Q: ex -> Prop) (x: st) : Prop :=
  match x with
  | SExpr e => Q e
  | SReturn o => oall Q o
  | SGoto l => despace2 l = l
  | SIf c th el => Q c /\ sexprs Q th /\ match el with Some e => sexprs Q e | None => True end
  | SWhile c b | SDo b c => Q c /\ sexprs Q b
  | SFor i c n b => oall Q i /\ oall Q c /\ oall Q n /\ sexprs Q b
  | SLabel l b => despace2 l = l /\ sexprs Q b
  | SBlock items => (fix al (l: list st) : Prop := match l with [] => True | y :: r => sexprs Q y /\ al r end) items
  | SDecl ty x i => despace2 x = x /\ Forall (fun kv : kind * str => despace2 (snd kv) = snd kv) ty /\ oall Q i
  | _ => True
  end.
Definition sexprsl (Q: ex -> Prop) (l: list st) : Prop :=
  (fix al (l: list st) : Prop := match l with [] => True | y :: r => sexprs Q y /\ al r end) l.

(* an expression whose spellings contain neither blanks nor newlines *)
Definition eok (rp: bool) (e: ex) : Prop := wf e /\ ids_nb e /\ filter nn (spell (xt rp e)) = spell (xt rp e).
Lemma eok_text : forall rp e, eok rp e -> despace2 (ptext rp e) = spell (xt rp e).
Proof. intros rp e (Hw & Hn & Hl). unfold despace2. rewrite (ptext_tokens rp (size e) e (le_n _) Hw Hn). exact Hl. Qed.

(* the statement's own text: what visit printed, plus the `;` that _generate_stmt adds to an expression *)
Definition vt (y: st) (v: str) : str := if isexpr y then v ++ s ";" else v.
Lemma wrapg_text : forall pre y v, despace2 pre = [] -> despace2 (wrapg pre y v) = despace2 (vt y v).
Proof.
  intros pre y v Hp. unfold wrapg, vt. destruct (isblock y) eqn:Eb; [destruct y; try discriminate Eb; reflexivity|].
  rewrite despace2_app, Hp. cbn [app]. destruct (isexpr y); [rewrite !despace2_app; unfold nl; cbn; rewrite ?app_nil_r; reflexivity|].
  destruct (isif y); [reflexivity|]. rewrite despace2_app. unfold nl. cbn. rewrite ?app_nil_r. reflexivity.
Qed.

Lemma oall_text : forall rp o, oall (eok rp) o -> despace2 (ot1 rp o) = spell (oxt rp o).
Proof. intros rp [e|] H; [apply eok_text; exact H|reflexivity]. Qed.
Lemma oall_text_sp : forall rp o, oall (eok rp) o -> despace2 (ot2 rp o) = spell (oxt rp o).
Proof. intros rp [e|] H; [unfold ot2; rewrite despace2_app; cbn [oxt]; rewrite (eok_text rp e H); reflexivity|reflexivity]. Qed.
Lemma spell_cons : forall k v y, spell ((k, v) :: y) = v ++ spell y.
Proof. reflexivity. Qed.

Lemma concat_text : forall rp (f: st -> str) items, (forall y, In y items -> despace2 (f y) = spell (stoks rp y)) ->
  despace2 (concat_str (map f items)) = spell (concat (map (stoks rp) items)).
Proof.
  intros rp f items. induction items as [|y r IH]; intros H; [reflexivity|]. cbn [map concat_str concat].
  rewrite despace2_app, spell_app, (H y (or_introl eq_refl)), IH by (intros z Hz; apply H; right; exact Hz). reflexivity.
Qed.
Lemma despace2_join : forall ty, Forall (fun kv : kind * str => despace2 (snd kv) = snd kv) ty ->
  despace2 (join_str (s " ") (map snd ty)) = spell ty.
Proof.
  induction ty as [|[k v] r IH]; intros H; [reflexivity|]. inversion H as [|x y Hv Hr]; subst x y. cbn [snd] in Hv.
  cbn [map snd join_str]. destruct r as [|[k2 v2] r2].
  - cbn [map]. rewrite Hv. unfold spell. cbn. rewrite app_nil_r. reflexivity.
  - change (map snd ((k2, v2) :: r2)) with (v2 :: map snd r2) in *. cbn [join_str] in *.
    rewrite !despace2_app, Hv. rewrite spell_cons. f_equal. change (despace2 (s " ")) with (@nil N). cbn [app]. apply IH. exact Hr.
Qed.
Lemma sexprsl_in : forall Q (l: list st) y, sexprsl Q l -> In y l -> sexprs Q y.
Proof. intros Q. induction l as [|z r IH]; intros y Hw Hy; [destruct Hy|]. destruct Hw as [Hz Hr]. destruct Hy as [->|Hy]; [exact Hz|apply IH; assumption]. Qed.

(* the generated statement text, blanks and newlines removed, is the concatenation of the spellings of [stoks rp x] *)
Theorem vis_tokens : forall rp n x, ssize x <= n -> sexprs (eok rp) x -> forall lv, despace2 (vt x (vis rp x lv)) = spell (stoks rp x).
Proof.
  intros rp. induction n as [|n IH]; intros x Hn Hx lv; [destruct x; cbn in Hn; lia|].
  assert (HG0: forall y L L', ssize y <= n -> sexprs (eok rp) y -> despace2 (wrapg (ind L') y (vis rp y L)) = spell (stoks rp y)).
  { intros y L L' Hy Hsy. rewrite wrapg_text by apply despace2_ind. apply IH; assumption. }
  assert (HG: forall y L, ssize y <= n -> sexprs (eok rp) y -> despace2 (wrapg (ind (L + 2)) y (vis rp y L)) = spell (stoks rp y)).
  { intros y L. apply HG0. }
  destruct x as [e| |o| | |l|c th el|c b|b c|i c nx b|items|lb b|ty dx di]; cbn [ssize] in Hn; cbn [sexprs] in Hx; unfold vt; cbn [isexpr stoks vis].
  13: { destruct Hx as (Hdx & Hty & Hdi). unfold dtoks. rewrite spell_app, spell_cons, spell_app. rewrite !despace2_app, (despace2_join ty Hty), Hdx.
        change (despace2 (s " ")) with (@nil N). cbn [app]. rewrite <- !app_assoc. f_equal. f_equal. f_equal.
        destruct di as [e|]; cbn [oall] in Hdi; [|reflexivity]. rewrite spell_cons. unfold argt, vx.
        destruct (iscomma e); rewrite ?despace2_app, ?spell_parkv, (eok_text rp e Hdi); reflexivity. }
  - rewrite despace2_app, spell_app, (eok_text rp e Hx). reflexivity.
  - reflexivity.
  - destruct o as [e|]; cbn [oall oxt] in *; [|reflexivity]. rewrite !despace2_app, (eok_text rp e Hx). unfold kw. rewrite spell_cons, spell_app. reflexivity.
  - reflexivity.
  - reflexivity.
  - rewrite !despace2_app, Hx. unfold kw. rewrite !spell_cons. reflexivity.
  - destruct Hx as (Hc & Hth & Hel). unfold kw. rewrite !spell_cons, spell_app, spell_cons. destruct el as [el|].
    + rewrite !despace2_app, despace2_ind, (eok_text rp c Hc), (HG th lv ltac:(lia) Hth), (HG el lv ltac:(lia) Hel). rewrite spell_app, spell_cons. reflexivity.
    + rewrite !despace2_app, (eok_text rp c Hc), (HG th lv ltac:(lia) Hth). rewrite app_nil_r. reflexivity.
  - destruct Hx as (Hc & Hb). unfold kw. rewrite !spell_cons, spell_app, spell_cons. rewrite !despace2_app, (eok_text rp c Hc), (HG b lv ltac:(lia) Hb). reflexivity.
  - destruct Hx as (Hc & Hb). unfold kw. rewrite !spell_cons, spell_app, !spell_cons, spell_app.
    rewrite !despace2_app, despace2_ind, (eok_text rp c Hc), (HG b lv ltac:(lia) Hb). reflexivity.
  - destruct Hx as (Hi & Hc & Hnx & Hb). unfold kw. rewrite !spell_cons, spell_app, spell_cons, spell_app, spell_cons, spell_app, spell_cons.
    rewrite !despace2_app, (oall_text rp i Hi), (oall_text_sp rp c Hc), (oall_text_sp rp nx Hnx), (HG b lv ltac:(lia) Hb). reflexivity.
  - unfold kw. rewrite spell_cons, spell_app. rewrite !despace2_app, !despace2_ind. cbn [app].
    rewrite (concat_text rp _ items); [reflexivity|]. intros y Hy. apply HG0; [pose proof (in_ssum items y Hy); lia|exact (sexprsl_in _ items y Hx Hy)].
  - destruct Hx as (Hl & Hb). unfold kw. rewrite !spell_cons. rewrite !despace2_app, Hl, (HG0 b lv lv ltac:(lia) Hb). reflexivity.
Qed.

Theorem gst_tokens : forall rp x, sexprs (eok rp) x -> forall lv, despace2 (gst rp lv x) = spell (stoks rp x).
Proof. intros rp x Hx lv. unfold gst. rewrite wrapg_text by apply despace2_ind. exact (vis_tokens rp (ssize x) x (le_n _) Hx lv). Qed.

(* ---- the theorems apply to something ---- *)
Definition ex_s : st :=
  SFor (Some (XAsg (s2l "=") (XId (s2l "i")) (XConst K_INT_CONST_DEC (s2l "0") (s2l "int")))) (Some (XBin (s2l "<") (XId (s2l "i")) (XId (s2l "n")))) (Some (XPost (s2l "++") (XId (s2l "i"))))
    (SBlock [SIf (XCall (XId (s2l "f")) [XId (s2l "i")]) (SIf (XId (s2l "a")) (SReturn (Some (XId (s2l "i")))) (Some SBreak)) (Some (SDo (SBlock [SExpr (XPre (s2l "--") (XId (s2l "n"))); SBlock []]) (XId (s2l "n"))));
             SGoto (s2l "out")]).
Example statement_example :
  swf ex_s /\ exists t, generate_stmt nat false 80 (embS nat ex_s) true 0%Z = GOk (t, 0%Z) /\ despace2 t = spell (stoks false ex_s) /\
  t = s2l "  for (i = 0; i < n; i++)
{
  if (f(i))
    if (a)
    return i;
  else
    break;
  else
    do
  {
    --n;
    {
    }
  }
  while (n);
  goto out;
}

".
Proof. split; [cbn; repeat split; solve [reflexivity | discriminate | lia]|]. eexists. split; [vm_compute; reflexivity|split; vm_compute; reflexivity]. Qed.

(* labels: `again: if (a) in: a++;  out: ;` in a block *)
Definition ex_l : st :=
  SBlock [SLabel (s2l "again") (SIf (XId (s2l "a")) (SLabel (s2l "in") (SExpr (XPost (s2l "++") (XId (s2l "a"))))) None); SLabel (s2l "out") SEmpty].
Example label_example :
  swf ex_l /\ exists t, generate_stmt nat false 80 (embS nat ex_l) true 0%Z = GOk (t, 0%Z) /\ despace2 t = spell (stoks false ex_l) /\
  t = s2l "{
  again:
  if (a)
    in:
  a++;


  out:
  ;

}
".
Proof. split; [cbn; repeat split; solve [reflexivity | discriminate | lia]|]. eexists. split; [vm_compute; reflexivity|split; vm_compute; reflexivity]. Qed.

(* ---- the two instances: statements without declarations, and statements whose blocks declare objects ---- *)
Theorem gst_prints_nodecl : forall (C: Type) rp (x: st), swf x -> forall fuel lv, cost x < fuel ->
  generate_stmt C rp fuel (embS C x) true lv = GOk (gst rp lv x, lv).
Proof. intros C rp. exact (gst_prints C rp false). Qed.
Theorem gst_prints_decls : forall (C: Type) rp (x: st), swfD x -> forall fuel lv, cost x < fuel ->
  generate_stmt C rp fuel (embS C x) true lv = GOk (gst rp lv x, lv).
Proof. intros C rp. exact (gst_prints C rp true). Qed.

(* declarations in blocks: `{ int x = 1; unsigned long y; y = x + 2; { char c = (x, y); } }` *)
Definition ex_d : st :=
  SBlock [SDecl [(K_INT, s2l "int")] (s2l "x") (Some (XConst K_INT_CONST_DEC (s2l "1") (s2l "int")));
          SDecl [(K_UNSIGNED, s2l "unsigned"); (K_LONG, s2l "long")] (s2l "y") None;
          SExpr (XAsg (s2l "=") (XId (s2l "y")) (XBin (s2l "+") (XId (s2l "x")) (XConst K_INT_CONST_DEC (s2l "2") (s2l "int"))));
          SBlock [SDecl [(K_CHAR, s2l "char")] (s2l "c") (Some (XComma [XId (s2l "x"); XId (s2l "y")]))]].
Example decl_example :
  swfD ex_d /\ exists t, generate_stmt nat false 80 (embS nat ex_d) true 0%Z = GOk (t, 0%Z) /\ despace2 t = spell (stoks false ex_d) /\
  t = s2l "{
  int x = 1;
  unsigned long y;
  y = x + 2;
  {
    char c = (x, y);
  }
}
".
Proof. split; [cbn; repeat split; solve [reflexivity | discriminate | lia | repeat constructor]|]. eexists. split; [vm_compute; reflexivity|split; vm_compute; reflexivity]. Qed.

(* ... and the whole-parser model, started on exactly these tokens (followed by one more `;`) with its initial scope stack,
   returns the tree the text was generated from, consumes the 27 tokens and is back at the file scope afterwards *)
From PV Require ParserBase ParserMain.
Definition ex_d_state : ParserBase.pstate nat :=
  ParserMain.init_pstate nat (map (fun kv => ParserBase.PTok nat (fst kv) (snd kv) 0 0) (stoks false ex_d ++ [(K_SEMI, s2l ";")])) 0 0.
Example decl_example_parsed :
  StreamLib.NoTD (ParserBase.scopes nat ex_d_state) /\
  match ParserMain.p_statement nat 100 ex_d_state with
  | ParserBase.Ok (N, s') => RoundTrip.strip N = embs ex_d /\ ParserBase.idx nat s' = length (stoks false ex_d) /\ ParserBase.scopes nat s' = [[]]
  | _ => False
  end.
Proof. split; [split; [discriminate|repeat constructor]|]. vm_compute. repeat split. Qed.
Example decl_example_both :
  swfD ex_d /\ (exists t, generate_stmt nat false 80 (embS nat ex_d) true 0%Z = GOk (t, 0%Z) /\ despace2 t = spell (stoks false ex_d)) /\
  match ParserMain.p_statement nat 100 ex_d_state with ParserBase.Ok (N, s') => RoundTrip.strip N = embs ex_d | _ => False end.
Proof.
  destruct decl_example as [H [t [H1 [H2 _]]]]. split; [exact H|]. split; [exists t; split; assumption|]. vm_compute. reflexivity.
Qed.
