(* C07 / C05, generator side of StmtTrip: for every brace-free statement the generator MODEL
   (_generate_stmt, visit_If / visit_While / visit_DoWhile / visit_For / visit_Return / visit_Break /
   visit_Continue / visit_Goto / visit_EmptyStatement) prints [gst rp lv x] at indentation level lv and
   restores the indentation level; that text with blanks and newlines removed is the concatenation of
   the spellings of the token sequence [stoks rp x]. *)
From Coq Require Import String.
From Coq Require Import List NArith ZArith Bool Arith Lia.
Import ListNotations.
From PV Require Import Regex Base AstDefs AstSpec AstImpl GenTables NodeModel Generator ClimbProofs GenParen GenBinop.
From PV Require Import LexTables ParserTables LexerProofs TableProofs RoundTrip RoundTripGen RoundTripX GenExpr StmtTrip.
Open Scope nat_scope.

Section GS.
Variable C : Type.
Variable rp : bool.
Notation node := (value C).
Notation embC := (embC C).
Notation ptext := (ptext rp).

Definition oembC (o: option ex) : node := match o with Some e => embC e | None => VNone end.
Fixpoint embS (x: st) : node :=
  match x with
  | SExpr e => embC e
  | SEmpty => VNode C_EmptyStatement [] None
  | SReturn o => VNode C_Return [oembC o] None
  | SBreak => VNode C_Break [] None
  | SContinue => VNode C_Continue [] None
  | SGoto l => VNode C_Goto [VStr l] None
  | SIf c th el => VNode C_If [embC c; embS th; match el with Some e => embS e | None => VNone end] None
  | SWhile c b => VNode C_While [embC c; embS b] None
  | SDo b c => VNode C_DoWhile [embC c; embS b] None
  | SFor i c n b => VNode C_For [oembC i; oembC c; oembC n; embS b] None
  end.

Definition ind (lv: Z) : str := repeat 32%N (Z.to_nat lv).
Definition nl : str := [10%N].
Definition isif (x: st) : bool := match x with SIf _ _ _ => true | _ => false end.
Definition isexpr (x: st) : bool := match x with SExpr _ => true | _ => false end.

(* vis: what visit prints for the statement node; gst: what _generate_stmt(add_indent=True) prints *)
Fixpoint vis (lv: Z) (x: st) : str :=
  let gst := fun y => ind (lv + 2) ++ (if isexpr y then vis lv y ++ s ";" ++ nl else if isif y then vis lv y else vis lv y ++ nl) in
  match x with
  | SExpr e => ptext e
  | SEmpty => s ";"
  | SReturn None => s "return;"
  | SReturn (Some e) => s "return" ++ s " " ++ ptext e ++ s ";"
  | SBreak => s "break;"
  | SContinue => s "continue;"
  | SGoto l => s "goto " ++ l ++ s ";"
  | SIf c th None => s "if (" ++ ptext c ++ s ")" ++ nl ++ gst th
  | SIf c th (Some el) => s "if (" ++ ptext c ++ s ")" ++ nl ++ gst th ++ ind lv ++ s "else" ++ nl ++ gst el
  | SWhile c b => s "while (" ++ ptext c ++ s ")" ++ nl ++ gst b
  | SDo b c => s "do" ++ nl ++ gst b ++ ind lv ++ s "while (" ++ ptext c ++ s ");"
  | SFor i c n b =>
    s "for (" ++ (match i with Some e => ptext e | None => [] end) ++ s ";" ++
    (match c with Some e => s " " ++ ptext e | None => [] end) ++ s ";" ++
    (match n with Some e => s " " ++ ptext e | None => [] end) ++ s ")" ++ nl ++ gst b
  end.
Definition gst (lv: Z) (y: st) : str :=
  ind (lv + 2) ++ (if isexpr y then vis lv y ++ s ";" ++ nl else if isif y then vis lv y else vis lv y ++ nl).

(* fuel that suffices *)
Definition osize (o: option ex) : nat := match o with Some e => size e | None => 0 end.
Fixpoint cost (x: st) : nat :=
  match x with
  | SExpr e => 3 * size e + 2
  | SReturn o => 3 * osize o + 2
  | SIf c th el => 3 * size c + cost th + match el with Some e => cost e | None => 0 end + 2
  | SWhile c b | SDo b c => 3 * size c + cost b + 2
  | SFor i c n b => 3 * osize i + 3 * osize c + 3 * osize n + cost b + 2
  | _ => 2
  end.

Lemma gs_eq : forall f n addi,
  generate_stmt C rp (S f) n addi =
  gbind (if addi then add_indent 2 else gret tt) (fun _ => gbind make_indent (fun i0 =>
  gbind (if addi then add_indent (-2) else gret tt) (fun _ =>
  if stmt_with_semicolon C n then gbind (visit C rp f n) (fun x => gret (i0 ++ x ++ s ";" ++ [10%N]))
  else if is_c C C_Compound n then visit C rp f n
  else if is_c C C_If n then gbind (visit C rp f n) (fun x => gret (i0 ++ x))
  else gbind (visit C rp f n) (fun x => gret (i0 ++ x ++ [10%N]))))).
Proof. reflexivity. Qed.

Lemma semi_emb : forall e, stmt_with_semicolon C (embC e) = true.
Proof. destruct e; reflexivity. Qed.

(* _generate_stmt(add_indent=True) from what visit prints *)
Lemma gs_run : forall f x lv t, visit C rp f (embS x) lv = GOk (t, lv) -> t = vis lv x ->
  generate_stmt C rp (S f) (embS x) true lv = GOk (gst lv x, lv).
Proof.
  intros f x lv t Hv ->. rewrite gs_eq. unfold gbind at 1. unfold add_indent at 1. unfold gbind at 1. unfold make_indent, get_indent. unfold gbind at 1.
  unfold gret at 1. unfold gbind at 1. unfold add_indent at 1. replace (lv + 2 + -2)%Z with lv by lia.
  unfold gst, ind. destruct x as [e| |o| | |l|c th el|c b|b c|i c nx b]; cbn [embS isexpr isif].
  - rewrite semi_emb. unfold gbind. cbn [embS] in Hv. rewrite Hv. reflexivity.
  - change (stmt_with_semicolon C (VNode C_EmptyStatement [] None)) with false. cbv iota.
    change (is_c C C_Compound (VNode C_EmptyStatement [] None)) with false. change (is_c C C_If (VNode C_EmptyStatement [] None)) with false. cbv iota.
    unfold gbind. cbn [embS] in Hv. rewrite Hv. reflexivity.
  - change (stmt_with_semicolon C (VNode C_Return [oembC o] None)) with false. cbv iota.
    change (is_c C C_Compound (VNode C_Return [oembC o] None)) with false. change (is_c C C_If (VNode C_Return [oembC o] None)) with false. cbv iota.
    unfold gbind. cbn [embS] in Hv. rewrite Hv. reflexivity.
  - unfold gbind. cbn [embS] in Hv. change (stmt_with_semicolon C (VNode C_Break [] None)) with false. cbv iota.
    change (is_c C C_Compound (VNode C_Break [] None)) with false. change (is_c C C_If (VNode C_Break [] None)) with false. cbv iota. rewrite Hv. reflexivity.
  - unfold gbind. cbn [embS] in Hv. change (stmt_with_semicolon C (VNode C_Continue [] None)) with false. cbv iota.
    change (is_c C C_Compound (VNode C_Continue [] None)) with false. change (is_c C C_If (VNode C_Continue [] None)) with false. cbv iota. rewrite Hv. reflexivity.
  - unfold gbind. cbn [embS] in Hv. change (stmt_with_semicolon C (VNode C_Goto [VStr l] None)) with false. cbv iota.
    change (is_c C C_Compound (VNode C_Goto [VStr l] None)) with false. change (is_c C C_If (VNode C_Goto [VStr l] None)) with false. cbv iota. rewrite Hv. reflexivity.
  - unfold gbind. cbn [embS] in Hv. set (N := VNode C_If _ None) in *. change (stmt_with_semicolon C N) with false. cbv iota.
    change (is_c C C_Compound N) with false. change (is_c C C_If N) with true. cbv iota. rewrite Hv. reflexivity.
  - unfold gbind. cbn [embS] in Hv. set (N := VNode C_While _ None) in *. change (stmt_with_semicolon C N) with false. cbv iota.
    change (is_c C C_Compound N) with false. change (is_c C C_If N) with false. cbv iota. rewrite Hv. reflexivity.
  - unfold gbind. cbn [embS] in Hv. set (N := VNode C_DoWhile _ None) in *. change (stmt_with_semicolon C N) with false. cbv iota.
    change (is_c C C_Compound N) with false. change (is_c C C_If N) with false. cbv iota. rewrite Hv. reflexivity.
  - unfold gbind. cbn [embS] in Hv. set (N := VNode C_For _ None) in *. change (stmt_with_semicolon C N) with false. cbv iota.
    change (is_c C C_Compound N) with false. change (is_c C C_If N) with false. cbv iota. rewrite Hv. reflexivity.
Qed.
End GS.
