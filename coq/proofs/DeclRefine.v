(* C03 on the whole-parser model: the declarator productions (pointer prefix, direct declarator,
   parenthesised declarator, array / function suffixes) build, for every token stream, the type
   chain that C's inside-out rule (C99 6.7.5.1-3) assigns to the declarator that was read. *)
From Coq Require Import List NArith Bool Arith Lia.
Import ListNotations.
From PV Require Import Regex Base LexTables ParserTables AstDefs AstSpec AstImpl PyRepr NodeModel ParserBase ParserDecl ParserMain DeclProofs.
Open Scope nat_scope.

Section DR.
Variable P : Type.
Notation M := (M P).
Notation pstate := (pstate P).
Notation node := (node P).
Notation tok := (tok P).
Notation coord := (coord P).
Notation link := (link P).
Notation build := (build P).
Notation wrap := (wrap P).
Notation typedecl := (typedecl P).

(* ---- _type_modify_decl: whenever it returns, it returns the splice (no bound on the chains) ---- *)
Lemma set_tail_ok : forall fuel lm x (s: pstate) r s', lm <> [] ->
  set_tail P fuel (build lm VNone) x s = Ok (r, s') -> r = build lm x /\ s' = s.
Proof.
  induction fuel as [|f IH]; intros lm x s r s' Hne H; [discriminate|].
  destruct lm as [|l lm]; [congruence|].
  cbn [DeclProofs.build fold_right set_tail] in H. unfold bind, getA, lift_opt in H. rewrite get_type_wrap in H. cbn [ret] in H.
  destruct lm as [|l2 lm2].
  - cbn [fold_right truthy] in H. unfold setA, lift_opt in H. rewrite set_type_wrap in H. unfold ret in H.
    injection H as <- <-. split; reflexivity.
  - change (fold_right wrap VNone (l2 :: lm2)) with (build (l2 :: lm2) VNone) in H.
    assert (Ht: truthy P (build (l2 :: lm2) VNone) = true) by (cbn [DeclProofs.build fold_right]; apply wrap_truthy).
    rewrite Ht in H.
    destruct (set_tail P f (build (l2 :: lm2) VNone) x s) as [[t' s1]| | |] eqn:E; try discriminate.
    apply IH in E; [|discriminate]. destruct E as [-> ->].
    unfold setA, lift_opt in H. rewrite set_type_wrap in H. unfold ret in H. injection H as <- <-. split; reflexivity.
Qed.

Lemma splice_ok : forall fuel ld fs co lm (s: pstate) r s', ld <> [] -> lm <> [] ->
  splice P fuel (build ld (typedecl fs co)) (build lm VNone) s = Ok (r, s') ->
  r = build (ld ++ lm) (typedecl fs co) /\ s' = s.
Proof.
  induction fuel as [|f IH]; intros ld fs co lm s r s' Hd Hm H; [discriminate|].
  destruct ld as [|l ld]; [congruence|].
  cbn [DeclProofs.build fold_right splice app] in H. unfold bind, getA, lift_opt in H. rewrite get_type_wrap in H. cbn [ret] in H.
  destruct ld as [|l2 ld2].
  - cbn [fold_right app] in H. rewrite typedecl_is in H.
    destruct (set_tail P f (build lm VNone) (typedecl fs co) s) as [[m' s1]| | |] eqn:E; try discriminate.
    apply (set_tail_ok f lm) in E; [|exact Hm]. destruct E as [-> ->].
    unfold setA, lift_opt in H. rewrite set_type_wrap in H. unfold ret in H. injection H as <- <-. split; reflexivity.
  - change (fold_right wrap (typedecl fs co) (l2 :: ld2)) with (build (l2 :: ld2) (typedecl fs co)) in H.
    assert (Hn: is_cls P C_TypeDecl (build (l2 :: ld2) (typedecl fs co)) = false) by (cbn [DeclProofs.build fold_right]; apply wrap_not_typedecl).
    rewrite Hn in H.
    destruct (splice P f (build (l2 :: ld2) (typedecl fs co)) (build lm VNone) s) as [[t' s1]| | |] eqn:E; try discriminate.
    apply (IH (l2 :: ld2) fs co lm) in E; [|discriminate|exact Hm]. destruct E as [-> ->].
    unfold setA, lift_opt in H. rewrite set_type_wrap in H. unfold ret in H. injection H as <- <-. split; reflexivity.
Qed.

Theorem modify_ok : forall fuel ld fs co lm (s: pstate) r s', lm <> [] ->
  type_modify_decl P fuel (build ld (typedecl fs co)) (build lm VNone) s = Ok (r, s') ->
  r = build (ld ++ lm) (typedecl fs co) /\ s' = s.
Proof.
  intros fuel ld fs co lm s r s' Hm H. unfold type_modify_decl in H.
  destruct ld as [|l ld].
  - cbn [DeclProofs.build fold_right app] in *. rewrite typedecl_is in H. eapply set_tail_ok; eauto.
  - assert (Hn: is_cls P C_TypeDecl (build (l :: ld) (typedecl fs co)) = false) by (cbn [DeclProofs.build fold_right]; apply wrap_not_typedecl).
    rewrite Hn in H. unfold bind in H.
    destruct (set_tail P fuel (build lm VNone) VNone s) as [[x s1]| | |] eqn:E; try discriminate.
    apply set_tail_ok in E; [|exact Hm]. destruct E as [_ ->].
    eapply splice_ok; eauto. discriminate.
Qed.

(* ---- the pointer prefix ---- *)
Definition mkptr (st: list str * option coord) : link := LPtr P (vstrs P (fst st)) (snd st).

Lemma pointer_chain : forall stars base,
  fold_left (fun (ptr: node) (st: list str * option coord) => mkN P C_PtrDecl [vstrs P (fst st); ptr] (snd st)) stars base
  = build (rev (map mkptr stars)) base.
Proof.
  induction stars as [|x r IH]; intros base; [reflexivity|].
  cbn [fold_left map rev]. rewrite IH. unfold DeclProofs.build. rewrite fold_right_app. reflexivity.
Qed.

(* `* q1 * q2 ... D`: the LAST star is the outermost pointer node (nearest the name) *)
Lemma p_pointer_ok : forall f (s s': pstate) p, p_pointer P f s = Ok (Some p, s') ->
  exists stars, stars <> [] /\ p_pointer_stars P f s = Ok (stars, s') /\ p = build (rev (map mkptr stars)) VNone.
Proof.
  intros f s s' p H. unfold p_pointer, bind in H.
  destruct (p_pointer_stars P f s) as [[stars s1]| | |] eqn:E; try discriminate.
  destruct stars as [|x r]; [discriminate|]. unfold ret in H. injection H as <- <-.
  exists (x :: r). split; [discriminate|]. split; [reflexivity|]. rewrite <- (pointer_chain (x :: r) VNone). reflexivity.
Qed.

(* ---- result shapes of the suffix parsers ---- *)
Definition post {A} (Q: A -> Prop) (m: M A) : Prop := forall s a s', m s = Ok (a, s') -> Q a.
Lemma post_ret : forall A (Q: A -> Prop) a, Q a -> post Q (ret P a).
Proof. intros A Q a H s a' s' E. unfold ret in E. injection E as <- _. exact H. Qed.
Lemma post_bind_any : forall A B (Q: B -> Prop) (m: M A) (f: A -> M B), (forall a, post Q (f a)) -> post Q (bind P m f).
Proof. intros A B Q m f H s b s' E. unfold bind in E. destruct (m s) as [[a s1]| | |]; try discriminate. eapply H; eauto. Qed.
Lemma post_none : forall A (Q: A -> Prop) (m: M A), (forall s, match m s with Ok _ => False | _ => True end) -> post Q m.
Proof. intros A Q m H s a s' E. specialize (H s). rewrite E in H. destruct H. Qed.

Ltac post_tac :=
  repeat first
    [ apply post_bind_any; intros
    | match goal with
      | |- post _ (match ?x with _ => _ end) => destruct x
      | |- post _ (if ?b then _ else _) => destruct b
      end
    | apply post_ret ].

Lemma arr_shape : forall f bt co,
  post (fun r => exists dim dq c, r = wrap (LArr P dim dq c) bt) (p_array_decl_common P f bt co).
Proof.
  intros [|f] bt co; [intros s a s' E; discriminate|].
  cbn [p_array_decl_common]. post_tac; eexists _, _, _; reflexivity.
Qed.

Lemma post_bind_lift : forall A B (Q: B -> Prop) k (o: option A) (f: A -> M B),
  (forall a, o = Some a -> post Q (f a)) -> post Q (bind P (lift_opt P k o) f).
Proof.
  intros A B Q k o f H s b s' E. unfold bind, lift_opt in E. destruct o as [a|]; [|discriminate].
  unfold ret in E. eapply H; eauto.
Qed.

Lemma fun_shape : forall f base,
  post (fun r => exists args bc, r = wrap (LFun P args bc) VNone /\ get_coord P base = Some bc) (p_function_decl P f base).
Proof.
  intros [|f] base; [intros s a s' E; discriminate|].
  cbn [p_function_decl]. apply post_bind_any; intros. apply post_bind_any; intros. apply post_bind_any; intros.
  unfold coordA. apply post_bind_lift. intros bc Hbc. post_tac; eexists _, _; split; try reflexivity; exact Hbc.
Qed.

(* ---- the declarator that was read (C99 6.7.5 syntax) and its meaning ---- *)
Inductive dtor :=
| DName (fs: list node) (co: option coord)     (* the identifier *)
| DParen (d: dtor)                              (* ( declarator ) *)
| DSuf (d: dtor) (l: link)                      (* direct-declarator [ ... ]   or   direct-declarator ( ... ) *)
| DPtr (lp: list link) (d: dtor).               (* pointer direct-declarator; lp = the pointer chain, outermost first *)

(* C99 6.7.5.1-3: the derivations applied to the base type, read from the identifier outwards *)
Fixpoint derivs (D: dtor) : list link :=
  match D with
  | DName _ _ => []
  | DParen d => derivs d
  | DSuf d l => derivs d ++ [l]
  | DPtr lp d => derivs d ++ lp
  end.
Fixpoint leaf (D: dtor) : node :=
  match D with
  | DName fs co => typedecl fs co
  | DParen d | DSuf d _ | DPtr _ d => leaf d
  end.
Definition node_of (D: dtor) : node := build (derivs D) (leaf D).

Lemma leaf_is_typedecl : forall D, exists fs co, leaf D = typedecl fs co.
Proof. induction D as [fs co|d IH|d IH l|lp d IH]; cbn [leaf]; eauto. Qed.

(* what the three productions read, step by step *)
Inductive RunS : pstate -> dtor -> dtor -> pstate -> Prop :=      (* p_decl_suffixes *)
| RS_done : forall s k s' D, peek_kind P s = Ok (k, s') -> okind_is k K_LBRACKET = false -> okind_is k K_LPAREN = false -> RunS s D D s'
| RS_arr : forall s k s1 D f dc dim dq c s2 D' s',
    peek_kind P s = Ok (k, s1) -> okind_is k K_LBRACKET = true -> get_coord P (node_of D) = Some dc ->
    p_array_decl_common P f VNone dc s1 = Ok (wrap (LArr P dim dq c) VNone, s2) ->
    RunS s2 (DSuf D (LArr P dim dq c)) D' s' -> RunS s D D' s'
| RS_fun : forall s k s1 D f args bc s2 D' s',
    peek_kind P s = Ok (k, s1) -> okind_is k K_LBRACKET = false -> okind_is k K_LPAREN = true ->
    p_function_decl P f (node_of D) s1 = Ok (wrap (LFun P args bc) VNone, s2) -> get_coord P (node_of D) = Some bc ->
    RunS s2 (DSuf D (LFun P args bc)) D' s' -> RunS s D D' s'.

Inductive RunK : bool -> bool -> pstate -> dtor -> pstate -> Prop :=   (* p_declarator_kind: pointer_opt direct-declarator *)
| RK_plain : forall kid ap s k s1 D s',
    peek_kind P s = Ok (k, s1) -> okind_is k K_TIMES = false -> RunD kid ap s1 D s' -> RunK kid ap s D s'
| RK_ptr : forall kid ap s k s1 f stars s2 D s',
    peek_kind P s = Ok (k, s1) -> okind_is k K_TIMES = true -> p_pointer_stars P f s1 = Ok (stars, s2) -> stars <> [] ->
    RunD kid ap s2 D s' -> RunK kid ap s (DPtr (rev (map mkptr stars)) D) s'
| RK_nostar : forall kid ap s k s1 f s2 D s',      (* a star was seen but no pointer read: cannot happen, kept so that the relation is total *)
    peek_kind P s = Ok (k, s1) -> okind_is k K_TIMES = true -> p_pointer P f s1 = Ok (None, s2) ->
    RunD kid ap s2 D s' -> RunK kid ap s D s'
with RunD : bool -> bool -> pstate -> dtor -> pstate -> Prop :=         (* p_direct_declarator *)
| RD_paren : forall kid s x s1 D1 s2 y s3 D s',
    accept P K_LPAREN s = Ok (Some x, s1) -> RunK kid true s1 D1 s2 -> expect P K_RPAREN s2 = Ok (y, s3) ->
    RunS s3 (DParen D1) D s' -> RunD kid true s D s'
| RD_name : forall (kid ap: bool) s s1 nt s2 c s3 D s',
    (if ap return Prop then accept P K_LPAREN s = Ok (None, s1) else s1 = s) ->
    expect P (if kid then K_ID else K_TYPEID) s1 = Ok (nt, s2) -> tcoord P nt s2 = Ok (c, s3) ->
    RunS s3 (DName [VStr (tv nt); VNone; VNone; VNone] c) D s' -> RunD kid ap s D s'.

(* one unfolding step of each production *)
Lemma kind_eq : forall f kid ap,
  p_declarator_kind P (S f) kid ap =
  bind P (peek_kind P) (fun k =>
  bind P (if okind_is k K_TIMES then p_pointer P f else ret P None) (fun ptr =>
  bind P (p_direct_declarator P f kid ap) (fun direct =>
  match ptr with
  | Some p => type_modify_decl P (WF) direct p
  | None => ret P direct
  end))).
Proof. reflexivity. Qed.

Lemma direct_eq : forall f kid ap,
  p_direct_declarator P (S f) kid ap =
  bind P (if ap then accept P K_LPAREN else ret P None) (fun lp =>
  bind P (match lp with
          | Some _ => bind P (p_declarator_kind P f kid true) (fun d => bind P (expect P K_RPAREN) (fun _ => ret P d))
          | None => bind P (expect P (if kid then K_ID else K_TYPEID)) (fun nt =>
                    bind P (tcoord P nt) (fun c => ret P (mkTypeDecl P (VStr (tv nt)) VNone VNone VNone c)))
          end) (fun decl => p_decl_suffixes P f decl)).
Proof. reflexivity. Qed.

Lemma suffix_eq : forall f decl,
  p_decl_suffixes P (S f) decl =
  bind P (peek_kind P) (fun k =>
  if okind_is k K_LBRACKET then
    bind P (coordA P decl) (fun dc =>
    bind P (p_array_decl_common P f VNone dc) (fun arr =>
    bind P (type_modify_decl P (WF) decl arr) (fun d' => p_decl_suffixes P f d')))
  else if okind_is k K_LPAREN then
    bind P (p_function_decl P f decl) (fun fn =>
    bind P (type_modify_decl P (WF) decl fn) (fun d' => p_decl_suffixes P f d'))
  else ret P decl).
Proof. reflexivity. Qed.

Lemma modify_node_of : forall D lm (s: pstate) r s', lm <> [] ->
  type_modify_decl P (WF) (node_of D) (build lm VNone) s = Ok (r, s') ->
  r = build (derivs D ++ lm) (leaf D) /\ s' = s.
Proof.
  intros D lm s r s' Hm H. unfold node_of in H. destruct (leaf_is_typedecl D) as [fs [co Hl]]. rewrite Hl in *.
  eapply modify_ok; eauto.
Qed.

Theorem suffixes_refine : forall f D s r s',
  p_decl_suffixes P f (node_of D) s = Ok (r, s') -> exists D', RunS s D D' s' /\ r = node_of D'.
Proof.
  induction f as [|f IH]; intros D s r s' H; [discriminate|].
  rewrite suffix_eq in H. unfold bind at 1 in H.
  destruct (peek_kind P s) as [[k s1]| | |] eqn:Ek; try discriminate.
  destruct (okind_is k K_LBRACKET) eqn:Eb.
  - unfold bind at 1 in H. unfold coordA, lift_opt in H.
    destruct (get_coord P (node_of D)) as [dc|] eqn:Ec; [|discriminate]. unfold ret at 1 in H. cbv beta iota in H.
    unfold bind at 1 in H. destruct (p_array_decl_common P f VNone dc s1) as [[arr s2]| | |] eqn:Ea; try discriminate.
    destruct (arr_shape f VNone dc _ _ _ Ea) as (dim & dq & c & ->).
    unfold bind at 1 in H. destruct (type_modify_decl P (WF) (node_of D) (wrap (LArr P dim dq c) VNone) s2) as [[d' s3]| | |] eqn:Em; try discriminate.
    change (wrap (LArr P dim dq c) VNone) with (build [LArr P dim dq c] VNone) in Em.
    apply modify_node_of in Em; [|discriminate]. destruct Em as [-> ->].
    change (build (derivs D ++ [LArr P dim dq c]) (leaf D)) with (node_of (DSuf D (LArr P dim dq c))) in H.
    apply IH in H. destruct H as [D' [HR ->]]. exists D'. split; [|reflexivity].
    eapply RS_arr; eauto.
  - destruct (okind_is k K_LPAREN) eqn:Ep.
    + unfold bind at 1 in H. destruct (p_function_decl P f (node_of D) s1) as [[fn s2]| | |] eqn:Ef; try discriminate.
      destruct (fun_shape f (node_of D) _ _ _ Ef) as (args & bc & -> & Hbc).
      unfold bind at 1 in H. destruct (type_modify_decl P (WF) (node_of D) (wrap (LFun P args bc) VNone) s2) as [[d' s3]| | |] eqn:Em; try discriminate.
      change (wrap (LFun P args bc) VNone) with (build [LFun P args bc] VNone) in Em.
      apply modify_node_of in Em; [|discriminate]. destruct Em as [-> ->].
      change (build (derivs D ++ [LFun P args bc]) (leaf D)) with (node_of (DSuf D (LFun P args bc))) in H.
      apply IH in H. destruct H as [D' [HR ->]]. exists D'. split; [|reflexivity].
      eapply RS_fun; eauto.
    + unfold ret in H. injection H as <- <-. exists D. split; [|reflexivity]. eapply RS_done; eauto.
Qed.

Definition kind_stmt (f: nat) : Prop := forall kid ap s r s',
  p_declarator_kind P f kid ap s = Ok (r, s') -> exists D, RunK kid ap s D s' /\ r = node_of D.
Definition direct_stmt (f: nat) : Prop := forall kid ap s r s',
  p_direct_declarator P f kid ap s = Ok (r, s') -> exists D, RunD kid ap s D s' /\ r = node_of D.

Lemma declarator_refine_both : forall f, kind_stmt f /\ direct_stmt f.
Proof.
  induction f as [|f [IHk IHd]]; split.
  - intros kid ap s r s' H. discriminate.
  - intros kid ap s r s' H. discriminate.
  - intros kid ap s r s' H. rewrite kind_eq in H. unfold bind at 1 in H.
    destruct (peek_kind P s) as [[k s1]| | |] eqn:Ek; try discriminate.
    destruct (okind_is k K_TIMES) eqn:Et.
    + unfold bind at 1 in H. destruct (p_pointer P f s1) as [[ptr s2]| | |] eqn:Ep; try discriminate.
      unfold bind at 1 in H. destruct (p_direct_declarator P f kid ap s2) as [[direct s3]| | |] eqn:Ed; try discriminate.
      apply IHd in Ed. destruct Ed as [D [HR ->]].
      destruct ptr as [p|].
      * destruct (p_pointer_ok _ _ _ _ Ep) as (stars & Hne & Hst & ->).
        apply modify_node_of in H.
        -- destruct H as [-> ->]. exists (DPtr (rev (map mkptr stars)) D). split; [|reflexivity]. eapply RK_ptr; eauto.
        -- intros Hnil. apply Hne. destruct stars as [|x r0]; [reflexivity|]. cbn [map rev] in Hnil. destruct (rev (map mkptr r0)); discriminate.
      * unfold ret in H. injection H as <- <-. exists D. split; [|reflexivity]. eapply RK_nostar; eauto.
    + unfold bind at 1 in H. unfold ret at 1 in H. cbv beta iota in H.
      unfold bind at 1 in H. destruct (p_direct_declarator P f kid ap s1) as [[direct s3]| | |] eqn:Ed; try discriminate.
      apply IHd in Ed. destruct Ed as [D [HR ->]]. unfold ret in H. injection H as <- <-.
      exists D. split; [|reflexivity]. eapply RK_plain; eauto.
  - intros kid ap s r s' H. rewrite direct_eq in H. unfold bind at 1 in H.
    assert (NameCase: forall s1, (if ap return Prop then accept P K_LPAREN s = Ok (None, s1) else s1 = s) ->
              bind P (bind P (expect P (if kid then K_ID else K_TYPEID)) (fun nt =>
                      bind P (tcoord P nt) (fun c => ret P (mkTypeDecl P (VStr (tv nt)) VNone VNone VNone c))))
                     (fun decl => p_decl_suffixes P f decl) s1 = Ok (r, s') ->
              exists D, RunD kid ap s D s' /\ r = node_of D).
    { intros s1 Hs1 H1. unfold bind at 1 in H1. unfold bind at 1 in H1.
      destruct (expect P (if kid then K_ID else K_TYPEID) s1) as [[nt s2]| | |] eqn:Ee; try discriminate.
      unfold bind at 1 in H1. destruct (tcoord P nt s2) as [[c s3]| | |] eqn:Ec; try discriminate.
      unfold ret at 1 in H1. cbv beta iota in H1.
      change (mkTypeDecl P (VStr (tv nt)) VNone VNone VNone c) with (node_of (DName [VStr (tv nt); VNone; VNone; VNone] c)) in H1.
      apply suffixes_refine in H1. destruct H1 as [D' [HR ->]]. exists D'. split; [|reflexivity].
      eapply RD_name; eauto. }
    destruct ap.
    + destruct (accept P K_LPAREN s) as [[lp s1]| | |] eqn:Ea; try discriminate.
      destruct lp as [x|].
      * unfold bind at 1 in H. unfold bind at 1 in H.
        destruct (p_declarator_kind P f kid true s1) as [[d s2]| | |] eqn:Ek; try discriminate.
        apply IHk in Ek. destruct Ek as [D1 [HR1 ->]].
        unfold bind at 1 in H. destruct (expect P K_RPAREN s2) as [[y s3]| | |] eqn:Er; try discriminate.
        unfold ret at 1 in H. cbv beta iota in H.
        change (node_of D1) with (node_of (DParen D1)) in H.
        apply suffixes_refine in H. destruct H as [D' [HR ->]]. exists D'. split; [|reflexivity].
        eapply RD_paren; eauto.
      * apply (NameCase s1); [reflexivity|exact H].
    + unfold ret at 1 in H. cbv beta iota in H. apply (NameCase s); [reflexivity|exact H].
Qed.

(* pointer_opt direct-declarator: the node returned is the chain of the C derivations of the declarator
   that was read, applied from the identifier outwards, ending in the TypeDecl made from the identifier *)
Theorem declarator_refines : forall f kid ap s r s',
  p_declarator_kind P f kid ap s = Ok (r, s') ->
  exists D, RunK kid ap s D s' /\ r = build (derivs D) (leaf D).
Proof. intros f. apply (declarator_refine_both f). Qed.
End DR.
