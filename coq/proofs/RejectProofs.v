(* C18 / C11: error items cannot be skipped at delivery; illegal characters become error items. *)
From Coq Require Import List NArith Bool Arith.
Import ListNotations.
From PV Require Import Regex Base UnicodeTables LexTables PyRepr Lexer ParserTables NodeModel ParserBase.
Open Scope N_scope.

(* the next item being an error item, any request for one more token raises ParseError at exactly the item's position *)
Theorem deliver_error_item : forall (P: Type) (s: pstate P) msg p f r,
  raw P s = PErr P msg p f :: r -> deliver1 P s = Err (L_coord P (mkCoord P f p)) msg.
Proof. intros P s msg p f r H. unfold deliver1. rewrite H. reflexivity. Qed.

(* a character at which neither the master regex nor a fixed token matches yields an
   "Illegal character" error item at that character's line and column, and is consumed alone *)
Theorem illegal_char_reported : forall n0 st c rest,
  choose_best n0 (c :: rest) = None ->
  match_token n0 st (c :: rest) =
    ([RErr (msg_illegal c) (l_lineno st) (l_pos st - l_line_start st + 1) (l_file st)],
     mkLex (l_pos st + 1) (l_line_start st) (l_lineno st) (l_file st), rest).
Proof. intros n0 st c rest H. unfold match_token. rewrite H. reflexivity. Qed.

