(* C07 / C05, token level: parse . generate = id for brace-free STATEMENTS over the expression language of
   RoundTripX: expression statements, the empty statement, return / break / continue / goto, if with and
   without else, while, do-while, for with every clause present or absent - nested in any way.
   [stoks rp st] is the token sequence of the text CGenerator prints for st; whenever the whole-parser
   model (p_pragmacomp_or_statement: the production behind every sub-statement position) finds these
   tokens, it returns exactly st.  The only side condition is C's own: the then-branch of an if WITH an
   else must not end in an if without one (the generator does not add braces), and an if without else
   must not be followed by `else`. *)
From Coq Require Import String.
From Coq Require Import List NArith Bool Arith Lia.
Import ListNotations.
From PV Require Import Regex Base AstDefs AstSpec AstImpl GenTables NodeModel Generator ClimbProofs ClimbComplete GenParen GenBinop.
From PV Require Import LexTables ParserTables PyRepr ParserBase ParserDecl ParserMain LexerProofs TableProofs.
From PV Require Import BinaryRefine ExprShape UnaryShape CoordProofs ElseProofs StmtShape StreamLib RoundTrip RoundTripGen RoundTripX TypeName DeclTrip.
Open Scope nat_scope.

Inductive st :=
| SExpr (e: ex)
| SEmpty
| SReturn (e: option ex)
| SBreak
| SContinue
| SGoto (l: str)
| SIf (c: ex) (th: st) (el: option st)
| SWhile (c: ex) (b: st)
| SDo (b: st) (c: ex)
| SFor (i c n: option ex) (b: st)
| SBlock (items: list st)
| SLabel (l: str) (b: st)
| SDecl (ty: list (kind * str)) (x: str) (i: option ex).   (* T x; / T x = e;  - a block item only *)

(* does the statement end in an if without else? *)
Fixpoint sopen (x: st) : bool :=
  match x with
  | SIf _ _ None => true
  | SIf _ _ (Some el) => sopen el
  | SWhile _ b | SFor _ _ _ b | SLabel _ b => sopen b
  | _ => false
  end.

Definition owf (o: option ex) : Prop := match o with Some e => wf e | None => True end.
Definition dwf (dok: bool) (ty: list (kind * str)) (x: str) (i: option ex) : Prop :=
  dok = true /\ ty <> [] /\ Forall (fun kv => kind_in (fst kv) tbl_TYPE_SPEC_SIMPLE = true) ty /\ owf i /\ x <> [].
(* [dok]: are declarations allowed as block items?  (they need a scope stack without typedef names) *)
Fixpoint swfd (dok: bool) (x: st) : Prop :=
  match x with
  | SExpr e => wf e
  | SReturn o => owf o
  | SIf c th el => wf c /\ swfd dok th /\ match el with Some e => sopen th = false /\ swfd dok e | None => True end
  | SWhile c b => wf c /\ swfd dok b
  | SDo b c => swfd dok b /\ wf c
  | SFor i c n b => owf i /\ owf c /\ owf n /\ swfd dok b
  | SLabel _ b => swfd dok b
  | SBlock items => (fix wl (l: list st) : Prop :=
                       match l with [] => True | y :: r => match y with SDecl ty dx i => dwf dok ty dx i | _ => swfd dok y end /\ wl r end) items
  | SDecl _ _ _ => False
  | _ => True
  end.
Definition bwfd (dok: bool) (y: st) : Prop := match y with SDecl ty dx i => dwf dok ty dx i | _ => swfd dok y end.
Definition swfl (dok: bool) (l: list st) : Prop := (fix wl (l: list st) : Prop := match l with [] => True | y :: r => bwfd dok y /\ wl r end) l.
(* statements without declarations, and statements whose blocks may declare objects *)
Definition swf (x: st) : Prop := swfd false x.
Definition swfD (x: st) : Prop := swfd true x.

Fixpoint ssize (x: st) : nat :=
  match x with
  | SIf _ th el => S (ssize th + match el with Some e => ssize e | None => 0 end)
  | SWhile _ b | SDo b _ | SFor _ _ _ b | SLabel _ b => S (ssize b)
  | SBlock items => S (list_sum (map ssize items))
  | _ => 1
  end.

Definition oemb (o: option ex) : value unit := match o with Some e => embx e | None => VNone end.
Fixpoint embs (x: st) : value unit :=
  match x with
  | SExpr e => embx e
  | SEmpty => VNode C_EmptyStatement [] None
  | SReturn o => VNode C_Return [oemb o] None
  | SBreak => VNode C_Break [] None
  | SContinue => VNode C_Continue [] None
  | SGoto l => VNode C_Goto [VStr l] None
  | SIf c th el => VNode C_If [embx c; embs th; match el with Some e => embs e | None => VNone end] None
  | SWhile c b => VNode C_While [embx c; embs b] None
  | SDo b c => VNode C_DoWhile [embx c; embs b] None
  | SFor i c n b => VNode C_For [oemb i; oemb c; oemb n; embs b] None
  | SBlock items => VNode C_Compound [match items with [] => VNone | _ => VList (map embs items) end] None
  | SLabel l b => VNode C_Label [VStr l; embs b] None
  | SDecl ty x i => dembed ty x (oemb i)
  end.

Section STK.
Variable rp : bool.
Definition kw (k: kind) (x: String.string) : kind * str := (k, s2l x).
Definition oxt (o: option ex) : list (kind * str) := match o with Some e => xt rp e | None => [] end.
Fixpoint stoks (x: st) : list (kind * str) :=
  match x with
  | SExpr e => xt rp e ++ [kw K_SEMI ";"]
  | SEmpty => [kw K_SEMI ";"]
  | SReturn o => kw K_RETURN "return" :: oxt o ++ [kw K_SEMI ";"]
  | SBreak => [kw K_BREAK "break"; kw K_SEMI ";"]
  | SContinue => [kw K_CONTINUE "continue"; kw K_SEMI ";"]
  | SGoto l => [kw K_GOTO "goto"; (K_ID, l); kw K_SEMI ";"]
  | SIf c th el => kw K_IF "if" :: kw K_LPAREN "(" :: xt rp c ++ kw K_RPAREN ")" :: stoks th ++
                   match el with Some e => kw K_ELSE "else" :: stoks e | None => [] end
  | SWhile c b => kw K_WHILE "while" :: kw K_LPAREN "(" :: xt rp c ++ kw K_RPAREN ")" :: stoks b
  | SDo b c => kw K_DO "do" :: stoks b ++ kw K_WHILE "while" :: kw K_LPAREN "(" :: xt rp c ++ [kw K_RPAREN ")"; kw K_SEMI ";"]
  | SFor i c n b => kw K_FOR "for" :: kw K_LPAREN "(" :: oxt i ++ kw K_SEMI ";" :: oxt c ++ kw K_SEMI ";" :: oxt n ++ kw K_RPAREN ")" :: stoks b
  | SBlock items => kw K_LBRACE "{" :: concat (map stoks items) ++ [kw K_RBRACE "}"]
  | SLabel l b => (K_ID, l) :: kw K_COLON ":" :: stoks b
  | SDecl ty x i => dtoks ty x (match i with Some e => (K_EQUALS, s2l "=") :: argt rp e | None => [] end)
  end.
End STK.

(* ---- which production p_statement picks, as a function of the first token's kind ---- *)
Definition sclass (k: kind) : nat :=
  if okind_is (Some k) K_CASE || okind_is (Some k) K_DEFAULT then 0
  else if okind_is (Some k) K_LBRACE then 2
  else if okind_is (Some k) K_IF || okind_is (Some k) K_SWITCH then 3
  else if okind_is (Some k) K_WHILE || okind_is (Some k) K_DO || okind_is (Some k) K_FOR then 4
  else if okind_in (Some k) [K_GOTO; K_BREAK; K_CONTINUE; K_RETURN] then 5
  else if okind_is (Some k) K_PPPRAGMA || okind_is (Some k) K_uPRAGMA then 6
  else if okind_is (Some k) K_uSTATIC_ASSERT then 7
  else 8.

(* evaluate the kind tests on closed kinds that occur in the goal *)
Ltac kred := repeat match goal with |- context [kind_eqb ?a ?b] => is_constructor a; is_constructor b; let v := eval vm_compute in (kind_eqb a b) in change (kind_eqb a b) with v end; cbv iota.

Section PS.
Variable P : Type.
Notation pstate := (ParserBase.pstate P).
Notation tok := (ParserBase.tok P).
Notation Up := (StreamLib.Up P).
Notation Spell := (RoundTrip.Spell P).
(* what is assumed of the parser state in front of a statement: nothing ([pre] trivially true, [dok] false: statements
   without declarations), or a scope stack without typedef names ([dok] true: blocks may declare objects) *)
Variable pre : pstate -> Prop.
Hypothesis pre_SC : forall s s', pre s -> SC P s s' -> pre s'.
Variable dok : bool.
Hypothesis pre_notd : dok = true -> forall s, pre s -> StreamLib.NoTD (scopes P s).
Ltac pre_tac := match goal with Hpre: pre ?s0 |- pre ?s1 => apply (pre_SC s0 s1 Hpre); cost_tac end.
Set Default Proof Using "P pre pre_SC dok pre_notd".

Lemma stmt_eq : forall f,
  p_statement P (S f) =
  bind P (peek_kind P) (fun k =>
    if okind_is k K_CASE || okind_is k K_DEFAULT then p_labeled_statement P f
    else
    bind P (if okind_is k K_ID then bind P (peek_kind_k P 2) (fun k2 => ret P (okind_is k2 K_COLON)) else ret P false) (fun is_label =>
    if is_label then p_labeled_statement P f
    else if okind_is k K_LBRACE then p_compound_statement P f
    else if okind_is k K_IF || okind_is k K_SWITCH then p_selection_statement P f
    else if okind_is k K_WHILE || okind_is k K_DO || okind_is k K_FOR then p_iteration_statement P f
    else if okind_in k [K_GOTO; K_BREAK; K_CONTINUE; K_RETURN] then p_jump_statement P f
    else if okind_is k K_PPPRAGMA || okind_is k K_uPRAGMA then p_pppragma_directive P f
    else if okind_is k K_uSTATIC_ASSERT then bind P (p_static_assert P f) (fun l => match l with x :: _ => ret P x | [] => crash P CK_Index end)
    else p_expression_statement P f)).
Proof using P. reflexivity. Qed.

Lemma pcs_eq : forall f,
  p_pragmacomp_or_statement P (S f) =
  bind P (peek_kind P) (fun k =>
    if okind_is k K_PPPRAGMA || okind_is k K_uPRAGMA then
      bind P (p_pppragma_directive_list P f) (fun pragmas => bind P (p_statement P f) (fun stmt =>
      match pragmas with
      | p0 :: _ => bind P (coordA P p0) (fun pc => ret P (mkN P C_Compound [VList (pragmas ++ [stmt])] pc))
      | [] => crash P CK_Index
      end))
    else p_statement P f).
Proof using P. reflexivity. Qed.

(* a statement that does not start with an identifier *)
Lemma dispatch_kw : forall (s: pstate) t l, Up s (t :: l) -> kind_eqb (tk t) K_ID = false ->
  exists s1, Up s1 (t :: l) /\ Ran P s s1 0 /\ forall f,
    p_statement P (S f) s =
    (match sclass (tk t) with
     | 0 => p_labeled_statement P f | 2 => p_compound_statement P f | 3 => p_selection_statement P f
     | 4 => p_iteration_statement P f | 5 => p_jump_statement P f | 6 => p_pppragma_directive P f
     | 7 => bind P (p_static_assert P f) (fun l => match l with x :: _ => ret P x | [] => crash P CK_Index end)
     | _ => p_expression_statement P f end) s1.
Proof.
  intros s t l HU Hid. destruct (peek_kind_up P s t l HU) as [s1 [H1 [HU1 HC1]]]. exists s1. split; [exact HU1|]. split; [cost_tac|]. intros f.
  rewrite stmt_eq. unfold bind at 1. rewrite H1.
  unfold sclass. cbn [okind_is] in *. rewrite Hid.
  destruct (kind_eqb (tk t) K_CASE || kind_eqb (tk t) K_DEFAULT); [reflexivity|].
  unfold bind at 1. unfold ret at 1.
  destruct (kind_eqb (tk t) K_LBRACE); [reflexivity|].
  destruct (kind_eqb (tk t) K_IF || kind_eqb (tk t) K_SWITCH); [reflexivity|].
  destruct (kind_eqb (tk t) K_WHILE || kind_eqb (tk t) K_DO || kind_eqb (tk t) K_FOR); [reflexivity|].
  destruct (okind_in (Some (tk t)) [K_GOTO; K_BREAK; K_CONTINUE; K_RETURN]); [reflexivity|].
  destruct (kind_eqb (tk t) K_PPPRAGMA || kind_eqb (tk t) K_uPRAGMA); [reflexivity|].
  destruct (kind_eqb (tk t) K_uSTATIC_ASSERT); reflexivity.
Qed.

(* an expression statement that starts with an identifier: the label look-ahead finds no colon *)
Lemma dispatch_id : forall (s: pstate) t t2 l, Up s (t :: t2 :: l) -> kind_eqb (tk t) K_ID = true -> kind_eqb (tk t2) K_COLON = false ->
  exists s1, Up s1 (t :: t2 :: l) /\ Ran P s s1 0 /\ forall f, p_statement P (S f) s = p_expression_statement P f s1.
Proof.
  intros s t t2 l HU Hid Hc. destruct (peek_kind_up P s t _ HU) as [s1 [H1 [HU1 HC1]]].
  destruct (peek2_up P s1 t t2 l HU1) as [s2 [H2 [HU2 HC2]]]. exists s2. split; [exact HU2|]. split; [cost_tac|]. intros f.
  assert (Ek: tk t = K_ID) by (apply kind_eqb_eq; exact Hid).
  rewrite stmt_eq. unfold bind at 1. rewrite H1. rewrite Ek.
  change (okind_is (Some K_ID) K_CASE || okind_is (Some K_ID) K_DEFAULT) with false. cbv iota.
  change (okind_is (Some K_ID) K_ID) with true. cbv iota.
  unfold bind at 1. unfold bind at 1. rewrite H2. unfold ret at 1. cbn [okind_is]. rewrite Hc. reflexivity.
Qed.

(* a sub-statement position: no pragma in front *)
Lemma pcs_stmt : forall (s: pstate) t l, Up s (t :: l) -> (okind_is (Some (tk t)) K_PPPRAGMA || okind_is (Some (tk t)) K_uPRAGMA) = false ->
  exists s0, Up s0 (t :: l) /\ Ran P s s0 0 /\ forall f, p_pragmacomp_or_statement P (S f) s = p_statement P f s0.
Proof.
  intros s t l HU Hpr. destruct (peek_kind_up P s t l HU) as [s0 [H0 [HU0 HC0]]]. exists s0. split; [exact HU0|]. split; [cost_tac|]. intros f.
  rewrite pcs_eq. unfold bind at 1. rewrite H0. rewrite Hpr. reflexivity.
Qed.

Lemma iter_eq : forall f,
  p_iteration_statement P (S f) =
  bind P (advance P) (fun t =>
    if kind_eqb (tk t) K_WHILE then
      bind P (expect P K_LPAREN) (fun _ => bind P (p_expression P f) (fun cond => bind P (expect P K_RPAREN) (fun _ =>
      bind P (p_pragmacomp_or_statement P f) (fun st => bind P (tcoord P t) (fun c => ret P (mkN P C_While [cond; st] c))))))
    else if kind_eqb (tk t) K_DO then
      bind P (p_pragmacomp_or_statement P f) (fun st => bind P (expect P K_WHILE) (fun _ => bind P (expect P K_LPAREN) (fun _ =>
      bind P (p_expression P f) (fun cond => bind P (expect P K_RPAREN) (fun _ => bind P (expect P K_SEMI) (fun _ =>
      bind P (tcoord P t) (fun c => ret P (mkN P C_DoWhile [cond; st] c))))))))
    else if kind_eqb (tk t) K_FOR then
      bind P (expect P K_LPAREN) (fun _ => bind P (starts_declaration P) (fun sd =>
      if sd then
        bind P (p_declaration P f) (fun decls => bind P (tcoord P t) (fun ic =>
        let init := mkN P C_DeclList [VList decls] ic in
        bind P (p_expression_opt P f) (fun cond => bind P (expect P K_SEMI) (fun _ => bind P (p_expression_opt P f) (fun nx =>
        bind P (expect P K_RPAREN) (fun _ => bind P (p_pragmacomp_or_statement P f) (fun st => bind P (tcoord P t) (fun c =>
        ret P (mkN P C_For [init; cond; nx; st] c)))))))))
      else
        bind P (p_expression_opt P f) (fun init => bind P (expect P K_SEMI) (fun _ => bind P (p_expression_opt P f) (fun cond =>
        bind P (expect P K_SEMI) (fun _ => bind P (p_expression_opt P f) (fun nx => bind P (expect P K_RPAREN) (fun _ =>
        bind P (p_pragmacomp_or_statement P f) (fun st => bind P (tcoord P t) (fun c => ret P (mkN P C_For [init; cond; nx; st] c)))))))))))
    else bind P (tok_coord P t) (fun c => fail P (L_coord P c) (s2l "Invalid iteration statement"))).
Proof using P. reflexivity. Qed.

Lemma jump_eq : forall f,
  p_jump_statement P (S f) =
  bind P (advance P) (fun t =>
    if kind_eqb (tk t) K_GOTO then
      bind P (expect P K_ID) (fun nt => bind P (expect P K_SEMI) (fun _ => bind P (tcoord P t) (fun c => ret P (mkN P C_Goto [VStr (tv nt)] c))))
    else if kind_eqb (tk t) K_BREAK then bind P (expect P K_SEMI) (fun _ => bind P (tcoord P t) (fun c => ret P (mkN P C_Break [] c)))
    else if kind_eqb (tk t) K_CONTINUE then bind P (expect P K_SEMI) (fun _ => bind P (tcoord P t) (fun c => ret P (mkN P C_Continue [] c)))
    else if kind_eqb (tk t) K_RETURN then
      bind P (accept P K_SEMI) (fun sm =>
      match sm with
      | Some _ => bind P (tcoord P t) (fun c => ret P (mkN P C_Return [VNone] c))
      | None => bind P (p_expression P f) (fun e => bind P (expect P K_SEMI) (fun _ => bind P (tcoord P t) (fun c => ret P (mkN P C_Return [e] c))))
      end)
    else bind P (tok_coord P t) (fun c => fail P (L_coord P c) (s2l "Invalid jump statement"))).
Proof using P. reflexivity. Qed.

Lemma exprstmt_eq : forall f,
  p_expression_statement P (S f) =
  bind P (p_expression_opt P f) (fun e => bind P (expect P K_SEMI) (fun sm =>
  match e with
  | VNone => bind P (tcoord P sm) (fun c => ret P (mkN P C_EmptyStatement [] c))
  | _ => ret P e
  end)).
Proof using P. reflexivity. Qed.

Lemma expropt_eq : forall f, p_expression_opt P (S f) =
  bind P (starts_expression P) (fun se => if se then p_expression P f else ret P VNone).
Proof using P. reflexivity. Qed.

Lemma tcoord_eq : forall (t: tok) (s: pstate), tcoord P t s = Ok (Some (mkCoord P (curfile P s) (tp t)), s).
Proof using P. reflexivity. Qed.

(* an optional expression: present (starts an expression) or absent (the next token does not) *)
Definition sestart (k: kind) : bool := kind_in k tbl_STARTS_EXPRESSION.
Lemma expropt_some : forall kx X c fs co, X = VNode c fs co -> ExprS P kx X ->
  (exists k v rest, kx = (k, v) :: rest /\ sestart k = true) ->
  forall (s: pstate) le (stop: tok) l0, Spell le kx -> Up s (le ++ stop :: l0) -> estop (tk stop) = true ->
  exists f0 N s', (forall f, f0 <= f -> p_expression_opt P f s = Ok (N, s')) /\ Up s' (stop :: l0) /\ strip N = X /\ N <> VNone /\ Ran P s s' (length le).
Proof.
  intros kx X c fs co EX HE [k [v [rest [Ek Hk]]]] s le stop l0 HS HU Hst.
  pose proof HS as HS0. rewrite Ek in HS. destruct (RoundTrip.Spell_cons_inv P _ _ _ _ HS) as [t [tl [El [Hkt [_ _]]]]]. subst le.
  cbn [app] in HU. destruct (peek_kind_up P s t _ HU) as [s1 [H1 [HU1 HC1]]].
  destruct (HE s1 (t :: tl) stop l0 HS0 HU1 Hst) as [f0 [N [s2 [H2 [HU2 [HN HL2]]]]]].
  exists (S f0), N, s2. split; [|split; [exact HU2|split; [exact HN|split; [|cost_tac]]]].
  - intros f Hf. destruct f as [|f]; [lia|]. rewrite expropt_eq. unfold bind at 1. unfold starts_expression. unfold bind at 1. rewrite H1.
    unfold ret at 1. cbn [okind_in]. rewrite Hkt. unfold sestart in Hk. rewrite Hk. apply H2. lia.
  - intros E. rewrite E, EX in HN. discriminate HN.
Qed.
Lemma expropt_none : forall (s: pstate) (t: tok) l, Up s (t :: l) -> sestart (tk t) = false ->
  exists s1, (forall f, p_expression_opt P (S f) s = Ok (VNone, s1)) /\ Up s1 (t :: l) /\ Ran P s s1 0.
Proof.
  intros s t l HU Hk. destruct (peek_kind_up P s t _ HU) as [s1 [H1 [HU1 HC1]]]. exists s1. split; [|split; [exact HU1|split; [cost_tac|cost_tac]]].
  intros f. rewrite expropt_eq. unfold bind at 1. unfold starts_expression. unfold bind at 1. rewrite H1. unfold ret at 1. cbn [okind_in].
  unfold sestart in Hk. rewrite Hk. reflexivity.
Qed.

(* ---- the statement level ---- *)
Definition StmtL (run: nat -> M P (ParserBase.node P)) (kvs: list (kind * str)) (X: value unit) (op: bool) : Prop :=
  forall (s: pstate) le (stop: tok) l0, Spell le kvs -> Up s (le ++ stop :: l0) -> (op = true -> kind_eqb (tk stop) K_ELSE = false) -> pre s ->
  exists f0 N s', (forall f, f0 <= f -> run f s = Ok (N, s')) /\ Up s' (stop :: l0) /\ strip N = X /\ Ran P s s' (length le).
Definition StmtS := StmtL (p_pragmacomp_or_statement P).     (* a sub-statement position *)
Definition StmtS0 := StmtL (p_statement P).                   (* a block item *)

(* the first token is no pragma: a statement is a sub-statement *)
Definition nopragma (kvs: list (kind * str)) : Prop :=
  exists k v rest, kvs = (k, v) :: rest /\ (okind_is (Some k) K_PPPRAGMA || okind_is (Some k) K_uPRAGMA) = false.
Lemma s0_to_s : forall kvs X op, nopragma kvs -> StmtS0 kvs X op -> StmtS kvs X op.
Proof.
  intros kvs X op [k [v [rest [Ek Hnp]]]] H0 s le stop l0 HS HU Hop Hpre.
  pose proof HS as HS0. rewrite Ek in HS. destruct (RoundTrip.Spell_cons_inv P _ _ _ _ HS) as [t [tl [El [Hk [_ _]]]]]. subst le.
  cbn [app] in HU. rewrite <- Hk in Hnp. destruct (pcs_stmt s t _ HU Hnp) as [s0 [HU0 [HCd Hd]]].
  destruct (H0 s0 (t :: tl) stop l0 HS0 HU0 Hop ltac:(pre_tac)) as [f0 [N [s1 [H1 [HU1 [HN HL1]]]]]].
  exists (S f0), N, s1. split; [|split; [exact HU1|split; [exact HN|cost_tac]]]. intros f Hf. destruct f as [|f]; [lia|]. rewrite Hd. apply H1. lia.
Qed.

(* what the first tokens of an expression statement must look like *)
Definition estart (k: kind) : bool :=
  Nat.eqb (sclass k) 8 && sestart k && negb (okind_is (Some k) K_PPPRAGMA || okind_is (Some k) K_uPRAGMA).
Definition good2 (kvs: list (kind * str)) : Prop :=
  exists k v rest, kvs = (k, v) :: rest /\ estart k = true /\
    (kind_eqb k K_ID = true -> exists k2 v2 r2, rest = (k2, v2) :: r2 /\ kind_eqb k2 K_COLON = false).

Lemma dispatch_expr : forall kvs (s: pstate) le rest, Spell le kvs -> good2 kvs -> Up s (le ++ rest) ->
  exists s1, Up s1 (le ++ rest) /\ Ran P s s1 0 /\ forall f, p_statement P (S f) s = p_expression_statement P f s1.
Proof.
  intros kvs s le rest HS [k [v [rest0 [Ek [Hes Hid]]]]] HU. subst kvs.
  destruct (RoundTrip.Spell_cons_inv P _ _ _ _ HS) as [t [tl [-> [Hkt [_ HStl]]]]]. cbn [app] in HU |- *.
  unfold estart in Hes. apply andb_true_iff in Hes. destruct Hes as [Hes Hnp]. apply andb_true_iff in Hes. destruct Hes as [Hcl _].
  apply Nat.eqb_eq in Hcl. apply negb_true_iff in Hnp.
  destruct (kind_eqb k K_ID) eqn:Eid.
  - destruct (Hid eq_refl) as [k2 [v2 [r2 [-> Hk2]]]].
    destruct (RoundTrip.Spell_cons_inv P _ _ _ _ HStl) as [t2 [tl2 [-> [Hk2' [_ _]]]]]. cbn [app] in HU |- *.
    apply dispatch_id; [exact HU|rewrite Hkt; exact Eid|rewrite Hk2'; exact Hk2].
  - assert (Hidt: kind_eqb (tk t) K_ID = false) by (rewrite Hkt; exact Eid).
    destruct (dispatch_kw s t _ HU Hidt) as [s1 [HU1 [HCd E]]]. exists s1. split; [exact HU1|]. split; [exact HCd|]. intros f. rewrite E. rewrite Hkt, Hcl. reflexivity.
Qed.

Lemma s_expr : forall kx X c fs co, X = VNode c fs co -> ExprS P kx X -> good2 (kx ++ [kw K_SEMI ";"]) -> StmtS0 (kx ++ [kw K_SEMI ";"]) X false.
Proof.
  intros kx X c fs co EX HE Hg s le stop l0 HS HU _ Hpre.
  destruct (dispatch_expr _ s le (stop :: l0) HS Hg HU) as [s1 [HU1 [HCd Hd]]].
  destruct (RoundTrip.Spell_app_inv P _ _ _ HS) as [lx [l2 [-> [HSx HS2]]]].
  destruct (RoundTrip.Spell_cons_inv P _ _ _ _ HS2) as [sm [l3 [-> [Hsk [_ HS3]]]]]. apply (RoundTrip.Spell_nil_inv P) in HS3. subst l3.
  rewrite <- app_assoc in HU1. cbn [app] in HU1.
  (* the expression is there: its first token starts an expression *)
  assert (Hst: exists k v rest, kx = (k, v) :: rest /\ sestart k = true).
  { destruct Hg as [k [v [rest0 [Ek [Hes _]]]]]. unfold estart in Hes. apply andb_true_iff in Hes. destruct Hes as [Hes _]. apply andb_true_iff in Hes. destruct Hes as [_ Hse].
    destruct kx as [|[k0 v0] r0]; [cbn in Ek; injection Ek as <- _ _; discriminate Hse|]. cbn in Ek. injection Ek as <- <- _. exists k0, v0, r0. split; [reflexivity|exact Hse]. }
  assert (Hsme: estop (tk sm) = true) by (rewrite Hsk; reflexivity).
  destruct (expropt_some kx X c fs co EX HE Hst s1 lx sm (stop :: l0) HSx HU1 Hsme) as [f0 [N [s2 [H2 [HU2 [HN [HNn HL2]]]]]]].
  assert (Hsmk: kind_eqb (tk sm) K_SEMI = true) by (rewrite Hsk; reflexivity).
  destruct (expect_up P s2 sm _ K_SEMI HU2 Hsmk) as [s3 [H3 [HU3 HC3]]].
  exists (S (S (S f0))), N, s3. split; [|split; [exact HU3|split; [exact HN|cost_tac]]].
  intros f Hf. destruct f as [|[|f]]; try lia. rewrite Hd. rewrite exprstmt_eq. unfold bind at 1. rewrite (H2 f) by lia.
  unfold bind at 1. rewrite H3. rewrite EX in HN. destruct (strip_node_inv _ _ _ _ _ HN) as [fs' [co' ->]]. reflexivity.
Qed.

(* statements that start with a keyword *)
Lemma disp_kw : forall k0 (s: pstate) t l, Up s (t :: l) -> tk t = k0 -> kind_eqb k0 K_ID = false ->
  exists s1, Up s1 (t :: l) /\ Ran P s s1 0 /\ forall f,
    p_statement P (S f) s =
    (match sclass k0 with
     | 0 => p_labeled_statement P f | 2 => p_compound_statement P f | 3 => p_selection_statement P f
     | 4 => p_iteration_statement P f | 5 => p_jump_statement P f | 6 => p_pppragma_directive P f
     | 7 => bind P (p_static_assert P f) (fun l => match l with x :: _ => ret P x | [] => crash P CK_Index end)
     | _ => p_expression_statement P f end) s1.
Proof. intros k0 s t l HU <- H1. apply dispatch_kw; assumption. Qed.

Lemma s_empty : StmtS0 [kw K_SEMI ";"] (VNode C_EmptyStatement [] None) false.
Proof.
  intros s le stop l0 HS HU _ Hpre. destruct (RoundTrip.Spell_cons_inv P _ _ _ _ HS) as [sm [l2 [-> [Hk [_ HS2]]]]]. apply (RoundTrip.Spell_nil_inv P) in HS2. subst l2.
  cbn [app] in HU. destruct (disp_kw K_SEMI s sm _ HU Hk eq_refl) as [s1 [HU1 [HCd Hd]]]. cbv iota beta in Hd.
  change (sclass K_SEMI) with 8 in Hd. cbv iota in Hd.
  assert (Hns: sestart (tk sm) = false) by (rewrite Hk; reflexivity).
  destruct (expropt_none s1 sm _ HU1 Hns) as [s2 [H2 [HU2 HC2]]].
  assert (Hsmk: kind_eqb (tk sm) K_SEMI = true) by (rewrite Hk; reflexivity).
  destruct (expect_up P s2 sm _ K_SEMI HU2 Hsmk) as [s3 [H3 [HU3 HC3]]].
  exists 4, (mkN P C_EmptyStatement [] (Some (mkCoord P (curfile P s3) (tp sm)))), s3. split; [|split; [exact HU3|split; [reflexivity|cost_tac]]].
  intros f Hf. destruct f as [|[|[|f]]]; try lia. rewrite Hd. rewrite exprstmt_eq. unfold bind at 1. rewrite H2.
  unfold bind at 1. rewrite H3. unfold bind at 1. rewrite tcoord_eq. reflexivity.
Qed.

Lemma jump_start : forall k0 (s: pstate) t l, Up s (t :: l) -> tk t = k0 -> kind_in k0 [K_GOTO; K_BREAK; K_CONTINUE; K_RETURN] = true ->
  exists s2, Up s2 l /\ Ran P s s2 1 /\ forall f, p_statement P (S (S f)) s =
    (if kind_eqb k0 K_GOTO then
      bind P (expect P K_ID) (fun nt => bind P (expect P K_SEMI) (fun _ => bind P (tcoord P t) (fun c => ret P (mkN P C_Goto [VStr (tv nt)] c))))
    else if kind_eqb k0 K_BREAK then bind P (expect P K_SEMI) (fun _ => bind P (tcoord P t) (fun c => ret P (mkN P C_Break [] c)))
    else if kind_eqb k0 K_CONTINUE then bind P (expect P K_SEMI) (fun _ => bind P (tcoord P t) (fun c => ret P (mkN P C_Continue [] c)))
    else if kind_eqb k0 K_RETURN then
      bind P (accept P K_SEMI) (fun sm =>
      match sm with
      | Some _ => bind P (tcoord P t) (fun c => ret P (mkN P C_Return [VNone] c))
      | None => bind P (p_expression P f) (fun e => bind P (expect P K_SEMI) (fun _ => bind P (tcoord P t) (fun c => ret P (mkN P C_Return [e] c))))
      end)
    else bind P (tok_coord P t) (fun c => fail P (L_coord P c) (s2l "Invalid jump statement"))) s2.
Proof.
  intros k0 s t l HU Hk Hin.
  assert (H1: kind_eqb k0 K_ID = false) by (destruct k0; vm_compute in Hin; try discriminate Hin; reflexivity).
  assert (H3: sclass k0 = 5) by (destruct k0; vm_compute in Hin; try discriminate Hin; reflexivity).
  destruct (disp_kw k0 s t l HU Hk H1) as [s1 [HU1 [HCd Hd]]]. rewrite H3 in Hd.
  destruct (advance_up P s1 t l HU1) as [s2 [Ha [HU2 HC2]]]. exists s2. split; [exact HU2|]. split; [cost_tac|].
  intros f. rewrite Hd. rewrite jump_eq. unfold bind at 1. rewrite Ha. rewrite Hk. reflexivity.
Qed.

Lemma s_break : StmtS0 [kw K_BREAK "break"; kw K_SEMI ";"] (VNode C_Break [] None) false.
Proof.
  intros s le stop l0 HS HU _ Hpre. destruct (RoundTrip.Spell_cons_inv P _ _ _ _ HS) as [t [l2 [-> [Hk [_ HS2]]]]].
  destruct (RoundTrip.Spell_cons_inv P _ _ _ _ HS2) as [sm [l3 [-> [Hsk [_ HS3]]]]]. apply (RoundTrip.Spell_nil_inv P) in HS3. subst l3.
  cbn [app] in HU. destruct (jump_start K_BREAK s t _ HU Hk eq_refl) as [s2 [HU2 [HCd Hd]]].
  assert (Hsmk: kind_eqb (tk sm) K_SEMI = true) by (rewrite Hsk; reflexivity).
  destruct (expect_up P s2 sm _ K_SEMI HU2 Hsmk) as [s3 [H3 [HU3 HC3]]].
  exists 3, (mkN P C_Break [] (Some (mkCoord P (curfile P s3) (tp t)))), s3. split; [|split; [exact HU3|split; [reflexivity|cost_tac]]].
  intros f Hf. destruct f as [|[|f]]; try lia. rewrite Hd. kred. unfold bind at 1. rewrite H3. unfold bind at 1. rewrite tcoord_eq. reflexivity.
Qed.

Lemma s_continue : StmtS0 [kw K_CONTINUE "continue"; kw K_SEMI ";"] (VNode C_Continue [] None) false.
Proof.
  intros s le stop l0 HS HU _ Hpre. destruct (RoundTrip.Spell_cons_inv P _ _ _ _ HS) as [t [l2 [-> [Hk [_ HS2]]]]].
  destruct (RoundTrip.Spell_cons_inv P _ _ _ _ HS2) as [sm [l3 [-> [Hsk [_ HS3]]]]]. apply (RoundTrip.Spell_nil_inv P) in HS3. subst l3.
  cbn [app] in HU. destruct (jump_start K_CONTINUE s t _ HU Hk eq_refl) as [s2 [HU2 [HCd Hd]]].
  assert (Hsmk: kind_eqb (tk sm) K_SEMI = true) by (rewrite Hsk; reflexivity).
  destruct (expect_up P s2 sm _ K_SEMI HU2 Hsmk) as [s3 [H3 [HU3 HC3]]].
  exists 3, (mkN P C_Continue [] (Some (mkCoord P (curfile P s3) (tp t)))), s3. split; [|split; [exact HU3|split; [reflexivity|cost_tac]]].
  intros f Hf. destruct f as [|[|f]]; try lia. rewrite Hd. kred. unfold bind at 1. rewrite H3. unfold bind at 1. rewrite tcoord_eq. reflexivity.
Qed.

Lemma s_goto : forall l, StmtS0 [kw K_GOTO "goto"; (K_ID, l); kw K_SEMI ";"] (VNode C_Goto [VStr l] None) false.
Proof.
  intros lbl s le stop l0 HS HU _ Hpre. destruct (RoundTrip.Spell_cons_inv P _ _ _ _ HS) as [t [l2 [-> [Hk [_ HS2]]]]].
  destruct (RoundTrip.Spell_cons_inv P _ _ _ _ HS2) as [nt [l3 [-> [Hnk [Hnv HS3]]]]].
  destruct (RoundTrip.Spell_cons_inv P _ _ _ _ HS3) as [sm [l4 [-> [Hsk [_ HS4]]]]]. apply (RoundTrip.Spell_nil_inv P) in HS4. subst l4.
  cbn [app] in HU. destruct (jump_start K_GOTO s t _ HU Hk eq_refl) as [s2 [HU2 [HCd Hd]]].
  assert (Hidk: kind_eqb (tk nt) K_ID = true) by (rewrite Hnk; reflexivity).
  destruct (expect_up P s2 nt _ K_ID HU2 Hidk) as [s3 [H3 [HU3 HC3]]].
  assert (Hsmk: kind_eqb (tk sm) K_SEMI = true) by (rewrite Hsk; reflexivity).
  destruct (expect_up P s3 sm _ K_SEMI HU3 Hsmk) as [s4 [H4 [HU4 HC4]]].
  exists 3, (mkN P C_Goto [VStr (tv nt)] (Some (mkCoord P (curfile P s4) (tp t)))), s4. split; [|split; [exact HU4|split; [unfold mkN; cbn; rewrite Hnv; reflexivity|cost_tac]]].
  intros f Hf. destruct f as [|[|f]]; try lia. rewrite Hd. kred. unfold bind at 1. rewrite H3. unfold bind at 1. rewrite H4.
  unfold bind at 1. rewrite tcoord_eq. reflexivity.
Qed.

Lemma s_return0 : StmtS0 [kw K_RETURN "return"; kw K_SEMI ";"] (VNode C_Return [VNone] None) false.
Proof.
  intros s le stop l0 HS HU _ Hpre. destruct (RoundTrip.Spell_cons_inv P _ _ _ _ HS) as [t [l2 [-> [Hk [_ HS2]]]]].
  destruct (RoundTrip.Spell_cons_inv P _ _ _ _ HS2) as [sm [l3 [-> [Hsk [_ HS3]]]]]. apply (RoundTrip.Spell_nil_inv P) in HS3. subst l3.
  cbn [app] in HU. destruct (jump_start K_RETURN s t _ HU Hk eq_refl) as [s2 [HU2 [HCd Hd]]].
  assert (Hsmk: kind_eqb (tk sm) K_SEMI = true) by (rewrite Hsk; reflexivity).
  destruct (accept_hit P s2 sm _ K_SEMI HU2 Hsmk) as [s3 [H3 [HU3 HC3]]].
  exists 3, (mkN P C_Return [VNone] (Some (mkCoord P (curfile P s3) (tp t)))), s3. split; [|split; [exact HU3|split; [reflexivity|cost_tac]]].
  intros f Hf. destruct f as [|[|f]]; try lia. rewrite Hd. kred. unfold bind at 1. rewrite H3. unfold bind at 1. rewrite tcoord_eq. reflexivity.
Qed.

Lemma s_return1 : forall kx X, (exists k v rest, kx = (k, v) :: rest /\ sestart k = true) -> ExprS P kx X ->
  StmtS0 (kw K_RETURN "return" :: kx ++ [kw K_SEMI ";"]) (VNode C_Return [X] None) false.
Proof.
  intros kx X [k [v [rest [Ek Hsk0]]]] HE s le stop l0 HS HU _ Hpre. destruct (RoundTrip.Spell_cons_inv P _ _ _ _ HS) as [t [l2 [-> [Hk [_ HS2]]]]].
  destruct (RoundTrip.Spell_app_inv P _ _ _ HS2) as [lx [l3 [-> [HSx HS3]]]].
  destruct (RoundTrip.Spell_cons_inv P _ _ _ _ HS3) as [sm [l4 [-> [Hsk [_ HS4]]]]]. apply (RoundTrip.Spell_nil_inv P) in HS4. subst l4.
  cbn [app] in HU. rewrite <- app_assoc in HU. cbn [app] in HU.
  destruct (jump_start K_RETURN s t _ HU Hk eq_refl) as [s2 [HU2 [HCd Hd]]].
  (* the first token of the expression is not ';' *)
  pose proof HSx as HSx0. rewrite Ek in HSx. destruct (RoundTrip.Spell_cons_inv P _ _ _ _ HSx) as [x1 [tl [El [Hkx [_ _]]]]]. subst lx. cbn [app] in HU2.
  assert (Hnosemi: kind_eqb (tk x1) K_SEMI = false).
  { rewrite Hkx. clear -Hsk0. unfold sestart in Hsk0. destruct k; vm_compute in Hsk0; try discriminate Hsk0; reflexivity. }
  destruct (accept_miss P s2 x1 _ K_SEMI HU2 Hnosemi) as [s3 [H3 [HU3 HC3]]].
  assert (Hsme: estop (tk sm) = true) by (rewrite Hsk; reflexivity).
  destruct (HE s3 (x1 :: tl) sm (stop :: l0) HSx0 HU3 Hsme) as [f0 [N [s4 [H4 [HU4 [HN HL4]]]]]].
  assert (Hsmk: kind_eqb (tk sm) K_SEMI = true) by (rewrite Hsk; reflexivity).
  destruct (expect_up P s4 sm _ K_SEMI HU4 Hsmk) as [s5 [H5 [HU5 HC5]]].
  exists (S (S (S f0))), (mkN P C_Return [N] (Some (mkCoord P (curfile P s5) (tp t)))), s5. split; [|split; [exact HU5|split; [unfold mkN; cbn [strip map]; rewrite HN; reflexivity|cost_tac]]].
  intros f Hf. destruct f as [|[|f]]; try lia. rewrite Hd. kred. unfold bind at 1. rewrite H3. unfold bind at 1. rewrite (H4 f) by lia.
  unfold bind at 1. rewrite H5. unfold bind at 1. rewrite tcoord_eq. reflexivity.
Qed.
(* ---- if / while / do / for ---- *)
Lemma sel_start : forall (s: pstate) t l, Up s (t :: l) -> tk t = K_IF ->
  exists s2, Up s2 l /\ Ran P s s2 1 /\ forall f, p_statement P (S (S f)) s =
    bind P (expect P K_LPAREN) (fun _ => bind P (p_expression P f) (fun cond => bind P (expect P K_RPAREN) (fun _ =>
    bind P (p_pragmacomp_or_statement P f) (fun th => bind P (accept P K_ELSE) (fun el =>
    match el with
    | Some _ => bind P (p_pragmacomp_or_statement P f) (fun es => bind P (tcoord P t) (fun c => ret P (mkN P C_If [cond; th; es] c)))
    | None => bind P (tcoord P t) (fun c => ret P (mkN P C_If [cond; th; VNone] c))
    end))))) s2.
Proof.
  intros s t l HU Hk. destruct (disp_kw K_IF s t l HU Hk eq_refl) as [s1 [HU1 [HCd Hd]]]. change (sclass K_IF) with 3 in Hd. cbv iota in Hd.
  destruct (advance_up P s1 t l HU1) as [s2 [Ha [HU2 HC2]]]. exists s2. split; [exact HU2|]. split; [cost_tac|].
  intros f. rewrite Hd. rewrite (sel_eq P). unfold bind at 1. rewrite Ha. rewrite Hk. reflexivity.
Qed.

Definition while_body (t: tok) (f: nat) : M P (ParserBase.node P) :=
  bind P (expect P K_LPAREN) (fun _ => bind P (p_expression P f) (fun cond => bind P (expect P K_RPAREN) (fun _ =>
  bind P (p_pragmacomp_or_statement P f) (fun st => bind P (tcoord P t) (fun c => ret P (mkN P C_While [cond; st] c)))))).
Definition do_body (t: tok) (f: nat) : M P (ParserBase.node P) :=
  bind P (p_pragmacomp_or_statement P f) (fun st => bind P (expect P K_WHILE) (fun _ => bind P (expect P K_LPAREN) (fun _ =>
  bind P (p_expression P f) (fun cond => bind P (expect P K_RPAREN) (fun _ => bind P (expect P K_SEMI) (fun _ =>
  bind P (tcoord P t) (fun c => ret P (mkN P C_DoWhile [cond; st] c)))))))).
Definition for_body (t: tok) (f: nat) : M P (ParserBase.node P) :=
  bind P (p_expression_opt P f) (fun init => bind P (expect P K_SEMI) (fun _ => bind P (p_expression_opt P f) (fun cond =>
  bind P (expect P K_SEMI) (fun _ => bind P (p_expression_opt P f) (fun nx => bind P (expect P K_RPAREN) (fun _ =>
  bind P (p_pragmacomp_or_statement P f) (fun st => bind P (tcoord P t) (fun c => ret P (mkN P C_For [init; cond; nx; st] c))))))))).

Lemma while_start : forall (s: pstate) t l, Up s (t :: l) -> tk t = K_WHILE ->
  exists s2, Up s2 l /\ Ran P s s2 1 /\ forall f, p_statement P (S (S f)) s = while_body t f s2.
Proof.
  intros s t l HU Hk. destruct (disp_kw K_WHILE s t l HU Hk eq_refl) as [s1 [HU1 [HCd Hd]]]. change (sclass K_WHILE) with 4 in Hd. cbv iota in Hd.
  destruct (advance_up P s1 t l HU1) as [s2 [Ha [HU2 HC2]]]. exists s2. split; [exact HU2|]. split; [cost_tac|].
  intros f. rewrite Hd. rewrite iter_eq. unfold bind at 1. rewrite Ha. rewrite Hk. reflexivity.
Qed.
Lemma do_start : forall (s: pstate) t l, Up s (t :: l) -> tk t = K_DO ->
  exists s2, Up s2 l /\ Ran P s s2 1 /\ forall f, p_statement P (S (S f)) s = do_body t f s2.
Proof.
  intros s t l HU Hk. destruct (disp_kw K_DO s t l HU Hk eq_refl) as [s1 [HU1 [HCd Hd]]]. change (sclass K_DO) with 4 in Hd. cbv iota in Hd.
  destruct (advance_up P s1 t l HU1) as [s2 [Ha [HU2 HC2]]]. exists s2. split; [exact HU2|]. split; [cost_tac|].
  intros f. rewrite Hd. rewrite iter_eq. unfold bind at 1. rewrite Ha. rewrite Hk. reflexivity.
Qed.
(* for ( : the token after the parenthesis does not start a declaration *)
Lemma for_start : forall (s: pstate) t lp x l, Up s (t :: lp :: x :: l) -> tk t = K_FOR -> tk lp = K_LPAREN -> kind_in (tk x) tbl_DECL_START = false ->
  exists s2, Up s2 (x :: l) /\ Ran P s s2 2 /\ forall f, p_statement P (S (S f)) s = for_body t f s2.
Proof.
  intros s t lp x l HU Hk Hlp Hx. destruct (disp_kw K_FOR s t _ HU Hk eq_refl) as [s1 [HU1 [HCd Hd]]]. change (sclass K_FOR) with 4 in Hd. cbv iota in Hd.
  destruct (advance_up P s1 t _ HU1) as [s2 [Ha [HU2 HC2]]].
  assert (Hlpk: kind_eqb (tk lp) K_LPAREN = true) by (rewrite Hlp; reflexivity).
  destruct (expect_up P s2 lp _ K_LPAREN HU2 Hlpk) as [s3 [H3 [HU3 HC3]]].
  destruct (peek_kind_up P s3 x _ HU3) as [s4 [H4 [HU4 HC4]]]. exists s4. split; [exact HU4|]. split; [cost_tac|].
  intros f. rewrite Hd. rewrite iter_eq. unfold bind at 1. rewrite Ha. rewrite Hk. kred.
  unfold bind at 1. rewrite H3. unfold bind at 1. unfold starts_declaration. unfold bind at 1. rewrite H4. unfold ret at 1. cbn [okind_in]. rewrite Hx. reflexivity.
Qed.

Lemma s_if : forall kc Xc kth Xth opth, ExprS P kc Xc -> StmtS kth Xth opth ->
  StmtS0 (kw K_IF "if" :: kw K_LPAREN "(" :: kc ++ kw K_RPAREN ")" :: kth) (VNode C_If [Xc; Xth; VNone] None) true.
Proof.
  intros kc Xc kth Xth opth HE HT s le stop l0 HS HU Hop Hpre.
  destruct (RoundTrip.Spell_cons_inv P _ _ _ _ HS) as [t [l1 [-> [Hk [_ HS1]]]]].
  destruct (RoundTrip.Spell_cons_inv P _ _ _ _ HS1) as [lp [l2 [-> [Hlp [_ HS2]]]]].
  destruct (RoundTrip.Spell_app_inv P _ _ _ HS2) as [lc [l3 [-> [HSc HS3]]]].
  destruct (RoundTrip.Spell_cons_inv P _ _ _ _ HS3) as [rpt [lth [-> [Hrp [_ HSth]]]]].
  cbn [app] in HU. rewrite <- app_assoc in HU. cbn [app] in HU.
  destruct (sel_start s t _ HU Hk) as [s2 [HU2 [HCd Hd]]].
  assert (Hlpk: kind_eqb (tk lp) K_LPAREN = true) by (rewrite Hlp; reflexivity).
  destruct (expect_up P s2 lp _ K_LPAREN HU2 Hlpk) as [s3 [H3 [HU3 HC3]]].
  assert (Hre: estop (tk rpt) = true) by (rewrite Hrp; reflexivity).
  destruct (HE s3 lc rpt _ HSc HU3 Hre) as [f1 [Nc [s4 [H4 [HU4 [HNc HL4]]]]]].
  assert (Hrpk: kind_eqb (tk rpt) K_RPAREN = true) by (rewrite Hrp; reflexivity).
  destruct (expect_up P s4 rpt _ K_RPAREN HU4 Hrpk) as [s5 [H5 [HU5 HC5]]].
  destruct (HT s5 lth stop l0 HSth HU5 (fun _ => Hop eq_refl) ltac:(pre_tac)) as [f2 [Nth [s6 [H6 [HU6 [HNth HL6]]]]]].
  destruct (accept_miss P s6 stop l0 K_ELSE HU6 (Hop eq_refl)) as [s7 [H7 [HU7 HC7]]].
  exists (S (S (S (Nat.max f1 f2)))), (mkN P C_If [Nc; Nth; VNone] (Some (mkCoord P (curfile P s7) (tp t)))), s7.
  split; [|split; [exact HU7|split; [unfold mkN; cbn [strip map]; rewrite HNc, HNth; reflexivity|cost_tac]]].
  intros f Hf. destruct f as [|[|f]]; try lia. rewrite Hd. unfold bind at 1. rewrite H3. unfold bind at 1. rewrite (H4 f) by lia.
  unfold bind at 1. rewrite H5. unfold bind at 1. rewrite (H6 f) by lia. unfold bind at 1. rewrite H7. unfold bind at 1. rewrite tcoord_eq. reflexivity.
Qed.

Lemma s_ifelse : forall kc Xc kth Xth kel Xel opel, ExprS P kc Xc -> StmtS kth Xth false -> StmtS kel Xel opel ->
  StmtS0 (kw K_IF "if" :: kw K_LPAREN "(" :: kc ++ kw K_RPAREN ")" :: kth ++ kw K_ELSE "else" :: kel) (VNode C_If [Xc; Xth; Xel] None) opel.
Proof.
  intros kc Xc kth Xth kel Xel opel HE HT HL s le stop l0 HS HU Hop Hpre.
  destruct (RoundTrip.Spell_cons_inv P _ _ _ _ HS) as [t [l1 [-> [Hk [_ HS1]]]]].
  destruct (RoundTrip.Spell_cons_inv P _ _ _ _ HS1) as [lp [l2 [-> [Hlp [_ HS2]]]]].
  destruct (RoundTrip.Spell_app_inv P _ _ _ HS2) as [lc [l3 [-> [HSc HS3]]]].
  destruct (RoundTrip.Spell_cons_inv P _ _ _ _ HS3) as [rpt [l4 [-> [Hrp [_ HS4]]]]].
  destruct (RoundTrip.Spell_app_inv P _ _ _ HS4) as [lth [l5 [-> [HSth HS5]]]].
  destruct (RoundTrip.Spell_cons_inv P _ _ _ _ HS5) as [et [lel [-> [Hek [_ HSel]]]]].
  cbn [app] in HU. rewrite <- app_assoc in HU. cbn [app] in HU. rewrite <- app_assoc in HU. cbn [app] in HU.
  destruct (sel_start s t _ HU Hk) as [s2 [HU2 [HCd Hd]]].
  assert (Hlpk: kind_eqb (tk lp) K_LPAREN = true) by (rewrite Hlp; reflexivity).
  destruct (expect_up P s2 lp _ K_LPAREN HU2 Hlpk) as [s3 [H3 [HU3 HC3]]].
  assert (Hre: estop (tk rpt) = true) by (rewrite Hrp; reflexivity).
  destruct (HE s3 lc rpt _ HSc HU3 Hre) as [f1 [Nc [s4 [H4 [HU4 [HNc HL4]]]]]].
  assert (Hrpk: kind_eqb (tk rpt) K_RPAREN = true) by (rewrite Hrp; reflexivity).
  destruct (expect_up P s4 rpt _ K_RPAREN HU4 Hrpk) as [s5 [H5 [HU5 HC5]]].
  destruct (HT s5 lth et _ HSth HU5 (fun E => False_ind _ (Bool.diff_false_true E)) ltac:(pre_tac)) as [f2 [Nth [s6 [H6 [HU6 [HNth HL6]]]]]].
  assert (Hetk: kind_eqb (tk et) K_ELSE = true) by (rewrite Hek; reflexivity).
  destruct (accept_hit P s6 et _ K_ELSE HU6 Hetk) as [s7 [H7 [HU7 HC7]]].
  destruct (HL s7 lel stop l0 HSel HU7 Hop ltac:(pre_tac)) as [f3 [Nel [s8 [H8 [HU8 [HNel HL8]]]]]].
  exists (S (S (S (Nat.max f1 (Nat.max f2 f3))))), (mkN P C_If [Nc; Nth; Nel] (Some (mkCoord P (curfile P s8) (tp t)))), s8.
  split; [|split; [exact HU8|split; [unfold mkN; cbn [strip map]; rewrite HNc, HNth, HNel; reflexivity|cost_tac]]].
  intros f Hf. destruct f as [|[|f]]; try lia. rewrite Hd. unfold bind at 1. rewrite H3. unfold bind at 1. rewrite (H4 f) by lia.
  unfold bind at 1. rewrite H5. unfold bind at 1. rewrite (H6 f) by lia. unfold bind at 1. rewrite H7.
  unfold bind at 1. rewrite (H8 f) by lia. unfold bind at 1. rewrite tcoord_eq. reflexivity.
Qed.

Lemma s_while : forall kc Xc kb Xb opb, ExprS P kc Xc -> StmtS kb Xb opb ->
  StmtS0 (kw K_WHILE "while" :: kw K_LPAREN "(" :: kc ++ kw K_RPAREN ")" :: kb) (VNode C_While [Xc; Xb] None) opb.
Proof.
  intros kc Xc kb Xb opb HE HB s le stop l0 HS HU Hop Hpre.
  destruct (RoundTrip.Spell_cons_inv P _ _ _ _ HS) as [t [l1 [-> [Hk [_ HS1]]]]].
  destruct (RoundTrip.Spell_cons_inv P _ _ _ _ HS1) as [lp [l2 [-> [Hlp [_ HS2]]]]].
  destruct (RoundTrip.Spell_app_inv P _ _ _ HS2) as [lc [l3 [-> [HSc HS3]]]].
  destruct (RoundTrip.Spell_cons_inv P _ _ _ _ HS3) as [rpt [lb [-> [Hrp [_ HSb]]]]].
  cbn [app] in HU. rewrite <- app_assoc in HU. cbn [app] in HU.
  destruct (while_start s t _ HU Hk) as [s2 [HU2 [HCd Hd]]].
  assert (Hlpk: kind_eqb (tk lp) K_LPAREN = true) by (rewrite Hlp; reflexivity).
  destruct (expect_up P s2 lp _ K_LPAREN HU2 Hlpk) as [s3 [H3 [HU3 HC3]]].
  assert (Hre: estop (tk rpt) = true) by (rewrite Hrp; reflexivity).
  destruct (HE s3 lc rpt _ HSc HU3 Hre) as [f1 [Nc [s4 [H4 [HU4 [HNc HL4]]]]]].
  assert (Hrpk: kind_eqb (tk rpt) K_RPAREN = true) by (rewrite Hrp; reflexivity).
  destruct (expect_up P s4 rpt _ K_RPAREN HU4 Hrpk) as [s5 [H5 [HU5 HC5]]].
  destruct (HB s5 lb stop l0 HSb HU5 Hop ltac:(pre_tac)) as [f2 [Nb [s6 [H6 [HU6 [HNb HL6]]]]]].
  exists (S (S (S (Nat.max f1 f2)))), (mkN P C_While [Nc; Nb] (Some (mkCoord P (curfile P s6) (tp t)))), s6.
  split; [|split; [exact HU6|split; [unfold mkN; cbn [strip map]; rewrite HNc, HNb; reflexivity|cost_tac]]].
  intros f Hf. destruct f as [|[|f]]; try lia. rewrite Hd. unfold while_body. unfold bind at 1. rewrite H3. unfold bind at 1. rewrite (H4 f) by lia.
  unfold bind at 1. rewrite H5. unfold bind at 1. rewrite (H6 f) by lia. unfold bind at 1. rewrite tcoord_eq. reflexivity.
Qed.

Lemma s_do : forall kc Xc kb Xb opb, ExprS P kc Xc -> StmtS kb Xb opb ->
  StmtS0 (kw K_DO "do" :: kb ++ kw K_WHILE "while" :: kw K_LPAREN "(" :: kc ++ [kw K_RPAREN ")"; kw K_SEMI ";"]) (VNode C_DoWhile [Xc; Xb] None) false.
Proof.
  intros kc Xc kb Xb opb HE HB s le stop l0 HS HU _ Hpre.
  destruct (RoundTrip.Spell_cons_inv P _ _ _ _ HS) as [t [l1 [-> [Hk [_ HS1]]]]].
  destruct (RoundTrip.Spell_app_inv P _ _ _ HS1) as [lb [l2 [-> [HSb HS2]]]].
  destruct (RoundTrip.Spell_cons_inv P _ _ _ _ HS2) as [wt [l3 [-> [Hwk [_ HS3]]]]].
  destruct (RoundTrip.Spell_cons_inv P _ _ _ _ HS3) as [lp [l4 [-> [Hlp [_ HS4]]]]].
  destruct (RoundTrip.Spell_app_inv P _ _ _ HS4) as [lc [l5 [-> [HSc HS5]]]].
  destruct (RoundTrip.Spell_cons_inv P _ _ _ _ HS5) as [rpt [l6 [-> [Hrp [_ HS6]]]]].
  destruct (RoundTrip.Spell_cons_inv P _ _ _ _ HS6) as [sm [l7 [-> [Hsk [_ HS7]]]]]. apply (RoundTrip.Spell_nil_inv P) in HS7. subst l7.
  cbn [app] in HU. rewrite <- app_assoc in HU. cbn [app] in HU. rewrite <- app_assoc in HU. cbn [app] in HU.
  destruct (do_start s t _ HU Hk) as [s2 [HU2 [HCd Hd]]].
  assert (Hwne: opb = true -> kind_eqb (tk wt) K_ELSE = false) by (intros _; rewrite Hwk; reflexivity).
  destruct (HB s2 lb wt _ HSb HU2 Hwne ltac:(pre_tac)) as [f1 [Nb [s3 [H3 [HU3 [HNb HL3]]]]]].
  assert (Hwkk: kind_eqb (tk wt) K_WHILE = true) by (rewrite Hwk; reflexivity).
  destruct (expect_up P s3 wt _ K_WHILE HU3 Hwkk) as [s4 [H4 [HU4 HC4]]].
  assert (Hlpk: kind_eqb (tk lp) K_LPAREN = true) by (rewrite Hlp; reflexivity).
  destruct (expect_up P s4 lp _ K_LPAREN HU4 Hlpk) as [s5 [H5 [HU5 HC5]]].
  assert (Hre: estop (tk rpt) = true) by (rewrite Hrp; reflexivity).
  destruct (HE s5 lc rpt _ HSc HU5 Hre) as [f2 [Nc [s6 [H6 [HU6 [HNc HL6]]]]]].
  assert (Hrpk: kind_eqb (tk rpt) K_RPAREN = true) by (rewrite Hrp; reflexivity).
  destruct (expect_up P s6 rpt _ K_RPAREN HU6 Hrpk) as [s7 [H7 [HU7 HC7]]].
  assert (Hsmk: kind_eqb (tk sm) K_SEMI = true) by (rewrite Hsk; reflexivity).
  destruct (expect_up P s7 sm _ K_SEMI HU7 Hsmk) as [s8 [H8 [HU8 HC8]]].
  exists (S (S (S (Nat.max f1 f2)))), (mkN P C_DoWhile [Nc; Nb] (Some (mkCoord P (curfile P s8) (tp t)))), s8.
  split; [|split; [exact HU8|split; [unfold mkN; cbn [strip map]; rewrite HNc, HNb; reflexivity|cost_tac]]].
  intros f Hf. destruct f as [|[|f]]; try lia. rewrite Hd. unfold do_body. unfold bind at 1. rewrite (H3 f) by lia.
  unfold bind at 1. rewrite H4. unfold bind at 1. rewrite H5. unfold bind at 1. rewrite (H6 f) by lia.
  unfold bind at 1. rewrite H7. unfold bind at 1. rewrite H8. unfold bind at 1. rewrite tcoord_eq. reflexivity.
Qed.

(* an optional clause of `for` *)
Definition OptOK (kx: list (kind * str)) (X: value unit) : Prop :=
  (kx = [] /\ X = VNone) \/
  (exists c fs co, X = VNode c fs co) /\ ExprS P kx X /\ (exists k v rest, kx = (k, v) :: rest /\ sestart k = true).

Lemma opt_run : forall kx X, OptOK kx X ->
  forall (s: pstate) le (stop: tok) l0, Spell le kx -> Up s (le ++ stop :: l0) -> estop (tk stop) = true -> sestart (tk stop) = false ->
  exists f0 N s', (forall f, f0 <= f -> p_expression_opt P f s = Ok (N, s')) /\ Up s' (stop :: l0) /\ strip N = X /\ Ran P s s' (length le).
Proof.
  intros kx X [[-> ->]|[[c [fs [co EX]]] [HE Hh]]] s le stop l0 HS HU Hst Hns.
  - apply (RoundTrip.Spell_nil_inv P) in HS. subst le. cbn [app] in HU.
    destruct (expropt_none s stop l0 HU Hns) as [s1 [H1 [HU1 HC1]]]. exists 1, VNone, s1. split; [|split; [exact HU1|split; [reflexivity|cost_tac]]].
    intros f Hf. destruct f as [|f]; [lia|]. apply H1.
  - destruct (expropt_some kx X c fs co EX HE Hh s le stop l0 HS HU Hst) as [f0 [N [s1 [H1 [HU1 [HN [_ HL1]]]]]]].
    exists f0, N, s1. split; [exact H1|split; [exact HU1|split; [exact HN|exact HL1]]].
Qed.

Lemma opt_first : forall kx X y, OptOK kx X -> kind_in (fst y) tbl_DECL_START = false ->
  exists k v rest, kx ++ [y] = (k, v) :: rest /\ kind_in k tbl_DECL_START = false.
Proof.
  intros kx X [ky vy] [[-> _]|[_ [_ [k [v [rest [-> Hk]]]]]]] Hy.
  - exists ky, vy, []. split; [reflexivity|exact Hy].
  - exists k, v, (rest ++ [(ky, vy)]). split; [reflexivity|]. clear -Hk. unfold sestart in Hk. destruct k; vm_compute in Hk; try discriminate Hk; reflexivity.
Qed.

Lemma s_for : forall ki Xi kc Xc kn Xn kb Xb opb, OptOK ki Xi -> OptOK kc Xc -> OptOK kn Xn -> StmtS kb Xb opb ->
  StmtS0 (kw K_FOR "for" :: kw K_LPAREN "(" :: ki ++ kw K_SEMI ";" :: kc ++ kw K_SEMI ";" :: kn ++ kw K_RPAREN ")" :: kb)
        (VNode C_For [Xi; Xc; Xn; Xb] None) opb.
Proof.
  intros ki Xi kc Xc kn Xn kb Xb opb Hi Hc Hn HB s le stop l0 HS HU Hop Hpre.
  destruct (RoundTrip.Spell_cons_inv P _ _ _ _ HS) as [t [l1 [-> [Hk [_ HS1]]]]].
  destruct (RoundTrip.Spell_cons_inv P _ _ _ _ HS1) as [lp [l2 [-> [Hlp [_ HS2]]]]].
  destruct (RoundTrip.Spell_app_inv P _ _ _ HS2) as [li [l3 [-> [HSi HS3]]]].
  destruct (RoundTrip.Spell_cons_inv P _ _ _ _ HS3) as [sm1 [l4 [-> [Hs1 [Hv1 HS4]]]]].
  destruct (RoundTrip.Spell_app_inv P _ _ _ HS4) as [lc [l5 [-> [HSc HS5]]]].
  destruct (RoundTrip.Spell_cons_inv P _ _ _ _ HS5) as [sm2 [l6 [-> [Hs2 [_ HS6]]]]].
  destruct (RoundTrip.Spell_app_inv P _ _ _ HS6) as [ln [l7 [-> [HSn HS7]]]].
  destruct (RoundTrip.Spell_cons_inv P _ _ _ _ HS7) as [rpt [lb [-> [Hrp [_ HSb]]]]].
  cbn [app] in HU. rewrite <- app_assoc in HU. cbn [app] in HU. rewrite <- app_assoc in HU. cbn [app] in HU. rewrite <- app_assoc in HU. cbn [app] in HU.
  (* the token after `(` *)
  assert (Hx: exists x lx, li ++ sm1 :: lc ++ sm2 :: ln ++ rpt :: lb ++ stop :: l0 = x :: lx /\ kind_in (tk x) tbl_DECL_START = false).
  { destruct (opt_first ki Xi (kw K_SEMI ";") Hi eq_refl) as [k [v [rest [Ek Hkd]]]].
    assert (HS': Spell (li ++ [sm1]) (ki ++ [kw K_SEMI ";"])).
    { unfold RoundTrip.Spell in *. rewrite map_app, HSi. cbn [map]. rewrite Hs1, Hv1. reflexivity. }
    rewrite Ek in HS'. destruct (RoundTrip.Spell_cons_inv P _ _ _ _ HS') as [x [lx [Ex [Hxk _]]]].
    exists x, (lx ++ lc ++ sm2 :: ln ++ rpt :: lb ++ stop :: l0). split; [|rewrite Hxk; exact Hkd].
    change (li ++ sm1 :: lc ++ sm2 :: ln ++ rpt :: lb ++ stop :: l0) with (li ++ [sm1] ++ (lc ++ sm2 :: ln ++ rpt :: lb ++ stop :: l0)).
    rewrite app_assoc, Ex. reflexivity. }
  destruct Hx as [x [lx [Ex Hxd]]]. rewrite Ex in HU.
  destruct (for_start s t lp x lx HU Hk Hlp Hxd) as [s2 [HU2 [HCd Hd]]]. rewrite <- Ex in HU2.
  assert (Hse: estop K_SEMI = true) by reflexivity. assert (Hsn: sestart K_SEMI = false) by reflexivity.
  assert (Hre: estop K_RPAREN = true) by reflexivity. assert (Hrn: sestart K_RPAREN = false) by reflexivity.
  rewrite <- Hs1 in Hse, Hsn.
  destruct (opt_run ki Xi Hi s2 li sm1 _ HSi HU2 Hse Hsn) as [f1 [Ni [s3 [H3 [HU3 [HNi HL3]]]]]].
  assert (Hsk1: kind_eqb (tk sm1) K_SEMI = true) by (rewrite Hs1; reflexivity).
  destruct (expect_up P s3 sm1 _ K_SEMI HU3 Hsk1) as [s4 [H4 [HU4 HC4]]].
  assert (Hse2: estop (tk sm2) = true) by (rewrite Hs2; reflexivity). assert (Hsn2: sestart (tk sm2) = false) by (rewrite Hs2; reflexivity).
  destruct (opt_run kc Xc Hc s4 lc sm2 _ HSc HU4 Hse2 Hsn2) as [f2 [Nc [s5 [H5 [HU5 [HNc HL5]]]]]].
  assert (Hsk2: kind_eqb (tk sm2) K_SEMI = true) by (rewrite Hs2; reflexivity).
  destruct (expect_up P s5 sm2 _ K_SEMI HU5 Hsk2) as [s6 [H6 [HU6 HC6]]].
  rewrite <- Hrp in Hre, Hrn.
  destruct (opt_run kn Xn Hn s6 ln rpt _ HSn HU6 Hre Hrn) as [f3 [Nn [s7 [H7 [HU7 [HNn HL7]]]]]].
  assert (Hrpk: kind_eqb (tk rpt) K_RPAREN = true) by (rewrite Hrp; reflexivity).
  destruct (expect_up P s7 rpt _ K_RPAREN HU7 Hrpk) as [s8 [H8 [HU8 HC8]]].
  destruct (HB s8 lb stop l0 HSb HU8 Hop ltac:(pre_tac)) as [f4 [Nb [s9 [H9 [HU9 [HNb HL9]]]]]].
  exists (S (S (S (Nat.max (Nat.max f1 f2) (Nat.max f3 f4))))), (mkN P C_For [Ni; Nc; Nn; Nb] (Some (mkCoord P (curfile P s9) (tp t)))), s9.
  split; [|split; [exact HU9|split; [unfold mkN; cbn [strip map]; rewrite HNi, HNc, HNn, HNb; reflexivity|cost_tac]]].
  intros f Hf. destruct f as [|[|f]]; try lia. rewrite Hd. unfold for_body. unfold bind at 1. rewrite (H3 f) by lia.
  unfold bind at 1. rewrite H4. unfold bind at 1. rewrite (H5 f) by lia. unfold bind at 1. rewrite H6.
  unfold bind at 1. rewrite (H7 f) by lia. unfold bind at 1. rewrite H8. unfold bind at 1. rewrite (H9 f) by lia.
  unfold bind at 1. rewrite tcoord_eq. reflexivity.
Qed.
(* ---- labels: `name : statement` ---- *)
Definition ssk (k: kind) : bool := kind_in k tbl_STARTS_STATEMENT || kind_in k tbl_STARTS_EXPRESSION.
Definition sshead (kvs: list (kind * str)) : Prop := exists k v rest, kvs = (k, v) :: rest /\ ssk k = true.

Lemma label_start : forall (s: pstate) t c l, Up s (t :: c :: l) -> tk t = K_ID -> tk c = K_COLON ->
  exists s5, Up s5 l /\ Ran P s s5 2 /\ forall f, p_statement P (S (S f)) s =
    bind P (StmtShape.lbody P f t) (fun stmt => bind P (tcoord P t) (fun cd => ret P (mkN P C_Label [VStr (tv t); stmt] cd))) s5.
Proof.
  intros s t c l HU Hk Hc.
  destruct (peek_kind_up P s t _ HU) as [s1 [H1 [HU1 HC1]]].
  destruct (peek2_up P s1 t c l HU1) as [s2 [H2 [HU2 HC2]]].
  destruct (peek_kind_up P s2 t _ HU2) as [s3 [H3 [HU3 HC3]]].
  destruct (advance_up P s3 t _ HU3) as [s4 [H4 [HU4 HC4]]].
  assert (Hck: kind_eqb (tk c) K_COLON = true) by (rewrite Hc; reflexivity).
  destruct (expect_up P s4 c _ K_COLON HU4 Hck) as [s5 [H5 [HU5 HC5]]].
  exists s5. split; [exact HU5|]. split; [cost_tac|]. intros f.
  rewrite stmt_eq. unfold bind at 1. rewrite H1. rewrite Hk.
  change (okind_is (Some K_ID) K_CASE || okind_is (Some K_ID) K_DEFAULT) with false. cbv iota.
  change (okind_is (Some K_ID) K_ID) with true. cbv iota.
  unfold bind at 1. unfold bind at 1. rewrite H2. unfold ret at 1. cbn [okind_is]. rewrite Hc.
  change (kind_eqb K_COLON K_COLON) with true. cbv iota.
  rewrite (StmtShape.labeled_eq P). unfold bind at 1. rewrite H3. rewrite Hk. change (okind_is (Some K_ID) K_ID) with true. cbv iota.
  unfold bind at 1. rewrite H4. unfold bind at 1. rewrite H5. reflexivity.
Qed.

Lemma lbody_run : forall kb Xb opb, StmtS kb Xb opb -> sshead kb ->
  forall (t: tok) (s: pstate) le (stop: tok) l0, Spell le kb -> Up s (le ++ stop :: l0) -> (opb = true -> kind_eqb (tk stop) K_ELSE = false) -> pre s ->
  exists f0 N s', (forall f, f0 <= f -> StmtShape.lbody P f t s = Ok (N, s')) /\ Up s' (stop :: l0) /\ strip N = Xb /\ Ran P s s' (length le).
Proof.
  intros kb Xb opb HB [k [v [rest [Ek Hss]]]] t s le stop l0 HS HU Hop Hpre.
  pose proof HS as HS0. rewrite Ek in HS. destruct (RoundTrip.Spell_cons_inv P _ _ _ _ HS) as [x [tl [El [Hkx [_ _]]]]]. subst le. cbn [app] in HU.
  destruct (peek_kind_up P s x _ HU) as [s1 [H1 [HU1 HC1]]].
  destruct (peek_kind_up P s1 x _ HU1) as [s2 [H2 [HU2 HC2]]].
  unfold ssk in Hss. rewrite <- Hkx in Hss.
  destruct (kind_in (tk x) tbl_STARTS_STATEMENT) eqn:E1.
  - destruct (HB s1 (x :: tl) stop l0 HS0 HU1 Hop ltac:(pre_tac)) as [f0 [N [s3 [H3 [HU3 [HN HL3]]]]]].
    exists f0, N, s3. split; [|split; [exact HU3|split; [exact HN|cost_tac]]].
    intros f Hf. unfold StmtShape.lbody. unfold bind at 1. unfold starts_statement. unfold bind at 1. rewrite H1. rewrite E1. unfold ret at 1. apply H3. exact Hf.
  - cbn [orb] in Hss. destruct (HB s2 (x :: tl) stop l0 HS0 HU2 Hop ltac:(pre_tac)) as [f0 [N [s3 [H3 [HU3 [HN HL3]]]]]].
    exists f0, N, s3. split; [|split; [exact HU3|split; [exact HN|cost_tac]]].
    intros f Hf. unfold StmtShape.lbody. unfold bind at 1. unfold starts_statement. unfold bind at 1. rewrite H1. rewrite E1.
    unfold starts_expression. unfold bind at 1. rewrite H2. unfold ret at 1. cbn [okind_in]. rewrite Hss. apply H3. exact Hf.
Qed.

Lemma s_label : forall lb kb Xb opb, StmtS kb Xb opb -> sshead kb ->
  StmtS0 ((K_ID, lb) :: kw K_COLON ":" :: kb) (VNode C_Label [VStr lb; Xb] None) opb.
Proof.
  intros lb kb Xb opb HB Hh s le stop l0 HS HU Hop Hpre.
  destruct (RoundTrip.Spell_cons_inv P _ _ _ _ HS) as [t [l1 [-> [Hk [Hv HS1]]]]].
  destruct (RoundTrip.Spell_cons_inv P _ _ _ _ HS1) as [c [l2 [-> [Hc [_ HS2]]]]].
  cbn [app] in HU.
  destruct (label_start s t c _ HU Hk Hc) as [s3 [HU3 [HC3 Hd]]].
  destruct (lbody_run kb Xb opb HB Hh t s3 l2 stop l0 HS2 HU3 Hop ltac:(pre_tac)) as [f0 [N [s4 [H4 [HU4 [HN HL4]]]]]].
  exists (S (S f0)), (mkN P C_Label [VStr (tv t); N] (Some (mkCoord P (curfile P s4) (tp t)))), s4.
  split; [|split; [exact HU4|split; [unfold mkN; cbn [strip map]; rewrite Hv, HN; reflexivity|cost_tac]]].
  intros f Hf. destruct f as [|[|f]]; try lia. rewrite Hd. unfold bind at 1. rewrite (H4 f) by lia. unfold bind at 1. rewrite tcoord_eq. reflexivity.
Qed.

(* ---- blocks ---- *)
Lemma blk_eq : forall f,
  p_block_item_list P (S f) =
  bind P (peek_kind P) (fun k =>
    match k with
    | None => ret P []
    | Some k' =>
      if kind_eqb k' K_RBRACE then ret P []
      else bind P (starts_declaration P) (fun sd =>
           bind P (if sd then p_declaration P f else bind P (p_statement P f) (fun s0 => ret P (stmt_to_items P s0))) (fun items =>
           bind P (p_block_item_list P f) (fun rest => ret P (items ++ rest))))
    end).
Proof using P. reflexivity. Qed.

(* what the first token of a statement looks like: no pragma, no `}`, no declaration start, no `else` *)
Definition sstart (k: kind) : bool :=
  negb (okind_is (Some k) K_PPPRAGMA || okind_is (Some k) K_uPRAGMA) && negb (kind_eqb k K_RBRACE) &&
  negb (kind_in k tbl_DECL_START) && negb (kind_eqb k K_ELSE).
Definition shead (kvs: list (kind * str)) : Prop := exists k v rest, kvs = (k, v) :: rest /\ sstart k = true.
Lemma sstart_facts : forall k, sstart k = true ->
  (okind_is (Some k) K_PPPRAGMA || okind_is (Some k) K_uPRAGMA) = false /\ kind_eqb k K_RBRACE = false /\
  kind_in k tbl_DECL_START = false /\ kind_eqb k K_ELSE = false.
Proof.
  intros k H. unfold sstart in H. do 3 (apply andb_true_iff in H; destruct H as [H ?]).
  repeat match goal with X: negb _ = true |- _ => apply negb_true_iff in X end. repeat split; assumption.
Qed.
Lemma shead_nopragma : forall kvs, shead kvs -> nopragma kvs.
Proof. intros kvs [k [v [rest [E H]]]]. exists k, v, rest. split; [exact E|exact (proj1 (sstart_facts k H))]. Qed.

(* a declaration as a block item *)
Definition DeclS (kvs: list (kind * str)) (X: value unit) : Prop :=
  forall (s: pstate) le (stop: tok) l0, Spell le kvs -> Up s (le ++ stop :: l0) -> StreamLib.NoTD (scopes P s) ->
  exists f0 Ns s', (forall f, f0 <= f -> p_declaration P f s = Ok (Ns, s')) /\ Up s' (stop :: l0) /\
    map (@strip (coord P)) Ns = [X] /\ Ran P s s' (length le).
Definition dhead (kvs: list (kind * str)) : Prop := exists k v rest, kvs = (k, v) :: rest /\ kind_in k tbl_DECL_START = true.
Lemma decl_start_facts : forall k, kind_in k tbl_DECL_START = true -> kind_eqb k K_RBRACE = false /\ kind_eqb k K_ELSE = false.
Proof. intros k H. destruct k; vm_compute in H; try discriminate H; split; reflexivity. Qed.

Definition item_ok (it: list (kind * str) * value unit * bool) : Prop :=
  let '(kvs, X, op) := it in
  (StmtS0 kvs X op /\ shead kvs /\ exists c fs co, X = VNode c fs co) \/ (dok = true /\ DeclS kvs X /\ dhead kvs).

(* the first token of an item is neither `}` nor `else` *)
Lemma item_first : forall it, item_ok it -> exists k v rest, fst (fst it) = (k, v) :: rest /\ kind_eqb k K_RBRACE = false /\ kind_eqb k K_ELSE = false.
Proof.
  intros [[kvs X] op] [[_ [[k [v [rest [Ek Hsk]]]] _]]|[_ [_ [k [v [rest [Ek Hd]]]]]]]; exists k, v, rest; cbn [fst]; (split; [exact Ek|]).
  - destruct (sstart_facts k Hsk) as (_ & H1 & _ & H2). split; assumption.
  - exact (decl_start_facts k Hd).
Qed.

Lemma blk_run : forall items, Forall item_ok items ->
  forall (s: pstate) le (rb: tok) rest, Spell le (concat (map (fun it => fst (fst it)) items)) -> Up s (le ++ rb :: rest) -> tk rb = K_RBRACE -> pre s ->
  exists f0 Ns s', (forall f, f0 <= f -> p_block_item_list P f s = Ok (Ns, s')) /\ Up s' (rb :: rest) /\ map strip Ns = map (fun it => snd (fst it)) items /\ Ran P s s' (length le).
Proof.
  induction items as [|[[kvs X] op] items IH]; intros HF s le rb rest HS HU Hrb Hpre.
  - apply (RoundTrip.Spell_nil_inv P) in HS. subst le. cbn [app] in HU.
    destruct (peek_kind_up P s rb rest HU) as [s1 [H1 [HU1 HC1]]]. exists 1, [], s1. split; [|split; [exact HU1|split; [reflexivity|cost_tac]]].
    intros f Hf. destruct f as [|f]; [lia|]. rewrite blk_eq. unfold bind at 1. rewrite H1. rewrite Hrb. reflexivity.
  - inversion HF as [|x y Hit HF']; subst x y.
    destruct (item_first _ Hit) as [k [v [rest0 [Ek [Hnrb _]]]]]. cbn [fst] in Ek.
    cbn [map concat fst snd] in HS. destruct (RoundTrip.Spell_app_inv P _ _ _ HS) as [l1 [lr [-> [HS1 HSr]]]].
    pose proof HS1 as HS1'. rewrite Ek in HS1'. destruct (RoundTrip.Spell_cons_inv P _ _ _ _ HS1') as [t [tl [El [Hkt [_ _]]]]]. subst l1.
    rewrite <- app_assoc in HU. cbn [app] in HU.
    destruct (peek_kind_up P s t _ HU) as [s1 [H1 [HU1 HC1]]].
    destruct (peek_kind_up P s1 t _ HU1) as [s2 [H2 [HU2 HC2]]].
    (* the token after this item: the first token of the next item, or the closing brace - never `else` *)
    assert (Hnext: exists n l', lr ++ rb :: rest = n :: l' /\ kind_eqb (tk n) K_ELSE = false).
    { destruct items as [|it2 items'].
      - apply (RoundTrip.Spell_nil_inv P) in HSr. subst lr. exists rb, rest. split; [reflexivity|rewrite Hrb; reflexivity].
      - inversion HF' as [|x y Hit2 _]; subst x y. destruct (item_first _ Hit2) as [k2 [v2 [rest2 [Ek2 [_ Hne2]]]]].
        cbn [map concat] in HSr. rewrite Ek2 in HSr. cbn [app] in HSr.
        destruct (RoundTrip.Spell_cons_inv P _ _ _ _ HSr) as [n [l2 [-> [Hkn [_ _]]]]]. exists n, (l2 ++ rb :: rest). split; [reflexivity|].
        rewrite Hkn. exact Hne2. }
    destruct Hnext as [n [l' [En Hn]]].
    change (t :: tl ++ lr ++ rb :: rest) with ((t :: tl) ++ lr ++ rb :: rest) in HU2. rewrite En in HU2.
    destruct Hit as [[H0 [[k' [v' [rest' [Ek' Hsk]]]] [c [fs [co EX]]]]]|[Hdok [HD [k' [v' [rest' [Ek' Hdk]]]]]]]; rewrite Ek in Ek'; injection Ek' as <- <- <-.
    + destruct (sstart_facts k Hsk) as (_ & _ & Hnds & _).
      destruct (H0 s2 (t :: tl) n l' HS1 HU2 (fun _ => Hn) ltac:(pre_tac)) as [f1 [N [s3 [H3 [HU3 [HN HL3]]]]]]. rewrite <- En in HU3.
      destruct (IH HF' s3 lr rb rest HSr HU3 Hrb ltac:(pre_tac)) as [f2 [Ns [s4 [H4 [HU4 [HNs HL4]]]]]].
      rewrite EX in HN. destruct (strip_node_inv _ _ _ _ _ HN) as [fs' [co' EN]].
      exists (S (Nat.max f1 f2)), (N :: Ns), s4. split; [|split; [exact HU4|split; [cbn [map fst snd]; rewrite HNs, HN, EX; reflexivity|cost_tac]]].
      intros f Hf. destruct f as [|f]; [lia|]. rewrite blk_eq. unfold bind at 1. rewrite H1. rewrite Hkt, Hnrb.
      unfold bind at 1. unfold starts_declaration. unfold bind at 1. rewrite H2. unfold ret at 1. cbn [okind_in]. rewrite Hkt, Hnds.
      unfold bind at 1. unfold bind at 1. rewrite (H3 f) by lia. unfold ret at 1. rewrite EN. cbn [stmt_to_items].
      unfold bind at 1. rewrite (H4 f) by lia. reflexivity.
    + assert (Hpre2: pre s2) by pre_tac.
      destruct (HD s2 (t :: tl) n l' HS1 HU2 (pre_notd Hdok s2 Hpre2)) as [f1 [Nd [s3 [H3 [HU3 [HN HL3]]]]]]. rewrite <- En in HU3.
      destruct (IH HF' s3 lr rb rest HSr HU3 Hrb ltac:(pre_tac)) as [f2 [Ns [s4 [H4 [HU4 [HNs HL4]]]]]].
      exists (S (Nat.max f1 f2)), (Nd ++ Ns), s4. split; [|split; [exact HU4|split; [rewrite map_app; cbn [map fst snd]; apply (f_equal2 (@app (value unit)) HN HNs)|cost_tac]]].
      intros f Hf. destruct f as [|f]; [lia|]. rewrite blk_eq. unfold bind at 1. rewrite H1. rewrite Hkt, Hnrb.
      unfold bind at 1. unfold starts_declaration. unfold bind at 1. rewrite H2. unfold ret at 1. cbn [okind_in]. rewrite Hkt, Hdk.
      unfold bind at 1. rewrite (H3 f) by lia.
      unfold bind at 1. rewrite (H4 f) by lia. reflexivity.
Qed.

Lemma s_block : forall items, Forall item_ok items ->
  StmtS0 (kw K_LBRACE "{" :: concat (map (fun it => fst (fst it)) items) ++ [kw K_RBRACE "}"])
         (VNode C_Compound [match items with [] => VNone | _ => VList (map (fun it => snd (fst it)) items) end] None) false.
Proof.
  intros items HF s le stop l0 HS HU _ Hpre.
  destruct (RoundTrip.Spell_cons_inv P _ _ _ _ HS) as [lb [l1 [-> [Hlk [_ HS1]]]]].
  destruct (RoundTrip.Spell_app_inv P _ _ _ HS1) as [li [l2 [-> [HSi HS2]]]].
  destruct (RoundTrip.Spell_cons_inv P _ _ _ _ HS2) as [rb [l3 [-> [Hrk [_ HS3]]]]]. apply (RoundTrip.Spell_nil_inv P) in HS3. subst l3.
  cbn [app] in HU. rewrite <- app_assoc in HU. cbn [app] in HU.
  destruct (disp_kw K_LBRACE s lb _ HU Hlk eq_refl) as [s1 [HU1 [HCd Hd]]]. change (sclass K_LBRACE) with 2 in Hd. cbv iota in Hd.
  assert (Hlbk: kind_eqb (tk lb) K_LBRACE = true) by (rewrite Hlk; reflexivity).
  destruct (expect_up P s1 lb _ K_LBRACE HU1 Hlbk) as [s2 [H2 [HU2 HC2]]].
  assert (Hrbk: kind_eqb (tk rb) K_RBRACE = true) by (rewrite Hrk; reflexivity).
  destruct items as [|it items'].
  - cbn [map concat] in HSi. apply (RoundTrip.Spell_nil_inv P) in HSi. subst li. cbn [app] in HU2.
    destruct (accept_hit P s2 rb _ K_RBRACE HU2 Hrbk) as [s3 [H3 [HU3 HC3]]].
    exists 2, (mkN P C_Compound [VNone] (Some (mkCoord P (curfile P s3) (tp lb)))), s3. split; [|split; [exact HU3|split; [reflexivity|cost_tac]]].
    intros f Hf. destruct f as [|[|f]]; try lia. rewrite Hd. rewrite (compound_eq P). unfold bind at 1. rewrite H2. unfold bind at 1. rewrite H3.
    unfold bind at 1. rewrite tcoord_eq. reflexivity.
  - (* the first token of the first item is not `}` *)
    assert (Hfirst: exists t tl, li = t :: tl /\ kind_eqb (tk t) K_RBRACE = false).
    { inversion HF as [|x y Hit _]; subst x y. destruct (item_first _ Hit) as [k [v [rest0 [Ek [Hnr _]]]]].
      cbn [map concat] in HSi. rewrite Ek in HSi. cbn [app] in HSi. destruct (RoundTrip.Spell_cons_inv P _ _ _ _ HSi) as [t [tl [-> [Hkt [_ _]]]]].
      exists t, tl. split; [reflexivity|rewrite Hkt; exact Hnr]. }
    destruct Hfirst as [t [tl [El Hnrb]]]. rewrite El in HU2. cbn [app] in HU2.
    destruct (accept_miss P s2 t _ K_RBRACE HU2 Hnrb) as [s3 [H3 [HU3 HC3]]].
    change (t :: tl ++ rb :: stop :: l0) with ((t :: tl) ++ rb :: stop :: l0) in HU3. rewrite <- El in HU3.
    assert (Hrk': tk rb = K_RBRACE) by exact Hrk.
    destruct (blk_run (it :: items') HF s3 li rb (stop :: l0) HSi HU3 Hrk' ltac:(pre_tac)) as [f1 [Ns [s4 [H4 [HU4 [HNs HL4]]]]]].
    destruct (expect_up P s4 rb _ K_RBRACE HU4 Hrbk) as [s5 [H5 [HU5 HC5]]].
    exists (S (S f1)), (mkN P C_Compound [VList Ns] (Some (mkCoord P (curfile P s5) (tp lb)))), s5. split; [|split; [exact HU5|split; [unfold mkN; cbn [strip map]; rewrite HNs; reflexivity|cost_tac]]].
    intros f Hf. destruct f as [|[|f]]; try lia. rewrite Hd. rewrite (compound_eq P). unfold bind at 1. rewrite H2. unfold bind at 1. rewrite H3.
    unfold bind at 1. rewrite (H4 f) by lia. unfold bind at 1. rewrite H5. unfold bind at 1. rewrite tcoord_eq. reflexivity.
Qed.
(* the compound statement on its own (a function body): nothing is looked at behind the closing brace *)
Lemma compound_run : forall items, Forall item_ok items ->
  forall (s: pstate) (lb: tok) li (rb: tok) rest, tk lb = K_LBRACE -> Spell li (concat (map (fun it => fst (fst it)) items)) -> tk rb = K_RBRACE ->
  Up s (lb :: li ++ rb :: rest) -> pre s ->
  exists f0 N s', (forall f, f0 <= f -> p_compound_statement P f s = Ok (N, s')) /\ Up s' rest /\
    strip N = VNode C_Compound [match items with [] => VNone | _ => VList (map (fun it => snd (fst it)) items) end] None /\
    Ran P s s' (S (S (length li))).
Proof.
  intros items HF s lb li rb rest Hlk HSi Hrk HU Hpre.
  assert (Hlbk: kind_eqb (tk lb) K_LBRACE = true) by (rewrite Hlk; reflexivity).
  destruct (expect_up P s lb _ K_LBRACE HU Hlbk) as [s2 [H2 [HU2 HC2]]].
  assert (Hrbk: kind_eqb (tk rb) K_RBRACE = true) by (rewrite Hrk; reflexivity).
  destruct items as [|it items'].
  - cbn [map concat] in HSi. apply (RoundTrip.Spell_nil_inv P) in HSi. subst li. cbn [app] in HU2.
    destruct (accept_hit P s2 rb _ K_RBRACE HU2 Hrbk) as [s3 [H3 [HU3 HC3]]].
    exists 1, (mkN P C_Compound [VNone] (Some (mkCoord P (curfile P s3) (tp lb)))), s3. split; [|split; [exact HU3|split; [reflexivity|cost_tac]]].
    intros f Hf. destruct f as [|f]; try lia. rewrite (compound_eq P). unfold bind at 1. rewrite H2. unfold bind at 1. rewrite H3.
    unfold bind at 1. rewrite tcoord_eq. reflexivity.
  - assert (Hfirst: exists t tl, li = t :: tl /\ kind_eqb (tk t) K_RBRACE = false).
    { inversion HF as [|x y Hit _]; subst x y. destruct (item_first _ Hit) as [k [v [rest0 [Ek [Hnr _]]]]].
      cbn [map concat] in HSi. rewrite Ek in HSi. cbn [app] in HSi. destruct (RoundTrip.Spell_cons_inv P _ _ _ _ HSi) as [t [tl [-> [Hkt [_ _]]]]].
      exists t, tl. split; [reflexivity|rewrite Hkt; exact Hnr]. }
    destruct Hfirst as [t [tl [El Hnrb]]]. rewrite El in HU2. cbn [app] in HU2.
    destruct (accept_miss P s2 t _ K_RBRACE HU2 Hnrb) as [s3 [H3 [HU3 HC3]]].
    change (t :: tl ++ rb :: rest) with ((t :: tl) ++ rb :: rest) in HU3. rewrite <- El in HU3.
    destruct (blk_run (it :: items') HF s3 li rb rest HSi HU3 Hrk ltac:(pre_tac)) as [f1 [Ns [s4 [H4 [HU4 [HNs HL4]]]]]].
    destruct (expect_up P s4 rb _ K_RBRACE HU4 Hrbk) as [s5 [H5 [HU5 HC5]]].
    exists (S f1), (mkN P C_Compound [VList Ns] (Some (mkCoord P (curfile P s5) (tp lb)))), s5. split; [|split; [exact HU5|split; [unfold mkN; cbn [strip map]; rewrite HNs; reflexivity|cost_tac]]].
    intros f Hf. destruct f as [|f]; try lia. rewrite (compound_eq P). unfold bind at 1. rewrite H2. unfold bind at 1. rewrite H3.
    unfold bind at 1. rewrite (H4 f) by lia. unfold bind at 1. rewrite H5. unfold bind at 1. rewrite tcoord_eq. reflexivity.
Qed.
End PS.
Unset Default Proof Using.

(* ---- the first tokens of a generated expression ---- *)
Lemma good2_app : forall x y, good2 x -> good2 (x ++ y).
Proof.
  intros x y [k [v [rest [-> [H1 H2]]]]]. exists k, v, (rest ++ y). split; [reflexivity|]. split; [exact H1|].
  intros E. destruct (H2 E) as [k2 [v2 [r2 [-> H3]]]]. exists k2, v2, (r2 ++ y). split; [reflexivity|exact H3].
Qed.
Lemma good2_parkv : forall x y, good2 (parkv x ++ y).
Proof. intros x y. unfold parkv. eexists; eexists; eexists. split; [reflexivity|]. split; [reflexivity|]. intros E; discriminate E. Qed.
Lemma good2_kw : forall k v y, estart k = true -> kind_eqb k K_ID = false -> good2 ((k, v) :: y).
Proof. intros k v y H1 H2. exists k, v, y. split; [reflexivity|]. split; [exact H1|]. intros E; congruence. Qed.

Definition ncolon (y: list (kind * str)) : Prop := exists k2 v2 r2, y = (k2, v2) :: r2 /\ kind_eqb k2 K_COLON = false.

Lemma unop_start : forall k, kind_in k [K_AND; K_TIMES; K_PLUS; K_MINUS; K_NOT; K_LNOT] = true -> estart k = true /\ kind_eqb k K_ID = false.
Proof. intros k H. destruct k; vm_compute in H; try discriminate H; vm_compute; split; reflexivity. Qed.
Lemma incdec_start : forall k, kind_eqb k K_PLUSPLUS || kind_eqb k K_MINUSMINUS = true -> estart k = true /\ kind_eqb k K_ID = false /\ kind_eqb k K_COLON = false.
Proof. intros k H. destruct k; vm_compute in H; try discriminate H; vm_compute; repeat split. Qed.
Lemma const_start : forall k, kind_in k tbl_INT_CONST || kind_in k tbl_FLOAT_CONST || kind_in k tbl_CHAR_CONST = true -> estart k = true /\ kind_eqb k K_ID = false.
Proof. intros k H. destruct k; vm_compute in H; try discriminate H; vm_compute; split; reflexivity. Qed.
Lemma prec_ncolon : forall k p, prec_of k = Some p -> kind_eqb k K_COLON = false.
Proof. intros k p H. destruct k; vm_compute in H; try discriminate H; reflexivity. Qed.
Lemma mem_ncolon : forall k, kind_eqb k K_PERIOD || kind_eqb k K_ARROW = true -> kind_eqb k K_COLON = false.
Proof. intros k H. destruct k; vm_compute in H; try discriminate H; reflexivity. Qed.
Lemma asg_ncolon : forall k, kind_in k tbl_ASSIGNMENT_OPS = true -> kind_eqb k K_COLON = false.
Proof. intros k H. destruct k; vm_compute in H; try discriminate H; reflexivity. Qed.

Lemma size_pos1 : forall e, 1 <= size e.
Proof. destruct e; cbn [size]; lia. Qed.

Section HEAD.
Variable rp : bool.
Notation xt := (xt rp).

Lemma ncolon_cons : forall k v y, kind_eqb k K_COLON = false -> ncolon ((k, v) :: y).
Proof. intros k v y H. exists k, v, y. split; [reflexivity|exact H]. Qed.

Lemma xt_head : forall n e, size e <= n -> wf e -> forall y, ncolon y -> good2 (xt e ++ y).
Proof.
  induction n as [|n IH]; intros e Hn Hw y Hy; [pose proof (size_pos1 e); lia|].
  (* an operand followed by a token that is not a colon *)
  assert (Hwrap: forall b, size b <= n -> wf b -> forall y', ncolon y' -> good2 (wrap b (xt b) ++ y')).
  { intros b Hb Hwb y' Hy'. unfold wrap. destruct (simple b); [apply IH; assumption|apply good2_parkv]. }
  destruct e as [a|k v ty|o l r|o x|o x|o x|x|b i|b ty fld|b args|c t f|o l r|es|ty x|ty]; cbn [size] in Hn; cbn [wf] in Hw; cbn [RoundTripX.xt].
  - destruct Hy as [k2 [v2 [r2 [-> Hk2]]]]. exists K_ID, a, ((k2, v2) :: r2). split; [reflexivity|]. split; [reflexivity|].
    intros _. exists k2, v2, r2. split; [reflexivity|exact Hk2].
  - destruct (const_start k (const_ok_kind _ _ _ Hw)) as [H1 H2]. apply good2_kw; assumption.
  - destruct Hw as (Ho & Hl & Hr). destruct (opk_facts o Ho) as [Hprec _]. rewrite <- app_assoc. cbn [app].
    assert (Hy': ncolon ((opk o, o) :: (if keepRx rp o r then xt r else wrap r (xt r)) ++ y)) by (apply ncolon_cons; eapply prec_ncolon; exact Hprec).
    destruct (keepLx rp o l); [apply IH; [lia|exact Hl|exact Hy']|apply Hwrap; [lia|exact Hl|exact Hy']].
  - destruct Hw as (Ho & Hx). unfold unop_ok in Ho. unfold opk. destruct (punct_kind_l o) as [k|]; [|discriminate Ho].
    destruct (unop_start k Ho) as [H1 H2]. apply good2_kw; assumption.
  - destruct Hw as (Ho & Hx). unfold incdec_ok in Ho. unfold opk. destruct (punct_kind_l o) as [k|]; [|discriminate Ho].
    destruct (incdec_start k Ho) as (H1 & H2 & _). apply good2_kw; assumption.
  - destruct Hw as (Ho & Hx). rewrite <- app_assoc. cbn [app]. apply Hwrap; [lia|exact Hx|].
    unfold incdec_ok in Ho. unfold opk. destruct (punct_kind_l o) as [k|]; [|discriminate Ho]. apply ncolon_cons. exact (proj2 (proj2 (incdec_start k Ho))).
  - apply good2_kw; reflexivity.
  - destruct Hw as (Hb & Hi). rewrite <- app_assoc. cbn [app]. apply Hwrap; [lia|exact Hb|apply ncolon_cons; reflexivity].
  - destruct Hw as (Hm & Hb). rewrite <- app_assoc. cbn [app]. apply Hwrap; [lia|exact Hb|].
    unfold memop_ok in Hm. unfold opk. destruct (punct_kind_l ty) as [k|]; [|discriminate Hm]. apply ncolon_cons. exact (mem_ncolon k Hm).
  - destruct Hw as (Hb & Hargs). rewrite <- app_assoc. cbn [app]. apply Hwrap; [lia|exact Hb|apply ncolon_cons; reflexivity].
  - rewrite <- app_assoc. apply good2_parkv.
  - destruct Hw as (Ho & Hnl & Hncl & Hl & Hr). rewrite <- app_assoc. cbn [app]. apply IH; [lia|exact Hl|].
    unfold asgop_ok in Ho. unfold opk. destruct (punct_kind_l o) as [k|]; [|discriminate Ho]. apply ncolon_cons. exact (asg_ncolon k Ho).
  - destruct Hw as (Hlen & Hes). destruct es as [|e1 [|e2 rest]]; cbn [length] in Hlen; try lia.
    cbn [map]. rewrite commas_cons. rewrite <- app_assoc. cbn [map concat]. cbn [app]. rewrite <- app_assoc. cbn [app].
    destruct Hes as (Hw1 & _). unfold vx at 1. destruct (iscomma e1); [apply good2_parkv|].
    apply IH; [|exact Hw1|apply ncolon_cons; reflexivity].
    change (list_sum (map size (e1 :: e2 :: rest))) with (size e1 + list_sum (map size (e2 :: rest))) in Hn. lia.
  - apply good2_kw; reflexivity.
  - apply good2_kw; reflexivity.
Qed.

Lemma xt_sestart : forall e, wf e -> exists k v rest, xt e = (k, v) :: rest /\ sestart k = true.
Proof.
  intros e Hw. destruct (xt_head (size e) e (le_n _) Hw [kw K_SEMI ";"] (ncolon_cons K_SEMI (s2l ";") [] eq_refl)) as [k [v [rest [Ek [Hes _]]]]].
  unfold estart in Hes. apply andb_true_iff in Hes. destruct Hes as [Hes _]. apply andb_true_iff in Hes. destruct Hes as [_ Hse].
  destruct (xt e) as [|[k0 v0] r0] eqn:E; [cbn in Ek; injection Ek as <- _ _; discriminate Hse|]. cbn in Ek. injection Ek as <- <- _.
  exists k0, v0, r0. split; [reflexivity|exact Hse].
Qed.
End HEAD.

(* ---- all statements ---- *)
Lemma estart_sstart : forall k, estart k = true -> sstart k = true.
Proof. intros k H. destruct k; vm_compute in H; try discriminate H; reflexivity. Qed.

Section MainS.
Variable P : Type.
Variable rp : bool.
Variable pre : ParserBase.pstate P -> Prop.
Hypothesis pre_SC : forall s s', pre s -> SC P s s' -> pre s'.
Variable dok : bool.
Hypothesis pre_notd : dok = true -> forall s, pre s -> StreamLib.NoTD (scopes P s).
Notation swf := (swfd dok).

Lemma opt_ok : forall o, owf o -> OptOK P (oxt rp o) (oemb o).
Proof.
  intros [e|] Hw; [|left; split; reflexivity]. right. cbn [oxt oemb owf] in *. split; [apply embx_node|]. split.
  - exact (T_expr P rp e (T_all P rp (size e) e (le_n _) Hw)).
  - apply xt_sestart. exact Hw.
Qed.

Lemma stoks_head : forall x, swf x -> shead (stoks rp x).
Proof.
  intros x Hw. destruct x as [e| |o| | |l|c th el|c b|b c|i c nx b|items|lb b|ty dx di]; cbn [stoks];
    try (cbn [swfd] in Hw; contradiction);
    try (eexists; eexists; eexists; split; [reflexivity|reflexivity]).
  cbn [swfd] in Hw. destruct (xt_head rp (size e) e (le_n _) Hw [kw K_SEMI ";"] (ncolon_cons K_SEMI (s2l ";") [] eq_refl)) as [k [v [rest [Ek [Hes _]]]]].
  exists k, v, rest. split; [exact Ek|apply estart_sstart; exact Hes].
Qed.

(* ... and can follow a label *)
Lemma stoks_ss : forall x, swf x -> sshead (stoks rp x).
Proof.
  intros x Hw. destruct x as [e| |o| | |l|c th el|c b|b c|i c nx b|items|lb b|ty dx di]; cbn [stoks];
    try (cbn [swfd] in Hw; contradiction);
    try (eexists; eexists; eexists; split; [reflexivity|reflexivity]).
  cbn [swfd] in Hw. destruct (xt_sestart rp e Hw) as [k [v [rest [Ek Hse]]]].
  exists k, v, (rest ++ [kw K_SEMI ";"]). split; [rewrite Ek; reflexivity|]. unfold ssk. unfold sestart in Hse. rewrite Hse. apply orb_true_r.
Qed.

Lemma embs_node : forall x, exists c fs co, embs x = VNode c fs co.
Proof. intros x. destruct x; cbn [embs]; try (eexists; eexists; eexists; reflexivity). apply embx_node. Qed.

Lemma in_ssum : forall (l: list st) a, In a l -> ssize a <= list_sum (map ssize l).
Proof.
  induction l as [|x r IH]; intros a H; [destruct H|]. change (list_sum (map ssize (x :: r))) with (ssize x + list_sum (map ssize r)).
  destruct H as [E|H]; [subst a; lia|]. specialize (IH a H). lia.
Qed.

(* a declaration `T x;` / `T x = e;` as a block item *)
Lemma decl_item : forall ty x i, dwf dok ty x i ->
  dok = true /\ DeclS P (stoks rp (SDecl ty x i)) (embs (SDecl ty x i)) /\ dhead (stoks rp (SDecl ty x i)).
Proof.
  intros ty x i (Hd & Hne & HF & Hi & _). split; [exact Hd|]. split.
  - cbn [stoks embs]. intros s le stop l0 HS HU HN.
    apply (decl_run P ty x (match i with Some e => (K_EQUALS, s2l "=") :: argt rp e | None => [] end) (oemb i) Hne HF); try assumption.
    destruct i as [e|]; [|left; split; reflexivity]. right. cbn [owf] in Hi. pose proof (T_all P rp (size e) e (le_n _) Hi) as HT.
    exists (argt rp e). split; [reflexivity|]. split; [exact (T_asg_argt P rp e HT)|exact (T_first_argt P rp e HT)].
  - cbn [stoks]. unfold dtoks. destruct ty as [|[k v] ty']; [congruence|]. exists k, v, (ty' ++ (K_ID, x) :: (match i with Some e => (K_EQUALS, s2l "=") :: argt rp e | None => [] end) ++ [(K_SEMI, s2l ";")]).
    split; [reflexivity|]. pose proof (Forall_inv HF) as Hk. cbn [fst] in Hk. exact (proj2 (proj2 (proj2 (simple_kind_facts k Hk)))).
Qed.

Theorem S_all : forall n x, ssize x <= n -> swf x -> StmtS0 P pre (stoks rp x) (embs x) (sopen x).
Proof.
  induction n as [|n IH]; intros x Hn Hw; [destruct x; cbn in Hn; lia|].
  assert (HEx: forall e, wf e -> ExprS P (xt rp e) (embx e)) by (intros e He; exact (T_expr P rp e (T_all P rp (size e) e (le_n _) He))).
  assert (IHs: forall y, ssize y <= n -> swf y -> StmtS P pre (stoks rp y) (embs y) (sopen y)).
  { intros y Hy Hwy. apply (s0_to_s P pre pre_SC dok pre_notd); [apply (shead_nopragma P pre pre_SC dok pre_notd); apply stoks_head; exact Hwy|apply IH; assumption]. }
  destruct x as [e| |o| | |l|c th el|c b|b c|i c nx b|items|lb b|ty dx di]; cbn [ssize] in Hn; cbn [swfd] in Hw; cbn [stoks embs sopen].
  - destruct (embx_node e) as [cc [fs [co EX]]]. eapply (s_expr P pre pre_SC dok pre_notd); [exact EX|apply HEx; exact Hw|].
    apply (xt_head rp (size e) e (le_n _) Hw). apply ncolon_cons. reflexivity.
  - apply (s_empty P pre pre_SC dok pre_notd).
  - destruct o as [e|]; cbn [oxt oemb owf] in *; [|apply (s_return0 P pre pre_SC dok pre_notd)].
    apply (s_return1 P pre pre_SC dok pre_notd); [apply xt_sestart; exact Hw|apply HEx; exact Hw].
  - apply (s_break P pre pre_SC dok pre_notd).
  - apply (s_continue P pre pre_SC dok pre_notd).
  - apply (s_goto P pre pre_SC dok pre_notd).
  - destruct Hw as (Hc & Hth & Hel). destruct el as [el|].
    + destruct Hel as (Hcl & Hwel). pose proof (IHs th ltac:(lia) Hth) as HT. rewrite Hcl in HT.
      apply (s_ifelse P pre pre_SC dok pre_notd); [apply HEx; exact Hc|exact HT|apply IHs; [lia|exact Hwel]].
    + rewrite app_nil_r. eapply (s_if P pre pre_SC dok pre_notd); [apply HEx; exact Hc|apply IHs; [lia|exact Hth]].
  - destruct Hw as (Hc & Hb). apply (s_while P pre pre_SC dok pre_notd); [apply HEx; exact Hc|apply IHs; [lia|exact Hb]].
  - destruct Hw as (Hb & Hc). eapply (s_do P pre pre_SC dok pre_notd); [apply HEx; exact Hc|apply IHs; [lia|exact Hb]].
  - destruct Hw as (Hi & Hc & Hnx & Hb). apply (s_for P pre pre_SC dok pre_notd); [apply opt_ok; exact Hi|apply opt_ok; exact Hc|apply opt_ok; exact Hnx|apply IHs; [lia|exact Hb]].
  - (* block *)
    assert (HF: Forall (item_ok P pre dok) (map (fun y => (stoks rp y, embs y, sopen y)) items)).
    { apply Forall_forall. intros it Hin. apply in_map_iff in Hin. destruct Hin as [y [<- Hy]].
      assert (Hwy: bwfd dok y).
      { clear -Hw Hy. induction items as [|z r IHr]; [destruct Hy|]. destruct Hw as [Hz Hr]. destruct Hy as [->|Hy]; [exact Hz|apply IHr; assumption]. }
      unfold item_ok. destruct y as [e| |o| | |l|c th el|c b|b c|i c nx b|items2|lb b|ty dx di];
        try (left; cbn [bwfd] in Hwy; split; [apply IH; [pose proof (in_ssum items _ Hy); lia|exact Hwy]|]; split; [apply stoks_head; exact Hwy|apply embs_node]).
      right. cbn [bwfd] in Hwy. cbn [sopen]. exact (decl_item ty dx di Hwy). }
    pose proof (s_block P pre pre_SC dok pre_notd _ HF) as HB. rewrite !map_map in HB. cbn [fst snd] in HB.
    destruct items as [|y r]; exact HB.
  - (* label *)
    apply (s_label P pre pre_SC dok pre_notd); [apply IHs; [lia|exact Hw]|apply stoks_ss; exact Hw].
  - contradiction.
Qed.

(* the items of a block, each parsed back as a block item *)
Lemma block_items_ok : forall items, swfl dok items ->
  Forall (item_ok P pre dok) (map (fun y => (stoks rp y, embs y, sopen y)) items).
Proof.
  intros items Hw. apply Forall_forall. intros it Hin. apply in_map_iff in Hin. destruct Hin as [y [<- Hy]].
  assert (Hwy: bwfd dok y).
  { clear -Hw Hy. induction items as [|z r IHr]; [destruct Hy|]. destruct Hw as [Hz Hr]. destruct Hy as [->|Hy]; [exact Hz|apply IHr; assumption]. }
  unfold item_ok. destruct y as [e| |o| | |l|c th el|c b|b c|i c nx b|items2|lb b|ty dx di].
  13: { right. cbn [bwfd] in Hwy. cbn [sopen]. exact (decl_item ty dx di Hwy). }
  all: left; cbn [bwfd] in Hwy; (split; [exact (S_all _ _ (le_n _) Hwy)|]); split; [apply stoks_head; exact Hwy|apply embs_node].
Qed.
End MainS.

(* ---- the theorems ---- *)
Section Thms.
Variable P : Type.
Variable rp : bool.

Lemma pre_true_SC : forall s s' : ParserBase.pstate P, True -> SC P s s' -> True.
Proof. intros; exact I. Qed.
Lemma pre_true_notd : false = true -> forall s : ParserBase.pstate P, True -> StreamLib.NoTD (scopes P s).
Proof. intros H; discriminate H. Qed.
Lemma pre_notd_SC : forall s s' : ParserBase.pstate P, StreamLib.NoTD (scopes P s) -> SC P s s' -> StreamLib.NoTD (scopes P s').
Proof. intros s s' H Hsc. exact (proj1 Hsc H). Qed.
Lemma pre_notd_notd : true = true -> forall s : ParserBase.pstate P, StreamLib.NoTD (scopes P s) -> StreamLib.NoTD (scopes P s).
Proof. intros _ s H. exact H. Qed.

(* parse . generate = id, token level: every statement, as a block item and in a sub-statement position - with the
   cost of the parse: exactly the generated tokens are consumed, next() is called at most three times per token *)
Theorem parse_of_generated_statement_cost : forall x, swf x ->
  forall (s: ParserBase.pstate P) le stop l0, RoundTrip.Spell P le (stoks rp x) -> StreamLib.Up P s (le ++ stop :: l0) ->
  (sopen x = true -> kind_eqb (tk stop) K_ELSE = false) ->
  exists f0 N s', (forall f, f0 <= f -> p_pragmacomp_or_statement P f s = Ok (N, s')) /\ StreamLib.Up P s' (stop :: l0) /\ strip N = embs x /\
    StreamLib.Ran P s s' (length le).
Proof.
  intros x Hw s le stop l0 HS HU Hop.
  refine (s0_to_s P (fun _ => True) pre_true_SC false pre_true_notd _ _ _ _ (S_all P rp (fun _ => True) pre_true_SC false pre_true_notd (ssize x) x (le_n _) Hw) s le stop l0 HS HU Hop I).
  apply (shead_nopragma P (fun _ => True) pre_true_SC false pre_true_notd). apply (stoks_head rp false). exact Hw.
Qed.

Theorem parse_of_generated_block_item_cost : forall x, swf x ->
  forall (s: ParserBase.pstate P) le stop l0, RoundTrip.Spell P le (stoks rp x) -> StreamLib.Up P s (le ++ stop :: l0) ->
  (sopen x = true -> kind_eqb (tk stop) K_ELSE = false) ->
  exists f0 N s', (forall f, f0 <= f -> p_statement P f s = Ok (N, s')) /\ StreamLib.Up P s' (stop :: l0) /\ strip N = embs x /\
    StreamLib.Ran P s s' (length le).
Proof. intros x Hw s le stop l0 HS HU Hop. exact (S_all P rp (fun _ => True) pre_true_SC false pre_true_notd (ssize x) x (le_n _) Hw s le stop l0 HS HU Hop I). Qed.

Theorem parse_of_generated_statement : forall x, swf x ->
  forall (s: ParserBase.pstate P) le stop l0, RoundTrip.Spell P le (stoks rp x) -> StreamLib.Up P s (le ++ stop :: l0) ->
  (sopen x = true -> kind_eqb (tk stop) K_ELSE = false) ->
  exists f0 N s', (forall f, f0 <= f -> p_pragmacomp_or_statement P f s = Ok (N, s')) /\ StreamLib.Up P s' (stop :: l0) /\ strip N = embs x.
Proof.
  intros x Hw s le stop l0 HS HU Hop. destruct (parse_of_generated_statement_cost x Hw s le stop l0 HS HU Hop) as [f0 [N [s' [H [HU' [HN _]]]]]].
  exists f0, N, s'. split; [exact H|split; [exact HU'|exact HN]].
Qed.

Theorem parse_of_generated_block_item : forall x, swf x ->
  forall (s: ParserBase.pstate P) le stop l0, RoundTrip.Spell P le (stoks rp x) -> StreamLib.Up P s (le ++ stop :: l0) ->
  (sopen x = true -> kind_eqb (tk stop) K_ELSE = false) ->
  exists f0 N s', (forall f, f0 <= f -> p_statement P f s = Ok (N, s')) /\ StreamLib.Up P s' (stop :: l0) /\ strip N = embs x.
Proof.
  intros x Hw s le stop l0 HS HU Hop. destruct (parse_of_generated_block_item_cost x Hw s le stop l0 HS HU Hop) as [f0 [N [s' [H [HU' [HN _]]]]]].
  exists f0, N, s'. split; [exact H|split; [exact HU'|exact HN]].
Qed.

(* ... and the same for statements whose blocks declare objects (`T x;`, `T x = e;` as block items, at any depth), from
   every parser state whose scope stack holds no typedef name: the declared names enter the innermost scope as ordinary
   identifiers, the tree has one Decl per declaration in source order, and the cost bound is the same *)
Theorem parse_of_generated_statement_with_decls_cost : forall x, swfD x ->
  forall (s: ParserBase.pstate P) le stop l0, RoundTrip.Spell P le (stoks rp x) -> StreamLib.Up P s (le ++ stop :: l0) ->
  (sopen x = true -> kind_eqb (tk stop) K_ELSE = false) -> StreamLib.NoTD (scopes P s) ->
  exists f0 N s', (forall f, f0 <= f -> p_statement P f s = Ok (N, s')) /\ StreamLib.Up P s' (stop :: l0) /\ strip N = embs x /\
    StreamLib.Ran P s s' (length le).
Proof.
  intros x Hw s le stop l0 HS HU Hop HN.
  exact (S_all P rp (fun s => StreamLib.NoTD (scopes P s)) pre_notd_SC true pre_notd_notd (ssize x) x (le_n _) Hw s le stop l0 HS HU Hop HN).
Qed.
Theorem parse_of_generated_statement_with_decls : forall x, swfD x ->
  forall (s: ParserBase.pstate P) le stop l0, RoundTrip.Spell P le (stoks rp x) -> StreamLib.Up P s (le ++ stop :: l0) ->
  (sopen x = true -> kind_eqb (tk stop) K_ELSE = false) -> StreamLib.NoTD (scopes P s) ->
  exists f0 N s', (forall f, f0 <= f -> p_statement P f s = Ok (N, s')) /\ StreamLib.Up P s' (stop :: l0) /\ strip N = embs x /\
    StreamLib.NoTD (scopes P s').
Proof.
  intros x Hw s le stop l0 HS HU Hop HN. destruct (parse_of_generated_statement_with_decls_cost x Hw s le stop l0 HS HU Hop HN) as [f0 [N [s' [H [HU' [HN' [_ [_ Hsc]]]]]]]].
  exists f0, N, s'. split; [exact H|split; [exact HU'|split; [exact HN'|exact (proj1 Hsc HN)]]].
Qed.

Theorem statements_with_decls_linear : forall x, swfD x ->
  forall (s: ParserBase.pstate P) le stop l0, RoundTrip.Spell P le (stoks rp x) -> StreamLib.Up P s (le ++ stop :: l0) ->
  (sopen x = true -> kind_eqb (tk stop) K_ELSE = false) -> StreamLib.NoTD (scopes P s) ->
  exists f0 N s', (forall f, f0 <= f -> p_statement P f s = Ok (N, s')) /\ StreamLib.Up P s' (stop :: l0) /\
    idx P s' = idx P s + length le /\ N.to_nat (ticks P s') <= N.to_nat (ticks P s) + 3 * length le.
Proof.
  intros x Hw s le stop l0 HS HU Hop HN. destruct (parse_of_generated_statement_with_decls_cost x Hw s le stop l0 HS HU Hop HN) as [f0 [N [s' [H [HU' [_ [Hi [Ht _]]]]]]]].
  exists f0, N, s'. split; [exact H|split; [exact HU'|split; [exact Hi|exact Ht]]].
Qed.

Theorem statements_with_decls_accepted : forall x, swfD x ->
  forall (s: ParserBase.pstate P) le stop l0, RoundTrip.Spell P le (stoks rp x) -> StreamLib.Up P s (le ++ stop :: l0) ->
  (sopen x = true -> kind_eqb (tk stop) K_ELSE = false) -> StreamLib.NoTD (scopes P s) ->
  exists f0 N s', forall f, f0 <= f -> p_statement P f s = Ok (N, s').
Proof.
  intros x Hw s le stop l0 HS HU Hop HN. destruct (parse_of_generated_statement_with_decls_cost x Hw s le stop l0 HS HU Hop HN) as [f0 [N [s' [H _]]]].
  exists f0, N, s'. exact H.
Qed.
End Thms.
