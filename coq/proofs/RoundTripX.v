(* C07, token level, a larger expression language: identifiers, constants, binary operators, the prefix
   operators - + ! ~ * &, subscripts, member accesses (. and ->), function calls, the conditional
   operator, (compound) assignments and comma expressions, nested in any way.  [xt rp e] is the token
   sequence of the text CGenerator prints for e (operands parenthesised exactly as visit_UnaryOp /
   visit_ArrayRef / visit_StructRef / visit_FuncCall / visit_TernaryOp / visit_Assignment /
   visit_BinaryOp / visit_ExprList / _visit_expr do); whenever the whole-parser model finds these
   tokens followed by a token that cannot continue an expression, p_expression returns exactly e. *)
From Coq Require Import String.
From Coq Require Import List NArith Bool Arith Lia.
Import ListNotations.
From PV Require Import Regex Base AstDefs AstSpec AstImpl GenTables NodeModel Generator ClimbProofs ClimbComplete GenParen GenBinop.
From PV Require Import LexTables ParserTables PyRepr ParserBase ParserDecl ParserMain LexerProofs TableProofs.
From PV Require Import BinaryRefine ExprShape UnaryShape CoordProofs StreamLib RoundTrip RoundTripGen TypeName.
Open Scope nat_scope.

Inductive ex :=
| XId (a: str)
| XConst (k: kind) (v: str) (ty: str)
| XBin (o: str) (l r: ex)
| XUn (o: str) (e: ex)
| XPre (o: str) (e: ex)          (* ++e, --e *)
| XPost (o: str) (e: ex)         (* e++, e-- : the AST op is "p" ++ o *)
| XSizeof (e: ex)                (* sizeof(e), e an expression *)
| XIdx (b i: ex)
| XMem (b: ex) (ty: str) (f: str)
| XCall (b: ex) (args: list ex)
| XCond (c t f: ex)
| XAsg (o: str) (l r: ex)
| XComma (es: list ex)
| XCast (ty: list (kind * str)) (e: ex)      (* (type-name) e, the type name a run of simple type specifiers *)
| XSizeofT (ty: list (kind * str)).         (* sizeof(type-name) *)

Definition simple (e: ex) : bool := match e with XId _ | XConst _ _ _ | XIdx _ _ | XMem _ _ _ | XCall _ _ => true | _ => false end.
Definition isasg (e: ex) : bool := match e with XAsg _ _ _ => true | _ => false end.
Definition iscomma (e: ex) : bool := match e with XComma _ => true | _ => false end.

Fixpoint size (e: ex) : nat :=
  match e with
  | XId _ | XConst _ _ _ => 1
  | XSizeofT _ => 2
  | XBin _ l r => S (size l + size r)
  | XUn _ x | XPre _ x | XPost _ x | XSizeof x | XCast _ x => S (size x)
  | XIdx b i => S (size b + size i)
  | XMem b _ _ => S (size b)
  | XCall b args => S (size b + list_sum (map size args))
  | XCond c t f => S (size c + size t + size f)
  | XAsg _ l r => S (size l + size r)
  | XComma es => S (list_sum (map size es))
  end.

Fixpoint embx (e: ex) : value unit :=
  match e with
  | XId a => VNode C_ID [VStr a] None
  | XConst _ v ty => VNode C_Constant [VStr ty; VStr v] None
  | XBin o l r => VNode C_BinaryOp [VStr o; embx l; embx r] None
  | XUn o x | XPre o x => VNode C_UnaryOp [VStr o; embx x] None
  | XPost o x => VNode C_UnaryOp [VStr (112%N :: o); embx x] None
  | XSizeof x => VNode C_UnaryOp [VStr (s2l "sizeof"); embx x] None
  | XIdx b i => VNode C_ArrayRef [embx b; embx i] None
  | XMem b ty f => VNode C_StructRef [embx b; VStr ty; VNode C_ID [VStr f] None] None
  | XCall b args => VNode C_FuncCall [embx b; match args with [] => VNone | _ => VNode C_ExprList [VList (map embx args)] None end] None
  | XCond c t f => VNode C_TernaryOp [embx c; embx t; embx f] None
  | XAsg o l r => VNode C_Assignment [VStr o; embx l; embx r] None
  | XComma es => VNode C_ExprList [VList (map embx es)] None
  | XCast ty x => VNode C_Cast [tn_emb (map snd ty); embx x] None
  | XSizeofT ty => VNode C_UnaryOp [VStr (s2l "sizeof"); tn_emb (map snd ty)] None
  end.

Lemma embx_node : forall e, exists c fs co, embx e = VNode c fs co.
Proof. intros e; destruct e; cbn; eexists; eexists; eexists; reflexivity. Qed.

Definition unop_ok (o: str) : bool :=
  match punct_kind_l o with Some k => kind_in k [K_AND; K_TIMES; K_PLUS; K_MINUS; K_NOT; K_LNOT] | None => false end.
Definition incdec_ok (o: str) : bool :=
  match punct_kind_l o with Some k => kind_eqb k K_PLUSPLUS || kind_eqb k K_MINUSMINUS | None => false end.
Definition asgop_ok (o: str) : bool :=
  match punct_kind_l o with Some k => kind_in k tbl_ASSIGNMENT_OPS | None => false end.
Definition memop_ok (o: str) : bool :=
  match punct_kind_l o with Some k => kind_eqb k K_PERIOD || kind_eqb k K_ARROW | None => false end.
(* the token kind of a constant and the type the parser derives from its spelling *)
Definition const_ok (k: kind) (v ty: str) : bool :=
  if kind_in k tbl_INT_CONST then match int_const_type (kind_eqb k K_INT_CONST_CHAR) v with Some t => str_eqb t ty | None => false end
  else if kind_in k tbl_FLOAT_CONST then match float_const_type v with Some t => str_eqb t ty | None => false end
  else kind_in k tbl_CHAR_CONST && str_eqb ty (s2l "char").

(* a type name of the language: a non-empty run of simple type-specifier keywords, or one typedef name *)
Definition tyok (ty: list (kind * str)) : Prop :=
  (ty <> [] /\ Forall (fun kv => kind_in (fst kv) tbl_TYPE_SPEC_SIMPLE = true) ty) \/ (exists v, ty = [(K_TYPEID, v)]).

Fixpoint wf (e: ex) : Prop :=
  match e with
  | XId _ => True
  | XConst k v ty => const_ok k v ty = true
  | XBin o l r => prec_lookup_s o <> None /\ wf l /\ wf r
  | XUn o x => unop_ok o = true /\ wf x
  | XPre o x | XPost o x => incdec_ok o = true /\ wf x
  | XSizeof x => wf x
  | XIdx b i => wf b /\ wf i
  | XMem b ty _ => memop_ok ty = true /\ wf b
  | XCall b args => wf b /\ (fix wl (l: list ex) : Prop := match l with [] => True | x :: r => wf x /\ wl r end) args
  | XCond c t f => wf c /\ wf t /\ wf f
  | XAsg o l r => asgop_ok o = true /\ isasg l = false /\ iscomma l = false /\ wf l /\ wf r
  | XComma es => 2 <= length es /\ (fix wl (l: list ex) : Prop := match l with [] => True | x :: r => wf x /\ wl r end) es
  | XCast ty x => tyok ty /\ wf x
  | XSizeofT ty => tyok ty
  end.
Definition wfl (l: list ex) : Prop := (fix wl (l: list ex) : Prop := match l with [] => True | x :: r => wf x /\ wl r end) l.
Lemma wfl_Forall : forall l, wfl l -> Forall wf l.
Proof. induction l as [|x r IH]; intros H; [constructor|]. destruct H as [H1 H2]. constructor; [exact H1|apply IH; exact H2]. Qed.

Section Toks.
Variable rp : bool.
Definition keepLx (o: str) (l: ex) : bool := match l with XBin ol _ _ => rp && (gprec o <=? gprec ol) | _ => false end.
Definition keepRx (o: str) (r: ex) : bool := match r with XBin orr _ _ => rp && (gprec o <? gprec orr) | _ => false end.
Definition vx (e: ex) (te: list (kind * str)) : list (kind * str) := if iscomma e then parkv te else te.     (* _visit_expr *)
Definition wrap (e: ex) (te: list (kind * str)) : list (kind * str) := if simple e then te else parkv (vx e te).
Fixpoint commas (l: list (list (kind * str))) : list (kind * str) :=
  match l with [] => [] | [x] => x | x :: r => x ++ (K_COMMA, s2l ",") :: commas r end.

Fixpoint xt (e: ex) : list (kind * str) :=
  match e with
  | XId a => [(K_ID, a)]
  | XConst k v _ => [(k, v)]
  | XBin o l r => (if keepLx o l then xt l else wrap l (xt l)) ++ (opk o, o) :: (if keepRx o r then xt r else wrap r (xt r))
  | XUn o x | XPre o x => (opk o, o) :: wrap x (xt x)
  | XPost o x => wrap x (xt x) ++ [(opk o, o)]
  | XSizeof x => (K_SIZEOF, s2l "sizeof") :: parkv (xt x)
  | XIdx b i => wrap b (xt b) ++ (K_LBRACKET, s2l "[") :: xt i ++ [(K_RBRACKET, s2l "]")]
  | XMem b ty f => wrap b (xt b) ++ [(opk ty, ty); (K_ID, f)]
  | XCall b args => wrap b (xt b) ++ (K_LPAREN, s2l "(") :: commas (map (fun a => vx a (xt a)) args) ++ [(K_RPAREN, s2l ")")]
  | XCond c t f => parkv (vx c (xt c)) ++ (K_CONDOP, s2l "?") :: parkv (vx t (xt t)) ++ (K_COLON, s2l ":") :: parkv (vx f (xt f))
  | XAsg o l r => xt l ++ (opk o, o) :: (if isasg r then parkv (xt r) else vx r (xt r))
  | XComma es => commas (map (fun a => vx a (xt a)) es)
  | XCast ty x => (K_LPAREN, s2l "(") :: ty ++ (K_RPAREN, s2l ")") :: wrap x (xt x)
  | XSizeofT ty => (K_SIZEOF, s2l "sizeof") :: (K_LPAREN, s2l "(") :: ty ++ [(K_RPAREN, s2l ")")]
  end.
Definition opnd (e: ex) : list (kind * str) := wrap e (xt e).
Definition argt (e: ex) : list (kind * str) := vx e (xt e).

(* the maximal tree of binary operators at the top of e; its leaves are the operands *)
Fixpoint to_gt (e: ex) : GenParen.gt ex str :=
  match e with XBin o l r => GBin ex str o (to_gt l) (to_gt r) | _ => GLeaf ex str e end.

Lemma xt_bin : forall e, xt e = match e with XBin _ _ _ => kvg rp ex opnd (to_gt e) | _ => xt e end.
Proof.
  induction e as [a|k v ty|o l IHl r IHr|o x IHx|o x IHx|o x IHx|x IHx|b IHb i IHi|b IHb ty f|b IHb args|c IHc t IHt f IHf|o l IHl r IHr|es|ty x IHx|ty]; try reflexivity.
  cbn [xt to_gt kvg].
  assert (HL: (if keepLx o l then xt l else wrap l (xt l)) =
              (if GenParen.keepL ex str gprec rp o (to_gt l) then kvg rp ex opnd (to_gt l)
               else match to_gt l with GLeaf _ _ b => opnd b | GBin _ _ _ _ _ => parkv (kvg rp ex opnd (to_gt l)) end)).
  { destruct l; try reflexivity. cbn [keepLx to_gt GenParen.keepL]. rewrite IHl. cbn [to_gt]. destruct (rp && (gprec o <=? gprec o0)); reflexivity. }
  assert (HRr: (if keepRx o r then xt r else wrap r (xt r)) =
              (if GenParen.keepR ex str gprec rp o (to_gt r) then kvg rp ex opnd (to_gt r)
               else match to_gt r with GLeaf _ _ b => opnd b | GBin _ _ _ _ _ => parkv (kvg rp ex opnd (to_gt r)) end)).
  { destruct r; try reflexivity. cbn [keepRx to_gt GenParen.keepR]. rewrite IHr. cbn [to_gt]. destruct (rp && (gprec o <? gprec o0)); reflexivity. }
  rewrite HL, HRr. reflexivity.
Qed.

Lemma embx_gt : forall e, embx e = embg ex embx (to_gt e).
Proof. induction e; try reflexivity. cbn [embx to_gt embg]. rewrite <- IHe1, <- IHe2. reflexivity. Qed.
End Toks.

(* ---- kind facts ---- *)
Lemma unop_kind_facts : forall k, kind_in k [K_AND; K_TIMES; K_PLUS; K_MINUS; K_NOT; K_LNOT] = true ->
  kind_eqb k K_LPAREN = false /\ (okind_is (Some k) K_PLUSPLUS || okind_is (Some k) K_MINUSMINUS) = false /\
  okind_in (Some k) [K_AND; K_TIMES; K_PLUS; K_MINUS; K_NOT; K_LNOT] = true /\
  kind_in k tbl_DECL_START = false /\ kind_eqb k K_LBRACE = false.
Proof. intros k H. destruct k; vm_compute in H; try discriminate H; vm_compute; repeat split. Qed.

Lemma asg_kind_facts : forall k, kind_in k tbl_ASSIGNMENT_OPS = true -> cstop k = true.
Proof. intros k H. destruct k; vm_compute in H; try discriminate H; vm_compute; reflexivity. Qed.

Lemma mem_kind_facts : forall k, kind_eqb k K_PERIOD || kind_eqb k K_ARROW = true ->
  kind_eqb k K_LBRACKET = false /\ kind_eqb k K_LPAREN = false /\ (okind_is (Some k) K_PERIOD || okind_is (Some k) K_ARROW) = true.
Proof. intros k H. destruct k; vm_compute in H; try discriminate H; vm_compute; repeat split. Qed.

(* first token is an identifier or ( *)
Definition head_idlp (kvs: list (kind * str)) : Prop :=
  exists k v rest, kvs = (k, v) :: rest /\ unary_pass k = true /\
    (kind_eqb k K_LPAREN = true -> exists k2 v2 rest2, rest = (k2, v2) :: rest2 /\ kind_in k2 tbl_DECL_START = false).
Lemma head_idlp_app : forall x y, head_idlp x -> head_idlp (x ++ y).
Proof.
  intros x y [k [v [rest [-> [H H3]]]]]. exists k, v, (rest ++ y). split; [reflexivity|]. split; [exact H|].
  intros Hl. destruct (H3 Hl) as [k2 [v2 [rest2 [-> H4]]]]. exists k2, v2, (rest2 ++ y). split; [reflexivity|exact H4].
Qed.
Lemma head_idlp_parkv : forall x, first_ok x -> head_idlp (parkv x).
Proof.
  intros x [k [v [rest [-> [H1 _]]]]]. unfold parkv. eexists. eexists. eexists. split; [reflexivity|]. split; [reflexivity|]. intros _.
  exists k, v, (rest ++ [(K_RPAREN, s2l ")")]). split; [reflexivity|exact (proj1 (startk_facts _ H1))].
Qed.

Section PX.
Variable P : Type.
Variable rp : bool.
Notation pstate := (ParserBase.pstate P).
Notation tok := (ParserBase.tok P).
Notation Up := (StreamLib.Up P).
Notation Spell := (RoundTrip.Spell P).
Notation CastS := (CastS P).
Notation CondS := (CondS P).
Notation AsgS := (AsgS P).
Notation ExprS := (ExprS P).

Lemma strip_vnode : forall (N: ParserBase.node P) c fs co, strip N = VNode c fs co -> exists fs' co', N = VNode c fs' co'.
Proof. intros. eapply strip_node_inv; eauto. Qed.

Lemma tok_coord_eq : forall (t: tok) (s: pstate), tok_coord P t s = Ok (mkCoord P (curfile P s) (tp t), s).
Proof. reflexivity. Qed.

(* ---- prefix operator ---- *)
Lemma un_cast : forall o kvs X c fs co, unop_ok o = true -> X = VNode c fs co -> CastS kvs X ->
  CastS ((opk o, o) :: kvs) (VNode C_UnaryOp [VStr o; X] None).
Proof.
  intros o kvs X c fs co Ho EX HC s la n l HS HU Hq.
  destruct (RoundTrip.Spell_cons_inv P _ _ _ _ HS) as [t [la' [-> [Hk [Hv HS']]]]]. cbn [app] in HU.
  unfold unop_ok in Ho. unfold opk in Hk. destruct (punct_kind_l o) as [k|]; [|discriminate Ho].
  destruct (unop_kind_facts k Ho) as [HnoLP [Hpp [Hin _]]]. rewrite <- Hk in HnoLP, Hpp, Hin.
  destruct (tptn_no_paren_c P s t _ HU HnoLP) as [s1 [H1 [HU1 HC1]]].
  destruct (peek_kind_up P s1 t _ HU1) as [s2 [H2 [HU2 HC2]]].
  destruct (advance_up P s2 t _ HU2) as [s3 [H3 [HU3 HC3]]].
  destruct (HC s3 la' n l HS' HU3 Hq) as [f0 [N [s4 [H4 [HU4 [HN HL4]]]]]].
  rewrite EX in HN. destruct (strip_vnode _ _ _ _ HN) as [fs' [co' EN]].
  exists (S (S f0)), (mkN P C_UnaryOp [VStr (tv t); N] co'), s4. split; [|split; [exact HU4|split; [|cost_tac]]].
  - intros f Hf. destruct f as [|[|f]]; try lia. rewrite (cast_eq P). unfold bind at 1. rewrite H1.
    rewrite (unary_eq P). unfold bind at 1. rewrite H2. rewrite Hpp, Hin.
    unfold bind at 1. rewrite H3. unfold bind at 1. rewrite (H4 f) by lia. unfold bind at 1.
    unfold coordA, lift_opt. rewrite EN. cbn [get_coord]. reflexivity.
  - unfold mkN. cbn [strip map]. rewrite Hv, HN, EX. reflexivity.
Qed.

(* ---- conditional operator: ( c ) ? ( t ) : ( f ) ---- *)
Lemma cond_ternary : forall kc kt kf Xc Xt Xf c fs co, Xc = VNode c fs co ->
  CastS (parkv kc) Xc -> ExprS (parkv kt) Xt -> CondS (parkv kf) Xf ->
  CondS (parkv kc ++ (K_CONDOP, s2l "?") :: parkv kt ++ (K_COLON, s2l ":") :: parkv kf) (VNode C_TernaryOp [Xc; Xt; Xf] None).
Proof.
  intros kc kt kf Xc Xt Xf c fs co EX HCc HEt HCf s le stop l0 HS HU Hst.
  destruct (RoundTrip.Spell_app_inv P _ _ _ HS) as [lc [l2 [-> [HSc HS2]]]].
  destruct (RoundTrip.Spell_cons_inv P _ _ _ _ HS2) as [q [l3 [-> [Hqk [_ HS3]]]]].
  destruct (RoundTrip.Spell_app_inv P _ _ _ HS3) as [lt [l4 [-> [HSt HS4]]]].
  destruct (RoundTrip.Spell_cons_inv P _ _ _ _ HS4) as [cl [lf [-> [Hck [_ HSf]]]]].
  rewrite <- app_assoc in HU. cbn [app] in HU. rewrite <- app_assoc in HU. cbn [app] in HU.
  assert (Hqq: quiet (tk q) = true) by (rewrite Hqk; reflexivity).
  destruct (HCc s lc q _ HSc HU Hqq) as [f1 [Nc [s1 [H1 [HU1 [HNc HL1]]]]]].
  destruct (peek_up P s1 q _ HU1) as [s2 [Hp [HU2 HC2]]].
  assert (Hqc: kind_eqb (tk q) K_CONDOP = true) by (rewrite Hqk; reflexivity).
  destruct (accept_hit P s2 q _ K_CONDOP HU2 Hqc) as [s3 [Ha [HU3 HC3]]].
  assert (Hce: estop (tk cl) = true) by (rewrite Hck; reflexivity).
  destruct (HEt s3 lt cl _ HSt HU3 Hce) as [f2 [Nt [s4 [H4 [HU4 [HNt HL4]]]]]].
  assert (Hcc: kind_eqb (tk cl) K_COLON = true) by (rewrite Hck; reflexivity).
  destruct (expect_up P s4 cl _ K_COLON HU4 Hcc) as [s5 [H5 [HU5 HC5]]].
  destruct (HCf s5 lf stop l0 HSf HU5 Hst) as [f3 [Nf [s6 [H6 [HU6 [HNf HL6]]]]]].
  rewrite EX in HNc. destruct (strip_vnode _ _ _ _ HNc) as [fs' [co' ENc]].
  exists (S (S (Nat.max f1 (Nat.max f2 f3)))), (mkN P C_TernaryOp [Nc; Nt; Nf] co'), s6. split; [|split; [exact HU6|split; [|cost_tac]]].
  - intros f Hf. destruct f as [|[|f]]; try lia. rewrite (cond_eq P). unfold bind at 1. rewrite (H1 (S f)) by lia.
    unfold bind at 1. rewrite (climb_eq P). unfold bind at 1. rewrite Hp. rewrite Hqk.
    change (prec_of K_CONDOP) with (@None nat). unfold ret at 1.
    unfold bind at 1. unfold ret at 1. cbv beta iota. rewrite Ha. unfold bind at 1. rewrite (H4 (S f)) by lia. unfold bind at 1. rewrite H5.
    unfold bind at 1. rewrite (H6 (S f)) by lia. unfold bind at 1. unfold coordA, lift_opt. rewrite ENc. cbn [get_coord]. reflexivity.
  - unfold mkN. cbn [strip map]. rewrite HNc, HNt, HNf, EX. reflexivity.
Qed.

(* ---- assignment: l op r ---- *)
Lemma asg_assign : forall kl kr o Xl Xr c fs co, Xl = VNode c fs co -> asgop_ok o = true -> first_ok kl ->
  CondS kl Xl -> AsgS kr Xr -> AsgS (kl ++ (opk o, o) :: kr) (VNode C_Assignment [VStr o; Xl; Xr] None).
Proof.
  intros kl kr o Xl Xr c fs co EX Ho Hfo HCl HAr s le stop l0 HS HU Hst.
  destruct (RoundTrip.Spell_app_inv P _ _ _ HS) as [ll [l2 [-> [HSl HS2]]]].
  destruct (RoundTrip.Spell_cons_inv P _ _ _ _ HS2) as [opt [lr [-> [Hok [Hov HSr]]]]].
  unfold asgop_ok in Ho. unfold opk in Hok. destruct (punct_kind_l o) as [k|]; [|discriminate Ho]. rewrite <- Hok in Ho.
  rewrite <- app_assoc in HU. cbn [app] in HU.
  destruct (asg_pre P kl s ll (opt :: lr ++ stop :: l0) Hfo HSl HU) as [s1 [HU1 [Hpre HC1]]].
  destruct (HCl s1 ll opt _ HSl HU1 (asg_kind_facts _ Ho)) as [f1 [Nl [s2 [H2 [HU2 [HNl HL2]]]]]].
  destruct (peek_up P s2 opt _ HU2) as [s3 [Hp [HU3 HC3]]].
  destruct (advance_up P s3 opt _ HU3) as [s4 [Had [HU4 HC4]]].
  destruct (HAr s4 lr stop l0 HSr HU4 Hst) as [f2 [Nr [s5 [H5 [HU5 [HNr HL5]]]]]].
  rewrite EX in HNl. destruct (strip_vnode _ _ _ _ HNl) as [fs' [co' ENl]].
  exists (S (Nat.max f1 f2)), (mkN P C_Assignment [VStr (tv opt); Nl; Nr] co'), s5. split; [|split; [exact HU5|split; [|cost_tac]]].
  - intros f Hf. destruct f as [|f]; [lia|]. rewrite Hpre. unfold asg_body. unfold bind at 1. rewrite (H2 f) by lia.
    unfold bind at 1. rewrite Hp. rewrite Ho. unfold bind at 1. rewrite Had. unfold bind at 1. rewrite (H5 f) by lia.
    unfold bind at 1. unfold coordA, lift_opt. rewrite ENl. cbn [get_coord]. reflexivity.
  - unfold mkN. cbn [strip map]. rewrite Hov, HNl, HNr, EX. reflexivity.
Qed.

(* ---- postfix chains: the primary at the head, then the suffix loop with an accumulator ---- *)
Definition R (kvs: list (kind * str)) (X: value unit) : Prop :=
  forall (s: pstate) le rest, Spell le kvs -> Up s (le ++ rest) ->
  exists d N s', Up s' rest /\ strip N = X /\ RanR P s s' (length le) /\
    forall f, d <= f -> exists f1, f <= f1 + d /\
      bind P (p_primary_expression P f) (fun e0 => p_postfix_suffixes P f e0) s = p_postfix_suffixes P f1 N s'.

Lemma R_id : forall a, R [(K_ID, a)] (VNode C_ID [VStr a] None).
Proof.
  intros a s le rest HS HU. destruct (RoundTrip.Spell_cons_inv P _ _ _ _ HS) as [t [l2 [-> [Hk [Hv HS2]]]]].
  apply (RoundTrip.Spell_nil_inv P) in HS2. subst l2. cbn [app] in HU.
  destruct (peek_kind_up P s t _ HU) as [s1 [H1 [HU1 HC1]]].
  assert (HisID: kind_eqb (tk t) K_ID = true) by (rewrite Hk; reflexivity).
  destruct (expect_up P s1 t _ K_ID HU1 HisID) as [s2 [H2 [HU2 HC2]]].
  exists 1, (mkN P C_ID [VStr (tv t)] (Some (mkCoord P (curfile P s2) (tp t)))), s2. split; [exact HU2|]. split; [unfold mkN; cbn; rewrite Hv; reflexivity|].
  split; [cost_tac|]. intros f Hf. destruct f as [|f]; [lia|]. exists (S f). split; [lia|].
  unfold bind at 1. rewrite (primary_eq P). unfold bind at 1. rewrite H1. cbn [okind_is]. rewrite HisID.
  unfold p_identifier. unfold bind at 1. rewrite H2. unfold bind at 1. unfold tcoord, tok_coord, cur_file.
  unfold bind at 1. unfold bind at 1. unfold bind at 1. unfold get at 1. unfold ret at 1. unfold ret at 1. unfold ret at 1. unfold ret at 1. reflexivity.
Qed.

Lemma R_paren : forall kvs X, ExprS kvs X -> R (parkv kvs) X.
Proof.
  intros kvs X HE s le rest HS HU. unfold parkv in HS.
  destruct (RoundTrip.Spell_cons_inv P _ _ _ _ HS) as [lp [l2 [-> [Hlp [_ HS2]]]]].
  destruct (RoundTrip.Spell_app_inv P _ _ _ HS2) as [li [l3 [-> [HSi HS3]]]].
  destruct (RoundTrip.Spell_cons_inv P _ _ _ _ HS3) as [rpt [l4 [-> [Hrp [_ HS4]]]]]. apply (RoundTrip.Spell_nil_inv P) in HS4. subst l4.
  cbn [app] in HU. rewrite <- app_assoc in HU. cbn [app] in HU.
  destruct (peek_kind_up P s lp _ HU) as [s1 [H1 [HU1 HC1]]].
  destruct (advance_up P s1 lp _ HU1) as [s2 [H2 [HU2 HC2]]].
  assert (Hre: estop (tk rpt) = true) by (rewrite Hrp; reflexivity).
  destruct (HE s2 li rpt rest HSi HU2 Hre) as [f0 [N [s3 [H3 [HU3 [HN HL3]]]]]].
  assert (Hrk: kind_eqb (tk rpt) K_RPAREN = true) by (rewrite Hrp; reflexivity).
  destruct (expect_up P s3 rpt _ K_RPAREN HU3 Hrk) as [s4 [H4 [HU4 HC4]]].
  exists (S f0), N, s4. split; [exact HU4|]. split; [exact HN|].
  split; [cost_tac|]. intros f Hf. destruct f as [|f]; [lia|]. exists (S f). split; [lia|].
  unfold bind at 1. rewrite (primary_eq P). unfold bind at 1. rewrite H1. rewrite Hlp.
  assert (Hpp: primary_paren K_LPAREN = true) by reflexivity.
  unfold primary_paren in Hpp. do 4 (apply andb_true_iff in Hpp; destruct Hpp as [Hpp ?]).
  repeat match goal with X: negb _ = true |- _ => apply negb_true_iff in X; rewrite X end.
  match goal with X: okind_is _ K_LPAREN = true |- _ => rewrite X end.
  unfold bind at 1. rewrite H2. unfold bind at 1. rewrite (H3 f) by lia. unfold bind at 1. rewrite H4. unfold ret at 1. reflexivity.
Qed.

Lemma R_idx : forall kb ki Xb Xi c fs co, Xb = VNode c fs co -> R kb Xb -> ExprS ki Xi ->
  R (kb ++ (K_LBRACKET, s2l "[") :: ki ++ [(K_RBRACKET, s2l "]")]) (VNode C_ArrayRef [Xb; Xi] None).
Proof.
  intros kb ki Xb Xi c fs co EX HRb HEi s le rest HS HU.
  destruct (RoundTrip.Spell_app_inv P _ _ _ HS) as [lb [l2 [-> [HSb HS2]]]].
  destruct (RoundTrip.Spell_cons_inv P _ _ _ _ HS2) as [lbr [l3 [-> [Hlk [_ HS3]]]]].
  destruct (RoundTrip.Spell_app_inv P _ _ _ HS3) as [li [l4 [-> [HSi HS4]]]].
  destruct (RoundTrip.Spell_cons_inv P _ _ _ _ HS4) as [rbr [l5 [-> [Hrk [_ HS5]]]]]. apply (RoundTrip.Spell_nil_inv P) in HS5. subst l5.
  rewrite <- app_assoc in HU. cbn [app] in HU. rewrite <- app_assoc in HU. cbn [app] in HU.
  destruct (HRb s lb _ HSb HU) as [db [Nb [s1 [HU1 [HNb [HL1 Hred]]]]]].
  assert (Hlb: kind_eqb (tk lbr) K_LBRACKET = true) by (rewrite Hlk; reflexivity).
  destruct (accept_hit P s1 lbr _ K_LBRACKET HU1 Hlb) as [s2 [H2 [HU2 HC2]]].
  assert (Hre: estop (tk rbr) = true) by (rewrite Hrk; reflexivity).
  destruct (HEi s2 li rbr rest HSi HU2 Hre) as [fi [Ni [s3 [H3 [HU3 [HNi HL3]]]]]].
  assert (Hrb: kind_eqb (tk rbr) K_RBRACKET = true) by (rewrite Hrk; reflexivity).
  destruct (expect_up P s3 rbr _ K_RBRACKET HU3 Hrb) as [s4 [H4 [HU4 HC4]]].
  rewrite EX in HNb. destruct (strip_vnode _ _ _ _ HNb) as [fs' [co' ENb]].
  exists (db + fi + 1), (mkN P C_ArrayRef [Nb; Ni] co'), s4. split; [exact HU4|]. split; [unfold mkN; cbn [strip map]; rewrite HNb, HNi, EX; reflexivity|].
  split; [cost_tac|]. intros f Hf. destruct (Hred f) as [f1 [Hf1 E1]]; [lia|]. destruct f1 as [|g]; [lia|]. exists g. split; [lia|].
  rewrite E1. rewrite (UnaryShape.suffix_eq P). unfold bind at 1. rewrite H2. unfold bind at 1. rewrite (H3 g) by lia.
  unfold bind at 1. rewrite H4. unfold bind at 1. unfold coordA, lift_opt. rewrite ENb. cbn [get_coord]. reflexivity.
Qed.

Lemma R_mem : forall kb ty fld Xb c fs co, Xb = VNode c fs co -> memop_ok ty = true -> R kb Xb ->
  R (kb ++ [(opk ty, ty); (K_ID, fld)]) (VNode C_StructRef [Xb; VStr ty; VNode C_ID [VStr fld] None] None).
Proof.
  intros kb ty fld Xb c fs co EX Hm HRb s le rest HS HU.
  destruct (RoundTrip.Spell_app_inv P _ _ _ HS) as [lb [l2 [-> [HSb HS2]]]].
  destruct (RoundTrip.Spell_cons_inv P _ _ _ _ HS2) as [opt [l3 [-> [Hok [Hov HS3]]]]].
  destruct (RoundTrip.Spell_cons_inv P _ _ _ _ HS3) as [nt [l4 [-> [Hnk [Hnv HS4]]]]]. apply (RoundTrip.Spell_nil_inv P) in HS4. subst l4.
  rewrite <- app_assoc in HU. cbn [app] in HU.
  unfold memop_ok in Hm. unfold opk in Hok. destruct (punct_kind_l ty) as [k|]; [|discriminate Hm]. rewrite <- Hok in Hm.
  destruct (mem_kind_facts _ Hm) as [HnoLB [HnoLP Hpa]].
  destruct (HRb s lb _ HSb HU) as [db [Nb [s1 [HU1 [HNb [HL1 Hred]]]]]].
  destruct (accept_miss P s1 opt _ K_LBRACKET HU1 HnoLB) as [s2 [H2 [HU2 HC2]]].
  destruct (accept_miss P s2 opt _ K_LPAREN HU2 HnoLP) as [s3 [H3 [HU3 HC3]]].
  destruct (peek_kind_up P s3 opt _ HU3) as [s4 [H4 [HU4 HC4]]].
  destruct (advance_up P s4 opt _ HU4) as [s5 [H5 [HU5 HC5]]].
  destruct (advance_up P s5 nt _ HU5) as [s6 [H6 [HU6 HC6]]].
  rewrite EX in HNb. destruct (strip_vnode _ _ _ _ HNb) as [fs' [co' ENb]].
  exists (db + 1), (mkN P C_StructRef [Nb; VStr (tv opt); mkN P C_ID [VStr (tv nt)] (Some (mkCoord P (curfile P s6) (tp nt)))] co'), s6.
  split; [exact HU6|]. split; [unfold mkN; cbn [strip map]; rewrite HNb, Hov, Hnv, EX; reflexivity|].
  split; [cost_tac|]. intros f Hf. destruct (Hred f) as [f1 [Hf1 E1]]; [lia|]. destruct f1 as [|g]; [lia|]. exists g. split; [lia|].
  rewrite E1. rewrite (UnaryShape.suffix_eq P). unfold bind at 1. rewrite H2. unfold bind at 1. rewrite H3.
  unfold bind at 1. rewrite H4. rewrite Hpa. unfold bind at 1. rewrite H5. unfold bind at 1. rewrite H6.
  unfold bind at 1. rewrite tok_coord_eq.
  rewrite Hnk. change (negb (kind_eqb K_ID K_ID || kind_eqb K_ID K_TYPEID)) with false. cbv iota.
  unfold bind at 1. unfold coordA, lift_opt. rewrite ENb. cbn [get_coord]. reflexivity.
Qed.

(* a chain is a cast-expression once a quiet token follows *)
Lemma chain_cast : forall kvs X, first_ok kvs -> head_idlp kvs -> R kvs X -> CastS kvs X.
Proof.
  intros kvs X [k [v [rest0 [Ek [Hds _]]]]] [k' [v' [rest' [Ek' [Hhd Hlp]]]]] HR s la n l HS HU Hq.
  rewrite Ek in Ek'. injection Ek' as <- <- <-.
  pose proof HS as HS0. rewrite Ek in HS. destruct (RoundTrip.Spell_cons_inv P _ _ _ _ HS) as [x1 [tl [-> [Hk1 [_ HStl]]]]]. cbn [app] in HU.
  assert (Hpass: unary_pass (tk x1) = true) by (rewrite Hk1; exact Hhd).
  (* the two speculative "( type-name )" attempts give up *)
  assert (Htp: forall s0, Up s0 (x1 :: tl ++ n :: l) -> exists s1, (forall f, try_paren_type_name P (S f) s0 = Ok (None, s1)) /\ Up s1 (x1 :: tl ++ n :: l) /\ idx P s1 = idx P s0 /\ N.to_nat (ticks P s1) <= N.to_nat (ticks P s0) + 1 /\ SC P s0 s1).
  { intros s0 HU0. destruct (kind_eqb k K_LPAREN) eqn:El.
    2: { destruct (tptn_no_paren_c P s0 x1 _ HU0) as [sa [Ha [HUa HSa]]]; [rewrite Hk1; exact El|]. exists sa. split; [exact Ha|split; [exact HUa|cost_tac]]. }
    - destruct (Hlp eq_refl) as [k2 [v2 [rest2 [-> Hd2]]]].
      destruct (RoundTrip.Spell_cons_inv P _ _ _ _ HStl) as [x2 [tl2 [-> [Hk2 [_ _]]]]]. cbn [app] in HU0 |- *.
      destruct (tptn_not_type_c P s0 x1 x2 _ HU0) as [sa [Ha [HUa [Hia [Hta Hsca]]]]]; [rewrite Hk1; exact El|rewrite Hk2; exact Hd2|].
      exists sa. split; [exact Ha|split; [exact HUa|split; [exact Hia|split; [rewrite Hta; lia|exact Hsca]]]]. }
  destruct (Htp s HU) as [s1 [H1 [HU1 HC1]]].
  destruct (peek_kind_up P s1 x1 _ HU1) as [s2 [H2 [HU2 HC2]]].
  destruct (Htp s2 HU2) as [s3 [H3 [HU3 HC3]]].
  destruct (HR s3 (x1 :: tl) (n :: l) HS0 HU3) as [d [N [s4 [HU4 [HN [HL4 Hred]]]]]].
  destruct (suffixes_stop_c P s4 n l HU4 Hq) as [s5 [H5 [HU5 HC5]]].
  exists (d + 5), N, s5. split; [|split; [exact HU5|split; [exact HN|cost_tac]]].
  intros f Hf. destruct f as [|[|[|[|f]]]]; try lia.
  rewrite (cast_eq P). unfold bind at 1. rewrite H1. rewrite (unary_pass_eq P _ _ _ _ H2 Hpass).
  rewrite (postfix_eq P). unfold bind at 1. rewrite H3. unfold bind at 1. unfold complit_of at 1. unfold ret at 1.
  destruct (Hred (S f)) as [f1 [Hf1 E1]]; [lia|]. rewrite E1. destruct f1 as [|g]; [lia|]. apply H5.
Qed.
(* ---- constants ---- *)
Lemma const_kind_facts : forall k, kind_in k tbl_INT_CONST || kind_in k tbl_FLOAT_CONST || kind_in k tbl_CHAR_CONST = true ->
  okind_is (Some k) K_ID = false /\ startk k = true /\ kind_eqb k K_LBRACE = false /\ kind_eqb k K_LPAREN = false.
Proof. intros k H. destruct k; vm_compute in H; try discriminate H; vm_compute; repeat split. Qed.

Lemma const_ok_kind : forall k v ty, const_ok k v ty = true ->
  kind_in k tbl_INT_CONST || kind_in k tbl_FLOAT_CONST || kind_in k tbl_CHAR_CONST = true.
Proof.
  intros k v ty H. unfold const_ok in H. destruct (kind_in k tbl_INT_CONST); [reflexivity|].
  destruct (kind_in k tbl_FLOAT_CONST); [reflexivity|]. apply andb_true_iff in H. destruct H as [H _]. rewrite H. reflexivity.
Qed.

Lemma R_const : forall k v ty, const_ok k v ty = true -> R [(k, v)] (VNode C_Constant [VStr ty; VStr v] None).
Proof.
  intros k v ty Hc s le rest HS HU. destruct (RoundTrip.Spell_cons_inv P _ _ _ _ HS) as [t [l2 [-> [Hk [Hv HS2]]]]].
  apply (RoundTrip.Spell_nil_inv P) in HS2. subst l2. cbn [app] in HU.
  pose proof (const_ok_kind _ _ _ Hc) as Hkk. destruct (const_kind_facts _ Hkk) as (HnoID & _).
  destruct (peek_kind_up P s t _ HU) as [s1 [H1 [HU1 HC1]]].
  destruct (advance_up P s1 t _ HU1) as [s2 [H2 [HU2 HC2]]].
  exists 1, (mkConstant P ty (tv t) (Some (mkCoord P (curfile P s2) (tp t)))), s2. split; [exact HU2|].
  split; [unfold mkConstant, mkN; cbn [strip map]; rewrite Hv; reflexivity|].
  split; [cost_tac|]. intros f Hf. destruct f as [|f]; [lia|]. exists (S f). split; [lia|].
  unfold bind at 1. rewrite (primary_eq P). unfold bind at 1. rewrite H1. rewrite Hk, HnoID.
  change (okind_in (Some k) tbl_INT_CONST || okind_in (Some k) tbl_FLOAT_CONST || okind_in (Some k) tbl_CHAR_CONST)
    with (kind_in k tbl_INT_CONST || kind_in k tbl_FLOAT_CONST || kind_in k tbl_CHAR_CONST). rewrite Hkk.
  unfold p_constant. unfold bind at 1. rewrite H2. unfold bind at 1. rewrite tok_coord_eq. rewrite Hk, Hv.
  unfold const_ok in Hc. destruct (kind_in k tbl_INT_CONST).
  - destruct (int_const_type (kind_eqb k K_INT_CONST_CHAR) v) as [t0|]; [|discriminate Hc]. apply str_eqb_eq in Hc. subst t0. reflexivity.
  - destruct (kind_in k tbl_FLOAT_CONST).
    + destruct (float_const_type v) as [t0|]; [|discriminate Hc]. apply str_eqb_eq in Hc. subst t0. reflexivity.
    + apply andb_true_iff in Hc. destruct Hc as [Hc1 Hc2]. rewrite Hc1. apply str_eqb_eq in Hc2. subst ty. reflexivity.
Qed.

(* ---- lists of assignment-expressions separated by commas ---- *)
Definition ctoks (kl: list (list (kind * str) * value unit)) : list (kind * str) :=
  concat (map (fun kx => (K_COMMA, s2l ",") :: fst kx) kl).

Lemma comma_run : forall kl, Forall (fun kx => AsgS (fst kx) (snd kx)) kl ->
  forall (s: pstate) le (stop: tok) l0, Spell le (ctoks kl) -> Up s (le ++ stop :: l0) -> estop (tk stop) = true ->
  exists f0 Ns s', (forall f, f0 <= f -> p_comma_exprs P f s = Ok (Ns, s')) /\ Up s' (stop :: l0) /\ map strip Ns = map snd kl /\ Ran P s s' (length le).
Proof.
  induction kl as [|[k1 X1] kl IH]; intros HF s le stop l0 HS HU Hst.
  - apply (RoundTrip.Spell_nil_inv P) in HS. subst le. cbn [app] in HU.
    destruct (estop_facts _ Hst) as [_ [_ [_ Hcomma]]].
    destruct (accept_miss P s stop l0 K_COMMA HU Hcomma) as [s1 [H1 [HU1 HC1]]].
    exists 1, [], s1. split; [|split; [exact HU1|split; [reflexivity|cost_tac]]]. intros f Hf. destruct f as [|f]; [lia|].
    rewrite (comma_eq P). unfold bind at 1. rewrite H1. reflexivity.
  - inversion HF as [|x y HA HF']; subst x y. cbn [fst snd] in HA.
    unfold ctoks in HS. cbn [map concat fst] in HS. cbn [app] in HS.
    destruct (RoundTrip.Spell_cons_inv P _ _ _ _ HS) as [cm [l2 [-> [Hck [_ HS2]]]]].
    destruct (RoundTrip.Spell_app_inv P _ _ _ HS2) as [l1 [lr [-> [HS1 HSr]]]].
    cbn [app] in HU. rewrite <- app_assoc in HU.
    assert (Hcc: kind_eqb (tk cm) K_COMMA = true) by (rewrite Hck; reflexivity).
    destruct (accept_hit P s cm _ K_COMMA HU Hcc) as [s1 [H1 [HU1 HC1]]].
    (* the token after this element: the next comma, or the final stop *)
    assert (Hnext: exists n l', lr ++ stop :: l0 = n :: l' /\ astop (tk n) = true).
    { destruct kl as [|[k2 X2] kl'].
      - apply (RoundTrip.Spell_nil_inv P) in HSr. subst lr. exists stop, l0. split; [reflexivity|apply estop_astop; exact Hst].
      - unfold ctoks in HSr. cbn [map concat fst app] in HSr. destruct (RoundTrip.Spell_cons_inv P _ _ _ _ HSr) as [c2 [l3 [-> [Hc2 _]]]].
        exists c2, (l3 ++ stop :: l0). split; [reflexivity|rewrite Hc2; reflexivity]. }
    destruct Hnext as [n [l' [En Hn]]]. rewrite En in HU1.
    destruct (HA s1 l1 n l' HS1 HU1 Hn) as [f1 [N1 [s2 [H2 [HU2 [HN1 HL2]]]]]]. rewrite <- En in HU2.
    destruct (IH HF' s2 lr stop l0 HSr HU2 Hst) as [f2 [Ns [s3 [H3 [HU3 [HNs HL3]]]]]].
    exists (S (Nat.max f1 f2)), (N1 :: Ns), s3. split; [|split; [exact HU3|split; [cbn [map snd]; rewrite HN1, HNs; reflexivity|cost_tac]]].
    intros f Hf. destruct f as [|f]; [lia|]. rewrite (comma_eq P). unfold bind at 1. rewrite H1.
    unfold bind at 1. rewrite (H2 f) by lia. unfold bind at 1. rewrite (H3 f) by lia. reflexivity.
Qed.

Lemma commas_cons : forall (x: list (kind * str)) r, commas (x :: r) = x ++ concat (map (fun y => (K_COMMA, s2l ",") :: y) r).
Proof.
  intros x r. revert x. induction r as [|y r IH]; intros x; [cbn; rewrite app_nil_r; reflexivity|].
  change (commas (x :: y :: r)) with (x ++ (K_COMMA, s2l ",") :: commas (y :: r)). rewrite IH. cbn [map concat app]. reflexivity.
Qed.

(* a comma expression e1, e2, ... : ExprList *)
Lemma expr_comma : forall k1 X1 k2 X2 kl c fs co, X1 = VNode c fs co -> AsgS k1 X1 -> AsgS k2 X2 ->
  Forall (fun kx => AsgS (fst kx) (snd kx)) kl ->
  ExprS (commas (k1 :: k2 :: map fst kl)) (VNode C_ExprList [VList (X1 :: X2 :: map snd kl)] None).
Proof.
  intros k1 X1 k2 X2 kl c fs co EX HA1 HA2 HF s le stop l0 HS HU Hst.
  rewrite commas_cons in HS. cbn [map concat] in HS.
  destruct (RoundTrip.Spell_app_inv P _ _ _ HS) as [l1 [lr [-> [HS1 HSr]]]]. cbn [app] in HSr.
  destruct (RoundTrip.Spell_cons_inv P _ _ _ _ HSr) as [cm [l2 [-> [Hck [_ HS2]]]]].
  destruct (RoundTrip.Spell_app_inv P _ _ _ HS2) as [l2' [l3 [-> [HS2' HS3]]]].
  rewrite <- app_assoc in HU. cbn [app] in HU. rewrite <- app_assoc in HU.
  assert (Hca: astop (tk cm) = true) by (rewrite Hck; reflexivity).
  destruct (HA1 s l1 cm _ HS1 HU Hca) as [f1 [N1 [s1 [H1 [HU1 [HN1 HL1]]]]]].
  assert (Hcc: kind_eqb (tk cm) K_COMMA = true) by (rewrite Hck; reflexivity).
  destruct (accept_hit P s1 cm _ K_COMMA HU1 Hcc) as [s2 [H2 [HU2 HC2]]].
  assert (HS3': Spell l3 (ctoks kl)).
  { unfold ctoks. unfold RoundTrip.Spell in *. rewrite HS3. rewrite map_map. reflexivity. }
  assert (Hnext: exists n l', l3 ++ stop :: l0 = n :: l' /\ astop (tk n) = true).
  { destruct kl as [|[k3 X3] kl'].
    - apply (RoundTrip.Spell_nil_inv P) in HS3'. subst l3. exists stop, l0. split; [reflexivity|apply estop_astop; exact Hst].
    - unfold ctoks in HS3'. cbn [map concat fst app] in HS3'. destruct (RoundTrip.Spell_cons_inv P _ _ _ _ HS3') as [c2 [l4 [-> [Hc2 _]]]].
      exists c2, (l4 ++ stop :: l0). split; [reflexivity|rewrite Hc2; reflexivity]. }
  destruct Hnext as [n [l' [En Hn]]]. rewrite En in HU2.
  destruct (HA2 s2 l2' n l' HS2' HU2 Hn) as [f2 [N2 [s3 [H3 [HU3 [HN2 HL3]]]]]]. rewrite <- En in HU3.
  destruct (comma_run kl HF s3 l3 stop l0 HS3' HU3 Hst) as [f3 [Ns [s4 [H4 [HU4 [HNs HL4]]]]]].
  rewrite EX in HN1. destruct (strip_vnode _ _ _ _ HN1) as [fs' [co' EN1]].
  exists (S (Nat.max f1 (Nat.max f2 f3))), (mkN P C_ExprList [VList (N1 :: N2 :: Ns)] co'), s4. split; [|split; [exact HU4|split; [|cost_tac]]].
  - intros f Hf. destruct f as [|f]; [lia|]. rewrite (expr_eq P). unfold bind at 1. rewrite (H1 f) by lia.
    unfold bind at 1. rewrite H2. unfold bind at 1. rewrite (H3 f) by lia. unfold bind at 1. rewrite (H4 f) by lia.
    unfold bind at 1. unfold coordA, lift_opt. rewrite EN1. cbn [get_coord]. reflexivity.
  - unfold mkN. cbn [strip map]. rewrite HN1, HN2, HNs, EX. reflexivity.
Qed.

(* ---- function calls ---- *)
Lemma R_call0 : forall kb Xb c fs co, Xb = VNode c fs co -> R kb Xb ->
  R (kb ++ (K_LPAREN, s2l "(") :: [] ++ [(K_RPAREN, s2l ")")]) (VNode C_FuncCall [Xb; VNone] None).
Proof.
  intros kb Xb c fs co EX HRb s le rest HS HU.
  destruct (RoundTrip.Spell_app_inv P _ _ _ HS) as [lb [l2 [-> [HSb HS2]]]]. cbn [app] in HS2.
  destruct (RoundTrip.Spell_cons_inv P _ _ _ _ HS2) as [lp [l3 [-> [Hlk [_ HS3]]]]].
  destruct (RoundTrip.Spell_cons_inv P _ _ _ _ HS3) as [rpt [l4 [-> [Hrk [_ HS4]]]]]. apply (RoundTrip.Spell_nil_inv P) in HS4. subst l4.
  rewrite <- app_assoc in HU. cbn [app] in HU.
  destruct (HRb s lb _ HSb HU) as [db [Nb [s1 [HU1 [HNb [HL1 Hred]]]]]].
  assert (HnoLB: kind_eqb (tk lp) K_LBRACKET = false) by (rewrite Hlk; reflexivity).
  destruct (accept_miss P s1 lp _ K_LBRACKET HU1 HnoLB) as [s2 [H2 [HU2 HC2]]].
  assert (HLP: kind_eqb (tk lp) K_LPAREN = true) by (rewrite Hlk; reflexivity).
  destruct (accept_hit P s2 lp _ K_LPAREN HU2 HLP) as [s3 [H3 [HU3 HC3]]].
  destruct (peek_kind_up P s3 rpt _ HU3) as [s4 [H4 [HU4 HC4]]].
  destruct (advance_up P s4 rpt _ HU4) as [s5 [H5 [HU5 HC5]]].
  rewrite EX in HNb. destruct (strip_vnode _ _ _ _ HNb) as [fs' [co' ENb]].
  exists (db + 1), (mkN P C_FuncCall [Nb; VNone] co'), s5. split; [exact HU5|]. split; [unfold mkN; cbn [strip map]; rewrite HNb, EX; reflexivity|].
  split; [cost_tac|]. intros f Hf. destruct (Hred f) as [f1 [Hf1 E1]]; [lia|]. destruct f1 as [|g]; [lia|]. exists g. split; [lia|].
  rewrite E1. rewrite (UnaryShape.suffix_eq P). unfold bind at 1. rewrite H2. unfold bind at 1. rewrite H3.
  unfold bind at 1. rewrite H4. rewrite Hrk. cbn [okind_is]. change (kind_eqb K_RPAREN K_RPAREN) with true. cbv iota.
  unfold bind at 1. unfold bind at 1. rewrite H5. unfold ret at 1.
  unfold bind at 1. unfold coordA, lift_opt. rewrite ENb. cbn [get_coord]. reflexivity.
Qed.

Lemma R_call : forall kb Xb k1 X1 kl c fs co c1 fs1 co1, Xb = VNode c fs co -> X1 = VNode c1 fs1 co1 -> R kb Xb ->
  first_ok k1 -> AsgS k1 X1 -> Forall (fun kx => AsgS (fst kx) (snd kx)) kl ->
  R (kb ++ (K_LPAREN, s2l "(") :: commas (k1 :: map fst kl) ++ [(K_RPAREN, s2l ")")])
    (VNode C_FuncCall [Xb; VNode C_ExprList [VList (X1 :: map snd kl)] None] None).
Proof.
  intros kb Xb k1 X1 kl c fs co c1 fs1 co1 EX EX1 HRb Hfo HA1 HF s le rest HS HU.
  destruct (RoundTrip.Spell_app_inv P _ _ _ HS) as [lb [l2 [-> [HSb HS2]]]].
  destruct (RoundTrip.Spell_cons_inv P _ _ _ _ HS2) as [lp [l3 [-> [Hlk [_ HS3]]]]].
  destruct (RoundTrip.Spell_app_inv P _ _ _ HS3) as [la [l4 [-> [HSa HS4]]]].
  destruct (RoundTrip.Spell_cons_inv P _ _ _ _ HS4) as [rpt [l5 [-> [Hrk [_ HS5]]]]]. apply (RoundTrip.Spell_nil_inv P) in HS5. subst l5.
  rewrite commas_cons in HSa. destruct (RoundTrip.Spell_app_inv P _ _ _ HSa) as [l1 [lr [-> [HS1 HSr]]]].
  rewrite <- app_assoc in HU. cbn [app] in HU. rewrite <- app_assoc in HU. cbn [app] in HU. rewrite <- app_assoc in HU.
  destruct (HRb s lb _ HSb HU) as [db [Nb [s1 [HU1 [HNb [HL1 Hred]]]]]].
  assert (HnoLB: kind_eqb (tk lp) K_LBRACKET = false) by (rewrite Hlk; reflexivity).
  destruct (accept_miss P s1 lp _ K_LBRACKET HU1 HnoLB) as [s2 [H2 [HU2 HC2]]].
  assert (HLP: kind_eqb (tk lp) K_LPAREN = true) by (rewrite Hlk; reflexivity).
  destruct (accept_hit P s2 lp _ K_LPAREN HU2 HLP) as [s3 [H3 [HU3 HC3]]].
  (* first token of the first argument: not ')' *)
  destruct Hfo as [k [v [rest1 [Ek [Hsk _]]]]]. pose proof HS1 as HS1'. rewrite Ek in HS1'.
  destruct (RoundTrip.Spell_cons_inv P _ _ _ _ HS1') as [x1 [tl1 [El1 [Hkx [_ _]]]]]. subst l1. cbn [app] in HU3.
  destruct (peek_kind_up P s3 x1 _ HU3) as [s4 [H4 [HU4 HC4]]].
  assert (HnoRP: okind_is (Some (tk x1)) K_RPAREN = false) by (rewrite Hkx; exact (proj2 (startk_facts _ Hsk))).
  assert (HSr': Spell lr (ctoks kl)).
  { unfold ctoks. unfold RoundTrip.Spell in *. rewrite HSr. rewrite map_map. reflexivity. }
  assert (Hre: estop (tk rpt) = true) by (rewrite Hrk; reflexivity).
  assert (Hnext: exists n l', lr ++ rpt :: rest = n :: l' /\ astop (tk n) = true).
  { destruct kl as [|[k3 X3] kl'].
    - apply (RoundTrip.Spell_nil_inv P) in HSr'. subst lr. exists rpt, rest. split; [reflexivity|apply estop_astop; exact Hre].
    - unfold ctoks in HSr'. cbn [map concat fst app] in HSr'. destruct (RoundTrip.Spell_cons_inv P _ _ _ _ HSr') as [c2 [l6 [-> [Hc2 _]]]].
      exists c2, (l6 ++ rpt :: rest). split; [reflexivity|rewrite Hc2; reflexivity]. }
  destruct Hnext as [n [l' [En Hn]]].
  change (x1 :: tl1 ++ lr ++ rpt :: rest) with ((x1 :: tl1) ++ lr ++ rpt :: rest) in HU4. rewrite En in HU4.
  destruct (HA1 s4 (x1 :: tl1) n l' HS1 HU4 Hn) as [f1 [N1 [s5 [H5 [HU5 [HN1 HL5]]]]]]. rewrite <- En in HU5.
  destruct (comma_run kl HF s5 lr rpt rest HSr' HU5 Hre) as [f2 [Ns [s6 [H6 [HU6 [HNs HL6]]]]]].
  assert (HRP: kind_eqb (tk rpt) K_RPAREN = true) by (rewrite Hrk; reflexivity).
  destruct (expect_up P s6 rpt _ K_RPAREN HU6 HRP) as [s7 [H7 [HU7 HC7]]].
  rewrite EX in HNb. destruct (strip_vnode _ _ _ _ HNb) as [fs' [co' ENb]].
  rewrite EX1 in HN1. destruct (strip_vnode _ _ _ _ HN1) as [fs1' [co1' EN1]].
  exists (db + S (S (Nat.max f1 f2))), (mkN P C_FuncCall [Nb; mkN P C_ExprList [VList (N1 :: Ns)] co1'] co'), s7. split; [exact HU7|].
  split; [unfold mkN; cbn [strip map]; rewrite HNb, HN1, HNs, EX, EX1; reflexivity|].
  split; [cost_tac|]. intros f Hf. destruct (Hred f) as [f1' [Hf1 E1]]; [lia|]. destruct f1' as [|[|g]]; try lia. exists (S g). split; [lia|].
  rewrite E1. rewrite (UnaryShape.suffix_eq P). unfold bind at 1. rewrite H2. unfold bind at 1. rewrite H3.
  unfold bind at 1. rewrite H4. rewrite HnoRP.
  unfold bind at 1. unfold bind at 1. rewrite (args_eq P). unfold bind at 1. rewrite (H5 g) by lia.
  unfold bind at 1. rewrite (H6 g) by lia. unfold bind at 1. unfold coordA at 1, lift_opt. rewrite EN1. cbn [get_coord]. unfold ret at 1.
  unfold ret at 1. cbv beta iota. unfold bind at 1. rewrite H7. unfold ret at 1. cbv beta iota.
  unfold bind at 1. unfold coordA, lift_opt. rewrite ENb. cbn [get_coord]. reflexivity.
Qed.
(* ---- ++ / -- / sizeof ---- *)
Definition UnaryS := LevelS P (p_unary_expression P) quiet.

Lemma incdec_kind_facts : forall k, kind_eqb k K_PLUSPLUS || kind_eqb k K_MINUSMINUS = true ->
  kind_eqb k K_LPAREN = false /\ (okind_is (Some k) K_PLUSPLUS || okind_is (Some k) K_MINUSMINUS) = true /\
  kind_eqb k K_LBRACKET = false /\ (okind_is (Some k) K_PERIOD || okind_is (Some k) K_ARROW) = false /\
  startk k = true /\ kind_eqb k K_LBRACE = false.
Proof. intros k H. destruct k; vm_compute in H; try discriminate H; vm_compute; repeat split. Qed.

Lemma chain_unary : forall kvs X, first_ok kvs -> head_idlp kvs -> R kvs X -> UnaryS kvs X.
Proof.
  intros kvs X [k [v [rest0 [Ek [Hds _]]]]] [k' [v' [rest' [Ek' [Hhd Hlp]]]]] HR s la n l HS HU Hq.
  rewrite Ek in Ek'. injection Ek' as <- <- <-.
  pose proof HS as HS0. rewrite Ek in HS. destruct (RoundTrip.Spell_cons_inv P _ _ _ _ HS) as [x1 [tl [-> [Hk1 [_ HStl]]]]]. cbn [app] in HU.
  assert (Hpass: unary_pass (tk x1) = true) by (rewrite Hk1; exact Hhd).
  destruct (peek_kind_up P s x1 _ HU) as [s2 [H2 [HU2 HC2]]].
  assert (Htp: exists s3, (forall f, try_paren_type_name P (S f) s2 = Ok (None, s3)) /\ Up s3 (x1 :: tl ++ n :: l) /\ idx P s3 = idx P s2 /\ N.to_nat (ticks P s3) <= N.to_nat (ticks P s2) + 1 /\ SC P s2 s3).
  { destruct (kind_eqb k K_LPAREN) eqn:El.
    2: { destruct (tptn_no_paren_c P s2 x1 _ HU2) as [sa [Ha [HUa HSa]]]; [rewrite Hk1; exact El|]. exists sa. split; [exact Ha|split; [exact HUa|cost_tac]]. }
    destruct (Hlp eq_refl) as [k2 [v2 [rest2 [-> Hd2]]]].
    destruct (RoundTrip.Spell_cons_inv P _ _ _ _ HStl) as [x2 [tl2 [-> [Hk2 [_ _]]]]]. cbn [app] in HU2 |- *.
    destruct (tptn_not_type_c P s2 x1 x2 _ HU2) as [sa [Ha [HUa [Hia [Hta Hsca]]]]]; [rewrite Hk1; exact El|rewrite Hk2; exact Hd2|].
    exists sa. split; [exact Ha|split; [exact HUa|split; [exact Hia|split; [rewrite Hta; lia|exact Hsca]]]]. }
  destruct Htp as [s3 [H3 [HU3 HC3]]].
  destruct (HR s3 (x1 :: tl) (n :: l) HS0 HU3) as [d [N [s4 [HU4 [HN [HL4 Hred]]]]]].
  destruct (suffixes_stop_c P s4 n l HU4 Hq) as [s5 [H5 [HU5 HC5]]].
  exists (d + 4), N, s5. split; [|split; [exact HU5|split; [exact HN|cost_tac]]].
  intros f Hf. destruct f as [|[|[|f]]]; try lia.
  rewrite (unary_pass_eq P _ _ _ _ H2 Hpass).
  rewrite (postfix_eq P). unfold bind at 1. rewrite H3. unfold bind at 1. unfold complit_of at 1. unfold ret at 1.
  destruct (Hred (S f)) as [f1 [Hf1 E1]]; [lia|]. rewrite E1. destruct f1 as [|g]; [lia|]. apply H5.
Qed.

Lemma pre_cast : forall o kvs X c fs co, incdec_ok o = true -> X = VNode c fs co -> UnaryS kvs X ->
  CastS ((opk o, o) :: kvs) (VNode C_UnaryOp [VStr o; X] None).
Proof.
  intros o kvs X c fs co Ho EX HC s la n l HS HU Hq.
  destruct (RoundTrip.Spell_cons_inv P _ _ _ _ HS) as [t [la' [-> [Hk [Hv HS']]]]]. cbn [app] in HU.
  unfold incdec_ok in Ho. unfold opk in Hk. destruct (punct_kind_l o) as [k|]; [|discriminate Ho].
  destruct (incdec_kind_facts k Ho) as (HnoLP & Hpp & _). rewrite <- Hk in HnoLP, Hpp.
  destruct (tptn_no_paren_c P s t _ HU HnoLP) as [s1 [H1 [HU1 HC1]]].
  destruct (peek_kind_up P s1 t _ HU1) as [s2 [H2 [HU2 HC2]]].
  destruct (advance_up P s2 t _ HU2) as [s3 [H3 [HU3 HC3]]].
  destruct (HC s3 la' n l HS' HU3 Hq) as [f0 [N [s4 [H4 [HU4 [HN HL4]]]]]].
  rewrite EX in HN. destruct (strip_vnode _ _ _ _ HN) as [fs' [co' EN]].
  exists (S (S f0)), (mkN P C_UnaryOp [VStr (tv t); N] co'), s4. split; [|split; [exact HU4|split; [|cost_tac]]].
  - intros f Hf. destruct f as [|[|f]]; try lia. rewrite (cast_eq P). unfold bind at 1. rewrite H1.
    rewrite (unary_eq P). unfold bind at 1. rewrite H2. rewrite Hpp.
    unfold bind at 1. rewrite H3. unfold bind at 1. rewrite (H4 f) by lia. unfold bind at 1.
    unfold coordA, lift_opt. rewrite EN. cbn [get_coord]. reflexivity.
  - unfold mkN. cbn [strip map]. rewrite Hv, HN, EX. reflexivity.
Qed.

Lemma R_post : forall kb o Xb c fs co, Xb = VNode c fs co -> incdec_ok o = true -> R kb Xb ->
  R (kb ++ [(opk o, o)]) (VNode C_UnaryOp [VStr (112%N :: o); Xb] None).
Proof.
  intros kb o Xb c fs co EX Ho HRb s le rest HS HU.
  destruct (RoundTrip.Spell_app_inv P _ _ _ HS) as [lb [l2 [-> [HSb HS2]]]].
  destruct (RoundTrip.Spell_cons_inv P _ _ _ _ HS2) as [opt [l3 [-> [Hok [Hov HS3]]]]]. apply (RoundTrip.Spell_nil_inv P) in HS3. subst l3.
  rewrite <- app_assoc in HU. cbn [app] in HU.
  unfold incdec_ok in Ho. unfold opk in Hok. destruct (punct_kind_l o) as [k|]; [|discriminate Ho]. rewrite <- Hok in Ho.
  destruct (incdec_kind_facts _ Ho) as (HnoLP & Hpp & HnoLB & Hnopa & _).
  destruct (HRb s lb _ HSb HU) as [db [Nb [s1 [HU1 [HNb [HL1 Hred]]]]]].
  destruct (accept_miss P s1 opt _ K_LBRACKET HU1 HnoLB) as [s2 [H2 [HU2 HC2]]].
  destruct (accept_miss P s2 opt _ K_LPAREN HU2 HnoLP) as [s3 [H3 [HU3 HC3]]].
  destruct (peek_kind_up P s3 opt _ HU3) as [s4 [H4 [HU4 HC4]]].
  destruct (advance_up P s4 opt _ HU4) as [s5 [H5 [HU5 HC5]]].
  rewrite EX in HNb. destruct (strip_vnode _ _ _ _ HNb) as [fs' [co' ENb]].
  exists (db + 1), (mkN P C_UnaryOp [VStr (112%N :: tv opt); Nb] co'), s5. split; [exact HU5|].
  split; [unfold mkN; cbn [strip map]; rewrite HNb, Hov, EX; reflexivity|].
  split; [cost_tac|]. intros f Hf. destruct (Hred f) as [f1 [Hf1 E1]]; [lia|]. destruct f1 as [|g]; [lia|]. exists g. split; [lia|].
  rewrite E1. rewrite (UnaryShape.suffix_eq P). unfold bind at 1. rewrite H2. unfold bind at 1. rewrite H3.
  unfold bind at 1. rewrite H4. rewrite Hnopa, Hpp. unfold bind at 1. rewrite H5.
  unfold bind at 1. unfold coordA, lift_opt. rewrite ENb. cbn [get_coord]. reflexivity.
Qed.

Lemma sizeof_cast : forall kx X, first_ok kx -> ExprS kx X ->
  CastS ((K_SIZEOF, s2l "sizeof") :: parkv kx) (VNode C_UnaryOp [VStr (s2l "sizeof"); X] None).
Proof.
  intros kx X Hfo HE s la n l HS HU Hq.
  destruct (RoundTrip.Spell_cons_inv P _ _ _ _ HS) as [t [la' [-> [Hk [Hv HS']]]]]. cbn [app] in HU.
  assert (HnoLP: kind_eqb (tk t) K_LPAREN = false) by (rewrite Hk; reflexivity).
  destruct (tptn_no_paren_c P s t _ HU HnoLP) as [s1 [H1 [HU1 HC1]]].
  destruct (peek_kind_up P s1 t _ HU1) as [s2 [H2 [HU2 HC2]]].
  destruct (advance_up P s2 t _ HU2) as [s3 [H3 [HU3 HC3]]].
  (* ( x ... : not a type name *)
  pose proof HS' as HS0. unfold parkv in HS'. destruct (RoundTrip.Spell_cons_inv P _ _ _ _ HS') as [lp [l2 [-> [Hlp [_ HS2]]]]].
  pose proof Hfo as Hfo0. destruct Hfo as [k [v [rest [Ek [Hsk Hrest]]]]]. pose proof HS2 as HS2'. rewrite Ek in HS2'. cbn [app] in HS2'.
  destruct (RoundTrip.Spell_cons_inv P _ _ _ _ HS2') as [x [l3 [-> [Hx [_ _]]]]]. cbn [app] in HU3.
  assert (Hlpk: kind_eqb (tk lp) K_LPAREN = true) by (rewrite Hlp; reflexivity).
  assert (Hxd: kind_in (tk x) tbl_DECL_START = false) by (rewrite Hx; exact (proj1 (startk_facts _ Hsk))).
  destruct (tptn_not_type_c P s3 lp x _ HU3 Hlpk Hxd) as [s4 [H4 [HU4 HC4]]].
  assert (HfoP: first_ok (parkv kx)) by (apply first_ok_parkv; exists k, v, rest; split; [exact Ek|split; [exact Hsk|exact Hrest]]).
  destruct (chain_unary (parkv kx) X HfoP (head_idlp_parkv kx Hfo0) (R_paren kx X HE) s4 (lp :: x :: l3) n l HS0 HU4 Hq) as [f0 [N [s5 [H5 [HU5 [HN HL5]]]]]].
  exists (S (S (S f0))), (mkN P C_UnaryOp [VStr (tv t); N] (Some (mkCoord P (curfile P s5) (tp t)))), s5. split; [|split; [exact HU5|split; [|cost_tac]]].
  - intros f Hf. destruct f as [|[|[|f]]]; try lia. rewrite (cast_eq P). unfold bind at 1. rewrite H1.
    rewrite (unary_eq P). unfold bind at 1. rewrite H2. rewrite Hk.
    change (okind_is (Some K_SIZEOF) K_PLUSPLUS || okind_is (Some K_SIZEOF) K_MINUSMINUS) with false.
    change (okind_in (Some K_SIZEOF) [K_AND; K_TIMES; K_PLUS; K_MINUS; K_NOT; K_LNOT]) with false.
    change (okind_is (Some K_SIZEOF) K_SIZEOF) with true. cbv iota.
    unfold bind at 1. rewrite H3. unfold bind at 1. rewrite H4. unfold bind at 1. rewrite (H5 (S f)) by lia.
    unfold bind at 1. unfold tcoord. unfold bind at 1. rewrite tok_coord_eq. reflexivity.
  - unfold mkN. cbn [strip map]. rewrite Hv, HN. reflexivity.
Qed.
End PX.

Section MainX.
Variable P : Type.
Variable rp : bool.
Notation CastS := (CastS P).
Notation CondS := (CondS P).
Notation AsgS := (AsgS P).
Notation ExprS := (ExprS P).
Notation xt := (xt rp).
Notation opnd := (opnd rp).
Notation argt := (argt rp).

(* everything we know about one expression *)
Definition T (e: ex) : Prop :=
  first_ok (xt e) /\ (simple e = true -> head_idlp (xt e) /\ R P (xt e) (embx e)) /\
  CastS (opnd e) (embx e) /\ (isasg e = false -> iscomma e = false -> CondS (xt e) (embx e)) /\
  (iscomma e = false -> AsgS (xt e) (embx e)) /\ ExprS (xt e) (embx e).

Lemma T_expr : forall e, T e -> ExprS (xt e) (embx e).
Proof. intros e (_ & _ & _ & _ & _ & HE). exact HE. Qed.
Lemma T_first_argt : forall e, T e -> first_ok (argt e).
Proof. intros e (Hf & _). unfold RoundTripX.argt, vx. destruct (iscomma e); [apply first_ok_parkv; exact Hf|exact Hf]. Qed.
Lemma T_paren : forall e, T e -> CastS (parkv (xt e)) (embx e).
Proof. intros e HT. apply paren_to_cast; [exact (proj1 HT)|apply T_expr; exact HT]. Qed.
Lemma T_asg_argt : forall e, T e -> AsgS (argt e) (embx e).
Proof.
  intros e HT. unfold RoundTripX.argt, vx. destruct (iscomma e) eqn:E.
  - apply cond_to_asg; [apply first_ok_parkv; exact (proj1 HT)|apply cast_to_cond; apply T_paren; exact HT].
  - destruct HT as (_ & _ & _ & _ & HA & _). exact (HA E).
Qed.
Lemma T_expr_argt : forall e, T e -> ExprS (argt e) (embx e).
Proof. intros e HT. apply asg_to_expr. apply T_asg_argt. exact HT. Qed.
Lemma T_paren_argt : forall e, T e -> CastS (parkv (argt e)) (embx e).
Proof. intros e HT. apply paren_to_cast; [apply T_first_argt; exact HT|apply T_expr_argt; exact HT]. Qed.
Lemma T_first_opnd : forall e, T e -> first_ok (opnd e).
Proof.
  intros e HT. unfold RoundTripX.opnd, wrap. destruct (simple e); [exact (proj1 HT)|apply first_ok_parkv; exact (T_first_argt e HT)].
Qed.
Lemma T_head_opnd : forall e, T e -> head_idlp (opnd e).
Proof. intros e HT. pose proof (T_first_argt e HT) as Hfa. destruct HT as (_ & Hs & _). unfold RoundTripX.opnd, wrap. destruct (simple e); [exact (proj1 (Hs eq_refl))|apply head_idlp_parkv; exact Hfa]. Qed.
Lemma T_R_opnd : forall e, T e -> R P (opnd e) (embx e).
Proof.
  intros e HT. pose proof (T_expr_argt e HT) as HE. destruct HT as (_ & Hs & _). unfold RoundTripX.opnd, wrap.
  destruct (simple e); [exact (proj2 (Hs eq_refl))|apply R_paren; exact HE].
Qed.

Lemma T_of_cond : forall e, simple e = false -> isasg e = false -> iscomma e = false -> first_ok (xt e) -> CondS (xt e) (embx e) -> T e.
Proof.
  intros e Hs Ha Hc Hf HC. assert (HA: AsgS (xt e) (embx e)) by (apply cond_to_asg; assumption).
  assert (HE: ExprS (xt e) (embx e)) by (apply asg_to_expr; exact HA).
  split; [exact Hf|]. split; [intros E; congruence|]. split; [|split; [intros _ _; exact HC|split; [intros _; exact HA|exact HE]]].
  unfold RoundTripX.opnd, wrap, vx. rewrite Hs, Hc. apply paren_to_cast; assumption.
Qed.
Lemma T_of_chain : forall e, simple e = true -> isasg e = false -> iscomma e = false -> first_ok (xt e) -> head_idlp (xt e) -> R P (xt e) (embx e) -> T e.
Proof.
  intros e Hs Ha Hc Hf Hh HR. assert (HCa: CastS (xt e) (embx e)) by (apply chain_cast; assumption).
  assert (HC: CondS (xt e) (embx e)) by (apply cast_to_cond; exact HCa).
  assert (HA: AsgS (xt e) (embx e)) by (apply cond_to_asg; assumption).
  split; [exact Hf|]. split; [intros _; split; assumption|]. split; [|split; [intros _ _; exact HC|split; [intros _; exact HA|apply asg_to_expr; exact HA]]].
  unfold RoundTripX.opnd, wrap. rewrite Hs. exact HCa.
Qed.

Lemma ops_to_gt : forall e, wf e -> opsg ex (to_gt e).
Proof. induction e; intros H; try exact I. cbn [wf] in H. destruct H as (Ho & Hl & Hr). cbn [to_gt opsg]. auto. Qed.

Lemma leaves_to_gt : forall (Q: ex -> Prop) e, wf e -> (forall b, size b <= size e -> wf b -> Q b) -> leavesg ex Q (to_gt e).
Proof.
  intros Q. induction e; intros Hw HQ; try (cbn [to_gt leavesg]; apply HQ; [lia|exact Hw]).
  cbn [wf] in Hw. destruct Hw as (Ho & Hl & Hr). cbn [to_gt leavesg]. split.
  - apply IHe1; [exact Hl|]. intros b Hb Hwb. apply HQ; [cbn [size]; lia|exact Hwb].
  - apply IHe2; [exact Hr|]. intros b Hb Hwb. apply HQ; [cbn [size]; lia|exact Hwb].
Qed.

Lemma in_sum : forall (l: list ex) a, In a l -> size a <= list_sum (map size l).
Proof.
  induction l as [|x r IH]; intros a H; [destruct H|]. change (list_sum (map size (x :: r))) with (size x + list_sum (map size r)).
  destruct H as [E|H]; [subst a; lia|]. specialize (IH a H). lia.
Qed.

(* the elements of an argument / comma list, given T for each *)
Lemma list_asg : forall l, Forall T l -> Forall (fun kx => AsgS (fst kx) (snd kx)) (map (fun a => (argt a, embx a)) l).
Proof. induction l as [|x r IH]; intros H; [constructor|]. inversion H; subst. constructor; [apply T_asg_argt; assumption|apply IH; assumption]. Qed.

Lemma tyok_TyOK : forall ty, tyok ty -> TyOK P ty.
Proof. intros ty [[Hne HF]|[v ->]]; [apply simple_tyok; assumption|apply typeid_tyok]. Qed.

Theorem T_all : forall n e, size e <= n -> wf e -> T e.
Proof.
  induction n as [|n IH]; intros e Hn Hw; [destruct e; cbn in Hn; lia|].
  assert (IHl: forall l, wfl l -> list_sum (map size l) <= n -> Forall T l).
  { intros l Hwl Hs. apply Forall_forall. intros a Ha. apply IH; [pose proof (in_sum l a Ha); lia|].
    exact (proj1 (Forall_forall _ _) (wfl_Forall l Hwl) a Ha). }
  destruct e as [a|k v ty|o l r|o x|o x|o x|x|b i|b ty fld|b args|c t f|o l r|es|ty x|ty]; cbn [size] in Hn; cbn [wf] in Hw.
  - (* identifier *)
    apply T_of_chain; try reflexivity.
    + exists K_ID, a, []. split; [reflexivity|]. split; [reflexivity|]. split; [reflexivity|]. intros H; discriminate H.
    + exists K_ID, a, []. split; [reflexivity|split; [reflexivity|intros E; discriminate E]].
    + apply R_id.
  - (* constant *)
    pose proof (const_ok_kind _ _ _ Hw) as Hkk. destruct (const_kind_facts _ Hkk) as (HnoID & Hsk & Hlb & Hlp).
    apply T_of_chain; try reflexivity; cbn [RoundTripX.xt embx].
    + exists k, v, []. split; [reflexivity|]. split; [exact Hsk|]. split; [exact Hlb|]. intros E; congruence.
    + exists k, v, []. split; [reflexivity|]. split; [clear -Hkk; destruct k; vm_compute in Hkk; try discriminate Hkk; reflexivity|intros E; congruence].
    + apply R_const. exact Hw.
  - (* binary operator: the maximal operator tree, its leaves are smaller expressions *)
    set (e := XBin o l r) in *.
    assert (Hleaves: leavesg ex (LeafOK P ex opnd embx) (to_gt e)).
    { destruct Hw as (Ho & Hl & Hr). cbn [to_gt leavesg]. split.
      - apply leaves_to_gt; [exact Hl|]. intros b Hb Hwb. assert (HT: T b) by (apply IH; [lia|exact Hwb]).
        split; [apply T_first_opnd; exact HT|exact (proj1 (proj2 (proj2 HT)))].
      - apply leaves_to_gt; [exact Hr|]. intros b Hb Hwb. assert (HT: T b) by (apply IH; [lia|exact Hwb]).
        split; [apply T_first_opnd; exact HT|exact (proj1 (proj2 (proj2 HT)))]. }
    assert (HC: CondS (kvg rp ex opnd (to_gt e)) (embg ex embx (to_gt e))).
    { apply (binop_cond P rp ex opnd embx embx_node (hg ex (to_gt e))); [apply le_n|apply ops_to_gt; exact Hw|exact Hleaves|].
      eexists; eexists; eexists; reflexivity. }
    assert (Hf: first_ok (kvg rp ex opnd (to_gt e))) by (apply (first_ok_kvg P rp ex opnd embx); exact Hleaves).
    rewrite <- embx_gt in HC. pose proof (xt_bin rp e) as Ext. unfold e in Ext, HC, Hf |- *. cbv iota in Ext. rewrite <- Ext in HC, Hf.
    apply T_of_cond; try reflexivity; assumption.
  - (* prefix operator *)
    destruct Hw as (Ho & Hx). assert (HT: T x) by (apply IH; [lia|exact Hx]).
    destruct (embx_node x) as [c [fs [co EX]]].
    assert (HCa: CastS (xt (XUn o x)) (embx (XUn o x))).
    { cbn [RoundTripX.xt embx]. eapply un_cast; [exact Ho|exact EX|exact (proj1 (proj2 (proj2 HT)))]. }
    apply T_of_cond; try reflexivity; [|apply cast_to_cond; exact HCa].
    cbn [RoundTripX.xt]. unfold unop_ok in Ho. unfold opk. destruct (punct_kind_l o) as [k|]; [|discriminate Ho].
    destruct (unop_kind_facts k Ho) as (HnoLP & _ & _ & Hds & Hlb).
    eexists; eexists; eexists. split; [reflexivity|]. split; [|split; [exact Hlb|intros E; congruence]].
    clear -Ho. destruct k; vm_compute in Ho; try discriminate Ho; reflexivity.
  - (* prefix ++ / -- *)
    destruct Hw as (Ho & Hx). assert (HT: T x) by (apply IH; [lia|exact Hx]).
    destruct (embx_node x) as [c [fs [co EX]]].
    assert (HCa: CastS (xt (XPre o x)) (embx (XPre o x))).
    { cbn [RoundTripX.xt embx]. eapply pre_cast; [exact Ho|exact EX|].
      apply chain_unary; [apply T_first_opnd; exact HT|apply T_head_opnd; exact HT|apply T_R_opnd; exact HT]. }
    apply T_of_cond; try reflexivity; [|apply cast_to_cond; exact HCa].
    cbn [RoundTripX.xt]. unfold incdec_ok in Ho. unfold opk. destruct (punct_kind_l o) as [k|]; [|discriminate Ho].
    destruct (incdec_kind_facts k Ho) as (HnoLP & _ & _ & _ & Hsk & Hlb).
    eexists; eexists; eexists. split; [reflexivity|]. split; [exact Hsk|split; [exact Hlb|intros E; congruence]].
  - (* postfix ++ / -- *)
    destruct Hw as (Ho & Hx). assert (HT: T x) by (apply IH; [lia|exact Hx]).
    destruct (embx_node x) as [c [fs [co EX]]].
    assert (Hf: first_ok (xt (XPost o x))) by (cbn [RoundTripX.xt]; apply first_ok_app; apply T_first_opnd; exact HT).
    assert (HCa: CastS (xt (XPost o x)) (embx (XPost o x))).
    { apply chain_cast; [exact Hf|cbn [RoundTripX.xt]; apply head_idlp_app; apply T_head_opnd; exact HT|].
      cbn [RoundTripX.xt embx]. eapply R_post; [exact EX|exact Ho|apply T_R_opnd; exact HT]. }
    apply T_of_cond; try reflexivity; [exact Hf|apply cast_to_cond; exact HCa].
  - (* sizeof expression *)
    assert (HT: T x) by (apply IH; [lia|exact Hw]).
    assert (HCa: CastS (xt (XSizeof x)) (embx (XSizeof x))).
    { cbn [RoundTripX.xt embx]. apply sizeof_cast; [exact (proj1 HT)|apply T_expr; exact HT]. }
    apply T_of_cond; try reflexivity; [|apply cast_to_cond; exact HCa].
    cbn [RoundTripX.xt]. eexists; eexists; eexists. split; [reflexivity|]. split; [reflexivity|split; [reflexivity|intros E; discriminate E]].
  - (* subscript *)
    destruct Hw as (Hb & Hi). assert (HTb: T b) by (apply IH; [lia|exact Hb]). assert (HTi: T i) by (apply IH; [lia|exact Hi]).
    destruct (embx_node b) as [c [fs [co EX]]].
    apply T_of_chain; try reflexivity; cbn [RoundTripX.xt embx].
    + apply first_ok_app. apply T_first_opnd. exact HTb.
    + apply head_idlp_app. apply T_head_opnd. exact HTb.
    + eapply R_idx; [exact EX|apply T_R_opnd; exact HTb|apply T_expr; exact HTi].
  - (* member access *)
    destruct Hw as (Hm & Hb). assert (HTb: T b) by (apply IH; [lia|exact Hb]).
    destruct (embx_node b) as [c [fs [co EX]]].
    apply T_of_chain; try reflexivity; cbn [RoundTripX.xt embx].
    + apply first_ok_app. apply T_first_opnd. exact HTb.
    + apply head_idlp_app. apply T_head_opnd. exact HTb.
    + eapply R_mem; [exact EX|exact Hm|apply T_R_opnd; exact HTb].
  - (* function call *)
    destruct Hw as (Hb & Hargs). assert (HTb: T b) by (apply IH; [lia|exact Hb]).
    assert (HTa: Forall T args) by (apply IHl; [exact Hargs|lia]).
    destruct (embx_node b) as [c [fs [co EX]]].
    apply T_of_chain; try reflexivity; cbn [RoundTripX.xt embx].
    + apply first_ok_app. apply T_first_opnd. exact HTb.
    + apply head_idlp_app. apply T_head_opnd. exact HTb.
    + destruct args as [|a1 rest].
      * cbn [map commas]. eapply R_call0; [exact EX|apply T_R_opnd; exact HTb].
      * inversion HTa as [|x y HT1 HTr]; subst x y. destruct (embx_node a1) as [c1 [fs1 [co1 EX1]]].
        pose proof (R_call P (opnd b) (embx b) (argt a1) (embx a1) (map (fun a => (argt a, embx a)) rest) c fs co c1 fs1 co1 EX EX1
                      (T_R_opnd b HTb) (T_first_argt a1 HT1) (T_asg_argt a1 HT1) (list_asg rest HTr)) as HR.
        rewrite !map_map in HR. cbn [fst snd] in HR. cbn [map]. exact HR.
  - (* conditional operator *)
    destruct Hw as (Hc & Ht & Hf). assert (HTc: T c) by (apply IH; [lia|exact Hc]).
    assert (HTt: T t) by (apply IH; [lia|exact Ht]). assert (HTf: T f) by (apply IH; [lia|exact Hf]).
    destruct (embx_node c) as [cc [fs [co EX]]].
    apply T_of_cond; try reflexivity; cbn [RoundTripX.xt embx].
    + apply first_ok_app. apply first_ok_parkv. exact (T_first_argt c HTc).
    + eapply cond_ternary; [exact EX|apply T_paren_argt; exact HTc| |apply cast_to_cond; apply T_paren_argt; exact HTf].
      apply cond_to_expr; [apply first_ok_parkv; exact (T_first_argt t HTt)|apply cast_to_cond; apply T_paren_argt; exact HTt].
  - (* assignment *)
    destruct Hw as (Ho & Hnl & Hncl & Hl & Hr). assert (HTl: T l) by (apply IH; [lia|exact Hl]). assert (HTr: T r) by (apply IH; [lia|exact Hr]).
    destruct (embx_node l) as [c [fs [co EX]]].
    assert (Hf: first_ok (xt (XAsg o l r))) by (cbn [RoundTripX.xt]; apply first_ok_app; exact (proj1 HTl)).
    assert (HA: AsgS (xt (XAsg o l r)) (embx (XAsg o l r))).
    { cbn [RoundTripX.xt embx]. eapply asg_assign; [exact EX|exact Ho|exact (proj1 HTl)|exact (proj1 (proj2 (proj2 (proj2 HTl))) Hnl Hncl)|].
      destruct (isasg r); [|exact (T_asg_argt r HTr)].
      apply cond_to_asg; [apply first_ok_parkv; exact (proj1 HTr)|apply cast_to_cond; apply T_paren; exact HTr]. }
    assert (HE: ExprS (xt (XAsg o l r)) (embx (XAsg o l r))) by (apply asg_to_expr; exact HA).
    split; [exact Hf|]. split; [intros E; discriminate E|]. split; [|split; [intros E; discriminate E|split; [intros _; exact HA|exact HE]]].
    unfold RoundTripX.opnd, wrap, vx. cbn [simple iscomma]. apply paren_to_cast; assumption.
  - (* comma expression *)
    destruct Hw as (Hlen & Hes). assert (HTe: Forall T es) by (apply IHl; [exact Hes|lia]).
    destruct es as [|e1 [|e2 rest]]; cbn [length] in Hlen; try lia.
    inversion HTe as [|x y HT1 HTe']; subst x y. inversion HTe' as [|x y HT2 HTr]; subst x y.
    destruct (embx_node e1) as [c1 [fs1 [co1 EX1]]].
    pose proof (expr_comma P (argt e1) (embx e1) (argt e2) (embx e2) (map (fun a => (argt a, embx a)) rest) c1 fs1 co1 EX1
                  (T_asg_argt e1 HT1) (T_asg_argt e2 HT2) (list_asg rest HTr)) as HE.
    rewrite !map_map in HE. cbn [fst snd] in HE.
    assert (Hf: first_ok (xt (XComma (e1 :: e2 :: rest)))).
    { cbn [RoundTripX.xt map]. rewrite commas_cons. apply first_ok_app. exact (T_first_argt e1 HT1). }
    assert (HE': ExprS (xt (XComma (e1 :: e2 :: rest))) (embx (XComma (e1 :: e2 :: rest)))) by (cbn [RoundTripX.xt embx map]; exact HE).
    split; [exact Hf|]. split; [intros E; discriminate E|]. split; [|split; [intros _ E; discriminate E|split; [intros E; discriminate E|exact HE']]].
    unfold RoundTripX.opnd, wrap, vx. cbn [simple iscomma].
    apply paren_to_cast; [apply first_ok_parkv; exact Hf|].
    apply cond_to_expr; [apply first_ok_parkv; exact Hf|apply cast_to_cond; apply paren_to_cast; assumption].
  - (* cast *)
    destruct Hw as (Hty & Hx). assert (HT: T x) by (apply IH; [lia|exact Hx]). pose proof (tyok_TyOK ty Hty) as HTy.
    assert (HCa: CastS (xt (XCast ty x)) (embx (XCast ty x))).
    { cbn [RoundTripX.xt embx]. apply (cast_type P ty (opnd x) (embx x) HTy (T_first_opnd x HT)). exact (proj1 (proj2 (proj2 HT))). }
    apply T_of_cond; try reflexivity; [|apply cast_to_cond; exact HCa].
    cbn [RoundTripX.xt]. destruct HTy as (_ & [k0 [v0 [ty' [-> Hk0]]]] & _). cbn [app].
    exists K_LPAREN, (s2l "("), ((k0, v0) :: ty' ++ (K_RPAREN, s2l ")") :: opnd x). split; [reflexivity|]. split; [reflexivity|]. split; [reflexivity|].
    intros _. exists k0, v0, (ty' ++ (K_RPAREN, s2l ")") :: opnd x). split; [reflexivity|exact (decl_start_not_lbrace k0 Hk0)].
  - (* sizeof(type-name) *)
    pose proof (tyok_TyOK ty Hw) as HTy.
    assert (HCa: CastS (xt (XSizeofT ty)) (embx (XSizeofT ty))) by (cbn [RoundTripX.xt embx]; apply (sizeof_type P ty HTy)).
    apply T_of_cond; try reflexivity; [|apply cast_to_cond; exact HCa].
    cbn [RoundTripX.xt]. eexists; eexists; eexists. split; [reflexivity|]. split; [reflexivity|split; [reflexivity|intros E; discriminate E]].
Qed.

(* parse . generate = id, token level: every expression of the language - with the cost of the parse:
   exactly the generated tokens are consumed, and next() is called at most three times per token *)
Theorem parse_of_generated_expression_cost : forall e, wf e ->
  forall (s: ParserBase.pstate P) le stop l0, RoundTrip.Spell P le (xt e) -> StreamLib.Up P s (le ++ stop :: l0) -> estop (tk stop) = true ->
  exists f0 N s', (forall f, f0 <= f -> p_expression P f s = Ok (N, s')) /\ StreamLib.Up P s' (stop :: l0) /\ strip N = embx e /\
    StreamLib.Ran P s s' (length le).
Proof. intros e Hw. exact (T_expr e (T_all (size e) e (le_n _) Hw)). Qed.

Theorem parse_of_generated_expression : forall e, wf e ->
  forall (s: ParserBase.pstate P) le stop l0, RoundTrip.Spell P le (xt e) -> StreamLib.Up P s (le ++ stop :: l0) -> estop (tk stop) = true ->
  exists f0 N s', (forall f, f0 <= f -> p_expression P f s = Ok (N, s')) /\ StreamLib.Up P s' (stop :: l0) /\ strip N = embx e.
Proof.
  intros e Hw s le stop l0 HS HU Hst. destruct (parse_of_generated_expression_cost e Hw s le stop l0 HS HU Hst) as [f0 [N [s' [H [HU' [HN _]]]]]].
  exists f0, N, s'. split; [exact H|split; [exact HU'|exact HN]].
Qed.
End MainX.

(* ---- the hypotheses are satisfiable, and the bound is met: `( a + b ) * c ;` - 7 tokens, 9 reads (the parenthesis three times) ---- *)
Definition ex_cost_e : ex := XBin (s2l "*") (XBin (s2l "+") (XId (s2l "a")) (XId (s2l "b"))) (XId (s2l "c")).
Example cost_hypotheses_satisfiable :
  wf ex_cost_e /\ RoundTrip.Spell nat ex_toks (xt false ex_cost_e) /\
  StreamLib.Up nat ex_state (ex_toks ++ [mkTok nat K_SEMI (s2l ";") 8]) /\ estop K_SEMI = true /\
  match p_expression nat 60 ex_state with Ok (_, s') => (idx nat s', ticks nat s') = (7, 9%N) | _ => False end.
Proof.
  split; [cbn; repeat split; discriminate|]. split; [vm_compute; reflexivity|].
  split; [exact (proj1 (proj2 (proj2 roundtrip_hypotheses_satisfiable)))|]. split; vm_compute; reflexivity.
Qed.
