(* C10, unbounded: every floating-constant token the lexer can emit (decimal and hexadecimal, any number of
   digits) is classified by _parse_constant - no IndexError - and the type is the one its suffix spells:
   none -> double, f/F -> float, l/L -> long double.  Same route as IntLiteral.v: the denotation [in_re] of the
   regenerated rules, a computed split  body . finite-suffix-list, and two computed analyses of the body
   (it is never empty; its last character is never one of f F l L - in a hexadecimal constant the body ends
   in the decimal digits of the binary exponent, although hex digits a-f occur before). *)
From Coq Require Import List NArith Bool Arith Lia.
Import ListNotations.
From PV Require Import Regex Base UnicodeTables LexTables PyRepr Lexer RegexLemmas AstDefs AstSpec AstImpl NodeModel ParserBase ParserDecl IntLiteral.
Open Scope nat_scope.

Definition SFX : list N := [70; 76; 102; 108]%N.    (* F L f l *)

(* no word of r is empty *)
Fixpoint nonnull (r: re) : bool :=
  match r with
  | Chr _ => true
  | Seq a b => nonnull a || nonnull b
  | Alt a b => nonnull a && nonnull b
  | _ => false
  end.
(* the last character of every non-empty word of r is not one of SFX *)
Fixpoint lastok (r: re) : bool :=
  match r with
  | Eps | NotAhead _ | AtEnd => true
  | Chr (CSet false rs) => forallb (range_ok SFX) rs
  | Chr (CSet true _) => false
  | Seq a b => lastok b && (nonnull b || lastok a)
  | Alt a b => lastok a && lastok b
  | Star a => lastok a
  end.

Lemma nonnull_sound : forall r w, nonnull r = true -> in_re r w -> w <> [].
Proof.
  intros r w H Hin. induction Hin; cbn [nonnull] in H; try discriminate H.
  - discriminate.
  - apply orb_true_iff in H. destruct H as [H|H]; [specialize (IHHin1 H)|specialize (IHHin2 H)]; intros E; apply app_eq_nil in E; tauto.
  - apply andb_true_iff in H. tauto.
  - apply andb_true_iff in H. tauto.
Qed.

Definition lastgood (w: str) : Prop := match last_opt w with Some c => ~ In c SFX | None => True end.

Lemma last_opt_app : forall (x y: str), y <> [] -> last_opt (x ++ y) = last_opt y.
Proof.
  induction x as [|a x IH]; intros y Hy; [reflexivity|]. cbn [app]. specialize (IH y Hy).
  destruct (x ++ y) eqn:E; [apply app_eq_nil in E; tauto|]. cbn [last_opt] in *. exact IH.
Qed.

Lemma lastok_sound : forall r w, lastok r = true -> in_re r w -> lastgood w.
Proof.
  intros r w H Hin. induction Hin; cbn [lastok] in H; try exact I.
  - destruct cs as [[|] rs]; [discriminate|]. unfold lastgood. cbn [last_opt]. intros Hb.
    unfold cset_mem in H0. assert (Hr0: in_ranges c rs = true) by (destruct (in_ranges c rs); [reflexivity|discriminate]).
    unfold in_ranges in Hr0. apply existsb_exists in Hr0. destruct Hr0 as [[a b] [Hr Hc]].
    rewrite forallb_forall in H. specialize (H _ Hr). unfold range_ok in H. rewrite forallb_forall in H. specialize (H _ Hb).
    cbn [fst snd] in *. apply andb_true_iff in Hc. destruct Hc as [H1 H2]. apply N.leb_le in H1, H2.
    apply orb_true_iff in H. destruct H as [H|H]; apply N.ltb_lt in H; lia.
  - apply andb_true_iff in H. destruct H as [Hb Ha]. destruct y as [|c y'].
    + rewrite app_nil_r. apply orb_true_iff in Ha. destruct Ha as [Ha|Ha]; [exfalso; exact (nonnull_sound _ _ Ha Hin2 eq_refl)|apply IHHin1; exact Ha].
    + unfold lastgood. rewrite last_opt_app by discriminate. apply IHHin2. exact Hb.
  - apply andb_true_iff in H. destruct H as [Ha Hb]. auto.
  - apply andb_true_iff in H. destruct H as [Ha Hb]. auto.
  - destruct y as [|c y']; [rewrite app_nil_r; apply IHHin1; exact H|]. unfold lastgood. rewrite last_opt_app by discriminate. apply IHHin2. exact H.
Qed.

(* the C type a floating suffix spells *)
Definition spec_ftype (t: str) : str :=
  match t with
  | [c] => if N.eqb c 102 || N.eqb c 70 then s2l "float" else if N.eqb c 108 || N.eqb c 76 then s2l "long double" else s2l "double"
  | _ => s2l "double"
  end.
Definition ftail_ok (t: str) : bool := match t with [] => true | [c] => existsb (N.eqb c) SFX | _ => false end.
Definition rulef_ok (r: re) : bool :=
  match rsplit r with
  | Some (b, ts) => nonnull b && lastok b && forallb ftail_ok ts
  | None => false
  end.

Lemma float_rules_ok : rulef_ok re_FLOAT_CONST = true /\ rulef_ok re_HEX_FLOAT_CONST = true.
Proof. vm_compute. split; reflexivity. Qed.

Section FL.
Variable P : Type.

Theorem float_word_classified : forall r w, rulef_ok r = true -> in_re r w ->
  exists x t, w = x ++ t /\ x <> [] /\ lastgood x /\ float_const_type w = Some (spec_ftype t).
Proof.
  intros r w Hok Hin. unfold rulef_ok in Hok. destruct (rsplit r) as [[b ts]|] eqn:E; [|discriminate].
  apply andb_true_iff in Hok. destruct Hok as [Hok Ht]. apply andb_true_iff in Hok. destruct Hok as [Hnn Hl].
  destruct (rsplit_sound _ _ _ _ E Hin) as (x & t & -> & Hb & Hint).
  pose proof (nonnull_sound _ _ Hnn Hb) as Hx. pose proof (lastok_sound _ _ Hl Hb) as Hlx.
  rewrite forallb_forall in Ht. specialize (Ht _ Hint).
  exists x, t. split; [reflexivity|]. split; [exact Hx|]. split; [exact Hlx|].
  unfold float_const_type. destruct t as [|c [|c2 t2]]; [| |discriminate Ht].
  - rewrite app_nil_r. unfold lastgood in Hlx. destruct (last_opt x) as [c|] eqn:El.
    + cbn [spec_ftype]. assert (Hc: N.eqb c 102 || N.eqb c 70 = false /\ is_lL c = false).
      { unfold SFX in Hlx. cbn [In] in Hlx. split.
        - destruct (N.eqb c 102) eqn:E1; [apply N.eqb_eq in E1; subst; tauto|]. destruct (N.eqb c 70) eqn:E2; [apply N.eqb_eq in E2; subst; tauto|reflexivity].
        - unfold is_lL. destruct (N.eqb c 108) eqn:E1; [apply N.eqb_eq in E1; subst; tauto|]. destruct (N.eqb c 76) eqn:E2; [apply N.eqb_eq in E2; subst; tauto|reflexivity]. }
      destruct Hc as [H1 H2]. rewrite H1, H2. reflexivity.
    + exfalso. destruct x as [|a x']; [tauto|]. clear -El. revert a El. induction x' as [|b x' IH]; intros a El; [discriminate|]. exact (IH b El).
  - rewrite last_opt_app by discriminate. cbn [last_opt spec_ftype]. unfold ftail_ok, SFX in Ht. cbn [existsb] in Ht.
    unfold is_lL. destruct (N.eqb c 102) eqn:E1; [reflexivity|]. destruct (N.eqb c 70) eqn:E2; [reflexivity|]. cbn [orb].
    destruct (N.eqb c 108) eqn:E3; [reflexivity|]. destruct (N.eqb c 76) eqn:E4; [reflexivity|].
    rewrite ?E1, ?E2, ?E3, ?E4 in Ht. cbn in Ht. discriminate Ht.
Qed.
End FL.

(* ---- the lexer side: a floating token's spelling is a word of its rule ---- *)
Definition float_kind (k: kind) : option re :=
  match k with K_FLOAT_CONST => Some re_FLOAT_CONST | K_HEX_FLOAT_CONST => Some re_HEX_FLOAT_CONST | _ => None end.
Definition is_float_kind (k: kind) : bool := match float_kind k with Some _ => true | None => false end.

Lemma float_rules_of_table :
  forallb (fun r => match ract r with
                    | A_TOKEN k => if is_float_kind k then rulef_ok (rre r) else true
                    | _ => true end) regex_rules = true.
Proof. vm_compute. reflexivity. Qed.
Lemma fixed_not_float : forallb (fun b => forallb (fun kl => negb (is_float_kind (fst kl))) (snd b)) fixed_by_first = true.
Proof. vm_compute. reflexivity. Qed.
Lemma keywords_not_float : forallb (fun kv => negb (is_float_kind (snd kv))) keyword_map = true.
Proof. vm_compute. reflexivity. Qed.

Definition fitem_ok (i: raw_item) : Prop :=
  match i with
  | RTok k v _ _ _ => is_float_kind k = true ->
      exists x t, v = x ++ t /\ x <> [] /\ lastgood x /\ float_const_type v = Some (spec_ftype t)
  | _ => True
  end.

Lemma fixed_match_not_float : forall s k lit, fixed_match s = Some (k, lit) -> is_float_kind k = false.
Proof.
  intros s k lit H. unfold fixed_match in H. destruct s as [|c s']; [discriminate|].
  destruct (bucket_of c fixed_by_first) as [b|] eqn:Eb; [|discriminate].
  destruct (bucket_of_in _ _ _ Eb) as [c' Hb]. apply bucket_scan_in in H.
  pose proof fixed_not_float as T. rewrite forallb_forall in T. specialize (T _ Hb). cbn [snd] in T.
  rewrite forallb_forall in T. specialize (T _ H). cbn [fst] in T. destruct (is_float_kind k); [discriminate|reflexivity].
Qed.

Lemma keyword_kind_not_float : forall v, is_float_kind (keyword_kind v) = false.
Proof.
  intros v. unfold keyword_kind. destruct (assoc_str v keyword_map) as [k|] eqn:E; [|reflexivity].
  assert (Hin: exists v', In (v', k) keyword_map).
  { clear - E. induction keyword_map as [|[a b] l IH]; [discriminate|]. cbn [assoc_str] in E.
    destruct (str_eqb v a); [injection E as <-; exists a; left; reflexivity|]. destruct (IH E) as [v' H]. exists v'. right. exact H. }
  destruct Hin as [v' Hin]. pose proof keywords_not_float as T. rewrite forallb_forall in T. specialize (T _ Hin). cbn [snd] in T.
  destruct (is_float_kind k); [discriminate|reflexivity].
Qed.

Lemma match_token_items_ok : forall n0 st rest, Forall fitem_ok (fst (fst (match_token n0 st rest))).
Proof.
  intros n0 st rest. unfold match_token, choose_best.
  destruct (first_rule regex_rules n0 rest) as [[r len]|] eqn:Ef.
  - destruct (first_rule_match _ _ _ _ _ Ef) as [Hin [s' Hm]].
    assert (Hreg: Forall fitem_ok (fst (fst (
       let value := firstn len rest in
       match ract r with
       | A_TOKEN k => ([mk_tok st k value (l_pos st)], mkLex (l_pos st + N.of_nat len) (l_line_start st) (l_lineno st) (l_file st), skipn len rest)
       | A_ID => ([mk_tok st (keyword_kind value) value (l_pos st)], mkLex (l_pos st + N.of_nat len) (l_line_start st) (l_lineno st) (l_file st), skipn len rest)
       | A_ERROR msg =>
         let len' := Nat.max 1 len in
         let msg' := if str_eqb (rname r) name_BAD_CHAR_CONST then Some (msg_bad_char_const value) else msg in
         match msg' with
         | None => ([RCrash], st, rest)
         | Some mm => ([mk_err st mm (l_pos st)], mkLex (l_pos st + N.of_nat len') (l_line_start st) (l_lineno st) (l_file st), skipn len' rest)
         end
       end)))).
    { cbv zeta. destruct (ract r) as [k| |msg] eqn:Ea.
      - cbn [fst]. constructor; [|constructor]. unfold mk_tok, fitem_ok. intros Hk.
        pose proof float_rules_of_table as T. rewrite forallb_forall in T. specialize (T _ Hin). rewrite Ea, Hk in T.
        destruct (match_re_lang _ _ _ _ _ Hm) as [Hl _]. apply (float_word_classified (rre r) _ T Hl).
      - cbn [fst]. constructor; [|constructor]. unfold mk_tok, fitem_ok. intros Hk. rewrite keyword_kind_not_float in Hk. discriminate.
      - destruct (if str_eqb (rname r) name_BAD_CHAR_CONST then Some (msg_bad_char_const (firstn len rest)) else msg); cbn [fst];
          constructor; try constructor; exact I. }
    destruct (fixed_match rest) as [[k lit]|] eqn:Efx.
    + destruct (Nat.ltb len (length lit)).
      * cbn [fst]. constructor; [|constructor]. unfold mk_tok, fitem_ok. intros Hk. rewrite (fixed_match_not_float _ _ _ Efx) in Hk. discriminate.
      * exact Hreg.
    + exact Hreg.
  - destruct (fixed_match rest) as [[k lit]|] eqn:Efx.
    + cbn [fst]. constructor; [|constructor]. unfold mk_tok, fitem_ok. intros Hk. rewrite (fixed_match_not_float _ _ _ Efx) in Hk. discriminate.
    + destruct rest; cbn [fst]; constructor; try constructor; exact I.
Qed.

Lemma lex_iter_items_ok : forall n0 st rest, Forall fitem_ok (fst (fst (lex_iter n0 st rest))).
Proof.
  intros n0 st rest. unfold lex_iter. destruct rest as [|c rest']; [constructor|].
  destruct (is_blank c); [constructor|]. destruct (N.eqb c 10); [constructor|].
  destruct (N.eqb c 35); [|apply match_token_items_ok].
  destruct (match_re n0 re_line_pattern rest').
  - unfold handle_ppline. destruct (split_line rest') as [line after].
    destruct (ppline_scan line) as [[pl|] pf|msg off]; cbn [fst]; try (constructor; [exact I|constructor]).
    destruct (forallb is_ascii_digit pl); cbn [fst]; [constructor|constructor; [exact I|constructor]].
  - destruct (match_re n0 re_pragma_pattern rest').
    + unfold handle_pppragma. destruct (skip_ws _ rest') as [p1 r1]. destruct r1 as [|x r1tl]; [constructor|].
      destruct (negb (starts_with s_pragma (x :: r1tl))); [cbn [fst]; constructor; [exact I|constructor]|].
      destruct (skip_ws _ _) as [start r2]. destruct (split_line r2) as [body after].
      destruct body; destruct after; cbn [fst]; repeat constructor; unfold mk_tok, fitem_ok; intros Hk; discriminate.
    + cbn [fst]. constructor; [|constructor]. unfold mk_tok, fitem_ok. intros Hk. discriminate.
Qed.

(* every floating-constant token of the whole token stream of any text: its spelling is a non-empty body that does not end
   in f F l L, followed by a suffix, and _parse_constant's classifier gives it the type that suffix spells (never IndexError) *)
Theorem lexer_float_tokens_typed : forall fuel st rest, Forall fitem_ok (fst (fst (raw_lex fuel st rest))).
Proof.
  induction fuel as [|f IH]; intros st rest.
  - destruct rest; constructor.
  - destruct rest as [|c r]; [constructor|]. cbn [raw_lex].
    pose proof (lex_iter_items_ok (S f) st (c :: r)) as Hi.
    destruct (lex_iter (S f) st (c :: r)) as [[items st'] rest']. cbn [fst] in Hi.
    destruct (has_crash items); [exact Hi|].
    specialize (IH st' rest'). destruct (raw_lex f st' rest') as [[more stf] cc]. cbn [fst] in *.
    apply Forall_app. split; assumption.
Qed.
