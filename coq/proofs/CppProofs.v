From Coq Require Import List NArith Bool.
Import ListNotations.
From PV Require Import Regex Base CppArgs.

Theorem path_list_shape : forall cpp args file,
  exists mid, path_list cpp args file = cpp :: mid ++ [file]
              /\ mid = match args with ArgList l => l | ArgStr [] => [] | ArgStr s => [s] end.
Proof. intros. eexists. split; reflexivity. Qed.

(* a string argument and the one-element list holding it give the same command line *)
Theorem str_equals_singleton_list : forall cpp s file, s <> [] ->
  path_list cpp (ArgStr s) file = path_list cpp (ArgList [s]) file.
Proof. intros cpp s file H. destruct s; [congruence|reflexivity]. Qed.

(* parse_file with use_cpp is exactly: preprocess by hand, then parse the text under the same file name *)
Theorem parse_file_is_manual_pipeline : forall (Text Ast: Type) run_cpp read_file (parse: Text -> str -> Ast) file cpp args,
  parse_file Text Ast run_cpp read_file parse file true cpp args
  = parse (preprocess_file Text run_cpp file cpp args) file.
Proof. reflexivity. Qed.

Theorem parse_file_without_cpp : forall (Text Ast: Type) run_cpp read_file (parse: Text -> str -> Ast) file cpp args,
  parse_file Text Ast run_cpp read_file parse file false cpp args = parse (read_file file) file.
Proof. reflexivity. Qed.
