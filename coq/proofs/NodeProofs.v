(* C14: conformance of the node classes with the specification, agreement of
   children() and __iter__, visitor and show facts. *)
From Coq Require Import List NArith Bool Arith Lia.
Import ListNotations.
From PV Require Import Regex Base AstDefs AstSpec AstImpl AstGenImpl PyRepr NodeModel.
Open Scope N_scope.

(* ---- table theorems over the regenerated tables (49 classes, complete) ------- *)
Theorem impl_conforms_to_spec : ast_impl = map template ast_spec.
Proof. vm_compute. reflexivity. Qed.

Theorem generator_is_template : ast_gen_impl = map template ast_spec.
Proof. vm_compute. reflexivity. Qed.

(* class enumeration and implementation table are aligned *)
Theorem cls_table_aligned :
  map (fun c => option_map ci_name (impl_of c)) all_cls = map (fun c => Some (cls_name c)) all_cls.
Proof. vm_compute. reflexivity. Qed.

(* readable consequences of the template, stated on the implementation table *)
Definition entries_of_kind (k: ekind) (cs: class_spec) : list str :=
  map fst (filter (fun e => match snd e, k with EAttr, EAttr | EChild, EChild | ESeq, ESeq => true | _, _ => false end) (cs_entries cs)).

Definition list_str_eqb (a b: list str) : bool :=
  (fix go a b := match a, b with
                 | [], [] => true
                 | x :: a', y :: b' => str_eqb x y && go a' b'
                 | _, _ => false end) a b.

(* constructor parameters = cfg order followed by coord; only coord has a default *)
Theorem ctor_order :
  forallb (fun p => list_str_eqb (ci_params (fst p)) (map fst (cs_entries (snd p)) ++ [s_coord])
                    && Nat.eqb (ci_ndefaults (fst p)) 1) (combine ast_impl ast_spec) = true
  /\ length ast_impl = length ast_spec.
Proof. split; vm_compute; reflexivity. Qed.

Theorem attr_names_are_plain_fields :
  forallb (fun p => list_str_eqb (ci_attr_names (fst p)) (entries_of_kind EAttr (snd p))) (combine ast_impl ast_spec) = true.
Proof. vm_compute. reflexivity. Qed.

Definition children_labels (cp: children_prog) : list (str * bool) :=   (* (field, is_sequence) in order *)
  match cp with
  | CP_empty => []
  | CP_steps s => map (fun st => match st with CS_child x _ _ => (x, false) | CS_seq x _ => (x, true) end) s
  end.

Theorem children_singles_then_sequences :
  forallb (fun p =>
     let want := map (fun n => (n, false)) (entries_of_kind EChild (snd p)) ++ map (fun n => (n, true)) (entries_of_kind ESeq (snd p)) in
     let got := children_labels (ci_children (fst p)) in
     list_str_eqb (map fst got) (map fst want) &&
     (fix go a b := match a, b with [], [] => true | x :: a', y :: b' => Bool.eqb x y && go a' b' | _, _ => false end)
       (map snd got) (map snd want))
    (combine ast_impl ast_spec) = true.
Proof. vm_compute. reflexivity. Qed.

(* every slot other than __weakref__ is assigned by __init__ from the parameter of the same name *)
Theorem init_assigns_every_slot :
  forallb (fun ci => list_str_eqb (map fst (ci_assigns ci)) (firstn (length (ci_slots ci) - 1) (ci_slots ci))
                     && list_str_eqb (map snd (ci_assigns ci)) (ci_params ci)
                     && list_str_eqb (map fst (ci_assigns ci)) (ci_params ci)) ast_impl = true.
Proof. vm_compute. reflexivity. Qed.

(* ---- children() and __iter__ agree, for every field assignment -------------------- *)
Fixpoint steps_agree (cs: list cstep) (is: list istep) : bool :=
  match cs, is with
  | [], [] => true
  | CS_child x _ y :: cs', IS_child x' y' :: is' => str_eqb x x' && str_eqb y y' && steps_agree cs' is'
  | CS_seq x _ :: cs', IS_seq x' :: is' => str_eqb x x' && steps_agree cs' is'
  | _, _ => false
  end.

Definition progs_agree (cp: children_prog) (ip: iter_prog) : bool :=
  match cp, ip with
  | CP_empty, IP_empty => true
  | CP_steps [], IP_empty => true
  | CP_steps cs, IP_steps is => steps_agree cs is
  | _, _ => false
  end.

Theorem all_classes_progs_agree : forallb (fun ci => progs_agree (ci_children ci) (ci_iter ci)) ast_impl = true.
Proof. vm_compute. reflexivity. Qed.

Lemma str_eqb_true : forall a b, str_eqb a b = true -> a = b.
Proof.
  induction a as [|x a IH]; destruct b as [|y b]; cbn; intros H; try discriminate; auto.
  apply andb_true_iff in H. destruct H as [H1 H2]. apply N.eqb_eq in H1. subst. f_equal. auto.
Qed.

Section Agree.
Variable P : Type.

Lemma map_snd_indexed : forall l i (vs: list (value P)), map snd (indexed_labels P l i vs) = vs.
Proof. intros l i vs. revert i. induction vs as [|v vs IH]; intros i; cbn; [reflexivity|]. f_equal. apply IH. Qed.

Lemma run_agree : forall ci fs cs is, steps_agree cs is = true ->
  option_map (map snd) (run_children P ci fs cs) = run_iter P ci fs is.
Proof.
  intros ci fs cs. induction cs as [|c cs IH]; intros is H.
  - destruct is; [reflexivity|discriminate].
  - destruct c as [x l y|x l]; destruct is as [|[x' y'|x'] is]; cbn [steps_agree] in H; try discriminate.
    + apply andb_true_iff in H. destruct H as [H H3]. apply andb_true_iff in H. destruct H as [H1 H2].
      apply str_eqb_true in H1. apply str_eqb_true in H2. subst x' y'.
      cbn [run_children run_iter]. specialize (IH _ H3).
      destruct (get_field P ci fs x) as [vx|]; [|reflexivity].
      destruct vx; try exact IH;
        (destruct (get_field P ci fs y) as [vy|]; [|reflexivity];
         rewrite <- IH; destruct (run_children P ci fs cs); reflexivity).
    + apply andb_true_iff in H. destruct H as [H1 H3]. apply str_eqb_true in H1. subst x'.
      cbn [run_children run_iter]. specialize (IH _ H3).
      destruct (get_field P ci fs x) as [vx|]; [|reflexivity].
      destruct (seq_items P vx) as [items|]; [|reflexivity].
      rewrite <- IH. destruct (run_children P ci fs cs) as [rest|]; [|reflexivity].
      cbn. rewrite map_app, map_snd_indexed. reflexivity.
Qed.

(* for every node of every class, with arbitrary field values (absent
   children, sequences None / empty / of any length), children() and
   iteration report the same nodes in the same order *)
Theorem children_iter_agree : forall (v: value P),
  option_map (map snd) (children P v) = iter P v.
Proof.
  intros [| s | l | c fs co]; try reflexivity.
  unfold children, iter. destruct (impl_of c) as [ci|] eqn:Hc; [|reflexivity].
  assert (Hin: In ci ast_impl) by (eapply nth_error_In; exact Hc).
  pose proof all_classes_progs_agree as Hall. rewrite forallb_forall in Hall. specialize (Hall _ Hin).
  unfold children_of, iter_of. unfold progs_agree in Hall.
  destruct (ci_children ci) as [|cs]; destruct (ci_iter ci) as [|is]; try discriminate; try reflexivity.
  - destruct cs; [reflexivity|discriminate].
  - apply run_agree. destruct cs; exact Hall.
Qed.
End Agree.
