(* C02 / C01: precedence climbing is also COMPLETE for the stratified grammar - every operator/operand
   sequence the grammar derives a tree for is accepted, with exactly that tree.  With ClimbProofs
   (soundness, unambiguity):  climb l = t  <->  D 0 l t. *)
From Coq Require Import List Arith Lia Bool.
Import ListNotations.
From PV Require Import ClimbProofs.

Section CC.
Variable atom op : Type.
Variable prec : op -> nat.
Notation tree := (tree atom op).
Notation rest := (rest atom op).
Notation climb := (climb atom op prec).
Notation inner := (inner atom op prec).
Notation D := (D atom op prec).
Notation Leaf := (Leaf atom op).
Notation Bin := (Bin atom op).

(* fuel-free view of the two loops *)
Definition C (m: nat) (h: tree) (r: rest) (res: tree * rest) : Prop := exists f, climb f m h r = Some res.
Definition IL (p: nat) (h: tree) (r: rest) (res: tree * rest) : Prop := exists f, inner f p h r = Some res.

Lemma climb_S : forall f m lhs r, climb (S f) m lhs r =
  match r with
  | [] => Some (lhs, [])
  | (o, a) :: r1 => if prec o <? m then Some (lhs, r)
                    else match inner f (prec o) (Leaf a) r1 with
                         | None => None
                         | Some (rhs, r2) => climb f m (Bin o lhs rhs) r2 end
  end.
Proof. reflexivity. Qed.
Lemma inner_S : forall f p rhs r, inner (S f) p rhs r =
  match r with
  | [] => Some (rhs, [])
  | (o2, _) :: _ => if p <? prec o2 then
                      match climb f (prec o2) rhs r with
                      | None => None
                      | Some (rhs', r') => inner f p rhs' r' end
                    else Some (rhs, r)
  end.
Proof. reflexivity. Qed.

Lemma mono : forall f, (forall m h r res, climb f m h r = Some res -> forall f', f <= f' -> climb f' m h r = Some res)
                    /\ (forall p h r res, inner f p h r = Some res -> forall f', f <= f' -> inner f' p h r = Some res).
Proof.
  induction f as [|f [IHc IHi]]; split; intros a h r res H f' Hf; try (cbn in H; discriminate H).
  - destruct f' as [|f']; [lia|]. assert (Hf': f <= f') by lia. rewrite climb_S in *.
    destruct r as [|[o x] r1]; [exact H|]. destruct (prec o <? a); [exact H|].
    destruct (inner f (prec o) (Leaf x) r1) as [[rhs r2]|] eqn:E; [|cbv iota in H; discriminate H].
    rewrite (IHi _ _ _ _ E _ Hf'). apply (IHc _ _ _ _ H _ Hf').
  - destruct f' as [|f']; [lia|]. assert (Hf': f <= f') by lia. rewrite inner_S in *.
    destruct r as [|[o x] r1]; [exact H|]. destruct (a <? prec o); [|exact H].
    destruct (climb f (prec o) h ((o, x) :: r1)) as [[rhs' r']|] eqn:E; [|cbv iota in H; discriminate H].
    rewrite (IHc _ _ _ _ E _ Hf'). apply (IHi _ _ _ _ H _ Hf').
Qed.

Lemma C_det : forall m h r a b, C m h r a -> C m h r b -> a = b.
Proof.
  intros m h r a b [f1 H1] [f2 H2]. destruct (mono f1) as [M1 _]. destruct (mono f2) as [M2 _].
  pose proof (M1 _ _ _ _ H1 (max f1 f2) (Nat.le_max_l _ _)) as E1.
  pose proof (M2 _ _ _ _ H2 (max f1 f2) (Nat.le_max_r _ _)) as E2. congruence.
Qed.
Lemma IL_det : forall p h r a b, IL p h r a -> IL p h r b -> a = b.
Proof.
  intros p h r a b [f1 H1] [f2 H2]. destruct (mono f1) as [_ M1]. destruct (mono f2) as [_ M2].
  pose proof (M1 _ _ _ _ H1 (max f1 f2) (Nat.le_max_l _ _)) as E1.
  pose proof (M2 _ _ _ _ H2 (max f1 f2) (Nat.le_max_r _ _)) as E2. congruence.
Qed.

(* constructors *)
Lemma C_nil : forall m h, C m h [] (h, []).
Proof. intros. exists 1. reflexivity. Qed.
Lemma C_stop : forall m h o a r, prec o < m -> C m h ((o, a) :: r) (h, (o, a) :: r).
Proof. intros m h o a r H. exists 1. rewrite climb_S. apply Nat.ltb_lt in H. rewrite H. reflexivity. Qed.
Lemma C_step : forall m h o a r rhs r2 res, m <= prec o -> IL (prec o) (Leaf a) r (rhs, r2) -> C m (Bin o h rhs) r2 res ->
  C m h ((o, a) :: r) res.
Proof.
  intros m h o a r rhs r2 res Hm [f1 H1] [f2 H2]. exists (S (max f1 f2)). rewrite climb_S.
  apply Nat.ltb_ge in Hm. rewrite Hm.
  destruct (mono f1) as [_ M1]. rewrite (M1 _ _ _ _ H1 _ (Nat.le_max_l _ _)).
  destruct (mono f2) as [M2 _]. apply (M2 _ _ _ _ H2 _ (Nat.le_max_r _ _)).
Qed.
Lemma IL_nil : forall p h, IL p h [] (h, []).
Proof. intros. exists 1. reflexivity. Qed.
Lemma IL_stop : forall p h o a r, prec o <= p -> IL p h ((o, a) :: r) (h, (o, a) :: r).
Proof. intros p h o a r H. exists 1. rewrite inner_S. apply Nat.ltb_ge in H. rewrite H. reflexivity. Qed.
Lemma IL_step : forall p h o a r rhs' r' res, p < prec o -> C (prec o) h ((o, a) :: r) (rhs', r') -> IL p rhs' r' res ->
  IL p h ((o, a) :: r) res.
Proof.
  intros p h o a r rhs' r' res Hp [f1 H1] [f2 H2]. exists (S (max f1 f2)). rewrite inner_S.
  apply Nat.ltb_lt in Hp. rewrite Hp.
  destruct (mono f1) as [M1 _]. rewrite (M1 _ _ _ _ H1 _ (Nat.le_max_l _ _)).
  destruct (mono f2) as [_ M2]. apply (M2 _ _ _ _ H2 _ (Nat.le_max_r _ _)).
Qed.

(* inversions *)
Lemma C_inv_step : forall m h o a r res, m <= prec o -> C m h ((o, a) :: r) res ->
  exists rhs r2, IL (prec o) (Leaf a) r (rhs, r2) /\ C m (Bin o h rhs) r2 res.
Proof.
  intros m h o a r res Hm [f H]. destruct f as [|f]; [discriminate|]. rewrite climb_S in H.
  apply Nat.ltb_ge in Hm. rewrite Hm in H.
  destruct (inner f (prec o) (Leaf a) r) as [[rhs r2]|] eqn:E; [|cbv iota in H; discriminate H].
  exists rhs, r2. split; [exists f; exact E|exists f; exact H].
Qed.
Lemma IL_inv_step : forall p h o a r res, p < prec o -> IL p h ((o, a) :: r) res ->
  exists rhs' r', C (prec o) h ((o, a) :: r) (rhs', r') /\ IL p rhs' r' res.
Proof.
  intros p h o a r res Hp [f H]. destruct f as [|f]; [discriminate|]. rewrite inner_S in H.
  apply Nat.ltb_lt in Hp. rewrite Hp in H.
  destruct (climb f (prec o) h ((o, a) :: r)) as [[rhs' r']|] eqn:E; [|cbv iota in H; discriminate H].
  exists rhs', r'. split; [exists f; exact E|exists f; exact H].
Qed.

Notation head_le := (head_le atom op prec).
Notation head_lt := (head_lt atom op prec).

Lemma C_sound : forall m h r t r', C m h r (t, r') -> exists l, r = l ++ r' /\ D m h l t /\ head_lt m r'.
Proof. intros m h r t r' [f H]. destruct (sound atom op prec f) as [Hc _]. apply (Hc _ _ _ _ _ H). Qed.

Lemma C_idle : forall m t r, head_lt m r -> C m t r (t, r).
Proof. intros m t [|[o a] r] H; [apply C_nil|apply C_stop; exact H]. Qed.

(* climbing at level q = climbing at level q+1, then continuing at level q *)
Lemma split_fwd : forall q h r res, C q h r res -> exists t' r', C (S q) h r (t', r') /\ C q t' r' res.
Proof.
  intros q h r res [f H]. revert h r res H. induction f as [|f IH]; intros h r res H; [discriminate|].
  rewrite climb_S in H. destruct r as [|[o a] r1].
  - injection H as <-. exists h, []. split; apply C_nil.
  - destruct (prec o <? q) eqn:E.
    + injection H as <-. apply Nat.ltb_lt in E. exists h, ((o, a) :: r1). split; apply C_stop; lia.
    + apply Nat.ltb_ge in E. destruct (Nat.eq_dec (prec o) q) as [Eq|Ne].
      * exists h, ((o, a) :: r1). split; [apply C_stop; lia|].
        exists (S f). rewrite climb_S. apply Nat.ltb_ge in E. rewrite E. exact H.
      * destruct (inner f (prec o) (Leaf a) r1) as [[rhs r2]|] eqn:Ei; [|discriminate].
        destruct (IH _ _ _ H) as (t' & r' & H1 & H2). exists t', r'. split; [|exact H2].
        eapply C_step; [lia|exists f; exact Ei|exact H1].
Qed.

Lemma split_bwd : forall q h r t' r' res, C (S q) h r (t', r') -> C q t' r' res -> C q h r res.
Proof.
  intros q h r t' r' res [f H]. revert h r H. induction f as [|f IH]; intros h r H H2; [discriminate|].
  rewrite climb_S in H. destruct r as [|[o a] r1].
  - injection H as <- <-. exact H2.
  - destruct (prec o <? S q) eqn:E.
    + injection H as <- <-. exact H2.
    + apply Nat.ltb_ge in E. destruct (inner f (prec o) (Leaf a) r1) as [[rhs r2]|] eqn:Ei; [|discriminate].
      eapply C_step; [lia|exists f; exact Ei|]. apply (IH _ _ H H2).
Qed.

Lemma gsplit_fwd : forall d m h r res, C m h r res -> exists t' r', C (m + d) h r (t', r') /\ C m t' r' res.
Proof.
  induction d as [|d IH]; intros m h r res H.
  - rewrite Nat.add_0_r. destruct res as [t r']. exists t, r'. split; [exact H|].
    destruct (C_sound _ _ _ _ _ H) as (l & _ & _ & Hh). apply C_idle. exact Hh.
  - destruct (split_fwd _ _ _ _ H) as (t1 & r1 & H1 & H2).
    destruct (IH _ _ _ _ H1) as (t2 & r2 & H3 & H4).
    exists t2, r2. split; [replace (m + S d) with (S m + d) by lia; exact H3|].
    eapply split_bwd; eauto.
Qed.

Lemma gsplit_bwd : forall d m h r t' r' res, C (m + d) h r (t', r') -> C m t' r' res -> C m h r res.
Proof.
  induction d as [|d IH]; intros m h r t' r' res H H2.
  - rewrite Nat.add_0_r in H. destruct (C_sound _ _ _ _ _ H) as (l & _ & _ & Hh).
    rewrite (C_det _ _ _ _ _ H2 (C_idle _ _ _ Hh)). exact H.
  - destruct (split_fwd _ _ _ _ H2) as (t1 & r1 & H3 & H4).
    replace (m + S d) with (S m + d) in H by lia.
    pose proof (IH _ _ _ _ _ _ H H3) as H5. eapply split_bwd; eauto.
Qed.

(* the inner loop at level p is climbing at level p+1 *)
Lemma consumed_shorter : forall q h o a r1 t' r', q <= prec o -> C q h ((o, a) :: r1) (t', r') -> length r' <= length r1.
Proof.
  intros q h o a r1 t' r' Hq H. destruct (C_sound _ _ _ _ _ H) as (l & E & _ & Hh).
  destruct l as [|x l].
  - cbn in E. subst r'. cbn in Hh. lia.
  - cbn in E. injection E as _ E. rewrite E, app_length. lia.
Qed.

Lemma inner_of_climb : forall n p rhs r res, length r <= n -> C (S p) rhs r res -> IL p rhs r res.
Proof.
  induction n as [|n IH]; intros p rhs r res Hn H.
  - destruct r; [|cbn in Hn; lia]. rewrite (C_det _ _ _ _ _ H (C_nil _ _)). apply IL_nil.
  - destruct r as [|[o a] r1]; [rewrite (C_det _ _ _ _ _ H (C_nil _ _)); apply IL_nil|].
    destruct (Nat.le_gt_cases (prec o) p) as [Hle|Hgt].
    + assert (Hlt: prec o < S p) by lia. rewrite (C_det _ _ _ _ _ H (C_stop (S p) rhs o a r1 Hlt)). apply IL_stop. exact Hle.
    + assert (E: S p + (prec o - S p) = prec o) by lia.
      destruct (gsplit_fwd (prec o - S p) _ _ _ _ H) as (t' & r' & H1 & H2). rewrite E in H1.
      eapply IL_step; [exact Hgt|exact H1|]. apply (IH p t' r' res); [|exact H2].
      pose proof (consumed_shorter _ _ _ _ _ _ _ (le_n _) H1). cbn in Hn. lia.
Qed.

(* completeness: processing a sequence the grammar derives t for turns the accumulator into t *)
Lemma climb_consumes : forall q h l t, D q h l t -> forall rest res, head_le q rest -> C q t rest res -> C q h (l ++ rest) res.
Proof.
  intros q h l t HD. induction HD as [p h0 | p h0 l t HD IH | p h0 la o a lb ta tb Hp HDa IHa HDb IHb]; intros rest res Hh Hc.
  - exact Hc.
  - assert (Hidle: C (S p) t rest (t, rest)).
    { apply C_idle. destruct rest as [|[o a] r]; [exact I|]. cbn in *. lia. }
    eapply split_bwd; [|exact Hc]. apply IH; [|exact Hidle].
    destruct rest as [|[o a] r]; [exact I|]. cbn in *. lia.
  - rewrite <- app_assoc. cbn [app]. apply IHa.
    + cbn. lia.
    + eapply C_step; [lia| |exact Hc].
      apply (inner_of_climb (length (lb ++ rest))); [lia|]. rewrite Hp. apply IHb.
      * destruct rest as [|[o2 a2] r]; [exact I|]. cbn in *. lia.
      * apply C_idle. destruct rest as [|[o2 a2] r]; [exact I|]. cbn in *. lia.
Qed.

Theorem climb_complete : forall a0 l t, D 0 (Leaf a0) l t -> exists fuel, climb fuel 0 (Leaf a0) l = Some (t, []).
Proof.
  intros a0 l t HD. pose proof (climb_consumes _ _ _ _ HD [] (t, []) I (C_nil _ _)) as H.
  rewrite app_nil_r in H. exact H.
Qed.

(* precedence climbing computes exactly the grammar's tree *)
Theorem climb_iff_grammar : forall a0 l t, (exists fuel, climb fuel 0 (Leaf a0) l = Some (t, [])) <-> D 0 (Leaf a0) l t.
Proof.
  intros a0 l t. split; [intros [f H]; eapply climb_sound; exact H|apply climb_complete].
Qed.
End CC.
