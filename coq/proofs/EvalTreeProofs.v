(* C15 at tree level: evaluating the text that Node.__repr__ produces gives back the same tree
   (same classes, same field values, recursively), with coord = None.  For every well-formed
   tree, every depth, every string content. *)
From Coq Require Import List NArith Bool Arith Lia.
Import ListNotations.
From PV Require Import Regex Base PyRepr PyEval AstDefs AstSpec AstImpl NodeModel PyEvalTree ReprProofs ReprRoundtrip.
Open Scope nat_scope.

(* ---------- strings ---------- *)
Lemma str_eqb_refl : forall a, str_eqb a a = true.
Proof. induction a as [|x a IH]; cbn; [reflexivity|]. rewrite N.eqb_refl, IH. reflexivity. Qed.
Lemma str_eqb_iff : forall a b, str_eqb a b = true -> a = b.
Proof.
  induction a as [|x a IH]; destruct b as [|y b]; cbn; intros H; try discriminate; [reflexivity|].
  apply andb_true_iff in H. destruct H as [H1 H2]. apply N.eqb_eq in H1. subst. f_equal. apply IH. exact H2.
Qed.

Definition all_sp (p: str) : Prop := Forall (fun c => c = 32%N) p.

Lemma replace_nl_app : forall pad a b, replace_nl pad (a ++ b) = replace_nl pad a ++ replace_nl pad b.
Proof.
  intros pad a b. induction a as [|c a IH]; cbn [app replace_nl]; [reflexivity|].
  destruct (N.eqb c 10); rewrite IH; cbn [app]; [rewrite <- app_assoc|]; reflexivity.
Qed.
Lemma replace_nl_id : forall pad s, ~ In 10%N s -> replace_nl pad s = s.
Proof.
  intros pad s. induction s as [|c s IH]; intros H; cbn [replace_nl]; [reflexivity|].
  destruct (N.eqb c 10) eqn:E.
  - apply N.eqb_eq in E. subst. exfalso. apply H. left. reflexivity.
  - rewrite IH; [reflexivity|]. intros Hi. apply H. right. exact Hi.
Qed.
Lemma spaces_no_nl : forall k, ~ In 10%N (spaces k).
Proof. intros k H. unfold spaces in H. apply repeat_spec in H. discriminate. Qed.
Lemma replace_nl_spaces : forall a b s, replace_nl (spaces a) (replace_nl (spaces b) s) = replace_nl (spaces (a + b)) s.
Proof.
  intros a b s. induction s as [|c s IH]; cbn [replace_nl]; [reflexivity|].
  destruct (N.eqb c 10) eqn:E.
  - cbn [replace_nl]. rewrite N.eqb_refl. rewrite replace_nl_app, IH. rewrite (replace_nl_id _ (spaces b)) by apply spaces_no_nl.
    unfold spaces. rewrite repeat_app, <- app_assoc. reflexivity.
  - cbn [replace_nl]. rewrite E, IH. reflexivity.
Qed.
Lemma replace_nl_nil : forall s, replace_nl [] s = s.
Proof. induction s as [|c s IH]; cbn [replace_nl]; [reflexivity|]. rewrite IH. destruct (N.eqb c 10) eqn:E; [apply N.eqb_eq in E; subst|]; reflexivity. Qed.

(* ---------- the tokenizer ---------- *)
Definition Rtoks (s: str) (l: list rtok) : Prop := exists n, rtoks n s = Some l.

Lemma rtoks_mono : forall n s l, rtoks n s = Some l -> forall m, n <= m -> rtoks m s = Some l.
Proof.
  induction n as [|n IH]; intros s l H m Hm; [discriminate|].
  destruct m as [|m]; [lia|]. assert (Hm': n <= m) by lia.
  cbn [rtoks] in *. destruct s as [|c r]; [exact H|].
  repeat match goal with
  | H: (if ?b then _ else _) = Some _ |- (if ?b then _ else _) = Some _ => destruct b
  end;
  try (match type of H with
       | match rtoks n ?x with _ => _ end = _ => destruct (rtoks n x) as [l0|] eqn:E; [|discriminate]; rewrite (IH _ _ E _ Hm'); exact H
       end);
  try (apply IH with (m := m) in H; [exact H|exact Hm']).
  - destruct (unrepr_body (length r) c r) as [[v rest]|]; [|discriminate].
    destruct (rtoks n rest) as [l0|] eqn:E; [|discriminate]. rewrite (IH _ _ E _ Hm'). exact H.
  - destruct (span_name (c :: r)) as [nm rest].
    destruct (rtoks n rest) as [l0|] eqn:E; [|discriminate]. rewrite (IH _ _ E _ Hm'). exact H.
  - discriminate.
Qed.

Lemma Rtoks_nil : Rtoks [] [].
Proof. exists 1. reflexivity. Qed.

Lemma Rtoks_ws : forall c r l, is_ws c = true -> Rtoks r l -> Rtoks (c :: r) l.
Proof. intros c r l Hc [n Hn]. exists (S n). cbn [rtoks]. rewrite Hc. exact Hn. Qed.

Lemma Rtoks_spaces : forall k r l, Rtoks r l -> Rtoks (spaces k ++ r) l.
Proof. induction k as [|k IH]; intros r l H; cbn; [exact H|]. apply Rtoks_ws; [reflexivity|]. apply IH. exact H. Qed.

Definition punct_of (c: N) : option rtok :=
  if N.eqb c 40 then Some TLP else if N.eqb c 41 then Some TRP else if N.eqb c 91 then Some TLB
  else if N.eqb c 93 then Some TRB else if N.eqb c 44 then Some TComma else if N.eqb c 61 then Some TEq else None.

Lemma Rtoks_punct : forall c t r l, punct_of c = Some t -> Rtoks r l -> Rtoks (c :: r) (t :: l).
Proof.
  intros c t r l Hp [n Hn]. exists (S n). cbn [rtoks]. unfold punct_of in Hp.
  destruct (N.eqb c 40) eqn:E40; [apply N.eqb_eq in E40; subst; cbn; rewrite Hn; congruence|].
  destruct (N.eqb c 41) eqn:E41; [apply N.eqb_eq in E41; subst; cbn; rewrite Hn; congruence|].
  destruct (N.eqb c 91) eqn:E91; [apply N.eqb_eq in E91; subst; cbn; rewrite Hn; congruence|].
  destruct (N.eqb c 93) eqn:E93; [apply N.eqb_eq in E93; subst; cbn; rewrite Hn; congruence|].
  destruct (N.eqb c 44) eqn:E44; [apply N.eqb_eq in E44; subst; cbn; rewrite Hn; congruence|].
  destruct (N.eqb c 61) eqn:E61; [apply N.eqb_eq in E61; subst; cbn; rewrite Hn; congruence|].
  discriminate.
Qed.

Lemma Rtoks_str : forall pr s rest l, Forall (fun c => (c < 4294967296)%N) s ->
  Rtoks rest l -> Rtoks (py_repr_with pr s ++ rest) (TStr s :: l).
Proof.
  intros pr s rest l Hs [n Hn]. exists (S n).
  pose proof (unrepr_repr_str pr s rest Hs) as Hu.
  unfold py_repr_with in *. cbn [app] in *. unfold unrepr_str in Hu.
  assert (Hq: repr_quote s = 39%N \/ repr_quote s = 34%N).
  { unfold repr_quote, QUOTE, DQUOTE. destruct (has_chr 39 s && negb (has_chr 34 s)); auto. }
  cbn [rtoks].
  destruct Hq as [Hq|Hq]; rewrite Hq in *; cbn in Hu |- *; rewrite Hu, Hn; reflexivity.
Qed.

Definition valid_name (nm: str) : bool :=
  match nm with c :: _ => is_name_start c && forallb is_name_char nm | [] => false end.
Definition rest_ok (rest: str) : Prop := match rest with [] => True | c :: _ => is_name_char c = false end.

Lemma span_name_app : forall nm rest, forallb is_name_char nm = true -> rest_ok rest -> span_name (nm ++ rest) = (nm, rest).
Proof.
  induction nm as [|c nm IH]; intros rest Hn Hr.
  - cbn [app]. destruct rest as [|d rest]; [reflexivity|]. cbn [span_name]. cbn in Hr. rewrite Hr. reflexivity.
  - cbn [forallb] in Hn. apply andb_true_iff in Hn. destruct Hn as [Hc Hn].
    cbn [app span_name]. rewrite Hc, (IH rest Hn Hr). reflexivity.
Qed.

Lemma name_start_other : forall c, is_name_start c = true ->
  is_ws c = false /\ N.eqb c 40 = false /\ N.eqb c 41 = false /\ N.eqb c 91 = false /\ N.eqb c 93 = false /\
  N.eqb c 44 = false /\ N.eqb c 61 = false /\ N.eqb c 39 = false /\ N.eqb c 34 = false.
Proof.
  intros c H. unfold is_ws.
  repeat match goal with |- context [N.eqb c ?k] =>
    destruct (N.eqb_spec c k) as [->|_]; [vm_compute in H; discriminate|] end.
  repeat split; reflexivity.
Qed.

Lemma Rtoks_name : forall nm rest l, valid_name nm = true -> rest_ok rest -> Rtoks rest l -> Rtoks (nm ++ rest) (TName nm :: l).
Proof.
  intros nm rest l Hv Hr [n Hn]. exists (S n). destruct nm as [|c nm]; [discriminate|].
  unfold valid_name in Hv. apply andb_true_iff in Hv. destruct Hv as [Hc Hall].
  destruct (name_start_other c Hc) as (H1 & H2 & H3 & H4 & H5 & H6 & H7 & H8 & H9).
  pose proof (span_name_app (c :: nm) rest Hall Hr) as Hsp.
  change ((c :: nm) ++ rest) with (c :: (nm ++ rest)) in *. cbn [rtoks].
  rewrite H1, H2, H3, H4, H5, H6, H7, H8, H9. cbn [orb]. rewrite Hc, Hsp, Hn. reflexivity.
Qed.

(* fuel: the length of the text plus one is always enough *)
Lemma decode1_shorter : forall q s o rest, decode1 q s = Some (o, rest) -> length rest < length s.
Proof.
  intros q s o rest H. unfold decode1 in H.
  destruct s as [|c r]; [discriminate|].
  destruct (N.eqb c q); [injection H as _ <-; cbn; lia|].
  destruct (N.eqb c 10); [discriminate|].
  destruct (negb (N.eqb c 92)); [injection H as _ <-; cbn; lia|].
  destruct r as [|e r2]; [discriminate|].
  repeat match type of H with
  | (if ?b then _ else _) = _ => destruct b; [try (injection H as _ <-; cbn; lia)|]
  end; try discriminate.
  - destruct r2 as [|a [|b t]]; try discriminate. destruct (hexnum [a; b] 0); [|discriminate]. injection H as _ <-. cbn. lia.
  - destruct r2 as [|a [|b [|c1 [|d t]]]]; try discriminate. destruct (hexnum _ 0); [|discriminate]. injection H as _ <-. cbn. lia.
  - destruct r2 as [|a [|b [|c1 [|d [|a2 [|b2 [|c2 [|d2 t]]]]]]]]; try discriminate. destruct (hexnum _ 0); [|discriminate]. injection H as _ <-. cbn. lia.
Qed.

Lemma unrepr_body_shorter : forall n q s d t, unrepr_body n q s = Some (d, t) -> length t < length s.
Proof.
  induction n as [|n IH]; intros q s d t H; [discriminate|]. cbn [unrepr_body] in H.
  destruct (decode1 q s) as [[[c|] rest]|] eqn:E; [| |discriminate].
  - destruct (unrepr_body n q rest) as [[d' t']|] eqn:E2; [|discriminate]. injection H as _ <-.
    apply IH in E2. apply decode1_shorter in E. lia.
  - injection H as _ <-. apply decode1_shorter in E. exact E.
Qed.

Lemma span_name_shorter : forall s a b, span_name s = (a, b) -> length b <= length s.
Proof.
  induction s as [|c s IH]; intros a b H; cbn [span_name] in H.
  - injection H as _ <-. cbn. lia.
  - destruct (is_name_char c).
    + destruct (span_name s) as [a' b'] eqn:E. injection H as _ <-. specialize (IH _ _ eq_refl). cbn. lia.
    + injection H as _ <-. lia.
Qed.

Lemma rtoks_enough : forall n s l, rtoks n s = Some l -> rtoks (S (length s)) s = Some l.
Proof.
  induction n as [|n IH]; intros s l H; [discriminate|].
  destruct s as [|c r]; [cbn in *; exact H|].
  cbn [rtoks] in H. cbn [length]. remember (S (length r)) as m. cbn [rtoks].
  assert (K: forall rest l0, rtoks n rest = Some l0 -> length rest <= length r -> rtoks m rest = Some l0).
  { intros rest l0 Hr Hlen. apply IH in Hr. eapply rtoks_mono; [exact Hr|]. lia. }
  repeat match goal with
  | H: (if ?b then _ else _) = Some _ |- (if ?b then _ else _) = Some _ => destruct b eqn:?
  end;
  try (match type of H with
       | match rtoks n ?x with _ => _ end = _ => destruct (rtoks n x) as [l0|] eqn:E; [|discriminate]; rewrite (K _ _ E (le_n _)); exact H
       end).
  - apply K; [exact H|lia].
  - destruct (unrepr_body (length r) c r) as [[v rest]|] eqn:Eu; [|discriminate].
    destruct (rtoks n rest) as [l0|] eqn:E; [|discriminate]. apply unrepr_body_shorter in Eu.
    rewrite (K _ _ E ltac:(lia)). exact H.
  - destruct (span_name (c :: r)) as [nm rest] eqn:Es.
    destruct (rtoks n rest) as [l0|] eqn:E; [|discriminate].
    (* the name is not empty, so the rest is shorter *)
    cbn [span_name] in Es. destruct (is_name_char c) eqn:Ec.
    + destruct (span_name r) as [a b] eqn:Er. injection Es as _ <-. apply span_name_shorter in Er.
      rewrite (K _ _ E Er). exact H.
    + exfalso. match goal with Hs: is_name_start c = true |- _ => unfold is_name_char in Ec; rewrite Hs in Ec; discriminate end.
  - discriminate.
Qed.

(* ---------- facts about the class table (checked by computation on the generated AstImpl.v) ---------- *)
Fixpoint nodupb (l: list str) : bool := match l with [] => true | x :: r => negb (mem_str x r) && nodupb r end.

Definition cls_ok (c: cls) : bool :=
  match impl_of c with
  | None => false
  | Some ci => str_eqb (ci_name ci) (cls_name c) && valid_name (ci_name ci) && forallb valid_name (ci_slots ci)
               && nodupb (ci_slots ci) && (2 <=? length (ci_slots ci))
  end.
Lemma all_cls_ok : forall c, cls_ok c = true.
Proof. destruct c; vm_compute; reflexivity. Qed.
Lemma cls_of_name_ok : forall c, cls_of_name (cls_name c) = Some c.
Proof. destruct c; vm_compute; reflexivity. Qed.

Lemma mem_str_in : forall x l, In x l -> mem_str x l = true.
Proof.
  intros x l H. unfold mem_str. apply existsb_exists. exists x. split; [exact H|apply str_eqb_refl].
Qed.
Lemma nodupb_NoDup : forall l, nodupb l = true -> NoDup l.
Proof.
  induction l as [|x l IH]; intros H; [constructor|]. cbn [nodupb] in H. apply andb_true_iff in H. destruct H as [H1 H2].
  constructor; [|apply IH; exact H2]. intros Hin. apply mem_str_in in Hin. rewrite Hin in H1. discriminate.
Qed.

Record cls_facts (c: cls) (ci: class_impl) : Prop := {
  cf_name : ci_name ci = cls_name c;
  cf_vname : valid_name (ci_name ci) = true;
  cf_vslots : forallb valid_name (ci_slots ci) = true;
  cf_nodup : NoDup (ci_slots ci);
  cf_len : 2 <= length (ci_slots ci) }.

Lemma cls_facts_of : forall c, exists ci, impl_of c = Some ci /\ cls_facts c ci.
Proof.
  intros c. pose proof (all_cls_ok c) as H. unfold cls_ok in H.
  destruct (impl_of c) as [ci|]; [|discriminate]. exists ci. split; [reflexivity|].
  repeat (apply andb_true_iff in H; destruct H as [H ?]).
  constructor; [apply str_eqb_iff; assumption|assumption|assumption|apply nodupb_NoDup; assumption|apply Nat.leb_le; assumption].
Qed.

Lemma valid_name_chars : forall nm, valid_name nm = true -> forallb is_name_char nm = true.
Proof. intros [|c nm] H; [discriminate|]. unfold valid_name in H. apply andb_true_iff in H. apply H. Qed.
Lemma name_no_nl : forall nm, forallb is_name_char nm = true -> ~ In 10%N nm.
Proof. intros nm H Hin. rewrite forallb_forall in H. apply H in Hin. vm_compute in Hin. discriminate. Qed.

Lemma index_of_app : forall x pre r, ~ In x pre -> index_of x (pre ++ x :: r) = Some (length pre).
Proof.
  intros x pre r. induction pre as [|y pre IH]; intros H; cbn [app index_of length].
  - rewrite str_eqb_refl. reflexivity.
  - destruct (str_eqb x y) eqn:E; [apply str_eqb_iff in E; subst; exfalso; apply H; left; reflexivity|].
    rewrite IH; [reflexivity|]. intros Hi. apply H. right. exact Hi.
Qed.

(* ---------- trees ---------- *)
Section TP.
Variable P : Type.
Variable pr : N -> bool.

Fixpoint strip (v: value P) : value P :=
  match v with
  | VNone => VNone
  | VStr s => VStr s
  | VList l => VList (map strip l)
  | VNode c fs _ => VNode c (map strip fs) None
  end.

Definition nfields (ci: class_impl) : list str := firstn (length (ci_slots ci) - 2) (ci_slots ci).

(* well-formed trees of depth at most f: string characters are code points; a node has one value per field *)
Fixpoint wf (f: nat) (v: value P) : Prop :=
  match f with
  | O => False
  | S f' =>
    match v with
    | VNone => True
    | VStr s => Forall (fun c => (c < 4294967296)%N) s
    | VList l => Forall (wf f') l
    | VNode c fs _ => Forall (wf f') fs /\
                      match impl_of c with Some ci => length fs + 2 = length (ci_slots ci) | None => False end
    end
  end.

Fixpoint sep_toks (l: list (list rtok)) : list rtok :=
  match l with [] => [] | [x] => x | x :: r => x ++ TComma :: sep_toks r end.
Fixpoint ftoks (first: bool) (l: list (list rtok)) : list rtok :=
  match l with [] => [] | x :: r => (if first then [] else [TComma]) ++ x ++ ftoks false r end.
Lemma sep_ftoks : forall l, sep_toks l = ftoks true l.
Proof.
  assert (A: forall r x, sep_toks (x :: r) = x ++ ftoks false r).
  { induction r as [|y r IH]; intros x; [cbn; rewrite app_nil_r; reflexivity|].
    change (sep_toks (x :: y :: r)) with (x ++ TComma :: sep_toks (y :: r)). rewrite IH. reflexivity. }
  intros [|x r]; [reflexivity|]. rewrite A. reflexivity.
Qed.

Fixpoint toks (f: nat) (v: value P) : list rtok :=
  match f with
  | O => []
  | S f' =>
    match v with
    | VNone => [TName s_None_tok]
    | VStr s => [TStr s]
    | VList l => TLB :: sep_toks (map (toks f') l) ++ [TRB]
    | VNode c fs _ =>
      match impl_of c with
      | None => []
      | Some ci => TName (ci_name ci) :: TLP ::
                   sep_toks (map (fun nv => TName (fst nv) :: TEq :: toks f' (snd nv)) (combine (nfields ci) fs)) ++ [TRP]
      end
    end
  end.

(* the field printer of Node.__repr__, named *)
Definition fld (f: nat) (ci: class_impl) (fs: list (value P)) (name: str) : str :=
  match get_field P ci fs name with
  | Some fv => name ++ [61%N] ++ replace_nl (32%N :: 32%N :: spaces (length name + length (ci_name ci))) (repr_value P pr f fv)
  | None => []
  end.
Definition go_fields (f: nat) (ci: class_impl) (fs: list (value P)) : bool -> list str -> str :=
  fix go (first: bool) (ns: list str) : str :=
  match ns with
  | [] => []
  | n :: ns' => (if first then [] else [44%N] ++ (10%N :: 32%N :: spaces (length (ci_name ci)))) ++ fld f ci fs n ++ go false ns'
  end.
Lemma go_fields_cons : forall f ci fs first n ns',
  go_fields f ci fs first (n :: ns') =
  (if first then [] else [44%N] ++ (10%N :: 32%N :: spaces (length (ci_name ci)))) ++ fld f ci fs n ++ go_fields f ci fs false ns'.
Proof. reflexivity. Qed.
Lemma repr_node_eq : forall f c fs co ci, impl_of c = Some ci ->
  repr_value P pr (S f) (VNode c fs co) =
  ci_name ci ++ [40%N] ++ go_fields f ci fs true (nfields ci) ++
  (match nfields ci with [] => [] | _ => 10%N :: 32%N :: spaces (length (ci_name ci)) end) ++ [41%N].
Proof. intros f c fs co ci H. cbn [repr_value]. rewrite H. reflexivity. Qed.

Lemma RN_indent : forall k m, replace_nl (spaces k) (10%N :: 32%N :: spaces m) = 10%N :: spaces k ++ 32%N :: spaces m.
Proof.
  intros k m. cbn [replace_nl]. rewrite N.eqb_refl. f_equal. f_equal.
  apply (replace_nl_id (spaces k) (spaces (S m))). apply spaces_no_nl.
Qed.

Definition fieldtok (f: nat) (nv: str * value P) : list rtok := TName (fst nv) :: TEq :: toks f (snd nv).

Lemma rest_ok_cons : forall c r, is_name_char c = false -> rest_ok (c :: r).
Proof. intros c r H. exact H. Qed.

(* main tokenization lemma: the text of a tree, re-indented by any amount and followed by any
   text that does not start with a name character, tokenizes to the tree's tokens *)
Definition tok_stmt (f: nat) (v: value P) : Prop :=
  forall k rest l, rest_ok rest -> Rtoks rest l ->
  Rtoks (replace_nl (spaces k) (repr_value P pr f v) ++ rest) (toks f v ++ l).

Lemma tok_list : forall f l, Forall (tok_stmt f) l -> forall k tl tt, rest_ok tl -> Rtoks tl tt ->
  Rtoks (replace_nl (spaces k) (join_str [44; 10; 32]%N (map (fun e => replace_nl [32%N] (repr_value P pr f e)) l)) ++ tl)
        (sep_toks (map (toks f) l) ++ tt).
Proof.
  intros f l H. induction H as [|x l Hx Hl IH]; intros k tl tt Hok Htl; [exact Htl|].
  assert (E1: forall e, replace_nl (spaces k) (replace_nl [32%N] (repr_value P pr f e)) = replace_nl (spaces (k + 1)) (repr_value P pr f e)).
  { intros e. apply (replace_nl_spaces k 1). }
  destruct l as [|y l'].
  - cbn [map join_str sep_toks]. rewrite E1. apply Hx; assumption.
  - change (join_str [44; 10; 32]%N (map (fun e => replace_nl [32%N] (repr_value P pr f e)) (x :: y :: l')))
      with (replace_nl [32%N] (repr_value P pr f x) ++ [44; 10; 32]%N ++
            join_str [44; 10; 32]%N (map (fun e => replace_nl [32%N] (repr_value P pr f e)) (y :: l'))).
    change (sep_toks (map (toks f) (x :: y :: l'))) with (toks f x ++ TComma :: sep_toks (map (toks f) (y :: l'))).
    rewrite !replace_nl_app, E1, <- !app_assoc.
    apply Hx.
    + reflexivity.
    + cbn [replace_nl]. cbn [N.eqb Pos.eqb]. cbn [app].
      apply Rtoks_punct with (t := TComma); [reflexivity|].
      apply Rtoks_ws; [reflexivity|]. rewrite <- app_assoc. apply Rtoks_spaces. cbn [app].
      apply Rtoks_ws; [reflexivity|]. apply IH; assumption.
Qed.

Lemma RN_sep : forall k m, replace_nl (spaces k) ([44%N] ++ 10%N :: 32%N :: spaces m) = 44%N :: 10%N :: spaces k ++ 32%N :: spaces m.
Proof. intros k m. change ([44%N] ++ 10%N :: 32%N :: spaces m) with (44%N :: 10%N :: 32%N :: spaces m). cbn [replace_nl]. cbn [N.eqb Pos.eqb]. f_equal. apply RN_indent. Qed.

Lemma rest_ok_go : forall f ci fs k ns tl, rest_ok tl -> rest_ok (replace_nl (spaces k) (go_fields f ci fs false ns) ++ tl).
Proof.
  intros f ci fs k [|n ns] tl H; [exact H|]. rewrite go_fields_cons. cbn [app replace_nl]. cbn [N.eqb Pos.eqb]. reflexivity.
Qed.

Lemma tok_fields : forall f ci fs, NoDup (ci_slots ci) -> forallb valid_name (ci_slots ci) = true ->
  forall ns pre fpre fss tail2 first k tl tt,
    ci_slots ci = pre ++ ns ++ tail2 -> fs = fpre ++ fss -> length pre = length fpre -> length ns = length fss ->
    Forall (tok_stmt f) fss -> rest_ok tl -> Rtoks tl tt ->
    Rtoks (replace_nl (spaces k) (go_fields f ci fs first ns) ++ tl)
          (ftoks first (map (fieldtok f) (combine ns fss)) ++ tt).
Proof.
  intros f ci fs Hnd Hval. induction ns as [|n ns' IH]; intros pre fpre fss tail2 first k tl tt Hs Hf Hl1 Hl2 Hall Hok Htl.
  - exact Htl.
  - destruct fss as [|v fss']; [discriminate|]. cbn [length] in Hl2. injection Hl2 as Hl2.
    inversion Hall as [|? ? Hv Hall']; subst.
    assert (Hn: valid_name n = true).
    { rewrite forallb_forall in Hval. apply Hval. rewrite Hs. apply in_or_app. right. left. reflexivity. }
    assert (Hg: get_field P ci (fpre ++ v :: fss') n = Some v).
    { unfold get_field. rewrite Hs. cbn [app]. rewrite index_of_app.
      - rewrite Hl1. rewrite nth_error_app2 by lia. rewrite Nat.sub_diag. reflexivity.
      - rewrite Hs in Hnd. cbn [app] in Hnd. apply NoDup_remove_2 in Hnd. intros Hi. apply Hnd. apply in_or_app. left. exact Hi. }
    rewrite go_fields_cons. unfold fld. rewrite Hg.
    cbn [combine map ftoks]. unfold fieldtok at 1. cbn [fst snd].
    rewrite !replace_nl_app, <- !app_assoc.
    assert (Main: Rtoks (replace_nl (spaces k) n ++ replace_nl (spaces k) [61%N] ++
                         replace_nl (spaces k) (replace_nl (32%N :: 32%N :: spaces (length n + length (ci_name ci))) (repr_value P pr f v)) ++
                         replace_nl (spaces k) (go_fields f ci (fpre ++ v :: fss') false ns') ++ tl)
                        ((TName n :: TEq :: toks f v) ++ ftoks false (map (fieldtok f) (combine ns' fss')) ++ tt)).
    { rewrite (replace_nl_id _ n) by (apply name_no_nl, valid_name_chars, Hn).
      cbn [replace_nl]. cbn [N.eqb Pos.eqb]. cbn [app].
      apply Rtoks_name; [exact Hn|reflexivity|].
      apply Rtoks_punct with (t := TEq); [reflexivity|].
      change (32%N :: 32%N :: spaces (length n + length (ci_name ci))) with (spaces (2 + (length n + length (ci_name ci)))).
      rewrite replace_nl_spaces. apply Hv.
      - apply rest_ok_go. exact Hok.
      - apply (IH (pre ++ [n]) (fpre ++ [v]) fss' tail2 false k tl tt).
        + rewrite Hs, <- app_assoc. reflexivity.
        + rewrite <- app_assoc. reflexivity.
        + rewrite !app_length. cbn. lia.
        + exact Hl2.
        + exact Hall'.
        + exact Hok.
        + exact Htl. }
    destruct first.
    + cbn [app replace_nl]. exact Main.
    + rewrite RN_sep. cbn [app].
      apply Rtoks_punct with (t := TComma); [reflexivity|].
      apply Rtoks_ws; [reflexivity|]. rewrite <- app_assoc. apply Rtoks_spaces.
      cbn [app]. apply Rtoks_ws; [reflexivity|]. apply Rtoks_spaces. exact Main.
Qed.

Theorem tok_all : forall f v, wf f v -> tok_stmt f v.
Proof.
  induction f as [|f IH]; intros v Hw; [destruct Hw|].
  destruct v as [|s|l|c fs co]; cbn [wf] in Hw; intros k rest tl Hok Hr.
  - (* None *)
    cbn [repr_value toks]. rewrite replace_nl_id by (apply name_no_nl; reflexivity).
    apply (Rtoks_name s_None_tok); [reflexivity|exact Hok|exact Hr].
  - (* a string *)
    cbn [repr_value toks]. rewrite replace_nl_id by apply repr_str_no_newline.
    apply Rtoks_str; assumption.
  - (* a list *)
    cbn [repr_value toks]. rewrite !replace_nl_app, <- !app_assoc.
    change (replace_nl (spaces k) [91%N]) with [91%N]. cbn [app]. rewrite <- ?app_assoc. cbn [app].
    apply Rtoks_punct with (t := TLB); [reflexivity|].
    apply tok_list.
    + eapply Forall_impl; [|exact Hw]. intros a Ha. apply IH. exact Ha.
    + reflexivity.
    + cbn [replace_nl]. cbn [N.eqb Pos.eqb]. cbn [app].
      apply Rtoks_ws; [reflexivity|]. rewrite <- app_assoc. apply Rtoks_spaces. cbn [app].
      apply Rtoks_punct with (t := TRB); [reflexivity|]. exact Hr.
  - (* a node *)
    destruct Hw as [Hfs Hlen].
    destruct (cls_facts_of c) as [ci [Hci F]]. rewrite Hci in Hlen.
    rewrite (repr_node_eq f c fs co ci Hci). cbn [toks]. rewrite Hci.
    rewrite !replace_nl_app, <- !app_assoc.
    rewrite (replace_nl_id _ (ci_name ci)) by (apply name_no_nl, valid_name_chars, (cf_vname _ _ F)).
    change (replace_nl (spaces k) [40%N]) with [40%N]. change (replace_nl (spaces k) [41%N]) with [41%N]. cbn [app]. rewrite <- ?app_assoc. cbn [app].
    apply Rtoks_name; [exact (cf_vname _ _ F)|reflexivity|].
    apply Rtoks_punct with (t := TLP); [reflexivity|].
    rewrite sep_ftoks.
    assert (Hnl: length (nfields ci) = length fs).
    { unfold nfields. rewrite firstn_length. pose proof (cf_len _ _ F). lia. }
    apply (tok_fields f ci fs (cf_nodup _ _ F) (cf_vslots _ _ F) (nfields ci) [] [] fs (skipn (length (ci_slots ci) - 2) (ci_slots ci)) true k).
    + cbn [app]. unfold nfields. rewrite firstn_skipn. reflexivity.
    + reflexivity.
    + reflexivity.
    + exact Hnl.
    + eapply Forall_impl; [|exact Hfs]. intros a Ha. apply IH. exact Ha.
    + destruct (nfields ci); [reflexivity|]. rewrite RN_indent. reflexivity.
    + destruct (nfields ci).
      * cbn [replace_nl app]. apply Rtoks_punct with (t := TRP); [reflexivity|]. exact Hr.
      * rewrite RN_indent. cbn [app]. apply Rtoks_ws; [reflexivity|]. rewrite <- app_assoc. apply Rtoks_spaces.
        cbn [app]. apply Rtoks_ws; [reflexivity|]. apply Rtoks_spaces.
        apply Rtoks_punct with (t := TRP); [reflexivity|]. exact Hr.
Qed.

(* ---------- the parser on the token list ---------- *)
Definition rest_tok_ok (rest: list rtok) : Prop := match rest with TLP :: _ => False | _ => True end.
Definition head_ok (ts: list rtok) : Prop :=
  match ts with TName _ :: _ => True | TStr _ :: _ => True | TLB :: _ => True | _ => False end.

Lemma toks_head : forall f v, wf f v -> head_ok (toks f v).
Proof.
  intros [|f] v H; [destruct H|]. destruct v as [|s|l|c fs co]; cbn [toks]; try exact I.
  cbn [wf] in H. destruct H as [_ H]. destruct (impl_of c); [exact I|destruct H].
Qed.

Definition pv_stmt (f: nat) (v: value P) : Prop :=
  forall fuel rest, f <= fuel -> rest_tok_ok rest -> pval P fuel (toks f v ++ rest) = Some (strip v, rest).

Lemma pitems_ok : forall pv f x l rest n,
  Forall (fun v => forall rest', rest_tok_ok rest' -> pv (toks f v ++ rest') = Some (strip v, rest')) (x :: l) ->
  length (x :: l) <= n ->
  pitems P pv n (sep_toks (map (toks f) (x :: l)) ++ TRB :: rest) = Some (map strip (x :: l), rest).
Proof.
  intros pv f x l. revert x. induction l as [|y l IH]; intros x rest n Hall Hn.
  - destruct n as [|n]; [cbn in Hn; lia|]. inversion Hall as [|? ? Hx _]; subst.
    cbn [map sep_toks pitems]. rewrite Hx by exact I. reflexivity.
  - destruct n as [|n]; [cbn in Hn; lia|]. inversion Hall as [|? ? Hx Hall']; subst.
    change (sep_toks (map (toks f) (x :: y :: l))) with (toks f x ++ TComma :: sep_toks (map (toks f) (y :: l))).
    rewrite <- app_assoc. cbn [pitems]. rewrite Hx by exact I. cbn [app].
    rewrite (IH y rest n Hall') by (cbn [length] in *; lia). reflexivity.
Qed.

Lemma pargs_ok : forall pv f ns fss first rest,
  Forall (fun v => forall rest', rest_tok_ok rest' -> pv (toks f v ++ rest') = Some (strip v, rest')) fss ->
  length ns = length fss ->
  pargs P pv ns first (ftoks first (map (fieldtok f) (combine ns fss)) ++ TRP :: rest) = Some (map strip fss, rest).
Proof.
  intros pv f. induction ns as [|n ns IH]; intros fss first rest Hall Hl.
  - destruct fss; [|discriminate]. reflexivity.
  - destruct fss as [|v fss]; [discriminate|]. injection Hl as Hl. inversion Hall as [|? ? Hv Hall']; subst.
    cbn [combine map ftoks]. unfold fieldtok at 1. cbn [fst snd]. rewrite <- !app_assoc.
    assert (Hr: rest_tok_ok (ftoks false (map (fieldtok f) (combine ns fss)) ++ TRP :: rest)).
    { destruct (map (fieldtok f) (combine ns fss)); cbn; exact I. }
    cbn [pargs]. destruct first; cbn [app]; rewrite str_eqb_refl, (Hv _ Hr), (IH fss false rest Hall' Hl); reflexivity.
Qed.

Lemma pval_list_ne : forall fuel t r, t <> TRB ->
  pval P (S fuel) (TLB :: t :: r) = wrap_list P (pitems P (pval P fuel) (length (t :: r)) (t :: r)).
Proof. intros fuel t r H. destruct t; try reflexivity. congruence. Qed.

Lemma sep_toks_len : forall f l, Forall (wf f) l -> length l <= length (sep_toks (map (toks f) l)).
Proof.
  intros f l H. rewrite sep_ftoks. generalize true. induction H as [|x l Hx Hl IH]; intros b; [cbn; lia|].
  cbn [map ftoks length]. rewrite !app_length. specialize (IH false).
  pose proof (toks_head f x Hx) as Hh. destruct (toks f x); [destruct Hh|]. cbn [length]. lia.
Qed.

Theorem pv_all : forall f v, wf f v -> pv_stmt f v.
Proof.
  induction f as [|f IH]; intros v Hw; [destruct Hw|].
  intros fuel rest Hfuel Hrest. destruct fuel as [|fuel]; [lia|]. assert (Hf: f <= fuel) by lia.
  destruct v as [|s|l|c fs co]; cbn [wf] in Hw.
  - cbn [toks app strip]. destruct rest as [|[] r]; cbn in Hrest |- *; try reflexivity. destruct Hrest.
  - reflexivity.
  - cbn [toks strip]. destruct l as [|x l'].
    + reflexivity.
    + cbn [app]. rewrite <- app_assoc. cbn [app].
      assert (Hall: Forall (fun v => forall rest', rest_tok_ok rest' -> pval P fuel (toks f v ++ rest') = Some (strip v, rest')) (x :: l')).
      { eapply Forall_impl; [|exact Hw]. intros a Ha rest' Hr'. apply (IH a Ha fuel rest' Hf Hr'). }
      pose proof (pitems_ok (pval P fuel) f x l' rest) as Hp.
      pose proof (sep_toks_len f (x :: l') Hw) as Hlen.
      remember (sep_toks (map (toks f) (x :: l'))) as st eqn:Est.
      assert (Hh: head_ok st).
      { subst st. inversion Hw as [|? ? Hx _]; subst. pose proof (toks_head f x Hx) as Hh.
        destruct l'; cbn [map sep_toks]; destruct (toks f x) as [|t r0]; try destruct Hh; destruct t; try destruct Hh; exact I. }
      destruct st as [|t r0]; [destruct Hh|]. cbn [app].
      rewrite pval_list_ne by (intros ->; destruct Hh).
      change (t :: r0 ++ TRB :: rest) with ((t :: r0) ++ TRB :: rest).
      rewrite Hp; [reflexivity|exact Hall|]. rewrite app_length. lia.
  - destruct Hw as [Hfs Hlen]. destruct (cls_facts_of c) as [ci [Hci F]]. rewrite Hci in Hlen.
    cbn [toks strip]. rewrite Hci. cbn [app]. rewrite <- app_assoc. cbn [app pval].
    rewrite (cf_name _ _ F), cls_of_name_ok. unfold repr_fields. rewrite Hci.
    change (firstn (length (ci_slots ci) - 2) (ci_slots ci)) with (nfields ci).
    rewrite sep_ftoks.
    pose proof (pargs_ok (pval P fuel) f (nfields ci) fs true rest) as Hp. unfold fieldtok in Hp.
    rewrite Hp.
    + reflexivity.
    + eapply Forall_impl; [|exact Hfs]. intros a Ha rest' Hr'. apply (IH a Ha fuel rest' Hf Hr').
    + unfold nfields. rewrite firstn_length. pose proof (cf_len _ _ F). lia.
Qed.

(* eval(repr(t)) == t (with coord None), for every well-formed tree of any depth *)
Theorem eval_repr_tree : forall f v fuel, wf f v -> f <= fuel ->
  pyeval P fuel (repr_value P pr f v) = Some (strip v).
Proof.
  intros f v fuel Hw Hf. unfold pyeval.
  pose proof (tok_all f v Hw 0 [] [] I Rtoks_nil) as [n Hn].
  change (spaces 0) with (@nil N) in Hn. rewrite replace_nl_nil, !app_nil_r in Hn.
  rewrite (rtoks_enough _ _ _ Hn).
  pose proof (pv_all f v Hw fuel [] Hf I) as Hp. rewrite app_nil_r in Hp. rewrite Hp. reflexivity.
Qed.
End TP.
