(* C09: progress, termination, losslessness of the lexer model. *)
From Coq Require Import List NArith Bool Arith Lia.
Import ListNotations.
From PV Require Import Regex Base UnicodeTables LexTables PyRepr Lexer RegexLemmas.
Open Scope N_scope.

(* ---- table facts (recomputed from the regenerated tables on every build) ---- *)
Lemma rules_not_nullable : forallb (fun r => negb (nullable (rre r))) regex_rules = true.
Proof. vm_compute. reflexivity. Qed.

Lemma rules_stars_ok : forallb (fun r => stars_ok (rre r)) regex_rules = true.
Proof. vm_compute. reflexivity. Qed.

Lemma fixed_nonempty :
  forallb (fun b => forallb (fun e => negb (Nat.eqb (length (snd e)) 0)) (snd b)) fixed_by_first = true.
Proof. vm_compute. reflexivity. Qed.

(* ---- generic list facts ---- *)
Definition suffix_of (a b: str) : Prop := exists p, b = p ++ a.

Lemma suffix_refl a : suffix_of a a.
Proof. exists []. reflexivity. Qed.
Lemma suffix_trans a b c : suffix_of a b -> suffix_of b c -> suffix_of a c.
Proof. intros [p ->] [q ->]. exists (q ++ p). now rewrite app_assoc. Qed.
Lemma suffix_cons x a : suffix_of a (x :: a).
Proof. exists [x]. reflexivity. Qed.
Lemma suffix_skipn n (a: str) : suffix_of (skipn n a) a.
Proof. exists (firstn n a). symmetry. apply firstn_skipn. Qed.
Lemma suffix_len a b : suffix_of a b -> (length a <= length b)%nat.
Proof. intros [p ->]. rewrite app_length. lia. Qed.

Lemma starts_with_app : forall p s, starts_with p s = true -> exists s', s = p ++ s'.
Proof.
  induction p as [|x p IH]; intros s H.
  - exists s. reflexivity.
  - destruct s as [|y s]; [discriminate|]. cbn in H. apply andb_true_iff in H. destruct H as [Hxy Hp].
    apply N.eqb_eq in Hxy. subst. destruct (IH _ Hp) as [s' ->]. exists s'. reflexivity.
Qed.

Lemma skip_ws_suffix : forall l off off' l', skip_ws off l = (off', l') -> suffix_of l' l.
Proof.
  induction l as [|c l IH]; intros off off' l' H; cbn in H.
  - inversion H. apply suffix_refl.
  - destruct (is_blank c).
    + eapply suffix_trans; [eapply IH; eauto|apply suffix_cons].
    + inversion H. apply suffix_refl.
Qed.

Lemma split_line_app : forall s a b, split_line s = (a, b) -> s = a ++ b.
Proof.
  induction s as [|c s IH]; intros a b H; cbn in H.
  - inversion H. reflexivity.
  - destruct (N.eqb c 10).
    + inversion H. reflexivity.
    + destruct (split_line s) as [a0 b0]. inversion H; subst. cbn. f_equal. apply IH. reflexivity.
Qed.

(* ---- master regex ---- *)
Lemma first_rule_sound : forall rules n0 s r len,
  forallb (fun r => negb (nullable (rre r))) rules = true ->
  first_rule rules n0 s = Some (r, len) ->
  In r rules /\ exists p s', s = p ++ s' /\ len = length p /\ p <> [].
Proof.
  induction rules as [|r0 rs IH]; intros n0 s r len Hn H; cbn [first_rule] in H; [discriminate|].
  cbn [forallb] in Hn. apply andb_true_iff in Hn. destruct Hn as [Hr Hrs].
  destruct (match_re n0 (rre r0) s) as [[l s1]|] eqn:Hm.
  - inversion H; subst. split; [left; reflexivity|].
    apply match_re_sound in Hm. destruct Hm as (p & -> & -> & Hne).
    exists p, s1. repeat split; auto. apply Hne. now apply negb_true_iff in Hr.
  - destruct (IH _ _ _ _ Hrs H) as [Hin Hrest]. split; [right; exact Hin|exact Hrest].
Qed.

Lemma bucket_scan_sound : forall b s k lit, bucket_scan b s = Some (k, lit) ->
  In (k, lit) b /\ starts_with lit s = true.
Proof.
  induction b as [|[k0 l0] b IH]; intros s k lit H; cbn in H; [discriminate|].
  destruct (starts_with l0 s) eqn:Hs.
  - inversion H; subst. split; [left; reflexivity|exact Hs].
  - destruct (IH _ _ _ H). split; [right; assumption|assumption].
Qed.

Lemma bucket_of_in : forall c bs b, bucket_of c bs = Some b -> In (c, b) bs.
Proof.
  induction bs as [|[c' b'] bs IH]; intros b H; cbn in H; [discriminate|].
  destruct (N.eqb c c') eqn:E.
  - apply N.eqb_eq in E. inversion H; subst. left; reflexivity.
  - right. apply IH. exact H.
Qed.

Lemma fixed_match_sound : forall s k lit, fixed_match s = Some (k, lit) ->
  lit <> [] /\ exists s', s = lit ++ s'.
Proof.
  intros s k lit H. unfold fixed_match in H. destruct s as [|c s]; [discriminate|].
  destruct (bucket_of c fixed_by_first) as [b|] eqn:Hb; [|discriminate].
  apply bucket_scan_sound in H. destruct H as [Hin Hsw].
  apply bucket_of_in in Hb.
  pose proof fixed_nonempty as Hne. rewrite forallb_forall in Hne.
  specialize (Hne _ Hb). cbn in Hne. rewrite forallb_forall in Hne. specialize (Hne _ Hin). cbn in Hne.
  split.
  - destruct lit; [discriminate|discriminate].
  - apply starts_with_app. exact Hsw.
Qed.

(* what one successful choice consumed *)
Lemma choose_best_sound : forall n0 s b, choose_best n0 s = Some b ->
  exists p s', s = p ++ s' /\ p <> [] /\
    match b with BRegex _ len => len = length p | BFixed _ len => len = length p end.
Proof.
  intros n0 s b H. unfold choose_best in H.
  destruct (fixed_match s) as [[k lit]|] eqn:Hf.
  - apply fixed_match_sound in Hf. destruct Hf as [Hne [s' Hs]].
    destruct (first_rule regex_rules n0 s) as [[r len]|] eqn:Hr.
    + destruct (Nat.ltb len (length lit)).
      * inversion H; subst. exists lit, s'. repeat split; auto.
      * inversion H; subst b. apply first_rule_sound in Hr; [|apply rules_not_nullable].
        destruct Hr as [_ (p & s1 & -> & -> & Hp)]. exists p, s1. repeat split; auto.
    + inversion H; subst. exists lit, s'. repeat split; auto.
  - destruct (first_rule regex_rules n0 s) as [[r len]|] eqn:Hr; [|discriminate].
    inversion H; subst b. apply first_rule_sound in Hr; [|apply rules_not_nullable].
    destruct Hr as [_ (p & s1 & -> & -> & Hp)]. exists p, s1. repeat split; auto.
Qed.

Lemma firstn_len_app {A} (p s: list A) : firstn (length p) (p ++ s) = p.
Proof. rewrite firstn_app, Nat.sub_diag, firstn_all. cbn. apply app_nil_r. Qed.
Lemma skipn_len_app {A} (p s: list A) : skipn (length p) (p ++ s) = s.
Proof. rewrite skipn_app, Nat.sub_diag, skipn_all. reflexivity. Qed.

(* "consumed p": the iteration removed the non-empty prefix p from the input *)
Definition consumed (rest rest': str) : Prop := exists p, p <> [] /\ rest = p ++ rest'.

(* A token produced by _match_token carries exactly the characters it consumed. *)
Definition tok_value_is (items: list raw_item) (p: str) : Prop :=
  forall k v line col f, In (RTok k v line col f) items -> v = p.

Lemma match_token_progress : forall n0 st rest items st' rest',
  rest <> [] -> match_token n0 st rest = (items, st', rest') -> has_crash items = false ->
  exists p, p <> [] /\ rest = p ++ rest' /\ tok_value_is items p /\ l_pos st' = l_pos st + lenN p.
Proof.
  intros n0 st rest items st' rest' Hne H Hc. unfold match_token in H.
  destruct (choose_best n0 rest) as [b|] eqn:Hb.
  - apply choose_best_sound in Hb. destruct Hb as (p & s' & -> & Hp & Hlen).
    destruct b as [r len|k len]; subst len.
    + rewrite firstn_len_app, skipn_len_app in H.
      destruct (ract r) as [k| |msg].
      * inversion H; subst. exists p. repeat split; auto.
        intros k0 v l c f [Hin|[]]. unfold mk_tok in Hin. inversion Hin; reflexivity.
      * inversion H; subst. exists p. repeat split; auto.
        intros k0 v l c f [Hin|[]]. unfold mk_tok in Hin. inversion Hin; reflexivity.
      * assert (Hmax: Nat.max 1 (length p) = length p).
        { destruct p; [congruence|cbn [length]; lia]. }
        rewrite Hmax in H. rewrite skipn_len_app in H.
        destruct (if str_eqb (rname r) name_BAD_CHAR_CONST then Some (msg_bad_char_const p) else msg).
        -- inversion H; subst. exists p. repeat split; auto.
           intros k0 v l c f [Hin|[]]. unfold mk_err in Hin. discriminate.
        -- inversion H; subst. cbn in Hc. discriminate.
    + rewrite firstn_len_app, skipn_len_app in H. inversion H; subst. exists p. repeat split; auto.
      intros k0 v l c f [Hin|[]]. unfold mk_tok in Hin. inversion Hin; reflexivity.
  - destruct rest as [|c rest0]; [congruence|]. inversion H; subst.
    exists [c]. repeat split; auto; try discriminate.
    intros k0 v l c0 f [Hin|[]]. unfold mk_err in Hin. discriminate.
Qed.

Lemma handle_ppline_suffix : forall st rest items st' rest',
  handle_ppline st rest = (items, st', rest') -> suffix_of rest' rest.
Proof.
  intros st rest items st' rest' H. unfold handle_ppline in H.
  destruct (split_line rest) as [line after] eqn:Hs. apply split_line_app in Hs.
  assert (Hafter: suffix_of (match after with _ :: a => a | [] => [] end) rest).
  { subst rest. destruct after as [|c a].
    - exists line. now rewrite app_nil_r.
    - exists (line ++ [c]). now rewrite <- app_assoc. }
  destruct (ppline_scan line) as [[pl|] pf|msg off].
  - destruct (forallb is_ascii_digit pl); inversion H; subst; auto using suffix_refl.
  - inversion H; subst; auto.
  - inversion H; subst; auto.
Qed.

Lemma handle_pppragma_suffix : forall st rest items st' rest',
  handle_pppragma st rest = (items, st', rest') -> suffix_of rest' rest.
Proof.
  intros st rest items st' rest' H. unfold handle_pppragma in H.
  destruct (skip_ws (l_pos st) rest) as [p1 r1] eqn:Hw. apply skip_ws_suffix in Hw.
  destruct r1 as [|c r1tl].
  - inversion H; subst. exact Hw.
  - destruct (negb (starts_with s_pragma (c :: r1tl))).
    + inversion H; subst. eapply suffix_trans; [apply suffix_cons|exact Hw].
    + destruct (skip_ws (p1 + 6) (skipn 6 (c :: r1tl))) as [start r2] eqn:Hw2.
      apply skip_ws_suffix in Hw2.
      destruct (split_line r2) as [body after] eqn:Hs. apply split_line_app in Hs.
      assert (Hr2: suffix_of r2 rest).
      { eapply suffix_trans; [exact Hw2|]. eapply suffix_trans; [apply suffix_skipn|exact Hw]. }
      destruct after as [|c2 a].
      * inversion H; subst. eapply suffix_trans; [|exact Hr2]. exists body. reflexivity.
      * inversion H; subst. eapply suffix_trans; [|exact Hr2]. exists (body ++ [c2]). now rewrite <- app_assoc.
Qed.

(* C09 progress: every iteration of the token() loop removes a non-empty
   prefix of the remaining input (unless the lexer itself crashed). *)
Theorem lex_iter_progress : forall n0 st rest items st' rest',
  rest <> [] -> lex_iter n0 st rest = (items, st', rest') -> has_crash items = false ->
  consumed rest rest'.
Proof.
  intros n0 st rest items st' rest' Hne H Hc. unfold lex_iter in H.
  destruct rest as [|c rest0]; [congruence|].
  destruct (is_blank c).
  { inversion H; subst. exists [c]. split; [discriminate|reflexivity]. }
  destruct (N.eqb c 10).
  { inversion H; subst. exists [c]. split; [discriminate|reflexivity]. }
  destruct (N.eqb c 35).
  { destruct (match_re n0 re_line_pattern rest0) as [mr1|].
    - apply handle_ppline_suffix in H. destruct H as [p ->]. exists (c :: p). split; [discriminate|reflexivity].
    - destruct (match_re n0 re_pragma_pattern rest0) as [mr2|].
      + apply handle_pppragma_suffix in H. destruct H as [p ->]. exists (c :: p). split; [discriminate|reflexivity].
      + inversion H; subst. exists [c]. split; [discriminate|reflexivity]. }
  apply match_token_progress in H; [|discriminate|exact Hc].
  destruct H as (p & Hp & Hr & _). exists p. split; assumption.
Qed.

(* C09 termination: lexing a text of n characters finishes within n+1 iterations. *)
Theorem lex_terminates_gen : forall fuel st rest,
  (length rest < fuel)%nat -> snd (raw_lex fuel st rest) = true.
Proof.
  induction fuel as [|f IH]; intros st rest Hlt; [lia|].
  destruct rest as [|c rest0] eqn:Hrest; [reflexivity|].
  cbn [raw_lex].
  destruct (lex_iter (S f) st (c :: rest0)) as [[items st'] rest'] eqn:Hi.
  destruct (has_crash items) eqn:Hc; [reflexivity|].
  apply lex_iter_progress in Hi; [|discriminate|exact Hc].
  destruct Hi as (p & Hp & Hr).
  assert (Hlen: (length rest' < f)%nat).
  { rewrite Hr in Hlt. rewrite app_length in Hlt. destruct p; [congruence|]. cbn [length] in Hlt. lia. }
  specialize (IH st' rest' Hlen).
  destruct (raw_lex f st' rest') as [[more stf] c0]. cbn in *. exact IH.
Qed.

Theorem lex_terminates : forall text file,
  snd (raw_lex (S (length text)) (init_lexst file) text) = true.
Proof. intros. apply lex_terminates_gen. lia. Qed.

(* ---- longest match among the fixed tokens ---------------------------------- *)
Fixpoint sorted_desc (b: list (kind * str)) : bool :=
  match b with
  | x :: ((y :: _) as r) => Nat.leb (length (snd y)) (length (snd x)) && sorted_desc r
  | _ => true
  end.

Definition entry_eqb (a b: kind * str) : bool := kind_eqb (fst a) (fst b) && str_eqb (snd a) (snd b).
Definition in_bucket (e: kind * str) (b: list (kind * str)) : bool := existsb (entry_eqb e) b.

(* table theorems: buckets are sorted by decreasing length, every fixed token
   sits in the bucket of its first character, every bucket entry is a fixed
   token starting with the bucket's character *)
Lemma buckets_sorted : forallb (fun b => sorted_desc (snd b)) fixed_by_first = true.
Proof. vm_compute. reflexivity. Qed.

Lemma buckets_complete :
  forallb (fun e => match snd e with
                    | c :: _ => match bucket_of c fixed_by_first with Some b => in_bucket e b | None => false end
                    | [] => false end) fixed_tokens = true.
Proof. vm_compute. reflexivity. Qed.

Lemma buckets_sound :
  forallb (fun cb => forallb (fun e => existsb (entry_eqb e) fixed_tokens &&
                                       match snd e with c :: _ => N.eqb c (fst cb) | [] => false end) (snd cb))
          fixed_by_first = true.
Proof. vm_compute. reflexivity. Qed.

Lemma str_eqb_eq : forall a b, str_eqb a b = true -> a = b.
Proof.
  induction a as [|x a IH]; destruct b as [|y b]; cbn; intros H; try discriminate; auto.
  apply andb_true_iff in H. destruct H as [H1 H2]. apply N.eqb_eq in H1. subst. f_equal. auto.
Qed.

Lemma sorted_desc_head : forall b x e, sorted_desc (x :: b) = true -> In e b ->
  (length (snd e) <= length (snd x))%nat.
Proof.
  induction b as [|y b IH]; intros x e Hs Hin; [destruct Hin|].
  cbn [sorted_desc] in Hs. apply andb_true_iff in Hs. destruct Hs as [Hle Hs]. apply Nat.leb_le in Hle.
  destruct Hin as [->|Hin]; [exact Hle|].
  specialize (IH y e Hs Hin). lia.
Qed.

Lemma sorted_desc_tail : forall b x, sorted_desc (x :: b) = true -> sorted_desc b = true.
Proof. intros [|y b] x H; [reflexivity|]. cbn [sorted_desc] in H. apply andb_true_iff in H. tauto. Qed.

(* generic: on a bucket sorted by decreasing length the first prefix match is a longest one *)
Lemma bucket_scan_longest : forall b s k lit,
  sorted_desc b = true -> bucket_scan b s = Some (k, lit) ->
  forall e, In e b -> starts_with (snd e) s = true -> (length (snd e) <= length lit)%nat.
Proof.
  induction b as [|[k0 l0] b IH]; intros s k lit Hs H e Hin Hsw; [destruct Hin|].
  cbn [bucket_scan] in H. destruct (starts_with l0 s) eqn:E.
  - inversion H; subst. destruct Hin as [<-|Hin]; [cbn; lia|].
    apply (sorted_desc_head _ _ _ Hs Hin).
  - destruct Hin as [<-|Hin]; [cbn in Hsw; congruence|].
    eapply IH; eauto. eapply sorted_desc_tail; eauto.
Qed.

Lemma bucket_scan_none : forall b s, bucket_scan b s = None ->
  forall e, In e b -> starts_with (snd e) s = false.
Proof.
  induction b as [|[k0 l0] b IH]; intros s H e Hin; [destruct Hin|].
  cbn [bucket_scan] in H. destruct (starts_with l0 s) eqn:E; [discriminate|].
  destruct Hin as [<-|Hin]; [exact E|]. eapply IH; eauto.
Qed.

Lemma in_bucket_In : forall e b, in_bucket e b = true -> exists e', In e' b /\ snd e' = snd e.
Proof.
  intros e b H. unfold in_bucket in H. apply existsb_exists in H. destruct H as (e' & Hin & He).
  unfold entry_eqb in He. apply andb_true_iff in He. destruct He as [_ He]. apply str_eqb_eq in He.
  exists e'. split; auto.
Qed.

(* C09 longest match, fixed tokens: whenever some fixed token is a prefix of
   the input, the bucket scan answers with a fixed token at least as long. *)
Theorem fixed_longest : forall s k lit,
  In (k, lit) fixed_tokens -> starts_with lit s = true ->
  exists k' lit', fixed_match s = Some (k', lit') /\ (length lit <= length lit')%nat.
Proof.
  intros s k lit Hin Hsw.
  pose proof buckets_complete as Hc. rewrite forallb_forall in Hc. specialize (Hc _ Hin). cbn [snd] in Hc.
  destruct lit as [|c lit0]; [discriminate|].
  destruct (bucket_of c fixed_by_first) as [b|] eqn:Hb; [|discriminate].
  apply in_bucket_In in Hc. destruct Hc as (e' & He' & Hsnd). cbn [snd] in Hsnd.
  destruct s as [|c' s0]; [discriminate|].
  assert (c' = c) as ->.
  { cbn in Hsw. apply andb_true_iff in Hsw. destruct Hsw as [H1 _]. apply N.eqb_eq in H1. auto. }
  unfold fixed_match. rewrite Hb.
  pose proof buckets_sorted as Hso. rewrite forallb_forall in Hso.
  specialize (Hso _ (bucket_of_in _ _ _ Hb)). cbn [snd] in Hso.
  destruct (bucket_scan b (c :: s0)) as [[k' lit']|] eqn:Hscan.
  - exists k', lit'. split; [reflexivity|].
    pose proof (bucket_scan_longest _ _ _ _ Hso Hscan e' He') as Hl. rewrite Hsnd in Hl. apply Hl. exact Hsw.
  - pose proof (bucket_scan_none _ _ Hscan e' He') as Hf. rewrite Hsnd in Hf. congruence.
Qed.

(* the token chosen is the longer of the regex match and the fixed token; the regex wins ties *)
Theorem choose_best_longer : forall n0 s,
  match choose_best n0 s, first_rule regex_rules n0 s, fixed_match s with
  | Some (BRegex r len), Some (r', len'), Some (_, lit) => r = r' /\ len = len' /\ (length lit <= len)%nat
  | Some (BFixed k len), Some (_, len'), Some (k', lit) => k = k' /\ len = length lit /\ (len' < len)%nat
  | Some (BRegex r len), Some (r', len'), None => r = r' /\ len = len'
  | Some (BFixed k len), None, Some (k', lit) => k = k' /\ len = length lit
  | None, None, None => True
  | _, _, _ => False
  end.
Proof.
  intros n0 s. unfold choose_best.
  destruct (fixed_match s) as [[k lit]|]; destruct (first_rule regex_rules n0 s) as [[r len]|]; auto.
  destruct (Nat.ltb len (length lit)) eqn:E.
  - apply Nat.ltb_lt in E. auto.
  - apply Nat.ltb_ge in E. auto.
Qed.

(* keyword / identifier classification (6.4.1): an identifier-shaped spelling
   becomes a keyword token iff it is a key of the keyword table *)
Theorem keyword_kind_spec : forall v,
  keyword_kind v = match assoc_str v keyword_map with Some k => k | None => K_ID end.
Proof. reflexivity. Qed.

(* ---- losslessness ------------------------------------------------------------- *)
Definition silent_ok (p: str) : Prop :=
  p = [32] \/ p = [9] \/ p = [10] \/ exists q, p = 35 :: q.

(* one segment of the input with the items the lexer produced for it:
   - it is not empty;
   - if nothing was produced, the segment is a blank, a tab, a newline or a
     directive line (starting with '#');
   - outside directive lines every token produced carries exactly the
     characters of the segment (exact spelling, nothing dropped). *)
Definition seg_ok (seg: str * list raw_item) : Prop :=
  let (p, items) := seg in
  p <> [] /\
  (items = [] -> silent_ok p) /\
  ((forall q, p <> 35 :: q) -> tok_value_is items p).

Lemma match_token_nonempty : forall n0 st rest items st' rest',
  match_token n0 st rest = (items, st', rest') -> rest <> [] -> items <> [].
Proof.
  intros n0 st rest items st' rest' H Hne. unfold match_token in H.
  destruct (choose_best n0 rest) as [[r len|k len]|].
  - destruct (ract r) as [k| |msg]; try (inversion H; subst; discriminate).
    match type of H with match ?X with _ => _ end = _ => destruct X end; inversion H; subst; discriminate.
  - inversion H; subst; discriminate.
  - destruct rest; [congruence|]. inversion H; subst; discriminate.
Qed.

Lemma lex_iter_seg : forall n0 st rest items st' rest',
  rest <> [] -> lex_iter n0 st rest = (items, st', rest') -> has_crash items = false ->
  exists p, rest = p ++ rest' /\ seg_ok (p, items).
Proof.
  intros n0 st rest items st' rest' Hne H Hc. unfold lex_iter in H.
  destruct rest as [|c rest0]; [congruence|].
  destruct (is_blank c) eqn:Hb.
  { inversion H; subst. exists [c]. split; [reflexivity|]. split; [discriminate|]. split.
    - intros _. unfold is_blank in Hb. apply orb_true_iff in Hb.
      destruct Hb as [Hb|Hb]; apply N.eqb_eq in Hb; subst; unfold silent_ok; auto.
    - intros _ k v l c0 f []. }
  destruct (N.eqb c 10) eqn:Hnl.
  { inversion H; subst. apply N.eqb_eq in Hnl. subst. exists [10]. split; [reflexivity|]. split; [discriminate|]. split.
    - intros _. unfold silent_ok; auto.
    - intros _ k v l c0 f []. }
  destruct (N.eqb c 35) eqn:Hh.
  { apply N.eqb_eq in Hh. subst c.
    assert (Hsuf: suffix_of rest' rest0).
    { destruct (match_re n0 re_line_pattern rest0) as [mr1|].
      - eapply handle_ppline_suffix; eauto.
      - destruct (match_re n0 re_pragma_pattern rest0) as [mr2|].
        + eapply handle_pppragma_suffix; eauto.
        + inversion H; subst. apply suffix_refl. }
    destruct Hsuf as [q ->]. exists (35 :: q). split; [reflexivity|]. split; [discriminate|]. split.
    - intros _. unfold silent_ok. right; right; right. exists q. reflexivity.
    - intros Hq. exfalso. apply (Hq q). reflexivity. }
  pose proof (match_token_nonempty _ _ _ _ _ _ H ltac:(discriminate)) as Hnonempty.
  apply match_token_progress in H; [|discriminate|exact Hc].
  destruct H as (p & Hp & Hr & Hv & _). exists p. split; [exact Hr|]. split; [exact Hp|]. split.
  - intros ->. congruence.
  - intros _. exact Hv.
Qed.

(* C09 lossless: the input is the concatenation, in order, of the segments the
   lexer consumed, the item list is the concatenation of what each segment
   produced, and every segment is accounted for (seg_ok). *)
Theorem lex_lossless_gen : forall fuel st rest items stf,
  raw_lex fuel st rest = (items, stf, true) -> has_crash items = false ->
  exists segs, concat (map fst segs) = rest /\ concat (map snd segs) = items /\ Forall seg_ok segs.
Proof.
  induction fuel as [|f IH]; intros st rest items stf H Hc.
  - destruct rest; cbn in H; inversion H; subst. exists []. repeat split; constructor.
  - destruct rest as [|c rest0] eqn:Hrest.
    { cbn in H. inversion H; subst. exists []. repeat split; constructor. }
    cbn [raw_lex] in H.
    destruct (lex_iter (S f) st (c :: rest0)) as [[its st'] rest'] eqn:Hi.
    destruct (has_crash its) eqn:Hc1.
    { inversion H; subst. congruence. }
    destruct (raw_lex f st' rest') as [[more stf'] c0] eqn:Hrl.
    inversion H; subst.
    assert (Hcm: has_crash more = false).
    { unfold has_crash in *. rewrite existsb_app in Hc. apply orb_false_iff in Hc. tauto. }
    destruct (IH _ _ _ _ Hrl Hcm) as (segs & Hs1 & Hs2 & Hs3).
    apply lex_iter_seg in Hi; [|discriminate|exact Hc1].
    destruct Hi as (p & Hr & Hok).
    exists ((p, its) :: segs). cbn [map fst snd concat]. rewrite Hs1, Hs2. repeat split; auto.
Qed.

Theorem lex_lossless : forall text file items stf,
  raw_lex (S (length text)) (init_lexst file) text = (items, stf, true) -> has_crash items = false ->
  exists segs, concat (map fst segs) = text /\ concat (map snd segs) = items /\ Forall seg_ok segs.
Proof. intros. eapply lex_lossless_gen; eauto. Qed.
