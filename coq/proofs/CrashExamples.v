From Coq Require Import List NArith Bool Arith.
Import ListNotations.
From PV Require Import Regex Base LexTables NodeModel ParserBase ParserDecl ParserMain Api.

(* outcome of the whole-pipeline model on a text, coordinates erased, token counter dropped *)
Definition outcome_str (text: str) : str :=
  match run_parse text (s2l "f.c") with
  | Ok (ast, _) => s2l "OK|" ++ show_ast (N.to_nat 1000) false ast
  | Err l m => s2l "E|" ++ show_loc l ++ s2l ": " ++ m
  | Crash k => s2l "C|" ++ crash_name k
  | OutOfFuel => s2l "R"
  end.

(* witness: a stray } escapes as AssertionError (scope pop on an empty stack) *)
Example C06_stray_rbrace_refuted :
  outcome_str (s2l "}") = s2l "C|AssertionError".
Proof. vm_compute. reflexivity. Qed.
(* witness: AttributeError (specifier inspection assumes IdentifierType) *)
Example C06_int_struct_refuted :
  outcome_str (s2l "int struct T;") = s2l "C|AttributeError".
Proof. vm_compute. reflexivity. Qed.
(* witness: ValueError from the integer-suffix counter applied to a multi-character constant *)
Example C06_multichar_refuted :
  outcome_str (s2l "int x = 'uu';") = s2l "C|ValueError".
Proof. vm_compute. reflexivity. Qed.
(* witness: a ParseError whose message does not start with a source location *)
Example C06_unlocated_refuted :
  outcome_str (s2l "const;") = s2l "E|?: Invalid declaration".
Proof. vm_compute. reflexivity. Qed.
