From Coq Require Import List NArith Bool Arith.
Import ListNotations.
From PV Require Import Regex Base LexTables NodeModel ParserBase ParserDecl ParserMain Api.

(* a stray } is a located ParseError (was an AssertionError before the fix) *)
Example ex_C06_stray_rbrace :
  outcome_str (s2l "}") = s2l "E|f.c: Unmatched '}'".
Proof. vm_compute. reflexivity. Qed.
(* two type specifiers where the last is not a plain name: ParseError (was AttributeError) *)
Example ex_C06_int_struct :
  outcome_str (s2l "int struct T;") = s2l "E|f.c:1:1: Invalid declaration".
Proof. vm_compute. reflexivity. Qed.
(* a multi-character constant made of suffix letters is an int constant (was ValueError) *)
Example ex_C06_multichar :
  outcome_str (s2l "int x = 'uu';") = s2l "OK|(FileAST [(Decl 'x' [] [] [] [] (TypeDecl 'x' [] None (IdentifierType ['int'])) (Constant 'int' ""'uu'"") None)])".
Proof. vm_compute. reflexivity. Qed.
(* the message starts with a source location (was '?: ...') *)
Example ex_C06_located :
  outcome_str (s2l "const;") = s2l "E|f.c: Invalid declaration".
Proof. vm_compute. reflexivity. Qed.
