(* Small Hoare-style library for "shape of the result" theorems about the parser model:
   [post Q m]: every successful run of m returns a value satisfying Q;
   [came_from m a]: a is the value some run of m returned. *)
From Coq Require Import List NArith Bool Arith.
Import ListNotations.
From PV Require Import Regex Base LexTables ParserTables AstDefs AstSpec AstImpl PyRepr NodeModel ParserBase.

Section PL.
Variable P : Type.
Notation M := (M P).

Definition came_from {A} (m: M A) (a: A) : Prop := exists s s', m s = Ok (a, s').
Definition post {A} (Q: A -> Prop) (m: M A) : Prop := forall s a s', m s = Ok (a, s') -> Q a.

Lemma post_ret : forall A (Q: A -> Prop) a, Q a -> post Q (ret P a).
Proof. intros A Q a H s a' s' E. unfold ret in E. injection E as <- _. exact H. Qed.
Lemma post_bind_from : forall A B (Q: B -> Prop) (m: M A) (f: A -> M B),
  (forall a, came_from m a -> post Q (f a)) -> post Q (bind P m f).
Proof.
  intros A B Q m f H s b s' E. unfold bind in E. destruct (m s) as [[a s1]| | |] eqn:Em; try discriminate.
  eapply (H a); [exists s, s1; exact Em|exact E].
Qed.
Lemma post_fail : forall A (Q: A -> Prop) l msg, post Q (fail P (A:=A) l msg).
Proof. intros A Q l msg s a s' E. discriminate. Qed.
Lemma post_crash : forall A (Q: A -> Prop) k, post Q (crash P (A:=A) k).
Proof. intros A Q k s a s' E. discriminate. Qed.
Lemma post_oof : forall A (Q: A -> Prop), post Q (out_of_fuel P (A:=A)).
Proof. intros A Q s a s' E. discriminate. Qed.
Lemma came_post : forall A (m: M A) (Q: A -> Prop) a, came_from m a -> post Q m -> Q a.
Proof. intros A m Q a [s [s' E]] Hp. eapply Hp; eauto. Qed.
Lemma came_coordA : forall (e: value (coord P)) ec, came_from (coordA P e) ec -> get_coord P e = Some ec.
Proof.
  intros e ec [s [s' H]]. unfold coordA, lift_opt in H. destruct (get_coord P e) as [c|]; [|discriminate].
  unfold ret in H. injection H as <- _. reflexivity.
Qed.
End PL.

Ltac post_tac P :=
  repeat first
    [ apply (post_bind_from P); intros
    | match goal with
      | |- post P _ (match ?x with _ => _ end) => destruct x
      | |- post P _ (if ?b then _ else _) => destruct b
      end
    | apply (post_fail P) | apply (post_crash P) | apply (post_oof P) ].
