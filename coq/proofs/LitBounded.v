(* C10, bounded but exhaustive and kernel-checked: for EVERY string of length <= 4 over the 24-character
   literal alphabet, the lexer model returns it as one literal token of class K exactly when the
   independent literal grammar (gen/LitSpec.v, translated from the harness's C99 6.4.4/6.4.5 grammar)
   accepts the whole string as a literal of class K.  The bound is part of the statement. *)
From Coq Require Import List NArith Bool Arith Lia.
Import ListNotations.
From PV Require Import Regex Base UnicodeTables LexTables PyRepr Lexer LitSpec.
Open Scope N_scope.

Definition fullmatch (r: re) (s: str) : bool :=
  match m unit (length s) r 0 s (fun _ s' => match s' with [] => Some tt | _ => None end) with Some _ => true | None => false end.

Definition spec_class (s: str) : option kind :=
  option_map fst (find (fun p => fullmatch (snd p) s) lit_spec).

Definition is_literal_kind (k: kind) : bool := existsb (fun p => kind_eqb k (fst p)) lit_spec.

Definition model_class (s: str) : option kind :=
  match raw_lex (S (length s)) (init_lexst []) s with
  | ([RTok k v _ _ _], _, _) => if str_eqb v s && is_literal_kind k then Some k else None
  | _ => None
  end.

Definition okind_eqb (a b: option kind) : bool :=
  match a, b with Some x, Some y => kind_eqb x y | None, None => true | _, _ => false end.

Definition agree (s: str) : bool := okind_eqb (spec_class s) (model_class s).

(* all strings of length <= n over the alphabet, built by prepending *)
Fixpoint for_all_strings (n: nat) (pre: str) (f: str -> bool) : bool :=
  f pre && match n with
           | O => true
           | S n' => forallb (fun c => for_all_strings n' (c :: pre) f) lit_alphabet
           end.

Lemma for_all_strings_sound : forall n pre f, for_all_strings n pre f = true ->
  forall t, (length t <= n)%nat -> Forall (fun c => In c lit_alphabet) t -> f (rev t ++ pre) = true.
Proof.
  induction n as [|n IH]; intros pre f H t Hl Ht; cbn [for_all_strings] in H; apply andb_true_iff in H; destruct H as [H0 H1].
  - destruct t; [exact H0|cbn in Hl; lia].
  - destruct t as [|c t]; [exact H0|].
    inversion Ht as [|? ? Hc Hr]; subst. rewrite forallb_forall in H1. specialize (H1 c Hc).
    cbn [rev]. rewrite <- app_assoc. cbn [app]. apply IH; [exact H1|cbn in Hl; lia|exact Hr].
Qed.

Lemma bounded_check : for_all_strings 4 [] agree = true.
Proof. vm_compute. reflexivity. Qed.

Theorem literal_iff_wellformed_bounded : forall s,
  (length s <= 4)%nat -> Forall (fun c => In c lit_alphabet) s -> spec_class s = model_class s.
Proof.
  intros s Hl Hs.
  pose proof (for_all_strings_sound 4 [] agree bounded_check (rev s)) as H.
  rewrite rev_length, rev_involutive, app_nil_r in H.
  assert (Hrev: Forall (fun c => In c lit_alphabet) (rev s)).
  { rewrite Forall_forall in *. intros x Hx. apply Hs. apply in_rev. exact Hx. }
  specialize (H Hl Hrev). unfold agree, okind_eqb in H.
  destruct (spec_class s) as [a|]; destruct (model_class s) as [b|]; try discriminate; [|reflexivity].
  f_equal. unfold kind_eqb in H. apply N.eqb_eq in H.
  destruct a, b; try reflexivity; discriminate H.
Qed.
