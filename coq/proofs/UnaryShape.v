(* C02 on the whole-parser model: prefix operators, casts and sizeof bind tighter than any binary operator,
   postfix operators tighter still, and postfix operators apply left to right.
   - the operand of & * + - ~ ! is a cast-expression, the operand of ++ / -- / sizeof a unary-expression,
     the operand of a cast a cast-expression (binary operators can only enter through parentheses);
   - the postfix suffixes [..] (..) .m ->m ++ -- are folded over the primary expression left to right,
     each new node taking the coordinate of the node it wraps. *)
From Coq Require Import List NArith Bool Arith Lia.
Import ListNotations.
From PV Require Import Regex Base LexTables ParserTables AstDefs AstSpec AstImpl PyRepr NodeModel ParserBase ParserDecl ParserMain PostLib.
Open Scope nat_scope.

Section US.
Variable P : Type.
Notation M := (M P).
Notation node := (node P).
Notation pstate := (pstate P).

Definition cast_here (f: nat) (e: node) : Prop := came_from P (p_cast_expression P f) e.
Definition unary_here (f: nat) (e: node) : Prop := came_from P (p_unary_expression P f) e.

Theorem unary_operand : forall f,
  post P (fun r =>
      (exists op e ec, (cast_here f e \/ unary_here f e) /\ r = mkN P C_UnaryOp [VStr op; e] ec)   (* prefix operator / sizeof expr *)
   \/ (exists op typ c, came_from P (p_type_name P f) typ /\ r = mkN P C_UnaryOp [VStr op; typ] c)     (* _Alignof ( type-name ) *)
   \/ (exists op typ c, r = mkN P C_UnaryOp [VStr op; typ] c /\ exists x, came_from P (try_paren_type_name P f) (Some x) /\ fst (fst x) = typ)   (* sizeof ( type-name ) *)
   \/ came_from P (p_postfix_expression P f) r)
  (p_unary_expression P (S f)).
Proof.
  intros f. cbn [p_unary_expression]. post_tac P;
  first
    [ apply (post_ret P);
      first [ solve [left; eexists _, _, _; split; [first [left; eassumption | right; eassumption]|reflexivity]]
            | solve [right; left; eexists _, _, _; split; [eassumption|reflexivity]]
            | solve [right; right; left; eexists _, _, _; split; [reflexivity|eexists; split; [eassumption|reflexivity]]] ]
    | let s0 := fresh "s" in let a0 := fresh "a" in let s1 := fresh "s" in let E0 := fresh "E" in
      intros s0 a0 s1 E0; right; right; right; exists s0, s1; exact E0 ].
Qed.

(* cast-expression: ( type-name ) cast-expression, or a unary-expression *)
Theorem cast_operand : forall f,
  post P (fun r => (exists typ e c, cast_here f e /\ r = mkN P C_Cast [typ; e] c) \/ unary_here f r)
       (p_cast_expression P (S f)).
Proof.
  intros f. cbn [p_cast_expression]. apply (post_bind_from P). intros r Hr. destruct r as [[[typ mk] lpt]|].
  - apply (post_bind_from P). intros k Hk. destruct (okind_is k K_LBRACE).
    + apply (post_bind_from P). intros u Hu. intros s a s' E. right. exists s, s'. exact E.
    + post_tac P. apply (post_ret P). left. eexists _, _, _. split; [eassumption|reflexivity].
  - intros s a s' E. right. exists s, s'. exact E.
Qed.

(* ---- postfix suffixes ---- *)
Inductive sfx :=
| SIndex (sub: node) | SCall (args: node) | SMember (op name: str) (nc: coord P) | SPost (op: str).

Definition app_sfx (e: node) (x: sfx) : node :=
  match get_coord P e with
  | None => VNone
  | Some ec =>
    match x with
    | SIndex sub => mkN P C_ArrayRef [e; sub] ec
    | SCall args => mkN P C_FuncCall [e; args] ec
    | SMember op name nc => mkN P C_StructRef [e; VStr op; mkN P C_ID [VStr name] (Some nc)] ec
    | SPost op => mkN P C_UnaryOp [VStr (112%N :: op); e] ec
    end
  end.

Lemma suffix_eq : forall f e,
  p_postfix_suffixes P (S f) e =
  bind P (accept P K_LBRACKET) (fun lb =>
  match lb with
  | Some _ =>
    bind P (p_expression P f) (fun sub => bind P (expect P K_RBRACKET) (fun _ => bind P (coordA P e) (fun ec =>
    p_postfix_suffixes P f (mkN P C_ArrayRef [e; sub] ec))))
  | None =>
    bind P (accept P K_LPAREN) (fun lp =>
    match lp with
    | Some _ =>
      bind P (peek_kind P) (fun k =>
      bind P (if okind_is k K_RPAREN then bind P (advance P) (fun _ => ret P VNone)
              else bind P (p_argument_expression_list P f) (fun a => bind P (expect P K_RPAREN) (fun _ => ret P a))) (fun args =>
      bind P (coordA P e) (fun ec =>
      p_postfix_suffixes P f (mkN P C_FuncCall [e; args] ec))))
    | None =>
      bind P (peek_kind P) (fun k =>
      if okind_is k K_PERIOD || okind_is k K_ARROW then
        bind P (advance P) (fun op => bind P (advance P) (fun nt => bind P (tok_coord P nt) (fun nc =>
        if negb (kind_eqb (tk nt) K_ID || kind_eqb (tk nt) K_TYPEID) then fail P (L_coord P nc) (s2l "Invalid struct reference")
        else bind P (coordA P e) (fun ec =>
             p_postfix_suffixes P f (mkN P C_StructRef [e; VStr (tv op); mkN P C_ID [VStr (tv nt)] (Some nc)] ec)))))
      else if okind_is k K_PLUSPLUS || okind_is k K_MINUSMINUS then
        bind P (advance P) (fun t => bind P (coordA P e) (fun ec =>
        p_postfix_suffixes P f (mkN P C_UnaryOp [VStr (112%N :: tv t); e] ec)))
      else ret P e)
    end)
  end).
Proof. reflexivity. Qed.

Theorem postfix_left_to_right : forall f e,
  post P (fun r => exists sufs, r = fold_left app_sfx sufs e) (p_postfix_suffixes P f e).
Proof.
  induction f as [|f IH]; intros e; [apply (post_oof P)|]. rewrite suffix_eq.
  assert (Step: forall x ec, get_coord P e = Some ec ->
            forall n, n = app_sfx e x -> post P (fun r => exists sufs, r = fold_left app_sfx sufs e) (p_postfix_suffixes P f n)).
  { intros x ec Hc n -> s a s' E. destruct (IH _ _ _ _ E) as [sufs ->]. exists (x :: sufs). reflexivity. }
  post_tac P.
  - eapply (Step (SIndex _)); [eapply came_coordA; eassumption|]. unfold app_sfx. erewrite came_coordA by eassumption. reflexivity.
  - eapply (Step (SCall _)); [eapply came_coordA; eassumption|]. unfold app_sfx. erewrite came_coordA by eassumption. reflexivity.
  - eapply (Step (SMember _ _ _)); [eapply came_coordA; eassumption|]. unfold app_sfx. erewrite came_coordA by eassumption. reflexivity.
  - eapply (Step (SPost _)); [eapply came_coordA; eassumption|]. unfold app_sfx. erewrite came_coordA by eassumption. reflexivity.
  - apply (post_ret P). exists []. reflexivity.
Qed.
End US.
