(* C06, lexing half: CLexer never trips its own `assert msg is not None` - for every text, the item
   stream of the lexer model contains no crash item. *)
From Coq Require Import List NArith Bool Arith Lia.
Import ListNotations.
From PV Require Import Regex Base UnicodeTables LexTables PyRepr Lexer.
Open Scope nat_scope.

(* every error rule of the regenerated table carries a message, or is BAD_CHAR_CONST (whose message is computed) *)
Definition rule_has_msg (r: rule) : bool :=
  match ract r with
  | A_ERROR None => str_eqb (rname r) name_BAD_CHAR_CONST
  | _ => true
  end.
Lemma error_rules_have_messages : forallb rule_has_msg regex_rules = true.
Proof. vm_compute. reflexivity. Qed.

Lemma first_rule_in : forall rules n0 s r len, first_rule rules n0 s = Some (r, len) -> In r rules.
Proof.
  induction rules as [|r0 rs IH]; intros n0 s r len H; [discriminate|]. cbn [first_rule] in H.
  destruct (match_re n0 (rre r0) s) as [[l ?]|].
  - injection H as <- _. left. reflexivity.
  - right. eapply IH; eauto.
Qed.

Lemma choose_best_regex_in : forall n0 s r len, choose_best n0 s = Some (BRegex r len) -> In r regex_rules.
Proof.
  intros n0 s r len H. unfold choose_best in H.
  destruct (first_rule regex_rules n0 s) as [[r1 l1]|] eqn:E.
  - assert (Hin: In r1 regex_rules) by (eapply first_rule_in; eauto).
    destruct (fixed_match s) as [[k lit]|].
    + destruct (Nat.ltb l1 (length lit)); [discriminate|]. injection H as <- _. exact Hin.
    + injection H as <- _. exact Hin.
  - destruct (fixed_match s) as [[k lit]|]; discriminate.
Qed.

Lemma match_token_no_crash : forall n0 st rest, has_crash (fst (fst (match_token n0 st rest))) = false.
Proof.
  intros n0 st rest. unfold match_token.
  destruct (choose_best n0 rest) as [[r len|k len]|] eqn:E.
  - pose proof (choose_best_regex_in _ _ _ _ E) as Hin.
    pose proof error_rules_have_messages as Ht. rewrite forallb_forall in Ht. specialize (Ht r Hin). unfold rule_has_msg in Ht.
    destruct (ract r) as [k| |msg]; try reflexivity.
    destruct (str_eqb (rname r) name_BAD_CHAR_CONST) eqn:Eb; [reflexivity|].
    destruct msg as [m|]; [reflexivity|discriminate].
  - reflexivity.
  - destruct rest; reflexivity.
Qed.

Lemma lex_iter_no_crash : forall n0 st rest, has_crash (fst (fst (lex_iter n0 st rest))) = false.
Proof.
  intros n0 st rest. unfold lex_iter. destruct rest as [|c rest']; [reflexivity|].
  destruct (is_blank c); [reflexivity|]. destruct (N.eqb c 10); [reflexivity|].
  destruct (N.eqb c 35); [|apply match_token_no_crash].
  destruct (match_re n0 re_line_pattern rest').
  - unfold handle_ppline. destruct (split_line rest') as [line after].
    destruct (ppline_scan line) as [[pl|] pf|msg off]; try reflexivity.
    destruct (forallb is_ascii_digit pl); reflexivity.
  - destruct (match_re n0 re_pragma_pattern rest'); [|reflexivity].
    unfold handle_pppragma. destruct (skip_ws _ rest') as [p1 r1]. destruct r1 as [|x r1tl]; [reflexivity|].
    destruct (negb (starts_with s_pragma (x :: r1tl))); [reflexivity|].
    destruct (skip_ws _ _) as [start r2]. destruct (split_line r2) as [body after].
    destruct body; destruct after; reflexivity.
Qed.

Theorem lex_no_crash : forall fuel st rest, has_crash (fst (fst (raw_lex fuel st rest))) = false.
Proof.
  induction fuel as [|f IH]; intros st rest.
  - destruct rest; reflexivity.
  - destruct rest as [|c r]; [reflexivity|]. cbn [raw_lex].
    pose proof (lex_iter_no_crash (S f) st (c :: r)) as Hi.
    destruct (lex_iter (S f) st (c :: r)) as [[items st'] rest']. cbn [fst] in Hi. rewrite Hi.
    specialize (IH st' rest'). destruct (raw_lex f st' rest') as [[more stf] cc]. cbn [fst] in *.
    unfold has_crash in *. rewrite existsb_app, Hi, IH. reflexivity.
Qed.
