(* C10 / C06, unbounded: every integer-constant token the lexer can emit (decimal, octal, hex,
   binary; any number of digits) is classified by _parse_constant - no ValueError - and the type
   is the one its suffix spells.  Route: a denotational semantics [in_re] of the regex ASTs, the
   matcher is sound for it, a computed split of each INT rule into  body . finite-suffix-list
   (robust against rewrites of the rule that keep that shape), and a computation over the
   suffix list of the regenerated table. *)
From Coq Require Import List NArith Bool Arith Lia.
Import ListNotations.
From PV Require Import Regex Base UnicodeTables LexTables PyRepr Lexer RegexLemmas AstDefs AstSpec AstImpl NodeModel ParserBase ParserDecl.
Open Scope nat_scope.

(* ---- what a regex denotes (zero-width assertions denote the empty string: an over-approximation,
        which is all a soundness argument needs) ---- *)
Inductive in_re : re -> str -> Prop :=
| IR_eps : in_re Eps []
| IR_chr : forall cs c, cset_mem c cs = true -> in_re (Chr cs) [c]
| IR_seq : forall a b x y, in_re a x -> in_re b y -> in_re (Seq a b) (x ++ y)
| IR_altl : forall a b x, in_re a x -> in_re (Alt a b) x
| IR_altr : forall a b x, in_re b x -> in_re (Alt a b) x
| IR_star0 : forall a, in_re (Star a) []
| IR_star1 : forall a x y, in_re a x -> in_re (Star a) y -> in_re (Star a) (x ++ y)
| IR_notahead : forall a, in_re (NotAhead a) []
| IR_atend : in_re AtEnd [].

Lemma m_sound_lang : forall r A n0 i s k x, m A n0 r i s k = Some x ->
  exists p s', s = p ++ s' /\ in_re r p /\ k (i + length p) s' = Some x.
Proof.
  induction r as [|cs|a IHa b IHb|a IHa b IHb|a IHa|a IHa|]; intros A n0 i s k x H; cbn [m] in H.
  - exists [], s. rewrite Nat.add_0_r. repeat split; auto. constructor.
  - destruct s as [|c s']; [discriminate|]. destruct (cset_mem c cs) eqn:E; [|discriminate].
    exists [c], s'. cbn [length]. replace (i + 1) with (S i) by lia. repeat split; auto. constructor. exact E.
  - apply IHa in H. destruct H as (p1 & s1 & -> & H1 & Hk).
    apply IHb in Hk. destruct Hk as (p2 & s2 & -> & H2 & Hk2).
    exists (p1 ++ p2), s2. rewrite app_assoc. split; [reflexivity|]. split; [constructor; assumption|].
    rewrite app_length, Nat.add_assoc. exact Hk2.
  - destruct (m A n0 a i s k) as [y|] eqn:Ha.
    + inversion H; subst y. apply IHa in Ha. destruct Ha as (p & s1 & ? & ? & ?). exists p, s1. repeat split; auto. apply IR_altl. assumption.
    + apply IHb in H. destruct H as (p & s1 & ? & ? & ?). exists p, s1. repeat split; auto. apply IR_altr. assumption.
  - assert (Hloop: forall n i0 s0 x0,
      (fix loop (n : nat) (i : nat) (s : str) {struct n} : option A :=
         match n with
         | 0 => k i s
         | S n' => match m A n0 a i s (fun i' s' => loop n' i' s') with Some x => Some x | None => k i s end
         end) n i0 s0 = Some x0 -> exists p s', s0 = p ++ s' /\ in_re (Star a) p /\ k (i0 + length p) s' = Some x0).
    { induction n as [|n IHn]; intros i0 s0 x0 Hl.
      - exists [], s0. rewrite Nat.add_0_r. repeat split; auto. constructor.
      - match type of Hl with match ?M with _ => _ end = _ => destruct M as [y|] eqn:Hm end.
        + inversion Hl; subst y. apply IHa in Hm. destruct Hm as (p1 & s1 & -> & H1 & Hk1).
          apply IHn in Hk1. destruct Hk1 as (p2 & s2 & -> & H2 & Hk2).
          exists (p1 ++ p2), s2. rewrite app_assoc. split; [reflexivity|]. split; [apply IR_star1; assumption|].
          rewrite app_length, Nat.add_assoc. exact Hk2.
        + exists [], s0. rewrite Nat.add_0_r. repeat split; auto. constructor. }
    apply Hloop in H. exact H.
  - destruct (m unit n0 a i s (fun _ _ => Some tt)); [discriminate|].
    exists [], s. rewrite Nat.add_0_r. repeat split; auto. constructor.
  - destruct (at_end s); [|discriminate].
    exists [], s. rewrite Nat.add_0_r. repeat split; auto. constructor.
Qed.

Lemma match_re_lang : forall n0 r s len s', match_re n0 r s = Some (len, s') ->
  in_re r (firstn len s) /\ s = firstn len s ++ s'.
Proof.
  unfold match_re. intros n0 r s len s' H. apply m_sound_lang in H.
  destruct H as (p & s1 & -> & Hin & Hk). inversion Hk; subst. cbn [Nat.add].
  rewrite firstn_app, firstn_all, Nat.sub_diag, app_nil_r. split; [exact Hin|reflexivity].
Qed.

(* ---- finite languages, and splitting off a finite tail ---- *)
Fixpoint chars_of (rs: list (N*N)) : option (list N) :=     (* only singleton ranges and two-element ranges are enumerated *)
  match rs with
  | [] => Some []
  | (a, b) :: r =>
    match chars_of r with
    | None => None
    | Some l => if N.eqb a b then Some (a :: l) else if N.eqb (a + 1) b then Some (a :: b :: l) else None
    end
  end.

Fixpoint fin (r: re) : option (list str) :=
  match r with
  | Eps => Some [[]]
  | Chr (CSet false rs) => match chars_of rs with Some l => Some (map (fun c => [c]) l) | None => None end
  | Chr (CSet true _) => None
  | Seq a b => match fin a, fin b with
               | Some la, Some lb => Some (flat_map (fun x => map (fun y => x ++ y) lb) la)
               | _, _ => None end
  | Alt a b => match fin a, fin b with Some la, Some lb => Some (la ++ lb) | _, _ => None end
  | Star _ | NotAhead _ | AtEnd => None
  end.

Lemma chars_of_sound : forall rs l c, chars_of rs = Some l -> in_ranges c rs = true -> In c l.
Proof.
  induction rs as [|[a b] r IH]; intros l c H Hin; [discriminate|].
  cbn [chars_of] in H. destruct (chars_of r) as [l0|] eqn:E; [|discriminate].
  unfold in_ranges in Hin. cbn [existsb fst snd] in Hin. apply orb_true_iff in Hin.
  destruct (N.eqb a b) eqn:Eab.
  - injection H as <-. destruct Hin as [Hc|Hc].
    + apply andb_true_iff in Hc. destruct Hc as [H1 H2]. apply N.leb_le in H1, H2. apply N.eqb_eq in Eab. left. lia.
    + right. eapply IH; eauto.
  - destruct (N.eqb (a + 1) b) eqn:Eab1; [|discriminate]. injection H as <-. destruct Hin as [Hc|Hc].
    + apply andb_true_iff in Hc. destruct Hc as [H1 H2]. apply N.leb_le in H1, H2. apply N.eqb_eq in Eab1.
      assert (c = a \/ c = b) as [->| ->] by lia; [left; reflexivity|right; left; reflexivity].
    + right. right. eapply IH; eauto.
Qed.

Lemma fin_sound : forall r l w, fin r = Some l -> in_re r w -> In w l.
Proof.
  induction r as [|cs|a IHa b IHb|a IHa b IHb|a IHa|a IHa|]; intros l w H Hin; cbn [fin] in H; try discriminate.
  - injection H as <-. inversion Hin; subst. left. reflexivity.
  - destruct cs as [[|] rs]; [discriminate|]. destruct (chars_of rs) as [l0|] eqn:E; [|discriminate]. injection H as <-.
    inversion Hin; subst. apply (in_map (fun c0 : N => [c0]) l0 c). eapply chars_of_sound; eauto.
    unfold cset_mem in H0. destruct (in_ranges c rs); [reflexivity|discriminate].
  - destruct (fin a) as [la|] eqn:Ea; [|discriminate]. destruct (fin b) as [lb|] eqn:Eb; [|discriminate]. injection H as <-.
    inversion Hin; subst. apply in_flat_map. exists x. split; [eapply IHa; eauto|]. apply in_map. eapply IHb; eauto.
  - destruct (fin a) as [la|] eqn:Ea; [|discriminate]. destruct (fin b) as [lb|] eqn:Eb; [|discriminate]. injection H as <-.
    apply in_or_app. inversion Hin; subst; [left; eapply IHa; eauto|right; eapply IHb; eauto].
Qed.

(* body . tails : every word of r is a word of the body followed by one of finitely many tails *)
Fixpoint rsplit (r: re) : option (re * list str) :=
  match fin r with
  | Some l => Some (Eps, l)
  | None =>
    match r with
    | Seq a b => match rsplit b with Some (b', t) => Some (Seq a b', t) | None => None end
    | Alt a b => match rsplit a, rsplit b with
                 | Some (a', ta), Some (b', tb) => Some (Alt a' b', ta ++ tb)
                 | _, _ => None end
    | _ => None
    end
  end.

Lemma rsplit_sound : forall r b ts w, rsplit r = Some (b, ts) -> in_re r w ->
  exists x t, w = x ++ t /\ in_re b x /\ In t ts.
Proof.
  induction r as [|cs|a IHa b0 IHb|a IHa b0 IHb|a IHa|a IHa|]; intros b ts w H Hin; cbn [rsplit] in H.
  - cbn [fin] in H. injection H as <- <-. exists [], w. repeat split; [constructor|]. eapply fin_sound; eauto. reflexivity.
  - destruct (fin (Chr cs)) as [l|] eqn:E; [|discriminate]. injection H as <- <-.
    exists [], w. repeat split; [constructor|]. eapply fin_sound; eauto.
  - destruct (fin (Seq a b0)) as [l|] eqn:E.
    + injection H as <- <-. exists [], w. repeat split; [constructor|]. eapply fin_sound; eauto.
    + destruct (rsplit b0) as [[b' t]|] eqn:Eb; [|discriminate]. injection H as <- <-.
      inversion Hin; subst. destruct (IHb _ _ _ eq_refl H3) as (x1 & t1 & -> & Hb & Ht).
      exists (x ++ x1), t1. rewrite app_assoc. repeat split; [constructor; assumption|exact Ht].
  - destruct (fin (Alt a b0)) as [l|] eqn:E.
    + injection H as <- <-. exists [], w. repeat split; [constructor|]. eapply fin_sound; eauto.
    + destruct (rsplit a) as [[a' ta]|] eqn:Ea; [|discriminate]. destruct (rsplit b0) as [[b' tb]|] eqn:Eb; [|discriminate].
      injection H as <- <-. inversion Hin; subst.
      * destruct (IHa _ _ _ eq_refl H2) as (x1 & t1 & -> & Hb & Ht). exists x1, t1. repeat split; [apply IR_altl; assumption|apply in_or_app; left; exact Ht].
      * destruct (IHb _ _ _ eq_refl H2) as (x1 & t1 & -> & Hb & Ht). exists x1, t1. repeat split; [apply IR_altr; assumption|apply in_or_app; right; exact Ht].
  - cbn [fin] in H. discriminate.
  - cbn [fin] in H. discriminate.
  - cbn [fin] in H. discriminate.
Qed.

(* all characters a regex can produce satisfy p (positive character sets only) *)
Definition range_ok (bad: list N) (ab: N * N) : bool := forallb (fun c => N.ltb c (fst ab) || N.ltb (snd ab) c) bad.
Fixpoint alpha_ok (bad: list N) (r: re) : bool :=
  match r with
  | Eps | NotAhead _ | AtEnd => true
  | Chr (CSet false rs) => forallb (range_ok bad) rs
  | Chr (CSet true _) => false
  | Seq a b | Alt a b => alpha_ok bad a && alpha_ok bad b
  | Star a => alpha_ok bad a
  end.

Lemma alpha_ok_sound : forall bad r w, alpha_ok bad r = true -> in_re r w -> Forall (fun c => ~ In c bad) w.
Proof.
  intros bad r w H Hin. induction Hin; cbn [alpha_ok] in H; try (constructor; fail).
  - destruct cs as [[|] rs]; [discriminate|]. constructor; [|constructor]. intros Hb.
    unfold cset_mem in H0. assert (Hr0: in_ranges c rs = true) by (destruct (in_ranges c rs); [reflexivity|discriminate]). clear H0. rename Hr0 into H0.
    unfold in_ranges in H0. apply existsb_exists in H0. destruct H0 as [[a b] [Hr Hc]].
    rewrite forallb_forall in H. specialize (H _ Hr). unfold range_ok in H. rewrite forallb_forall in H. specialize (H _ Hb).
    cbn [fst snd] in *. apply andb_true_iff in Hc. destruct Hc as [H1 H2]. apply N.leb_le in H1, H2.
    apply orb_true_iff in H. destruct H as [H|H]; apply N.ltb_lt in H; lia.
  - apply andb_true_iff in H. destruct H as [Ha Hb]. apply Forall_app. split; auto.
  - apply andb_true_iff in H. destruct H as [Ha Hb]. auto.
  - apply andb_true_iff in H. destruct H as [Ha Hb]. auto.
  - apply Forall_app. split; [apply IHHin1; exact H|apply IHHin2; exact H].
Qed.

(* ---- _parse_constant's typing of integer constants ---- *)
Lemma nsub_sub : forall m n, nsub n m = n - m.
Proof. induction m as [|m IH]; intros [|n]; cbn [nsub]; try lia. rewrite IH. lia. Qed.

Definition BAD : list N := [76; 85; 108; 117]%N.    (* L U l u *)

Section IL.
Variable P : Type.

Lemma count_if_app : forall f (a b: str), count_if f (a ++ b) = count_if f a + count_if f b.
Proof. intros f a b. unfold count_if. rewrite filter_app, app_length. reflexivity. Qed.

Lemma count_none : forall (f: N -> bool) (x: str), Forall (fun c => f c = false) x -> count_if f x = 0.
Proof. intros f x H. unfold count_if. induction H as [|c x Hc Hx IH]; cbn [filter]; [reflexivity|]. rewrite Hc. exact IH. Qed.

Lemma not_bad_lL : forall c, ~ In c BAD -> is_lL c = false.
Proof.
  intros c H. unfold is_lL. destruct (N.eqb_spec c 108) as [->|]; [exfalso; apply H; cbn; auto|].
  destruct (N.eqb_spec c 76) as [->|]; [exfalso; apply H; cbn; auto|]. reflexivity.
Qed.
Lemma not_bad_uU : forall c, ~ In c BAD -> is_uU c = false.
Proof.
  intros c H. unfold is_uU. destruct (N.eqb_spec c 117) as [->|]; [exfalso; apply H; cbn; auto|].
  destruct (N.eqb_spec c 85) as [->|]; [exfalso; apply H; cbn; auto|]. reflexivity.
Qed.

(* digits in front of the suffix do not matter: the type is the type of the suffix *)
Lemma int_type_of_suffix : forall x t, Forall (fun c => ~ In c BAD) x ->
  int_const_type false (x ++ t) = int_const_type false t.
Proof.
  intros x t Hx. unfold int_const_type. cbv iota.
  destruct (Nat.le_gt_cases (length t) 3) as [Ht|Ht].
  - assert (E: exists x', last_n 3 (x ++ t) = x' ++ t /\ Forall (fun c => ~ In c BAD) x').
    { unfold last_n. rewrite nsub_sub, app_length, skipn_app.
      replace (length x + length t - 3 - length x) with 0 by lia. cbn [skipn].
      exists (skipn (length x + length t - 3) x). split; [reflexivity|].
      rewrite <- (firstn_skipn (length x + length t - 3) x) in Hx. apply Forall_app in Hx. apply Hx. }
    destruct E as (x' & -> & Hx').
    assert (Et: last_n 3 t = t).
    { unfold last_n. rewrite nsub_sub. replace (length t - 3) with 0 by lia. reflexivity. }
    rewrite Et, !count_if_app.
    rewrite (count_none is_lL x') by (eapply Forall_impl; [|exact Hx']; intros c Hc; apply not_bad_lL; exact Hc).
    rewrite (count_none (fun c => negb (is_lL c) && is_uU c) x')
      by (eapply Forall_impl; [|exact Hx']; intros c Hc; cbv beta; rewrite (not_bad_uU c Hc); apply andb_false_r).
    reflexivity.
  - assert (E: last_n 3 (x ++ t) = last_n 3 t).
    { unfold last_n. rewrite !nsub_sub, app_length, skipn_app.
      rewrite (skipn_all2 x) by lia. cbn [app]. f_equal. lia. }
    rewrite E. reflexivity.
Qed.

(* the C type a suffix spells: `unsigned ` per u/U, `long ` per l/L, then `int` *)
Definition spec_type (t: str) : str :=
  concat_str (repeat (s2l "unsigned ") (count_if is_uU t)) ++ concat_str (repeat (s2l "long ") (count_if is_lL t)) ++ s2l "int".

Definition tail_ok (t: str) : bool :=
  match int_const_type false t with Some ty => str_eqb ty (spec_type t) | None => false end.

Definition rule_ok (r: re) : bool :=
  match rsplit r with
  | Some (b, ts) => alpha_ok BAD b && forallb tail_ok ts
  | None => false
  end.

(* the four integer rules of the regenerated table have the shape  digits . suffix  with digits free of
   u/U/l/L and every possible suffix classified correctly (computed on the table) *)
Lemma int_rules_ok : rule_ok re_INT_CONST_DEC = true /\ rule_ok re_INT_CONST_OCT = true /\
                     rule_ok re_INT_CONST_HEX = true /\ rule_ok re_INT_CONST_BIN = true.
Proof. vm_compute. repeat split; reflexivity. Qed.

Lemma str_eqb_eq' : forall a b, str_eqb a b = true -> a = b.
Proof.
  induction a as [|x a IH]; destruct b as [|y b]; cbn; intros H; try discriminate; [reflexivity|].
  apply andb_true_iff in H. destruct H as [H1 H2]. apply N.eqb_eq in H1. subst. f_equal. apply IH. exact H2.
Qed.

Theorem int_word_classified : forall r w, rule_ok r = true -> in_re r w ->
  exists x t, w = x ++ t /\ Forall (fun c => ~ In c BAD) x /\ int_const_type false w = Some (spec_type t).
Proof.
  intros r w Hok Hin. unfold rule_ok in Hok. destruct (rsplit r) as [[b ts]|] eqn:E; [|discriminate].
  apply andb_true_iff in Hok. destruct Hok as [Ha Ht].
  destruct (rsplit_sound _ _ _ _ E Hin) as (x & t & -> & Hb & Hint).
  pose proof (alpha_ok_sound _ _ _ Ha Hb) as Hx.
  rewrite forallb_forall in Ht. specialize (Ht _ Hint). unfold tail_ok in Ht. rename Ht into Hty.
  exists x, t. split; [reflexivity|]. split; [exact Hx|].
  rewrite (int_type_of_suffix x t Hx). destruct (int_const_type false t) as [ty|]; [|discriminate].
  apply str_eqb_eq' in Hty. rewrite Hty. reflexivity.
Qed.
End IL.

(* ---- the lexer side: an integer token's spelling is a word of its rule ---- *)
Definition int_kind (k: kind) : option re :=
  match k with
  | K_INT_CONST_DEC => Some re_INT_CONST_DEC | K_INT_CONST_OCT => Some re_INT_CONST_OCT
  | K_INT_CONST_HEX => Some re_INT_CONST_HEX | K_INT_CONST_BIN => Some re_INT_CONST_BIN
  | _ => None
  end.

(* in the regenerated tables: a regex rule that emits an integer kind has the  digits . suffix  shape with
   correctly typed suffixes; no fixed token, keyword or identifier has an integer kind *)
Definition is_int_kind (k: kind) : bool := match int_kind k with Some _ => true | None => false end.

Lemma int_rules_of_table :
  forallb (fun r => match ract r with
                    | A_TOKEN k => if is_int_kind k then rule_ok (rre r) else true
                    | _ => true end) regex_rules = true.
Proof. vm_compute. reflexivity. Qed.
Lemma fixed_not_int : forallb (fun b => forallb (fun kl => negb (is_int_kind (fst kl))) (snd b)) fixed_by_first = true.
Proof. vm_compute. reflexivity. Qed.
Lemma keywords_not_int : forallb (fun kv => negb (is_int_kind (snd kv))) keyword_map = true.
Proof. vm_compute. reflexivity. Qed.

Definition item_ok (i: raw_item) : Prop :=
  match i with
  | RTok k v _ _ _ => is_int_kind k = true ->
      exists x t, v = x ++ t /\ Forall (fun c => ~ In c BAD) x /\ int_const_type false v = Some (spec_type t)
  | _ => True
  end.

Lemma first_rule_match : forall rules n0 s r len, first_rule rules n0 s = Some (r, len) ->
  In r rules /\ exists s', match_re n0 (rre r) s = Some (len, s').
Proof.
  induction rules as [|r0 rs IH]; intros n0 s r len H; [discriminate|]. cbn [first_rule] in H.
  destruct (match_re n0 (rre r0) s) as [[l s1]|] eqn:E.
  - injection H as <- <-. split; [left; reflexivity|eauto].
  - destruct (IH _ _ _ _ H) as [Hin Hm]. split; [right; exact Hin|exact Hm].
Qed.

Lemma bucket_scan_in : forall b s k lit, bucket_scan b s = Some (k, lit) -> In (k, lit) b.
Proof.
  induction b as [|[k0 l0] b IH]; intros s k lit H; [discriminate|]. cbn [bucket_scan] in H.
  destruct (starts_with l0 s); [injection H as <- <-; left; reflexivity|right; eapply IH; eauto].
Qed.
Lemma bucket_of_in : forall c bs b, bucket_of c bs = Some b -> exists c', In (c', b) bs.
Proof.
  induction bs as [|[c' b0] bs IH]; intros b H; [discriminate|]. cbn [bucket_of] in H.
  destruct (N.eqb c c'); [injection H as <-; exists c'; left; reflexivity|].
  destruct (IH _ H) as [c2 Hc]. exists c2. right. exact Hc.
Qed.

Lemma fixed_match_not_int : forall s k lit, fixed_match s = Some (k, lit) -> is_int_kind k = false.
Proof.
  intros s k lit H. unfold fixed_match in H. destruct s as [|c s']; [discriminate|].
  destruct (bucket_of c fixed_by_first) as [b|] eqn:Eb; [|discriminate].
  destruct (bucket_of_in _ _ _ Eb) as [c' Hb]. apply bucket_scan_in in H.
  pose proof fixed_not_int as T. rewrite forallb_forall in T. specialize (T _ Hb). cbn [snd] in T.
  rewrite forallb_forall in T. specialize (T _ H). cbn [fst] in T. destruct (is_int_kind k); [discriminate|reflexivity].
Qed.

Lemma keyword_kind_not_int : forall v, is_int_kind (keyword_kind v) = false.
Proof.
  intros v. unfold keyword_kind. destruct (assoc_str v keyword_map) as [k|] eqn:E; [|reflexivity].
  assert (Hin: exists v', In (v', k) keyword_map).
  { clear - E. induction keyword_map as [|[a b] l IH]; [discriminate|]. cbn [assoc_str] in E.
    destruct (str_eqb v a); [injection E as <-; exists a; left; reflexivity|]. destruct (IH E) as [v' H]. exists v'. right. exact H. }
  destruct Hin as [v' Hin]. pose proof keywords_not_int as T. rewrite forallb_forall in T. specialize (T _ Hin). cbn [snd] in T.
  destruct (is_int_kind k); [discriminate|reflexivity].
Qed.

Lemma match_token_items_ok : forall n0 st rest, Forall item_ok (fst (fst (match_token n0 st rest))).
Proof.
  intros n0 st rest. unfold match_token, choose_best.
  destruct (first_rule regex_rules n0 rest) as [[r len]|] eqn:Ef.
  - destruct (first_rule_match _ _ _ _ _ Ef) as [Hin [s' Hm]].
    assert (Hreg: Forall item_ok (fst (fst (
       let value := firstn len rest in
       match ract r with
       | A_TOKEN k => ([mk_tok st k value (l_pos st)], mkLex (l_pos st + N.of_nat len) (l_line_start st) (l_lineno st) (l_file st), skipn len rest)
       | A_ID => ([mk_tok st (keyword_kind value) value (l_pos st)], mkLex (l_pos st + N.of_nat len) (l_line_start st) (l_lineno st) (l_file st), skipn len rest)
       | A_ERROR msg =>
         let len' := Nat.max 1 len in
         let msg' := if str_eqb (rname r) name_BAD_CHAR_CONST then Some (msg_bad_char_const value) else msg in
         match msg' with
         | None => ([RCrash], st, rest)
         | Some mm => ([mk_err st mm (l_pos st)], mkLex (l_pos st + N.of_nat len') (l_line_start st) (l_lineno st) (l_file st), skipn len' rest)
         end
       end)))).
    { cbv zeta. destruct (ract r) as [k| |msg] eqn:Ea.
      - cbn [fst]. constructor; [|constructor]. unfold mk_tok, item_ok. intros Hk.
        pose proof int_rules_of_table as T. rewrite forallb_forall in T. specialize (T _ Hin). rewrite Ea, Hk in T.
        destruct (match_re_lang _ _ _ _ _ Hm) as [Hl _]. apply (int_word_classified (rre r) _ T Hl).
      - cbn [fst]. constructor; [|constructor]. unfold mk_tok, item_ok. intros Hk. rewrite keyword_kind_not_int in Hk. discriminate.
      - destruct (if str_eqb (rname r) name_BAD_CHAR_CONST then Some (msg_bad_char_const (firstn len rest)) else msg); cbn [fst];
          constructor; try constructor; exact I. }
    destruct (fixed_match rest) as [[k lit]|] eqn:Efx.
    + destruct (Nat.ltb len (length lit)).
      * cbn [fst]. constructor; [|constructor]. unfold mk_tok, item_ok. intros Hk. rewrite (fixed_match_not_int _ _ _ Efx) in Hk. discriminate.
      * exact Hreg.
    + exact Hreg.
  - destruct (fixed_match rest) as [[k lit]|] eqn:Efx.
    + cbn [fst]. constructor; [|constructor]. unfold mk_tok, item_ok. intros Hk. rewrite (fixed_match_not_int _ _ _ Efx) in Hk. discriminate.
    + destruct rest; cbn [fst]; constructor; try constructor; exact I.
Qed.

Lemma lex_iter_items_ok : forall n0 st rest, Forall item_ok (fst (fst (lex_iter n0 st rest))).
Proof.
  intros n0 st rest. unfold lex_iter. destruct rest as [|c rest']; [constructor|].
  destruct (is_blank c); [constructor|]. destruct (N.eqb c 10); [constructor|].
  destruct (N.eqb c 35); [|apply match_token_items_ok].
  destruct (match_re n0 re_line_pattern rest').
  - unfold handle_ppline. destruct (split_line rest') as [line after].
    destruct (ppline_scan line) as [[pl|] pf|msg off]; cbn [fst]; try (constructor; [exact I|constructor]).
    destruct (forallb is_ascii_digit pl); cbn [fst]; [constructor|constructor; [exact I|constructor]].
  - destruct (match_re n0 re_pragma_pattern rest').
    + unfold handle_pppragma. destruct (skip_ws _ rest') as [p1 r1]. destruct r1 as [|x r1tl]; [constructor|].
      destruct (negb (starts_with s_pragma (x :: r1tl))); [cbn [fst]; constructor; [exact I|constructor]|].
      destruct (skip_ws _ _) as [start r2]. destruct (split_line r2) as [body after].
      destruct body; destruct after; cbn [fst]; repeat constructor; unfold mk_tok, item_ok; intros Hk; discriminate.
    + cbn [fst]. constructor; [|constructor]. unfold mk_tok, item_ok. intros Hk. discriminate.
Qed.

(* every integer-constant token of the whole token stream of any text: its spelling is digits (free of
   u/U/l/L) followed by a suffix, and _parse_constant's classifier gives it the type that suffix spells *)
Theorem lexer_int_tokens_typed : forall fuel st rest, Forall item_ok (fst (fst (raw_lex fuel st rest))).
Proof.
  induction fuel as [|f IH]; intros st rest.
  - destruct rest; constructor.
  - destruct rest as [|c r]; [constructor|]. cbn [raw_lex].
    pose proof (lex_iter_items_ok (S f) st (c :: r)) as Hi.
    destruct (lex_iter (S f) st (c :: r)) as [[items st'] rest']. cbn [fst] in Hi.
    destruct (has_crash items); [exact Hi|].
    specialize (IH st' rest'). destruct (raw_lex f st' rest') as [[more stf] cc]. cbn [fst] in *.
    apply Forall_app. split; assumption.
Qed.
