(* C03: each declared entity gets its own Decl / Typedef, in source order: the loop of _build_declarations returns
   exactly one node per declarator, the i-th one built by build_one from the i-th declarator (with the specifiers as
   threaded so far), for declarator lists of any length. *)
From Coq Require Import List NArith Bool Arith Lia.
Import ListNotations.
From PV Require Import Regex Base LexTables ParserTables AstDefs AstSpec AstImpl PyRepr NodeModel ParserBase ParserDecl.
Open Scope nat_scope.

Section BD.
Variable P : Type.

Theorem build_loop_one_per_declarator : forall ds spec it tns (s: pstate P) decls spec' s',
  build_loop P spec it tns ds s = Ok ((decls, spec'), s') ->
  Forall2 (fun d r => exists sp sp' sa sb, build_one P sp it tns d sa = Ok ((r, sp'), sb)) ds decls.
Proof.
  induction ds as [|d ds IH]; intros spec it tns s decls spec' s' H; cbn [build_loop] in H.
  - unfold ret in H. injection H as <- _ _. constructor.
  - unfold bind at 1 in H. destruct (build_one P spec it tns d s) as [[[r sp1] s1]| | |] eqn:E1; try discriminate.
    unfold bind at 1 in H. cbn [snd] in H.
    destruct (build_loop P sp1 it tns ds s1) as [[[rs sp2] s2]| | |] eqn:E2; try discriminate.
    unfold ret in H. cbn [fst snd] in H. injection H as <- _ _.
    constructor; [exists spec, sp1, s, s1; exact E1|]. eapply IH; exact E2.
Qed.

Corollary build_loop_length : forall ds spec it tns (s: pstate P) decls spec' s',
  build_loop P spec it tns ds s = Ok ((decls, spec'), s') -> length decls = length ds.
Proof.
  intros ds spec it tns s decls spec' s' H. apply build_loop_one_per_declarator in H.
  induction H; cbn [length]; congruence.
Qed.
End BD.
