(* C11: identifiers and constants carry exactly the position of the token that spells them.
   For EVERY parser state: whenever p_identifier / p_identifier_or_typeid / p_constant (the only producers of ID and
   Constant nodes for identifiers and literals in expressions, declarators, designators and member names) return a
   node, the call consumed exactly one token t - the next token of the stream (advance from the same state returns
   it and leads to the same state) - the node spells tv t, and its coordinate is the position tp t of that very token
   in the file in force at that moment. *)
From Coq Require Import List NArith Bool Arith.
Import ListNotations.
From PV Require Import Regex Base AstDefs AstSpec AstImpl NodeModel LexTables ParserTables PyRepr ParserBase ParserDecl ParserMain.

Lemma kind_eqb_eq' : forall a b, kind_eqb a b = true -> a = b.
Proof. intros a b H. destruct a; destruct b; try reflexivity; vm_compute in H; discriminate H. Qed.

Section CT.
Variable P : Type.
Notation pstate := (ParserBase.pstate P).

Theorem identifier_is_its_token : forall (s: pstate) N s', p_identifier P s = Ok (N, s') ->
  exists t, advance P s = Ok (t, s') /\ tk t = K_ID /\ N = VNode C_ID [VStr (tv t)] (Some (mkCoord P (curfile P s') (tp t))).
Proof.
  intros s N s' H. unfold p_identifier, expect in H. unfold bind at 1 in H. unfold bind at 1 in H.
  destruct (advance P s) as [[t s1]| | |] eqn:Ea; try discriminate H.
  destruct (kind_eqb (tk t) K_ID) eqn:Ek.
  - cbn in H. injection H as <- <-. exists t. split; [reflexivity|]. split; [apply kind_eqb_eq'; exact Ek|reflexivity].
  - cbn in H. discriminate H.
Qed.

Theorem identifier_or_typeid_is_its_token : forall (s: pstate) N s', p_identifier_or_typeid P s = Ok (N, s') ->
  exists t, advance P s = Ok (t, s') /\ (tk t = K_ID \/ tk t = K_TYPEID) /\ N = VNode C_ID [VStr (tv t)] (Some (mkCoord P (curfile P s') (tp t))).
Proof.
  intros s N s' H. unfold p_identifier_or_typeid in H. unfold bind at 1 in H.
  destruct (advance P s) as [[t s1]| | |] eqn:Ea; try discriminate H. cbn in H.
  destruct (kind_eqb (tk t) K_ID) eqn:E1; cbn in H.
  - injection H as <- <-. exists t. split; [reflexivity|]. split; [left; apply kind_eqb_eq'; exact E1|reflexivity].
  - destruct (kind_eqb (tk t) K_TYPEID) eqn:E2; cbn in H; [|discriminate H].
    injection H as <- <-. exists t. split; [reflexivity|]. split; [right; apply kind_eqb_eq'; exact E2|reflexivity].
Qed.

Theorem constant_is_its_token : forall (s: pstate) N s', p_constant P s = Ok (N, s') ->
  exists t ty, advance P s = Ok (t, s') /\ N = VNode C_Constant [VStr ty; VStr (tv t)] (Some (mkCoord P (curfile P s') (tp t))).
Proof.
  intros s N s' H. unfold p_constant in H. unfold bind at 1 in H.
  destruct (advance P s) as [[t s1]| | |] eqn:Ea; try discriminate H.
  unfold bind at 1 in H. change (tok_coord P t s1) with (@Ok P (coord P * pstate) (mkCoord P (curfile P s1) (tp t), s1)) in H. cbv beta iota in H.
  destruct (kind_in (tk t) tbl_INT_CONST).
  - destruct (int_const_type (kind_eqb (tk t) K_INT_CONST_CHAR) (tv t)) as [ty|]; [|unfold crash in H; discriminate H].
    unfold ret in H. injection H as <- <-. exists t, ty. split; reflexivity.
  - destruct (kind_in (tk t) tbl_FLOAT_CONST).
    + destruct (float_const_type (tv t)) as [ty|]; [|unfold crash in H; discriminate H]. unfold ret in H. injection H as <- <-. exists t, ty. split; reflexivity.
    + destruct (kind_in (tk t) tbl_CHAR_CONST); [|unfold fail in H; discriminate H]. unfold ret in H. injection H as <- <-. exists t, (s2l "char"). split; reflexivity.
Qed.
End CT.
