(* C15: eval(repr(s)) = s for every Python string (all code points below 2^32),
   for every printability oracle. *)
From Coq Require Import List NArith ZArith Bool Arith Lia.
Import ListNotations.
From PV Require Import Regex Base PyRepr PyEval.
Open Scope N_scope.
Ltac Zify.zify_post_hook ::= Z.to_euclidean_division_equations.

Lemma hexval_hex_digit : forall d, d < 16 -> hexval (hex_digit d) = Some d.
Proof.
  intros d Hd. unfold hex_digit, hexval. destruct (N.ltb d 10) eqn:E.
  - apply N.ltb_lt in E.
    assert (H1: (48 <=? 48 + d) = true) by (apply N.leb_le; lia).
    assert (H2: (48 + d <=? 57) = true) by (apply N.leb_le; lia).
    rewrite H1, H2. cbn [andb]. f_equal. lia.
  - apply N.ltb_ge in E.
    assert (H0: ((48 <=? 87 + d) && (87 + d <=? 57)) = false).
    { apply andb_false_iff. right. apply N.leb_gt. lia. }
    rewrite H0.
    assert (H1: (97 <=? 87 + d) = true) by (apply N.leb_le; lia).
    assert (H2: (87 + d <=? 102) = true) by (apply N.leb_le; lia).
    rewrite H1, H2. cbn [andb]. f_equal. lia.
Qed.

Lemma land15 : forall n, N.land n 15 = n mod 16.
Proof. intros n. change 15 with (N.ones 4). rewrite N.land_ones. reflexivity. Qed.
Lemma shiftr4 : forall n, N.shiftr n 4 = n / 16.
Proof. intros n. rewrite N.shiftr_div_pow2. reflexivity. Qed.

Lemma hex_fixed_acc : forall w n acc, hex_fixed w n acc = hex_fixed w n [] ++ acc.
Proof.
  induction w as [|w IH]; intros n acc; cbn [hex_fixed]; [reflexivity|].
  rewrite IH. rewrite (IH _ [_]). rewrite <- app_assoc. reflexivity.
Qed.

Lemma hexnum_app : forall l1 l2 a, hexnum (l1 ++ l2) a = match hexnum l1 a with Some v => hexnum l2 v | None => None end.
Proof.
  induction l1 as [|d l1 IH]; intros l2 a; cbn [app hexnum]; [reflexivity|].
  destruct (hexval d); [apply IH|reflexivity].
Qed.

Lemma hexnum_hex_fixed : forall w n a, n < 16 ^ N.of_nat w -> hexnum (hex_fixed w n []) a = Some (a * 16 ^ N.of_nat w + n).
Proof.
  induction w as [|w IH]; intros n a Hn.
  - cbn in *. f_equal. lia.
  - cbn [hex_fixed]. rewrite hex_fixed_acc, hexnum_app.
    rewrite Nat2N.inj_succ, N.pow_succ_r' in Hn.
    rewrite IH; [|rewrite shiftr4; apply N.div_lt_upper_bound; lia].
    cbn [hexnum]. rewrite land15. rewrite hexval_hex_digit; [|apply N.mod_lt; lia].
    f_equal. rewrite shiftr4. rewrite Nat2N.inj_succ, N.pow_succ_r'.
    pose proof (N.div_mod n 16 ltac:(lia)). nia.
Qed.

Lemma hex2 : forall c, c < 256 -> exists a b, hex_fixed 2 c [] = [a; b] /\ hexnum [a; b] 0 = Some c.
Proof.
  intros c Hc. eexists; eexists. split; [reflexivity|].
  change [_; _] with (hex_fixed 2 c []). rewrite hexnum_hex_fixed; [f_equal; lia|exact Hc].
Qed.
Lemma hex4 : forall c, c < 65536 -> exists a b c1 d, hex_fixed 4 c [] = [a; b; c1; d] /\ hexnum [a; b; c1; d] 0 = Some c.
Proof.
  intros c Hc. do 4 eexists. split; [reflexivity|].
  change [_; _; _; _] with (hex_fixed 4 c []). rewrite hexnum_hex_fixed; [f_equal; lia|exact Hc].
Qed.
Lemma hex8 : forall c, c < 4294967296 -> exists a b c1 d a2 b2 c2 d2,
  hex_fixed 8 c [] = [a; b; c1; d; a2; b2; c2; d2] /\ hexnum [a; b; c1; d; a2; b2; c2; d2] 0 = Some c.
Proof.
  intros c Hc. do 8 eexists. split; [reflexivity|].
  change [_; _; _; _; _; _; _; _] with (hex_fixed 8 c []). rewrite hexnum_hex_fixed; [f_equal; lia|exact Hc].
Qed.

Lemma decode1_x2 : forall q a b t v, (q = 39 \/ q = 34) -> hexnum [a; b] 0 = Some v ->
  decode1 q (92 :: 120 :: a :: b :: t) = Some (Some v, t).
Proof. intros q a b t v Hq H. destruct Hq; subst q; cbn -[hexnum]; rewrite H; reflexivity. Qed.
Lemma decode1_u4 : forall q a b c d t v, (q = 39 \/ q = 34) -> hexnum [a; b; c; d] 0 = Some v ->
  decode1 q (92 :: 117 :: a :: b :: c :: d :: t) = Some (Some v, t).
Proof. intros q a b c d t v Hq H. destruct Hq; subst q; cbn -[hexnum]; rewrite H; reflexivity. Qed.
Lemma decode1_U8 : forall q a b c d a2 b2 c2 d2 t v, (q = 39 \/ q = 34) -> hexnum [a; b; c; d; a2; b2; c2; d2] 0 = Some v ->
  decode1 q (92 :: 85 :: a :: b :: c :: d :: a2 :: b2 :: c2 :: d2 :: t) = Some (Some v, t).
Proof. intros q a b c d a2 b2 c2 d2 t v Hq H. destruct Hq; subst q; cbn -[hexnum]; rewrite H; reflexivity. Qed.
Lemma decode1_plain : forall q c t, N.eqb c q = false -> N.eqb c 10 = false -> N.eqb c 92 = false ->
  decode1 q (c :: t) = Some (Some c, t).
Proof. intros q c t H1 H2 H3. unfold decode1. rewrite H1, H2, H3. reflexivity. Qed.

(* one character: what repr writes for it is read back as that character *)
Lemma decode1_repr_char : forall pr q c tail, (q = 39 \/ q = 34) -> c < 4294967296 ->
  decode1 q (repr_char pr q c ++ tail) = Some (Some c, tail).
Proof.
  intros pr q c tail Hq Hc. unfold repr_char, BSLASH.
  destruct (N.eqb c q || N.eqb c 92) eqn:E1.
  { apply orb_true_iff in E1. destruct E1 as [E|E]; apply N.eqb_eq in E; subst c.
    - destruct Hq; subst q; reflexivity.
    - destruct Hq; subst q; reflexivity. }
  apply orb_false_iff in E1. destruct E1 as [Ecq Ecb].
  destruct (N.eqb c 9) eqn:E9; [apply N.eqb_eq in E9; subst; destruct Hq; subst q; reflexivity|].
  destruct (N.eqb c 10) eqn:E10; [apply N.eqb_eq in E10; subst; destruct Hq; subst q; reflexivity|].
  destruct (N.eqb c 13) eqn:E13; [apply N.eqb_eq in E13; subst; destruct Hq; subst q; reflexivity|].
  destruct (N.ltb c 32 || N.eqb c 127) eqn:Ectl.
  { assert (Hlt: c < 256) by (apply orb_true_iff in Ectl; destruct Ectl as [H|H]; [apply N.ltb_lt in H; lia|apply N.eqb_eq in H; lia]).
    destruct (hex2 c Hlt) as (a & b & Hf & Hn). rewrite Hf. cbn [app]. apply decode1_x2; assumption. }
  destruct (N.ltb c 127) eqn:E127.
  { cbn [app]. apply decode1_plain; assumption. }
  destruct (pr c).
  { cbn [app]. apply decode1_plain; assumption. }
  destruct (N.leb c 255) eqn:E255.
  { apply N.leb_le in E255. destruct (hex2 c ltac:(lia)) as (a & b & Hf & Hn). rewrite Hf. cbn [app]. apply decode1_x2; assumption. }
  destruct (N.leb c 65535) eqn:E64k.
  { apply N.leb_le in E64k. destruct (hex4 c ltac:(lia)) as (a & b & c1 & d & Hf & Hn). rewrite Hf. cbn [app]. apply decode1_u4; assumption. }
  destruct (hex8 c Hc) as (a & b & c1 & d & a2 & b2 & c2 & d2 & Hf & Hn). rewrite Hf. cbn [app]. apply decode1_U8; assumption.
Qed.

Lemma repr_char_len : forall pr q c, (1 <= length (repr_char pr q c))%nat.
Proof.
  intros. unfold repr_char.
  repeat match goal with |- context [if ?b then _ else _] => destruct b end; cbn; try lia;
  rewrite hex_fixed_acc; rewrite app_length; cbn; lia.
Qed.

Lemma unrepr_body_repr : forall pr q s rest fuel, (q = 39 \/ q = 34) ->
  Forall (fun c => c < 4294967296) s ->
  (length (flat_map (repr_char pr q) s ++ [q] ++ rest) <= fuel)%nat ->
  unrepr_body fuel q (flat_map (repr_char pr q) s ++ [q] ++ rest) = Some (s, rest).
Proof.
  intros pr q s rest. induction s as [|c s IH]; intros fuel Hq Hs Hlen.
  - cbn [flat_map app] in *. destruct fuel as [|f]; [cbn in Hlen; lia|].
    cbn [unrepr_body decode1]. rewrite N.eqb_refl. reflexivity.
  - inversion Hs as [|? ? Hc Hr]; subst.
    cbn [flat_map] in *. rewrite <- app_assoc in *.
    destruct fuel as [|f]; [rewrite app_length in Hlen; pose proof (repr_char_len pr q c); lia|].
    cbn [unrepr_body]. rewrite decode1_repr_char by assumption.
    rewrite IH; [reflexivity|exact Hq|exact Hr|].
    rewrite app_length in Hlen. pose proof (repr_char_len pr q c). lia.
Qed.

(* eval(repr(s)) = s, with any text following the literal left untouched *)
Theorem unrepr_repr_str : forall pr s rest, Forall (fun c => c < 4294967296) s ->
  unrepr_str (py_repr_with pr s ++ rest) = Some (s, rest).
Proof.
  intros pr s rest Hs. unfold py_repr_with, unrepr_str. cbn [app].
  assert (Hq: repr_quote s = 39 \/ repr_quote s = 34).
  { unfold repr_quote, QUOTE, DQUOTE. destruct (has_chr 39 s && negb (has_chr 34 s)); auto. }
  assert (Hb: (N.eqb (repr_quote s) 39 || N.eqb (repr_quote s) 34) = true).
  { destruct Hq as [H|H]; rewrite H; reflexivity. }
  rewrite Hb. rewrite <- app_assoc. apply unrepr_body_repr; auto.
Qed.
