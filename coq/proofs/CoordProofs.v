(* C11 on the whole-parser model: every node an expression production returns - and every Compound - carries a
   coordinate (Some c), for every token stream, state and fuel.  One mutual induction over the fifteen
   expression productions; what each one returns takes its coordinate either from a token (tcoord) or from
   an operand that, by induction, has one. *)
From Coq Require Import List NArith Bool Arith Lia.
Import ListNotations.
From PV Require Import Regex Base LexTables ParserTables AstDefs AstSpec AstImpl PyRepr NodeModel ParserBase ParserDecl ParserMain PostLib BinaryRefine ExprShape UnaryShape.
Open Scope nat_scope.

Section CO.
Variable P : Type.
Notation M := (M P).
Notation node := (node P).

Definition hc (v: node) : Prop := exists c, get_coord P v = Some (Some c).

Lemma hc_mk : forall c fs co, hc (mkN P c fs (Some co)).
Proof. intros. exists co. reflexivity. Qed.

Lemma came_tcoord : forall (t: tok P) c, came_from P (tcoord P t) c -> exists c', c = Some c'.
Proof.
  intros t c [s [s' H]]. unfold tcoord, tok_coord, cur_file, bind, get, ret in H. cbn in H. injection H as <- _. eexists. reflexivity.
Qed.
Lemma came_tok_coord : forall (t: tok P) c, came_from P (tok_coord P t) c -> True.
Proof. intros. exact I. Qed.

Lemma hc_via_coordA : forall e ec c fs, came_from P (coordA P e) ec -> hc e -> hc (mkN P c fs ec).
Proof.
  intros e ec c fs H [c' Hc]. apply came_coordA in H. rewrite Hc in H. injection H as <-. exists c'. reflexivity.
Qed.
Lemma hc_via_tcoord : forall (t: tok P) co c fs, came_from P (tcoord P t) co -> hc (mkN P c fs co).
Proof. intros t co c fs H. destruct (came_tcoord _ _ H) as [c' ->]. apply hc_mk. Qed.

(* ---- terminals ---- *)
Lemma hc_identifier : post P hc (p_identifier P).
Proof. unfold p_identifier. post_tac P. apply (post_ret P). eapply hc_via_tcoord; eassumption. Qed.
Lemma hc_identifier_or_typeid : post P hc (p_identifier_or_typeid P).
Proof. unfold p_identifier_or_typeid. post_tac P. apply (post_ret P). apply hc_mk. Qed.
Lemma hc_constant : post P hc (p_constant P).
Proof. unfold p_constant. post_tac P; apply (post_ret P); apply hc_mk. Qed.
Lemma hc_string : forall f, post P hc (p_unified_string_literal P f).
Proof. intros f. unfold p_unified_string_literal. post_tac P. apply (post_ret P). eapply hc_via_tcoord; eassumption. Qed.
Lemma hc_wstring : forall f, post P hc (p_unified_wstring_literal P f).
Proof. intros f. unfold p_unified_wstring_literal. post_tac P. apply (post_ret P). apply hc_mk. Qed.

(* ---- one unfolding step of the remaining productions ---- *)
Lemma cast_eq : forall f,
  p_cast_expression P (S f) =
  bind P (try_paren_type_name P f) (fun r =>
  match r with
  | Some (typ, mk, lpt) =>
    bind P (peek_kind P) (fun k =>
    if okind_is k K_LBRACE then bind P (reset P mk) (fun _ => p_unary_expression P f)
    else bind P (p_cast_expression P f) (fun e => bind P (tcoord P lpt) (fun c => ret P (mkN P C_Cast [typ; e] c))))
  | None => p_unary_expression P f
  end).
Proof. reflexivity. Qed.

Lemma unary_eq : forall f,
  p_unary_expression P (S f) =
  bind P (peek_kind P) (fun k =>
    if okind_is k K_PLUSPLUS || okind_is k K_MINUSMINUS then
      bind P (advance P) (fun t => bind P (p_unary_expression P f) (fun e => bind P (coordA P e) (fun ec =>
      ret P (mkN P C_UnaryOp [VStr (tv t); e] ec))))
    else if okind_in k [K_AND; K_TIMES; K_PLUS; K_MINUS; K_NOT; K_LNOT] then
      bind P (advance P) (fun t => bind P (p_cast_expression P f) (fun e => bind P (coordA P e) (fun ec =>
      ret P (mkN P C_UnaryOp [VStr (tv t); e] ec))))
    else if okind_is k K_SIZEOF then
      bind P (advance P) (fun t =>
      bind P (try_paren_type_name P f) (fun r =>
      match r with
      | Some (typ, _, _) => bind P (tcoord P t) (fun c => ret P (mkN P C_UnaryOp [VStr (tv t); typ] c))
      | None => bind P (p_unary_expression P f) (fun e => bind P (tcoord P t) (fun c => ret P (mkN P C_UnaryOp [VStr (tv t); e] c)))
      end))
    else if okind_is k K_uALIGNOF then
      bind P (advance P) (fun t => bind P (expect P K_LPAREN) (fun _ => bind P (p_type_name P f) (fun typ =>
      bind P (expect P K_RPAREN) (fun _ => bind P (tcoord P t) (fun c => ret P (mkN P C_UnaryOp [VStr (tv t); typ] c))))))
    else p_postfix_expression P f).
Proof. reflexivity. Qed.

Definition complit_of (f: nat) (r: option (node * nat * tok P)) : M (option node) :=
  match r with
  | Some (typ, mk, lpt) =>
    bind P (accept P K_LBRACE) (fun lb =>
    match lb with
    | Some _ =>
      bind P (p_initializer_list P f) (fun init => bind P (accept P K_COMMA) (fun _ => bind P (expect P K_RBRACE) (fun _ =>
      bind P (tcoord P lpt) (fun c => ret P (Some (mkN P C_CompoundLiteral [typ; init] c))))))
    | None => bind P (reset P mk) (fun _ => ret P None)
    end)
  | None => ret P None
  end.

Lemma postfix_eq : forall f,
  p_postfix_expression P (S f) =
  bind P (try_paren_type_name P f) (fun r =>
  bind P (complit_of f r) (fun complit =>
  match complit with
  | Some cl => ret P cl
  | None => bind P (p_primary_expression P f) (fun e => p_postfix_suffixes P f e)
  end)).
Proof. reflexivity. Qed.

Lemma complit_post : forall f r, post P (fun o => match o with Some cl => hc cl | None => True end) (complit_of f r).
Proof.
  intros f r. unfold complit_of. post_tac P; apply (post_ret P); try exact I. eapply hc_via_tcoord; eassumption.
Qed.

Lemma offd_eq : forall f, p_offsetof_member_designator P (S f) = bind P (p_identifier_or_typeid P) (fun n => p_offsetof_suffixes P f n).
Proof. reflexivity. Qed.
Lemma offs_eq : forall f n,
  p_offsetof_suffixes P (S f) n =
  bind P (accept P K_PERIOD) (fun pd =>
  match pd with
  | Some _ => bind P (p_identifier_or_typeid P) (fun fld => bind P (coordA P n) (fun nc =>
              p_offsetof_suffixes P f (mkN P C_StructRef [n; VStr [46%N]; fld] nc)))
  | None =>
    bind P (accept P K_LBRACKET) (fun lb =>
    match lb with
    | Some _ => bind P (p_expression P f) (fun e => bind P (expect P K_RBRACKET) (fun _ => bind P (coordA P n) (fun nc =>
                p_offsetof_suffixes P f (mkN P C_ArrayRef [n; e] nc))))
    | None => ret P n
    end)
  end).
Proof. reflexivity. Qed.
Lemma args_eq : forall f,
  p_argument_expression_list P (S f) =
  bind P (p_assignment_expression P f) (fun e => bind P (p_comma_exprs P f) (fun rest => bind P (coordA P e) (fun ec =>
  ret P (mkN P C_ExprList [VList (e :: rest)] ec)))).
Proof. reflexivity. Qed.
Lemma compound_eq : forall f,
  p_compound_statement P (S f) =
  bind P (expect P K_LBRACE) (fun lb =>
  bind P (accept P K_RBRACE) (fun rb =>
  match rb with
  | Some _ => bind P (tcoord P lb) (fun c => ret P (mkN P C_Compound [VNone] c))
  | None => bind P (p_block_item_list P f) (fun items => bind P (expect P K_RBRACE) (fun _ => bind P (tcoord P lb) (fun c =>
            ret P (mkN P C_Compound [VList items] c))))
  end)).
Proof. reflexivity. Qed.

Definition ALL (f: nat) : Prop :=
  post P hc (p_expression P f) /\ post P hc (p_assignment_expression P f) /\ post P hc (p_conditional_expression P f) /\
  (forall m lhs, hc lhs -> post P hc (p_binary_climb P f m lhs)) /\ (forall p rhs, hc rhs -> post P hc (p_binary_inner P f p rhs)) /\
  post P hc (p_cast_expression P f) /\ post P hc (p_unary_expression P f) /\ post P hc (p_postfix_expression P f) /\
  (forall e, hc e -> post P hc (p_postfix_suffixes P f e)) /\ post P hc (p_primary_expression P f) /\
  post P hc (p_offsetof_member_designator P f) /\ (forall n, hc n -> post P hc (p_offsetof_suffixes P f n)) /\
  post P hc (p_argument_expression_list P f) /\ post P hc (p_compound_statement P f).

Ltac fwd :=
  repeat match goal with
  | H: came_from P ?m ?e, IH: post P hc ?m |- _ =>
      lazymatch goal with He: hc e |- _ => fail | _ => pose proof (came_post P _ m hc e H IH) end
  | H: came_from P (p_binary_climb P ?f ?m ?l) ?e, IH: (forall m lhs, hc lhs -> post P hc (p_binary_climb P ?f m lhs)), Hl: hc ?l |- _ =>
      lazymatch goal with He: hc e |- _ => fail | _ => pose proof (came_post P _ _ hc e H (IH m l Hl)) end
  | H: came_from P (p_binary_inner P ?f ?m ?l) ?e, IH: (forall p rhs, hc rhs -> post P hc (p_binary_inner P ?f p rhs)), Hl: hc ?l |- _ =>
      lazymatch goal with He: hc e |- _ => fail | _ => pose proof (came_post P _ _ hc e H (IH m l Hl)) end
  end.

Ltac hcg := first [ assumption | apply hc_mk | (eapply hc_via_coordA; [eassumption|eassumption]) | (eapply hc_via_tcoord; eassumption) ].

Ltac leaf :=
  fwd;
  first
  [ apply (post_ret P); hcg
  | assumption
  | apply hc_identifier | apply hc_constant | apply hc_string | apply hc_wstring | apply hc_identifier_or_typeid
  | match goal with
    | IH: (forall m lhs, hc lhs -> post P hc (p_binary_climb P ?f m lhs)) |- post P hc (p_binary_climb P ?f _ _) => apply IH; hcg
    | IH: (forall p rhs, hc rhs -> post P hc (p_binary_inner P ?f p rhs)) |- post P hc (p_binary_inner P ?f _ _) => apply IH; hcg
    | IH: (forall e, hc e -> post P hc (p_postfix_suffixes P ?f e)) |- post P hc (p_postfix_suffixes P ?f _) => apply IH; hcg
    | IH: (forall n, hc n -> post P hc (p_offsetof_suffixes P ?f n)) |- post P hc (p_offsetof_suffixes P ?f _) => apply IH; hcg
    end ].

Lemma all_have_coordinates : forall f, ALL f.
Proof.
  induction f as [|f IH].
  - unfold ALL. repeat match goal with |- _ /\ _ => split end; intros; apply (post_oof P).
  - destruct IH as (H1 & H2 & H3 & H4 & H5 & H6 & H7 & H8 & H9 & H10 & H11 & H12 & H13 & H14).
    pose proof hc_identifier as T1. pose proof hc_identifier_or_typeid as T2. pose proof hc_constant as T3.
    pose proof (hc_string f) as T4. pose proof (hc_wstring f) as T5.
    unfold ALL. repeat match goal with |- _ /\ _ => split end.
    + rewrite expr_eq. post_tac P; leaf.
    + rewrite assign_eq. post_tac P; leaf.
    + rewrite cond_eq. post_tac P; leaf.
    + intros m lhs Hl. rewrite climb_eq. post_tac P; leaf.
    + intros p rhs Hr. rewrite inner_eq. post_tac P; leaf.
    + rewrite cast_eq. post_tac P; leaf.
    + rewrite unary_eq. post_tac P; leaf.
    + rewrite postfix_eq. apply (post_bind_from P); intros r Hr. apply (post_bind_from P); intros o Ho.
      pose proof (came_post P _ _ _ _ Ho (complit_post f r)) as Hcl. destruct o as [cl|]; [apply (post_ret P); exact Hcl|].
      post_tac P; leaf.
    + intros e He. rewrite UnaryShape.suffix_eq. post_tac P; leaf.
    + rewrite primary_eq. post_tac P; leaf.
    + rewrite offd_eq. post_tac P; leaf.
    + intros n Hn. rewrite offs_eq. post_tac P; leaf.
    + rewrite args_eq. post_tac P; leaf.
    + rewrite compound_eq. post_tac P; leaf.
Qed.

(* every expression node has a coordinate *)
Theorem expression_has_coordinate : forall f, post P hc (p_expression P f).
Proof. intros f. apply (all_have_coordinates f). Qed.
Theorem assignment_expression_has_coordinate : forall f, post P hc (p_assignment_expression P f).
Proof. intros f. apply (all_have_coordinates f). Qed.
Theorem conditional_expression_has_coordinate : forall f, post P hc (p_conditional_expression P f).
Proof. intros f. apply (all_have_coordinates f). Qed.
Theorem compound_has_coordinate : forall f, post P hc (p_compound_statement P f).
Proof. intros f. apply (all_have_coordinates f). Qed.
End CO.
