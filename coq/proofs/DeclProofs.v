(* C03 core: _type_modify_decl splices modifier chains - for chains of any length. *)
From Coq Require Import List NArith Bool Arith Lia.
Import ListNotations.
From PV Require Import Regex Base LexTables ParserTables AstDefs AstSpec AstImpl PyRepr NodeModel ParserBase.

Open Scope nat_scope.
Section DP.
Variable P : Type.
Notation node := (node P).
Notation coord := (coord P).

(* one derivation step of a declarator: pointer / array / function *)
Inductive link :=
| LPtr (quals: node) (co: option coord)
| LArr (dim dim_quals: node) (co: option coord)
| LFun (args: node) (co: option coord).

Definition wrap (l: link) (inner: node) : node :=
  match l with
  | LPtr q co => VNode C_PtrDecl [q; inner] co
  | LArr d dq co => VNode C_ArrayDecl [inner; d; dq] co
  | LFun a co => VNode C_FuncDecl [a; inner] co
  end.

(* a chain: the first link is the outermost node *)
Definition build (ls: list link) (base: node) : node := fold_right wrap base ls.

Definition typedecl (fs: list node) (co: option coord) : node := VNode C_TypeDecl fs co.

Lemma get_type_wrap : forall l x, get_attr P a_type (wrap l x) = Some x.
Proof. destruct l; reflexivity. Qed.
Lemma set_type_wrap : forall l x y, set_attr P a_type y (wrap l x) = Some (wrap l y).
Proof. destruct l; reflexivity. Qed.
Lemma wrap_not_typedecl : forall l x, is_cls P C_TypeDecl (wrap l x) = false.
Proof. destruct l; reflexivity. Qed.
Lemma wrap_truthy : forall l x, truthy P (wrap l x) = true.
Proof. destruct l; reflexivity. Qed.
Lemma typedecl_is : forall fs co, is_cls P C_TypeDecl (typedecl fs co) = true.
Proof. reflexivity. Qed.

Lemma set_tail_build : forall lm x fuel s, lm <> [] -> length lm <= fuel ->
  set_tail P fuel (build lm VNone) x s = Ok (build lm x, s).
Proof.
  induction lm as [|l lm IH]; intros x fuel s Hne Hlen; [congruence|].
  destruct fuel as [|f]; [cbn in Hlen; lia|].
  cbn [build fold_right set_tail]. unfold bind, getA, lift_opt. rewrite get_type_wrap. cbn [ret].
  destruct lm as [|l2 lm2].
  - cbn [fold_right truthy]. unfold setA, lift_opt. rewrite set_type_wrap. reflexivity.
  - change (fold_right wrap VNone (l2 :: lm2)) with (build (l2 :: lm2) VNone).
    assert (Ht: truthy P (build (l2 :: lm2) VNone) = true) by (cbn [build fold_right]; apply wrap_truthy).
    rewrite Ht. rewrite IH; [|discriminate|cbn in *; lia].
    unfold setA, lift_opt. rewrite set_type_wrap. reflexivity.
Qed.

Lemma splice_build : forall ld fs co lm fuel s, ld <> [] -> lm <> [] -> length ld + length lm <= fuel ->
  splice P fuel (build ld (typedecl fs co)) (build lm VNone) s = Ok (build (ld ++ lm) (typedecl fs co), s).
Proof.
  induction ld as [|l ld IH]; intros fs co lm fuel s Hd Hm Hlen; [congruence|].
  destruct fuel as [|f]; [cbn in Hlen; lia|].
  cbn [build fold_right splice app]. unfold bind, getA, lift_opt. rewrite get_type_wrap. cbn [ret].
  destruct ld as [|l2 ld2].
  - cbn [fold_right app]. rewrite typedecl_is.
    rewrite set_tail_build; [|exact Hm|cbn in Hlen; lia].
    unfold setA, lift_opt. rewrite set_type_wrap. reflexivity.
  - change (fold_right wrap (typedecl fs co) (l2 :: ld2)) with (build (l2 :: ld2) (typedecl fs co)).
    assert (Hn: is_cls P C_TypeDecl (build (l2 :: ld2) (typedecl fs co)) = false) by (cbn [build fold_right]; apply wrap_not_typedecl).
    rewrite Hn. rewrite IH; [|discriminate|exact Hm|cbn in *; lia].
    unfold setA, lift_opt. rewrite set_type_wrap. reflexivity.
Qed.

(* _type_modify_decl(decl, modifier): the modifier chain is spliced between the declarator's own
   chain and its TypeDecl - for a declarator chain and a modifier chain of any length *)
Theorem modify_splice : forall ld fs co lm fuel s, lm <> [] -> length ld + length lm <= fuel ->
  type_modify_decl P fuel (build ld (typedecl fs co)) (build lm VNone) s
  = Ok (build (ld ++ lm) (typedecl fs co), s).
Proof.
  intros ld fs co lm fuel s Hm Hlen. unfold type_modify_decl.
  destruct ld as [|l ld].
  - cbn [build fold_right app]. rewrite typedecl_is. apply set_tail_build; [exact Hm|cbn in Hlen; lia].
  - assert (Hn: is_cls P C_TypeDecl (build (l :: ld) (typedecl fs co)) = false) by (cbn [build fold_right]; apply wrap_not_typedecl).
    rewrite Hn. unfold bind. rewrite set_tail_build; [|exact Hm|lia].
    apply splice_build; [discriminate|exact Hm|exact Hlen].
Qed.

(* the derivations of a chain, outermost first *)
Definition derivs (ls: list link) : list link := ls.

(* consequence: applying the pointer prefix and then each suffix in source order builds the chain
   in C's inside-out order: `* D [3] (void)` with D the name gives  Arr, Fun, Ptr  under the name *)
Corollary pointer_then_suffixes : forall fs co ptrs suffixes fuel s,
  ptrs <> [] -> suffixes <> [] -> length suffixes + length ptrs <= fuel ->
  type_modify_decl P fuel (build suffixes (typedecl fs co)) (build ptrs VNone) s
  = Ok (build (suffixes ++ ptrs) (typedecl fs co), s).
Proof. intros. apply modify_splice; assumption. Qed.
End DP.
