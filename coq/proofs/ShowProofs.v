(* C14: Node.show prints exactly one line per reachable node.  For every AST whose header lines (class name,
   attribute values as show renders them, coordinate text) contain no newline - which excludes exactly the
   nodes that carry a node or a multi-line string in a plain attribute - and every combination of show's
   options: the number of newline characters of the output equals the number of reachable nodes (pre-order). *)
From Coq Require Import List NArith Bool Arith Lia.
Import ListNotations.
From PV Require Import Regex Base AstDefs AstSpec AstImpl PyRepr NodeModel VisitProofs.
Open Scope nat_scope.

Section SH.
Variable P : Type.
Variable pr : N -> bool.
Variable coord_str : option P -> str.
Variable o : show_opts.
Notation value := (value P).

Definition nl (s: str) : nat := length (filter (N.eqb 10) s).
Lemma nl_app : forall a b, nl (a ++ b) = nl a + nl b.
Proof. intros. unfold nl. rewrite filter_app, app_length. reflexivity. Qed.
Lemma nl_zero : forall s, ~ In 10%N s -> nl s = 0.
Proof.
  intros s H. unfold nl. induction s as [|c s IH]; [reflexivity|]. cbn [filter].
  destruct (N.eqb_spec 10 c) as [E|_]; [exfalso; apply H; left; symmetry; exact E|]. apply IH. intros Hi. apply H. right. exact Hi.
Qed.

(* the header line of a node, as show builds it *)
Definition header (fuel offset: nat) (my_name: option str) (ci: class_impl) (fs: list value) (co: option P) : str :=
  let lead := spaces offset in
  let head := match so_nodenames o, my_name with
              | true, Some nm => lead ++ ci_name ci ++ s2l " <" ++ nm ++ s2l ">: "
              | _, _ => lead ++ ci_name ci ++ s2l ": "
              end in
  let nv := filter (fun p => so_showemptyattrs o || negb (is_empty_attr P (snd p)))
              (flat_map (fun n => match get_field P ci fs n with Some a => [(n, a)] | None => [] end) (ci_attr_names ci)) in
  let attrstr := join_str [44; 32]%N
                   (map (fun p => if so_attrnames o then fst p ++ [61%N] ++ attr_str P pr fuel (snd p) else attr_str P pr fuel (snd p)) nv) in
  let coordstr := if so_showcoord o then s2l " (at " ++ coord_str co ++ [41%N] else [] in
  head ++ attrstr ++ coordstr.

Lemma show_eq : forall f offset my_name c fs co,
  show P pr coord_str o (S f) offset my_name (VNode c fs co) =
  match impl_of c with
  | None => None
  | Some ci =>
    match children_of P ci fs with
    | None => None
    | Some ch =>
      match (fix go (l: list (str * value)) : option str :=
               match l with
               | [] => Some []
               | (nm, cv) :: l' =>
                 match show P pr coord_str o f (offset + 2) (Some nm) cv, go l' with
                 | Some a, Some b => Some (a ++ b)
                 | _, _ => None
                 end
               end) ch with
      | Some rest => Some (header (S f) offset my_name ci fs co ++ [10%N] ++ rest)
      | None => None
      end
    end
  end.
Proof.
  intros. cbn [show]. destruct (impl_of c) as [ci|]; [|reflexivity].
  destruct (children_of P ci fs) as [ch|]; [|reflexivity].
  match goal with |- match ?G with _ => _ end = match ?G' with _ => _ end => change G' with G; destruct G as [rest|] end; [|reflexivity].
  unfold header. rewrite <- !app_assoc. reflexivity.
Qed.

(* every header line of the tree is free of newlines *)
Fixpoint headers_ok (fuel offset: nat) (my_name: option str) (v: value) : Prop :=
  match fuel with
  | O => True
  | S f =>
    match v with
    | VNode c fs co =>
      match impl_of c with
      | None => True
      | Some ci =>
        ~ In 10%N (header (S f) offset my_name ci fs co) /\
        match children_of P ci fs with
        | None => True
        | Some ch => Forall (fun nc => headers_ok f (offset + 2) (Some (fst nc)) (snd nc)) ch
        end
      end
    | _ => True
    end
  end.

Theorem show_one_line_per_node : forall f offset my_name v out,
  show P pr coord_str o f offset my_name v = Some out -> headers_ok f offset my_name v ->
  exists nodes, preorder P f v = Some nodes /\ nl out = length nodes.
Proof.
  induction f as [|f IH]; intros offset my_name v out H Hok; [discriminate|].
  destruct v as [| |l|c fs co]; try discriminate.
  rewrite show_eq in H. cbn [headers_ok] in Hok. cbn [preorder]. unfold children.
  destruct (impl_of c) as [ci|]; [|discriminate]. destruct Hok as [Hh Hch].
  destruct (children_of P ci fs) as [ch|]; [|discriminate].
  assert (Go: forall ch rest, Forall (fun nc => headers_ok f (offset + 2) (Some (fst nc)) (snd nc)) ch ->
     (fix go (l: list (str * value)) : option str :=
        match l with
        | [] => Some []
        | (nm, cv) :: l' =>
          match show P pr coord_str o f (offset + 2) (Some nm) cv, go l' with
          | Some a, Some b => Some (a ++ b)
          | _, _ => None
          end
        end) ch = Some rest ->
     exists ns, (fix go (l: list (str * value)) : option (list cls) :=
                   match l with
                   | [] => Some []
                   | (_, cv) :: l' => match preorder P f cv, go l' with Some a, Some b => Some (a ++ b) | _, _ => None end
                   end) ch = Some ns /\ nl rest = length ns).
  { induction ch0 as [|[nm cv] ch0 IHch]; intros rest Hall Hg.
    - injection Hg as <-. exists []. split; reflexivity.
    - inversion Hall as [|? ? Hcv Hall']; subst. cbn [fst snd] in Hcv.
      destruct (show P pr coord_str o f (offset + 2) (Some nm) cv) as [a|] eqn:Ea; [|discriminate].
      match type of Hg with match ?G with _ => _ end = _ => destruct G as [b|] eqn:Eb; [|discriminate] end.
      injection Hg as <-. destruct (IH _ _ _ _ Ea Hcv) as (n1 & Hp1 & Hl1). destruct (IHch _ Hall' eq_refl) as (n2 & Hp2 & Hl2).
      exists (n1 ++ n2). rewrite Hp1, Hp2. split; [reflexivity|]. rewrite nl_app, app_length. lia. }
  match type of H with match ?G with _ => _ end = _ => destruct G as [rest|] eqn:Eg; [|discriminate] end.
  injection H as <-. destruct (Go _ _ Hch Eg) as (ns & Hp & Hl). rewrite Hp. cbn [option_map].
  exists (c :: ns). split; [reflexivity|]. rewrite !nl_app, (nl_zero _ Hh). change (10%N :: rest) with ([10%N] ++ rest). rewrite nl_app. change (nl [10%N]) with 1. cbn [length]. lia.
Qed.
End SH.
