(* C07 / C02: the parenthesisation rule of CGenerator.visit_BinaryOp is sound for the stratified
   grammar.  With reduce_parentheses=True a left operand that is a BinaryOp of precedence >= the
   parent's and a right operand that is a BinaryOp of precedence > the parent's are printed without
   parentheses; every other non-atomic operand is parenthesised (and is then an atom for the parser).
   Theorem: the flat operator/operand sequence that results derives, in the stratified grammar,
   exactly the tree it was printed from -- for every tree.  With ClimbProofs.D_unique and the
   parser refinement (BinaryRefine.v) the parser therefore rebuilds the same tree.
   With reduce_parentheses=False (the default) every BinaryOp operand is parenthesised: the instance
   keep = (fun _ _ => false). *)
From Coq Require Import List Arith Lia Bool.
Import ListNotations.
From PV Require Import ClimbProofs.

Section GP.
Variable base op : Type.
Variable prec : op -> nat.

Inductive gt := GLeaf (a: base) | GBin (o: op) (l r: gt).

Variable rp : bool.   (* reduce_parentheses *)

(* the two lambdas of visit_BinaryOp: is the operand printed WITHOUT parentheses although it is a BinaryOp? *)
Definition keepL (o: op) (d: gt) : bool :=
  match d with GBin od _ _ => rp && (prec o <=? prec od) | GLeaf _ => false end.
Definition keepR (o: op) (d: gt) : bool :=
  match d with GBin od _ _ => rp && (prec o <? prec od) | GLeaf _ => false end.

(* what the parser sees: atoms are leaves and parenthesised subtrees *)
Fixpoint flatten (t: gt) : gt * list (op * gt) :=
  match t with
  | GLeaf a => (t, [])
  | GBin o l r =>
    let (hl, ll) := if keepL o l then flatten l else (l, []) in
    let (hr, lr) := if keepR o r then flatten r else (r, []) in
    (hl, ll ++ (o, hr) :: lr)
  end.

Fixpoint skel (t: gt) : tree gt op :=
  match t with
  | GLeaf a => Leaf gt op t
  | GBin o l r => Bin gt op o (if keepL o l then skel l else Leaf gt op l) (if keepR o r then skel r else Leaf gt op r)
  end.

Definition top_prec (t: gt) : nat := match t with GBin o _ _ => prec o | GLeaf _ => 0 end.

Notation D := (D gt op prec).

Theorem flatten_derives : forall t, D (top_prec t) (Leaf gt op (fst (flatten t))) (snd (flatten t)) (skel t).
Proof.
  induction t as [a|o l IHl r IHr]; cbn [flatten skel top_prec].
  - cbn. constructor.
  - assert (HL: D (prec o) (Leaf gt op (fst (if keepL o l then flatten l else (l, []))))
                  (snd (if keepL o l then flatten l else (l, []))) (if keepL o l then skel l else Leaf gt op l)).
    { destruct (keepL o l) eqn:E; [|cbn; constructor].
      destruct l as [a|ol l1 l2]; [discriminate|]. cbn [keepL] in E. apply andb_true_iff in E. destruct E as [_ E].
      apply Nat.leb_le in E. eapply D_down; [exact IHl|exact E]. }
    assert (HR: D (S (prec o)) (Leaf gt op (fst (if keepR o r then flatten r else (r, []))))
                  (snd (if keepR o r then flatten r else (r, []))) (if keepR o r then skel r else Leaf gt op r)).
    { destruct (keepR o r) eqn:E; [|cbn; constructor].
      destruct r as [a|orr r1 r2]; [discriminate|]. cbn [keepR] in E. apply andb_true_iff in E. destruct E as [_ E].
      apply Nat.ltb_lt in E. eapply D_down; [exact IHr|exact E]. }
    destruct (if keepL o l then flatten l else (l, [])) as [hl ll].
    destruct (if keepR o r then flatten r else (r, [])) as [hr lr]. cbn [fst snd] in *.
    apply D_bin; [reflexivity|exact HL|exact HR].
Qed.

(* at the entry level of _parse_binary_expression, and unique *)
Theorem generated_sequence_has_exactly_its_tree : forall t T,
  D 0 (Leaf gt op (fst (flatten t))) (snd (flatten t)) T <-> T = skel t.
Proof.
  intros t T. split.
  - intros H. eapply (D_unique gt op prec); [exact H|]. eapply D_down; [apply flatten_derives|lia].
  - intros ->. eapply D_down; [apply flatten_derives|lia].
Qed.
End GP.
