(* C02 / C17 on the whole-parser model: the upper rungs of the expression ladder.
   ?: and assignment associate to the RIGHT (their last operand is parsed by the production itself,
   recursively), a full comma expression is allowed between ? and :, a comma expression is one flat
   list, and a parenthesised expression is returned unchanged (parentheses only group).
   One-step unfoldings proved against the model's text, for every token stream, state and fuel. *)
From Coq Require Import List NArith Bool Arith Lia.
Import ListNotations.
From PV Require Import Regex Base LexTables ParserTables AstDefs AstSpec AstImpl PyRepr NodeModel ParserBase ParserDecl ParserMain.
Open Scope nat_scope.

Section ES.
Variable P : Type.
Notation pstate := (pstate P).
Notation node := (node P).

Lemma cond_eq : forall f,
  p_conditional_expression P (S f) =
  bind P (p_cast_expression P f) (fun lhs0 =>
  bind P (p_binary_climb P f 0 lhs0) (fun e =>
  bind P (accept P K_CONDOP) (fun q =>
  match q with
  | None => ret P e
  | Some _ =>
    bind P (p_expression P f) (fun iftrue =>
    bind P (expect P K_COLON) (fun _ =>
    bind P (p_conditional_expression P f) (fun iffalse =>
    bind P (coordA P e) (fun ec =>
    ret P (mkN P C_TernaryOp [e; iftrue; iffalse] ec)))))
  end))).
Proof. reflexivity. Qed.

(* conditional-expression: binary-expression [ ? expression : conditional-expression ] *)
Theorem conditional_right_assoc : forall f (s s': pstate) r,
  p_conditional_expression P (S f) s = Ok (r, s') ->
  exists lhs0 s1 e s2 q s3,
    p_cast_expression P f s = Ok (lhs0, s1) /\ p_binary_climb P f 0 lhs0 s1 = Ok (e, s2) /\
    accept P K_CONDOP s2 = Ok (q, s3) /\
    match q with
    | None => r = e /\ s' = s3
    | Some _ => exists iftrue s4 c s5 iffalse ec,
        p_expression P f s3 = Ok (iftrue, s4) /\            (* a full comma expression between ? and : *)
        expect P K_COLON s4 = Ok (c, s5) /\
        p_conditional_expression P f s5 = Ok (iffalse, s') /\   (* the third operand is again a conditional-expression *)
        get_coord P e = Some ec /\ r = mkN P C_TernaryOp [e; iftrue; iffalse] ec
    end.
Proof.
  intros f s s' r H. rewrite cond_eq in H. unfold bind at 1 in H.
  destruct (p_cast_expression P f s) as [[lhs0 s1]| | |] eqn:E1; try discriminate.
  unfold bind at 1 in H. destruct (p_binary_climb P f 0 lhs0 s1) as [[e s2]| | |] eqn:E2; try discriminate.
  unfold bind at 1 in H. destruct (accept P K_CONDOP s2) as [[q s3]| | |] eqn:E3; try discriminate.
  exists lhs0, s1, e, s2, q, s3. split; [first [exact E1|reflexivity]|]. split; [first [exact E2|reflexivity]|]. split; [first [exact E3|reflexivity]|]. destruct q as [qt|].
  - unfold bind at 1 in H. destruct (p_expression P f s3) as [[iftrue s4]| | |] eqn:E4; try discriminate.
    unfold bind at 1 in H. destruct (expect P K_COLON s4) as [[c s5]| | |] eqn:E5; try discriminate.
    unfold bind at 1 in H. destruct (p_conditional_expression P f s5) as [[iffalse s6]| | |] eqn:E6; try discriminate.
    unfold bind at 1 in H. unfold coordA, lift_opt in H. destruct (get_coord P e) as [ec|] eqn:Ec; [|unfold crash in H; discriminate].
    unfold ret in H. injection H as <- <-. exists iftrue, s4, c, s5, iffalse, ec. split; [first [exact E4|reflexivity]|]. split; [first [exact E5|reflexivity]|]. split; [first [exact E6|reflexivity]|]. split; [first [exact Ec|reflexivity]|reflexivity].
  - unfold ret in H. injection H as <- <-. split; reflexivity.
Qed.

Lemma expr_eq : forall f,
  p_expression P (S f) =
  bind P (p_assignment_expression P f) (fun e =>
  bind P (accept P K_COMMA) (fun c =>
  match c with
  | None => ret P e
  | Some _ =>
    bind P (p_assignment_expression P f) (fun e2 =>
    bind P (p_comma_exprs P f) (fun rest =>
    bind P (coordA P e) (fun ec =>
    ret P (mkN P C_ExprList [VList (e :: e2 :: rest)] ec))))
  end)).
Proof. reflexivity. Qed.

Lemma comma_eq : forall f,
  p_comma_exprs P (S f) =
  bind P (accept P K_COMMA) (fun c =>
  match c with
  | None => ret P []
  | Some _ => bind P (p_assignment_expression P f) (fun e => bind P (p_comma_exprs P f) (fun r => ret P (e :: r)))
  end).
Proof. reflexivity. Qed.

(* the operands after the first comma: one assignment-expression per comma, in order, nothing else *)
Inductive CommaRun : pstate -> list node -> pstate -> Prop :=
| CR_end : forall s s', accept P K_COMMA s = Ok (None, s') -> CommaRun s [] s'
| CR_more : forall s c s1 f e s2 l s', accept P K_COMMA s = Ok (Some c, s1) ->
    p_assignment_expression P f s1 = Ok (e, s2) -> CommaRun s2 l s' -> CommaRun s (e :: l) s'.

Lemma comma_exprs_run : forall f (s s': pstate) l, p_comma_exprs P f s = Ok (l, s') -> CommaRun s l s'.
Proof.
  induction f as [|f IH]; intros s s' l H; [discriminate|]. rewrite comma_eq in H. unfold bind at 1 in H.
  destruct (accept P K_COMMA s) as [[c s1]| | |] eqn:E; try discriminate. destruct c as [ct|].
  - unfold bind at 1 in H. destruct (p_assignment_expression P f s1) as [[e s2]| | |] eqn:E2; try discriminate.
    unfold bind at 1 in H. destruct (p_comma_exprs P f s2) as [[r s3]| | |] eqn:E3; try discriminate.
    unfold ret in H. injection H as <- <-. eapply CR_more; eauto.
  - unfold ret in H. injection H as <- <-. apply CR_end. exact E.
Qed.

(* expression: a single assignment-expression is returned as it is; two or more become ONE flat ExprList in source order *)
Theorem comma_expression_flat : forall f (s s': pstate) r,
  p_expression P (S f) s = Ok (r, s') ->
  exists e s1 c s2, p_assignment_expression P f s = Ok (e, s1) /\ accept P K_COMMA s1 = Ok (c, s2) /\
    match c with
    | None => r = e /\ s' = s2
    | Some _ => exists e2 s3 rest ec, p_assignment_expression P f s2 = Ok (e2, s3) /\ CommaRun s3 rest s' /\
                                     get_coord P e = Some ec /\ r = mkN P C_ExprList [VList (e :: e2 :: rest)] ec
    end.
Proof.
  intros f s s' r H. rewrite expr_eq in H. unfold bind at 1 in H.
  destruct (p_assignment_expression P f s) as [[e s1]| | |] eqn:E1; try discriminate.
  unfold bind at 1 in H. destruct (accept P K_COMMA s1) as [[c s2]| | |] eqn:E2; try discriminate.
  exists e, s1, c, s2. split; [first [exact E1|reflexivity]|]. split; [first [exact E2|reflexivity]|]. destruct c as [ct|].
  - unfold bind at 1 in H. destruct (p_assignment_expression P f s2) as [[e2 s3]| | |] eqn:E3; try discriminate.
    unfold bind at 1 in H. destruct (p_comma_exprs P f s3) as [[rest s4]| | |] eqn:E4; try discriminate.
    unfold bind at 1 in H. unfold coordA, lift_opt in H. destruct (get_coord P e) as [ec|] eqn:Ec; [|unfold crash in H; discriminate].
    unfold ret in H. injection H as <- <-. exists e2, s3, rest, ec. split; [first [exact E3|reflexivity]|]. split; [eapply comma_exprs_run; eauto|]. split; [first [exact Ec|reflexivity]|reflexivity].
  - unfold ret in H. injection H as <- <-. split; reflexivity.
Qed.

Lemma assign_eq : forall f,
  p_assignment_expression P (S f) =
  bind P (peek_kind P) (fun k1 =>
  bind P (if okind_is k1 K_LPAREN then bind P (peek_kind_k P 2) (fun k2 => ret P (okind_is k2 K_LBRACE)) else ret P false) (fun stmt_expr =>
  if stmt_expr then
    bind P (advance P) (fun _ => bind P (p_compound_statement P f) (fun comp => bind P (expect P K_RPAREN) (fun _ => ret P comp)))
  else
    bind P (p_conditional_expression P f) (fun e =>
    bind P (peek P) (fun t =>
    match t with
    | Some t' =>
      if kind_in (tk t') tbl_ASSIGNMENT_OPS then
        bind P (advance P) (fun op =>
        bind P (p_assignment_expression P f) (fun rhs =>
        bind P (coordA P e) (fun ec =>
        ret P (mkN P C_Assignment [VStr (tv op); e; rhs] ec))))
      else ret P e
    | None => ret P e
    end)))).
Proof. reflexivity. Qed.

(* assignment-expression: the right operand of an assignment operator is again an assignment-expression
   (right-associative); without an assignment operator the conditional-expression is returned as it is *)
Theorem assignment_right_assoc : forall f (s s': pstate) r,
  p_assignment_expression P (S f) s = Ok (r, s') ->
  (exists e s1 t s2, p_conditional_expression P f s1 = Ok (e, s2) /\ peek P s2 = Ok (t, s') /\ r = e /\
                     match t with Some t' => kind_in (tk t') tbl_ASSIGNMENT_OPS = false | None => True end)
  \/ (exists e s1 s2 t' s3 op s4 rhs ec,
        p_conditional_expression P f s1 = Ok (e, s2) /\ peek P s2 = Ok (Some t', s3) /\
        kind_in (tk t') tbl_ASSIGNMENT_OPS = true /\ advance P s3 = Ok (op, s4) /\
        p_assignment_expression P f s4 = Ok (rhs, s') /\ get_coord P e = Some ec /\
        r = mkN P C_Assignment [VStr (tv op); e; rhs] ec)
  \/ (exists comp s1 s2 x, p_compound_statement P f s1 = Ok (comp, s2) /\ expect P K_RPAREN s2 = Ok (x, s') /\ r = comp).
Proof.
  intros f s s' r H. rewrite assign_eq in H. unfold bind at 1 in H.
  destruct (peek_kind P s) as [[k1 sa]| | |]; try discriminate.
  unfold bind at 1 in H.
  destruct ((if okind_is k1 K_LPAREN then bind P (peek_kind_k P 2) (fun k2 => ret P (okind_is k2 K_LBRACE)) else ret P false) sa) as [[se sb]| | |]; try discriminate.
  destruct se.
  - right. right. unfold bind at 1 in H. destruct (advance P sb) as [[x0 s1]| | |]; try discriminate.
    unfold bind at 1 in H. destruct (p_compound_statement P f s1) as [[comp s2]| | |] eqn:E; try discriminate.
    unfold bind at 1 in H. destruct (expect P K_RPAREN s2) as [[x s3]| | |] eqn:E2; try discriminate.
    unfold ret in H. injection H as <- <-. exists comp, s1, s2, x. split; [first [exact E|reflexivity]|]. split; [first [exact E2|reflexivity]|reflexivity].
  - unfold bind at 1 in H. destruct (p_conditional_expression P f sb) as [[e s2]| | |] eqn:E; try discriminate.
    unfold bind at 1 in H. destruct (peek P s2) as [[t s3]| | |] eqn:Ep; try discriminate.
    destruct t as [t'|].
    + destruct (kind_in (tk t') tbl_ASSIGNMENT_OPS) eqn:Ek.
      * right. left. unfold bind at 1 in H. destruct (advance P s3) as [[op s4]| | |] eqn:Ea; try discriminate.
        unfold bind at 1 in H. destruct (p_assignment_expression P f s4) as [[rhs s5]| | |] eqn:Er; try discriminate.
        unfold bind at 1 in H. unfold coordA, lift_opt in H. destruct (get_coord P e) as [ec|] eqn:Ec; [|unfold crash in H; discriminate].
        unfold ret in H. injection H as <- <-. exists e, sb, s2, t', s3, op, s4, rhs, ec. split; [first [exact E|reflexivity]|]. split; [first [exact Ep|reflexivity]|]. split; [first [exact Ek|reflexivity]|]. split; [first [exact Ea|reflexivity]|]. split; [first [exact Er|reflexivity]|]. split; [first [exact Ec|reflexivity]|reflexivity].
      * left. unfold ret in H. injection H as <- <-. exists e, sb, (Some t'), s2. split; [first [exact E|reflexivity]|]. split; [first [exact Ep|reflexivity]|]. split; [reflexivity|first [exact Ek|reflexivity]].
    + left. unfold ret in H. injection H as <- <-. exists e, sb, None, s2. split; [first [exact E|reflexivity]|]. split; [first [exact Ep|reflexivity]|]. split; [reflexivity|exact I].
Qed.

Lemma primary_eq : forall f,
  p_primary_expression P (S f) =
  bind P (peek_kind P) (fun k =>
    if okind_is k K_ID then p_identifier P
    else if okind_in k tbl_INT_CONST || okind_in k tbl_FLOAT_CONST || okind_in k tbl_CHAR_CONST then p_constant P
    else if okind_in k tbl_STRING_LITERAL then p_unified_string_literal P f
    else if okind_in k tbl_WSTR_LITERAL then p_unified_wstring_literal P f
    else if okind_is k K_LPAREN then
      bind P (advance P) (fun _ => bind P (p_expression P f) (fun e => bind P (expect P K_RPAREN) (fun _ => ret P e)))
    else if okind_is k K_OFFSETOF then
      bind P (advance P) (fun ot =>
      bind P (expect P K_LPAREN) (fun _ =>
      bind P (p_type_name P f) (fun typ =>
      bind P (expect P K_COMMA) (fun _ =>
      bind P (p_offsetof_member_designator P f) (fun des =>
      bind P (expect P K_RPAREN) (fun _ =>
      bind P (tcoord P ot) (fun c =>
      ret P (mkN P C_FuncCall [mkN P C_ID [VStr (tv ot)] c; mkN P C_ExprList [VList [typ; des]] c] c))))))))
    else bind P (cur_file P) (fun fl => fail P (L_file P fl) (s2l "Invalid expression"))).
Proof. reflexivity. Qed.

(* ( expression ): the node of the inner expression is returned unchanged - parentheses only group *)
Theorem parentheses_only_group : forall f (s s1 s': pstate) k r,
  p_primary_expression P (S f) s = Ok (r, s') ->
  peek_kind P s = Ok (k, s1) -> okind_is k K_LPAREN = true ->
  exists x s2 s3 y, advance P s1 = Ok (x, s2) /\ p_expression P f s2 = Ok (r, s3) /\ expect P K_RPAREN s3 = Ok (y, s').
Proof.
  intros f s s1 s' k r H Hk Hl. rewrite primary_eq in H. unfold bind at 1 in H. rewrite Hk in H.
  assert (Hkind: exists k', k = Some k' /\ kind_eqb k' K_LPAREN = true).
  { destruct k as [k'|]; [exists k'; split; [reflexivity|exact Hl]|discriminate]. }
  destruct Hkind as (k' & -> & Hk').
  assert (Ek: k' = K_LPAREN).
  { destruct k'; try discriminate; reflexivity. }
  subst k'. cbn [okind_is okind_in kind_eqb] in H.
  change (okind_is (Some K_LPAREN) K_ID) with false in H. cbv iota in H.
  cbn in H.
  unfold bind at 1 in H. destruct (advance P s1) as [[x s2]| | |] eqn:Ea; try discriminate.
  unfold bind at 1 in H. destruct (p_expression P f s2) as [[e s3]| | |] eqn:Ee; try discriminate.
  unfold bind at 1 in H. destruct (expect P K_RPAREN s3) as [[y s4]| | |] eqn:Ex; try discriminate.
  unfold ret in H. injection H as <- <-. exists x, s2, s3, y. split; [first [exact Ea|reflexivity]|]. split; [first [exact Ee|reflexivity]|first [exact Ex|reflexivity]].
Qed.
End ES.
