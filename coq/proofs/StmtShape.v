(* C05 on the whole-parser model: loop bodies, labels and case/default prefixes.
   For every token stream, state and fuel: the body of while / do / for is the ONE statement parsed by the
   statement production right there; a label, `case e:` or `default:` attaches to the ONE statement that
   follows it (an EmptyStatement if none can start there). *)
From Coq Require Import List NArith Bool Arith Lia.
Import ListNotations.
From PV Require Import Regex Base LexTables ParserTables AstDefs AstSpec AstImpl PyRepr NodeModel ParserBase ParserDecl ParserMain.
Open Scope nat_scope.

Section SS.
Variable P : Type.
Notation M := (M P).
Notation node := (node P).

(* a value that some run of m returned *)
Definition came_from {A} (m: M A) (a: A) : Prop := exists s s', m s = Ok (a, s').
Definition post {A} (Q: A -> Prop) (m: M A) : Prop := forall s a s', m s = Ok (a, s') -> Q a.

Lemma post_ret : forall A (Q: A -> Prop) a, Q a -> post Q (ret P a).
Proof. intros A Q a H s a' s' E. unfold ret in E. injection E as <- _. exact H. Qed.
Lemma post_bind_from : forall A B (Q: B -> Prop) (m: M A) (f: A -> M B),
  (forall a, came_from m a -> post Q (f a)) -> post Q (bind P m f).
Proof.
  intros A B Q m f H s b s' E. unfold bind in E. destruct (m s) as [[a s1]| | |] eqn:Em; try discriminate.
  eapply (H a); [exists s, s1; exact Em|exact E].
Qed.
Lemma post_fail : forall A (Q: A -> Prop) l msg, post Q (fail P (A:=A) l msg).
Proof. intros A Q l msg s a s' E. discriminate. Qed.

Ltac post_tac :=
  repeat first
    [ apply post_bind_from; intros
    | match goal with
      | |- post _ (match ?x with _ => _ end) => destruct x
      | |- post _ (if ?b then _ else _) => destruct b
      end
    | apply post_fail ].

Definition stmt_here (f: nat) (st: node) : Prop := came_from (p_pragmacomp_or_statement P f) st.

Theorem loop_body_is_one_statement : forall f,
  post (fun r => exists st c, stmt_here f st /\
          ((exists cond, r = mkN P C_While [cond; st] c) \/ (exists cond, r = mkN P C_DoWhile [cond; st] c) \/
           (exists init cond nx, r = mkN P C_For [init; cond; nx; st] c)))
       (p_iteration_statement P (S f)).
Proof.
  intros f. cbn [p_iteration_statement]. post_tac;
    try (apply post_ret; eexists _, _; split; [eassumption|]; first [left; eexists; reflexivity | right; left; eexists; reflexivity | right; right; eexists _, _, _; reflexivity]).
Qed.

Definition label_body (f: nat) (st: node) : Prop :=
  stmt_here f st \/ exists c, st = mkN P C_EmptyStatement [] c.

(* the statement after the colon: the next statement if one can start here, else an EmptyStatement *)
Definition lbody (f: nat) (t: tok P) : M node :=
  bind P (starts_statement P) (fun ss =>
    if ss then p_pragmacomp_or_statement P f
    else bind P (tcoord P t) (fun c => ret P (mkN P C_EmptyStatement [] c))).

Lemma labeled_eq : forall f,
  p_labeled_statement P (S f) =
  bind P (peek_kind P) (fun k =>
    if okind_is k K_ID then
      bind P (advance P) (fun nt => bind P (expect P K_COLON) (fun _ => bind P (lbody f nt) (fun stmt =>
      bind P (tcoord P nt) (fun c => ret P (mkN P C_Label [VStr (tv nt); stmt] c)))))
    else if okind_is k K_CASE then
      bind P (advance P) (fun ct => bind P (p_conditional_expression P f) (fun e => bind P (expect P K_COLON) (fun _ =>
      bind P (lbody f ct) (fun stmt => bind P (tcoord P ct) (fun c => ret P (mkN P C_Case [e; VList [stmt]] c))))))
    else if okind_is k K_DEFAULT then
      bind P (advance P) (fun dt => bind P (expect P K_COLON) (fun _ => bind P (lbody f dt) (fun stmt =>
      bind P (tcoord P dt) (fun c => ret P (mkN P C_Default [VList [stmt]] c)))))
    else bind P (cur_file P) (fun fl => fail P (L_file P fl) (s2l "Invalid labeled statement"))).
Proof. reflexivity. Qed.

Lemma came_post : forall A (m: M A) (Q: A -> Prop) a, came_from m a -> post Q m -> Q a.
Proof. intros A m Q a [s [s' E]] Hp. eapply Hp; eauto. Qed.

Lemma body_post : forall f t, post (label_body f) (lbody f t).
Proof.
  intros f t. unfold lbody. apply post_bind_from. intros ss _. destruct ss.
  - intros s a s' E. left. exists s, s'. exact E.
  - apply post_bind_from. intros c _. apply post_ret. right. eexists. reflexivity.
Qed.

Theorem label_attaches_to_next_statement : forall f,
  post (fun r => exists st c, label_body f st /\
          ((exists name, r = mkN P C_Label [VStr name; st] c) \/ (exists e, r = mkN P C_Case [e; VList [st]] c) \/
           r = mkN P C_Default [VList [st]] c))
       (p_labeled_statement P (S f)).
Proof.
  intros f. rewrite labeled_eq. post_tac;
    apply post_ret;
    match goal with Hb: came_from (lbody f _) ?x |- _ => pose proof (came_post _ _ _ _ Hb (body_post f _)) as Hl end;
    eexists _, _; (split; [exact Hl|]);
    first [left; eexists; reflexivity | right; left; eexists; reflexivity | right; right; reflexivity].
Qed.
End SS.
