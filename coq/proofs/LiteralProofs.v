(* C10: order-sensitive facts of the regenerated rule table, constant typing. *)
From Coq Require Import String.
From Coq Require Import List NArith Bool Arith Lia.
Import ListNotations.
From PV Require Import Regex Base UnicodeTables LexTables PyRepr Lexer ParserTables NodeModel ParserBase ParserDecl.

Fixpoint rule_index (name: str) (rs: list rule) (i: nat) : option nat :=
  match rs with
  | [] => None
  | r :: rs' => if str_eqb (rname r) name then Some i else rule_index name rs' (S i)
  end.
Definition before (a b: String.string) : bool :=
  match rule_index (s2l a) regex_rules 0, rule_index (s2l b) regex_rules 0 with
  | Some i, Some j => Nat.ltb i j
  | _, _ => false
  end.
Arguments before (a b)%string.

(* the table order that the classification relies on (first matching alternative wins) *)
Theorem rule_order :
  before "BAD_STRING_LITERAL" "STRING_LITERAL" = true /\
  before "BAD_STRING_LITERAL" "WSTRING_LITERAL" = true /\
  before "HEX_FLOAT_CONST" "INT_CONST_HEX" = true /\
  before "FLOAT_CONST" "INT_CONST_OCT" = true /\
  before "FLOAT_CONST" "INT_CONST_DEC" = true /\
  before "INT_CONST_HEX" "INT_CONST_OCT" = true /\
  before "INT_CONST_BIN" "INT_CONST_OCT" = true /\
  before "BAD_CONST_OCT" "INT_CONST_OCT" = true /\
  before "INT_CONST_OCT" "INT_CONST_DEC" = true /\
  before "INT_CONST_CHAR" "CHAR_CONST" = true /\
  before "CHAR_CONST" "UNMATCHED_QUOTE" = true /\
  before "UNMATCHED_QUOTE" "BAD_CHAR_CONST" = true /\
  before "WSTRING_LITERAL" "ID" = true /\
  before "WCHAR_CONST" "ID" = true.
Proof. repeat split; vm_compute; reflexivity. Qed.

(* every error rule has a message (or is BAD_CHAR_CONST, whose message is built from the value):
   the `assert msg is not None` of _match_token cannot fire *)
Theorem error_rules_have_messages :
  forallb (fun r => match ract r with
                    | A_ERROR None => str_eqb (rname r) name_BAD_CHAR_CONST
                    | _ => true end) regex_rules = true.
Proof. vm_compute. reflexivity. Qed.

(* a multi-character constant is an int, whatever its letters *)
Theorem multichar_is_int : forall v: str, int_const_type true v = Some (s2l "int").
Proof. reflexivity. Qed.

(* an integer spelling without suffix letters is an int *)
Lemma count_if_zero : forall (f: N -> bool) l, forallb (fun c => negb (f c)) l = true -> count_if f l = 0%nat.
Proof.
  unfold count_if. induction l as [|c l IH]; intros H; [reflexivity|].
  cbn in H. apply andb_true_iff in H. destruct H as [Hc Hr]. apply negb_true_iff in Hc.
  cbn. rewrite Hc. apply IH. exact Hr.
Qed.

Theorem no_suffix_is_int : forall v: str,
  forallb (fun c => negb (is_lL c) && negb (is_uU c)) (last_n 3 v) = true ->
  int_const_type false v = Some (s2l "int").
Proof.
  intros v H. unfold int_const_type.
  assert (Hl: count_if is_lL (last_n 3 v) = 0%nat).
  { apply count_if_zero. rewrite forallb_forall in *. intros c Hc. specialize (H c Hc).
    apply andb_true_iff in H. tauto. }
  assert (Hu: count_if (fun c => negb (is_lL c) && is_uU c) (last_n 3 v) = 0%nat).
  { apply count_if_zero. rewrite forallb_forall in *. intros c Hc. specialize (H c Hc).
    apply andb_true_iff in H. destruct H as [_ H2]. apply negb_true_iff in H2. rewrite H2.
    rewrite andb_false_r. reflexivity. }
  rewrite Hl, Hu. reflexivity.
Qed.

(* suffix forms, by computation on representatives *)
Example suffix_typing :
  int_const_type false (s2l "10u") = Some (s2l "unsigned int") /\
  int_const_type false (s2l "10UL") = Some (s2l "unsigned long int") /\
  int_const_type false (s2l "0x1Fll") = Some (s2l "long long int") /\
  int_const_type false (s2l "7LLU") = Some (s2l "unsigned long long int") /\
  int_const_type false (s2l "0b1l") = Some (s2l "long int") /\
  float_const_type (s2l "1.5f") = Some (s2l "float") /\
  float_const_type (s2l "2e3L") = Some (s2l "long double") /\
  float_const_type (s2l "0x1p3") = Some (s2l "double").
Proof. repeat split; vm_compute; reflexivity. Qed.
