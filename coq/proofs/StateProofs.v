(* C12 / C13: the static state inventory (regenerated) and the generic isolation argument. *)
From Coq Require Import List NArith Bool Arith Lia.
Import ListNotations.
From PV Require Import Regex Base StateFacts.

Definition subset (a b: list str) : bool := forallb (fun x => mem_str x b) a.

(* every CParser attribute that any method writes after construction is re-assigned at the top of parse();
   the lexer is re-initialised there through clex.input() *)
Theorem parser_state_reset_by_parse :
  subset parser_attrs_after_init parse_resets_attrs = true
  /\ mem_str (s2l "self.clex.input") parse_resets_calls = true
  /\ subset parser_attrs (s2l "clex" :: parse_resets_attrs) = true.
Proof. repeat split; vm_compute; reflexivity. Qed.

(* CLexer.input() starts with _init_state(), which re-assigns every attribute the lexer ever mutates *)
Theorem lexer_state_reset_by_input :
  mem_str (s2l "self._init_state") lexer_input_calls = true
  /\ subset lexer_attrs_after_init lexer_init_state_attrs = true.
Proof. split; vm_compute; reflexivity. Qed.

(* the token stream is a fresh object per parse whose constructor assigns all its attributes *)
Theorem tokenstream_fresh : subset tokenstream_attrs tokenstream_init_attrs = true.
Proof. vm_compute. reflexivity. Qed.

(* the generator mutates nothing but indent_level *)
Theorem generator_only_indent : subset generator_attrs_after_init [s2l "indent_level"] = true.
Proof. vm_compute. reflexivity. Qed.

(* no function or method writes to a module-level object, a class attribute or a default-argument object,
   and no class keeps a mutable object at class level *)
Theorem no_shared_mutable : global_writes = [] /\ class_level_mutable_objects = [].
Proof. split; vm_compute; reflexivity. Qed.

(* ---- history independence of a call that starts by resetting all its state ---------------- *)
Section Reset.
Variables (St In Out : Type).
Variable fresh : In -> St.            (* what the resets at the top of the call compute from the arguments *)
Variable body : St -> Out * St.       (* the rest of the call, reading and writing only the reset state *)
Definition call (st: St) (x: In) : Out * St := body (fresh x).

Theorem call_history_independent : forall st st' x, fst (call st x) = fst (call st' x).
Proof. reflexivity. Qed.

Fixpoint run_calls (st: St) (xs: list In) : list Out :=
  match xs with [] => [] | x :: r => let (o, st') := call st x in o :: run_calls st' r end.

(* the n-th call on a reused instance gives what a brand-new instance gives *)
Theorem reused_equals_fresh : forall xs st st0, run_calls st xs = map (fun x => fst (call st0 x)) xs.
Proof.
  induction xs as [|x r IH]; intros st st0; cbn; [reflexivity|].
  unfold call at 1. destruct (body (fresh x)) as [o st'] eqn:E. cbn. f_equal.
  - unfold call. rewrite E. reflexivity.
  - apply IH.
Qed.
End Reset.

(* ---- isolation of instances with disjoint state (token-granularity interleavings) ----------- *)
Section Isolation.
Variables (S1 S2 : Type).
Variable step1 : S1 -> S1.
Variable step2 : S2 -> S2.

(* a schedule says which instance takes the next step *)
Fixpoint run_sched (sched: list bool) (s: S1 * S2) : S1 * S2 :=
  match sched with
  | [] => s
  | true :: r => run_sched r (step1 (fst s), snd s)
  | false :: r => run_sched r (fst s, step2 (snd s))
  end.

Fixpoint iter {A} (f: A -> A) (n: nat) (a: A) : A := match n with O => a | S k => iter f k (f a) end.

Theorem interleaving_equals_solo : forall sched s,
  run_sched sched s = (iter step1 (length (filter (fun b => b) sched)) (fst s),
                       iter step2 (length (filter negb sched)) (snd s)).
Proof.
  induction sched as [|b r IH]; intros [a c]; cbn; [reflexivity|].
  destruct b; cbn; rewrite IH; reflexivity.
Qed.
End Isolation.
