(* C09: each token's column is where it really starts: 1 + the number of characters since the
   last newline of the text consumed before it - for every input on which no error was reported. *)
From Coq Require Import List NArith Bool Arith Lia.
Import ListNotations.
From PV Require Import Regex Base UnicodeTables LexTables PyRepr Lexer RegexLemmas LexerProofs.
Open Scope N_scope.

(* ---- a regex that can never consume character c ---------------------------------------- *)
Fixpoint no_chr (c: N) (r: re) : bool :=
  match r with
  | Eps | AtEnd | NotAhead _ => true
  | Chr cs => negb (cset_mem c cs)
  | Seq a b | Alt a b => no_chr c a && no_chr c b
  | Star a => no_chr c a
  end.

Lemma m_no_chr : forall c r A n0 i s k x, no_chr c r = true -> m A n0 r i s k = Some x ->
  exists p s', s = p ++ s' /\ k (i + length p)%nat s' = Some x /\ ~ In c p.
Proof.
  intros c. induction r as [|cs|a IHa b IHb|a IHa b IHb|a IHa|a IHa|]; intros A n0 i s k x Hn H; cbn [m no_chr] in *.
  - exists [], s. rewrite Nat.add_0_r. auto.
  - destruct s as [|d s']; [discriminate|]. destruct (cset_mem d cs) eqn:E; [|discriminate].
    exists [d], s'. cbn [length]. replace (i + 1)%nat with (S i) by lia. repeat split; auto.
    intros [Hd|[]]. subst. rewrite E in Hn. discriminate.
  - apply andb_true_iff in Hn. destruct Hn as [Ha Hb].
    apply IHa in H; [|exact Ha]. destruct H as (p1 & s1 & -> & Hk & N1).
    apply IHb in Hk; [|exact Hb]. destruct Hk as (p2 & s2 & -> & Hk2 & N2).
    exists (p1 ++ p2), s2. rewrite app_assoc, app_length, Nat.add_assoc. repeat split; auto.
    intros Hin. apply in_app_or in Hin. tauto.
  - apply andb_true_iff in Hn. destruct Hn as [Ha Hb].
    destruct (m A n0 a i s k) as [y|] eqn:E.
    + inversion H; subst y. apply (IHa _ _ _ _ _ _ Ha E).
    + apply (IHb _ _ _ _ _ _ Hb H).
  - assert (Hloop: forall n i0 s0 x0,
      (fix loop (n : nat) (i : nat) (s : str) {struct n} : option A :=
         match n with
         | 0%nat => k i s
         | S n' => match m A n0 a i s (fun i' s' => loop n' i' s') with Some x => Some x | None => k i s end
         end) n i0 s0 = Some x0 -> exists p s', s0 = p ++ s' /\ k (i0 + length p)%nat s' = Some x0 /\ ~ In c p).
    { induction n as [|n IHn]; intros i0 s0 x0 Hl.
      - exists [], s0. rewrite Nat.add_0_r. auto.
      - match type of Hl with match ?M with _ => _ end = _ => destruct M as [y|] eqn:Hm end.
        + inversion Hl; subst y. apply IHa in Hm; [|exact Hn]. destruct Hm as (p1 & s1 & -> & Hk1 & N1).
          apply IHn in Hk1. destruct Hk1 as (p2 & s2 & -> & Hk2 & N2).
          exists (p1 ++ p2), s2. rewrite app_assoc, app_length, Nat.add_assoc. repeat split; auto.
          intros Hin. apply in_app_or in Hin. tauto.
        + exists [], s0. rewrite Nat.add_0_r. auto. }
    apply Hloop in H. exact H.
  - destruct (m unit n0 a i s (fun _ _ => Some tt)); [discriminate|]. exists [], s. rewrite Nat.add_0_r. auto.
  - destruct (at_end s); [|discriminate]. exists [], s. rewrite Nat.add_0_r. auto.
Qed.

(* table theorems: no token rule and no fixed token can contain a newline *)
Definition is_token_rule (r: rule) : bool := match ract r with A_ERROR _ => false | _ => true end.
Lemma token_rules_no_newline : forallb (fun r => negb (is_token_rule r) || no_chr 10 (rre r)) regex_rules = true.
Proof. vm_compute. reflexivity. Qed.
Lemma fixed_no_newline : forallb (fun e => negb (existsb (N.eqb 10) (snd e))) fixed_tokens = true.
Proof. vm_compute. reflexivity. Qed.
Lemma buckets_in_fixed :
  forallb (fun cb => forallb (fun e => existsb (fun e' => kind_eqb (fst e) (fst e') && str_eqb (snd e) (snd e')) fixed_tokens) (snd cb)) fixed_by_first = true.
Proof. vm_compute. reflexivity. Qed.

(* ---- the real position of the next character ------------------------------------------- *)
(* characters of pre after its last newline *)
Fixpoint last_line_from (s acc: str) : str :=
  match s with
  | [] => acc
  | c :: r => if N.eqb c 10 then last_line_from r [] else last_line_from r (acc ++ [c])
  end.
Definition last_line (pre: str) : str := last_line_from pre [].

Lemma last_line_from_app_nonl : forall p s acc, ~ In 10 p -> last_line_from (s ++ p) acc = last_line_from s acc ++ p.
Proof.
  intros p s. induction s as [|c r IH]; intros acc Hn; cbn.
  - revert acc. induction p as [|d q IHq]; intros acc; cbn; [now rewrite app_nil_r|].
    destruct (N.eqb d 10) eqn:E; [apply N.eqb_eq in E; subst; exfalso; apply Hn; left; reflexivity|].
    rewrite IHq; [now rewrite <- app_assoc|]. intros Hin. apply Hn. right. exact Hin.
  - destruct (N.eqb c 10); apply IH; exact Hn.
Qed.
Lemma last_line_app_nonl : forall pre p, ~ In 10 p -> last_line (pre ++ p) = last_line pre ++ p.
Proof. intros. apply last_line_from_app_nonl. assumption. Qed.
Lemma last_line_from_nl : forall s acc, last_line_from (s ++ [10]) acc = [].
Proof. induction s as [|c r IH]; intros acc; cbn; [reflexivity|]. destruct (N.eqb c 10); apply IH. Qed.
Lemma last_line_nl : forall pre, last_line (pre ++ [10]) = [].
Proof. intros. apply last_line_from_nl. Qed.

(* lexer state agrees with the text consumed so far *)
Definition PosInv (pre: str) (st: lexst) : Prop :=
  l_pos st = lenN pre /\ l_line_start st = lenN pre - lenN (last_line pre).

Lemma lenN_app : forall a b: str, lenN (a ++ b) = lenN a + lenN b.
Proof. intros. unfold lenN. rewrite app_length, Nat2N.inj_add. reflexivity. Qed.
Lemma last_line_le : forall pre, lenN (last_line pre) <= lenN pre.
Proof.
  intros pre. unfold last_line.
  assert (H: forall s acc, lenN (last_line_from s acc) <= lenN acc + lenN s).
  { induction s as [|c r IH]; intros acc; cbn [last_line_from]; [unfold lenN; cbn; lia|].
    destruct (N.eqb c 10).
    - specialize (IH []). unfold lenN in *. cbn [length] in *. lia.
    - specialize (IH (acc ++ [c])). rewrite lenN_app in IH. unfold lenN in *. cbn [length] in *. lia. }
  specialize (H pre []). unfold lenN in *. cbn [length] in *. lia.
Qed.

Definition no_err (items: list raw_item) : bool :=
  forallb (fun i => match i with RTok _ _ _ _ _ => true | _ => false end) items.

(* what a token-producing match consumed contains no newline *)
Lemma first_rule_no_newline : forall rules n0 s r len,
  forallb (fun r => negb (is_token_rule r) || no_chr 10 (rre r)) rules = true ->
  first_rule rules n0 s = Some (r, len) -> is_token_rule r = true -> ~ In 10 (firstn len s).
Proof.
  induction rules as [|r0 rs IH]; intros n0 s r len Ht H Hr; cbn [first_rule] in H; [discriminate|].
  cbn [forallb] in Ht. apply andb_true_iff in Ht. destruct Ht as [H0 Hrs].
  destruct (match_re n0 (rre r0) s) as [[l s1]|] eqn:Hm.
  - inversion H; subst. rewrite Hr in H0. cbn in H0.
    unfold match_re in Hm. apply (m_no_chr 10) in Hm; [|exact H0].
    destruct Hm as (p & s2 & -> & Hk & Hn). inversion Hk; subst. cbn [Nat.add]. rewrite firstn_len_app. exact Hn.
  - eapply IH; eauto.
Qed.

Lemma fixed_match_no_newline : forall s k lit, fixed_match s = Some (k, lit) -> ~ In 10 lit.
Proof.
  intros s k lit H. unfold fixed_match in H. destruct s as [|c s]; [discriminate|].
  destruct (bucket_of c fixed_by_first) as [b|] eqn:Hb; [|discriminate].
  apply bucket_scan_sound in H. destruct H as [Hin _]. apply bucket_of_in in Hb.
  pose proof buckets_in_fixed as Hbf. rewrite forallb_forall in Hbf. specialize (Hbf _ Hb). cbn [snd] in Hbf.
  rewrite forallb_forall in Hbf. specialize (Hbf _ Hin). apply existsb_exists in Hbf. destruct Hbf as (e' & He' & Heq).
  apply andb_true_iff in Heq. destruct Heq as [_ Hs]. apply str_eqb_eq in Hs. cbn [snd] in Hs. subst lit.
  pose proof fixed_no_newline as Hf. rewrite forallb_forall in Hf. specialize (Hf _ He').
  apply negb_true_iff in Hf. intros Hin10.
  assert (Hex: existsb (N.eqb 10) (snd e') = true).
  { apply existsb_exists. exists 10. split; [exact Hin10|reflexivity]. }
  pose proof (eq_trans (eq_sym Hex) Hf) as Habs. discriminate Habs.
Qed.

(* _match_token: an error-free match produces one token whose line/column are the lexer's current
   line and the real column, and keeps the invariant *)
Theorem match_token_position : forall n0 st pre rest items st' rest',
  PosInv pre st -> rest <> [] -> match_token n0 st rest = (items, st', rest') -> no_err items = true ->
  exists p k, rest = p ++ rest' /\ ~ In 10 p /\ PosInv (pre ++ p) st' /\ l_lineno st' = l_lineno st /\
              items = [RTok k p (l_lineno st) (1 + lenN (last_line pre)) (l_file st)].
Proof.
  intros n0 st pre rest items st' rest' [Hp Hl] Hne H Herr. unfold match_token in H.
  pose proof (last_line_le pre) as Hle.
  assert (Hcol: column_of st (l_pos st) = 1 + lenN (last_line pre)).
  { unfold column_of. rewrite Hp, Hl. lia. }
  destruct (choose_best n0 rest) as [b|] eqn:Hb.
  - pose proof (choose_best_longer n0 rest) as Hcb. rewrite Hb in Hcb.
    pose proof (choose_best_sound _ _ _ Hb) as (p & s' & Hs & Hpne & Hlen). subst rest.
    assert (Hfin: forall k, ~ In 10 p ->
              (items, st', rest') = ([mk_tok st k (firstn (length p) (p ++ s')) (l_pos st)],
                                     mkLex (l_pos st + N.of_nat (length p)) (l_line_start st) (l_lineno st) (l_file st), skipn (length p) (p ++ s')) ->
              exists p0 k0, p ++ s' = p0 ++ rest' /\ ~ In 10 p0 /\ PosInv (pre ++ p0) st' /\ l_lineno st' = l_lineno st /\
                            items = [RTok k0 p0 (l_lineno st) (1 + lenN (last_line pre)) (l_file st)]).
    { intros k Hn E. rewrite firstn_len_app, skipn_len_app in E. inversion E; subst. exists p, k. repeat split; auto.
      - cbn. rewrite Hp, lenN_app. unfold lenN. reflexivity.
      - cbn. rewrite Hl, last_line_app_nonl by exact Hn. rewrite !lenN_app. lia.
      - unfold mk_tok. rewrite Hcol. reflexivity. }
    destruct b as [r len|k len]; subst len.
    + destruct (first_rule regex_rules n0 (p ++ s')) as [[r' len']|] eqn:Hfr.
      2:{ destruct (fixed_match (p ++ s')) as [[? ?]|]; contradiction. }
      assert (Hrl: r = r' /\ length p = len').
      { destruct (fixed_match (p ++ s')) as [[? ?]|]; [destruct Hcb as (? & ? & ?)|destruct Hcb]; auto. }
      destruct Hrl as [<- <-].
      destruct (ract r) as [k| |msg] eqn:Ha.
      * apply (Hfin k); [|symmetry; exact H].
        pose proof (first_rule_no_newline _ _ _ _ _ token_rules_no_newline Hfr) as Hn.
        rewrite firstn_len_app in Hn. apply Hn. unfold is_token_rule. rewrite Ha. reflexivity.
      * apply (Hfin (keyword_kind (firstn (length p) (p ++ s')))); [|symmetry; exact H].
        pose proof (first_rule_no_newline _ _ _ _ _ token_rules_no_newline Hfr) as Hn.
        rewrite firstn_len_app in Hn. apply Hn. unfold is_token_rule. rewrite Ha. reflexivity.
      * exfalso. match type of H with match ?X with _ => _ end = _ => destruct X end; inversion H; subst; cbn in Herr; discriminate.
    + apply (Hfin k); [|symmetry; exact H].
      destruct (fixed_match (p ++ s')) as [[k' lit]|] eqn:Hfm.
      2:{ destruct (first_rule regex_rules n0 (p ++ s')) as [[? ?]|]; contradiction. }
      assert (Hlit: length p = length lit).
      { destruct (first_rule regex_rules n0 (p ++ s')) as [[? ?]|]; [destruct Hcb as (? & ? & ?)|destruct Hcb]; auto. }
      pose proof (fixed_match_no_newline _ _ _ Hfm) as Hn.
      pose proof (fixed_match_sound _ _ _ Hfm) as [_ [s2 Hs2]].
      assert (p = lit).
      { assert (firstn (length p) (p ++ s') = firstn (length lit) (lit ++ s2)) by (rewrite Hlit, Hs2; reflexivity).
        rewrite !firstn_len_app in H0. exact H0. }
      subst. exact Hn.
  - exfalso. destruct rest; [congruence|]. inversion H; subst. cbn in Herr. discriminate.
Qed.

(* blanks and newlines keep the invariant; a newline starts a new line *)
Theorem blank_newline_position : forall n0 st pre c rest items st' rest',
  PosInv pre st -> (is_blank c = true \/ c = 10) -> lex_iter n0 st (c :: rest) = (items, st', rest') ->
  items = [] /\ rest' = rest /\ PosInv (pre ++ [c]) st' /\
  l_lineno st' = (if N.eqb c 10 then l_lineno st + 1 else l_lineno st).
Proof.
  intros n0 st pre c rest items st' rest' [Hp Hl] Hc H. unfold lex_iter in H.
  pose proof (last_line_le pre) as Hle.
  assert (H1: lenN [c] = 1) by reflexivity.
  destruct (is_blank c) eqn:Eb.
  - inversion H; subst. assert (Hn10: N.eqb c 10 = false).
    { unfold is_blank in Eb. apply orb_true_iff in Eb. destruct Eb as [E|E]; apply N.eqb_eq in E; subst; reflexivity. }
    rewrite Hn10. repeat split; auto.
    + cbn [l_pos]. rewrite Hp, lenN_app, H1. reflexivity.
    + cbn [l_line_start]. rewrite Hl, last_line_app_nonl.
      * rewrite !lenN_app, H1. lia.
      * intros [E|[]]. subst. discriminate.
  - destruct Hc as [Hc|Hc]; [congruence|]. subst c. cbn in H. inversion H; subst. repeat split; auto.
    + cbn [l_pos]. rewrite Hp, lenN_app, H1. reflexivity.
    + cbn [l_line_start]. rewrite last_line_nl, Hp, lenN_app, H1. unfold lenN at 3. cbn [length N.of_nat]. lia.
Qed.
