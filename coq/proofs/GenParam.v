(* C07 / C17: CGenerator never looks at coordinates - for every AST, every renaming (or erasure)
   of its coordinates leaves the generated text and the final indentation unchanged.
   By parametricity of the generator model in the coordinate type. *)
From Coq Require Import List NArith ZArith Bool Arith.
Import ListNotations.
From Param Require Import Param.
From PV Require Import Regex Base AstDefs AstSpec AstImpl GenTables NodeModel Generator ParamProofs.

Parametricity Recursive generate qualified.
Notation generate_R := PV_o_model_o_Generator_o_generate_R.
Notation gres_R := PV_o_model_o_Generator_o_gres_R.
Notation Z_R := Coq_o_Numbers_o_BinNums_o_Z_R.
Notation bool_R := Coq_o_Init_o_Datatypes_o_bool_R.

Lemma cls_R_refl : forall c, cls_R c c.
Proof. destruct c; constructor. Defined.
Lemma bool_R_refl : forall b, bool_R b b.
Proof. destruct b; constructor. Defined.
Lemma Z_R_eq : forall a b, Z_R a b -> a = b.
Proof. intros a b r. destruct r as [|p q pr|p q pr]; [reflexivity| |]; f_equal; apply positive_R_eq; exact pr. Qed.

Section G.
Variables (A B : Type) (g : A -> B).

(* v and its renaming are related by the graph of g *)
Fixpoint vmap_related (v: value A) : value_R A B (fun a b => b = g a) v (vmap A B g v) :=
  match v as v0 return value_R A B (fun a b => b = g a) v0 (vmap A B g v0) with
  | VNone => PV_o_model_o_NodeModel_o_value_R_VNone_R A B _
  | VStr s => PV_o_model_o_NodeModel_o_value_R_VStr_R A B _ s s (str_R_refl s)
  | VList l =>
    PV_o_model_o_NodeModel_o_value_R_VList_R A B _ l (map (vmap A B g) l)
      ((fix go (l: list (value A)) : list_R (value A) (value B) (value_R A B (fun a b => b = g a)) l (map (vmap A B g) l) :=
          match l with
          | [] => Coq_o_Init_o_Datatypes_o_list_R_nil_R _ _ _
          | x :: r => Coq_o_Init_o_Datatypes_o_list_R_cons_R _ _ _ x (vmap A B g x) (vmap_related x) r (map (vmap A B g) r) (go r)
          end) l)
  | VNode c fs co =>
    PV_o_model_o_NodeModel_o_value_R_VNode_R A B _ c c (cls_R_refl c) fs (map (vmap A B g) fs)
      ((fix go (l: list (value A)) : list_R (value A) (value B) (value_R A B (fun a b => b = g a)) l (map (vmap A B g) l) :=
          match l with
          | [] => Coq_o_Init_o_Datatypes_o_list_R_nil_R _ _ _
          | x :: r => Coq_o_Init_o_Datatypes_o_list_R_cons_R _ _ _ x (vmap A B g x) (vmap_related x) r (map (vmap A B g) r) (go r)
          end) fs)
      co (option_map g co)
      (match co as o return option_R A B (fun a b => b = g a) o (option_map g o) with
       | Some a => Coq_o_Init_o_Datatypes_o_option_R_Some_R _ _ _ a (g a) eq_refl
       | None => Coq_o_Init_o_Datatypes_o_option_R_None_R _ _ _
       end)
  end.

(* the generated text (and crash / fuel outcome, and final indent) is the same for v and for any renaming of v *)
Theorem gen_ignores_coords : forall rp fuel (v: value A),
  generate B rp fuel (vmap A B g v) = match generate A rp fuel v with
                                       | GOk x => GOk x | GCrash => GCrash | GFuel => GFuel end.
Proof.
  intros rp fuel v.
  pose proof (generate_R A B (fun a b => b = g a) rp rp (bool_R_refl rp) fuel fuel (nat_R_refl fuel) v _ (vmap_related v)) as H.
  destruct H as [[t1 z1] [t2 z2] pr | |].
  - destruct pr as [a1 a2 ar b1 b2 br]. apply str_R_eq in ar. apply Z_R_eq in br. subst. reflexivity.
  - reflexivity.
  - reflexivity.
Qed.
End G.

(* two ASTs that differ only in coordinates generate the same text *)
Corollary gen_same_text_up_to_coords : forall (A1 A2: Type) rp fuel (v1: value A1) (v2: value A2),
  vmap A1 unit (fun _ => tt) v1 = vmap A2 unit (fun _ => tt) v2 ->
  match generate A1 rp fuel v1, generate A2 rp fuel v2 with
  | GOk x, GOk y => x = y
  | GCrash, GCrash => True
  | GFuel, GFuel => True
  | _, _ => False
  end.
Proof.
  intros A1 A2 rp fuel v1 v2 H.
  pose proof (gen_ignores_coords A1 unit (fun _ => tt) rp fuel v1) as H1.
  pose proof (gen_ignores_coords A2 unit (fun _ => tt) rp fuel v2) as H2.
  rewrite H in H1. rewrite H1 in H2.
  destruct (generate A1 rp fuel v1) as [x| |]; destruct (generate A2 rp fuel v2) as [y| |]; try discriminate; auto.
  inversion H2. reflexivity.
Qed.
