(* C04, third phase: where the parser asks "is this identifier a type name?" the answer is the classification the
   identifier got when it was delivered, and that classification is the scope lookup at delivery time.
   For EVERY parser state and token stream:
   - an identifier item is delivered as TYPEID exactly when is_type_in finds it a typedef in the scope stack at that
     moment (identifier_classified_by_scope);
   - the first token of a block item sends the parser to p_declaration exactly when it can start a declaration -
     for an identifier: exactly when it was classified TYPEID (block_item_dispatch);
   - after `(` the cast / compound-literal / sizeof productions try a type name exactly when the next token can
     start a declaration (paren_type / tptn_not_type_c), and otherwise leave the stream untouched: `(T)(x)`,
     `sizeof(T)` read T as a type precisely when it is classified TYPEID. *)
From Coq Require Import String.
From Coq Require Import List NArith Bool Arith Lia.
Import ListNotations.
From PV Require Import Regex Base AstDefs AstSpec AstImpl GenTables NodeModel Generator ClimbProofs ClimbComplete GenParen GenBinop.
From PV Require Import LexTables ParserTables PyRepr ParserBase ParserDecl ParserMain LexerProofs TableProofs.
From PV Require Import BinaryRefine ExprShape UnaryShape CoordProofs ElseProofs StreamLib RoundTrip RoundTripGen TypeName RoundTripX StmtTrip.
Open Scope nat_scope.

Section TD.
Variable P : Type.
Notation pstate := (ParserBase.pstate P).
Notation tok := (ParserBase.tok P).
Notation Up := (StreamLib.Up P).

(* ---- classification at delivery ---- *)
Lemma head_classified : forall (s: pstate) t l, after P s = [] -> Up s (t :: l) ->
  exists i r sc', raw P s = i :: r /\ cl P (scopes P s) i = Some (t, sc').
Proof.
  intros s t l Ha [a [l2 [E1 [E2 HU]]]]. rewrite Ha in E1. destruct a as [|x a]; [|discriminate E1]. cbn [app] in E2. subst l2.
  destruct (UpR_inv P _ _ _ _ HU) as [i [r [sc' [Er [Hc _]]]]]. exists i, r, sc'. split; assumption.
Qed.

Theorem identifier_classified_by_scope : forall (s: pstate) v p fa r t l, after P s = [] -> raw P s = PTok P K_ID v p fa :: r -> Up s (t :: l) ->
  tk t = (if is_type_in (Some v) (scopes P s) then K_TYPEID else K_ID) /\ tv t = v.
Proof.
  intros s v p fa r t l Ha Hr HU. destruct (head_classified s t l Ha HU) as [i [r' [sc' [Er Hc]]]].
  rewrite Hr in Er. injection Er as <- _. cbn in Hc. injection Hc as <- _. split; reflexivity.
Qed.

Theorem other_token_kind_kept : forall (s: pstate) k v p fa r t l, after P s = [] -> raw P s = PTok P k v p fa :: r -> kind_eqb k K_ID = false ->
  Up s (t :: l) -> tk t = k /\ tv t = v.
Proof.
  intros s k v p fa r t l Ha Hr Hk HU. destruct (head_classified s t l Ha HU) as [i [r' [sc' [Er Hc]]]].
  rewrite Hr in Er. injection Er as <- _. cbn [cl] in Hc. rewrite Hk in Hc.
  destruct (kind_eqb k K_LBRACE); [injection Hc as <- _; split; reflexivity|].
  destruct (kind_eqb k K_RBRACE); [destruct (scopes P s) as [|? [|? ?]]; try discriminate Hc; injection Hc as <- _; split; reflexivity|].
  injection Hc as <- _. split; reflexivity.
Qed.

(* ---- a block item: declaration or statement ---- *)
Theorem block_item_dispatch : forall (s: pstate) t l, Up s (t :: l) -> kind_eqb (tk t) K_RBRACE = false ->
  exists s2, Up s2 (t :: l) /\ Same P s s2 /\ forall f,
    p_block_item_list P (S f) s =
    bind P (if kind_in (tk t) tbl_DECL_START then p_declaration P f else bind P (p_statement P f) (fun s0 => ret P (stmt_to_items P s0)))
           (fun items => bind P (p_block_item_list P f) (fun rest => ret P (items ++ rest))) s2.
Proof.
  intros s t l HU Hnrb. destruct (peek_kind_up P s t _ HU) as [s1 [H1 [HU1 HS1]]].
  destruct (peek_kind_up P s1 t _ HU1) as [s2 [H2 [HU2 HS2]]].
  exists s2. split; [exact HU2|]. split; [exact (Same_trans P _ _ _ HS1 HS2)|]. intros f.
  rewrite (blk_eq P). unfold bind at 1. rewrite H1. rewrite Hnrb.
  unfold bind at 1. unfold starts_declaration. unfold bind at 1. rewrite H2. unfold ret at 1. cbn [okind_in]. reflexivity.
Qed.

Lemma typeid_starts_declaration : kind_in K_TYPEID tbl_DECL_START = true /\ kind_in K_ID tbl_DECL_START = false.
Proof. split; vm_compute; reflexivity. Qed.

(* ---- `(` followed by something that can start a declaration: the type name is tried ---- *)
Theorem paren_type : forall (s: pstate) lp x l, Up s (lp :: x :: l) -> kind_eqb (tk lp) K_LPAREN = true ->
  kind_in (tk x) tbl_DECL_START = true ->
  exists s3, Up s3 (x :: l) /\ idx P s3 = S (idx P s) /\ forall f,
    try_paren_type_name P (S f) s =
    bind P (p_type_name P f) (fun typ => bind P (accept P K_RPAREN) (fun rpn =>
      match rpn with
      | None => bind P (reset P (idx P s)) (fun _ => ret P None)
      | Some _ => ret P (Some (typ, idx P s, lp))
      end)) s3.
Proof.
  intros s lp x l HU Hk Hx. destruct (accept_hit P s lp (x :: l) K_LPAREN HU Hk) as [s2 [Ha [HU2 HA]]].
  destruct (peek_kind_up P s2 x l HU2) as [s3 [Hp [HU3 HS]]].
  exists s3. split; [exact HU3|]. split; [destruct HA as (_ & ? & _); destruct HS as (_ & ? & _); congruence|]. intros f.
  rewrite (tptn_eq P). unfold bind at 1. rewrite mark_eq. unfold bind at 1. rewrite Ha.
  unfold bind at 1. unfold starts_declaration. unfold bind at 1. rewrite Hp. unfold ret at 1. cbn [okind_in]. rewrite Hx. cbn [negb]. reflexivity.
Qed.

(* the two together: an identifier that is delivered now, at the start of a block item *)
Theorem identifier_block_item : forall (s: pstate) v p fa r t l, after P s = [] -> raw P s = PTok P K_ID v p fa :: r -> Up s (t :: l) ->
  exists s2, Up s2 (t :: l) /\ Same P s s2 /\ forall f,
    p_block_item_list P (S f) s =
    bind P (if is_type_in (Some v) (scopes P s) then p_declaration P f else bind P (p_statement P f) (fun s0 => ret P (stmt_to_items P s0)))
           (fun items => bind P (p_block_item_list P f) (fun rest => ret P (items ++ rest))) s2.
Proof.
  intros s v p fa r t l Ha Hr HU. destruct (identifier_classified_by_scope s v p fa r t l Ha Hr HU) as [Hk _].
  assert (Hnrb: kind_eqb (tk t) K_RBRACE = false) by (rewrite Hk; destruct (is_type_in (Some v) (scopes P s)); reflexivity).
  destruct (block_item_dispatch s t l HU Hnrb) as [s2 [HU2 [HS2 E]]]. exists s2. split; [exact HU2|]. split; [exact HS2|]. intros f. rewrite E.
  rewrite Hk. destruct (is_type_in (Some v) (scopes P s)); reflexivity.
Qed.
End TD.

(* ---- `( T ) ( x )`: a cast when T was delivered as a type name, a call when it was delivered as an identifier ---- *)
Section CastOrCall.
Variable P : Type.
Definition ptpx (k: kind) (T x: str) : list (kind * str) :=
  [(K_LPAREN, s2l "("); (k, T); (K_RPAREN, s2l ")"); (K_LPAREN, s2l "("); (K_ID, x); (K_RPAREN, s2l ")")].

Lemma id_expr : forall a, ExprS P [(K_ID, a)] (VNode C_ID [VStr a] None) /\ first_ok [(K_ID, a)].
Proof.
  intros a. pose proof (T_all P false 1 (XId a) (le_n _) I) as HT. split; [exact (T_expr P false (XId a) HT)|exact (proj1 HT)].
Qed.

Theorem paren_T_paren_x_type : forall T x,
  CastS P (ptpx K_TYPEID T x) (VNode C_Cast [tn_emb [T]; VNode C_ID [VStr x] None] None).
Proof.
  intros T x. destruct (id_expr x) as [HE Hf].
  exact (cast_type P [(K_TYPEID, T)] (parkv [(K_ID, x)]) _ (typeid_tyok P T) (first_ok_parkv _ Hf) (paren_to_cast P _ _ Hf HE)).
Qed.

Theorem paren_T_paren_x_object : forall T x,
  CastS P (ptpx K_ID T x) (VNode C_FuncCall [VNode C_ID [VStr T] None; VNode C_ExprList [VList [VNode C_ID [VStr x] None]] None] None).
Proof.
  intros T x. destruct (id_expr T) as [HET HfT]. destruct (id_expr x) as [HEx Hfx].
  pose proof (T_all P false 1 (XId x) (le_n _) I) as HTx.
  assert (HA: AsgS P [(K_ID, x)] (VNode C_ID [VStr x] None)) by (destruct HTx as (_ & _ & _ & _ & HA & _); exact (HA eq_refl)).
  pose proof (R_call P (parkv [(K_ID, T)]) (VNode C_ID [VStr T] None) [(K_ID, x)] (VNode C_ID [VStr x] None) [] C_ID [VStr T] None C_ID [VStr x] None
                eq_refl eq_refl (R_paren P _ _ HET) Hfx HA (Forall_nil _)) as HR.
  change (ptpx K_ID T x) with (parkv [(K_ID, T)] ++ (K_LPAREN, s2l "(") :: commas ([(K_ID, x)] :: map fst (@nil (list (kind * str) * value unit))) ++ [(K_RPAREN, s2l ")")]).
  apply chain_cast; [apply first_ok_app; apply first_ok_parkv; exact HfT| |exact HR].
  apply head_idlp_app. apply head_idlp_parkv. exact HfT.
Qed.
End CastOrCall.

(* ---- non-vacuity: `T * x ;` in a block where T is a typedef / an object ---- *)
Definition td_items : list (pitem nat) :=
  [PTok nat K_ID (s2l "T") 1 0; PTok nat K_TIMES (s2l "*") 2 0; PTok nat K_ID (s2l "x") 3 0; PTok nat K_SEMI (s2l ";") 4 0; PTok nat K_RBRACE (s2l "}") 5 0].
Definition td_state (is_type: bool) : pstate nat := mkPS nat td_items 0 [] [] 0 [[]; [(Some (s2l "T"), is_type)]] 0 0%N.
Definition first_class (r: res nat (list (node nat) * pstate nat)) : option cls :=
  match r with Ok (VNode c _ _ :: _, _) => Some c | _ => None end.
Example typedef_decides_declaration :
  first_class (p_block_item_list nat 60 (td_state true)) = Some C_Decl /\
  first_class (p_block_item_list nat 60 (td_state false)) = Some C_BinaryOp /\
  is_type_in (Some (s2l "T")) (scopes nat (td_state true)) = true /\ is_type_in (Some (s2l "T")) (scopes nat (td_state false)) = false.
Proof. repeat split; vm_compute; reflexivity. Qed.
