(* Meta-theory of the continuation-passing matcher. *)
From Coq Require Import List NArith Bool Arith Lia.
Import ListNotations.
From PV Require Import Regex.

(* Every success of [m] is a success of the continuation after consuming a
   prefix [p]; the counter is advanced by exactly [length p]; if the regex is
   not nullable the prefix is not empty. *)
Lemma m_sound : forall r A n0 i s k x, m A n0 r i s k = Some x ->
  exists p s', s = p ++ s' /\ k (i + length p) s' = Some x /\ (nullable r = false -> p <> []).
Proof.
  induction r as [|cs|a IHa b IHb|a IHa b IHb|a IHa|a IHa|]; intros A n0 i s k x H; cbn [m] in H.
  - exists [], s. rewrite Nat.add_0_r. repeat split; auto. discriminate.
  - destruct s as [|c s']; [discriminate|]. destruct (cset_mem c cs); [|discriminate].
    exists [c], s'. cbn [length]. replace (i + 1) with (S i) by lia. repeat split; auto. discriminate.
  - apply IHa in H. destruct H as (p1 & s1 & -> & Hk & Hn1).
    apply IHb in Hk. destruct Hk as (p2 & s2 & -> & Hk2 & Hn2).
    exists (p1 ++ p2), s2. rewrite app_assoc. split; [reflexivity|].
    rewrite app_length. rewrite Nat.add_assoc. split; [exact Hk2|].
    cbn [nullable]. intros Hnull. apply andb_false_iff in Hnull.
    destruct Hnull as [Hn|Hn].
    + specialize (Hn1 Hn). destruct p1; [congruence|discriminate].
    + specialize (Hn2 Hn). destruct p1; [exact Hn2|discriminate].
  - cbn [nullable].
    destruct (m A n0 a i s k) as [y|] eqn:Ha.
    + inversion H; subst y. apply IHa in Ha. destruct Ha as (p & s1 & ? & ? & Hn).
      exists p, s1. repeat split; auto. intros Hnull. apply orb_false_iff in Hnull. apply Hn, Hnull.
    + apply IHb in H. destruct H as (p & s1 & ? & ? & Hn).
      exists p, s1. repeat split; auto. intros Hnull. apply orb_false_iff in Hnull. apply Hn, Hnull.
  - (* Star *)
    cbn [nullable].
    assert (Hloop: forall n i0 s0 x0,
      (fix loop (n : nat) (i : nat) (s : str) {struct n} : option A :=
         match n with
         | 0 => k i s
         | S n' =>
             match m A n0 a i s (fun i' s' => loop n' i' s') with
             | Some x => Some x
             | None => k i s
             end
         end) n i0 s0 = Some x0 -> exists p s', s0 = p ++ s' /\ k (i0 + length p) s' = Some x0).
    { induction n as [|n IHn]; intros i0 s0 x0 Hl.
      - exists [], s0. rewrite Nat.add_0_r. split; [reflexivity|exact Hl].
      - match type of Hl with match ?M with _ => _ end = _ => destruct M as [y|] eqn:Hm end.
        + inversion Hl; subst y. apply IHa in Hm. destruct Hm as (p1 & s1 & -> & Hk1 & _).
          apply IHn in Hk1. destruct Hk1 as (p2 & s2 & -> & Hk2).
          exists (p1 ++ p2), s2. rewrite app_assoc. split; [reflexivity|].
          rewrite app_length, Nat.add_assoc. exact Hk2.
        + exists [], s0. rewrite Nat.add_0_r. split; [reflexivity|exact Hl]. }
    apply Hloop in H. destruct H as (p & s' & ? & ?). exists p, s'. repeat split; auto. discriminate.
  - cbn [nullable]. destruct (m unit n0 a i s (fun _ _ => Some tt)); [discriminate|].
    exists [], s. rewrite Nat.add_0_r. repeat split; auto. discriminate.
  - cbn [nullable]. destruct (at_end s); [|discriminate].
    exists [], s. rewrite Nat.add_0_r. repeat split; auto. discriminate.
Qed.

Lemma match_re_sound : forall n0 r s len s', match_re n0 r s = Some (len, s') ->
  exists p, s = p ++ s' /\ len = length p /\ (nullable r = false -> p <> []).
Proof.
  unfold match_re. intros n0 r s len s' H. apply m_sound in H.
  destruct H as (p & s1 & -> & Hk & Hn). inversion Hk; subst.
  exists p. repeat split; auto.
Qed.

Lemma match_re_firstn : forall n0 r s len s', match_re n0 r s = Some (len, s') ->
  firstn len s = firstn len s /\ skipn len s = s' /\ len <= length s.
Proof.
  intros n0 r s len s' H. apply match_re_sound in H. destruct H as (p & -> & -> & _).
  split; [reflexivity|]. split.
  - rewrite skipn_app, skipn_all, Nat.sub_diag. reflexivity.
  - rewrite app_length. lia.
Qed.
