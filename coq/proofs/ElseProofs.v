(* C05 on the whole-parser model: an else belongs to the nearest if.  Whenever the if-production
   of the parser model finishes, either it consumed an `else` itself (three-slot If), or the next
   token of the input is NOT `else` -- for every token stream, state and fuel.  Hence an `else`
   can never be left over for an enclosing if while an inner if without else precedes it. *)
From Coq Require Import List NArith Bool Arith Lia.
Import ListNotations.
From PV Require Import Regex Base LexTables ParserTables AstDefs AstSpec AstImpl PyRepr NodeModel ParserBase ParserDecl ParserMain BinaryRefine.
Open Scope nat_scope.

Section EP.
Variable P : Type.
Notation M := (M P).
Notation pstate := (pstate P).
Notation node := (node P).
Notation tok := (tok P).

Lemma sel_eq : forall f,
  p_selection_statement P (S f) =
  bind P (advance P) (fun t =>
    if kind_eqb (tk t) K_IF then
      bind P (expect P K_LPAREN) (fun _ =>
      bind P (p_expression P f) (fun cond =>
      bind P (expect P K_RPAREN) (fun _ =>
      bind P (p_pragmacomp_or_statement P f) (fun th =>
      bind P (accept P K_ELSE) (fun el =>
      match el with
      | Some _ => bind P (p_pragmacomp_or_statement P f) (fun es => bind P (tcoord P t) (fun c => ret P (mkN P C_If [cond; th; es] c)))
      | None => bind P (tcoord P t) (fun c => ret P (mkN P C_If [cond; th; VNone] c))
      end)))))
    else if kind_eqb (tk t) K_SWITCH then
      bind P (expect P K_LPAREN) (fun _ =>
      bind P (p_expression P f) (fun e =>
      bind P (expect P K_RPAREN) (fun _ =>
      bind P (p_pragmacomp_or_statement P f) (fun st =>
      bind P (tcoord P t) (fun c =>
      fix_switch_cases P (WF) (mkN P C_Switch [e; st] c))))))
    else bind P (tok_coord P t) (fun c => fail P (L_coord P c) (s2l "Invalid selection statement"))).
Proof. reflexivity. Qed.

Lemma tcoord_state : forall (t: tok) (s s': pstate) c, tcoord P t s = Ok (c, s') -> s' = s.
Proof. intros t s s' c H. unfold tcoord, tok_coord, cur_file, bind, get, ret in H. cbn in H. injection H as _ <-. reflexivity. Qed.

(* accept(k) returning None leaves a state whose next token is not of kind k *)
Lemma accept_none : forall k (s sb: pstate), accept P k s = Ok (None, sb) ->
  forall t1 s1, peek P sb = Ok (Some t1, s1) -> kind_eqb (tk t1) k = false.
Proof.
  intros k s sb H t1 s1 Hp. unfold accept in H. unfold bind at 1 in H.
  destruct (peek P s) as [[x sa]| | |] eqn:Ep; try discriminate.
  pose proof (peek_idem P _ _ _ Ep) as Hi.
  destruct x as [t'|].
  - destruct (kind_eqb (tk t') k) eqn:Ek.
    + unfold bind in H. destruct (advance P sa) as [[y sy]| | |]; try discriminate.
    + unfold ret in H. injection H as <-. rewrite Hi in Hp. injection Hp as <- _. exact Ek.
  - unfold ret in H. injection H as <-. rewrite Hi in Hp. discriminate.
Qed.

Lemma accept_some : forall k (s sb: pstate) e, accept P k s = Ok (Some e, sb) -> kind_eqb (tk e) k = true.
Proof.
  intros k s sb e H. unfold accept in H. unfold bind at 1 in H.
  destruct (peek P s) as [[x sa]| | |] eqn:Ep; try discriminate.
  destruct x as [t'|]; [|discriminate].
  destruct (kind_eqb (tk t') k) eqn:Ek; [|discriminate].
  unfold bind in H. destruct (advance P sa) as [[y sy]| | |] eqn:Ea; try discriminate.
  unfold ret in H. injection H as <- _. rewrite (advance_after_peek P _ _ _ _ _ Ep Ea). exact Ek.
Qed.

(* the if-production: the else is tried immediately after the then-statement; if it is not taken,
   the token that follows the whole If node is not `else` *)
Theorem else_binds_to_nearest_if : forall f s r s' t s0,
  p_selection_statement P (S f) s = Ok (r, s') ->
  advance P s = Ok (t, s0) -> kind_eqb (tk t) K_IF = true ->
  exists cond th sa el sb co,
    accept P K_ELSE sa = Ok (el, sb) /\
    match el with
    | Some e => kind_eqb (tk e) K_ELSE = true /\ exists es, r = mkN P C_If [cond; th; es] co
    | None => r = mkN P C_If [cond; th; VNone] co /\ s' = sb /\
              forall t1 s1, peek P s' = Ok (Some t1, s1) -> kind_eqb (tk t1) K_ELSE = false
    end.
Proof.
  intros f s r s' t s0 H Ha Hif. rewrite sel_eq in H. unfold bind at 1 in H. rewrite Ha, Hif in H.
  unfold bind at 1 in H. destruct (expect P K_LPAREN s0) as [[x1 s1]| | |]; try discriminate.
  unfold bind at 1 in H. destruct (p_expression P f s1) as [[cond s2]| | |]; try discriminate.
  unfold bind at 1 in H. destruct (expect P K_RPAREN s2) as [[x3 s3]| | |]; try discriminate.
  unfold bind at 1 in H. destruct (p_pragmacomp_or_statement P f s3) as [[th sa]| | |]; try discriminate.
  unfold bind at 1 in H. destruct (accept P K_ELSE sa) as [[el sb]| | |] eqn:Eacc; try discriminate.
  destruct el as [e|].
  - unfold bind at 1 in H. destruct (p_pragmacomp_or_statement P f sb) as [[es s5]| | |]; try discriminate.
    unfold bind at 1 in H. destruct (tcoord P t s5) as [[c s6]| | |]; try discriminate.
    unfold ret in H. injection H as <- _.
    exists cond, th, sa, (Some e), sb, c. split; [exact Eacc|]. split; [eapply accept_some; exact Eacc|]. exists es. reflexivity.
  - unfold bind at 1 in H. destruct (tcoord P t sb) as [[c s6]| | |] eqn:Ec; try discriminate.
    apply tcoord_state in Ec. subst s6. unfold ret in H. injection H as <- <-.
    exists cond, th, sa, None, sb, c. split; [exact Eacc|]. split; [reflexivity|]. split; [reflexivity|].
    eapply accept_none. exact Eacc.
Qed.
End EP.
