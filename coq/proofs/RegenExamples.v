From Coq Require Import List NArith Bool Arith.
Import ListNotations.
From PV Require Import Regex Base LexTables NodeModel ParserBase ParserDecl ParserMain Api.

(* the regenerated text of a declaration list: every specifier, declarator and initializer token is there, in order *)
Example ex_C08_regen_decls :
  regen false (s2l "static const int a = 1, *b[3]; int (*fp)(int, char *); struct S { int x : 3; } s = { .x = 1 };") = Some (s2l "static const int a = 1;
static const int *b[3];
int (*fp)(int, char *);
struct S
{
  int x : 3;
} s = {.x = 1};
").
Proof. vm_compute. reflexivity. Qed.
(* operands keep their grouping (default configuration: every non-simple operand parenthesised) *)
Example ex_C08_regen_exprs :
  regen false (s2l "int f(int a, int b) { return a - (b - a) + a * (b + 1) / (a ? b : -a) + sizeof(int) + (int)a % b; }") = Some (s2l "int f(int a, int b)
{
  return (((a - (b - a)) + ((a * (b + 1)) / ((a) ? (b) : (-a)))) + (sizeof(int))) + (((int) a) % b);
}

").
Proof. vm_compute. reflexivity. Qed.
(* reduce_parentheses keeps exactly the parentheses the precedence levels require *)
Example ex_C08_regen_exprs_rp :
  regen true (s2l "int f(int a, int b) { return a - (b - a) + a * (b + 1) - (a - b) - 1; }") = Some (s2l "int f(int a, int b)
{
  return a - (b - a) + a * (b + 1) - (a - b) - 1;
}

").
Proof. vm_compute. reflexivity. Qed.
(* statements: nothing dropped, duplicated or reordered *)
Example ex_C08_regen_stmts :
  regen false (s2l "void g(int n) { for (int i = 0; i < n; i++) if (i) continue; else break; switch (n) { case 1: case 2: n = 1; break; default: ; } }") = Some (s2l "void g(int n)
{
  for (int i = 0; i < n; i++)
    if (i)
    continue;
  else
    break;

  switch (n)
  {
    case 1:

    case 2:
      n = 1;
      break;

    default:
      ;

  }

}

").
Proof. vm_compute. reflexivity. Qed.
(* witness (known finding): an identifier array designator comes back as a member designator *)
Example ex_C08_designator_identifier_refuted :
  regen false (s2l "enum { N = 1 }; int a[3] = { [N] = 1 };") = Some (s2l "enum 
{
  N = 1
};
int a[3] = {.N = 1};
").
Proof. vm_compute. reflexivity. Qed.
(* witness (known finding): the struct body is emitted once per declarator *)
Example ex_C08_struct_body_twice_refuted :
  regen false (s2l "struct S { int a; } x, y;") = Some (s2l "struct S
{
  int a;
} x;
struct S
{
  int a;
} y;
").
Proof. vm_compute. reflexivity. Qed.
