(* C02 on the whole-parser model: the two loops of _parse_binary_expression, as they appear in the
   71-function parser model (ParserMain.p_binary_climb / p_binary_inner, monadic, reading the real
   token stream, operands parsed by p_cast_expression), build exactly a tree of the stratified C
   grammar (ClimbProofs.D) over the operator tokens they consumed and the cast-expressions parsed
   between them -- for every token stream, every state and every fuel. *)
From Coq Require Import List NArith ZArith Bool Arith Lia.
Import ListNotations.
From PV Require Import Regex Base LexTables ParserTables AstDefs AstSpec AstImpl PyRepr NodeModel ParserBase ParserDecl ParserMain ClimbProofs.
Open Scope nat_scope.

Section BR.
Variable P : Type.
Notation M := (M P).
Notation pstate := (pstate P).
Notation node := (node P).
Notation tok := (tok P).

(* ---- peek / advance on the buffered token stream ---- *)
Lemma peek_nonempty : forall (s: pstate) x r, after P s = x :: r -> peek P s = Ok (x, s).
Proof.
  intros s x r H. unfold peek, peek_k, fill, fill_aux, bind, get, ret. rewrite H. cbn. rewrite H. reflexivity.
Qed.

Lemma peek_after : forall (s s1: pstate) x, peek P s = Ok (x, s1) -> exists r, after P s1 = x :: r.
Proof.
  intros s s1 x H. unfold peek, peek_k, fill, fill_aux, bind, get, ret in H.
  destruct (after P s) as [|y r] eqn:Ea.
  - cbn in H. unfold deliver1 in H.
    destruct (raw P s) as [|[k v p fa|msg p f|] rw] eqn:Er; cbn in H; try discriminate.
    + rewrite Ea in H. cbn in H. injection H as <- <-. cbn. eexists. reflexivity.
    + rewrite Ea in H.
      destruct (kind_eqb k K_LBRACE); [|destruct (kind_eqb k K_RBRACE); [destruct (scopes P s) as [|? [|? ?]]; try discriminate|]];
      cbn in H; injection H as <- <-; cbn; eexists; reflexivity.
  - cbn in H. rewrite Ea in H. cbn in H. injection H as <- <-. exists r. exact Ea.
Qed.

Lemma peek_idem : forall (s s1: pstate) x, peek P s = Ok (x, s1) -> peek P s1 = Ok (x, s1).
Proof. intros s s1 x H. destruct (peek_after _ _ _ H) as [r Hr]. eapply peek_nonempty. exact Hr. Qed.

Lemma advance_after_peek : forall (s s1 s2: pstate) t x,
  peek P s = Ok (Some t, s1) -> advance P s1 = Ok (x, s2) -> x = t.
Proof.
  intros s s1 s2 t x Hp Ha. destruct (peek_after _ _ _ Hp) as [r Hr].
  unfold advance, next_tok, bind, fill, fill_aux, get, ret in Ha. cbn in Ha. rewrite Hr in Ha. cbn in Ha. rewrite ?Hr in Ha.
  cbn in Ha. injection Ha as <- _. reflexivity.
Qed.

(* ---- the operator sequence a run consumed ---- *)
Definition bprec (t: tok) : nat := match prec_of (tk t) with Some p => p | None => 0 end.

Notation tree := (tree node tok).
Notation D := (D node tok bprec).

Fixpoint to_node (t: tree) : node :=
  match t with
  | Leaf _ _ a => a
  | Bin _ _ o l r =>
    VNode C_BinaryOp [VStr (tv o); to_node l; to_node r]
          (match get_coord P (to_node l) with Some co => co | None => None end)
  end.

(* SeqT s l n s': from state s the parser read, in order, the operator tokens and cast-expressions
   of l and arrived in state s' (peeks in between are silent); n is the number of token reads
   (_TokenStream.next() calls, speculative ones included) spent INSIDE the operand runs *)
Inductive SeqT : pstate -> list (tok * node) -> Z -> pstate -> Prop :=
| Seq_nil : forall s, SeqT s [] 0%Z s
| Seq_peek : forall s x s1 l n s', peek P s = Ok (x, s1) -> SeqT s1 l n s' -> SeqT s l n s'
| Seq_cons : forall s t s1 s2 f a s3 l n s',
    peek P s = Ok (Some t, s1) -> prec_of (tk t) <> None -> advance P s1 = Ok (t, s2) ->
    p_cast_expression P f s2 = Ok (a, s3) -> SeqT s3 l n s' ->
    SeqT s ((t, a) :: l) (n + (Z.of_N (ticks P s3) - Z.of_N (ticks P s2)))%Z s'.
Definition Seq (s: pstate) (l: list (tok * node)) (s': pstate) : Prop := exists n, SeqT s l n s'.

Lemma SeqT_app : forall s l1 n1 s1, SeqT s l1 n1 s1 -> forall l2 n2 s2, SeqT s1 l2 n2 s2 -> SeqT s (l1 ++ l2) (n1 + n2)%Z s2.
Proof.
  intros s l1 n1 s1 H. induction H as [s|s x sa l n s' Hp H IH|s t sa sb f a sc l n s' Hp Hprec Ha Hc H IH]; intros l2 n2 s2 H2.
  - exact H2.
  - eapply Seq_peek; [exact Hp|]. apply IH. exact H2.
  - cbn [app]. replace (n + (Z.of_N (ticks P sc) - Z.of_N (ticks P sb)) + n2)%Z with ((n + n2) + (Z.of_N (ticks P sc) - Z.of_N (ticks P sb)))%Z by lia.
    eapply Seq_cons; eauto.
Qed.
Lemma Seq_app : forall s l1 s1, Seq s l1 s1 -> forall l2 s2, Seq s1 l2 s2 -> Seq s (l1 ++ l2) s2.
Proof. intros s l1 s1 [n1 H1] l2 s2 [n2 H2]. exists (n1 + n2)%Z. eapply SeqT_app; eauto. Qed.

Lemma SeqT_head : forall s o a l n s', SeqT s ((o, a) :: l) n s' -> exists s1, peek P s = Ok (Some o, s1) /\ prec_of (tk o) <> None.
Proof.
  intros s o a l n s' H. remember ((o, a) :: l) as L eqn:EL. revert o a l EL.
  induction H as [s|s x sa l0 n s' Hp H IH|s t sa sb f a0 sc l0 n s' Hp Hprec Ha Hc H IH]; intros o a l EL.
  - discriminate.
  - destruct (IH _ _ _ EL) as [s1 [H1 H2]]. pose proof (peek_idem _ _ _ Hp) as Hi. rewrite Hi in H1. injection H1 as -> _.
    exists sa. split; [exact Hp|exact H2].
  - injection EL as -> -> ->. exists sa. split; assumption.
Qed.
Lemma Seq_head : forall s o a l s', Seq s ((o, a) :: l) s' -> exists s1, peek P s = Ok (Some o, s1) /\ prec_of (tk o) <> None.
Proof. intros s o a l s' [n H]. eapply SeqT_head; eauto. Qed.

(* token reads: peeking reads nothing, advancing reads one *)
Lemma peek_ticks : forall (s s1: pstate) x, peek P s = Ok (x, s1) -> ticks P s1 = ticks P s.
Proof.
  intros s s1 x H. unfold peek, peek_k, fill, fill_aux, bind, get, ret in H.
  destruct (after P s) as [|y r] eqn:Ea.
  - cbn in H. unfold deliver1 in H.
    destruct (raw P s) as [|[k v p fa|msg p f|] rw] eqn:Er; cbn in H; try discriminate.
    + rewrite Ea in H. cbn in H. injection H as _ <-. reflexivity.
    + rewrite Ea in H.
      destruct (kind_eqb k K_LBRACE); [|destruct (kind_eqb k K_RBRACE); [destruct (scopes P s) as [|? [|? ?]]; try discriminate|]];
      cbn in H; injection H as _ <-; reflexivity.
  - cbn in H. rewrite Ea in H. cbn in H. injection H as _ <-. reflexivity.
Qed.
Lemma advance_ticks : forall (s s1 s2: pstate) x t, peek P s = Ok (x, s1) -> advance P s1 = Ok (t, s2) -> ticks P s2 = (ticks P s1 + 1)%N.
Proof.
  intros s s1 s2 x t Hp Ha. destruct (peek_after _ _ _ Hp) as [r Hr].
  unfold advance, next_tok, bind, fill, fill_aux, get, ret in Ha. cbn in Ha. rewrite Hr in Ha. cbn in Ha. rewrite ?Hr in Ha.
  cbn in Ha. destruct x as [x'|]; cbn in Ha.
  - injection Ha as _ <-. reflexivity.
  - unfold fail, cur_file, bind, get, ret in Ha. cbn in Ha. discriminate.
Qed.

(* the loops themselves read every operator token exactly once *)
Lemma SeqT_ticks : forall s l n s', SeqT s l n s' ->
  Z.of_N (ticks P s') = (Z.of_N (ticks P s) + Z.of_nat (length l) + n)%Z.
Proof.
  intros s l n s' H. induction H as [s|s x sa l n s' Hp H IH|s t sa sb f a sc l n s' Hp Hprec Ha Hc H IH].
  - cbn. lia.
  - rewrite IH, (peek_ticks _ _ _ Hp). reflexivity.
  - rewrite IH. pose proof (peek_ticks _ _ _ Hp) as E1. pose proof (advance_ticks _ _ _ _ _ Hp Ha) as E2.
    cbn [length]. rewrite E2, E1. lia.
Qed.

Definition st_head_le (q: nat) (s: pstate) : Prop :=
  forall o s1 p, peek P s = Ok (Some o, s1) -> prec_of (tk o) = Some p -> p <= q.
Definition st_head_lt (q: nat) (s: pstate) : Prop :=
  forall o s1 p, peek P s = Ok (Some o, s1) -> prec_of (tk o) = Some p -> p < q.

Lemma head_le_of_state : forall q s l s', st_head_le q s -> Seq s l s' -> head_le node tok bprec q l.
Proof.
  intros q s [|[o a] l] s' Hh HS; [exact I|]. cbn. destruct (Seq_head _ _ _ _ _ HS) as [s1 [Hp Hn]].
  unfold bprec. destruct (prec_of (tk o)) as [p|] eqn:E; [|congruence]. eapply Hh; eauto.
Qed.

Definition sound_climb (f: nat) : Prop := forall m L s t s',
  p_binary_climb P f m (to_node L) s = Ok (t, s') ->
  exists l T, t = to_node T /\ Seq s l s' /\ D m L l T /\ st_head_lt m s'.
Definition sound_inner (f: nat) : Prop := forall p R0 s t s',
  p_binary_inner P f p (to_node R0) s = Ok (t, s') ->
  exists l T, t = to_node T /\ Seq s l s' /\ D (S p) R0 l T /\ st_head_le p s'.

(* one unfolding step of each loop, as equations (the bodies are those of ParserMain.v) *)
Lemma climb_eq : forall f m lhs,
  p_binary_climb P (S f) m lhs =
  bind P (peek P) (fun t =>
    match t with
    | None => ret P lhs
    | Some t' =>
      match prec_of (tk t') with
      | None => ret P lhs
      | Some prec =>
        if Nat.ltb prec m then ret P lhs
        else
          bind P (advance P) (fun _ =>
          bind P (p_cast_expression P f) (fun rhs0 =>
          bind P (p_binary_inner P f prec rhs0) (fun rhs =>
          bind P (coordA P lhs) (fun lc =>
          p_binary_climb P f m (mkN P C_BinaryOp [VStr (tv t'); lhs; rhs] lc)))))
      end
    end).
Proof. reflexivity. Qed.

Lemma inner_eq : forall f p rhs,
  p_binary_inner P (S f) p rhs =
  bind P (peek P) (fun t =>
    match t with
    | None => ret P rhs
    | Some t' =>
      match prec_of (tk t') with
      | None => ret P rhs
      | Some next_prec =>
        if Nat.ltb p next_prec then
          bind P (p_binary_climb P f next_prec rhs) (fun rhs' => p_binary_inner P f p rhs')
        else ret P rhs
      end
    end).
Proof. reflexivity. Qed.

Lemma refine_sound : forall f, sound_climb f /\ sound_inner f.
Proof.
  induction f as [|f [IHc IHi]]; split.
  - intros m L s t s' H. discriminate.
  - intros p R0 s t s' H. discriminate.
  - intros m L s t s' H. rewrite climb_eq in H. unfold bind at 1 in H.
    destruct (peek P s) as [[x s1]| | |] eqn:Ep; try discriminate.
    pose proof (peek_idem _ _ _ Ep) as Hidem.
    assert (Stop: forall (why: forall o sx p, peek P s1 = Ok (Some o, sx) -> prec_of (tk o) = Some p -> p < m),
              ret P (to_node L) s1 = Ok (t, s') ->
              exists l T, t = to_node T /\ Seq s l s' /\ D m L l T /\ st_head_lt m s').
    { intros why Hr. unfold ret in Hr. injection Hr as <- <-. exists [], L. repeat split.
      - exists 0%Z. eapply Seq_peek; [exact Ep|apply Seq_nil].
      - constructor.
      - exact why. }
    destruct x as [t'|].
    + destruct (prec_of (tk t')) as [prec|] eqn:Eprec.
      * destruct (Nat.ltb prec m) eqn:Hlt.
        -- apply Stop; [|exact H]. intros o sx p Hp Ho. rewrite Hidem in Hp. injection Hp as <- _.
           rewrite Eprec in Ho. injection Ho as <-. apply Nat.ltb_lt. exact Hlt.
        -- apply Nat.ltb_ge in Hlt. unfold bind at 1 in H.
           destruct (advance P s1) as [[x s2]| | |] eqn:Ea; try discriminate.
           pose proof (advance_after_peek _ _ _ _ _ Ep Ea) as ->.
           unfold bind at 1 in H. destruct (p_cast_expression P f s2) as [[rhs0 s3]| | |] eqn:Ec; try discriminate.
           unfold bind at 1 in H. destruct (p_binary_inner P f prec rhs0 s3) as [[rhs s4]| | |] eqn:Ei; try discriminate.
           change rhs0 with (to_node (Leaf node tok rhs0)) in Ei.
           apply IHi in Ei. destruct Ei as (l1 & R & -> & HS1 & HD1 & Hh1).
           unfold bind at 1 in H. unfold coordA, lift_opt in H.
           destruct (get_coord P (to_node L)) as [lc|] eqn:Eco; [|unfold crash in H; discriminate]. unfold ret at 1 in H. cbv beta iota in H.
           assert (Enode: mkN P C_BinaryOp [VStr (tv t'); to_node L; to_node R] lc = to_node (Bin node tok t' L R)).
           { cbn [to_node]. rewrite Eco. reflexivity. }
           rewrite Enode in H. apply IHc in H. destruct H as (l2 & T & -> & HS2 & HD2 & Hh2).
           exists ((t', rhs0) :: l1 ++ l2), T. repeat split.
           ++ destruct (Seq_app _ _ _ HS1 _ _ HS2) as [n12 H12]. eexists. eapply Seq_cons; [exact Ep|congruence|exact Ea|exact Ec|exact H12].
           ++ change ((t', rhs0) :: l1 ++ l2) with (((t', rhs0) :: l1) ++ l2).
              assert (Hb: bprec t' = prec) by (unfold bprec; rewrite Eprec; reflexivity).
              eapply (compose node tok bprec); [exact HD2| | |].
              ** change ((t', rhs0) :: l1) with ([] ++ (t', rhs0) :: l1). apply D_bin; [reflexivity| |].
                 --- apply D_atom.
                 --- rewrite Hb. exact HD1.
              ** rewrite Hb. exact Hlt.
              ** rewrite Hb. eapply head_le_of_state; eauto.
           ++ exact Hh2.
      * apply Stop; [|exact H]. intros o sx p Hp Ho. rewrite Hidem in Hp. injection Hp as <- _. congruence.
    + apply Stop; [|exact H]. intros o sx p Hp Ho. rewrite Hidem in Hp. discriminate.
  - intros p R0 s t s' H. rewrite inner_eq in H. unfold bind at 1 in H.
    destruct (peek P s) as [[x s1]| | |] eqn:Ep; try discriminate.
    pose proof (peek_idem _ _ _ Ep) as Hidem.
    assert (Stop: forall (why: forall o sx q, peek P s1 = Ok (Some o, sx) -> prec_of (tk o) = Some q -> q <= p),
              ret P (to_node R0) s1 = Ok (t, s') ->
              exists l T, t = to_node T /\ Seq s l s' /\ D (S p) R0 l T /\ st_head_le p s').
    { intros why Hr. unfold ret in Hr. injection Hr as <- <-. exists [], R0. repeat split.
      - exists 0%Z. eapply Seq_peek; [exact Ep|apply Seq_nil].
      - constructor.
      - exact why. }
    destruct x as [t'|].
    + destruct (prec_of (tk t')) as [next|] eqn:Eprec.
      * destruct (Nat.ltb p next) eqn:Hlt.
        -- apply Nat.ltb_lt in Hlt. unfold bind at 1 in H.
           destruct (p_binary_climb P f next (to_node R0) s1) as [[rhs' sr]| | |] eqn:Ec; try discriminate.
           apply IHc in Ec. destruct Ec as (l1 & T1 & -> & HS1 & HD1 & Hh1).
           apply IHi in H. destruct H as (l2 & T & -> & HS2 & HD2 & Hh2).
           exists (l1 ++ l2), T. repeat split.
           ++ destruct (Seq_app _ _ _ HS1 _ _ HS2) as [n12 H12]. exists n12. eapply Seq_peek; [exact Ep|exact H12].
           ++ eapply (compose node tok bprec); [exact HD2|exact HD1|lia|].
              eapply head_le_of_state; [|exact HS2]. intros o sx q Hp Ho. specialize (Hh1 o sx q Hp Ho). lia.
           ++ exact Hh2.
        -- apply Nat.ltb_ge in Hlt. apply Stop; [|exact H]. intros o sx q Hp Ho. rewrite Hidem in Hp. injection Hp as <- _.
           rewrite Eprec in Ho. injection Ho as <-. exact Hlt.
      * apply Stop; [|exact H]. intros o sx q Hp Ho. rewrite Hidem in Hp. injection Hp as <- _. congruence.
    + apply Stop; [|exact H]. intros o sx q Hp Ho. rewrite Hidem in Hp. discriminate.
Qed.

(* _parse_binary_expression(): entered with min_prec = 0 on the first cast-expression.  The node it
   returns is THE tree the stratified grammar assigns to the operator/operand sequence it read
   (the grammar is unambiguous: ClimbProofs.D_unique), and it stops exactly where no binary
   operator follows. *)
Theorem binary_expression_refines : forall f lhs0 s t s',
  p_binary_climb P f 0 lhs0 s = Ok (t, s') ->
  exists l T, t = to_node T /\ Seq s l s' /\ D 0 (Leaf node tok lhs0) l T /\
              (forall T', D 0 (Leaf node tok lhs0) l T' -> T' = T) /\
              (forall o s1, peek P s' = Ok (Some o, s1) -> prec_of (tk o) = None).
Proof.
  intros f lhs0 s t s' H. destruct (refine_sound f) as [Hc _].
  change lhs0 with (to_node (Leaf node tok lhs0)) in H. apply Hc in H.
  destruct H as (l & T & Ht & HS & HD & Hh). exists l, T. repeat split; try assumption.
  - intros T' HD'. eapply D_unique; eassumption.
  - intros o s1 Hp. destruct (prec_of (tk o)) as [p|] eqn:E; [|reflexivity].
    specialize (Hh o s1 p Hp E). lia.
Qed.

(* C16: the precedence-climbing loops never re-read a token.  The token reads of a whole binary
   expression = one per operator + what the operand runs (p_cast_expression) spend themselves. *)
Theorem binary_expression_cost : forall f lhs0 s t s',
  p_binary_climb P f 0 lhs0 s = Ok (t, s') ->
  exists l n, SeqT s l n s' /\ Z.of_N (ticks P s') = (Z.of_N (ticks P s) + Z.of_nat (length l) + n)%Z.
Proof.
  intros f lhs0 s t s' H. destruct (binary_expression_refines _ _ _ _ _ H) as (l & T & _ & [n HS] & _).
  exists l, n. split; [exact HS|apply SeqT_ticks; exact HS].
Qed.
End BR.
