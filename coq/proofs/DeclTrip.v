(* C01 / C03 / C04 / C07 / C16, token level: block-scope DECLARATIONS `T x;` and `T x = e;` - T a non-empty run of simple
   type-specifier keywords, x an identifier, e an expression of the language of RoundTripX (a comma expression in
   parentheses, as CGenerator prints it) - are parsed by the whole-parser model's p_declaration to exactly one Decl whose type
   is TypeDecl(x, IdentifierType(names of T)), the declared name enters the innermost scope as an ordinary identifier
   (add_identifier), and the tokens that follow are seen exactly as before.  Forward reasoning through
   p_declaration_specifiers (p_spec_loop in declaration mode), _peek_declarator_name_info (a speculative scan that is always
   reset), p_declarator / p_direct_declarator / p_decl_suffixes, p_init_declarator(_list), p_initializer,
   _build_declarations (adjust_first, build_one, _fix_decl_name_type, fix_atomic_specifiers), and the scope stack.
   The scope stack is assumed free of typedef names (NoTD, carried by every step through SC of StreamLib): then no
   identifier changes its classification when a name is declared. *)
From Coq Require Import String.
From Coq Require Import List NArith Bool Arith Lia.
Import ListNotations.
From PV Require Import Regex Base AstDefs AstSpec AstImpl GenTables NodeModel Generator ClimbProofs ClimbComplete GenParen GenBinop.
From PV Require Import LexTables ParserTables PyRepr ParserBase ParserDecl ParserMain LexerProofs TableProofs.
From PV Require Import BinaryRefine ExprShape UnaryShape CoordProofs ElseProofs StreamLib RoundTrip RoundTripGen TypeName.
Open Scope nat_scope.

(* the kinds of the simple type specifiers in declaration mode, and an identifier ends the specifiers *)
Lemma simple_kind_facts_d : forall k, kind_in k tbl_TYPE_SPEC_SIMPLE = true ->
  kind_in k tbl_STORAGE_CLASS = false /\ kind_in k tbl_FUNCTION_SPEC = false.
Proof. intros k H. destruct k; vm_compute in H; try discriminate H; vm_compute; split; reflexivity. Qed.

Lemma id_stops_spec : kind_eqb K_ID K_uALIGNAS = false /\ kind_eqb K_ID K_uATOMIC = false /\
  kind_in K_ID tbl_TYPE_QUALIFIER = false /\ kind_in K_ID tbl_STORAGE_CLASS = false /\ kind_in K_ID tbl_FUNCTION_SPEC = false /\
  kind_in K_ID tbl_TYPE_SPEC_SIMPLE = false /\ kind_eqb K_ID K_TYPEID = false /\
  (kind_eqb K_ID K_STRUCT || kind_eqb K_ID K_UNION) = false /\ kind_eqb K_ID K_ENUM = false.
Proof. vm_compute. repeat split. Qed.

Section DT.
Variable P : Type.
Notation pstate := (ParserBase.pstate P).
Notation tok := (ParserBase.tok P).
Notation node := (ParserBase.node P).
Notation Up := (StreamLib.Up P).
Notation Spell := (RoundTrip.Spell P).
Notation NoTD := (StreamLib.NoTD).

(* ---- the specifier loop in declaration mode, stopped by the declared identifier ---- *)
Lemma spec_loop_run_d : forall kvs, Forall (fun kv => kind_in (fst kv) tbl_TYPE_SPEC_SIMPLE = true) kvs ->
  forall st (s: pstate) le (stop: tok) l0, Spell le kvs -> Up s (le ++ stop :: l0) -> tk stop = K_ID ->
  exists f0 ns st' s', (forall f, f0 <= f -> p_spec_loop P f true st s = Ok (st', s')) /\ Up s' (stop :: l0) /\ Ran P s s' (length le) /\
    IdNodes P ns (map snd kvs) /\ ss_spec P st' = fold_left (add_type P) ns (ss_spec P st) /\
    ss_saw_type P st' = (ss_saw_type P st || negb (match ns with [] => true | _ => false end)).
Proof.
  induction kvs as [|[k v] kvs IH]; intros HF st s le stop l0 HS HU Hst.
  - apply (RoundTrip.Spell_nil_inv P) in HS. subst le. cbn [app] in HU.
    destruct (peek_up P s stop l0 HU) as [s1 [H1 [HU1 HC1]]].
    exists 1, [], st, s1. split; [|split; [exact HU1|split; [cost_tac|split; [constructor|split; [reflexivity|cbn; rewrite orb_false_r; reflexivity]]]]].
    intros f Hf. destruct f as [|f]; [lia|]. rewrite (spec_loop_eq P). unfold bind at 1. rewrite H1. cbv zeta. rewrite Hst.
    destruct id_stops_spec as (E1 & E2 & E3 & E3a & E3b & E4 & E5 & E6 & E7). rewrite E1, E2.
    unfold bind at 1. unfold ret at 1. unfold bind at 1. rewrite (tok_coord_eq P). cbv iota. rewrite E3, E3a, E3b. cbn [andb]. rewrite E4, E5, E6, E7. reflexivity.
  - inversion HF as [|x y Hk HF']; subst x y. cbn [fst] in Hk.
    destruct (RoundTrip.Spell_cons_inv P _ _ _ _ HS) as [t [le' [-> [Hkt [Hvt HS']]]]]. cbn [app] in HU.
    destruct (simple_kind_facts k Hk) as (E1 & E2 & E3 & _). destruct (simple_kind_facts_d k Hk) as (E3a & E3b).
    destruct (peek_up P s t _ HU) as [s1 [H1 [HU1 HC1]]].
    destruct (advance_up P s1 t _ HU1) as [s2 [H2 [HU2 HC2]]].
    set (c2 := mkCoord P (curfile P s2) (tp t)).
    set (st1 := set_first P st (mkCoord P (curfile P s1) (tp t))).
    set (st2 := mkSS P (add_type P (ss_spec P st1) (mkIdType P [tv t] (Some c2))) true (ss_saw_align P st1) (ss_first P st1)).
    destruct (IH HF' st2 s2 le' stop l0 HS' HU2 Hst) as [f0 [ns [st' [s3 [H3 [HU3 [HR3 [Hns [Hsp Hsaw]]]]]]]]].
    exists (S f0), (mkIdType P [tv t] (Some c2) :: ns), st', s3.
    split; [|split; [exact HU3|split; [cost_tac|split; [|split]]]].
    + intros f Hf. destruct f as [|f]; [lia|]. rewrite (spec_loop_eq P). unfold bind at 1. rewrite H1. cbv zeta. rewrite Hkt, E1, E2.
      unfold bind at 1. unfold ret at 1. unfold bind at 1. rewrite (tok_coord_eq P). cbv iota. rewrite E3, E3a, E3b. cbn [andb]. rewrite Hk.
      unfold bind at 1. rewrite H2. unfold bind at 1. rewrite (TypeName.tcoord_eq P). apply H3. lia.
    + cbn [map snd]. constructor; [exists c2; rewrite Hvt; reflexivity|exact Hns].
    + rewrite Hsp. cbn [fold_left]. unfold st2. cbn [ss_spec]. unfold st1, set_first. destruct (ss_first P st); reflexivity.
    + rewrite Hsaw. unfold st2. cbn [ss_saw_type]. rewrite orb_true_r. reflexivity.
Qed.

Lemma declspec_eq : forall f allow,
  p_declaration_specifiers P (S f) allow =
  bind P (p_spec_loop P f true (mkSS P None false false None)) (fun st =>
    match ss_spec P st with
    | None => bind P (cur_file P) (fun fl => fail P (L_file P fl) (s2l "Invalid declaration"))
    | Some spec =>
      if negb (ss_saw_type P st) && negb allow then fail P (loc_of P (ss_first P st)) (s2l "Missing type in declaration")
      else ret P (spec, ss_saw_type P st, ss_first P st)
    end).
Proof. reflexivity. Qed.

(* ---- a typedef-free scope stack classifies every identifier as an identifier: what is to come does not depend on it ---- *)
Lemma notd_not_type : forall sc v, NoTD sc -> is_type_in (Some v) sc = false.
Proof.
  intros sc v [_ H]. induction H as [|fr sc Hfr _ IH]; [reflexivity|]. cbn [is_type_in].
  assert (Hg: forall b, scope_get (Some v) fr = Some b -> b = false).
  { clear -Hfr. induction Hfr as [|[n b0] fr Hb _ IH]; intros b Hb'; [discriminate|]. cbn [scope_get] in Hb'. cbn [snd] in Hb.
    destruct (name_eqb (Some v) n); [injection Hb' as <-; exact Hb|exact (IH b Hb')]. }
  destruct (scope_get (Some v) fr) as [b|] eqn:E; [exact (Hg b eq_refl)|exact IH].
Qed.

Lemma UpR_notd : forall sc rw l, UpR P sc rw l -> forall sc', NoTD sc -> NoTD sc' -> length sc' = length sc -> UpR P sc' rw l.
Proof.
  intros sc rw l H. induction H as [sc r|sc i r t sc1 l Hc HU IH]; intros sc' HN HN' Hlen; [constructor|].
  destruct i as [k v p fa|msg p f|]; cbn [cl] in Hc; try discriminate.
  rewrite (notd_not_type sc v HN) in Hc.
  assert (Hcl: forall scx, NoTD scx -> cl P scx (PTok P k v p fa) =
            (let t0 := mkTok P (if kind_eqb k K_ID then K_ID else k) v p in
             if kind_eqb k K_LBRACE then Some (t0, [] :: scx)
             else if kind_eqb k K_RBRACE then match scx with _ :: (_ :: _) as sc2 => Some (t0, sc2) | _ => None end
             else Some (t0, scx))).
  { intros scx Hx. cbn [cl]. rewrite (notd_not_type scx v Hx). reflexivity. }
  destruct (kind_eqb k K_LBRACE) eqn:E1.
  - injection Hc as <- <-. apply (UpR_cons P sc' _ r _ ([] :: sc')).
    + rewrite (Hcl sc' HN'). cbv zeta. rewrite ?E1, ?E2. reflexivity.
    + apply IH.
      * destruct HN as [_ HN]. split; [discriminate|constructor; [constructor|exact HN]].
      * destruct HN' as [_ HN']. split; [discriminate|constructor; [constructor|exact HN']].
      * cbn [length]. rewrite Hlen. reflexivity.
  - destruct (kind_eqb k K_RBRACE) eqn:E2.
    + destruct sc as [|a [|b sr]]; try discriminate Hc. injection Hc as <- <-.
      destruct sc' as [|a' [|b' sr']]; cbn [length] in Hlen; try discriminate Hlen.
      apply (UpR_cons P _ _ r _ (b' :: sr')).
      * rewrite (Hcl _ HN'). cbv zeta. rewrite ?E1, ?E2. reflexivity.
      * apply IH.
        -- destruct HN as [_ HN]. split; [discriminate|inversion HN; assumption].
        -- destruct HN' as [_ HN']. split; [discriminate|inversion HN'; assumption].
        -- cbn [length] in *. lia.
    + injection Hc as <- <-. apply (UpR_cons P sc' _ r _ sc').
      * rewrite (Hcl sc' HN'). cbv zeta. rewrite ?E1, ?E2. reflexivity.
      * apply IH; assumption.
Qed.

(* declaring an ordinary identifier in a typedef-free scope stack: it succeeds, and nothing else changes *)
Definition with_scopes (s: pstate) (sc: list (list (option str * bool))) : pstate :=
  mkPS P (raw P s) (eof_file P s) (before P s) (after P s) (idx P s) sc (curfile P s) (ticks P s).

Lemma scope_set_false : forall n fr, Forall (fun e : option str * bool => snd e = false) fr -> Forall (fun e : option str * bool => snd e = false) (scope_set n false fr).
Proof.
  intros n fr H. induction H as [|[k b] fr Hb Hfr IH]; cbn [scope_set]; [constructor; [reflexivity|constructor]|].
  destruct (name_eqb n k); constructor; try assumption; reflexivity.
Qed.

Lemma notd_get : forall n fr, Forall (fun e : option str * bool => snd e = false) fr -> scope_get n fr <> Some true.
Proof.
  intros n fr H. induction H as [|[k b] fr Hb _ IH]; cbn [scope_get]; [discriminate|]. cbn [snd] in Hb.
  destruct (name_eqb n k); [rewrite Hb; discriminate|exact IH].
Qed.

Lemma add_identifier_notd : forall (s: pstate) n c l, NoTD (scopes P s) -> Up s l ->
  exists s', add_identifier P n c s = Ok (tt, s') /\ Up s' l /\ Same P s s' /\ NoTD (scopes P s').
Proof.
  intros s n c l HN HU. destruct HN as [Hne HF]. destruct (scopes P s) as [|top r] eqn:Esc; [congruence|].
  inversion HF as [|x y Htop Hr]; subst x y.
  assert (HN': NoTD (scope_set n false top :: r)). { split; [discriminate|constructor; [apply scope_set_false; exact Htop|exact Hr]]. }
  exists (with_scopes s (scope_set n false top :: r)). split; [|split; [|split; [|exact HN']]].
  - unfold add_identifier. unfold bind at 1. unfold get at 1. rewrite Esc.
    pose proof (notd_get n top Htop) as Hg. destruct (scope_get n top) as [[|]|]; try congruence; unfold set_top; rewrite Esc; reflexivity.
  - destruct HU as [a [l2 [Ha [Hl HU]]]]. exists a, l2. cbn [with_scopes after scopes raw]. split; [exact Ha|split; [exact Hl|]].
    apply (UpR_notd _ _ _ HU); [rewrite Esc; split; [discriminate|exact HF]|exact HN'|rewrite Esc; reflexivity].
  - split; [reflexivity|split; [reflexivity|split; [reflexivity|split; [intros _; exact HN'|reflexivity]]]].
Qed.

(* ---- _peek_declarator_name_info in front of a plain identifier: one token read, then put back ---- *)
Lemma scan_id : forall (s: pstate) x l, Up s (x :: l) -> tk x = K_ID ->
  exists s', (forall f, 2 <= f -> peek_declarator_name_info P f s = Ok ((Some K_ID, false), s')) /\ Up s' (x :: l) /\
    idx P s' = idx P s /\ ticks P s' = (ticks P s + 1)%N /\ SC P s s'.
Proof.
  intros s x l HU Hk.
  assert (Hnt: kind_eqb (tk x) K_TIMES = false) by (rewrite Hk; reflexivity).
  destruct (accept_miss P s x l K_TIMES HU Hnt) as [s1 [H1 [HU1 HS1]]].
  destruct (peek_up P s1 x l HU1) as [s2 [H2 [HU2 HS2]]].
  destruct (advance_up P s2 x l HU2) as [s3 [H3 [HU3 HA3]]].
  pose proof (Same_Adv P _ _ _ _ (Same_trans P _ _ _ HS1 HS2) HA3) as [Hb [Hi [Ht Hsc]]].
  destruct (reset_one P s3 x (before P s) (idx P s) l Hb Hi HU3) as [s4 [H4 [HU4 [_ [Hi4 [Ht4 Hsc4]]]]]].
  exists s4. split; [|split; [exact HU4|split; [exact Hi4|split; [congruence|exact (SC_trans P _ _ _ Hsc Hsc4)]]]].
  intros f Hf. destruct f as [|[|f]]; try lia.
  unfold peek_declarator_name_info. unfold bind at 1. rewrite mark_eq.
  cbn [scan_name_info skip_stars].
  unfold bind at 1. unfold bind at 1. unfold bind at 1. rewrite H1. unfold ret at 1.
  unfold bind at 1. rewrite H2. rewrite Hk. change (kind_eqb K_ID K_ID || kind_eqb K_ID K_TYPEID) with true. cbv iota.
  unfold bind at 1. rewrite H3. unfold ret at 1. unfold bind at 1. rewrite H4. reflexivity.
Qed.

(* ---- the declarator `x` ---- *)
Lemma declarator_eq : forall f, p_declarator P (S f) =
  bind P (p_any_declarator P f false false) (fun r => match fst r with Some d => ret P d | None => crash P CK_Assertion end).
Proof. reflexivity. Qed.
Lemma any_declarator_eq : forall f aa tp, p_any_declarator P (S f) aa tp =
  bind P (peek_declarator_name_info P f) (fun info =>
    let name_type := fst info in
    let saw_paren := snd info in
    let abstract := match name_type with
                    | None => true
                    | Some k => tp && kind_eqb k K_TYPEID && saw_paren
                    end in
    if abstract then
      if negb aa then
        bind P (peek P) (fun t =>
        match t with
        | Some t' => bind P (tok_coord P t') (fun c => fail P (L_coord P c) (s2l "Invalid declarator"))
        | None => bind P (cur_file P) (fun fl => fail P (L_file P fl) (s2l "Invalid declarator"))
        end)
      else bind P (p_abstract_declarator_opt P f) (fun d => ret P (d, false))
    else
      if okind_is name_type K_TYPEID then
        bind P (p_declarator_kind P f false (negb tp)) (fun d => ret P (Some d, true))
      else bind P (p_declarator_kind P f true true) (fun d => ret P (Some d, true))).
Proof. reflexivity. Qed.
Lemma declarator_kind_eq : forall f ki ap, p_declarator_kind P (S f) ki ap =
  bind P (peek_kind P) (fun k =>
  bind P (if okind_is k K_TIMES then p_pointer P f else ret P None) (fun ptr =>
  bind P (p_direct_declarator P f ki ap) (fun direct =>
    match ptr with
    | Some p => type_modify_decl P (WF) direct p
    | None => ret P direct
    end))).
Proof. reflexivity. Qed.
Lemma direct_declarator_eq : forall f ki ap, p_direct_declarator P (S f) ki ap =
  bind P (if ap then accept P K_LPAREN else ret P None) (fun lp =>
  bind P (match lp with
          | Some _ => bind P (p_declarator_kind P f ki true) (fun d => bind P (expect P K_RPAREN) (fun _ => ret P d))
          | None =>
            bind P (expect P (if ki then K_ID else K_TYPEID)) (fun nt =>
            bind P (tcoord P nt) (fun c =>
            ret P (mkTypeDecl P (VStr (tv nt)) VNone VNone VNone c)))
          end) (fun decl =>
  p_decl_suffixes P f decl)).
Proof. reflexivity. Qed.
Lemma decl_suffixes_eq : forall f decl, p_decl_suffixes P (S f) decl =
  bind P (peek_kind P) (fun k =>
    if okind_is k K_LBRACKET then
      bind P (coordA P decl) (fun dc =>
      bind P (p_array_decl_common P f VNone dc) (fun arr =>
      bind P (type_modify_decl P (WF) decl arr) (fun d' =>
      p_decl_suffixes P f d')))
    else if okind_is k K_LPAREN then
      bind P (p_function_decl P f decl) (fun fn =>
      bind P (type_modify_decl P (WF) decl fn) (fun d' =>
      p_decl_suffixes P f d'))
    else ret P decl).
Proof. reflexivity. Qed.

Lemma declarator_id : forall (s: pstate) x n l, Up s (x :: n :: l) -> tk x = K_ID ->
  kind_eqb (tk n) K_LBRACKET = false -> kind_eqb (tk n) K_LPAREN = false ->
  exists c s', (forall f, 7 <= f -> p_declarator P f s = Ok (mkTypeDecl P (VStr (tv x)) VNone VNone VNone (Some c), s')) /\ Up s' (n :: l) /\
    idx P s' = S (idx P s) /\ ticks P s' = (ticks P s + 2)%N /\ SC P s s'.
Proof.
  intros s x n l HU Hk Hn1 Hn2.
  destruct (scan_id s x (n :: l) HU Hk) as [s1 [H1 [HU1 [Hi1 [Ht1 Hsc1]]]]].
  destruct (peek_kind_up P s1 x _ HU1) as [s2 [H2 [HU2 HS2]]].
  assert (Hnl: kind_eqb (tk x) K_LPAREN = false) by (rewrite Hk; reflexivity).
  destruct (accept_miss P s2 x _ K_LPAREN HU2 Hnl) as [s3 [H3 [HU3 HS3]]].
  assert (Hid: kind_eqb (tk x) K_ID = true) by (rewrite Hk; reflexivity).
  destruct (expect_up P s3 x _ K_ID HU3 Hid) as [s4 [H4 [HU4 HA4]]].
  destruct (peek_kind_up P s4 n _ HU4) as [s5 [H5 [HU5 HS5]]].
  pose proof (Same_Adv P _ _ _ _ (Same_trans P _ _ _ HS2 HS3) HA4) as HA14.
  pose proof (Adv_Same P _ _ _ _ HA14 HS5) as [_ [Hi5 [Ht5 Hsc5]]].
  exists (mkCoord P (curfile P s4) (tp x)), s5.
  split; [|split; [exact HU5|split; [congruence|split; [rewrite Ht5, Ht1; lia|exact (SC_trans P _ _ _ Hsc1 Hsc5)]]]].
  intros f Hf. do 7 (destruct f as [|f]; [lia|]).
  rewrite declarator_eq. unfold bind at 1. rewrite any_declarator_eq. unfold bind at 1. rewrite H1 by lia. cbv zeta. cbn [fst snd andb negb okind_is].
  change (kind_eqb K_ID K_TYPEID) with false. cbv iota.
  unfold bind at 1. rewrite declarator_kind_eq. unfold bind at 1. rewrite H2. rewrite Hk. change (okind_is (Some K_ID) K_TIMES) with false. cbv iota.
  unfold bind at 1. unfold ret at 1. unfold bind at 1. rewrite direct_declarator_eq. unfold bind at 1. rewrite H3.
  unfold bind at 1. unfold bind at 1. rewrite H4. unfold bind at 1. rewrite (TypeName.tcoord_eq P). unfold ret at 1.
  rewrite decl_suffixes_eq. unfold bind at 1. rewrite H5. cbn [okind_is]. rewrite Hn1, Hn2. reflexivity.
Qed.

(* ---- init-declarator-list with one declarator: `x` or `x = initializer` ---- *)
Lemma idl_eq : forall f first io, p_init_declarator_list P (S f) first io =
  bind P (match first with Some d => ret P d | None => p_init_declarator P f io end) (fun d0 =>
  bind P (p_init_declarators_more P f io) (fun rest => ret P (d0 :: rest))).
Proof. reflexivity. Qed.
Lemma idm_eq : forall f io, p_init_declarators_more P (S f) io =
  bind P (accept P K_COMMA) (fun c =>
    match c with
    | Some _ => bind P (p_init_declarator P f io) (fun d => bind P (p_init_declarators_more P f io) (fun r => ret P (d :: r)))
    | None => ret P []
    end).
Proof. reflexivity. Qed.
Lemma idecl_eq : forall f io, p_init_declarator P (S f) io =
  bind P (if io then p_declarator_kind P f true true else p_declarator P f) (fun d =>
  bind P (accept P K_EQUALS) (fun eq =>
  bind P (match eq with Some _ => p_initializer P f | None => ret P VNone end) (fun init =>
  ret P (mkDI P (Some d) init VNone)))).
Proof. reflexivity. Qed.
Lemma initializer_eq : forall f, p_initializer P (S f) =
  bind P (accept P K_LBRACE) (fun lb =>
    match lb with
    | Some lbt =>
      bind P (accept P K_RBRACE) (fun rb =>
      match rb with
      | Some _ => bind P (tcoord P lbt) (fun c => ret P (mkN P C_InitList [VList []] c))
      | None =>
        bind P (p_initializer_list P f) (fun il =>
        bind P (accept P K_COMMA) (fun _ =>
        bind P (expect P K_RBRACE) (fun _ =>
        ret P il)))
      end)
    | None => p_assignment_expression P f
    end).
Proof. reflexivity. Qed.

Definition InitOK (ki: list (kind * str)) (Xi: value unit) : Prop :=
  (ki = [] /\ Xi = VNone) \/
  (exists kvs, ki = (K_EQUALS, s2l "=") :: kvs /\ AsgS P kvs Xi /\ first_ok kvs).

Lemma idl_run : forall ki Xi, InitOK ki Xi ->
  forall (s: pstate) x le (semi: tok) l, tk x = K_ID -> Spell le ki -> tk semi = K_SEMI -> Up s (x :: le ++ semi :: l) ->
  exists f0 c I s', (forall f, f0 <= f -> p_init_declarator_list P f None false s =
                        Ok ([mkDI P (Some (mkTypeDecl P (VStr (tv x)) VNone VNone VNone (Some c))) I VNone], s')) /\
    Up s' (semi :: l) /\ strip I = Xi /\ Ran P s s' (S (length le)).
Proof.
  intros ki Xi [[-> ->]|[kvs [-> [HA Hfo]]]] s x le semi l Hk HS Hsemi HU.
  - apply (RoundTrip.Spell_nil_inv P) in HS. subst le. cbn [app] in HU.
    assert (Hn1: kind_eqb (tk semi) K_LBRACKET = false) by (rewrite Hsemi; reflexivity).
    assert (Hn2: kind_eqb (tk semi) K_LPAREN = false) by (rewrite Hsemi; reflexivity).
    destruct (declarator_id s x semi l HU Hk Hn1 Hn2) as [c [s1 [H1 [HU1 [Hi1 [Ht1 Hsc1]]]]]].
    assert (Hne: kind_eqb (tk semi) K_EQUALS = false) by (rewrite Hsemi; reflexivity).
    destruct (accept_miss P s1 semi l K_EQUALS HU1 Hne) as [s2 [H2 [HU2 HS2]]].
    assert (Hnc: kind_eqb (tk semi) K_COMMA = false) by (rewrite Hsemi; reflexivity).
    destruct (accept_miss P s2 semi l K_COMMA HU2 Hnc) as [s3 [H3 [HU3 HS3]]].
    exists 9, c, VNone, s3. split; [|split; [exact HU3|split; [reflexivity|cost_tac]]].
    intros f Hf. do 2 (destruct f as [|f]; [lia|]). rewrite idl_eq. unfold bind at 1. rewrite idecl_eq. unfold bind at 1. rewrite H1 by lia.
    unfold bind at 1. rewrite H2. unfold bind at 1. unfold ret at 1. unfold ret at 1.
    unfold bind at 1. destruct f as [|f]; [lia|]. rewrite idm_eq. unfold bind at 1. rewrite H3. reflexivity.
  - destruct (RoundTrip.Spell_cons_inv P _ _ _ _ HS) as [eqt [le' [-> [Hke [_ HS']]]]]. cbn [app] in HU.
    assert (Hn1: kind_eqb (tk eqt) K_LBRACKET = false) by (rewrite Hke; reflexivity).
    assert (Hn2: kind_eqb (tk eqt) K_LPAREN = false) by (rewrite Hke; reflexivity).
    destruct (declarator_id s x eqt _ HU Hk Hn1 Hn2) as [c [s1 [H1 [HU1 [Hi1 [Ht1 Hsc1]]]]]].
    assert (Hee: kind_eqb (tk eqt) K_EQUALS = true) by (rewrite Hke; reflexivity).
    destruct (accept_hit P s1 eqt _ K_EQUALS HU1 Hee) as [s2 [H2 [HU2 HA2]]].
    destruct Hfo as [k0 [v0 [rest0 [Ek0 [_ [Hnb _]]]]]].
    pose proof HS' as HS0. rewrite Ek0 in HS'. destruct (RoundTrip.Spell_cons_inv P _ _ _ _ HS') as [t0 [tl0 [El0 [Hk0 [_ _]]]]].
    assert (Hnb': kind_eqb (tk t0) K_LBRACE = false) by (rewrite Hk0; exact Hnb).
    rewrite El0 in HU2. cbn [app] in HU2.
    destruct (accept_miss P s2 t0 _ K_LBRACE HU2 Hnb') as [s3 [H3 [HU3 HS3]]].
    change (t0 :: tl0 ++ semi :: l) with ((t0 :: tl0) ++ semi :: l) in HU3. rewrite <- El0 in HU3.
    assert (Hast: astop (tk semi) = true) by (rewrite Hsemi; reflexivity).
    destruct (HA s3 le' semi l HS0 HU3 Hast) as [fa [I [s4 [H4 [HU4 [HI HR4]]]]]].
    assert (Hnc: kind_eqb (tk semi) K_COMMA = false) by (rewrite Hsemi; reflexivity).
    destruct (accept_miss P s4 semi l K_COMMA HU4 Hnc) as [s5 [H5 [HU5 HS5]]].
    exists (fa + 9), c, I, s5. split; [|split; [exact HU5|split; [exact HI|cost_tac]]].
    intros f Hf. do 2 (destruct f as [|f]; [lia|]). rewrite idl_eq. unfold bind at 1. rewrite idecl_eq. unfold bind at 1. rewrite H1 by lia.
    unfold bind at 1. rewrite H2. unfold bind at 1. destruct f as [|f]; [lia|]. rewrite initializer_eq. unfold bind at 1. rewrite H3.
    rewrite (H4 f) by lia. unfold ret at 1.
    unfold bind at 1. rewrite idm_eq. unfold bind at 1. rewrite H5. reflexivity.
Qed.

(* ---- _build_declarations on one plain declarator ---- *)
Definition spec_of (ns: list node) : dspec P := mkSpec P [] [] ns [] [].
Definition td_of (x: str) (c: coord P) : node := mkTypeDecl P (VStr x) VNone VNone VNone (Some c).
Definition decl0 (x: str) (c: coord P) (I: node) : node :=
  mkN P C_Decl [VNone; VList []; VList []; VList []; VList []; td_of x c; I; VNone] (Some c).

Lemma adjust_first_td : forall ns x c I (s: pstate),
  adjust_first P (spec_of ns) [mkDI P (Some (td_of x c)) I VNone] s = Ok ((spec_of ns, [mkDI P (Some (td_of x c)) I VNone]), s).
Proof.
  intros ns x c I s. destruct WF_S as [n E]. unfold adjust_first. cbn [d_bitsize d_decl].
  change (is_suE_or_idtype P (td_of x c)) with false. cbv iota. rewrite E.
  unfold bind at 1. change (find_typedecl P (S (S (S n))) (td_of x c) s) with (@Ok P (node * pstate) (td_of x c, s)).
  unfold bind at 1. change (getA P a_declname (td_of x c) s) with (@Ok P (node * pstate) (VStr x, s)).
  reflexivity.
Qed.

Ltac ev_step := unfold bind at 1; match goal with |- match ?X with Ok _ => _ | Err _ _ => _ | Crash _ => _ | OutOfFuel => _ end = _ => let v := eval cbv in X in change X with v; cbv iota beta end.

Definition decl1 (x: str) (c: coord P) (I: node) (names: list node) (c0: coord P) : node :=
  VNode C_Decl [VStr x; VList []; VList []; VList []; VList [];
                VNode C_TypeDecl [VStr x; VList []; VNone; VNode C_IdentifierType [VList names] (Some c0)] (Some c); I; VNone] (Some c).

Lemma fix_decl0 : forall x c I n0 ns v0 vs c0 (s: pstate), n0 = mkIdType P [v0] (Some c0) -> IdNodes P ns vs ->
  fix_decl_name_type P WF (decl0 x c I) (n0 :: ns) s = Ok (decl1 x c I (map (fun v => VStr v) (v0 :: vs)) c0, s).
Proof.
  intros x c I n0 ns v0 vs c0 s -> Hns. destruct WF_S as [n E]. rewrite E.
  unfold fix_decl_name_type.
  unfold bind at 1. change (find_typedecl P (S (S (S n))) (decl0 x c I) s) with (@Ok P (node * pstate) (td_of x c, s)).
  unfold bind at 1. change (getA P a_declname (td_of x c) s) with (@Ok P (node * pstate) (VStr x, s)).
  ev_step. ev_step. unfold bind at 1. unfold ret at 1.
  assert (Hf: find (fun tn => negb (is_cls P C_IdentifierType tn)) (mkIdType P [v0] (Some c0) :: ns) = None).
  { apply (find_ids P _ (v0 :: vs)). constructor; [exists c0; reflexivity|exact Hns]. }
  rewrite Hf.
  unfold bind at 1. rewrite (all_names_ids P (mkIdType P [v0] (Some c0) :: ns) (v0 :: vs)) by (constructor; [exists c0; reflexivity|exact Hns]).
  unfold bind at 1. change (coordA P (mkIdType P [v0] (Some c0)) s) with (@Ok P (option (coord P) * pstate) (Some c0, s)).
  reflexivity.
Qed.

Lemma fix_atomic_decl1 : forall x c I names c0 (s: pstate),
  fix_atomic_specifiers P WF (decl1 x c I names c0) s = Ok (decl1 x c I names c0, s).
Proof. intros x c I names c0 s. destruct WF_S6 as [n E]. rewrite E. reflexivity. Qed.

Lemma build_decl_td : forall x c I n0 ns v0 vs c0 (s: pstate) l, n0 = mkIdType P [v0] (Some c0) -> IdNodes P ns vs ->
  NoTD (scopes P s) -> Up s l ->
  exists s', build_declarations P (spec_of (n0 :: ns)) [mkDI P (Some (td_of x c)) I VNone] true s =
               Ok ([decl1 x c I (map (fun v => VStr v) (v0 :: vs)) c0], s') /\
             Up s' l /\ Same P s s' /\ NoTD (scopes P s').
Proof.
  intros x c I n0 ns v0 vs c0 s l En0 Hns HN HU.
  destruct (add_identifier_notd s (Some x) (Some c) l HN HU) as [s' [Hadd [HU' [HS' HN']]]].
  exists s'. split; [|split; [exact HU'|split; [exact HS'|exact HN']]].
  unfold build_declarations. change (mem_str (s2l "typedef") (s_storage P (spec_of (n0 :: ns)))) with false.
  unfold bind at 1. rewrite adjust_first_td. cbn [fst snd].
  unfold bind at 1. unfold build_loop. unfold bind at 1. unfold build_one. cbn [d_decl d_init d_bitsize].
  unfold bind at 1. change (coordA P (td_of x c) s) with (@Ok P (option (coord P) * pstate) (Some c, s)).
  change (is_suE_or_idtype P (td_of x c)) with false. cbv iota.
  unfold bind at 1.
  change (mkN P C_Decl [VNone; quals_value P (spec_of (n0 :: ns)); VList (s_alignment P (spec_of (n0 :: ns))); vstrs P (s_storage P (spec_of (n0 :: ns)));
                        vstrs P (s_function P (spec_of (n0 :: ns))); td_of x c; I; VNone] (Some c)) with (decl0 x c I).
  cbn [s_type spec_of].
  rewrite (fix_decl0 x c I n0 ns v0 vs c0 s En0 Hns).
  set (D := decl1 x c I (map (fun v : str => VStr v) (v0 :: vs)) c0).
  unfold bind at 1. unfold bind at 1. change (getA P a_name D s) with (@Ok P (node * pstate) (VStr x, s)).
  unfold bind at 1. unfold name_of_value at 1. unfold ret at 1.
  unfold bind at 1. change (coordA P D s) with (@Ok P (option (coord P) * pstate) (Some c, s)).
  cbv iota beta. rewrite Hadd.
  unfold bind at 1. unfold D. rewrite fix_atomic_decl1. fold D.
  unfold bind at 1. change (getA P a_quals D s') with (@Ok P (node * pstate) (VList [], s')).
  unfold bind at 1. unfold ret at 1. cbn [flat_map]. unfold ret at 1.
  subst n0. destruct ns as [|n1 ns']; reflexivity.
Qed.

(* ---- the declaration `T x ;` / `T x = initializer ;` ---- *)
Lemma declaration_eq : forall f, p_declaration P (S f) =
  bind P (p_declaration_specifiers P f true) (fun r =>
    let '(spec, saw_type, _) := r in
    bind P (p_decl_body_with_spec P f spec saw_type) (fun ds =>
    bind P (expect P K_SEMI) (fun _ => ret P ds))).
Proof. reflexivity. Qed.
Lemma decl_body_eq : forall f spec saw_type, p_decl_body_with_spec P (S f) spec saw_type =
  bind P (starts_declarator P (negb saw_type)) (fun sd =>
  bind P (if sd then bind P (p_init_declarator_list P f None (negb saw_type)) (fun l => ret P (Some l)) else ret P None) (fun infos =>
    match infos with
    | None =>
      match s_type P spec with
      | [t0] =>
        if is_cls P C_Struct t0 || is_cls P C_Union t0 || is_cls P C_Enum t0 then
          bind P (coordA P t0) (fun tc =>
          ret P [mkN P C_Decl [VNone; quals_value P spec; VList (s_alignment P spec); vstrs P (s_storage P spec);
                           vstrs P (s_function P spec); t0; VNone; VNone] tc])
        else build_declarations P spec [mkDI P None VNone VNone] true
      | _ => build_declarations P spec [mkDI P None VNone VNone] true
      end
    | Some l => build_declarations P spec l true
    end)).
Proof. reflexivity. Qed.

Definition dtoks (ty: list (kind * str)) (x: str) (ki: list (kind * str)) : list (kind * str) :=
  ty ++ (K_ID, x) :: ki ++ [(K_SEMI, s2l ";")].
Definition dembed (ty: list (kind * str)) (x: str) (Xi: value unit) : value unit :=
  VNode C_Decl [VStr x; VList []; VList []; VList []; VList [];
                VNode C_TypeDecl [VStr x; VList []; VNone; VNode C_IdentifierType [VList (map (fun v => VStr v) (map snd ty))] None] None; Xi; VNone] None.

Lemma decl_run : forall ty x ki Xi, ty <> [] -> Forall (fun kv => kind_in (fst kv) tbl_TYPE_SPEC_SIMPLE = true) ty -> InitOK ki Xi ->
  forall (s: pstate) le (stop: tok) l0, Spell le (dtoks ty x ki) -> Up s (le ++ stop :: l0) -> NoTD (scopes P s) ->
  exists f0 Ns s', (forall f, f0 <= f -> p_declaration P f s = Ok (Ns, s')) /\ Up s' (stop :: l0) /\
    map (@strip (coord P)) Ns = [dembed ty x Xi] /\ Ran P s s' (length le).
Proof.
  intros ty x ki Xi Hne HF HI s le stop l0 HS HU HN. unfold dtoks in HS.
  destruct (RoundTrip.Spell_app_inv P _ _ _ HS) as [lty [l1 [-> [HSty HS1]]]].
  destruct (RoundTrip.Spell_cons_inv P _ _ _ _ HS1) as [xt [l2 [-> [Hkx [Hvx HS2]]]]].
  destruct (RoundTrip.Spell_app_inv P _ _ _ HS2) as [lki [l3 [-> [HSki HS3]]]].
  destruct (RoundTrip.Spell_cons_inv P _ _ _ _ HS3) as [semi [l4 [-> [Hksemi [_ HS4]]]]]. apply (RoundTrip.Spell_nil_inv P) in HS4. subst l4.
  rewrite <- app_assoc in HU. cbn [app] in HU. rewrite <- app_assoc in HU. cbn [app] in HU.
  (* specifiers *)
  destruct (spec_loop_run_d ty HF (mkSS P None false false None) s lty xt _ HSty HU Hkx) as [f1 [ns [st' [s1 [H1 [HU1 [HR1 [Hns [Hsp Hsaw]]]]]]]]].
  destruct ty as [|[k0 v0] ty']; [congruence|]. cbn [map snd] in Hns.
  inversion Hns as [|n0 v0' ns' vs' [c0 En0] Hns' E1]. subst.
  cbn [ss_spec fold_left] in Hsp. unfold add_type at 2 in Hsp. cbn [spec_or_new] in Hsp. rewrite (fold_types P) in Hsp. cbn in Hsp.
  cbn [ss_saw_type orb negb] in Hsaw.
  (* starts_declarator *)
  destruct (peek_kind_up P s1 xt _ HU1) as [s2 [H2 [HU2 HS2']]].
  (* init-declarator-list *)
  destruct (idl_run ki Xi HI s2 xt lki semi (stop :: l0) Hkx HSki Hksemi HU2) as [f3 [c [I [s3 [H3 [HU3 [HIs HR3]]]]]]].
  (* build *)
  assert (HN3: NoTD (scopes P s3)). { clear - HN HR1 HS2' HR3. unfold Ran, Same, SC in *. tauto. }
  destruct (build_decl_td (tv xt) c I (mkIdType P [v0] (Some c0)) ns' v0 (map snd ty') c0 s3 _ eq_refl Hns' HN3 HU3) as [s4 [H4 [HU4 [HS4 HN4]]]].
  assert (Hsm: kind_eqb (tk semi) K_SEMI = true) by (rewrite Hksemi; reflexivity).
  destruct (expect_up P s4 semi _ K_SEMI HU4 Hsm) as [s5 [H5 [HU5 HA5]]].
  exists (S (S (Nat.max f1 f3))), [decl1 (tv xt) c I (map (fun v => VStr v) (v0 :: map snd ty')) c0], s5.
  split; [|split; [exact HU5|split; [|cost_tac]]].
  - intros f Hf. destruct f as [|[|f]]; try lia. rewrite declaration_eq. unfold bind at 1. rewrite declspec_eq. unfold bind at 1. rewrite (H1 f) by lia.
    rewrite Hsp, Hsaw. cbn [negb andb]. unfold ret at 1. cbv iota beta.
    unfold bind at 1. rewrite decl_body_eq. unfold bind at 1. unfold starts_declarator. unfold bind at 1. cbn [negb]. rewrite H2. rewrite Hkx.
    change (kind_eqb K_ID K_TIMES || kind_eqb K_ID K_LPAREN) with false. cbv iota. unfold ret at 1.
    change (kind_eqb K_ID K_ID || kind_eqb K_ID K_TYPEID) with true. cbv iota.
    unfold bind at 1. unfold bind at 1. rewrite (H3 f) by lia. unfold ret at 1.
    change (mkSpec P [] [] (mkIdType P [v0] (Some c0) :: ns') [] []) with (spec_of (mkIdType P [v0] (Some c0) :: ns')).
    change (mkTypeDecl P (VStr (tv xt)) VNone VNone VNone (Some c)) with (td_of (tv xt) c).
    rewrite H4. unfold bind at 1. rewrite H5. reflexivity.
  - unfold decl1, dembed. cbn [map strip snd]. rewrite (strip_strs P). rewrite HIs. reflexivity.
Qed.

(* ---- several declarators: `T x1 [= e1] , x2 [= e2] , ... ;` ---- *)
(* one init-declarator followed by `,` or `;` *)
Lemma idecl_run : forall ki Xi, InitOK ki Xi ->
  forall (s: pstate) x le (stop: tok) l, tk x = K_ID -> Spell le ki -> (tk stop = K_SEMI \/ tk stop = K_COMMA) -> Up s (x :: le ++ stop :: l) ->
  exists f0 c I s', (forall f, f0 <= f -> p_init_declarator P f false s = Ok (mkDI P (Some (td_of (tv x) c)) I VNone, s')) /\
    Up s' (stop :: l) /\ strip I = Xi /\ Ran P s s' (S (length le)).
Proof.
  intros ki Xi HI s x le stop l Hk HS Hstop HU.
  assert (Hst: kind_eqb (tk stop) K_LBRACKET = false /\ kind_eqb (tk stop) K_LPAREN = false /\ kind_eqb (tk stop) K_EQUALS = false /\ astop (tk stop) = true).
  { destruct Hstop as [E|E]; rewrite E; repeat split; reflexivity. }
  destruct Hst as (Hs1 & Hs2 & Hs3 & Hs4).
  destruct HI as [[-> ->]|[kvs [-> [HA Hfo]]]].
  - apply (RoundTrip.Spell_nil_inv P) in HS. subst le. cbn [app] in HU.
    destruct (declarator_id s x stop l HU Hk Hs1 Hs2) as [c [s1 [H1 [HU1 [Hi1 [Ht1 Hsc1]]]]]].
    destruct (accept_miss P s1 stop l K_EQUALS HU1 Hs3) as [s2 [H2 [HU2 HS2]]].
    exists 8, c, VNone, s2. split; [|split; [exact HU2|split; [reflexivity|cost_tac]]].
    intros f Hf. destruct f as [|f]; [lia|]. rewrite idecl_eq. unfold bind at 1. rewrite H1 by lia.
    unfold bind at 1. rewrite H2. reflexivity.
  - destruct (RoundTrip.Spell_cons_inv P _ _ _ _ HS) as [eqt [le' [-> [Hke [_ HS']]]]]. cbn [app] in HU.
    assert (Hn1: kind_eqb (tk eqt) K_LBRACKET = false) by (rewrite Hke; reflexivity).
    assert (Hn2: kind_eqb (tk eqt) K_LPAREN = false) by (rewrite Hke; reflexivity).
    destruct (declarator_id s x eqt _ HU Hk Hn1 Hn2) as [c [s1 [H1 [HU1 [Hi1 [Ht1 Hsc1]]]]]].
    assert (Hee: kind_eqb (tk eqt) K_EQUALS = true) by (rewrite Hke; reflexivity).
    destruct (accept_hit P s1 eqt _ K_EQUALS HU1 Hee) as [s2 [H2 [HU2 HA2]]].
    destruct Hfo as [k0 [v0 [rest0 [Ek0 [_ [Hnb _]]]]]].
    pose proof HS' as HS0. rewrite Ek0 in HS'. destruct (RoundTrip.Spell_cons_inv P _ _ _ _ HS') as [t0 [tl0 [El0 [Hk0 [_ _]]]]].
    assert (Hnb': kind_eqb (tk t0) K_LBRACE = false) by (rewrite Hk0; exact Hnb).
    rewrite El0 in HU2. cbn [app] in HU2.
    destruct (accept_miss P s2 t0 _ K_LBRACE HU2 Hnb') as [s3 [H3 [HU3 HS3]]].
    change (t0 :: tl0 ++ stop :: l) with ((t0 :: tl0) ++ stop :: l) in HU3. rewrite <- El0 in HU3.
    destruct (HA s3 le' stop l HS0 HU3 Hs4) as [fa [I [s4 [H4 [HU4 [HI HR4]]]]]].
    exists (fa + 9), c, I, s4. split; [|split; [exact HU4|split; [exact HI|cost_tac]]].
    intros f Hf. destruct f as [|f]; [lia|]. rewrite idecl_eq. unfold bind at 1. rewrite H1 by lia.
    unfold bind at 1. rewrite H2. unfold bind at 1. destruct f as [|f]; [lia|]. rewrite initializer_eq. unfold bind at 1. rewrite H3.
    rewrite (H4 f) by lia. reflexivity.
Qed.

(* the declarators of the list: name, tokens of the initializer part, initializer tree *)
Definition dl_toks (ds: list (str * list (kind * str) * value unit)) : list (kind * str) :=
  (fix go (l: list (str * list (kind * str) * value unit)) : list (kind * str) :=
     match l with
     | [] => []
     | [(x, ki, _)] => (K_ID, x) :: ki
     | (x, ki, _) :: r => (K_ID, x) :: ki ++ (K_COMMA, s2l ",") :: go r
     end) ds.
Definition DIs (infos: list (dinfo P)) (ds: list (str * list (kind * str) * value unit)) : Prop :=
  Forall2 (fun di d => exists c I, di = mkDI P (Some (td_of (fst (fst d)) c)) I VNone /\ strip I = snd d) infos ds.

Lemma idm_run : forall ds, Forall (fun d => InitOK (snd (fst d)) (snd d)) ds ->
  forall (s: pstate) le (semi: tok) l,
  Spell le (concat (map (fun d => (K_COMMA, s2l ",") :: (K_ID, fst (fst d)) :: snd (fst d)) ds)) -> tk semi = K_SEMI -> Up s (le ++ semi :: l) ->
  exists f0 infos s', (forall f, f0 <= f -> p_init_declarators_more P f false s = Ok (infos, s')) /\ Up s' (semi :: l) /\ DIs infos ds /\ Ran P s s' (length le).
Proof.
  induction ds as [|[[x ki] Xi] ds IH]; intros HF s le semi l HS Hsemi HU.
  - apply (RoundTrip.Spell_nil_inv P) in HS. subst le. cbn [app] in HU.
    assert (Hnc: kind_eqb (tk semi) K_COMMA = false) by (rewrite Hsemi; reflexivity).
    destruct (accept_miss P s semi l K_COMMA HU Hnc) as [s1 [H1 [HU1 HS1]]].
    exists 1, [], s1. split; [|split; [exact HU1|split; [constructor|cost_tac]]].
    intros f Hf. destruct f as [|f]; [lia|]. rewrite idm_eq. unfold bind at 1. rewrite H1. reflexivity.
  - inversion HF as [|a b Hd HF']; subst a b. cbn [fst snd] in Hd. cbn [map concat fst snd] in HS.
    destruct (RoundTrip.Spell_cons_inv P _ _ _ _ HS) as [cm [l1 [-> [Hkc [_ HS1]]]]].
    destruct (RoundTrip.Spell_cons_inv P _ _ _ _ HS1) as [xt [l2 [-> [Hkx [Hvx HS2]]]]].
    destruct (RoundTrip.Spell_app_inv P _ _ _ HS2) as [lki [lr [-> [HSki HSr]]]].
    cbn [app] in HU. rewrite <- app_assoc in HU.
    assert (Hcc: kind_eqb (tk cm) K_COMMA = true) by (rewrite Hkc; reflexivity).
    destruct (accept_hit P s cm _ K_COMMA HU Hcc) as [s1 [H1 [HU1 HA1]]].
    (* what follows this declarator: the next `,` or the `;` *)
    assert (Hnext: exists n l', lr ++ semi :: l = n :: l' /\ (tk n = K_SEMI \/ tk n = K_COMMA)).
    { destruct ds as [|[[x2 ki2] X2] ds'].
      - apply (RoundTrip.Spell_nil_inv P) in HSr. subst lr. exists semi, l. split; [reflexivity|left; exact Hsemi].
      - cbn [map concat fst snd] in HSr. destruct (RoundTrip.Spell_cons_inv P _ _ _ _ HSr) as [n [l2' [-> [Hkn _]]]]. exists n, (l2' ++ semi :: l). split; [reflexivity|right; exact Hkn]. }
    destruct Hnext as [n [l' [En Hn]]]. rewrite En in HU1.
    destruct (idecl_run ki Xi Hd s1 xt lki n l' Hkx HSki Hn HU1) as [f1 [c [I [s2 [H2 [HU2 [HI2 HR2]]]]]]]. rewrite <- En in HU2.
    destruct (IH HF' s2 lr semi l HSr Hsemi HU2) as [f2 [infos [s3 [H3 [HU3 [HD3 HR3]]]]]].
    exists (S (Nat.max f1 f2)), (mkDI P (Some (td_of (tv xt) c)) I VNone :: infos), s3.
    split; [|split; [exact HU3|split; [|cost_tac]]].
    + intros f Hf. destruct f as [|f]; [lia|]. rewrite idm_eq. unfold bind at 1. rewrite H1.
      unfold bind at 1. rewrite (H2 f) by lia. unfold bind at 1. rewrite (H3 f) by lia. reflexivity.
    + constructor; [exists c, I; cbn [fst snd]; rewrite Hvx; split; [reflexivity|exact HI2]|exact HD3].
Qed.

(* _build_declarations over the whole list: one Decl per declarator, the shared specifier applied to each, every name declared *)
Lemma adjust_first_tds : forall ns x c I rest (s: pstate),
  adjust_first P (spec_of ns) (mkDI P (Some (td_of x c)) I VNone :: rest) s = Ok ((spec_of ns, mkDI P (Some (td_of x c)) I VNone :: rest), s).
Proof.
  intros ns x c I rest s. destruct WF_S as [n E]. unfold adjust_first. cbn [d_bitsize d_decl].
  change (is_suE_or_idtype P (td_of x c)) with false. cbv iota. rewrite E.
  unfold bind at 1. change (find_typedecl P (S (S (S n))) (td_of x c) s) with (@Ok P (node * pstate) (td_of x c, s)).
  unfold bind at 1. change (getA P a_declname (td_of x c) s) with (@Ok P (node * pstate) (VStr x, s)).
  reflexivity.
Qed.

Lemma build_one_td : forall x c I n0 ns v0 vs c0 (s: pstate) l, n0 = mkIdType P [v0] (Some c0) -> IdNodes P ns vs ->
  NoTD (scopes P s) -> Up s l ->
  exists s', build_one P (spec_of (n0 :: ns)) false true (mkDI P (Some (td_of x c)) I VNone) s =
               Ok ((decl1 x c I (map (fun v => VStr v) (v0 :: vs)) c0, spec_of (n0 :: ns)), s') /\
             Up s' l /\ Same P s s' /\ NoTD (scopes P s').
Proof.
  intros x c I n0 ns v0 vs c0 s l En0 Hns HN HU.
  destruct (add_identifier_notd s (Some x) (Some c) l HN HU) as [s' [Hadd [HU' [HS' HN']]]].
  exists s'. split; [|split; [exact HU'|split; [exact HS'|exact HN']]].
  unfold build_one. cbn [d_decl d_init d_bitsize].
  unfold bind at 1. change (coordA P (td_of x c) s) with (@Ok P (option (coord P) * pstate) (Some c, s)).
  change (is_suE_or_idtype P (td_of x c)) with false. cbv iota.
  unfold bind at 1.
  change (mkN P C_Decl [VNone; quals_value P (spec_of (n0 :: ns)); VList (s_alignment P (spec_of (n0 :: ns))); vstrs P (s_storage P (spec_of (n0 :: ns)));
                        vstrs P (s_function P (spec_of (n0 :: ns))); td_of x c; I; VNone] (Some c)) with (decl0 x c I).
  cbn [s_type spec_of].
  rewrite (fix_decl0 x c I n0 ns v0 vs c0 s En0 Hns).
  set (D := decl1 x c I (map (fun v : str => VStr v) (v0 :: vs)) c0).
  unfold bind at 1. unfold bind at 1. change (getA P a_name D s) with (@Ok P (node * pstate) (VStr x, s)).
  unfold bind at 1. unfold name_of_value at 1. unfold ret at 1.
  unfold bind at 1. change (coordA P D s) with (@Ok P (option (coord P) * pstate) (Some c, s)).
  cbv iota beta. rewrite Hadd.
  unfold bind at 1. unfold D. rewrite fix_atomic_decl1. fold D.
  unfold bind at 1. change (getA P a_quals D s') with (@Ok P (node * pstate) (VList [], s')).
  unfold bind at 1. unfold ret at 1. cbn [flat_map]. unfold ret at 1.
  subst n0. destruct ns as [|n1 ns']; reflexivity.
Qed.

Definition Decls (Ns: list node) (ty: list (kind * str)) (ds: list (str * list (kind * str) * value unit)) : Prop :=
  Forall2 (fun N d => exists c I c0, N = decl1 (fst (fst d)) c I (map (fun v => VStr v) (map snd ty)) c0 /\ strip I = snd d) Ns ds.

Lemma build_loop_tds : forall infos ds, DIs infos ds ->
  forall k0 v0 ty' n0 ns c0 (s: pstate) l, n0 = mkIdType P [v0] (Some c0) -> IdNodes P ns (map snd ty') -> NoTD (scopes P s) -> Up s l ->
  exists Ns s', build_loop P (spec_of (n0 :: ns)) false true infos s = Ok ((Ns, spec_of (n0 :: ns)), s') /\
    Up s' l /\ Same P s s' /\ NoTD (scopes P s') /\ Decls Ns ((k0, v0) :: ty') ds.
Proof.
  intros infos ds H. induction H as [|di d infos ds [c [I [-> HI]]] _ IH]; intros k0 v0 ty' n0 ns c0 s l En0 Hns HN HU.
  - exists [], s. split; [reflexivity|split; [exact HU|split; [apply Same_refl|split; [exact HN|constructor]]]].
  - destruct (build_one_td (fst (fst d)) c I n0 ns v0 (map snd ty') c0 s l En0 Hns HN HU) as [s1 [H1 [HU1 [HS1 HN1]]]].
    destruct (IH k0 v0 ty' n0 ns c0 s1 l En0 Hns HN1 HU1) as [Ns [s2 [H2 [HU2 [HS2 [HN2 HD2]]]]]].
    exists (decl1 (fst (fst d)) c I (map (fun v => VStr v) (v0 :: map snd ty')) c0 :: Ns), s2.
    split; [|split; [exact HU2|split; [exact (Same_trans P _ _ _ HS1 HS2)|split; [exact HN2|]]]].
    + cbn [build_loop]. unfold bind at 1. rewrite H1. cbn [fst snd]. unfold bind at 1. rewrite H2. reflexivity.
    + constructor; [exists c, I, c0; split; [reflexivity|exact HI]|exact HD2].
Qed.

Lemma set_quals_decls : forall Ns ty ds, Decls Ns ty ds ->
  map (fun d : node => match set_attr P a_quals (vstrs P []) d with Some d' => d' | None => d end) Ns = Ns.
Proof. intros Ns ty ds H. induction H as [|N d Ns ds [c [I [c0 [-> _]]]] _ IH]; [reflexivity|]. cbn [map]. rewrite IH. reflexivity. Qed.

Definition dltoks (ty: list (kind * str)) (x: str) (ki: list (kind * str)) (ds: list (str * list (kind * str) * value unit)) : list (kind * str) :=
  ty ++ (K_ID, x) :: ki ++ concat (map (fun d => (K_COMMA, s2l ",") :: (K_ID, fst (fst d)) :: snd (fst d)) ds) ++ [(K_SEMI, s2l ";")].

(* `T x1 [= e1] , x2 [= e2] , ... ;` : one Decl per declarator, in order, each with the type T spells *)
Theorem decl_list_run : forall ty x ki Xi ds, ty <> [] -> Forall (fun kv => kind_in (fst kv) tbl_TYPE_SPEC_SIMPLE = true) ty -> InitOK ki Xi ->
  Forall (fun d => InitOK (snd (fst d)) (snd d)) ds ->
  forall (s: pstate) le (stop: tok) l0, Spell le (dltoks ty x ki ds) -> Up s (le ++ stop :: l0) -> NoTD (scopes P s) ->
  exists f0 Ns s', (forall f, f0 <= f -> p_declaration P f s = Ok (Ns, s')) /\ Up s' (stop :: l0) /\
    map (@strip (coord P)) Ns = dembed ty x Xi :: map (fun d => dembed ty (fst (fst d)) (snd d)) ds /\ Ran P s s' (length le).
Proof.
  intros ty x ki Xi ds Hne HF HI HDs s le stop l0 HS HU HN. unfold dltoks in HS.
  destruct (RoundTrip.Spell_app_inv P _ _ _ HS) as [lty [l1 [-> [HSty HS1]]]].
  destruct (RoundTrip.Spell_cons_inv P _ _ _ _ HS1) as [xt [l2 [-> [Hkx [Hvx HS2]]]]].
  destruct (RoundTrip.Spell_app_inv P _ _ _ HS2) as [lki [l3 [-> [HSki HS3]]]].
  destruct (RoundTrip.Spell_app_inv P _ _ _ HS3) as [lds [l4 [-> [HSds HS4]]]].
  destruct (RoundTrip.Spell_cons_inv P _ _ _ _ HS4) as [semi [l5 [-> [Hksemi [_ HS5]]]]]. apply (RoundTrip.Spell_nil_inv P) in HS5. subst l5.
  rewrite <- !app_assoc in HU. cbn [app] in HU. rewrite <- !app_assoc in HU. cbn [app] in HU.
  destruct (spec_loop_run_d ty HF (mkSS P None false false None) s lty xt _ HSty HU Hkx) as [f1 [ns [st' [s1 [H1 [HU1 [HR1 [Hns [Hsp Hsaw]]]]]]]]].
  destruct ty as [|[k0 v0] ty']; [congruence|]. cbn [map snd] in Hns.
  inversion Hns as [|n0 v0' ns' vs' [c0 En0] Hns' E1]. subst.
  cbn [ss_spec fold_left] in Hsp. unfold add_type at 2 in Hsp. cbn [spec_or_new] in Hsp. rewrite (fold_types P) in Hsp. cbn in Hsp.
  cbn [ss_saw_type orb negb] in Hsaw.
  destruct (peek_kind_up P s1 xt _ HU1) as [s2 [H2 [HU2 HS2']]].
  (* the first declarator: followed by `,` or `;` *)
  assert (Hnext: exists n l', lds ++ semi :: stop :: l0 = n :: l' /\ (tk n = K_SEMI \/ tk n = K_COMMA)).
  { destruct ds as [|[[x2 ki2] X2] ds'].
    - apply (RoundTrip.Spell_nil_inv P) in HSds. subst lds. exists semi, (stop :: l0). split; [reflexivity|left; exact Hksemi].
    - cbn [map concat fst snd] in HSds. destruct (RoundTrip.Spell_cons_inv P _ _ _ _ HSds) as [n [l2' [-> [Hkn _]]]]. exists n, (l2' ++ semi :: stop :: l0). split; [reflexivity|right; exact Hkn]. }
  destruct Hnext as [n [l' [En Hn]]]. rewrite En in HU2.
  destruct (idecl_run ki Xi HI s2 xt lki n l' Hkx HSki Hn HU2) as [f3 [c [I [s3 [H3 [HU3 [HIs HR3]]]]]]]. rewrite <- En in HU3.
  destruct (idm_run ds HDs s3 lds semi (stop :: l0) HSds Hksemi HU3) as [f4 [infos [s4 [H4 [HU4 [HD4 HR4]]]]]].
  assert (HN4: NoTD (scopes P s4)). { clear - HN HR1 HS2' HR3 HR4. unfold Ran, Same, SC in *. tauto. }
  assert (HD: DIs (mkDI P (Some (td_of (tv xt) c)) I VNone :: infos) ((tv xt, ki, Xi) :: ds)).
  { constructor; [exists c, I; split; [reflexivity|exact HIs]|exact HD4]. }
  destruct (build_loop_tds _ _ HD k0 v0 ty' (mkIdType P [v0] (Some c0)) ns' c0 s4 _ eq_refl Hns' HN4 HU4) as [Ns [s5 [H5 [HU5 [HS5 [HN5 HDc]]]]]].
  assert (Hsm: kind_eqb (tk semi) K_SEMI = true) by (rewrite Hksemi; reflexivity).
  destruct (expect_up P s5 semi _ K_SEMI HU5 Hsm) as [s6 [H6 [HU6 HA6]]].
  exists (S (S (S (Nat.max f1 (Nat.max f3 f4))))), Ns, s6.
  split; [|split; [exact HU6|split; [|cost_tac]]].
  - intros f Hf. destruct f as [|[|f]]; try lia. rewrite declaration_eq. unfold bind at 1. rewrite declspec_eq. unfold bind at 1. rewrite (H1 f) by lia.
    rewrite Hsp, Hsaw. cbn [negb andb]. unfold ret at 1. cbv iota beta.
    unfold bind at 1. rewrite decl_body_eq. unfold bind at 1. unfold starts_declarator. unfold bind at 1. cbn [negb]. rewrite H2. rewrite Hkx.
    change (kind_eqb K_ID K_TIMES || kind_eqb K_ID K_LPAREN) with false. cbv iota. unfold ret at 1.
    change (kind_eqb K_ID K_ID || kind_eqb K_ID K_TYPEID) with true. cbv iota.
    unfold bind at 1. unfold bind at 1. destruct f as [|f]; [lia|]. rewrite idl_eq. unfold bind at 1. rewrite (H3 f) by lia.
    unfold bind at 1. rewrite (H4 f) by lia. unfold ret at 1. unfold ret at 1.
    change (mkSpec P [] [] (mkIdType P [v0] (Some c0) :: ns') [] []) with (spec_of (mkIdType P [v0] (Some c0) :: ns')).
    unfold build_declarations. change (mem_str (s2l "typedef") (s_storage P (spec_of (mkIdType P [v0] (Some c0) :: ns')))) with false.
    unfold bind at 1. unfold bind at 1. rewrite adjust_first_tds. cbn [fst snd].
    unfold bind at 1. rewrite H5. cbn [fst snd]. unfold ret at 1. change (s_qual P (spec_of (mkIdType P [v0] (Some c0) :: ns'))) with (@nil str).
    rewrite (set_quals_decls Ns _ _ HDc). cbv iota beta. rewrite H6. reflexivity.
  - clear - HDc. cbn [map snd]. remember ((tv xt, ki, Xi) :: ds) as dd eqn:Edd.
    assert (G: map (@strip (coord P)) Ns = map (fun d => dembed ((k0, v0) :: ty') (fst (fst d)) (snd d)) dd).
    { clear Edd. induction HDc as [|N d Ns dd [c' [I' [c0' [-> HI']]]] _ IHd]; [reflexivity|]. cbn [map]. rewrite IHd. f_equal.
      unfold decl1, dembed. cbn [map strip snd]. rewrite (strip_strs P). rewrite HI'. reflexivity. }
    rewrite G, Edd. reflexivity.
Qed.

End DT.
