(* C14: NodeVisitor.  The per-instance method cache is transparent - for every AST, every visitor
   (set of visit_X methods) and every consistent starting cache, visit() produces exactly the events
   of the cache-free traversal [spec_visit]; in that traversal every reachable node is reached exactly
   once, in pre-order, and a visit_X method intercepts exactly the nodes of class X. *)
From Coq Require Import List NArith Bool Arith Lia.
Import ListNotations.
From PV Require Import Regex Base AstDefs AstSpec AstImpl PyRepr NodeModel.
Open Scope nat_scope.

Section VP.
Variable P : Type.
Variable handler_of : cls -> handler.
Notation value := (value P).

(* the traversal without any cache *)
Fixpoint spec_visit (fuel: nat) (v: value) : option (list (cls * bool)) :=
  match fuel with
  | O => None
  | S f =>
    match v with
    | VNode c fs co =>
      let gen : option (list (cls * bool)) :=
        match children P v with
        | None => None
        | Some ch =>
          (fix go (l: list (str * value)) : option (list (cls * bool)) :=
             match l with
             | [] => Some []
             | (_, cv) :: l' =>
               match spec_visit f cv, go l' with
               | Some e1, Some e2 => Some (e1 ++ e2)
               | _, _ => None
               end
             end) ch
        end in
      match handler_of c with
      | H_generic => option_map (fun ev => (c, false) :: ev) gen
      | H_stop => Some [(c, true)]
      | H_recurse => option_map (fun ev => (c, true) :: ev) gen
      end
    | _ => None
    end
  end.

Definition cache_ok (m: cache) : Prop := forall c h, cache_get c m = Some h -> h = handler_of c.

Lemma cls_eqb_eq : forall a b, cls_eqb a b = true -> a = b.
Proof. intros a b H. unfold cls_eqb in H. apply N.eqb_eq in H. destruct a; destruct b; try reflexivity; discriminate. Qed.

Lemma resolve_ok : forall c m, cache_ok m -> fst (resolve handler_of c m) = handler_of c /\ cache_ok (snd (resolve handler_of c m)).
Proof.
  intros c m Hm. unfold resolve. destruct (cache_get c m) as [h|] eqn:E.
  - cbn. split; [apply Hm; exact E|exact Hm].
  - cbn. split; [reflexivity|]. intros c' h' H. cbn [cache_get] in H. destruct (cls_eqb c' c) eqn:Ec.
    + injection H as <-. apply cls_eqb_eq in Ec. subst. reflexivity.
    + apply Hm. exact H.
Qed.

Theorem visit_cache_transparent : forall f m v ev m', cache_ok m ->
  visit P handler_of f m v = Some (ev, m') -> spec_visit f v = Some ev /\ cache_ok m'.
Proof.
  induction f as [|f IH]; intros m v ev m' Hm H; [discriminate|].
  cbn [visit spec_visit] in *. destruct v as [| |l|c fs co]; try discriminate.
  pose proof (resolve_ok c m Hm) as [Hh Hm1]. destruct (resolve handler_of c m) as [h m1]. cbn [fst snd] in *. subst h.
  assert (Gen: forall ch m0 ev0 m2, cache_ok m0 ->
     (fix go (l: list (str * value)) (m2: cache) : option (list (cls * bool) * cache) :=
        match l with
        | [] => Some ([], m2)
        | (_, cv) :: l' =>
          match visit P handler_of f m2 cv with
          | None => None
          | Some (ev1, m3) => match go l' m3 with None => None | Some (ev2, m4) => Some (ev1 ++ ev2, m4) end
          end
        end) ch m0 = Some (ev0, m2) ->
     (fix go (l: list (str * value)) : option (list (cls * bool)) :=
        match l with
        | [] => Some []
        | (_, cv) :: l' => match spec_visit f cv, go l' with Some e1, Some e2 => Some (e1 ++ e2) | _, _ => None end
        end) ch = Some ev0 /\ cache_ok m2).
  { induction ch as [|[nm cv] ch IHch]; intros m0 ev0 m2 H0 Hg.
    - injection Hg as <- <-. split; [reflexivity|exact H0].
    - destruct (visit P handler_of f m0 cv) as [[ev1 m3]|] eqn:Ev; [|discriminate].
      destruct (IH _ _ _ _ H0 Ev) as [Hs1 Hm3].
      match type of Hg with match ?G with _ => _ end = _ => destruct G as [[ev2 m4]|] eqn:Eg; [|discriminate] end.
      injection Hg as <- <-. destruct (IHch _ _ _ Hm3 Eg) as [Hs2 Hm4].
      rewrite Hs1, Hs2. split; [reflexivity|exact Hm4]. }
  destruct (handler_of c).
  - destruct (children P (VNode c fs co)) as [ch|]; [|discriminate].
    match type of H with match ?G with _ => _ end = _ => destruct G as [[ev0 m2]|] eqn:Eg; [|discriminate] end.
    injection H as <- <-. destruct (Gen _ _ _ _ Hm1 Eg) as [Hs Hm2]. rewrite Hs. split; [reflexivity|exact Hm2].
  - injection H as <- <-. split; [reflexivity|exact Hm1].
  - destruct (children P (VNode c fs co)) as [ch|]; [|discriminate].
    match type of H with match ?G with _ => _ end = _ => destruct G as [[ev0 m2]|] eqn:Eg; [|discriminate] end.
    injection H as <- <-. destruct (Gen _ _ _ _ Hm1 Eg) as [Hs Hm2]. rewrite Hs. split; [reflexivity|exact Hm2].
Qed.

(* a visit_X method intercepts exactly the nodes of class X *)
Theorem intercept_exactly : forall f v ev, spec_visit f v = Some ev ->
  Forall (fun e => snd e = match handler_of (fst e) with H_generic => false | _ => true end) ev.
Proof.
  induction f as [|f IH]; intros v ev H; [discriminate|].
  cbn [spec_visit] in H. destruct v as [| |l|c fs co]; try discriminate.
  assert (Gen: forall ch ev0,
     (fix go (l: list (str * value)) : option (list (cls * bool)) :=
        match l with
        | [] => Some []
        | (_, cv) :: l' => match spec_visit f cv, go l' with Some e1, Some e2 => Some (e1 ++ e2) | _, _ => None end
        end) ch = Some ev0 -> Forall (fun e => snd e = match handler_of (fst e) with H_generic => false | _ => true end) ev0).
  { induction ch as [|[nm cv] ch IHch]; intros ev0 Hg.
    - injection Hg as <-. constructor.
    - destruct (spec_visit f cv) as [e1|] eqn:E1; [|discriminate].
      match type of Hg with match ?G with _ => _ end = _ => destruct G as [e2|] eqn:E2; [|discriminate] end.
      injection Hg as <-. apply Forall_app. split; [eapply IH; eauto|apply IHch; reflexivity]. }
  destruct (handler_of c) eqn:Eh.
  - destruct (children P (VNode c fs co)) as [ch|]; [|discriminate].
    match type of H with option_map _ ?G = _ => destruct G as [ev0|] eqn:Eg; [|discriminate] end.
    injection H as <-. constructor; [cbn; rewrite Eh; reflexivity|apply (Gen _ _ Eg)].
  - injection H as <-. constructor; [cbn; rewrite Eh; reflexivity|constructor].
  - destruct (children P (VNode c fs co)) as [ch|]; [|discriminate].
    match type of H with option_map _ ?G = _ => destruct G as [ev0|] eqn:Eg; [|discriminate] end.
    injection H as <-. constructor; [cbn; rewrite Eh; reflexivity|apply (Gen _ _ Eg)].
Qed.
End VP.

(* every reachable node exactly once, in pre-order *)
Section Pre.
Variable P : Type.
Notation value := (value P).

Fixpoint preorder (fuel: nat) (v: value) : option (list cls) :=
  match fuel with
  | O => None
  | S f =>
    match v with
    | VNode c fs co =>
      match children P v with
      | None => None
      | Some ch =>
        option_map (fun r => c :: r)
          ((fix go (l: list (str * value)) : option (list cls) :=
              match l with
              | [] => Some []
              | (_, cv) :: l' => match preorder f cv, go l' with Some a, Some b => Some (a ++ b) | _, _ => None end
              end) ch)
      end
    | _ => None
    end
  end.

Theorem generic_visit_is_preorder : forall f v,
  spec_visit P (fun _ => H_generic) f v = option_map (map (fun c => (c, false))) (preorder f v).
Proof.
  induction f as [|f IH]; intros v; [reflexivity|].
  cbn [spec_visit preorder]. destruct v as [| |l|c fs co]; try reflexivity.
  destruct (children P (VNode c fs co)) as [ch|]; [|reflexivity].
  assert (Gen: forall ch,
     (fix go (l: list (str * value)) : option (list (cls * bool)) :=
        match l with
        | [] => Some []
        | (_, cv) :: l' => match spec_visit P (fun _ => H_generic) f cv, go l' with Some e1, Some e2 => Some (e1 ++ e2) | _, _ => None end
        end) ch =
     option_map (map (fun c => (c, false)))
       ((fix go (l: list (str * value)) : option (list cls) :=
           match l with
           | [] => Some []
           | (_, cv) :: l' => match preorder f cv, go l' with Some a, Some b => Some (a ++ b) | _, _ => None end
           end) ch)).
  { induction ch0 as [|[nm cv] ch0 IHch]; [reflexivity|].
    rewrite IH, IHch. destruct (preorder f cv) as [a|]; cbn [option_map]; [|reflexivity].
    match goal with |- context [option_map _ ?G] => destruct G as [b|] end; cbn [option_map]; [|reflexivity].
    rewrite map_app. reflexivity. }
  rewrite Gen.
  match goal with |- context [option_map (map _) ?G] => destruct G as [r|] end; reflexivity.
Qed.
End Pre.
