(* C15: facts about repr() of AST nodes and strings. *)
From Coq Require Import List NArith ZArith Bool Arith Lia.
Ltac Zify.zify_post_hook ::= Z.to_euclidean_division_equations.
Import ListNotations.
From PV Require Import Regex Base AstDefs AstSpec AstImpl PyRepr NodeModel NodeProofs.
Open Scope N_scope.

(* every keyword that Node.__repr__ prints (slots[:-2]) is a constructor parameter, in
   the same order, and together with coord they are all the parameters: eval(repr(n))
   calls the constructor with exactly the keywords it accepts, none missing *)
Theorem slots_cover_init :
  forallb (fun ci => list_str_eqb (firstn (length (ci_slots ci) - 2) (ci_slots ci) ++ [s_coord]) (ci_params ci)) ast_impl = true.
Proof. vm_compute. reflexivity. Qed.

(* the last two slots are coord and __weakref__ for every class, so slots[:-2] drops exactly those *)
Theorem slots_tail :
  forallb (fun ci => list_str_eqb (skipn (length (ci_slots ci) - 2) (ci_slots ci)) [s_coord; s_weakref]) ast_impl = true.
Proof. vm_compute. reflexivity. Qed.

(* repr of a string never contains a raw newline (so the indentation
   replace("\n", ...) of Node.__repr__ never touches string contents) *)
Lemma repr_char_no_nl : forall pr q c, q <> 10 -> ~ In 10 (repr_char pr q c).
Proof.
  intros pr q c Hq. unfold repr_char.
  destruct (N.eqb c q || N.eqb c BSLASH) eqn:E1.
  { apply orb_true_iff in E1. intros [H|[H|[]]]; [discriminate|].
    destruct E1 as [E|E]; apply N.eqb_eq in E; subst; [congruence|discriminate]. }
  destruct (N.eqb c 9); [intros [H|[H|[]]]; discriminate|].
  destruct (N.eqb c 10) eqn:E10; [intros [H|[H|[]]]; discriminate|].
  apply N.eqb_neq in E10.
  assert (Hhex: forall w n acc, ~ In 10 acc -> ~ In 10 (hex_fixed w n acc)).
  { induction w as [|w IH]; intros n acc Ha; cbn [hex_fixed]; [exact Ha|].
    apply IH. intros [H|H]; [|tauto]. unfold hex_digit in H.
    destruct (N.ltb (N.land n 15) 10) eqn:El; lia. }
  destruct (N.eqb c 13); [intros [H|[H|[]]]; discriminate|].
  destruct (N.ltb c 32 || N.eqb c 127).
  { intros [H|[H|H]]; try discriminate. revert H. apply Hhex. auto. }
  destruct (N.ltb c 127); [intros [H|[]]; congruence|].
  destruct (pr c); [intros [H|[]]; congruence|].
  destruct (N.leb c 255).
  { intros [H|[H|H]]; try discriminate. revert H. apply Hhex. auto. }
  destruct (N.leb c 65535).
  { intros [H|[H|H]]; try discriminate. revert H. apply Hhex. auto. }
  intros [H|[H|H]]; try discriminate. revert H. apply Hhex. auto.
Qed.

Theorem repr_str_no_newline : forall pr s, ~ In 10 (py_repr_with pr s).
Proof.
  intros pr s. unfold py_repr_with.
  assert (Hq: repr_quote s <> 10).
  { unfold repr_quote. destruct (has_chr QUOTE s && negb (has_chr DQUOTE s)); discriminate. }
  intros [H|H]; [congruence|].
  apply in_app_or in H. destruct H as [H|[H|[]]]; [|congruence].
  apply in_flat_map in H. destruct H as (c & _ & Hc). revert Hc. apply repr_char_no_nl. exact Hq.
Qed.
