From Coq Require Import List NArith Bool Arith.
Import ListNotations.
From PV Require Import Regex Base LexTables NodeModel ParserBase ParserDecl ParserMain Api.

(* array of pointers to functions returning pointer to int: derivations from the identifier outward *)
Example ex_C03_inside_out :
  outcome_str (s2l "int *(*fp[3])(char, int *);") = s2l "OK|(FileAST [(Decl 'fp' [] [] [] [] (ArrayDecl (PtrDecl [] (FuncDecl (ParamList [(Typename None [] None (TypeDecl None [] None (IdentifierType ['char']))),(Typename None [] None (PtrDecl [] (TypeDecl None [] None (IdentifierType ['int']))))]) (PtrDecl [] (TypeDecl 'fp' [] None (IdentifierType ['int']))))) (Constant 'int' '3') []) None None)])".
Proof. vm_compute. reflexivity. Qed.
(* specifiers shared by several declarators apply to each *)
Example ex_C03_shared_specifiers :
  outcome_str (s2l "static const int a, *b, c[2];") = s2l "OK|(FileAST [(Decl 'a' ['const'] [] ['static'] [] (TypeDecl 'a' ['const'] None (IdentifierType ['int'])) None None),(Decl 'b' ['const'] [] ['static'] [] (PtrDecl [] (TypeDecl 'b' ['const'] None (IdentifierType ['int']))) None None),(Decl 'c' ['const'] [] ['static'] [] (ArrayDecl (TypeDecl 'c' ['const'] None (IdentifierType ['int'])) (Constant 'int' '2') []) None None)])".
Proof. vm_compute. reflexivity. Qed.
(* _Atomic(T) means the _Atomic-qualified T *)
Example ex_C03_atomic_specifier :
  outcome_str (s2l "_Atomic(int) x;") = s2l "OK|(FileAST [(Decl 'x' ['_Atomic'] [] [] [] (TypeDecl 'x' ['_Atomic'] None (IdentifierType ['int'])) None None)])".
Proof. vm_compute. reflexivity. Qed.
(* witness: with several declarators the shared _Atomic(...) node is mutated - the second declaration is named x as well *)
Example ex_C03_atomic_shared_refuted :
  outcome_str (s2l "_Atomic(int) x, *p;") = s2l "OK|(FileAST [(Decl 'x' ['_Atomic'] [] [] [] (TypeDecl 'x' ['_Atomic'] None (IdentifierType ['int'])) None None),(Decl 'p' ['_Atomic'] [] [] [] (PtrDecl [] (TypeDecl 'x' ['_Atomic'] None (IdentifierType ['int']))) None None)])".
Proof. vm_compute. reflexivity. Qed.
