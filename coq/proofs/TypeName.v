(* C07 / C02 / C04: type names made of simple type-specifier keywords (`int`, `unsigned long`, ...) or one typedef name,
   as they occur in casts and in sizeof: forward reasoning through p_type_name (p_spec_loop, p_specifier_qualifier_list,
   p_abstract_declarator_opt, _fix_decl_name_type). *)
From Coq Require Import String.
From Coq Require Import List NArith Bool Arith Lia.
Import ListNotations.
From PV Require Import Regex Base AstDefs AstSpec AstImpl GenTables NodeModel Generator ClimbProofs ClimbComplete GenParen GenBinop.
From PV Require Import LexTables ParserTables PyRepr ParserBase ParserDecl ParserMain LexerProofs TableProofs.
From PV Require Import BinaryRefine ExprShape UnaryShape CoordProofs ElseProofs StreamLib RoundTrip RoundTripGen.
Open Scope nat_scope.

(* the kinds of the simple type specifiers, and what they are not *)
Lemma simple_kind_facts : forall k, kind_in k tbl_TYPE_SPEC_SIMPLE = true ->
  kind_eqb k K_uALIGNAS = false /\ kind_eqb k K_uATOMIC = false /\ kind_in k tbl_TYPE_QUALIFIER = false /\
  kind_in k tbl_DECL_START = true.
Proof. intros k H. destruct k; vm_compute in H; try discriminate H; vm_compute; repeat split. Qed.

Lemma decl_start_not_lbrace : forall k, kind_in k tbl_DECL_START = true -> kind_eqb k K_LBRACE = false.
Proof. intros k H. destruct k; vm_compute in H; try discriminate H; reflexivity. Qed.

Lemma rparen_stops_spec : kind_eqb K_RPAREN K_uALIGNAS = false /\ kind_eqb K_RPAREN K_uATOMIC = false /\
  kind_in K_RPAREN tbl_TYPE_QUALIFIER = false /\ kind_in K_RPAREN tbl_TYPE_SPEC_SIMPLE = false /\ kind_eqb K_RPAREN K_TYPEID = false /\
  (kind_eqb K_RPAREN K_STRUCT || kind_eqb K_RPAREN K_UNION) = false /\ kind_eqb K_RPAREN K_ENUM = false.
Proof. vm_compute. repeat split. Qed.

Section TN.
Variable P : Type.
Notation pstate := (ParserBase.pstate P).
Notation tok := (ParserBase.tok P).
Notation node := (ParserBase.node P).
Notation Up := (StreamLib.Up P).
Notation Spell := (RoundTrip.Spell P).

Lemma spec_loop_eq : forall f dm st,
  p_spec_loop P (S f) dm st =
  bind P (peek P) (fun t =>
    match t with
    | None => ret P st
    | Some t' =>
      let k := tk t' in
      if kind_eqb k K_uALIGNAS then
        bind P (tok_coord P t') (fun tc => bind P (p_alignment_specifier P f) (fun a =>
        let st1 := set_first P st tc in
        p_spec_loop P f dm (mkSS P (add_alignment P (ss_spec P st1) a) (ss_saw_type P st1) true (ss_first P st1))))
      else
      bind P (if kind_eqb k K_uATOMIC then bind P (peek_kind_k P 2) (fun k2 => ret P (okind_is k2 K_LPAREN)) else ret P false) (fun is_atomic_spec =>
      bind P (tok_coord P t') (fun tc =>
      if is_atomic_spec then
        bind P (p_atomic_specifier P f) (fun a =>
        let st1 := set_first P st tc in
        p_spec_loop P f dm (mkSS P (add_type P (ss_spec P st1) a) true (ss_saw_align P st1) (ss_first P st1)))
      else if kind_in k tbl_TYPE_QUALIFIER then
        bind P (advance P) (fun tq =>
        let st1 := set_first P st tc in
        p_spec_loop P f dm (mkSS P (add_qual P (ss_spec P st1) (tv tq)) (ss_saw_type P st1) (ss_saw_align P st1) (ss_first P st1)))
      else if dm && kind_in k tbl_STORAGE_CLASS then
        bind P (advance P) (fun tq =>
        let st1 := set_first P st tc in
        p_spec_loop P f dm (mkSS P (add_storage P (ss_spec P st1) (tv tq)) (ss_saw_type P st1) (ss_saw_align P st1) (ss_first P st1)))
      else if dm && kind_in k tbl_FUNCTION_SPEC then
        bind P (advance P) (fun tq =>
        let st1 := set_first P st tc in
        p_spec_loop P f dm (mkSS P (add_function P (ss_spec P st1) (tv tq)) (ss_saw_type P st1) (ss_saw_align P st1) (ss_first P st1)))
      else if kind_in k tbl_TYPE_SPEC_SIMPLE then
        bind P (advance P) (fun tq => bind P (tcoord P tq) (fun c2 =>
        let st1 := set_first P st tc in
        p_spec_loop P f dm (mkSS P (add_type P (ss_spec P st1) (mkIdType P [tv tq] c2)) true (ss_saw_align P st1) (ss_first P st1))))
      else if kind_eqb k K_TYPEID then
        if ss_saw_type P st then ret P st
        else
          bind P (advance P) (fun tq => bind P (tcoord P tq) (fun c2 =>
          let st1 := set_first P st tc in
          p_spec_loop P f dm (mkSS P (add_type P (ss_spec P st1) (mkIdType P [tv tq] c2)) true (ss_saw_align P st1) (ss_first P st1))))
      else if kind_eqb k K_STRUCT || kind_eqb k K_UNION then
        bind P (p_struct_or_union_specifier P f) (fun a =>
        let st1 := set_first P st tc in
        p_spec_loop P f dm (mkSS P (add_type P (ss_spec P st1) a) true (ss_saw_align P st1) (ss_first P st1)))
      else if kind_eqb k K_ENUM then
        bind P (p_enum_specifier P f) (fun a =>
        let st1 := set_first P st tc in
        p_spec_loop P f dm (mkSS P (add_type P (ss_spec P st1) a) true (ss_saw_align P st1) (ss_first P st1)))
      else ret P st))
    end).
Proof. reflexivity. Qed.

Lemma tok_coord_eq : forall (t: tok) (s: pstate), tok_coord P t s = Ok (mkCoord P (curfile P s) (tp t), s).
Proof. reflexivity. Qed.
Lemma tcoord_eq : forall (t: tok) (s: pstate), tcoord P t s = Ok (Some (mkCoord P (curfile P s) (tp t)), s).
Proof. reflexivity. Qed.

(* the IdentifierType nodes the loop collects: one per keyword, each with its own coordinate *)
Definition IdNodes (ns: list node) (vs: list str) : Prop := Forall2 (fun n v => exists c, n = mkIdType P [v] (Some c)) ns vs.

Lemma spec_loop_run : forall kvs, Forall (fun kv => kind_in (fst kv) tbl_TYPE_SPEC_SIMPLE = true) kvs ->
  forall st (s: pstate) le (stop: tok) l0, Spell le kvs -> Up s (le ++ stop :: l0) -> tk stop = K_RPAREN ->
  exists f0 ns st' s', (forall f, f0 <= f -> p_spec_loop P f false st s = Ok (st', s')) /\ Up s' (stop :: l0) /\ Ran P s s' (length le) /\
    IdNodes ns (map snd kvs) /\ ss_spec P st' = fold_left (add_type P) ns (ss_spec P st) /\
    ss_saw_type P st' = (ss_saw_type P st || negb (match ns with [] => true | _ => false end)).
Proof.
  induction kvs as [|[k v] kvs IH]; intros HF st s le stop l0 HS HU Hst.
  - apply (RoundTrip.Spell_nil_inv P) in HS. subst le. cbn [app] in HU.
    destruct (peek_up P s stop l0 HU) as [s1 [H1 [HU1 HC1]]].
    exists 1, [], st, s1. split; [|split; [exact HU1|split; [cost_tac|split; [constructor|split; [reflexivity|cbn; rewrite orb_false_r; reflexivity]]]]].
    intros f Hf. destruct f as [|f]; [lia|]. rewrite spec_loop_eq. unfold bind at 1. rewrite H1. cbv zeta. rewrite Hst.
    destruct rparen_stops_spec as (E1 & E2 & E3 & E4 & E5 & E6 & E7). rewrite E1, E2.
    unfold bind at 1. unfold ret at 1. unfold bind at 1. rewrite tok_coord_eq. cbv iota. rewrite E3. cbn [andb]. rewrite E4, E5, E6, E7. reflexivity.
  - inversion HF as [|x y Hk HF']; subst x y. cbn [fst] in Hk.
    destruct (RoundTrip.Spell_cons_inv P _ _ _ _ HS) as [t [le' [-> [Hkt [Hvt HS']]]]]. cbn [app] in HU.
    destruct (simple_kind_facts k Hk) as (E1 & E2 & E3 & _).
    destruct (peek_up P s t _ HU) as [s1 [H1 [HU1 HC1]]].
    destruct (advance_up P s1 t _ HU1) as [s2 [H2 [HU2 HC2]]].
    set (c2 := mkCoord P (curfile P s2) (tp t)).
    set (st1 := set_first P st (mkCoord P (curfile P s1) (tp t))).
    set (st2 := mkSS P (add_type P (ss_spec P st1) (mkIdType P [tv t] (Some c2))) true (ss_saw_align P st1) (ss_first P st1)).
    destruct (IH HF' st2 s2 le' stop l0 HS' HU2 Hst) as [f0 [ns [st' [s3 [H3 [HU3 [HR3 [Hns [Hsp Hsaw]]]]]]]]].
    exists (S f0), (mkIdType P [tv t] (Some c2) :: ns), st', s3.
    split; [|split; [exact HU3|split; [cost_tac|split; [|split]]]].
    + intros f Hf. destruct f as [|f]; [lia|]. rewrite spec_loop_eq. unfold bind at 1. rewrite H1. cbv zeta. rewrite Hkt, E1, E2.
      unfold bind at 1. unfold ret at 1. unfold bind at 1. rewrite tok_coord_eq. cbv iota. rewrite E3. cbn [andb]. rewrite Hk.
      unfold bind at 1. rewrite H2. unfold bind at 1. rewrite tcoord_eq. apply H3. lia.
    + cbn [map snd]. constructor; [exists c2; rewrite Hvt; reflexivity|exact Hns].
    + rewrite Hsp. cbn [fold_left]. unfold st2. cbn [ss_spec]. unfold st1, set_first. destruct (ss_first P st); reflexivity.
    + rewrite Hsaw. unfold st2. cbn [ss_saw_type]. rewrite orb_true_r. reflexivity.
Qed.

(* ---- the type names of the language: a run of simple type specifiers, or one typedef name ---- *)
Definition st0 : specst P := mkSS P None false false None.
Definition TyRun (kvs: list (kind * str)) : Prop :=
  forall (s: pstate) le (stop: tok) l0, Spell le kvs -> Up s (le ++ stop :: l0) -> tk stop = K_RPAREN ->
  exists f0 ns st' s', (forall f, f0 <= f -> p_spec_loop P f false st0 s = Ok (st', s')) /\ Up s' (stop :: l0) /\ Ran P s s' (length le) /\
    IdNodes ns (map snd kvs) /\ ss_spec P st' = fold_left (add_type P) ns (ss_spec P st0) /\
    ss_saw_type P st' = (ss_saw_type P st0 || negb (match ns with [] => true | _ => false end)).
Definition TyOK (kvs: list (kind * str)) : Prop :=
  kvs <> [] /\ (exists k v r, kvs = (k, v) :: r /\ kind_in k tbl_DECL_START = true) /\ TyRun kvs.

Lemma simple_tyok : forall kvs, kvs <> [] -> Forall (fun kv => kind_in (fst kv) tbl_TYPE_SPEC_SIMPLE = true) kvs -> TyOK kvs.
Proof.
  intros kvs Hne HF. split; [exact Hne|]. split.
  - destruct kvs as [|[k v] r]; [congruence|]. exists k, v, r. split; [reflexivity|]. pose proof (Forall_inv HF) as Hk. cbn [fst] in Hk.
    exact (proj2 (proj2 (proj2 (simple_kind_facts k Hk)))).
  - intros s le stop l0 HS HU Hst. exact (spec_loop_run kvs HF st0 s le stop l0 HS HU Hst).
Qed.

Lemma typeid_tyok : forall v, TyOK [(K_TYPEID, v)].
Proof.
  intros v. split; [discriminate|]. split; [exists K_TYPEID, v, []; split; reflexivity|].
  intros s le stop l0 HS HU Hst.
  destruct (RoundTrip.Spell_cons_inv P _ _ _ _ HS) as [t [le' [-> [Hkt [Hvt HS']]]]]. apply (RoundTrip.Spell_nil_inv P) in HS'. subst le'. cbn [app] in HU.
  destruct (peek_up P s t _ HU) as [s1 [H1 [HU1 HC1]]].
  destruct (advance_up P s1 t _ HU1) as [s2 [H2 [HU2 HC2]]].
  set (c2 := mkCoord P (curfile P s2) (tp t)).
  set (st2 := mkSS P (add_type P None (mkIdType P [tv t] (Some c2))) true false (Some (mkCoord P (curfile P s1) (tp t)))).
  destruct (spec_loop_run [] (Forall_nil _) st2 s2 [] stop l0 eq_refl HU2 Hst) as [f0 [ns [st' [s3 [H3 [HU3 [HR3 [Hns [Hsp Hsaw]]]]]]]]].
  inversion Hns. subst ns. cbn [fold_left] in Hsp.
  exists (S f0), [mkIdType P [tv t] (Some c2)], st', s3.
  split; [|split; [exact HU3|split; [cost_tac|split; [|split]]]].
  - intros f Hf. destruct f as [|f]; [lia|]. rewrite spec_loop_eq. unfold bind at 1. rewrite H1. cbv zeta. rewrite Hkt.
    change (kind_eqb K_TYPEID K_uALIGNAS) with false. change (kind_eqb K_TYPEID K_uATOMIC) with false. cbv iota.
    unfold bind at 1. unfold ret at 1. unfold bind at 1. rewrite tok_coord_eq. cbv iota.
    change (kind_in K_TYPEID tbl_TYPE_QUALIFIER) with false. cbn [andb]. change (kind_in K_TYPEID tbl_TYPE_SPEC_SIMPLE) with false.
    change (kind_eqb K_TYPEID K_TYPEID) with true. cbv iota. cbn [st0 ss_saw_type].
    unfold bind at 1. rewrite H2. unfold bind at 1. rewrite tcoord_eq. apply H3. lia.
  - cbn [map snd]. constructor; [exists c2; rewrite Hvt; reflexivity|constructor].
  - rewrite Hsp. reflexivity.
  - rewrite Hsaw. reflexivity.
Qed.

(* ---- _fix_decl_name_type on the Typename of a cast / sizeof ---- *)
Lemma WF_S : exists n, WF = S (S (S n)).
Proof. eexists. reflexivity. Qed.

Definition tn0 (co: option (coord P)) : node := mkN P C_Typename [VStr []; vstrs P []; VNone; empty_TypeDecl P] co.
Definition tn_res (names: list node) (c0 co: option (coord P)) : node :=
  VNode C_Typename [VNone; VList []; VNone; VNode C_TypeDecl [VNone; VList []; VNone; VNode C_IdentifierType [VList names] c0] None] co.

Lemma all_names_ids : forall ns vs (s: pstate), IdNodes ns vs -> all_names P ns s = Ok (map (fun v => VStr v) vs, s).
Proof.
  intros ns vs s H. induction H as [|n v ns vs [c ->] _ IH]; [reflexivity|].
  unfold all_names in *. unfold bind at 1. change (getA P (a_names) (mkIdType P [v] (Some c)) s) with (@Ok P (node * pstate) (VList [VStr v], s)).
  unfold bind at 1. rewrite IH. reflexivity.
Qed.

Lemma find_ids : forall ns vs, IdNodes ns vs -> find (fun tn => negb (is_cls P C_IdentifierType tn)) ns = None.
Proof. intros ns vs H. induction H as [|n v ns vs [c ->] _ IH]; [reflexivity|]. cbn [find]. change (negb (is_cls P C_IdentifierType (mkIdType P [v] (Some c)))) with false. exact IH. Qed.

Lemma fix_tn : forall co n0 ns v0 vs c0 (s: pstate), n0 = mkIdType P [v0] (Some c0) -> IdNodes ns vs ->
  fix_decl_name_type P WF (tn0 co) (n0 :: ns) s = Ok (tn_res (map (fun v => VStr v) (v0 :: vs)) (Some c0) co, s).
Proof.
  intros co n0 ns v0 vs c0 s -> Hns. destruct WF_S as [n E]. rewrite E.
  unfold fix_decl_name_type.
  unfold bind at 1. change (find_typedecl P (S (S (S n))) (tn0 co) s) with (@Ok P (node * pstate) (empty_TypeDecl P, s)).
  unfold bind at 1. change (getA P a_declname (empty_TypeDecl P) s) with (@Ok P (node * pstate) (VNone, s)).
  unfold bind at 1. change (setA P a_name VNone (tn0 co) s) with (@Ok P (node * pstate) (VNode C_Typename [VNone; vstrs P []; VNone; empty_TypeDecl P] co, s)).
  set (d1 := VNode C_Typename [VNone; vstrs P []; VNone; empty_TypeDecl P] co).
  unfold bind at 1. change (getA P a_quals d1 s) with (@Ok P (node * pstate) (VList [], s)).
  unfold bind at 1. unfold ret at 1.
  assert (Hf: find (fun tn => negb (is_cls P C_IdentifierType tn)) (mkIdType P [v0] (Some c0) :: ns) = None).
  { apply (find_ids _ (v0 :: vs)). constructor; [exists c0; reflexivity|exact Hns]. }
  rewrite Hf.
  unfold bind at 1. rewrite (all_names_ids (mkIdType P [v0] (Some c0) :: ns) (v0 :: vs)) by (constructor; [exists c0; reflexivity|exact Hns]).
  unfold bind at 1. change (coordA P (mkIdType P [v0] (Some c0)) s) with (@Ok P (option (coord P) * pstate) (Some c0, s)).
  reflexivity.
Qed.

(* ---- p_type_name on a run of simple type specifiers followed by `)` ---- *)
Lemma type_name_eq : forall f,
  p_type_name P (S f) =
  bind P (p_specifier_qualifier_list P f) (fun spec => bind P (p_abstract_declarator_opt P f) (fun decl =>
  bind P (match decl with
          | Some d => coordA P d
          | None => match s_type P spec with
                    | t0 :: _ => coordA P t0
                    | [] => match s_alignment P spec with a0 :: _ => coordA P a0 | [] => ret P None end
                    end
          end) (fun co =>
  bind P (fix_decl_name_type P WF (mkN P C_Typename [VStr []; vstrs P (s_qual P spec); VNone; opt_or_empty_typedecl P decl] co) (s_type P spec))
         (fun fixed => fix_atomic_specifiers P WF fixed)))).
Proof. reflexivity. Qed.

(* fix_atomic_specifiers finds no _Atomic specifier in such a type name and leaves it alone *)
Lemma WF_S6 : exists n, WF = S (S (S (S (S (S n))))).
Proof. eexists. reflexivity. Qed.
Lemma fix_atomic_tn : forall names c0 co (s: pstate), fix_atomic_specifiers P WF (tn_res names c0 co) s = Ok (tn_res names c0 co, s).
Proof. intros names c0 co s. destruct WF_S6 as [n E]. rewrite E. reflexivity. Qed.

Lemma sql_eq : forall f,
  p_specifier_qualifier_list P (S f) =
  bind P (p_spec_loop P f false (mkSS P None false false None)) (fun st =>
    match ss_spec P st with
    | None => bind P (cur_file P) (fun fl => fail P (L_file P fl) (s2l "Invalid specifier list"))
    | Some spec =>
      if negb (ss_saw_type P st) && negb (ss_saw_align P st) then fail P (loc_of P (ss_first P st)) (s2l "Missing type in declaration")
      else ret P spec
    end).
Proof. reflexivity. Qed.

Lemma ado_none : forall (s: pstate) (t: tok) l, Up s (t :: l) -> tk t = K_RPAREN ->
  exists s1, (forall f, p_abstract_declarator_opt P (S f) s = Ok (None, s1)) /\ Up s1 (t :: l) /\ Same P s s1.
Proof.
  intros s t l HU Hk. destruct (peek_kind_up P s t l HU) as [s1 [H1 [HU1 HS1]]]. exists s1. split; [|split; [exact HU1|exact HS1]].
  intros f. change (p_abstract_declarator_opt P (S f)) with
    (bind P (peek_kind P) (fun k =>
      if okind_is k K_TIMES then
        bind P (p_pointer P f) (fun ptr => bind P (peek_kind P) (fun k2 =>
        bind P (if okind_is k2 K_LPAREN || okind_is k2 K_LBRACKET then p_direct_abstract_declarator P f else ret P (empty_TypeDecl P)) (fun decl =>
        match ptr with Some p => bind P (type_modify_decl P WF decl p) (fun d => ret P (Some d)) | None => crash P CK_Assertion end)))
      else if okind_is k K_LPAREN || okind_is k K_LBRACKET then bind P (p_direct_abstract_declarator P f) (fun d => ret P (Some d))
      else ret P None)).
  unfold bind at 1. rewrite H1. rewrite Hk. reflexivity.
Qed.

Lemma fold_types : forall ns sp, fold_left (add_type P) ns (Some sp) =
  Some (mkSpec P (s_qual P sp) (s_storage P sp) (s_type P sp ++ ns) (s_function P sp) (s_alignment P sp)).
Proof.
  induction ns as [|n ns IH]; intros sp; cbn [fold_left]; [rewrite app_nil_r; destruct sp; reflexivity|].
  unfold add_type at 2. cbn [spec_or_new]. rewrite IH. cbn. rewrite <- app_assoc. reflexivity.
Qed.

Definition tn_emb (vs: list str) : value unit :=
  VNode C_Typename [VNone; VList []; VNone; VNode C_TypeDecl [VNone; VList []; VNone; VNode C_IdentifierType [VList (map (fun v => VStr v) vs)] None] None] None.

Lemma strip_strs : forall vs, map (@strip (coord P)) (map (fun v => VStr v) vs) = map (fun v => VStr v) vs.
Proof. induction vs as [|v vs IH]; [reflexivity|]. cbn [map strip]. rewrite IH. reflexivity. Qed.

Lemma type_name_run : forall kvs, TyOK kvs ->
  forall (s: pstate) le (stop: tok) l0, Spell le kvs -> Up s (le ++ stop :: l0) -> tk stop = K_RPAREN ->
  exists f0 N s', (forall f, f0 <= f -> p_type_name P f s = Ok (N, s')) /\ Up s' (stop :: l0) /\ Ran P s s' (length le) /\
    strip N = tn_emb (map snd kvs).
Proof.
  intros kvs (Hne & _ & HR) s le stop l0 HS HU Hst.
  destruct (HR s le stop l0 HS HU Hst) as [f0 [ns [st' [s1 [H1 [HU1 [HR1 [Hns [Hsp Hsaw]]]]]]]]]. unfold st0 in H1, Hsp, Hsaw.
  destruct (ado_none s1 stop l0 HU1 Hst) as [s2 [H2 [HU2 HS2]]].
  destruct kvs as [|[k0 v0] kvs']; [congruence|]. cbn [map snd] in Hns.
  inversion Hns as [|n0 v0' ns' vs' [c0 En0] Hns' E1]. subst.
  cbn [ss_spec fold_left] in Hsp. unfold add_type at 2 in Hsp. cbn [spec_or_new] in Hsp. rewrite fold_types in Hsp. cbn in Hsp.
  cbn [ss_saw_type orb negb] in Hsaw.
  exists (S (S f0)), (tn_res (map (fun v => VStr v) (v0 :: map snd kvs')) (Some c0) (Some c0)), s2.
  split; [|split; [exact HU2|split; [cost_tac|]]].
  - intros f Hf. destruct f as [|[|f]]; try lia. rewrite type_name_eq. unfold bind at 1. rewrite sql_eq. unfold bind at 1. rewrite (H1 f) by lia.
    rewrite Hsp, Hsaw. cbn [negb andb]. unfold ret at 1. unfold bind at 1. rewrite H2. cbn [s_type s_qual].
    unfold bind at 1. change (coordA P (mkIdType P [v0] (Some c0)) s2) with (@Ok P (option (coord P) * pstate) (Some c0, s2)).
    cbn [opt_or_empty_typedecl]. unfold bind at 1. change (mkN P C_Typename [VStr []; vstrs P []; VNone; empty_TypeDecl P] (Some c0)) with (tn0 (Some c0)).
    rewrite (fix_tn (Some c0) (mkIdType P [v0] (Some c0)) ns' v0 (map snd kvs') c0 s2 eq_refl Hns'). apply fix_atomic_tn.
  - unfold tn_res, tn_emb. cbn [strip map]. rewrite strip_strs. reflexivity.
Qed.

(* ---- `( type-name )`: the speculative attempt succeeds ---- *)
Lemma tptn_type : forall kvs, TyOK kvs ->
  forall (s: pstate) (lp: tok) le (rpt: tok) l0, tk lp = K_LPAREN -> Spell le kvs -> tk rpt = K_RPAREN -> Up s (lp :: le ++ rpt :: l0) ->
  exists f0 N s', (forall f, f0 <= f -> try_paren_type_name P f s = Ok (Some (N, idx P s, lp), s')) /\ Up s' l0 /\
    Ran P s s' (S (S (length le))) /\ strip N = tn_emb (map snd kvs).
Proof.
  intros kvs HT s lp le rpt l0 Hlp HS Hrp HU. pose proof HT as (Hne & [k0 [v0 [kvs' [Ekvs Hk0]]]] & _).
  assert (Hlpk: kind_eqb (tk lp) K_LPAREN = true) by (rewrite Hlp; reflexivity).
  destruct (accept_hit P s lp _ K_LPAREN HU Hlpk) as [s1 [H1 [HU1 HC1]]].
  (* the first token of the type name starts a declaration *)
  assert (Hx: exists x le', le = x :: le' /\ kind_in (tk x) tbl_DECL_START = true).
  { pose proof HS as HS'. rewrite Ekvs in HS'. destruct (RoundTrip.Spell_cons_inv P _ _ _ _ HS') as [x [le' [-> [Hkx _]]]]. exists x, le'. split; [reflexivity|].
    rewrite Hkx. exact Hk0. }
  destruct Hx as [x [le' [El Hxd]]]. pose proof HU1 as HU1'. rewrite El in HU1'. cbn [app] in HU1'.
  destruct (peek_kind_up P s1 x _ HU1') as [s2 [H2 [HU2 HC2]]].
  change (x :: le' ++ rpt :: l0) with ((x :: le') ++ rpt :: l0) in HU2. rewrite <- El in HU2.
  destruct (type_name_run kvs HT s2 le rpt l0 HS HU2 Hrp) as [f0 [N [s3 [H3 [HU3 [HR3 HN]]]]]].
  assert (Hrpk: kind_eqb (tk rpt) K_RPAREN = true) by (rewrite Hrp; reflexivity).
  destruct (accept_hit P s3 rpt _ K_RPAREN HU3 Hrpk) as [s4 [H4 [HU4 HC4]]].
  exists (S f0), N, s4. split; [|split; [exact HU4|split; [cost_tac|exact HN]]].
  intros f Hf. destruct f as [|f]; [lia|]. rewrite (RoundTrip.tptn_eq P). unfold bind at 1. rewrite mark_eq. unfold bind at 1. rewrite H1.
  unfold bind at 1. unfold starts_declaration. unfold bind at 1. rewrite H2. unfold ret at 1. cbn [okind_in]. rewrite Hxd. cbn [negb].
  unfold bind at 1. rewrite (H3 f) by lia. unfold bind at 1. rewrite H4. reflexivity.
Qed.

(* ---- a cast: ( type-name ) cast-expression ---- *)
Lemma cast_type : forall kts ko Xo, TyOK kts ->
  first_ok ko -> CastS P ko Xo ->
  CastS P ((K_LPAREN, s2l "(") :: kts ++ (K_RPAREN, s2l ")") :: ko) (VNode C_Cast [tn_emb (map snd kts); Xo] None).
Proof.
  intros kts ko Xo HT [k [v [rest [Ek [_ [Hlb _]]]]]] HO s la n l HS HU Hq.
  destruct (RoundTrip.Spell_cons_inv P _ _ _ _ HS) as [lp [l1 [-> [Hlp [_ HS1]]]]].
  destruct (RoundTrip.Spell_app_inv P _ _ _ HS1) as [lt [l2 [-> [HSt HS2]]]].
  destruct (RoundTrip.Spell_cons_inv P _ _ _ _ HS2) as [rpt [lo [-> [Hrp [_ HSo]]]]].
  cbn [app] in HU. rewrite <- app_assoc in HU. cbn [app] in HU.
  destruct (tptn_type kts HT s lp lt rpt _ Hlp HSt Hrp HU) as [f1 [Nt [s1 [H1 [HU1 [HR1 HNt]]]]]].
  pose proof HSo as HSo0. rewrite Ek in HSo. destruct (RoundTrip.Spell_cons_inv P _ _ _ _ HSo) as [x [lo' [-> [Hkx _]]]]. cbn [app] in HU1.
  destruct (peek_kind_up P s1 x _ HU1) as [s2 [H2 [HU2 HC2]]].
  change (x :: lo' ++ n :: l) with ((x :: lo') ++ n :: l) in HU2.
  destruct (HO s2 (x :: lo') n l HSo0 HU2 Hq) as [f2 [No [s3 [H3 [HU3 [HNo HR3]]]]]].
  exists (S (Nat.max f1 f2)), (mkN P C_Cast [Nt; No] (Some (mkCoord P (curfile P s3) (tp lp)))), s3.
  split; [|split; [exact HU3|split; [unfold mkN; cbn [strip map]; rewrite HNt, HNo; reflexivity|cost_tac]]].
  intros f Hf. destruct f as [|f]; [lia|]. rewrite (cast_eq P). unfold bind at 1. rewrite (H1 f) by lia.
  unfold bind at 1. rewrite H2. cbn [okind_is]. rewrite Hkx, Hlb.
  unfold bind at 1. rewrite (H3 f) by lia. unfold bind at 1. rewrite tcoord_eq. reflexivity.
Qed.

(* ---- sizeof ( type-name ) ---- *)
Lemma sizeof_type : forall kts, TyOK kts ->
  CastS P ((K_SIZEOF, s2l "sizeof") :: (K_LPAREN, s2l "(") :: kts ++ [(K_RPAREN, s2l ")")])
          (VNode C_UnaryOp [VStr (s2l "sizeof"); tn_emb (map snd kts)] None).
Proof.
  intros kts HT s la n l HS HU Hq.
  destruct (RoundTrip.Spell_cons_inv P _ _ _ _ HS) as [t [l0 [-> [Hk [Hv HS0]]]]].
  destruct (RoundTrip.Spell_cons_inv P _ _ _ _ HS0) as [lp [l1 [-> [Hlp [_ HS1]]]]].
  destruct (RoundTrip.Spell_app_inv P _ _ _ HS1) as [lt [l2 [-> [HSt HS2]]]].
  destruct (RoundTrip.Spell_cons_inv P _ _ _ _ HS2) as [rpt [l3 [-> [Hrp [_ HS3]]]]]. apply (RoundTrip.Spell_nil_inv P) in HS3. subst l3.
  cbn [app] in HU. rewrite <- app_assoc in HU. cbn [app] in HU.
  assert (HnoLP: kind_eqb (tk t) K_LPAREN = false) by (rewrite Hk; reflexivity).
  destruct (tptn_no_paren_c P s t _ HU HnoLP) as [s1 [H1 [HU1 HC1]]].
  destruct (peek_kind_up P s1 t _ HU1) as [s2 [H2 [HU2 HC2]]].
  destruct (advance_up P s2 t _ HU2) as [s3 [H3 [HU3 HC3]]].
  destruct (tptn_type kts HT s3 lp lt rpt _ Hlp HSt Hrp HU3) as [f1 [Nt [s4 [H4 [HU4 [HR4 HNt]]]]]].
  exists (S (S (S f1))), (mkN P C_UnaryOp [VStr (tv t); Nt] (Some (mkCoord P (curfile P s4) (tp t)))), s4.
  split; [|split; [exact HU4|split; [unfold mkN; cbn [strip map]; rewrite Hv, HNt; reflexivity|cost_tac]]].
  intros f Hf. destruct f as [|[|[|f]]]; try lia. rewrite (cast_eq P). unfold bind at 1. rewrite H1.
  rewrite (unary_eq P). unfold bind at 1. rewrite H2. rewrite Hk.
  change (okind_is (Some K_SIZEOF) K_PLUSPLUS || okind_is (Some K_SIZEOF) K_MINUSMINUS) with false.
  change (okind_in (Some K_SIZEOF) [K_AND; K_TIMES; K_PLUS; K_MINUS; K_NOT; K_LNOT]) with false.
  change (okind_is (Some K_SIZEOF) K_SIZEOF) with true. cbv iota.
  unfold bind at 1. rewrite H3. unfold bind at 1. rewrite (H4 (S f)) by lia. unfold bind at 1. rewrite tcoord_eq. reflexivity.
Qed.
End TN.
