From Coq Require Import List NArith Bool Arith.
Import ListNotations.
From PV Require Import Regex Base LexTables NodeModel ParserBase ParserDecl ParserMain Api.

(* a stray '@' is rejected at its own position *)
Example ex_C18_stray_at :
  outcome_str (s2l "int x @ = 1;") = s2l "E|f.c:1:7: Illegal character '@'".
Proof. vm_compute. reflexivity. Qed.
(* a comment is not a token *)
Example ex_C18_comment :
  outcome_str (s2l "int x; /* c */") = s2l "E|f.c:1:8: Comments are not supported, see https://github.com/eliben/pycparser#3using.".
Proof. vm_compute. reflexivity. Qed.
(* a directive other than #line / #pragma is rejected *)
Example ex_C18_directive :
  outcome_str (s2l "#define X 1
int x;") = s2l "E|f.c:1:1: Directives not supported yet".
Proof. vm_compute. reflexivity. Qed.
(* a deleted ] is rejected *)
Example ex_C18_missing_bracket :
  outcome_str (s2l "int f(int a) { return a[1; }") = s2l "E|f.c:1:26: before: ;".
Proof. vm_compute. reflexivity. Qed.
(* a duplicated { is rejected *)
Example ex_C18_extra_brace :
  outcome_str (s2l "int f(void) { { return 1; }") = s2l "E|f.c: At end of input".
Proof. vm_compute. reflexivity. Qed.
(* a bracket of the wrong kind is rejected *)
Example ex_C18_swapped_kind :
  outcome_str (s2l "int f(void) { return g(1]; }") = s2l "E|f.c:1:25: before: ]".
Proof. vm_compute. reflexivity. Qed.
