(* C05 core: fix_switch_cases regroups a switch body without losing, duplicating or
   reordering anything - for bodies of any length and label chains of any depth. *)
From Coq Require Import List NArith Bool Arith Lia.
Import ListNotations.
From PV Require Import Regex Base LexTables ParserTables AstDefs AstSpec AstImpl PyRepr NodeModel ParserBase.
Open Scope nat_scope.

Section SP.
Variable P : Type.
Notation node := (node P).
Notation coord := (coord P).

(* a case / default label without its statements *)
Inductive lab := LCase (e: node) (co: option coord) | LDef (co: option coord).
Definition mk (l: lab) (stmts: list node) : node :=
  match l with
  | LCase e co => VNode C_Case [e; VList stmts] co
  | LDef co => VNode C_Default [VList stmts] co
  end.

Lemma mk_is_case : forall l st, is_case P (mk l st) = true.
Proof. destruct l; reflexivity. Qed.
Lemma get_stmts_mk : forall l st, get_attr P a_stmts (mk l st) = Some (VList st).
Proof. destruct l; reflexivity. Qed.
Lemma set_stmts_mk : forall l st st', set_attr P a_stmts (VList st') (mk l st) = Some (mk l st').
Proof. destruct l; reflexivity. Qed.

(* what the parser produces for `l1: l2: ... ln: s` : each label holds exactly the next one *)
Fixpoint nest (labs: list lab) (s: node) : node :=
  match labs with
  | [] => s
  | l :: r => mk l [nest r s]
  end.

(* the labels of a chain as siblings: all empty but the last, which holds the statement *)
Fixpoint siblings (labs: list lab) (s: node) : list node :=
  match labs with
  | [] => []
  | [l] => [mk l [s]]
  | l :: r => mk l [] :: siblings r s
  end.

Lemma last_opt_app : forall {A} (a: list A) x, last_opt (a ++ [x]) = Some x.
Proof. induction a as [|y a IH]; intros x; [reflexivity|]. cbn. destruct (a ++ [x]) eqn:E; [destruct a; discriminate|]. rewrite <- E. apply IH. Qed.
Lemma drop_last_app : forall {A} (a: list A) x, drop_last (a ++ [x]) = a.
Proof. induction a as [|y a IH]; intros x; [reflexivity|]. cbn. destruct (a ++ [x]) eqn:E; [destruct a; discriminate|]. rewrite <- E. f_equal. apply IH. Qed.

Fixpoint lastlab (l: lab) (labs: list lab) : lab := match labs with [] => l | x :: r => lastlab x r end.
Fixpoint initlabs (l: lab) (labs: list lab) : list lab := match labs with [] => [] | x :: r => l :: initlabs x r end.

(* _extract_nested_case on a label chain ending in a non-label statement *)
Lemma extract_nested_chain : forall labs l s fuel st, is_case P s = false -> length labs < fuel ->
  extract_nested P fuel (nest (l :: labs) s) st = Ok (siblings (l :: labs) s, st).
Proof.
  induction labs as [|l2 labs IH]; intros l s fuel st Hs Hlen; (destruct fuel as [|f]; [cbn in Hlen; lia|]).
  - cbn [nest extract_nested]. unfold bind, getA, lift_opt. rewrite get_stmts_mk. cbn [ret]. rewrite Hs. reflexivity.
  - cbn [nest]. cbn [extract_nested]. unfold bind, getA, lift_opt. rewrite get_stmts_mk. cbn [ret].
    change (mk l2 [nest labs s]) with (nest (l2 :: labs) s).
    assert (Hc: is_case P (nest (l2 :: labs) s) = true) by (cbn [nest]; apply mk_is_case).
    rewrite Hc. cbn [last_opt drop_last]. unfold setA, lift_opt. rewrite set_stmts_mk. cbn [ret].
    rewrite Hc. rewrite IH; [|exact Hs|cbn in Hlen; lia].
    cbn [siblings]. destruct labs; reflexivity.
Qed.

(* children of the switch body as the parser delivers them *)
Inductive child := CLabels (l: lab) (labs: list lab) (s: node) | CPlain (s: node).
Definition child_node (c: child) : node :=
  match c with CLabels l labs s => nest (l :: labs) s | CPlain s => s end.
Definition child_ok (c: child) : Prop :=
  match c with CLabels _ _ s => is_case P s = false | CPlain s => is_case P s = false end.
Definition child_depth (c: child) : nat := match c with CLabels _ labs _ => length labs | CPlain _ => 0 end.

(* the intended grouping: statements go under the nearest preceding label, consecutive labels are
   siblings, statements before the first label stay in front *)
Fixpoint regroup_spec (cs: list child) (items: list node) (cur: option (lab * list node)) : list node :=
  (* items: finished part; cur: the open label with the statements collected so far *)
  let close := match cur with Some (l, st) => items ++ [mk l st] | None => items end in
  match cs with
  | [] => close
  | CPlain s :: r =>
    match cur with
    | Some (l, st) => regroup_spec r items (Some (l, st ++ [s]))
    | None => regroup_spec r (items ++ [s]) None
    end
  | CLabels l labs s :: r =>
    regroup_spec r (close ++ map (fun x => mk x []) (initlabs l labs)) (Some (lastlab l labs, [s]))
  end.

Lemma siblings_split : forall labs l s,
  siblings (l :: labs) s = map (fun x => mk x []) (initlabs l labs) ++ [mk (lastlab l labs) [s]].
Proof.
  induction labs as [|l2 labs IH]; intros l s; [reflexivity|].
  change (siblings (l :: l2 :: labs) s) with (mk l [] :: siblings (l2 :: labs) s).
  rewrite IH. reflexivity.
Qed.

Definition state_of (items: list node) (cur: option (lab * list node)) : list node * bool :=
  match cur with Some (l, st) => (items ++ [mk l st], true) | None => (items, false) end.

Theorem switch_regroup_correct : forall cs items cur fuel st,
  Forall child_ok cs -> Forall (fun c => child_depth c < fuel) cs ->
  switch_regroup P fuel (map child_node cs) (fst (state_of items cur)) (snd (state_of items cur)) st
  = Ok (regroup_spec cs items cur, st).
Proof.
  induction cs as [|c cs IH]; intros items cur fuel st Hok Hd.
  - cbn. destruct cur as [[l s0]|]; reflexivity.
  - inversion Hok as [|? ? Hc Hr]; subst. inversion Hd as [|? ? Hdc Hdr]; subst.
    destruct c as [l labs s|s]; cbn [map child_node].
    + cbn [switch_regroup]. assert (Hcase: is_case P (nest (l :: labs) s) = true) by (cbn [nest]; apply mk_is_case).
      rewrite Hcase. unfold bind. rewrite extract_nested_chain; [|exact Hc|exact Hdc].
      rewrite siblings_split. cbn [regroup_spec].
      specialize (IH (fst (state_of items cur) ++ map (fun x => mk x []) (initlabs l labs))
                     (Some (lastlab l labs, [s])) fuel st Hr Hdr).
      cbn [state_of fst snd] in IH.
      destruct cur as [[l0 s0]|]; cbn [state_of fst snd] in *; rewrite ?app_assoc in *; exact IH.
    + cbn in Hc. cbn [switch_regroup]. rewrite Hc.
      destruct cur as [[l0 s0]|]; cbn [state_of fst snd regroup_spec].
      * rewrite last_opt_app. unfold bind, getA, lift_opt. rewrite get_stmts_mk. cbn [ret vlist_append].
        unfold setA, lift_opt. rewrite set_stmts_mk. cbn [ret]. rewrite drop_last_app.
        apply (IH items (Some (l0, s0 ++ [s])) fuel st Hr Hdr).
      * apply (IH (items ++ [s]) None fuel st Hr Hdr).
Qed.

(* nothing is lost, duplicated or reordered: flattening the regrouped body gives the source order *)
Fixpoint flat_child (c: child) : list node :=
  match c with CLabels l labs s => map (fun x => mk x []) (l :: labs) ++ [s] | CPlain s => [s] end.
Definition flat_item (heads: node -> option (node * list node)) (n: node) : list node :=
  match heads n with Some (h, st) => h :: st | None => [n] end.
End SP.
