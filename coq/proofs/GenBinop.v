(* Tie between the abstract parenthesisation theorem (GenParen.v) and the generator model
   (Generator.v, tied to c_generator.py by text-exact correspondence): on every tree of binary
   operators over identifiers, with either setting of reduce_parentheses, the generator model
   prints exactly the rendering of GenParen.flatten -- atoms and operators in order, an atom
   being an identifier or a parenthesised subtree. *)
From Coq Require Import String.
From Coq Require Import List NArith ZArith Bool Arith Lia.
Import ListNotations.
From PV Require Import Regex Base AstDefs AstSpec AstImpl GenTables NodeModel Generator ClimbProofs GenParen.
Open Scope nat_scope.

Section GB.
Variable C : Type.
Variable rp : bool.
Notation node := (value C).
Notation gt := (gt str str).

Definition gprec (o: str) : nat := match prec_lookup_s o with Some p => p | None => 0 end.
Notation keepL := (keepL str str gprec rp).
Notation keepR := (keepR str str gprec rp).

Fixpoint emb (t: gt) : node :=
  match t with
  | GLeaf _ _ a => VNode C_ID [VStr a] None
  | GBin _ _ o l r => VNode C_BinaryOp [VStr o; emb l; emb r] None
  end.

Fixpoint ops_known (t: gt) : Prop :=
  match t with
  | GLeaf _ _ _ => True
  | GBin _ _ o l r => prec_lookup_s o <> None /\ ops_known l /\ ops_known r
  end.

Fixpoint height (t: gt) : nat :=
  match t with GLeaf _ _ _ => 1 | GBin _ _ _ l r => S (Nat.max (height l) (height r)) end.

Definition par (x: str) : str := s "(" ++ x ++ s ")".
Definition is_leaf (t: gt) : bool := match t with GLeaf _ _ _ => true | _ => false end.

Fixpoint print (t: gt) : str :=
  match t with
  | GLeaf _ _ a => a
  | GBin _ _ o l r =>
    (if is_leaf l || keepL o l then print l else par (print l)) ++ s " " ++ o ++ s " " ++
    (if is_leaf r || keepR o r then print r else par (print r))
  end.

(* rendering of the flat sequence of GenParen.flatten *)
Definition atom_text (t: gt) : str := if is_leaf t then print t else par (print t).
Definition render (hl: gt * list (str * gt)) : str :=
  atom_text (fst hl) ++ concat_str (map (fun oa => s " " ++ fst oa ++ s " " ++ atom_text (snd oa)) (snd hl)).

Lemma concat_str_app : forall a b, concat_str (a ++ b) = concat_str a ++ concat_str b.
Proof. induction a as [|x a IH]; intros b; cbn; [reflexivity|]. rewrite IH, app_assoc. reflexivity. Qed.

Lemma print_bin : forall o l r, print (GBin _ _ o l r) =
    (if is_leaf l || keepL o l then print l else par (print l)) ++ s " " ++ o ++ s " " ++
    (if is_leaf r || keepR o r then print r else par (print r)).
Proof. reflexivity. Qed.
Lemma flatten_bin : forall o l r, flatten str str gprec rp (GBin _ _ o l r) =
    let (hl, ll) := if keepL o l then flatten str str gprec rp l else (l, []) in
    let (hr, lr) := if keepR o r then flatten str str gprec rp r else (r, []) in
    (hl, ll ++ (o, hr) :: lr).
Proof. reflexivity. Qed.

Lemma print_is_render : forall t, is_leaf t = false -> print t = render (flatten str str gprec rp t).
Proof.
  induction t as [a|o l IHl r IHr]; intros Hl; [discriminate|]. clear Hl.
  rewrite print_bin, flatten_bin.
  assert (HL: (if is_leaf l || keepL o l then print l else par (print l)) =
              render (if keepL o l then flatten str str gprec rp l else (l, []))).
  { destruct (keepL o l) eqn:E.
    - rewrite orb_true_r. apply IHl. destruct l; [discriminate|reflexivity].
    - rewrite orb_false_r. unfold render, atom_text. cbn [fst snd map concat_str]. rewrite app_nil_r. reflexivity. }
  assert (HR: (if is_leaf r || keepR o r then print r else par (print r)) =
              render (if keepR o r then flatten str str gprec rp r else (r, []))).
  { destruct (keepR o r) eqn:E.
    - rewrite orb_true_r. apply IHr. destruct r; [discriminate|reflexivity].
    - rewrite orb_false_r. unfold render, atom_text. cbn [fst snd map concat_str]. rewrite app_nil_r. reflexivity. }
  set (FL := if keepL o l then flatten str str gprec rp l else (l, [])) in *.
  set (FR := if keepR o r then flatten str str gprec rp r else (r, [])) in *.
  transitivity (render FL ++ s " " ++ o ++ s " " ++ render FR).
  { apply f_equal2; [exact HL|]. do 3 (apply f_equal2; [reflexivity|]). exact HR. }
  destruct FL as [hl ll]. destruct FR as [hr lr].
  unfold render. cbn [fst snd]. rewrite map_app, concat_str_app. cbn [map concat_str fst snd].
  rewrite <- !app_assoc. reflexivity.
Qed.

(* ---- the generator model on these trees ---- *)
Definition cond (op: str) (strict: bool) (d: node) : GM (bool) :=
  if is_simple C d then gret false
  else if rp && is_c C C_BinaryOp d then
    gbind (gattr C "op" d) (fun dopv => gbind (as_str C dopv) (fun dop =>
      match prec_lookup_s dop, prec_lookup_s op with
      | Some pd, Some pn => gret (negb (if strict then Nat.ltb pn pd else Nat.leb pn pd))
      | _, _ => gcrash
      end))
  else gret true.

Lemma visit_id : forall f a co st, visit C rp (S f) (VNode C_ID [VStr a] co) st = GOk (a, st).
Proof. reflexivity. Qed.

Lemma visit_expr_binop : forall f fs co, visit_expr C rp (S f) (VNode C_BinaryOp fs co) = visit C rp f (VNode C_BinaryOp fs co).
Proof. reflexivity. Qed.
Lemma visit_expr_id : forall f fs co, visit_expr C rp (S f) (VNode C_ID fs co) = visit C rp f (VNode C_ID fs co).
Proof. reflexivity. Qed.

Lemma visit_binop : forall f o l r co,
  visit C rp (S f) (VNode C_BinaryOp [VStr o; l; r] co) =
  gbind (visit_expr C rp f l) (fun ls => gbind (cond o false l) (fun lc =>
  gbind (visit_expr C rp f r) (fun rs => gbind (cond o true r) (fun rc =>
  gret ((if lc then s "(" ++ ls ++ s ")" else ls) ++ s " " ++ o ++ s " " ++ (if rc then s "(" ++ rs ++ s ")" else rs)))))).
Proof. reflexivity. Qed.

Lemma cond_left : forall o t st, prec_lookup_s o <> None -> ops_known t ->
  cond o false (emb t) st = GOk (negb (is_leaf t || keepL o t), st).
Proof.
  intros o [a|od l r] st Ho Hk; [reflexivity|].
  cbn [ops_known] in Hk. destruct Hk as [Hod _].
  unfold cond. change (is_simple C (emb (GBin _ _ od l r))) with false. cbv iota.
  change (is_c C C_BinaryOp (emb (GBin _ _ od l r))) with true. rewrite andb_true_r.
  cbn [is_leaf orb GenParen.keepL]. unfold gprec.
  destruct rp; [|reflexivity].
  change (gattr C "op" (emb (GBin _ _ od l r))) with (@gret (value C) (VStr od)).
  unfold as_str. unfold gbind, gret, gcrash. cbv beta iota. cbn [andb].
  destruct (prec_lookup_s od) as [pd|]; [|congruence]. destruct (prec_lookup_s o) as [pn|]; [|congruence].
  reflexivity.
Qed.

Lemma cond_right : forall o t st, prec_lookup_s o <> None -> ops_known t ->
  cond o true (emb t) st = GOk (negb (is_leaf t || keepR o t), st).
Proof.
  intros o [a|od l r] st Ho Hk; [reflexivity|].
  cbn [ops_known] in Hk. destruct Hk as [Hod _].
  unfold cond. change (is_simple C (emb (GBin _ _ od l r))) with false. cbv iota.
  change (is_c C C_BinaryOp (emb (GBin _ _ od l r))) with true. rewrite andb_true_r.
  cbn [is_leaf orb GenParen.keepR]. unfold gprec.
  destruct rp; [|reflexivity].
  change (gattr C "op" (emb (GBin _ _ od l r))) with (@gret (value C) (VStr od)).
  unfold as_str. unfold gbind, gret, gcrash. cbv beta iota. cbn [andb].
  destruct (prec_lookup_s od) as [pd|]; [|congruence]. destruct (prec_lookup_s o) as [pn|]; [|congruence].
  reflexivity.
Qed.

(* the generator model prints [print t] and leaves the indentation state alone *)
Theorem visit_prints : forall t, ops_known t -> forall fuel st, 2 * height t <= S fuel ->
  visit C rp fuel (emb t) st = GOk (print t, st).
Proof.
  induction t as [a|o l IHl r IHr]; intros Hk fuel st Hf.
  - destruct fuel as [|f]; [cbn in Hf; lia|]. apply visit_id.
  - cbn [ops_known] in Hk. destruct Hk as (Ho & Hkl & Hkr). cbn [height] in Hf.
    assert (Hpos: forall x: gt, 1 <= height x) by (intros [?|? ? ?]; cbn [height]; lia).
    pose proof (Hpos l). pose proof (Hpos r). destruct fuel as [|[|f]]; try lia.
    assert (Hvl: visit_expr C rp (S f) (emb l) st = GOk (print l, st)).
    { destruct l; cbn [emb]; [rewrite visit_expr_id|rewrite visit_expr_binop]; apply IHl; try assumption; cbn [height] in *; lia. }
    assert (Hvr: visit_expr C rp (S f) (emb r) st = GOk (print r, st)).
    { destruct r; cbn [emb]; [rewrite visit_expr_id|rewrite visit_expr_binop]; apply IHr; try assumption; cbn [height] in *; lia. }
    cbn [emb]. rewrite visit_binop. unfold gbind at 1. rewrite Hvl.
    unfold gbind at 1. rewrite (cond_left o l st Ho Hkl).
    unfold gbind at 1. rewrite Hvr.
    unfold gbind at 1. rewrite (cond_right o r st Ho Hkr).
    unfold gret. rewrite print_bin. unfold par.
    destruct (is_leaf l || keepL o l); destruct (is_leaf r || keepR o r); reflexivity.
Qed.

(* together: the text the generator model emits is the rendering of a sequence whose only
   stratified-grammar tree is the tree it was given (atoms = identifiers and parenthesised subtrees) *)
Theorem generator_binop_text : forall t, ops_known t -> is_leaf t = false -> forall fuel st, 2 * height t <= S fuel ->
  visit C rp fuel (emb t) st = GOk (render (flatten str str gprec rp t), st) /\
  forall T, D gt str gprec 0 (Leaf gt str (fst (flatten str str gprec rp t))) (snd (flatten str str gprec rp t)) T
            <-> T = skel str str gprec rp t.
Proof.
  intros t Hk Hl fuel st Hf. split.
  - rewrite <- print_is_render by exact Hl. apply visit_prints; assumption.
  - apply generated_sequence_has_exactly_its_tree.
Qed.
End GB.
