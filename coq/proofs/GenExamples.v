From Coq Require Import List NArith Bool Arith.
Import ListNotations.
From PV Require Import Regex Base LexTables NodeModel ParserBase ParserDecl ParserMain Api.

(* parse . generate . parse = parse and second generation = first (default configuration) *)
Example ex_C07_roundtrip_decls :
  roundtrip_ok false (s2l "typedef int T; static const T a = 1, *b[3], (*fp)(int, char *); struct S { int x : 3; T y; } s = { .x = 1, .y = 2 };") = true.
Proof. vm_compute. reflexivity. Qed.
(* ... and with reduce_parentheses *)
Example ex_C07_roundtrip_rp_decls :
  roundtrip_ok true (s2l "typedef int T; static const T a = 1, *b[3], (*fp)(int, char *); struct S { int x : 3; T y; } s = { .x = 1, .y = 2 };") = true.
Proof. vm_compute. reflexivity. Qed.
(* parse . generate . parse = parse and second generation = first (default configuration) *)
Example ex_C07_roundtrip_exprs :
  roundtrip_ok false (s2l "int f(int a, int b) { return (a + b) * (a - b) / (a ? b : -a) + sizeof(int) + (int)a % b << 2 >= (a & b | a ^ b) && !a || ~b; }") = true.
Proof. vm_compute. reflexivity. Qed.
(* ... and with reduce_parentheses *)
Example ex_C07_roundtrip_rp_exprs :
  roundtrip_ok true (s2l "int f(int a, int b) { return (a + b) * (a - b) / (a ? b : -a) + sizeof(int) + (int)a % b << 2 >= (a & b | a ^ b) && !a || ~b; }") = true.
Proof. vm_compute. reflexivity. Qed.
(* parse . generate . parse = parse and second generation = first (default configuration) *)
Example ex_C07_roundtrip_stmts :
  roundtrip_ok false (s2l "void g(int n) { for (int i = 0; i < n; i++) { if (i) continue; else break; } while (n--) ; do n++; while (n < 3); switch (n) { case 1: case 2: n = 1; break; default: ; } L: goto L; }") = true.
Proof. vm_compute. reflexivity. Qed.
(* ... and with reduce_parentheses *)
Example ex_C07_roundtrip_rp_stmts :
  roundtrip_ok true (s2l "void g(int n) { for (int i = 0; i < n; i++) { if (i) continue; else break; } while (n--) ; do n++; while (n < 3); switch (n) { case 1: case 2: n = 1; break; default: ; } L: goto L; }") = true.
Proof. vm_compute. reflexivity. Qed.
(* parse . generate . parse = parse and second generation = first (default configuration) *)
Example ex_C07_roundtrip_nested_ops :
  roundtrip_ok false (s2l "int h(int a, int b, int c) { return a - (b - c) + a * (b + c) - (a - b) - c + a / (b / c) + (a << b) + c; }") = true.
Proof. vm_compute. reflexivity. Qed.
(* ... and with reduce_parentheses *)
Example ex_C07_roundtrip_rp_nested_ops :
  roundtrip_ok true (s2l "int h(int a, int b, int c) { return a - (b - c) + a * (b + c) - (a - b) - c + a / (b / c) + (a << b) + c; }") = true.
Proof. vm_compute. reflexivity. Qed.
(* witness (known finding): a for-init declaration with several declarators does not round-trip *)
Example ex_C07_forinit_multi_refuted :
  roundtrip_ok false (s2l "void f(void){ for (int *p = 0, *q = 0; ; ) ; }") = false.
Proof. vm_compute. reflexivity. Qed.
(* witness (known finding): an assignment whose lvalue is a comma expression does not round-trip *)
Example ex_C07_assign_lvalue_refuted :
  roundtrip_ok false (s2l "void f(void){ (a, b) = 1; }") = false.
Proof. vm_compute. reflexivity. Qed.
