(* Forward reasoning on the buffered token stream of the parser model (ParserBase: _TokenStream with
   lazy delivery, typedef-name classification at delivery time, mark / reset):
   [Up s l]: the tokens the parser will see next from state s are l (a prefix of what is to come),
   braces included (they open and close a scope at delivery; the stack is threaded through UpR).  peek / peek(2) / advance /
   accept / expect / reset behave on such a state as on a plain list. *)
From Coq Require Import List NArith Bool Arith Lia.
Import ListNotations.
From PV Require Import Regex Base LexTables ParserTables AstDefs AstSpec AstImpl PyRepr NodeModel ParserBase.
Open Scope nat_scope.

Section SL.
Variable P : Type.
Notation pstate := (pstate P).
Notation tok := (tok P).

(* the token an item is delivered as under the scope stack sc, and the scope stack afterwards:
   `{` opens a scope at delivery, `}` closes one (there must be one to close) *)
Definition cl (sc: list (list (option str * bool))) (i: pitem P) : option (tok * list (list (option str * bool))) :=
  match i with
  | PTok _ k v p fa =>
    let t := mkTok P (if kind_eqb k K_ID then (if is_type_in (Some v) sc then K_TYPEID else K_ID) else k) v p in
    if kind_eqb k K_LBRACE then Some (t, [] :: sc)
    else if kind_eqb k K_RBRACE then match sc with _ :: (_ :: _) as sc' => Some (t, sc') | _ => None end
    else Some (t, sc)
  | _ => None
  end.

Inductive UpR : list (list (option str * bool)) -> list (pitem P) -> list tok -> Prop :=
| UpR_nil : forall sc r, UpR sc r []
| UpR_cons : forall sc i r t sc' l, cl sc i = Some (t, sc') -> UpR sc' r l -> UpR sc (i :: r) (t :: l).

Definition Up (s: pstate) (l: list tok) : Prop :=
  exists a l2, after P s = map Some a /\ l = a ++ l2 /\ UpR (scopes P s) (raw P s) l2.

Lemma UpR_inv : forall sc rw t l, UpR sc rw (t :: l) -> exists i r sc', rw = i :: r /\ cl sc i = Some (t, sc') /\ UpR sc' r l.
Proof. intros sc rw t l H. inversion H as [|sc0 i r t' sc' l' Hc HU' Hs Hr]. exists i, r, sc'. split; [reflexivity|split; assumption]. Qed.

(* a scope stack without typedef names; [SC s s']: the step from s to s' introduces none, and it changes the depth of the
   stack by delivering braces only (every lemma of this library and every level statement built on it carries it, so that
   declarations - which add names to the innermost scope - can be followed through expressions and statements) *)
Definition NoTD (sc: list (list (option str * bool))) : Prop := sc <> [] /\ Forall (Forall (fun e => snd e = false)) sc.
(* ... and [tot]: tokens consumed + buffered + not yet delivered - constant as long as the end of the input is not reached, which
   is what lets a completeness theorem say "and then the input is exhausted" *)
Definition tot (s: pstate) : nat := idx P s + length (after P s) + length (raw P s).
Definition SC (s s': pstate) : Prop := (NoTD (scopes P s) -> NoTD (scopes P s')) /\ tot s' = tot s.
Lemma SC_refl : forall s, SC s s.
Proof. intros s. split; [exact (fun H => H)|reflexivity]. Qed.
Lemma SC_trans : forall a b c, SC a b -> SC b c -> SC a c.
Proof. intros a b c [K1 T1] [K2 T2]. split; [exact (fun H => K2 (K1 H))|congruence]. Qed.

Definition Same (s s1: pstate) : Prop := before P s1 = before P s /\ idx P s1 = idx P s /\ ticks P s1 = ticks P s /\ SC s s1.
Definition Adv (t: tok) (s s2: pstate) : Prop := before P s2 = Some t :: before P s /\ idx P s2 = S (idx P s) /\ ticks P s2 = (ticks P s + 1)%N /\ SC s s2.

(* [Ran s s' n]: from s to s' the parser consumed n tokens and called next() at most 3 n times (a token in front
   of which a parenthesised type name is tried is read once by each speculative attempt and once for good) *)
Definition Ran (s s': pstate) (n: nat) : Prop :=
  idx P s' = idx P s + n /\ N.to_nat (ticks P s') <= N.to_nat (ticks P s) + 3 * n /\ SC s s'.

(* the same for a postfix chain, which is entered after at most two speculative attempts: two reads to spare *)
Definition RanR (s s': pstate) (n: nat) : Prop :=
  idx P s' = idx P s + n /\ N.to_nat (ticks P s') + 2 <= N.to_nat (ticks P s) + 3 * n /\ SC s s'.

Lemma Same_refl : forall s, Same s s.
Proof. intros s. split; [reflexivity|split; [reflexivity|split; [reflexivity|apply SC_refl]]]. Qed.
Lemma Same_trans : forall a b c, Same a b -> Same b c -> Same a c.
Proof. intros a b c [H1 [H2 [H2' K1]]] [H3 [H4 [H4' K2]]]. split; [congruence|split; [congruence|split; [congruence|exact (SC_trans _ _ _ K1 K2)]]]. Qed.
Lemma Adv_Same : forall t a b c, Adv t a b -> Same b c -> Adv t a c.
Proof. intros t a b c [H1 [H2 [H2' K1]]] [H3 [H4 [H4' K2]]]. split; [congruence|split; [congruence|split; [congruence|exact (SC_trans _ _ _ K1 K2)]]]. Qed.
Lemma Same_Adv : forall t a b c, Same a b -> Adv t b c -> Adv t a c.
Proof. intros t a b c [H1 [H2 [H2' K1]]] [H3 [H4 [H4' K2]]]. split; [congruence|split; [congruence|split; [congruence|exact (SC_trans _ _ _ K1 K2)]]]. Qed.

(* delivering an item keeps a typedef-free scope stack typedef-free *)
Lemma cl_notd : forall sc i t sc', cl sc i = Some (t, sc') -> NoTD sc -> NoTD sc'.
Proof.
  intros sc i t sc' Hc HN. destruct i as [k v p fa|msg p f|]; cbn [cl] in Hc; try discriminate.
  destruct HN as [HN0 HN]. destruct (kind_eqb k K_LBRACE).
  - injection Hc as _ <-. split; [discriminate|]. constructor; [constructor|exact HN].
  - destruct (kind_eqb k K_RBRACE).
    + destruct sc as [|s0 [|s1 sr]]; try discriminate Hc. injection Hc as _ <-. split; [discriminate|]. inversion HN; assumption.
    + injection Hc as _ <-. split; assumption.
Qed.

(* delivery of one item *)
Lemma deliver1_plain : forall (s: pstate) i r t sc', raw P s = i :: r -> cl (scopes P s) i = Some (t, sc') ->
  exists fa, deliver1 P s = Ok (tt, mkPS P r (eof_file P s) (before P s) (after P s ++ [Some t]) (idx P s) sc' fa (ticks P s)).
Proof.
  intros s i r t sc' Hr Hc. unfold deliver1. rewrite Hr. destruct i as [k v p fa|msg p f|]; cbn [cl] in Hc; try discriminate.
  destruct (kind_eqb k K_LBRACE) eqn:E1.
  - injection Hc as <- <-. exists fa. reflexivity.
  - destruct (kind_eqb k K_RBRACE) eqn:E2.
    + destruct (scopes P s) as [|s0 [|s1 sr]]; try discriminate Hc. injection Hc as <- <-. exists fa. reflexivity.
    + injection Hc as <- <-. exists fa. reflexivity.
Qed.

Lemma last_is_none_snoc : forall (l: list (option tok)) t, last_is_none P (l ++ [Some t]) = false.
Proof.
  intros l t. unfold last_is_none. assert (H: last_opt (l ++ [Some t]) = Some (Some t)).
  { induction l as [|x l IH]; [reflexivity|]. cbn [app]. destruct (l ++ [Some t]) eqn:E; [destruct l; discriminate|].
    cbn [last_opt] in *. exact IH. }
  rewrite H. reflexivity.
Qed.

(* fill(1) *)
Lemma fill1_up : forall s t l, Up s (t :: l) ->
  exists s1 r, fill P 1 s = Ok (tt, s1) /\ after P s1 = Some t :: r /\ Up s1 (t :: l) /\ Same s s1.
Proof.
  intros s t l [a [l2 [Ha [Hl HU]]]]. destruct a as [|t0 a].
  - cbn [app] in Hl. subst l2. destruct (UpR_inv _ _ _ _ HU) as [i [r [sc' [Hr [Hc HU']]]]].
    destruct (deliver1_plain s i r t sc' Hr Hc) as [fa Hd].
    eexists. exists []. split; [|split; [|split]].
    + unfold fill. cbn [fill_aux]. unfold bind at 1. unfold get at 1. rewrite Ha. cbn [map length Nat.ltb Nat.leb].
      unfold bind at 1. rewrite Hd. unfold bind at 1. unfold get at 1. cbn [after]. rewrite last_is_none_snoc. reflexivity.
    + cbn [after]. rewrite Ha. reflexivity.
    + exists [t], l. cbn [after scopes raw]. rewrite Ha. split; [reflexivity|split; [reflexivity|exact HU']].
    + split; [reflexivity|split; [reflexivity|split; [reflexivity|split; [intros HN; exact (cl_notd _ _ _ _ Hc HN)|unfold tot; cbn [idx after raw]; rewrite ?Hr, ?Ha, ?app_length, ?map_length; cbn [length map]; lia]]]].
  - cbn [app] in Hl. injection Hl as E Hl. subst t0. exists s, (map Some a). split; [|split; [|split]].
    + unfold fill. cbn [fill_aux]. unfold bind at 1. unfold get at 1. rewrite Ha. reflexivity.
    + rewrite Ha. reflexivity.
    + exists (t :: a), l2. split; [exact Ha|split; [cbn; congruence|exact HU]].
    + apply Same_refl.
Qed.

Lemma peek_up : forall s t l, Up s (t :: l) ->
  exists s1, peek P s = Ok (Some t, s1) /\ Up s1 (t :: l) /\ Same s s1.
Proof.
  intros s t l H. destruct (fill1_up s t l H) as [s1 [r [Hf [Ha [HU HS]]]]]. exists s1. split; [|split; assumption].
  unfold peek, peek_k. unfold bind at 1. rewrite Hf. unfold bind at 1. unfold get at 1. rewrite Ha. reflexivity.
Qed.

Lemma peek_kind_up : forall s t l, Up s (t :: l) ->
  exists s1, peek_kind P s = Ok (Some (tk t), s1) /\ Up s1 (t :: l) /\ Same s s1.
Proof.
  intros s t l H. destruct (peek_up s t l H) as [s1 [Hp [HU HS]]]. exists s1. split; [|split; assumption].
  unfold peek_kind, peek_kind_k. unfold bind at 1. change (peek_k P 1) with (peek P). rewrite Hp. reflexivity.
Qed.

Lemma advance_up : forall s t l, Up s (t :: l) ->
  exists s2, advance P s = Ok (t, s2) /\ Up s2 l /\ Adv t s s2.
Proof.
  intros s t l H. destruct (fill1_up s t l H) as [s1 [r [Hf [Ha [[a [l2 [Ha2 [Hl HU]]]] [HS1 [HS2 [HS3 HS4]]]]]]]].
  eexists. split; [|split].
  - unfold advance, next_tok. unfold bind at 1. unfold bind at 1. rewrite Hf. rewrite Ha. reflexivity.
  - rewrite Ha in Ha2. destruct a as [|t0 a]; [discriminate|]. cbn [map] in Ha2. injection Ha2 as E1 E2.
    cbn [app] in Hl. injection Hl as _ Hl. exists a, l2. cbn [after scopes raw]. split; [exact E2|split; [exact Hl|exact HU]].
  - split; [cbn [before]; congruence|split; [cbn [idx]; congruence|split; [cbn [ticks]; congruence|]]].
    destruct HS4 as [K4 T4]. split; [exact K4|]. rewrite <- T4. unfold tot. cbn [idx after raw]. rewrite Ha. cbn [length]. lia.
Qed.

Lemma accept_hit : forall s t l k, Up s (t :: l) -> kind_eqb (tk t) k = true ->
  exists s2, accept P k s = Ok (Some t, s2) /\ Up s2 l /\ Adv t s s2.
Proof.
  intros s t l k H Hk. destruct (peek_up s t l H) as [s1 [Hp [HU HS]]].
  destruct (advance_up s1 t l HU) as [s2 [Ha [HU2 HA]]]. exists s2. split; [|split; [exact HU2|eapply Same_Adv; eauto]].
  unfold accept. unfold bind at 1. rewrite Hp. rewrite Hk. unfold bind at 1. rewrite Ha. reflexivity.
Qed.

Lemma accept_miss : forall s t l k, Up s (t :: l) -> kind_eqb (tk t) k = false ->
  exists s1, accept P k s = Ok (None, s1) /\ Up s1 (t :: l) /\ Same s s1.
Proof.
  intros s t l k H Hk. destruct (peek_up s t l H) as [s1 [Hp [HU HS]]]. exists s1. split; [|split; assumption].
  unfold accept. unfold bind at 1. rewrite Hp. rewrite Hk. reflexivity.
Qed.

Lemma expect_up : forall s t l k, Up s (t :: l) -> kind_eqb (tk t) k = true ->
  exists s2, expect P k s = Ok (t, s2) /\ Up s2 l /\ Adv t s s2.
Proof.
  intros s t l k H Hk. destruct (advance_up s t l H) as [s2 [Ha [HU HA]]]. exists s2. split; [|split; assumption].
  unfold expect. unfold bind at 1. rewrite Ha. rewrite Hk. reflexivity.
Qed.

(* peek(2) *)
Lemma peek2_up : forall s t1 t2 l, Up s (t1 :: t2 :: l) ->
  exists s1, peek_kind_k P 2 s = Ok (Some (tk t2), s1) /\ Up s1 (t1 :: t2 :: l) /\ Same s s1.
Proof.
  intros s t1 t2 l [a [l2 [Ha [Hl HU]]]].
  assert (Hfill: exists s1 r, fill P 2 s = Ok (tt, s1) /\ after P s1 = Some t1 :: Some t2 :: r /\ Up s1 (t1 :: t2 :: l) /\ Same s s1).
  { destruct a as [|a1 [|a2 a]].
    - cbn [app] in Hl. subst l2. destruct (UpR_inv _ _ _ _ HU) as [i [r [sc' [Hr [Hc HU']]]]].
      destruct (deliver1_plain s i r t1 sc' Hr Hc) as [fa Hd].
      destruct (UpR_inv _ _ _ _ HU') as [i2 [r2 [sc2 [Hr2 [Hc2 HU2]]]]]. subst r.
      set (sA := mkPS P (i2 :: r2) (eof_file P s) (before P s) (after P s ++ [Some t1]) (idx P s) sc' fa (ticks P s)) in *.
      destruct (deliver1_plain sA i2 r2 t2 sc2 eq_refl Hc2) as [fb Hd2].
      eexists. exists []. split; [|split; [|split]].
      + unfold fill. cbn [fill_aux]. unfold bind at 1. unfold get at 1. rewrite Ha. cbn [map length Nat.ltb Nat.leb].
        unfold bind at 1. rewrite Hd. fold sA. unfold bind at 1. unfold get at 1. unfold sA at 1. cbn [after]. rewrite last_is_none_snoc.
        unfold bind at 1. unfold get at 1. unfold sA at 1. cbn [after]. rewrite Ha. cbn [map app length Nat.ltb Nat.leb].
        unfold bind at 1. rewrite Hd2. unfold bind at 1. unfold get at 1. cbn [after]. rewrite last_is_none_snoc. reflexivity.
      + unfold sA. cbn [after]. rewrite Ha. reflexivity.
      + exists [t1; t2], l. unfold sA. cbn [after scopes raw]. rewrite Ha. split; [reflexivity|split; [reflexivity|exact HU2]].
      + split; [reflexivity|split; [reflexivity|split; [reflexivity|split; [intros HN; exact (cl_notd _ _ _ _ Hc2 (cl_notd _ _ _ _ Hc HN))|unfold tot; unfold sA; cbn [idx after raw]; rewrite ?Hr, ?Ha, ?app_length, ?map_length; cbn [length map]; lia]]]].
    - cbn [app] in Hl. injection Hl as E Hl. subst a1. subst l2. destruct (UpR_inv _ _ _ _ HU) as [i [r [sc' [Hr [Hc HU']]]]].
      destruct (deliver1_plain s i r t2 sc' Hr Hc) as [fa Hd].
      eexists. exists []. split; [|split; [|split]].
      + unfold fill. cbn [fill_aux]. unfold bind at 1. unfold get at 1. rewrite Ha. cbn [map length Nat.ltb Nat.leb].
        unfold bind at 1. rewrite Hd. unfold bind at 1. unfold get at 1. cbn [after]. rewrite last_is_none_snoc.
        unfold bind at 1. unfold get at 1. cbn [after]. rewrite Ha. cbn [map app length Nat.ltb Nat.leb]. reflexivity.
      + cbn [after]. rewrite ?Ha. reflexivity.
      + exists [t1; t2], l. cbn [after scopes raw]. rewrite ?Ha. split; [reflexivity|split; [reflexivity|exact HU']].
      + split; [reflexivity|split; [reflexivity|split; [reflexivity|split; [intros HN; exact (cl_notd _ _ _ _ Hc HN)|unfold tot; cbn [idx after raw]; rewrite ?Hr, ?Ha, ?app_length, ?map_length; cbn [length map]; lia]]]].
    - cbn [app] in Hl. injection Hl as E1 E2 Hl. subst a1 a2. exists s, (map Some a). split; [|split; [|split]].
      + unfold fill. cbn [fill_aux]. unfold bind at 1. unfold get at 1. rewrite Ha. reflexivity.
      + rewrite Ha. reflexivity.
      + exists (t1 :: t2 :: a), l2. split; [exact Ha|split; [cbn; congruence|exact HU]].
      + apply Same_refl. }
  destruct Hfill as [s1 [r [Hf [Ha1 [HU1 HS]]]]]. exists s1. split; [|split; assumption].
  unfold peek_kind_k, peek_k. unfold bind at 1. unfold bind at 1. rewrite Hf. unfold bind at 1. unfold get at 1. rewrite Ha1. reflexivity.
Qed.

(* reset to a mark taken one token ago *)
Lemma reset_one : forall s t b mk l, before P s = Some t :: b -> idx P s = S mk -> Up s l ->
  exists s', reset P mk s = Ok (tt, s') /\ Up s' (t :: l) /\ before P s' = b /\ idx P s' = mk /\ ticks P s' = ticks P s /\ SC s s'.
Proof.
  intros s t b mk l Hb Hi [a [l2 [Ha [Hl HU]]]]. eexists. split; [|split; [|split; [|split; [|split]]]].
  - unfold reset. rewrite Hi, Hb. assert (E: nsub (S mk) mk = 1). { clear. induction mk; [reflexivity|exact IHmk]. }
    rewrite E. cbn [unwind]. reflexivity.
  - exists (t :: a), l2. cbn [after scopes raw map]. rewrite Ha. split; [reflexivity|split; [cbn; congruence|exact HU]].
  - reflexivity.
  - reflexivity.
  - reflexivity.
  - split; [exact (fun H => H)|]. unfold tot. cbn [idx after raw]. rewrite Hi. cbn [length]. lia.
Qed.

Lemma mark_eq : forall s, mark P s = Ok (idx P s, s).
Proof. reflexivity. Qed.

Lemma bind_ok : forall A B (m: M P A) (f: A -> M P B) s a s1, m s = Ok (a, s1) -> bind P m f s = f a s1.
Proof. intros A B m f s a s1 H. unfold bind. rewrite H. reflexivity. Qed.

(* an initial state sees its items as they are *)
Lemma Up_initial : forall (s: pstate) l, after P s = [] -> UpR (scopes P s) (raw P s) l -> Up s l.
Proof. intros s l Ha HU. exists [], l. rewrite Ha. split; [reflexivity|split; [reflexivity|exact HU]]. Qed.
(* ---- the end of the input ---- *)
(* [UpEnd s l]: the parser will see exactly l and then the end of the input *)
Definition UpEnd (s: pstate) (l: list tok) : Prop := Up s l /\ tot s = idx P s + length l.
Definition AtEOF (s: pstate) : Prop := exists r, after P s = None :: r.

Lemma UpEnd_Up : forall s l, UpEnd s l -> Up s l.
Proof. intros s l [H _]. exact H. Qed.

(* after a run that consumed n tokens without reaching the end, what is left is left *)
Lemma UpEnd_ran : forall s s' le rest, UpEnd s (le ++ rest) -> Up s' rest -> idx P s' = idx P s + length le -> tot s' = tot s -> UpEnd s' rest.
Proof. intros s s' le rest [_ Ht] HU Hi Htt. split; [exact HU|]. rewrite Htt, Ht, Hi, app_length. lia. Qed.

Lemma peek_end : forall s, UpEnd s [] -> exists s1, peek P s = Ok (None, s1) /\ AtEOF s1 /\ scopes P s1 = scopes P s.
Proof.
  intros s [[a [l2 [Ha [Hl HU]]]] Ht]. destruct a as [|? ?]; [|discriminate]. destruct l2 as [|? ?]; [|discriminate].
  cbn [map] in Ha. unfold tot in Ht. rewrite Ha in Ht. cbn [length] in Ht. destruct (raw P s) as [|i r] eqn:Er; [|cbn [length] in Ht; lia].
  eexists. split; [|split].
  - unfold peek, peek_k. unfold bind at 1. unfold fill. cbn [fill_aux]. unfold bind at 1. unfold get at 1. rewrite Ha. cbn [length Nat.ltb Nat.leb].
    unfold bind at 1. unfold deliver1. rewrite Er. unfold bind at 1. unfold get at 1. cbn [after]. rewrite Ha. cbn [app]. unfold last_is_none. cbn [last_opt].
    unfold ret at 1. unfold bind at 1. unfold get at 1. cbn [after nth_error Nat.pred]. reflexivity.
  - exists []. reflexivity.
  - reflexivity.
Qed.

Lemma peek_eof : forall s, AtEOF s -> peek P s = Ok (None, s).
Proof.
  intros s [r Ha]. unfold peek, peek_k. unfold bind at 1. unfold fill. cbn [fill_aux]. unfold bind at 1. unfold get at 1. rewrite Ha. cbn [length Nat.ltb Nat.leb].
  unfold ret at 1. unfold bind at 1. unfold get at 1. rewrite Ha. reflexivity.
Qed.
End SL.

(* collect the cost facts in the context and finish by arithmetic *)
Ltac sc_tac :=
  repeat match goal with H: _ /\ _ |- _ => destruct H end;
  first [ lia
        | (split; [intros; repeat match goal with H: ?A -> _, H2: ?A |- _ => specialize (H H2) end; try assumption; tauto | lia])
        | (intros; repeat match goal with H: ?A -> _, H2: ?A |- _ => specialize (H H2) end; try assumption; tauto) ].
Ltac cost_tac :=
  unfold Ran, RanR, Same, Adv, SC in *;
  repeat match goal with H: _ /\ _ |- _ => destruct H end;
  do 4 (simpl length in *; rewrite ?app_length in * );
  first [lia | (split; [lia|split; [lia|sc_tac]]) | (split; [lia|sc_tac]) | sc_tac].

