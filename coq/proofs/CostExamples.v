From Coq Require Import List NArith Bool Arith.
Import ListNotations.
From PV Require Import Regex Base LexTables NodeModel ParserBase ParserDecl ParserMain Api.

(* witness of exponential growth: nesting depth 1 *)
Example ex_C16_complit_1 :
  ticks_of (s2l "int x = (int[1]){0};") = 20%N.
Proof. vm_compute. reflexivity. Qed.
(* witness of exponential growth: nesting depth 2 *)
Example ex_C16_complit_2 :
  ticks_of (s2l "int x = (int[(int[1]){0}]){0};") = 48%N.
Proof. vm_compute. reflexivity. Qed.
(* witness of exponential growth: nesting depth 3 *)
Example ex_C16_complit_3 :
  ticks_of (s2l "int x = (int[(int[(int[1]){0}]){0}]){0};") = 104%N.
Proof. vm_compute. reflexivity. Qed.
(* witness of exponential growth: nesting depth 4 *)
Example ex_C16_complit_4 :
  ticks_of (s2l "int x = (int[(int[(int[(int[1]){0}]){0}]){0}]){0};") = 216%N.
Proof. vm_compute. reflexivity. Qed.
(* witness of exponential growth: nesting depth 5 *)
Example ex_C16_complit_5 :
  ticks_of (s2l "int x = (int[(int[(int[(int[(int[1]){0}]){0}]){0}]){0}]){0};") = 440%N.
Proof. vm_compute. reflexivity. Qed.
(* witness of exponential growth: nesting depth 6 *)
Example ex_C16_complit_6 :
  ticks_of (s2l "int x = (int[(int[(int[(int[(int[(int[1]){0}]){0}]){0}]){0}]){0}]){0};") = 888%N.
Proof. vm_compute. reflexivity. Qed.
(* a linear family at k=8 *)
Example ex_C16_linear_8 :
  ticks_of (s2l "int v0 = 0; int v1 = 1; int v2 = 2; int v3 = 3; int v4 = 4; int v5 = 5; int v6 = 6; int v7 = 7;") = 48%N.
Proof. vm_compute. reflexivity. Qed.
(* ... and at k=16: exactly twice the token reads *)
Example ex_C16_linear_16 :
  ticks_of (s2l "int v0 = 0; int v1 = 1; int v2 = 2; int v3 = 3; int v4 = 4; int v5 = 5; int v6 = 6; int v7 = 7; int v8 = 8; int v9 = 9; int v10 = 10; int v11 = 11; int v12 = 12; int v13 = 13; int v14 = 14; int v15 = 15;") = 96%N.
Proof. vm_compute. reflexivity. Qed.
