From Coq Require Import List NArith Bool Arith.
Import ListNotations.
From PV Require Import Regex Base LexTables NodeModel ParserBase ParserDecl ParserMain Api.

(* the else belongs to the nearest unmatched if (C99 6.8.4.1p3) *)
Example ex_C05_dangling_else :
  outcome_str (s2l "void f(){ if (a) if (b) x; else y; }") = s2l "OK|(FileAST [(FuncDef (Decl 'f' [] [] [] [] (FuncDecl None (TypeDecl 'f' [] None (IdentifierType ['void']))) None None) None (Compound [(If (ID 'a') (If (ID 'b') (ID 'x') (ID 'y')) None)]))])".
Proof. vm_compute. reflexivity. Qed.
(* statements go under the nearest preceding label; consecutive labels stay siblings *)
Example ex_C05_switch_regroup :
  outcome_str (s2l "void f(){ switch(x){ case 1: a; b; case 2: case 3: c; default: d; } }") = s2l "OK|(FileAST [(FuncDef (Decl 'f' [] [] [] [] (FuncDecl None (TypeDecl 'f' [] None (IdentifierType ['void']))) None None) None (Compound [(Switch (ID 'x') (Compound [(Case (Constant 'int' '1') [(ID 'a'),(ID 'b')]),(Case (Constant 'int' '2') []),(Case (Constant 'int' '3') [(ID 'c')]),(Default [(ID 'd')])]))]))])".
Proof. vm_compute. reflexivity. Qed.
(* a declaration init lands in a DeclList *)
Example ex_C05_for_decl :
  outcome_str (s2l "void f(){ for(int i=0;i<3;i++) x; }") = s2l "OK|(FileAST [(FuncDef (Decl 'f' [] [] [] [] (FuncDecl None (TypeDecl 'f' [] None (IdentifierType ['void']))) None None) None (Compound [(For (DeclList [(Decl 'i' [] [] [] [] (TypeDecl 'i' [] None (IdentifierType ['int'])) (Constant 'int' '0') None)]) (BinaryOp '<' (ID 'i') (Constant 'int' '3')) (UnaryOp 'p++' (ID 'i')) (ID 'x'))]))])".
Proof. vm_compute. reflexivity. Qed.
(* each pragma once, verbatim, in place; a pragma-prefixed sub-statement is wrapped in a Compound *)
Example ex_C05_pragma_once :
  outcome_str (s2l "void f(){
#pragma p1
 x;
 if (a)
#pragma p2
 y;
}") = s2l "OK|(FileAST [(FuncDef (Decl 'f' [] [] [] [] (FuncDecl None (TypeDecl 'f' [] None (IdentifierType ['void']))) None None) None (Compound [(Pragma 'p1'),(ID 'x'),(If (ID 'a') (Compound [(Pragma 'p2'),(ID 'y')]) None)]))])".
Proof. vm_compute. reflexivity. Qed.
(* a static assertion as a sub-statement is one node, like any statement (was a Python list before the fix: commit) *)
Example ex_C05_static_assert_stmt :
  outcome_str (s2l "void f(){ if (x) _Static_assert(1,""a""); }") = s2l "OK|(FileAST [(FuncDef (Decl 'f' [] [] [] [] (FuncDecl None (TypeDecl 'f' [] None (IdentifierType ['void']))) None None) None (Compound [(If (ID 'x') (StaticAssert (Constant 'int' '1') (Constant 'string' '""a""')) None),(EmptyStatement)]))])".
Proof. vm_compute. reflexivity. Qed.
