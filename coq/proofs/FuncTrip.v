(* C01 / C07 / C16, token level, WHOLE TRANSLATION UNITS: a sequence of function definitions `T f ( ) { block items }` - T a non-empty run of
   simple type-specifier keywords, the body a block of the statement language of StmtTrip (declarations of objects included) - followed by
   the end of the input is parsed by [parse_tokens] (CParser.parse after its three resets) to exactly the FileAST of these definitions:
   forward reasoning through p_translation_unit, p_external_declaration (declaration specifiers, the speculative declarator scan,
   p_declarator_kind / p_direct_declarator / p_decl_suffixes / p_function_decl, _type_modify_decl), the body (p_compound_statement),
   _build_function_definition (_build_declarations, _fix_decl_name_type along the FuncDecl -> TypeDecl chain, the function's name entering
   the file scope), and the end of the input (peek at EOF, twice). *)
From Coq Require Import String.
From Coq Require Import List NArith Bool Arith Lia.
Import ListNotations.
From PV Require Import Regex Base AstDefs AstSpec AstImpl GenTables NodeModel Generator ClimbProofs ClimbComplete GenParen GenBinop.
From PV Require Import LexTables ParserTables PyRepr ParserBase ParserDecl ParserMain LexerProofs TableProofs.
From PV Require Import BinaryRefine ExprShape UnaryShape CoordProofs ElseProofs StmtShape StreamLib RoundTrip RoundTripGen RoundTripX TypeName DeclTrip StmtTrip.
Open Scope nat_scope.

Lemma simple_kind_facts_x : forall k, kind_in k tbl_TYPE_SPEC_SIMPLE = true ->
  kind_eqb k K_PPHASH = false /\ (kind_eqb k K_PPPRAGMA || kind_eqb k K_uPRAGMA) = false /\ kind_eqb k K_SEMI = false /\
  kind_eqb k K_uSTATIC_ASSERT = false /\ kind_in k tbl_DECL_START = true.
Proof. intros k H. destruct k; vm_compute in H; try discriminate H; vm_compute; repeat split. Qed.

Ltac ev_step := unfold bind at 1; match goal with |- match ?X with Ok _ => _ | Err _ _ => _ | Crash _ => _ | OutOfFuel => _ end = _ => let v := eval cbv in X in change X with v; cbv iota beta end.

Section FT.
Variable P : Type.
Notation pstate := (ParserBase.pstate P).
Notation tok := (ParserBase.tok P).
Notation node := (ParserBase.node P).
Notation Up := (StreamLib.Up P).
Notation Spell := (RoundTrip.Spell P).
Notation NoTD := (StreamLib.NoTD).

(* ---- the function declarator `f ( )` in front of a body ---- *)
Definition fdecl_of (x: str) (c: coord P) : node :=
  VNode C_FuncDecl [VNone; mkTypeDecl P (VStr x) VNone VNone VNone (Some c)] (Some c).

Lemma function_decl_eq : forall f base, p_function_decl P (S f) base =
  bind P (expect P K_LPAREN) (fun _ =>
  bind P (accept P K_RPAREN) (fun rp =>
  bind P (match rp with
          | Some _ => ret P VNone
          | None =>
            bind P (starts_declaration P) (fun sd =>
            bind P (if sd then p_parameter_type_list P f
                    else bind P (peek_kind P) (fun k => if okind_is k K_RPAREN then ret P VNone else p_identifier_list P f)) (fun a =>
            bind P (expect P K_RPAREN) (fun _ => ret P a)))
          end) (fun args =>
  bind P (coordA P base) (fun bc =>
  let func := mkN P C_FuncDecl [args; VNone] bc in
  bind P (peek_kind P) (fun k =>
  bind P (if okind_is k K_LBRACE then
            match args with
            | VNone => ret P tt
            | _ => bind P (getA P a_params args) (fun ps => match ps with VList l => register_params P l | _ => crash P CK_Type end)
            end
          else ret P tt) (fun _ => ret P func)))))).
Proof. reflexivity. Qed.

Lemma fn_declarator : forall (s: pstate) x lp rp lb l, Up s (x :: lp :: rp :: lb :: l) -> tk x = K_ID -> tk lp = K_LPAREN -> tk rp = K_RPAREN -> tk lb = K_LBRACE ->
  exists c s', (forall f, 6 <= f -> p_declarator_kind P f true true s = Ok (fdecl_of (tv x) c, s')) /\ Up s' (lb :: l) /\
    idx P s' = idx P s + 3 /\ N.to_nat (ticks P s') <= N.to_nat (ticks P s) + 3 /\ SC P s s'.
Proof.
  intros s x lp rp lb l HU Hk Hlp Hrp Hlb.
  destruct (peek_kind_up P s x _ HU) as [s1 [H1 [HU1 HS1]]].
  assert (Hnl: kind_eqb (tk x) K_LPAREN = false) by (rewrite Hk; reflexivity).
  destruct (accept_miss P s1 x _ K_LPAREN HU1 Hnl) as [s2 [H2 [HU2 HS2]]].
  assert (Hid: kind_eqb (tk x) K_ID = true) by (rewrite Hk; reflexivity).
  destruct (expect_up P s2 x _ K_ID HU2 Hid) as [s3 [H3 [HU3 HA3]]].
  destruct (peek_kind_up P s3 lp _ HU3) as [s4 [H4 [HU4 HS4]]].
  assert (Hlpk: kind_eqb (tk lp) K_LPAREN = true) by (rewrite Hlp; reflexivity).
  destruct (expect_up P s4 lp _ K_LPAREN HU4 Hlpk) as [s5 [H5 [HU5 HA5]]].
  assert (Hrpk: kind_eqb (tk rp) K_RPAREN = true) by (rewrite Hrp; reflexivity).
  destruct (accept_hit P s5 rp _ K_RPAREN HU5 Hrpk) as [s6 [H6 [HU6 HA6]]].
  destruct (peek_kind_up P s6 lb _ HU6) as [s7 [H7 [HU7 HS7]]].
  destruct (peek_kind_up P s7 lb _ HU7) as [s8 [H8 [HU8 HS8]]].
  set (c := mkCoord P (curfile P s3) (tp x)).
  exists c, s8. split; [|split; [exact HU8|cost_tac]].
  intros f Hf. do 6 (destruct f as [|f]; [lia|]).
  rewrite (declarator_kind_eq P). unfold bind at 1. rewrite H1. rewrite Hk. change (okind_is (Some K_ID) K_TIMES) with false. cbv iota.
  unfold bind at 1. unfold ret at 1. unfold bind at 1. rewrite (direct_declarator_eq P). unfold bind at 1. rewrite H2.
  unfold bind at 1. unfold bind at 1. rewrite H3. unfold bind at 1. rewrite (TypeName.tcoord_eq P). unfold ret at 1. fold c.
  rewrite (decl_suffixes_eq P). unfold bind at 1. rewrite H4. cbn [okind_is]. rewrite Hlp.
  change (kind_eqb K_LPAREN K_LBRACKET) with false. change (kind_eqb K_LPAREN K_LPAREN) with true. cbv iota.
  unfold bind at 1. rewrite function_decl_eq. unfold bind at 1. rewrite H5. unfold bind at 1. rewrite H6. unfold bind at 1. unfold ret at 1.
  unfold bind at 1. change (coordA P (mkTypeDecl P (VStr (tv x)) VNone VNone VNone (Some c)) s6) with (@Ok P (option (coord P) * pstate) (Some c, s6)).
  cbv zeta. unfold bind at 1. rewrite H7. cbn [okind_is]. rewrite Hlb. change (kind_eqb K_LBRACE K_LBRACE) with true. cbv iota.
  unfold bind at 1. unfold ret at 1. unfold ret at 1.
  destruct WF_S6 as [nw Ew]. rewrite Ew. unfold bind at 1.
  match goal with |- context [type_modify_decl P ?F ?A ?B s7] => let v := eval cbv in (type_modify_decl P F A B s7) in change (type_modify_decl P F A B s7) with v end.
  cbv iota beta. rewrite (decl_suffixes_eq P). unfold bind at 1. rewrite H8. cbn [okind_is]. rewrite Hlb.
  change (kind_eqb K_LBRACE K_LBRACKET) with false. change (kind_eqb K_LBRACE K_LPAREN) with false. cbv iota. reflexivity.
Qed.

(* ---- _build_function_definition ---- *)
Lemma WF_S9 : exists n, WF = S (S (S (S (S (S (S (S (S n)))))))).
Proof. eexists. reflexivity. Qed.

Definition fdecl0 (x: str) (c: coord P) : node :=
  mkN P C_Decl [VNone; VList []; VList []; VList []; VList []; fdecl_of x c; VNone; VNone] (Some c).
Definition fdecl1 (x: str) (c: coord P) (names: list node) (c0: coord P) : node :=
  VNode C_Decl [VStr x; VList []; VList []; VList []; VList [];
                VNode C_FuncDecl [VNone; VNode C_TypeDecl [VStr x; VList []; VNone; VNode C_IdentifierType [VList names] (Some c0)] (Some c)] (Some c);
                VNone; VNone] (Some c).

Lemma adjust_first_fn : forall ns x c (s: pstate),
  adjust_first P (spec_of P ns) [mkDI P (Some (fdecl_of x c)) VNone VNone] s = Ok ((spec_of P ns, [mkDI P (Some (fdecl_of x c)) VNone VNone]), s).
Proof.
  intros ns x c s. destruct WF_S9 as [n E]. unfold adjust_first. cbn [d_bitsize d_decl].
  change (is_suE_or_idtype P (fdecl_of x c)) with false. cbv iota. rewrite E.
  unfold bind at 1. change (find_typedecl P (S (S (S (S (S (S (S (S (S n))))))))) (fdecl_of x c) s) with (@Ok P (node * pstate) (td_of P x c, s)).
  unfold bind at 1. change (getA P a_declname (td_of P x c) s) with (@Ok P (node * pstate) (VStr x, s)).
  reflexivity.
Qed.

Lemma fix_fdecl0 : forall x c n0 ns v0 vs c0 (s: pstate), n0 = mkIdType P [v0] (Some c0) -> IdNodes P ns vs ->
  fix_decl_name_type P WF (fdecl0 x c) (n0 :: ns) s = Ok (fdecl1 x c (map (fun v => VStr v) (v0 :: vs)) c0, s).
Proof.
  intros x c n0 ns v0 vs c0 s -> Hns. destruct WF_S9 as [n E]. rewrite E.
  unfold fix_decl_name_type.
  unfold bind at 1. change (find_typedecl P (S (S (S (S (S (S (S (S (S n))))))))) (fdecl0 x c) s) with (@Ok P (node * pstate) (td_of P x c, s)).
  unfold bind at 1. change (getA P a_declname (td_of P x c) s) with (@Ok P (node * pstate) (VStr x, s)).
  ev_step. ev_step. unfold bind at 1. unfold ret at 1.
  assert (Hf: find (fun tn => negb (is_cls P C_IdentifierType tn)) (mkIdType P [v0] (Some c0) :: ns) = None).
  { apply (find_ids P _ (v0 :: vs)). constructor; [exists c0; reflexivity|exact Hns]. }
  rewrite Hf.
  unfold bind at 1. rewrite (all_names_ids P (mkIdType P [v0] (Some c0) :: ns) (v0 :: vs)) by (constructor; [exists c0; reflexivity|exact Hns]).
  unfold bind at 1. change (coordA P (mkIdType P [v0] (Some c0)) s) with (@Ok P (option (coord P) * pstate) (Some c0, s)).
  reflexivity.
Qed.

Lemma fix_atomic_fdecl1 : forall x c names c0 (s: pstate),
  fix_atomic_specifiers P WF (fdecl1 x c names c0) s = Ok (fdecl1 x c names c0, s).
Proof. intros x c names c0 s. destruct WF_S9 as [n E]. rewrite E. reflexivity. Qed.

Lemma build_fn : forall x c n0 ns v0 vs c0 body (s: pstate) l, n0 = mkIdType P [v0] (Some c0) -> IdNodes P ns vs ->
  NoTD (scopes P s) -> Up s l ->
  exists s', build_function_definition P (spec_of P (n0 :: ns)) (fdecl_of x c) VNone body s =
               Ok (mkN P C_FuncDef [fdecl1 x c (map (fun v => VStr v) (v0 :: vs)) c0; VNone; body] (Some c), s') /\
             Up s' l /\ Same P s s' /\ NoTD (scopes P s').
Proof.
  intros x c n0 ns v0 vs c0 body s l En0 Hns HN HU.
  destruct (add_identifier_notd P s (Some x) (Some c) l HN HU) as [s' [Hadd [HU' [HS' HN']]]].
  exists s'. split; [|split; [exact HU'|split; [exact HS'|exact HN']]].
  unfold build_function_definition.
  unfold bind at 1. change (coordA P (fdecl_of x c) s) with (@Ok P (option (coord P) * pstate) (Some c, s)).
  change (mem_str (s2l "typedef") (s_storage P (spec_of P (n0 :: ns)))) with false. cbv iota.
  unfold bind at 1.
  unfold build_declarations. change (mem_str (s2l "typedef") (s_storage P (spec_of P (n0 :: ns)))) with false.
  unfold bind at 1. rewrite adjust_first_fn. cbn [fst snd].
  unfold bind at 1. unfold build_loop. unfold bind at 1. unfold build_one. cbn [d_decl d_init d_bitsize].
  unfold bind at 1. change (coordA P (fdecl_of x c) s) with (@Ok P (option (coord P) * pstate) (Some c, s)).
  change (is_suE_or_idtype P (fdecl_of x c)) with false. cbv iota.
  unfold bind at 1.
  change (mkN P C_Decl [VNone; quals_value P (spec_of P (n0 :: ns)); VList (s_alignment P (spec_of P (n0 :: ns))); vstrs P (s_storage P (spec_of P (n0 :: ns)));
                        vstrs P (s_function P (spec_of P (n0 :: ns))); fdecl_of x c; VNone; VNone] (Some c)) with (fdecl0 x c).
  cbn [s_type spec_of].
  rewrite (fix_fdecl0 x c n0 ns v0 vs c0 s En0 Hns).
  set (D := fdecl1 x c (map (fun v : str => VStr v) (v0 :: vs)) c0).
  unfold bind at 1. unfold bind at 1. change (getA P a_name D s) with (@Ok P (node * pstate) (VStr x, s)).
  unfold bind at 1. unfold name_of_value at 1. unfold ret at 1.
  unfold bind at 1. change (coordA P D s) with (@Ok P (option (coord P) * pstate) (Some c, s)).
  cbv iota beta. rewrite Hadd.
  unfold bind at 1. unfold D. rewrite fix_atomic_fdecl1. fold D.
  unfold bind at 1. change (getA P a_quals D s') with (@Ok P (node * pstate) (VList [], s')).
  unfold bind at 1. unfold ret at 1. cbn [flat_map]. unfold ret at 1.
  subst n0. destruct ns as [|n1 ns']; reflexivity.
Qed.

(* ---- one function definition as an external declaration ---- *)
Lemma extdecl_eq : forall f, p_external_declaration P (S f) =
  bind P (peek P) (fun t =>
    match t with
    | None => ret P []
    | Some t' =>
      let k := tk t' in
      if kind_eqb k K_PPHASH then
        bind P (expect P K_PPHASH) (fun ht => bind P (tok_coord P ht) (fun c => fail P (L_coord P c) (s2l "Directives not supported yet")))
      else if kind_eqb k K_PPPRAGMA || kind_eqb k K_uPRAGMA then bind P (p_pppragma_directive P f) (fun p => ret P [p])
      else
      bind P (accept P K_SEMI) (fun sm =>
      match sm with
      | Some _ => ret P []
      | None =>
        if kind_eqb k K_uSTATIC_ASSERT then p_static_assert P f
        else if negb (kind_in k tbl_DECL_START) then
          bind P (p_declarator_kind P f true true) (fun decl =>
          bind P (peek_kind P) (fun k2 =>
          bind P (coordA P decl) (fun dc =>
          if negb (okind_is k2 K_LBRACE) then fail P (loc_of P dc) (s2l "Invalid function definition")
          else
            let spec := mkSpec P [] [] [mkIdType P [s_int] dc] [] [] in
            bind P (p_compound_statement P f) (fun body =>
            bind P (build_function_definition P spec decl VNone body) (fun fd =>
            ret P [fd])))))
        else
          bind P (p_declaration_specifiers P f true) (fun r =>
          let '(spec, saw_type, spec_coord) := r in
          bind P (peek_declarator_name_info P f) (fun info =>
          if negb (okind_is (fst info) K_ID) then
            bind P (p_decl_body_with_spec P f spec saw_type) (fun ds =>
            bind P (expect P K_SEMI) (fun _ => ret P ds))
          else
            bind P (p_declarator_kind P f true true) (fun decl =>
            bind P (peek_kind P) (fun k2 =>
            bind P (starts_declaration P) (fun sd =>
            if okind_is k2 K_LBRACE || sd then
              bind P (if sd then bind P (p_declaration_list P f) (fun l => ret P (VList l)) else ret P VNone) (fun pds =>
              bind P (peek_kind P) (fun k3 =>
              bind P (coordA P decl) (fun dc =>
              if negb (okind_is k3 K_LBRACE) then fail P (loc_of P dc) (s2l "Invalid function definition")
              else
                let spec' := match s_type P spec with
                             | [] => with_type P spec [mkIdType P [s_int] spec_coord]
                             | _ => spec end in
                bind P (p_compound_statement P f) (fun body =>
                bind P (build_function_definition P spec' decl pds body) (fun fd =>
                ret P [fd])))))
            else
              bind P (accept P K_EQUALS) (fun eq =>
              bind P (match eq with Some _ => p_initializer P f | None => ret P VNone end) (fun init =>
              bind P (p_init_declarator_list P f (Some (mkDI P (Some decl) init VNone)) false) (fun infos =>
              bind P (build_declarations P spec infos true) (fun ds =>
              bind P (expect P K_SEMI) (fun _ => ret P ds))))))))))
      end)
    end).
Proof. reflexivity. Qed.

Definition ftoks (ty: list (kind * str)) (f: str) (body: list (kind * str)) : list (kind * str) :=
  ty ++ (K_ID, f) :: (K_LPAREN, s2l "(") :: (K_RPAREN, s2l ")") :: (K_LBRACE, s2l "{") :: body ++ [(K_RBRACE, s2l "}")].
Definition fembed (ty: list (kind * str)) (f: str) (Xb: value unit) : value unit :=
  VNode C_FuncDef [VNode C_Decl [VStr f; VList []; VList []; VList []; VList [];
                                 VNode C_FuncDecl [VNone; VNode C_TypeDecl [VStr f; VList []; VNone; VNode C_IdentifierType [VList (map (fun v => VStr v) (map snd ty))] None] None] None;
                                 VNone; VNone] None; VNone; Xb] None.

Notation item_okD := (item_ok P (fun s => NoTD (scopes P s)) true).

Lemma extdecl_fn : forall ty f items, ty <> [] -> Forall (fun kv => kind_in (fst kv) tbl_TYPE_SPEC_SIMPLE = true) ty -> Forall item_okD items ->
  forall (s: pstate) le rest, Spell le (ftoks ty f (concat (map (fun it => fst (fst it)) items))) -> Up s (le ++ rest) -> NoTD (scopes P s) ->
  exists f0 Ns s', (forall fu, f0 <= fu -> p_external_declaration P fu s = Ok (Ns, s')) /\ Up s' rest /\
    map (@strip (coord P)) Ns = [fembed ty f (VNode C_Compound [match items with [] => VNone | _ => VList (map (fun it => snd (fst it)) items) end] None)] /\
    Ran P s s' (length le).
Proof.
  intros ty f items Hne HF HI s le rest HS HU HN. unfold ftoks in HS.
  destruct (RoundTrip.Spell_app_inv P _ _ _ HS) as [lty [l1 [-> [HSty HS1]]]].
  destruct (RoundTrip.Spell_cons_inv P _ _ _ _ HS1) as [xt [l2 [-> [Hkx [Hvx HS2]]]]].
  destruct (RoundTrip.Spell_cons_inv P _ _ _ _ HS2) as [lp [l3 [-> [Hklp [_ HS3]]]]].
  destruct (RoundTrip.Spell_cons_inv P _ _ _ _ HS3) as [rp [l4 [-> [Hkrp [_ HS4]]]]].
  destruct (RoundTrip.Spell_cons_inv P _ _ _ _ HS4) as [lb [l5 [-> [Hklb [_ HS5]]]]].
  destruct (RoundTrip.Spell_app_inv P _ _ _ HS5) as [li [l6 [-> [HSi HS6]]]].
  destruct (RoundTrip.Spell_cons_inv P _ _ _ _ HS6) as [rb [l7 [-> [Hkrb [_ HS7]]]]]. apply (RoundTrip.Spell_nil_inv P) in HS7. subst l7.
  rewrite <- app_assoc in HU. cbn [app] in HU. rewrite <- app_assoc in HU. cbn [app] in HU.
  (* the first token is a simple type specifier *)
  destruct ty as [|[k0 v0] ty']; [congruence|].
  pose proof HSty as HSty0. destruct (RoundTrip.Spell_cons_inv P _ _ _ _ HSty) as [t0 [lty' [El [Hk0 [_ _]]]]].
  pose proof (Forall_inv HF) as Hk0s. cbn [fst] in Hk0s. destruct (simple_kind_facts_x k0 Hk0s) as (E1 & E2 & E3 & E4 & E5).
  rewrite El in HU. cbn [app] in HU.
  destruct (peek_up P s t0 _ HU) as [sa [Ha [HUa HSa]]].
  assert (Hns: kind_eqb (tk t0) K_SEMI = false) by (rewrite Hk0; exact E3).
  destruct (accept_miss P sa t0 _ K_SEMI HUa Hns) as [sb [Hb [HUb HSb]]].
  change (t0 :: lty' ++ xt :: lp :: rp :: lb :: li ++ rb :: rest) with ((t0 :: lty') ++ xt :: lp :: rp :: lb :: li ++ rb :: rest) in HUb. rewrite <- El in HUb.
  (* specifiers *)
  destruct (spec_loop_run_d P _ HF (mkSS P None false false None) sb lty xt _ HSty0 HUb Hkx) as [f1 [ns [st' [s1 [H1 [HU1 [HR1 [Hns' [Hsp Hsaw]]]]]]]]].
  cbn [map snd] in Hns'. inversion Hns' as [|n0 v0' ns' vs' [c0 En0] Hns'' E1']. subst.
  cbn [ss_spec fold_left] in Hsp. unfold add_type at 2 in Hsp. cbn [spec_or_new] in Hsp. rewrite (fold_types P) in Hsp. cbn in Hsp.
  cbn [ss_saw_type orb negb] in Hsaw.
  (* the scan and the declarator *)
  destruct (scan_id P s1 xt _ HU1 Hkx) as [s2 [H2 [HU2 [Hi2 [Ht2 Hsc2]]]]].
  destruct (fn_declarator s2 xt lp rp lb _ HU2 Hkx Hklp Hkrp Hklb) as [c [s3 [H3 [HU3 [Hi3 [Ht3 Hsc3]]]]]].
  destruct (peek_kind_up P s3 lb _ HU3) as [s4 [H4 [HU4 HS4']]].
  destruct (peek_kind_up P s4 lb _ HU4) as [s5 [H5 [HU5 HS5']]].
  destruct (peek_kind_up P s5 lb _ HU5) as [s6 [H6 [HU6 HS6']]].
  (* the body *)
  assert (HN6: NoTD (scopes P s6)). { clear - HN HSa HSb HR1 Hsc2 Hsc3 HS4' HS5' HS6'. unfold Ran, Same, SC in *. tauto. }
  destruct (compound_run P (fun s => NoTD (scopes P s)) (pre_notd_SC P) true (pre_notd_notd P) items HI s6 lb li rb rest Hklb HSi Hkrb HU6 HN6) as [f7 [B [s7 [H7 [HU7 [HB HR7]]]]]].
  assert (HN7: NoTD (scopes P s7)). { clear - HN6 HR7. unfold Ran, SC in *. tauto. }
  destruct (build_fn (tv xt) c (mkIdType P [v0] (Some c0)) ns' v0 (map snd ty') c0 B s7 rest eq_refl Hns'' HN7 HU7) as [s8 [H8 [HU8 [HS8 HN8]]]].
  exists (S (S (Nat.max (Nat.max f1 f7) 8))), [mkN P C_FuncDef [fdecl1 (tv xt) c (map (fun v => VStr v) (v0 :: map snd ty')) c0; VNone; B] (Some c)], s8.
  split; [|split; [exact HU8|split; [|cost_tac]]].
  - intros fu Hfu. destruct fu as [|fu]; [lia|]. rewrite extdecl_eq. unfold bind at 1. rewrite Ha. cbv zeta. rewrite E1, E2.
    unfold bind at 1. rewrite Hb. rewrite E4, E5. cbn [negb].
    unfold bind at 1. destruct fu as [|fu]; [lia|]. rewrite (declspec_eq P). unfold bind at 1. rewrite (H1 fu) by lia.
    rewrite Hsp, Hsaw. cbn [negb andb]. unfold ret at 1. cbv iota beta.
    unfold bind at 1. rewrite (H2 (S fu)) by lia. cbn [fst okind_is]. change (kind_eqb K_ID K_ID) with true. cbn [negb].
    unfold bind at 1. rewrite (H3 (S fu)) by lia.
    unfold bind at 1. rewrite H4. unfold bind at 1. unfold starts_declaration. unfold bind at 1. rewrite H5. unfold ret at 1. cbn [okind_in okind_is]. rewrite Hklb.
    change (kind_eqb K_LBRACE K_LBRACE) with true. change (kind_in K_LBRACE tbl_DECL_START) with false. cbn [orb].
    unfold bind at 1. unfold ret at 1. unfold bind at 1. rewrite H6. cbn [okind_is]. rewrite Hklb. change (kind_eqb K_LBRACE K_LBRACE) with true. cbn [negb].
    unfold bind at 1. change (coordA P (fdecl_of (tv xt) c) s6) with (@Ok P (option (coord P) * pstate) (Some c, s6)).
    cbv zeta. cbn [s_type]. unfold bind at 1. rewrite (H7 (S fu)) by lia.
    change (mkSpec P [] [] (mkIdType P [v0] (Some c0) :: ns') [] []) with (spec_of P (mkIdType P [v0] (Some c0) :: ns')).
    unfold bind at 1. rewrite H8. reflexivity.
  - unfold fdecl1, fembed, mkN. cbn [map strip snd]. rewrite (strip_strs P). rewrite HB. reflexivity.
Qed.

(* ---- the translation unit and parse() ---- *)
Lemma tu_eq : forall f, p_translation_unit P (S f) =
  bind P (peek P) (fun t =>
    match t with
    | None => ret P []
    | Some _ => bind P (p_external_declaration P f) (fun e => bind P (p_translation_unit P f) (fun r => ret P (e ++ r)))
    end).
Proof. reflexivity. Qed.

(* a function definition given by its type keywords, its name and the items of its body *)
Definition fn_ok (fd: list (kind * str) * str * list (list (kind * str) * value unit * bool)) : Prop :=
  let '(ty, f, items) := fd in ty <> [] /\ Forall (fun kv => kind_in (fst kv) tbl_TYPE_SPEC_SIMPLE = true) ty /\ Forall item_okD items.
Definition fn_toks (fd: list (kind * str) * str * list (list (kind * str) * value unit * bool)) : list (kind * str) :=
  let '(ty, f, items) := fd in ftoks ty f (concat (map (fun it => fst (fst it)) items)).
Definition fn_emb (fd: list (kind * str) * str * list (list (kind * str) * value unit * bool)) : value unit :=
  let '(ty, f, items) := fd in
  fembed ty f (VNode C_Compound [match items with [] => VNone | _ => VList (map (fun it => snd (fst it)) items) end] None).

Lemma fn_toks_head : forall fd, fn_ok fd -> exists k v r, fn_toks fd = (k, v) :: r.
Proof. intros [[ty f] items] (Hne & _ & _). destruct ty as [|[k v] ty']; [congruence|]. cbn [fn_toks]. unfold ftoks. cbn [app]. eexists; eexists; eexists; reflexivity. Qed.

Lemma tu_run : forall fds, Forall fn_ok fds ->
  forall (s: pstate) le, Spell le (concat (map fn_toks fds)) -> UpEnd P s le -> NoTD (scopes P s) ->
  exists f0 Ns s', (forall fu, f0 <= fu -> p_translation_unit P fu s = Ok (Ns, s')) /\ AtEOF P s' /\
    map (@strip (coord P)) Ns = map fn_emb fds /\
    idx P s' = idx P s + length le /\ N.to_nat (ticks P s') <= N.to_nat (ticks P s) + 3 * length le.
Proof.
  induction fds as [|fd fds IH]; intros HF s le HS HE HN.
  - apply (RoundTrip.Spell_nil_inv P) in HS. subst le. destruct (peek_end P s HE) as [s1 [H1 [HA1 _]]].
    assert (Hst: idx P s1 = idx P s /\ ticks P s1 = ticks P s).
    { clear - H1. unfold peek, peek_k, bind, fill in H1. cbn [fill_aux] in H1. unfold bind, get in H1.
      destruct (Nat.ltb (length (after P s)) 1).
      - unfold deliver1 in H1. destruct (raw P s) as [|[k v p fa|m p f|] r].
        + cbn [after] in H1. destruct (last_is_none P (after P s ++ [None])); unfold ret in H1; cbn [after] in H1;
            destruct (nth_error (after P s ++ [None]) (Nat.pred 1)); inversion H1; subst; split; reflexivity.
        + destruct (kind_eqb k K_LBRACE); [|destruct (kind_eqb k K_RBRACE); [destruct (scopes P s) as [|? [|? ?]]; try discriminate H1|]];
            cbn [after] in H1; match type of H1 with context [last_is_none P ?l] => destruct (last_is_none P l) end; unfold ret in H1; cbn [after] in H1;
            match type of H1 with context [nth_error ?l ?n] => destruct (nth_error l n) end; inversion H1; subst; split; reflexivity.
        + discriminate H1.
        + discriminate H1.
      - unfold ret in H1. destruct (nth_error (after P s) (Nat.pred 1)); inversion H1; subst; split; reflexivity. }
    destruct Hst as [Hi1 Ht1].
    exists 1, [], s1. split; [|split; [exact HA1|split; [reflexivity|split; [cbn [length]; lia|cbn [length]; rewrite Ht1; lia]]]].
    intros fu Hfu. destruct fu as [|fu]; [lia|]. rewrite tu_eq. unfold bind at 1. rewrite H1. reflexivity.
  - inversion HF as [|x y Hfd HF']; subst x y. cbn [map concat] in HS.
    destruct (RoundTrip.Spell_app_inv P _ _ _ HS) as [l1 [lr [-> [HS1 HSr]]]].
    destruct (fn_toks_head fd Hfd) as [k [v [r Ek]]]. pose proof HS1 as HS1'. rewrite Ek in HS1'.
    destruct (RoundTrip.Spell_cons_inv P _ _ _ _ HS1') as [t [tl [El [_ [_ _]]]]].
    pose proof (UpEnd_Up P _ _ HE) as HU. rewrite El in HU. cbn [app] in HU.
    destruct (peek_up P s t _ HU) as [s1 [H1 [HU1 HS1s]]].
    change (t :: tl ++ lr) with ((t :: tl) ++ lr) in HU1. rewrite <- El in HU1.
    assert (HN1: NoTD (scopes P s1)). { clear - HN HS1s. unfold Same, SC in *. tauto. }
    destruct fd as [[ty f] items]. destruct Hfd as (Hne & Hty & Hit). cbn [fn_toks] in HS1.
    destruct (extdecl_fn ty f items Hne Hty Hit s1 l1 lr HS1 HU1 HN1) as [f1 [Ns1 [s2 [H2 [HU2 [HNs1 HR2]]]]]].
    assert (HE2: UpEnd P s2 lr).
    { apply (UpEnd_ran P s s2 l1 lr HE HU2); clear - HS1s HR2; unfold Ran, Same, SC in *; repeat match goal with H: _ /\ _ |- _ => destruct H end; lia. }
    assert (HN2: NoTD (scopes P s2)). { clear - HN1 HR2. unfold Ran, SC in *. tauto. }
    destruct (IH HF' s2 lr HSr HE2 HN2) as [f2 [Ns2 [s3 [H3 [HA3 [HNs2 [Hi3 Ht3]]]]]]].
    exists (S (Nat.max f1 f2)), (Ns1 ++ Ns2), s3. split; [|split; [exact HA3|split; [|split]]].
    + intros fu Hfu. destruct fu as [|fu]; [lia|]. rewrite tu_eq. unfold bind at 1. rewrite H1.
      unfold bind at 1. rewrite (H2 fu) by lia. unfold bind at 1. rewrite (H3 fu) by lia. reflexivity.
    + rewrite map_app. cbn [map fn_emb]. apply (f_equal2 (@app (value unit)) HNs1 HNs2).
    + clear - HS1s HR2 Hi3. unfold Ran, Same in *. repeat match goal with H: _ /\ _ |- _ => destruct H end. rewrite app_length. lia.
    + clear - HS1s HR2 Ht3. unfold Ran, Same in *. repeat match goal with H: _ /\ _ |- _ => destruct H end. rewrite app_length. lia.
Qed.

(* ---- the same for any mixture of external declarations that are parsed back one by one ---- *)
Definition ExtS (kvs: list (kind * str)) (X: value unit) : Prop :=
  (exists k v r, kvs = (k, v) :: r) /\
  forall (s: pstate) le rest, Spell le kvs -> Up s (le ++ rest) -> NoTD (scopes P s) ->
  exists f0 Ns s', (forall fu, f0 <= fu -> p_external_declaration P fu s = Ok (Ns, s')) /\ Up s' rest /\
    map (@strip (coord P)) Ns = [X] /\ Ran P s s' (length le).

Lemma tu_run_g : forall eds, Forall (fun e => ExtS (fst e) (snd e)) eds ->
  forall (s: pstate) le, Spell le (concat (map fst eds)) -> UpEnd P s le -> NoTD (scopes P s) ->
  exists f0 Ns s', (forall fu, f0 <= fu -> p_translation_unit P fu s = Ok (Ns, s')) /\ AtEOF P s' /\
    map (@strip (coord P)) Ns = map snd eds /\
    idx P s' = idx P s + length le /\ N.to_nat (ticks P s') <= N.to_nat (ticks P s) + 3 * length le.
Proof.
  induction eds as [|[kvs X] eds IH]; intros HF s le HS HE HN.
  - apply (RoundTrip.Spell_nil_inv P) in HS. subst le. destruct (peek_end P s HE) as [s1 [H1 [HA1 _]]].
    assert (Hst: idx P s1 = idx P s /\ ticks P s1 = ticks P s).
    { clear - H1. unfold peek, peek_k, bind, fill in H1. cbn [fill_aux] in H1. unfold bind, get in H1.
      destruct (Nat.ltb (length (after P s)) 1).
      - unfold deliver1 in H1. destruct (raw P s) as [|[k v p fa|m p f|] r].
        + cbn [after] in H1. destruct (last_is_none P (after P s ++ [None])); unfold ret in H1; cbn [after] in H1;
            destruct (nth_error (after P s ++ [None]) (Nat.pred 1)); inversion H1; subst; split; reflexivity.
        + destruct (kind_eqb k K_LBRACE); [|destruct (kind_eqb k K_RBRACE); [destruct (scopes P s) as [|? [|? ?]]; try discriminate H1|]];
            cbn [after] in H1; match type of H1 with context [last_is_none P ?l] => destruct (last_is_none P l) end; unfold ret in H1; cbn [after] in H1;
            match type of H1 with context [nth_error ?l ?n] => destruct (nth_error l n) end; inversion H1; subst; split; reflexivity.
        + discriminate H1.
        + discriminate H1.
      - unfold ret in H1. destruct (nth_error (after P s) (Nat.pred 1)); inversion H1; subst; split; reflexivity. }
    destruct Hst as [Hi1 Ht1].
    exists 1, [], s1. split; [|split; [exact HA1|split; [reflexivity|split; [cbn [length]; lia|cbn [length]; rewrite Ht1; lia]]]].
    intros fu Hfu. destruct fu as [|fu]; [lia|]. rewrite tu_eq. unfold bind at 1. rewrite H1. reflexivity.
  - inversion HF as [|x y Hfd HF']; subst x y. cbn [map concat] in HS.
    destruct (RoundTrip.Spell_app_inv P _ _ _ HS) as [l1 [lr [-> [HS1 HSr]]]].
    cbn [fst snd] in Hfd, HS1. destruct Hfd as [[k [v [r Ek]]] Hrun]. pose proof HS1 as HS1'. rewrite Ek in HS1'.
    destruct (RoundTrip.Spell_cons_inv P _ _ _ _ HS1') as [t [tl [El [_ [_ _]]]]].
    pose proof (UpEnd_Up P _ _ HE) as HU. rewrite El in HU. cbn [app] in HU.
    destruct (peek_up P s t _ HU) as [s1 [H1 [HU1 HS1s]]].
    change (t :: tl ++ lr) with ((t :: tl) ++ lr) in HU1. rewrite <- El in HU1.
    assert (HN1: NoTD (scopes P s1)). { clear - HN HS1s. unfold Same, SC in *. tauto. }
    destruct (Hrun s1 l1 lr HS1 HU1 HN1) as [f1 [Ns1 [s2 [H2 [HU2 [HNs1 HR2]]]]]].
    assert (HE2: UpEnd P s2 lr).
    { apply (UpEnd_ran P s s2 l1 lr HE HU2); clear - HS1s HR2; unfold Ran, Same, SC in *; repeat match goal with H: _ /\ _ |- _ => destruct H end; lia. }
    assert (HN2: NoTD (scopes P s2)). { clear - HN1 HR2. unfold Ran, SC in *. tauto. }
    destruct (IH HF' s2 lr HSr HE2 HN2) as [f2 [Ns2 [s3 [H3 [HA3 [HNs2 [Hi3 Ht3]]]]]]].
    exists (S (Nat.max f1 f2)), (Ns1 ++ Ns2), s3. split; [|split; [exact HA3|split; [|split]]].
    + intros fu Hfu. destruct fu as [|fu]; [lia|]. rewrite tu_eq. unfold bind at 1. rewrite H1.
      unfold bind at 1. rewrite (H2 fu) by lia. unfold bind at 1. rewrite (H3 fu) by lia. reflexivity.
    + rewrite map_app. cbn [map snd]. apply (f_equal2 (@app (value unit)) HNs1 HNs2).
    + clear - HS1s HR2 Hi3. unfold Ran, Same in *. repeat match goal with H: _ /\ _ |- _ => destruct H end. rewrite app_length. lia.
    + clear - HS1s HR2 Ht3. unfold Ran, Same in *. repeat match goal with H: _ /\ _ |- _ => destruct H end. rewrite app_length. lia.
Qed.

Lemma parse_eq : forall fu, parse_tokens P fu =
  bind P (p_translation_unit P fu) (fun ext => bind P (peek P) (fun t =>
    match t with
    | Some t' => bind P (tok_coord P t') (fun c => fail P (L_coord P c) (s2l "before: " ++ tv t'))
    | None => ret P (mkN P C_FileAST [VList ext] None)
    end)).
Proof. reflexivity. Qed.

(* parse(): the whole input *)
Theorem parse_run : forall fds, Forall fn_ok fds ->
  forall items le eof file, Spell le (concat (map fn_toks fds)) -> UpR P [[]] items le -> length items = length le ->
  exists f0 N s', (forall fu, f0 <= fu -> parse_tokens P fu (init_pstate P items eof file) = Ok (N, s')) /\
    strip N = VNode C_FileAST [VList (map fn_emb fds)] None /\
    idx P s' = length le /\ N.to_nat (ticks P s') <= 3 * length le.
Proof.
  intros fds HF items le eof file HS HU Hlen.
  set (s0 := init_pstate P items eof file).
  assert (HE: UpEnd P s0 le).
  { split; [apply (Up_initial P); [reflexivity|exact HU]|]. unfold tot, s0, init_pstate. cbn [idx after raw length]. lia. }
  assert (HN: NoTD (scopes P s0)). { split; [discriminate|repeat constructor]. }
  destruct (tu_run fds HF s0 le HS HE HN) as [f0 [Ns [s1 [H1 [HA1 [HNs [Hi1 Ht1]]]]]]].
  exists f0, (mkN P C_FileAST [VList Ns] None), s1. split; [|split; [|split]].
  - intros fu Hfu. rewrite parse_eq. unfold bind at 1. rewrite (H1 fu Hfu). unfold bind at 1. rewrite (peek_eof P s1 HA1). reflexivity.
  - unfold mkN. cbn [strip map]. rewrite HNs. reflexivity.
  - exact Hi1.
  - exact Ht1.
Qed.


Theorem parse_run_g : forall eds, Forall (fun e => ExtS (fst e) (snd e)) eds ->
  forall items le eof file, Spell le (concat (map fst eds)) -> UpR P [[]] items le -> length items = length le ->
  exists f0 N s', (forall fu, f0 <= fu -> parse_tokens P fu (init_pstate P items eof file) = Ok (N, s')) /\
    strip N = VNode C_FileAST [VList (map snd eds)] None /\
    idx P s' = length le /\ N.to_nat (ticks P s') <= 3 * length le.
Proof.
  intros eds HF items le eof file HS HU Hlen.
  set (s0 := init_pstate P items eof file).
  assert (HE: UpEnd P s0 le).
  { split; [apply (Up_initial P); [reflexivity|exact HU]|]. unfold tot, s0, init_pstate. cbn [idx after raw length]. lia. }
  assert (HN: NoTD (scopes P s0)). { split; [discriminate|repeat constructor]. }
  destruct (tu_run_g eds HF s0 le HS HE HN) as [f0 [Ns [s1 [H1 [HA1 [HNs [Hi1 Ht1]]]]]]].
  exists f0, (mkN P C_FileAST [VList Ns] None), s1. split; [|split; [|split]].
  - intros fu Hfu. rewrite parse_eq. unfold bind at 1. rewrite (H1 fu Hfu). unfold bind at 1. rewrite (peek_eof P s1 HA1). reflexivity.
  - unfold mkN. cbn [strip map]. rewrite HNs. reflexivity.
  - exact Hi1.
  - exact Ht1.
Qed.

Lemma fn_ExtS : forall fd, fn_ok fd -> ExtS (fn_toks fd) (fn_emb fd).
Proof.
  intros fd Hfd. split; [exact (fn_toks_head fd Hfd)|]. destruct fd as [[ty f] items]. destruct Hfd as (Hne & Hty & Hit).
  intros s le rest HS HU HN. exact (extdecl_fn ty f items Hne Hty Hit s le rest HS HU HN).
Qed.

(* ---- a file-scope object declaration `T x ;` / `T x = initializer ;` as an external declaration ---- *)
Lemma extdecl_obj : forall ty x ki Xi, ty <> [] -> Forall (fun kv => kind_in (fst kv) tbl_TYPE_SPEC_SIMPLE = true) ty -> InitOK P ki Xi ->
  ExtS (dtoks ty x ki) (dembed ty x Xi).
Proof.
  intros ty x ki Xi Hne HF HI. split.
  { destruct ty as [|[k v] ty']; [congruence|]. unfold dtoks. cbn [app]. eexists; eexists; eexists; reflexivity. }
  intros s le rest HS HU HN. unfold dtoks in HS.
  destruct (RoundTrip.Spell_app_inv P _ _ _ HS) as [lty [l1 [-> [HSty HS1]]]].
  destruct (RoundTrip.Spell_cons_inv P _ _ _ _ HS1) as [xt [l2 [-> [Hkx [Hvx HS2]]]]].
  destruct (RoundTrip.Spell_app_inv P _ _ _ HS2) as [lki [l3 [-> [HSki HS3]]]].
  destruct (RoundTrip.Spell_cons_inv P _ _ _ _ HS3) as [semi [l4 [-> [Hksemi [_ HS4]]]]]. apply (RoundTrip.Spell_nil_inv P) in HS4. subst l4.
  rewrite <- app_assoc in HU. cbn [app] in HU. rewrite <- app_assoc in HU. cbn [app] in HU.
  destruct ty as [|[k0 v0] ty']; [congruence|].
  pose proof HSty as HSty0. destruct (RoundTrip.Spell_cons_inv P _ _ _ _ HSty) as [t0 [lty' [El [Hk0 [_ _]]]]].
  pose proof (Forall_inv HF) as Hk0s. cbn [fst] in Hk0s. destruct (simple_kind_facts_x k0 Hk0s) as (E1 & E2 & E3 & E4 & E5).
  rewrite El in HU. cbn [app] in HU.
  destruct (peek_up P s t0 _ HU) as [sa [Ha [HUa HSa]]].
  assert (Hns: kind_eqb (tk t0) K_SEMI = false) by (rewrite Hk0; exact E3).
  destruct (accept_miss P sa t0 _ K_SEMI HUa Hns) as [sb [Hb [HUb HSb]]].
  change (t0 :: lty' ++ xt :: lki ++ semi :: rest) with ((t0 :: lty') ++ xt :: lki ++ semi :: rest) in HUb. rewrite <- El in HUb.
  destruct (spec_loop_run_d P _ HF (mkSS P None false false None) sb lty xt _ HSty0 HUb Hkx) as [f1 [ns [st' [s1 [H1 [HU1 [HR1 [Hns' [Hsp Hsaw]]]]]]]]].
  cbn [map snd] in Hns'. inversion Hns' as [|n0 v0' ns' vs' [c0 En0] Hns'' E1']. subst.
  cbn [ss_spec fold_left] in Hsp. unfold add_type at 2 in Hsp. cbn [spec_or_new] in Hsp. rewrite (fold_types P) in Hsp. cbn in Hsp.
  cbn [ss_saw_type orb negb] in Hsaw.
  destruct (scan_id P s1 xt _ HU1 Hkx) as [s2 [H2 [HU2 [Hi2 [Ht2 Hsc2]]]]].
  (* the declarator `x`, then what follows it: `=` or `;` *)
  assert (Hnext: exists n l', lki ++ semi :: rest = n :: l' /\ kind_eqb (tk n) K_LBRACKET = false /\ kind_eqb (tk n) K_LPAREN = false /\
                 kind_eqb (tk n) K_LBRACE = false /\ kind_in (tk n) tbl_DECL_START = false).
  { destruct HI as [[-> ->]|[kvs [-> _]]].
    - apply (RoundTrip.Spell_nil_inv P) in HSki. subst lki. exists semi, rest. rewrite Hksemi. repeat split; reflexivity.
    - destruct (RoundTrip.Spell_cons_inv P _ _ _ _ HSki) as [eqt [le' [-> [Hke _]]]]. exists eqt, (le' ++ semi :: rest). rewrite Hke. repeat split; reflexivity. }
  destruct Hnext as [n [l' [En [Hn1 [Hn2 [Hn3 Hn4]]]]]]. rewrite En in HU2.
  destruct (peek_kind_up P s2 xt _ HU2) as [s3 [H3 [HU3 HS3']]].
  assert (Hnl: kind_eqb (tk xt) K_LPAREN = false) by (rewrite Hkx; reflexivity).
  destruct (accept_miss P s3 xt _ K_LPAREN HU3 Hnl) as [s4 [H4 [HU4 HS4']]].
  assert (Hid: kind_eqb (tk xt) K_ID = true) by (rewrite Hkx; reflexivity).
  destruct (expect_up P s4 xt _ K_ID HU4 Hid) as [s5 [H5 [HU5 HA5]]].
  destruct (peek_kind_up P s5 n _ HU5) as [s6 [H6 [HU6 HS6']]].
  destruct (peek_kind_up P s6 n _ HU6) as [s7 [H7 [HU7 HS7']]].
  destruct (peek_kind_up P s7 n _ HU7) as [s8 [H8 [HU8 HS8']]].
  rewrite <- En in HU8.
  set (c := mkCoord P (curfile P s5) (tp xt)).
  (* the initializer, if any *)
  assert (Hinit: exists fi I s9, (forall fu, fi <= fu ->
              bind P (accept P K_EQUALS) (fun eq => bind P (match eq with Some _ => p_initializer P fu | None => ret P VNone end) (fun init => ret P init)) s8 = Ok (I, s9)) /\
            Up s9 (semi :: rest) /\ strip I = Xi /\ Ran P s8 s9 (length lki)).
  { destruct HI as [[-> ->]|[kvs [-> [HA Hfo]]]].
    - apply (RoundTrip.Spell_nil_inv P) in HSki. subst lki. cbn [app] in HU8.
      assert (Hne': kind_eqb (tk semi) K_EQUALS = false) by (rewrite Hksemi; reflexivity).
      destruct (accept_miss P s8 semi rest K_EQUALS HU8 Hne') as [s9 [H9 [HU9 HS9]]].
      exists 0, VNone, s9. split; [|split; [exact HU9|split; [reflexivity|cost_tac]]].
      intros fu _. unfold bind at 1. rewrite H9. reflexivity.
    - destruct (RoundTrip.Spell_cons_inv P _ _ _ _ HSki) as [eqt [le' [-> [Hke [_ HS']]]]]. cbn [app] in HU8.
      assert (Hee: kind_eqb (tk eqt) K_EQUALS = true) by (rewrite Hke; reflexivity).
      destruct (accept_hit P s8 eqt _ K_EQUALS HU8 Hee) as [s9 [H9 [HU9 HA9]]].
      destruct Hfo as [k1 [v1 [rest1 [Ek1 [_ [Hnb _]]]]]].
      pose proof HS' as HS0. rewrite Ek1 in HS'. destruct (RoundTrip.Spell_cons_inv P _ _ _ _ HS') as [t1 [tl1 [El1 [Hk1 [_ _]]]]].
      assert (Hnb': kind_eqb (tk t1) K_LBRACE = false) by (rewrite Hk1; exact Hnb).
      rewrite El1 in HU9. cbn [app] in HU9.
      destruct (accept_miss P s9 t1 _ K_LBRACE HU9 Hnb') as [s10 [H10 [HU10 HS10]]].
      change (t1 :: tl1 ++ semi :: rest) with ((t1 :: tl1) ++ semi :: rest) in HU10. rewrite <- El1 in HU10.
      assert (Hast: astop (tk semi) = true) by (rewrite Hksemi; reflexivity).
      destruct (HA s10 le' semi rest HS0 HU10 Hast) as [fa [I [s11 [H11 [HU11 [HI11 HR11]]]]]].
      exists (S fa), I, s11. split; [|split; [exact HU11|split; [exact HI11|cost_tac]]].
      intros fu Hfu. destruct fu as [|fu]; [lia|]. unfold bind at 1. rewrite H9. unfold bind at 1. rewrite (initializer_eq P). unfold bind at 1. rewrite H10.
      rewrite (H11 fu) by lia. reflexivity. }
  destruct Hinit as [fi [I [s9 [H9 [HU9 [HI9 HR9]]]]]].
  assert (Hnc: kind_eqb (tk semi) K_COMMA = false) by (rewrite Hksemi; reflexivity).
  destruct (accept_miss P s9 semi rest K_COMMA HU9 Hnc) as [s10 [H10 [HU10 HS10]]].
  assert (HN10: NoTD (scopes P s10)).
  { clear - HN HSa HSb HR1 Hsc2 HS3' HS4' HA5 HS6' HS7' HS8' HR9 HS10. unfold Ran, Same, Adv, SC in *. tauto. }
  destruct (build_decl_td P (tv xt) c I (mkIdType P [v0] (Some c0)) ns' v0 (map snd ty') c0 s10 _ eq_refl Hns'' HN10 HU10) as [s11 [H11 [HU11 [HS11 HN11]]]].
  assert (Hsm: kind_eqb (tk semi) K_SEMI = true) by (rewrite Hksemi; reflexivity).
  destruct (expect_up P s11 semi _ K_SEMI HU11 Hsm) as [s12 [H12 [HU12 HA12]]].
  exists (4 + Nat.max f1 (Nat.max fi 8)), [decl1 P (tv xt) c I (map (fun v => VStr v) (v0 :: map snd ty')) c0], s12.
  split; [|split; [exact HU12|split; [|cost_tac]]].
  - intros fu Hfu. do 4 (destruct fu as [|fu]; [lia|]). rewrite extdecl_eq. unfold bind at 1. rewrite Ha. cbv zeta. rewrite E1, E2.
    unfold bind at 1. rewrite Hb. rewrite E4, E5. cbn [negb].
    unfold bind at 1. rewrite (declspec_eq P). unfold bind at 1. rewrite (H1 (S (S fu))) by lia.
    rewrite Hsp, Hsaw. cbn [negb andb]. unfold ret at 1. cbv iota beta.
    unfold bind at 1. rewrite (H2 (S (S (S fu)))) by lia. cbn [fst okind_is]. change (kind_eqb K_ID K_ID) with true. cbn [negb].
    unfold bind at 1. rewrite (declarator_kind_eq P). unfold bind at 1. rewrite H3. rewrite Hkx. change (okind_is (Some K_ID) K_TIMES) with false. cbv iota.
    unfold bind at 1. unfold ret at 1. unfold bind at 1. rewrite (direct_declarator_eq P). unfold bind at 1. rewrite H4.
    unfold bind at 1. unfold bind at 1. rewrite H5. unfold bind at 1. rewrite (TypeName.tcoord_eq P). unfold ret at 1. fold c.
    rewrite (decl_suffixes_eq P). unfold bind at 1. rewrite H6. cbn [okind_is]. rewrite Hn1, Hn2. unfold ret at 1. unfold ret at 1.
    unfold bind at 1. rewrite H7. unfold bind at 1. unfold starts_declaration. unfold bind at 1. rewrite H8. unfold ret at 1. cbn [okind_in okind_is]. rewrite Hn3, Hn4. cbn [orb].
    pose proof (H9 (S (S (S fu))) ltac:(lia)) as H9'. unfold bind at 1 in H9'.
    destruct (accept P K_EQUALS s8) as [[eq s8']| | |] eqn:Eacc; try discriminate H9'.
    unfold bind at 1 in H9'.
    destruct ((match eq with Some _ => p_initializer P (S (S (S fu))) | None => ret P VNone end) s8') as [[init s8'']| | |] eqn:Einit; try discriminate H9'.
    unfold ret in H9'. injection H9' as -> ->.
    unfold bind at 1. rewrite Eacc. unfold bind at 1. rewrite Einit.
    unfold bind at 1. rewrite (idl_eq P). unfold bind at 1. unfold ret at 1. unfold bind at 1. rewrite (idm_eq P). unfold bind at 1. rewrite H10. unfold ret at 1. unfold ret at 1.
    change (mkSpec P [] [] (mkIdType P [v0] (Some c0) :: ns') [] []) with (spec_of P (mkIdType P [v0] (Some c0) :: ns')).
    change (mkTypeDecl P (VStr (tv xt)) VNone VNone VNone (Some c)) with (td_of P (tv xt) c).
    unfold bind at 1. rewrite H11. unfold bind at 1. rewrite H12. reflexivity.
  - unfold decl1, dembed. cbn [map strip snd]. rewrite (strip_strs P). rewrite HI9. reflexivity.
Qed.

End FT.

(* ---- programs over the statement language of StmtTrip ---- *)
Section Prog.
Variable P : Type.
Variable rp : bool.

Definition fdef : Type := list (kind * str) * str * list st.
Definition fd_items (fd: fdef) : list (kind * str) * str * list (list (kind * str) * value unit * bool) :=
  let '(ty, f, items) := fd in (ty, f, map (fun y => (stoks rp y, embs y, sopen y)) items).
(* well-formed: a non-empty run of simple type specifiers, and a body whose items are declarations `T x;` / `T x = e;` and
   well-formed statements (blocks inside may declare objects too) *)
Definition fwf (fd: fdef) : Prop :=
  let '(ty, f, items) := fd in ty <> [] /\ Forall (fun kv => kind_in (fst kv) tbl_TYPE_SPEC_SIMPLE = true) ty /\ swfl true items.
Definition prog_toks (p: list fdef) : list (kind * str) := concat (map (fun fd => fn_toks (fd_items fd)) p).
Definition prog_emb (p: list fdef) : value unit := VNode C_FileAST [VList (map (fun fd => fn_emb (fd_items fd)) p)] None.

Lemma fwf_ok : forall fd, fwf fd -> fn_ok P (fd_items fd).
Proof.
  intros [[ty f] items] (Hne & Hty & Hit). cbn [fd_items fn_ok]. split; [exact Hne|split; [exact Hty|]].
  exact (block_items_ok P rp (fun s => StreamLib.NoTD (scopes P s)) (pre_notd_SC P) true (pre_notd_notd P) items Hit).
Qed.

(* parse . generate = id at token level for WHOLE PROGRAMS, on the whole-parser model's top-level entry: for every list of
   function definitions `T f ( ) { ... }` over the statement language (declarations of objects included), whenever the lexer
   delivers exactly the tokens of the generated text - classified under the initial scope stack - and then the end of the
   input, parse_tokens returns, for all sufficiently large fuel, exactly the FileAST the text was generated from, has consumed
   every token, and has called _TokenStream.next() at most three times per token. *)
Theorem parse_of_generated_program : forall p, Forall fwf p ->
  forall items le eof file, RoundTrip.Spell P le (prog_toks p) -> StreamLib.UpR P [[]] items le -> length items = length le ->
  exists f0 N s', (forall fu, f0 <= fu -> parse_tokens P fu (init_pstate P items eof file) = Ok (N, s')) /\
    strip N = prog_emb p /\ idx P s' = length le /\ N.to_nat (ticks P s') <= 3 * length le.
Proof.
  intros p Hp items le eof file HS HU Hlen.
  assert (HF: Forall (fn_ok P) (map fd_items p)).
  { apply Forall_forall. intros x Hx. apply in_map_iff in Hx. destruct Hx as [fd [<- Hfd]]. apply fwf_ok. exact (proj1 (Forall_forall _ _) Hp fd Hfd). }
  unfold prog_toks in HS. rewrite <- map_map in HS.
  destruct (parse_run P (map fd_items p) HF items le eof file HS HU Hlen) as [f0 [N [s' [H [HN [Hi Ht]]]]]].
  exists f0, N, s'. split; [exact H|split; [|split; assumption]]. rewrite HN. unfold prog_emb. rewrite map_map. reflexivity.
Qed.
End Prog.

(* ---- the theorem applies to something: two functions, declarations, nested blocks ----
   int main ( ) { int x = 1 ; unsigned long y ; y = x + 2 ; { char c = ( x , y ) ; } return y ; }   void g ( ) { } *)
Definition ex_prog : list fdef :=
  [([(K_INT, s2l "int")], s2l "main",
    [SDecl [(K_INT, s2l "int")] (s2l "x") (Some (XConst K_INT_CONST_DEC (s2l "1") (s2l "int")));
     SDecl [(K_UNSIGNED, s2l "unsigned"); (K_LONG, s2l "long")] (s2l "y") None;
     SExpr (XAsg (s2l "=") (XId (s2l "y")) (XBin (s2l "+") (XId (s2l "x")) (XConst K_INT_CONST_DEC (s2l "2") (s2l "int"))));
     SBlock [SDecl [(K_CHAR, s2l "char")] (s2l "c") (Some (XComma [XId (s2l "x"); XId (s2l "y")]))];
     SReturn (Some (XId (s2l "y")))]);
   ([(K_VOID, s2l "void")], s2l "g", [])].
Definition ex_prog_items : list (ParserBase.pitem nat) := map (fun kv => ParserBase.PTok nat (fst kv) (snd kv) 0 0) (prog_toks false ex_prog).
Definition ex_prog_toks : list (ParserBase.tok nat) := map (fun kv => mkTok nat (fst kv) (snd kv) 0) (prog_toks false ex_prog).
Example program_example :
  Forall fwf ex_prog /\ RoundTrip.Spell nat ex_prog_toks (prog_toks false ex_prog) /\
  StreamLib.UpR nat [[]] ex_prog_items ex_prog_toks /\ length ex_prog_items = length ex_prog_toks /\
  match parse_tokens nat 200 (init_pstate nat ex_prog_items 0 0) with
  | Ok (N, s') => strip N = prog_emb false ex_prog /\ idx nat s' = length ex_prog_toks /\ (N.to_nat (ticks nat s') <= 3 * length ex_prog_toks)%nat
  | _ => False
  end.
Proof.
  split; [repeat constructor; try discriminate; cbn; repeat split; solve [reflexivity | discriminate | repeat constructor]|].
  split; [vm_compute; reflexivity|]. split; [|split; [vm_compute; reflexivity|vm_compute; repeat split; lia]].
  unfold ex_prog_items, ex_prog_toks. vm_compute prog_toks. cbn [map fst snd].
  repeat (eapply UpR_cons; [vm_compute; reflexivity|]). apply UpR_nil.
Qed.

(* ---- translation units that mix file-scope object declarations and function definitions ---- *)
Inductive edecl :=
| EFun (ty: list (kind * str)) (f: str) (items: list st)
| EObj (ty: list (kind * str)) (x: str) (i: option ex).

Section Unit.
Variable P : Type.
Variable rp : bool.
Definition ewf (d: edecl) : Prop :=
  match d with
  | EFun ty f items => fwf (ty, f, items)
  | EObj ty x i => ty <> [] /\ Forall (fun kv => kind_in (fst kv) tbl_TYPE_SPEC_SIMPLE = true) ty /\ owf i
  end.
Definition etoks (d: edecl) : list (kind * str) :=
  match d with
  | EFun ty f items => fn_toks (fd_items rp (ty, f, items))
  | EObj ty x i => dtoks ty x (match i with Some e => (K_EQUALS, s2l "=") :: argt rp e | None => [] end)
  end.
Definition eemb (d: edecl) : value unit :=
  match d with
  | EFun ty f items => fn_emb (fd_items rp (ty, f, items))
  | EObj ty x i => dembed ty x (oemb i)
  end.
Definition unit_toks (u: list edecl) : list (kind * str) := concat (map etoks u).
Definition unit_emb (u: list edecl) : value unit := VNode C_FileAST [VList (map eemb u)] None.

Lemma ewf_ExtS : forall d, ewf d -> ExtS P (etoks d) (eemb d).
Proof.
  intros [ty f items|ty x i] Hw; cbn [ewf etoks eemb] in *.
  - apply fn_ExtS. apply (fwf_ok P rp). exact Hw.
  - destruct Hw as (Hne & Hty & Hi). apply extdecl_obj; [exact Hne|exact Hty|].
    destruct i as [e|]; [|left; split; reflexivity]. right. cbn [owf] in Hi. pose proof (T_all P rp (size e) e (le_n _) Hi) as HT.
    exists (argt rp e). split; [reflexivity|]. split; [exact (T_asg_argt P rp e HT)|exact (T_first_argt P rp e HT)].
Qed.

(* parse(): every translation unit made of object declarations `T x;` / `T x = e;` and function definitions `T f ( ) { ... }`, in any
   order and number, followed by the end of the input, is parsed from the initial state to exactly its FileAST - one Decl / FuncDef per
   external declaration, in source order - consuming every token with at most three next() calls per token. *)
Theorem parse_of_generated_unit : forall u, Forall ewf u ->
  forall items le eof file, RoundTrip.Spell P le (unit_toks u) -> StreamLib.UpR P [[]] items le -> length items = length le ->
  exists f0 N s', (forall fu, f0 <= fu -> parse_tokens P fu (init_pstate P items eof file) = Ok (N, s')) /\
    strip N = unit_emb u /\ idx P s' = length le /\ N.to_nat (ticks P s') <= 3 * length le.
Proof.
  intros u Hu items le eof file HS HU Hlen.
  assert (HF: Forall (fun e => ExtS P (fst e) (snd e)) (map (fun d => (etoks d, eemb d)) u)).
  { apply Forall_forall. intros x Hx. apply in_map_iff in Hx. destruct Hx as [d [<- Hd]]. cbn [fst snd]. apply ewf_ExtS. exact (proj1 (Forall_forall _ _) Hu d Hd). }
  assert (E1: map fst (map (fun d => (etoks d, eemb d)) u) = map etoks u) by (rewrite map_map; reflexivity).
  assert (E2: map snd (map (fun d => (etoks d, eemb d)) u) = map eemb u) by (rewrite map_map; reflexivity).
  unfold unit_toks in HS. rewrite <- E1 in HS.
  destruct (parse_run_g P _ HF items le eof file HS HU Hlen) as [f0 [N [s' [H [HN [Hi Ht]]]]]].
  exists f0, N, s'. split; [exact H|split; [|split; assumption]]. rewrite HN, E2. reflexivity.
Qed.
End Unit.

(* `int counter = 0 ; unsigned long limit ; int next ( ) { counter = counter + 1 ; return counter ; } char flag = ( counter , 1 ) ; void g ( ) { }` *)
Definition ex_unit : list edecl :=
  [EObj [(K_INT, s2l "int")] (s2l "counter") (Some (XConst K_INT_CONST_DEC (s2l "0") (s2l "int")));
   EObj [(K_UNSIGNED, s2l "unsigned"); (K_LONG, s2l "long")] (s2l "limit") None;
   EFun [(K_INT, s2l "int")] (s2l "next")
     [SExpr (XAsg (s2l "=") (XId (s2l "counter")) (XBin (s2l "+") (XId (s2l "counter")) (XConst K_INT_CONST_DEC (s2l "1") (s2l "int"))));
      SReturn (Some (XId (s2l "counter")))];
   EObj [(K_CHAR, s2l "char")] (s2l "flag") (Some (XComma [XId (s2l "counter"); XConst K_INT_CONST_DEC (s2l "1") (s2l "int")]));
   EFun [(K_VOID, s2l "void")] (s2l "g") []].
Definition ex_unit_items : list (ParserBase.pitem nat) := map (fun kv => ParserBase.PTok nat (fst kv) (snd kv) 0 0) (unit_toks false ex_unit).
Definition ex_unit_toks : list (ParserBase.tok nat) := map (fun kv => mkTok nat (fst kv) (snd kv) 0) (unit_toks false ex_unit).
Example unit_example :
  Forall ewf ex_unit /\ RoundTrip.Spell nat ex_unit_toks (unit_toks false ex_unit) /\
  StreamLib.UpR nat [[]] ex_unit_items ex_unit_toks /\ length ex_unit_items = length ex_unit_toks /\
  match parse_tokens nat 200 (init_pstate nat ex_unit_items 0 0) with
  | Ok (N, s') => strip N = unit_emb false ex_unit /\ idx nat s' = length ex_unit_toks /\ (N.to_nat (ticks nat s') <= 3 * length ex_unit_toks)%nat
  | _ => False
  end.
Proof.
  split; [repeat constructor; try discriminate; cbn; repeat split; solve [reflexivity | discriminate | repeat constructor]|].
  split; [vm_compute; reflexivity|]. split; [|split; [vm_compute; reflexivity|vm_compute; repeat split; lia]].
  unfold ex_unit_items, ex_unit_toks. vm_compute unit_toks. cbn [map fst snd].
  repeat (eapply UpR_cons; [vm_compute; reflexivity|]). apply UpR_nil.
Qed.
