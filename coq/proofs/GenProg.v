(* C07, generator side of FuncTrip and the two sides together: for every program of FuncTrip.fdef (function definitions `T f ( ) { ... }`
   over the statement language with declarations) the generator MODEL (visit_FileAST, visit_FuncDef, visit_Decl / _generate_decl /
   _generate_type with a FuncDecl modifier, visit_Compound at indentation 0) prints [ptextP rp p]; that text with blanks and newlines
   removed is the concatenation of the spellings of [prog_toks rp p]; and - FuncTrip.parse_of_generated_program - the parser model
   turns these tokens back into the tree the text was printed from.  The embeddings used by the two sides are the same tree
   ([embC_unit], [embS_unit], [embP_unit]). *)
From Coq Require Import String.
From Coq Require Import List NArith ZArith Bool Arith Lia.
Import ListNotations.
From PV Require Import Regex Base AstDefs AstSpec AstImpl GenTables NodeModel Generator ClimbProofs GenParen GenBinop.
From PV Require Import LexTables ParserTables LexerProofs TableProofs RoundTrip RoundTripGen RoundTripX GenExpr TypeName DeclTrip StmtTrip GenStmt FuncTrip.
Open Scope nat_scope.

(* ---- the generator-side embeddings at C = unit are the parser-side ones ---- *)
Lemma embC_unit : forall n e, size e <= n -> embC unit e = embx e.
Proof.
  induction n as [|n IH]; intros e Hn; [destruct e; cbn in Hn; lia|].
  assert (IHl: forall l, list_sum (map size l) <= n -> map (embC unit) l = map embx l).
  { intros l Hl. apply map_ext_in. intros a Ha. apply IH. pose proof (in_sum l a Ha). lia. }
  destruct e; cbn [size] in Hn; cbn [embC embx]; try reflexivity;
    repeat match goal with |- context [embC unit ?x] => rewrite (IH x) by lia end; try reflexivity.
  all: try (destruct args as [|a0 ar]; [reflexivity|]; rewrite (IHl (a0 :: ar)) by lia; reflexivity).
  all: try (rewrite (IHl es) by lia; reflexivity).
Qed.

Lemma oembC_unit : forall o, oembC unit o = oemb o.
Proof. intros [e|]; [exact (embC_unit (size e) e (le_n _))|reflexivity]. Qed.

Lemma embS_unit : forall n x, ssize x <= n -> embS unit x = embs x.
Proof.
  induction n as [|n IH]; intros x Hn; [destruct x; cbn in Hn; lia|].
  destruct x as [e| |o| | |l|c th el|c b|b c|i c nx b|items|lb b|ty dx di]; cbn [ssize] in Hn; cbn [embS embs]; try reflexivity;
    rewrite ?oembC_unit, ?(fun e => embC_unit (size e) e (le_n _));
    repeat match goal with |- context [embS unit ?y] => rewrite (IH y) by lia end; try reflexivity.
  all: try (destruct el as [el|]; [rewrite (IH el) by lia|]; reflexivity).
  all: try (destruct items as [|y0 r0]; [reflexivity|];
    assert (E: map (embS unit) (y0 :: r0) = map embs (y0 :: r0)) by
      (apply map_ext_in; intros a Ha; apply IH; pose proof (StmtTrip.in_ssum (y0 :: r0) a Ha); lia);
    rewrite E; reflexivity).
Qed.

Section GP.
Variable C : Type.
Variable rp : bool.
Notation node := (value C).

(* ---- one function definition ---- *)
Definition fdC (vs: list str) (x: str) : node := VNode C_FuncDecl [VNone; tdx C vs x] None.
Definition embF (fd: fdef) : node :=
  let '(ty, f, items) := fd in
  VNode C_FuncDef [VNode C_Decl [VStr f; VList []; VList []; VList []; VList []; fdC (map snd ty) f; VNone; VNone] None; VNone;
                   embS C (SBlock items)] None.
Definition embP (p: list fdef) : node := VNode C_FileAST [VList (map embF p)] None.

Definition ftext (fd: fdef) : str :=
  let '(ty, f, items) := fd in
  join_str (s " ") (map snd ty) ++ s " " ++ f ++ s "()" ++ [10%N] ++ vis rp (SBlock items) 0%Z ++ [10%N].
Definition ptextP (p: list fdef) : str := concat_str (map ftext p).

Definition fcost (fd: fdef) : nat := let '(_, _, items) := fd in cost (SBlock items) + 8.

Lemma gen_fdx : forall f vs x st, x <> [] -> generate_type C rp (S (S (S f))) (fdC vs x) [] true st = GOk (join_str (s " ") vs ++ s " " ++ x ++ s "()", st).
Proof.
  intros f vs x st Hx. destruct x as [|x0 xr]; [congruence|].
  change (generate_type C rp (S (S (S f))) (fdC vs (x0 :: xr)) [] true st) with
    (gbind (join_strs C (s " ") (VList (map (fun v => VStr v) vs))) (fun ts0 =>
       gret (ts0 ++ s " " ++ ((x0 :: xr) ++ s "(" ++ [] ++ s ")"))) st).
  unfold gbind at 1. unfold join_strs, join_list. unfold gbind at 1. rewrite strs_of_strs. unfold gret. reflexivity.
Qed.

Lemma visit_funcdef_eq : forall f d b co, visit C rp (S f) (VNode C_FuncDef [d; VNone; b] co) =
  gbind (visit C rp f d) (fun decl => gbind (set_indent 0) (fun _ => gbind (visit C rp f b) (fun body => gret (decl ++ [10%N] ++ body ++ [10%N])))).
Proof. reflexivity. Qed.

Lemma visit_decl_plain : forall f x T st, visit C rp (S (S (S f))) (VNode C_Decl [VStr x; VList []; VList []; VList []; VList []; T; VNone; VNone] None) st =
  gbind (generate_type C rp f T [] true) (fun t => gret t) st.
Proof.
  intros f x T st.
  change (visit C rp (S (S (S f))) (VNode C_Decl [VStr x; VList []; VList []; VList []; VList []; T; VNone; VNone] None) st) with
    (gbind (gbind (gbind (generate_type C rp f T [] true) (fun t => gret ([] ++ [] ++ [] ++ t))) (fun x0 => gret (VStr x0))) (fun s0 =>
     gbind (gret s0) (fun s1 => gbind (gret s1) (fun s2 => as_str C s2))) st).
  unfold gbind. destruct (generate_type C rp f T [] true st) as [[t st']| |]; reflexivity.
Qed.

Lemma visit_fdef : forall ty f items, f <> [] -> swfl true items -> forall fuel lv, cost (SBlock items) + 8 <= fuel ->
  visit C rp fuel (embF (ty, f, items)) lv = GOk (ftext (ty, f, items), 0%Z).
Proof.
  intros ty f items Hf Hw fuel lv Hfu. do 7 (destruct fuel as [|fuel]; [lia|]). cbn [embF ftext].
  rewrite visit_funcdef_eq. unfold gbind at 1. rewrite visit_decl_plain. unfold gbind at 1. rewrite (gen_fdx fuel (map snd ty) f lv Hf). unfold gret at 1.
  unfold gbind at 1. unfold set_indent at 1.
  assert (HB: visit C rp (S (S (S (S (S (S fuel)))))) (embS C (SBlock items)) 0%Z = GOk (vis rp (SBlock items) 0%Z, 0%Z)).
  { apply (vis_prints C rp true (ssize (SBlock items)) (SBlock items) (le_n _)); [exact Hw|lia]. }
  unfold gbind at 1. rewrite HB. unfold gret. rewrite <- !app_assoc. reflexivity.
Qed.

Definition fgen_ok (fd: fdef) : Prop := let '(ty, f, items) := fd in f <> [] /\ swfl true items.

Lemma visit_file : forall p, Forall fgen_ok p -> forall fuel lv, list_sum (map fcost p) + 2 <= fuel -> (p <> [] \/ lv = 0%Z) ->
  visit C rp fuel (embP p) lv = GOk (ptextP p, 0%Z).
Proof.
  intros p Hp fuel lv Hfu Hlv. destruct fuel as [|fuel]; [lia|]. unfold embP.
  change (visit C rp (S fuel) (VNode C_FileAST [VList (map embF p)] None) lv) with
    (gbind (mapM (fun e => gbind (visit C rp fuel e) (fun x =>
                           if is_c C C_FuncDef e then gret x
                           else if is_c C C_Pragma e then gret (x ++ [10%N])
                           else gret (x ++ s ";" ++ [10%N]))) (map embF p)) (fun xs => gret (concat_str xs)) lv).
  assert (HM: forall q L, Forall fgen_ok q -> list_sum (map fcost q) + 1 <= fuel -> (q <> [] \/ L = 0%Z) ->
            mapM (fun e => gbind (visit C rp fuel e) (fun x =>
                           if is_c C C_FuncDef e then gret x
                           else if is_c C C_Pragma e then gret (x ++ [10%N])
                           else gret (x ++ s ";" ++ [10%N]))) (map embF q) L = GOk (map ftext q, 0%Z)).
  { induction q as [|[[ty f] items] q IH]; intros L Hq Hc HL.
    - destruct HL as [HL|HL]; [congruence|]. subst L. reflexivity.
    - inversion Hq as [|x y Hfw Hq']; subst x y. cbn [fgen_ok] in Hfw. destruct Hfw as [Hf Hw]. cbn [map mapM]. change (list_sum (map fcost ((ty, f, items) :: q))) with (fcost (ty, f, items) + list_sum (map fcost q)) in Hc. cbn [fcost] in Hc.
      unfold gbind at 1. unfold gbind at 1. assert (HX: visit C rp fuel (embF (ty, f, items)) L = GOk (ftext (ty, f, items), 0%Z)) by (apply visit_fdef; [exact Hf|exact Hw|lia]). rewrite HX.
      change (is_c C C_FuncDef (embF (ty, f, items))) with true. cbv iota. unfold gret at 1.
      unfold gbind at 1. rewrite (IH 0%Z Hq') by (try lia; right; reflexivity). reflexivity. }
  unfold gbind at 1. rewrite (HM p lv Hp) by (try lia; exact Hlv). reflexivity.
Qed.
End GP.

(* ---- the text and the tokens ---- *)
Lemma ftext_tokens : forall rp ty f items, despace2 f = f -> Forall (fun kv : kind * str => despace2 (snd kv) = snd kv) ty ->
  sexprs (eok rp) (SBlock items) ->
  despace2 (ftext rp (ty, f, items)) = spell (fn_toks (fd_items rp (ty, f, items))).
Proof.
  intros rp ty f items Hf Hty Hit. cbn [ftext fd_items fn_toks]. unfold ftoks.
  rewrite spell_app, !spell_cons, spell_app, spell_cons. rewrite !despace2_app, (despace2_join ty Hty), Hf.
  change (despace2 (s " ")) with (@nil N). change (despace2 [10%N]) with (@nil N). change (despace2 (s "()")) with (s "()"). cbn [app]. rewrite <- ?app_assoc.
  pose proof (vis_tokens rp (ssize (SBlock items)) (SBlock items) (le_n _) Hit 0%Z) as HV. unfold vt in HV. cbn [isexpr stoks] in HV.
  unfold kw in HV. rewrite spell_cons, spell_app in HV.
  change (spell [(K_RBRACE, s2l "}")]) with (s2l "}" ++ []) in HV. rewrite app_nil_r in HV.
  rewrite HV, map_map. cbn [fst]. change (spell []) with (@nil N). rewrite !app_nil_r. reflexivity.
Qed.

Definition ftok_ok (rp: bool) (fd: fdef) : Prop :=
  let '(ty, f, items) := fd in despace2 f = f /\ Forall (fun kv : kind * str => despace2 (snd kv) = snd kv) ty /\ sexprs (eok rp) (SBlock items).

Theorem ptext_tokens : forall rp p, Forall (ftok_ok rp) p -> despace2 (ptextP rp p) = spell (prog_toks rp p).
Proof.
  intros rp p. induction p as [|[[ty f] items] p IH]; intros H; [reflexivity|]. inversion H as [|x y Hfti H']; subst x y. cbn [ftok_ok] in Hfti. destruct Hfti as (Hf & Hty & Hit).
  unfold ptextP, prog_toks in *. cbn [map concat_str concat]. rewrite despace2_app, spell_app, (ftext_tokens rp ty f items Hf Hty Hit), (IH H'). reflexivity.
Qed.

(* ---- both sides on the same tree ---- *)
Lemma embF_unit : forall rp fd, embF unit fd = fn_emb (fd_items rp fd).
Proof.
  intros rp [[ty f] items]. cbn [embF fd_items fn_emb]. unfold fembed, fdC, tdx. rewrite (embS_unit (ssize (SBlock items)) (SBlock items) (le_n _)).
  cbn [embs]. destruct items as [|y0 r0]; [reflexivity|]. cbn [map fst snd]. rewrite !map_map. cbn [fst snd]. reflexivity.
Qed.
Lemma embP_unit : forall rp p, embP unit p = prog_emb rp p.
Proof. intros rp p. unfold embP, prog_emb. f_equal. f_equal. f_equal. apply map_ext. intros fd. apply embF_unit. Qed.

(* parse . generate = id for whole programs, on the two models, token level: the generator model prints [ptextP rp p] from the tree
   [prog_emb rp p]; that text, blanks and newlines removed, is the concatenation of the spellings of [prog_toks rp p]; and whenever the lexer
   delivers tokens with these kinds and spellings and then the end of the input, the parser model's parse_tokens returns the tree the text
   was printed from. *)
Theorem program_roundtrip : forall (P: Type) rp (p: list fdef), p <> [] -> Forall fwf p -> Forall fgen_ok p -> Forall (ftok_ok rp) p ->
  (forall fuel, list_sum (map fcost p) + 2 <= fuel -> visit unit rp fuel (prog_emb rp p) 0%Z = GOk (ptextP rp p, 0%Z)) /\
  despace2 (ptextP rp p) = spell (prog_toks rp p) /\
  (forall items le eof file, RoundTrip.Spell P le (prog_toks rp p) -> StreamLib.UpR P [[]] items le -> length items = length le ->
   exists f0 N s', (forall fu, f0 <= fu -> ParserMain.parse_tokens P fu (ParserMain.init_pstate P items eof file) = ParserBase.Ok (N, s')) /\
     RoundTrip.strip N = prog_emb rp p).
Proof.
  intros P rp p Hne Hw Hg Ht. split; [|split].
  - intros fuel Hf. rewrite <- (embP_unit rp p). apply (visit_file unit rp p Hg fuel 0%Z Hf). left. exact Hne.
  - exact (ptext_tokens rp p Ht).
  - intros items le eof file HS HU Hl. destruct (parse_of_generated_program P rp p Hw items le eof file HS HU Hl) as [f0 [N [s' [H [HN _]]]]].
    exists f0, N, s'. split; [exact H|exact HN].
Qed.

(* the example program of FuncTrip meets the hypotheses, and the generator model prints this text for it *)
Example program_roundtrip_example :
  ex_prog <> [] /\ Forall fwf ex_prog /\ Forall fgen_ok ex_prog /\ Forall (ftok_ok false) ex_prog /\
  visit unit false 200 (prog_emb false ex_prog) 0%Z = GOk (s2l "int main()
{
  int x = 1;
  unsigned long y;
  y = x + 2;
  {
    char c = (x, y);
  }
  return y;
}

void g()
{
}

", 0%Z).
Proof.
  pose proof (proj1 program_example) as Hw. inversion Hw as [|x1 y1 Hw1 Hw']; subst. inversion Hw' as [|x2 y2 Hw2 _]; subst.
  split; [discriminate|]. split; [exact (proj1 program_example)|]. split; [|split; [|vm_compute; reflexivity]].
  - constructor; [split; [discriminate|exact (proj2 (proj2 Hw1))]|constructor; [split; [discriminate|exact (proj2 (proj2 Hw2))]|constructor]].
  - unfold ex_prog. repeat (first [ split | (vm_compute; reflexivity) | discriminate | constructor ]).
Qed.

(* ---- translation units that mix object declarations and function definitions ---- *)
Section GU.
Variable C : Type.
Variable rp : bool.
Definition embE (d: edecl) : value C :=
  match d with
  | EFun ty f items => embF C (ty, f, items)
  | EObj ty x i => embS C (SDecl ty x i)
  end.
Definition embU (u: list edecl) : value C := VNode C_FileAST [VList (map embE u)] None.
Definition etext (d: edecl) : str :=
  match d with
  | EFun ty f items => ftext rp (ty, f, items)
  | EObj ty x i => vis rp (SDecl ty x i) 0%Z ++ s ";" ++ [10%N]
  end.
Definition utext (u: list edecl) : str := concat_str (map etext u).
Definition ecost (d: edecl) : nat := match d with EFun ty f items => fcost (ty, f, items) | EObj _ _ i => 3 * osize i + 8 end.
Definition egen_ok (d: edecl) : Prop :=
  match d with EFun ty f items => fgen_ok (ty, f, items) | EObj ty x i => x <> [] /\ owf i end.

Lemma visit_unit : forall u, Forall egen_ok u -> forall fuel lv, list_sum (map ecost u) + 2 <= fuel -> lv = 0%Z ->
  visit C rp fuel (embU u) lv = GOk (utext u, 0%Z).
Proof.
  intros u Hu fuel lv Hfu ->. destruct fuel as [|fuel]; [lia|]. unfold embU.
  change (visit C rp (S fuel) (VNode C_FileAST [VList (map embE u)] None) 0%Z) with
    (gbind (mapM (fun e => gbind (visit C rp fuel e) (fun x =>
                           if is_c C C_FuncDef e then gret x
                           else if is_c C C_Pragma e then gret (x ++ [10%N])
                           else gret (x ++ s ";" ++ [10%N]))) (map embE u)) (fun xs => gret (concat_str xs)) 0%Z).
  assert (HM: forall q, Forall egen_ok q -> list_sum (map ecost q) + 1 <= fuel ->
            mapM (fun e => gbind (visit C rp fuel e) (fun x =>
                           if is_c C C_FuncDef e then gret x
                           else if is_c C C_Pragma e then gret (x ++ [10%N])
                           else gret (x ++ s ";" ++ [10%N]))) (map embE q) 0%Z = GOk (map etext q, 0%Z)).
  { induction q as [|d q IH]; intros Hq Hc; [reflexivity|].
    inversion Hq as [|x y Hd Hq']; subst x y. change (list_sum (map ecost (d :: q))) with (ecost d + list_sum (map ecost q)) in Hc.
    cbn [map mapM]. unfold gbind at 1. unfold gbind at 1. destruct d as [ty f items|ty x i]; cbn [embE etext ecost egen_ok] in *.
    - destruct Hd as [Hf Hw]. cbn [fcost] in Hc.
      assert (HX: visit C rp fuel (embF C (ty, f, items)) 0%Z = GOk (ftext rp (ty, f, items), 0%Z)) by (apply visit_fdef; [exact Hf|exact Hw|lia]).
      rewrite HX. change (is_c C C_FuncDef (embF C (ty, f, items))) with true. cbv iota. unfold gret at 1.
      unfold gbind at 1. rewrite (IH Hq') by lia. reflexivity.
    - destruct Hd as [Hx Hi].
      rewrite (visit_declS C rp ty x i Hx Hi fuel 0%Z) by lia.
      change (is_c C C_FuncDef (embS C (SDecl ty x i))) with false. change (is_c C C_Pragma (embS C (SDecl ty x i))) with false. cbv iota. unfold gret at 1.
      unfold gbind at 1. rewrite (IH Hq') by lia. reflexivity. }
  unfold gbind at 1. rewrite (HM u Hu) by lia. reflexivity.
Qed.
End GU.

Definition etok_ok (rp: bool) (d: edecl) : Prop :=
  match d with
  | EFun ty f items => ftok_ok rp (ty, f, items)
  | EObj ty x i => sexprs (eok rp) (SDecl ty x i)
  end.

Lemma etext_tokens : forall rp d, etok_ok rp d -> despace2 (etext rp d) = spell (etoks rp d).
Proof.
  intros rp [ty f items|ty x i] H; cbn [etok_ok etext etoks] in *.
  - destruct H as (Hf & Hty & Hit). exact (ftext_tokens rp ty f items Hf Hty Hit).
  - pose proof (vis_tokens rp (ssize (SDecl ty x i)) (SDecl ty x i) (le_n _) H 0%Z) as HV. unfold vt in HV. cbn [isexpr stoks] in HV.
    rewrite <- HV. rewrite !despace2_app. change (despace2 [10%N]) with (@nil N). rewrite app_nil_r. reflexivity.
Qed.

Theorem utext_tokens : forall rp u, Forall (etok_ok rp) u -> despace2 (utext rp u) = spell (unit_toks rp u).
Proof.
  intros rp u. induction u as [|d u IH]; intros H; [reflexivity|]. inversion H as [|x y Hd H']; subst x y.
  unfold utext, unit_toks in *. cbn [map concat_str concat]. rewrite despace2_app, spell_app, (etext_tokens rp d Hd), (IH H'). reflexivity.
Qed.

Lemma embE_unit : forall rp d, embE unit d = eemb rp d.
Proof.
  intros rp [ty f items|ty x i]; cbn [embE eemb].
  - exact (embF_unit rp (ty, f, items)).
  - exact (embS_unit 1 (SDecl ty x i) (le_n _)).
Qed.
Lemma embU_unit : forall rp u, embU unit u = unit_emb rp u.
Proof. intros rp u. unfold embU, unit_emb. f_equal. f_equal. f_equal. apply map_ext. intros d. apply embE_unit. Qed.

(* parse . generate = id, token level, for translation units of object declarations and function definitions, on the two models *)
Theorem unit_roundtrip : forall (P: Type) rp (u: list edecl), Forall ewf u -> Forall egen_ok u -> Forall (etok_ok rp) u ->
  (forall fuel, list_sum (map ecost u) + 2 <= fuel -> visit unit rp fuel (unit_emb rp u) 0%Z = GOk (utext rp u, 0%Z)) /\
  despace2 (utext rp u) = spell (unit_toks rp u) /\
  (forall items le eof file, RoundTrip.Spell P le (unit_toks rp u) -> StreamLib.UpR P [[]] items le -> length items = length le ->
   exists f0 N s', (forall fu, f0 <= fu -> ParserMain.parse_tokens P fu (ParserMain.init_pstate P items eof file) = ParserBase.Ok (N, s')) /\
     RoundTrip.strip N = unit_emb rp u).
Proof.
  intros P rp u Hw Hg Ht. split; [|split].
  - intros fuel Hf. rewrite <- (embU_unit rp u). exact (visit_unit unit rp u Hg fuel 0%Z Hf eq_refl).
  - exact (utext_tokens rp u Ht).
  - intros items le eof file HS HU Hl. destruct (parse_of_generated_unit P rp u Hw items le eof file HS HU Hl) as [f0 [N [s' [H [HN _]]]]].
    exists f0, N, s'. split; [exact H|exact HN].
Qed.

Example unit_roundtrip_example :
  visit unit false 200 (unit_emb false ex_unit) 0%Z = GOk (s2l "int counter = 0;
unsigned long limit;
int next()
{
  counter = counter + 1;
  return counter;
}

char flag = (counter, 1);
void g()
{
}

", 0%Z).
Proof. vm_compute. reflexivity. Qed.
