(* C07 on the whole-parser model, token level: parse . generate = id for every tree of binary operators
   over identifiers, of any size and shape, both settings of reduce_parentheses.

   kv rp t is the token sequence (kind, spelling) of the text CGenerator prints for t (GenBinop.print;
   [print_is_text]: the text is these spellings with a blank on each side of an operator).  Whenever
   the parser model (ParserMain.p_expression: the complete ladder expression -> assignment ->
   conditional -> binary climb -> cast -> unary -> postfix -> primary, with its speculative
   "( type-name )" attempts and mark / reset) finds those tokens next in its input, followed by a
   token that cannot continue an expression, it returns - for all sufficiently large fuel - exactly
   the tree the text was printed from (coordinates aside), having consumed exactly those tokens. *)
From Coq Require Import String.
From Coq Require Import List NArith Bool Arith Lia.
Import ListNotations.
From PV Require Import Regex Base AstDefs AstSpec AstImpl GenTables NodeModel Generator ClimbProofs ClimbComplete GenParen GenBinop.
From PV Require Import LexTables ParserTables PyRepr ParserBase ParserDecl ParserMain LexerProofs TableProofs.
From PV Require Import BinaryRefine ExprShape UnaryShape CoordProofs StreamLib.
Open Scope nat_scope.

(* coordinates erased *)
Fixpoint strip {A} (v: value A) : value unit :=
  match v with
  | VNone => VNone
  | VStr x => VStr x
  | VList l => VList (map strip l)
  | VNode c fs _ => VNode c (map strip fs) None
  end.

Lemma strip_node_inv : forall A (v: value A) c fs co, strip v = VNode c fs co -> exists fs' co', v = VNode c fs' co'.
Proof. intros A v c fs co H. destruct v; try discriminate. cbn in H. injection H as <- _ _. eexists. eexists. reflexivity. Qed.

(* ---- operator kinds ---- *)
Definition opk (o: str) : kind := match punct_kind_l o with Some k => k | None => K_ID end.

(* a token that cannot continue a postfix-expression *)
Definition quiet (k: kind) : bool :=
  negb (kind_in k [K_LBRACKET; K_LPAREN; K_PERIOD; K_ARROW; K_PLUSPLUS; K_MINUSMINUS; K_LBRACE; K_RBRACE]).
(* a token that cannot continue a binary expression *)
Definition bstop (k: kind) : bool := quiet k && match prec_of k with None => true | Some _ => false end.
(* a token that cannot continue an expression *)
Definition estop (k: kind) : bool :=
  bstop k && negb (kind_eqb k K_CONDOP) && negb (kind_in k tbl_ASSIGNMENT_OPS) && negb (kind_eqb k K_COMMA).

Lemma assoc_str_In : forall A (x: str) (l: list (str * A)) v, assoc_str x l = Some v -> In (x, v) l.
Proof.
  intros A x l v. induction l as [|[k w] l IH]; cbn [assoc_str]; [discriminate|].
  destruct (str_eqb x k) eqn:E.
  - intros H. injection H as <-. apply str_eqb_eq in E. subst k. left. reflexivity.
  - intros H. right. apply IH. exact H.
Qed.

Definition op_entry_ok (e: str * nat) : bool :=
  match punct_kind_l (fst e) with
  | Some k => match prec_of k with Some p => Nat.eqb p (snd e) | None => false end && quiet k
  | None => false
  end.
Lemma op_entries_ok : forallb op_entry_ok gen_precedence_map = true.
Proof. vm_compute. reflexivity. Qed.

Lemma opk_facts : forall o, prec_lookup_s o <> None -> prec_of (opk o) = Some (gprec o) /\ quiet (opk o) = true.
Proof.
  intros o H. unfold gprec. destruct (prec_lookup_s o) as [p|] eqn:E; [|congruence].
  unfold prec_lookup_s in E. apply assoc_str_In in E.
  pose proof (proj1 (forallb_forall _ _) op_entries_ok _ E) as Hk. unfold op_entry_ok in Hk. cbn [fst snd] in Hk.
  unfold opk. destruct (punct_kind_l o) as [k|]; [|discriminate].
  destruct (prec_of k) as [q|]; [|discriminate]. apply andb_true_iff in Hk. destruct Hk as [Hq Hquiet].
  apply Nat.eqb_eq in Hq. subst q. split; [reflexivity|exact Hquiet].
Qed.

(* ---- kind side conditions of the ladder, as booleans that compute ---- *)
Definition unary_pass (k: kind) : bool :=
  negb (okind_is (Some k) K_PLUSPLUS || okind_is (Some k) K_MINUSMINUS) &&
  negb (okind_in (Some k) [K_AND; K_TIMES; K_PLUS; K_MINUS; K_NOT; K_LNOT]) &&
  negb (okind_is (Some k) K_SIZEOF) && negb (okind_is (Some k) K_uALIGNOF).
Definition primary_paren (k: kind) : bool :=
  negb (okind_is (Some k) K_ID) &&
  negb (okind_in (Some k) tbl_INT_CONST || okind_in (Some k) tbl_FLOAT_CONST || okind_in (Some k) tbl_CHAR_CONST) &&
  negb (okind_in (Some k) tbl_STRING_LITERAL) && negb (okind_in (Some k) tbl_WSTR_LITERAL) && okind_is (Some k) K_LPAREN.

Lemma quiet_facts : forall k, quiet k = true ->
  kind_eqb k K_LBRACKET = false /\ kind_eqb k K_LPAREN = false /\
  (okind_is (Some k) K_PERIOD || okind_is (Some k) K_ARROW) = false /\
  (okind_is (Some k) K_PLUSPLUS || okind_is (Some k) K_MINUSMINUS) = false.
Proof. intros k H. destruct k; vm_compute in H; try discriminate H; vm_compute; repeat split. Qed.

Lemma bstop_facts : forall k, bstop k = true -> quiet k = true /\ prec_of k = None.
Proof.
  intros k H. unfold bstop in H. apply andb_true_iff in H. destruct H as [H1 H2]. split; [exact H1|].
  destruct (prec_of k); [discriminate|reflexivity].
Qed.

Lemma estop_facts : forall k, estop k = true ->
  bstop k = true /\ kind_eqb k K_CONDOP = false /\ kind_in k tbl_ASSIGNMENT_OPS = false /\ kind_eqb k K_COMMA = false.
Proof.
  intros k H. unfold estop in H. do 3 (apply andb_true_iff in H; destruct H as [H ?]).
  repeat match goal with X: negb _ = true |- _ => apply negb_true_iff in X end. repeat split; assumption.
Qed.

Section RT.
Variable P : Type.
Variable rp : bool.
Notation gt := (GenParen.gt str str).
Notation pstate := (ParserBase.pstate P).
Notation tok := (ParserBase.tok P).
Notation pnode := (ParserBase.node P).
Notation Up := (Up P).

Definition Spell (l: list tok) (kvs: list (kind * str)) : Prop := map (fun t => (tk t, tv t)) l = kvs.

Lemma Spell_app_inv : forall l x y, Spell l (x ++ y) -> exists l1 l2, l = l1 ++ l2 /\ Spell l1 x /\ Spell l2 y.
Proof. intros l x y H. unfold Spell in *. apply map_eq_app in H. exact H. Qed.
Lemma Spell_cons_inv : forall l k v y, Spell l ((k, v) :: y) -> exists t l2, l = t :: l2 /\ tk t = k /\ tv t = v /\ Spell l2 y.
Proof.
  intros l k v y H. unfold Spell in *. destruct l as [|t l2]; [discriminate|]. cbn [map] in H. injection H as H1 H2 H3.
  exists t, l2. repeat split; assumption.
Qed.
Lemma Spell_nil_inv : forall l, Spell l [] -> l = [].
Proof. intros l H. unfold Spell in H. destruct l; [reflexivity|discriminate]. Qed.

(* ---- "( type-name )" attempts that give up ---- *)
Lemma tptn_eq : forall f, try_paren_type_name P (S f) =
  bind P (mark P) (fun mk => bind P (accept P K_LPAREN) (fun lp =>
  match lp with
  | None => ret P None
  | Some lpt =>
    bind P (starts_declaration P) (fun sd =>
    if negb sd then bind P (reset P mk) (fun _ => ret P None)
    else bind P (p_type_name P f) (fun typ => bind P (accept P K_RPAREN) (fun rpn =>
         match rpn with
         | None => bind P (reset P mk) (fun _ => ret P None)
         | Some _ => ret P (Some (typ, mk, lpt))
         end)))
  end)).
Proof. reflexivity. Qed.

Lemma tptn_no_paren : forall (s: pstate) t l, Up s (t :: l) -> kind_eqb (tk t) K_LPAREN = false ->
  exists s1, (forall f, try_paren_type_name P (S f) s = Ok (None, s1)) /\ Up s1 (t :: l).
Proof.
  intros s t l HU Hk. destruct (accept_miss P s t l K_LPAREN HU Hk) as [s1 [Ha [HU1 _]]].
  exists s1. split; [|exact HU1]. intros f. rewrite tptn_eq. unfold bind at 1. rewrite mark_eq. unfold bind at 1. rewrite Ha. reflexivity.
Qed.

Lemma tptn_not_type : forall (s: pstate) lp x l, Up s (lp :: x :: l) -> kind_eqb (tk lp) K_LPAREN = true ->
  kind_in (tk x) tbl_DECL_START = false ->
  exists s1, (forall f, try_paren_type_name P (S f) s = Ok (None, s1)) /\ Up s1 (lp :: x :: l).
Proof.
  intros s lp x l HU Hk Hx. destruct (accept_hit P s lp (x :: l) K_LPAREN HU Hk) as [s2 [Ha [HU2 HA]]].
  destruct (peek_kind_up P s2 x l HU2) as [s3 [Hp [HU3 HS]]].
  destruct (Adv_Same P _ _ _ _ HA HS) as [Hb [Hi _]].
  destruct (reset_one P s3 lp (before P s) (idx P s) (x :: l) Hb Hi HU3) as [s4 [Hr [HU4 _]]].
  exists s4. split; [|exact HU4]. intros f. rewrite tptn_eq. unfold bind at 1. rewrite mark_eq. unfold bind at 1. rewrite Ha.
  unfold bind at 1. unfold starts_declaration. unfold bind at 1. rewrite Hp. unfold ret at 1. cbn [okind_in]. rewrite Hx. cbn [negb].
  unfold bind at 1. rewrite Hr. reflexivity.
Qed.

(* ---- the postfix loop stops at a quiet token ---- *)
Lemma suffixes_stop : forall (s: pstate) n l, Up s (n :: l) -> quiet (tk n) = true ->
  exists s1, (forall f e, p_postfix_suffixes P (S f) e s = Ok (e, s1)) /\ Up s1 (n :: l).
Proof.
  intros s n l HU Hq. destruct (quiet_facts _ Hq) as [H1 [H2 [H3 H4]]].
  destruct (accept_miss P s n l K_LBRACKET HU H1) as [s1 [Ha1 [HU1 _]]].
  destruct (accept_miss P s1 n l K_LPAREN HU1 H2) as [s2 [Ha2 [HU2 _]]].
  destruct (peek_kind_up P s2 n l HU2) as [s3 [Hp [HU3 _]]].
  exists s3. split; [|exact HU3]. intros f e. rewrite (UnaryShape.suffix_eq P). unfold bind at 1. rewrite Ha1. unfold bind at 1. rewrite Ha2.
  unfold bind at 1. rewrite Hp. rewrite H3, H4. reflexivity.
Qed.

(* ---- an identifier operand ---- *)
Lemma unary_pass_eq : forall f k (s s1: pstate), peek_kind P s = Ok (Some k, s1) -> unary_pass k = true ->
  p_unary_expression P (S f) s = p_postfix_expression P f s1.
Proof.
  intros f k s s1 Hp Hpass. rewrite (unary_eq P). unfold bind at 1. rewrite Hp.
  unfold unary_pass in Hpass. do 3 (apply andb_true_iff in Hpass; destruct Hpass as [Hpass ?]).
  repeat match goal with X: negb _ = true |- _ => apply negb_true_iff in X; rewrite X end. reflexivity.
Qed.

Lemma leaf_cast : forall (s: pstate) t n l, Up s (t :: n :: l) -> tk t = K_ID -> quiet (tk n) = true ->
  exists N s', (forall f, 5 <= f -> p_cast_expression P f s = Ok (N, s')) /\ Up s' (n :: l) /\ strip N = VNode C_ID [VStr (tv t)] None.
Proof.
  intros s t n l HU Hk Hq.
  assert (HnoLP: kind_eqb (tk t) K_LPAREN = false) by (rewrite Hk; reflexivity).
  destruct (tptn_no_paren s t (n :: l) HU HnoLP) as [s1 [H1 HU1]].
  destruct (peek_kind_up P s1 t (n :: l) HU1) as [s2 [H2 [HU2 _]]].
  destruct (tptn_no_paren s2 t (n :: l) HU2 HnoLP) as [s3 [H3 HU3]].
  destruct (peek_kind_up P s3 t (n :: l) HU3) as [s4 [H4 [HU4 _]]].
  assert (HisID: kind_eqb (tk t) K_ID = true) by (rewrite Hk; reflexivity).
  destruct (expect_up P s4 t (n :: l) K_ID HU4 HisID) as [s5 [H5 [HU5 _]]].
  destruct (suffixes_stop s5 n l HU5 Hq) as [s6 [H6 HU6]].
  exists (mkN P C_ID [VStr (tv t)] (Some (mkCoord P (curfile P s5) (tp t)))), s6. split; [|split; [exact HU6|reflexivity]].
  intros f Hf. destruct f as [|[|[|[|[|f]]]]]; try lia.
  rewrite (cast_eq P). unfold bind at 1. rewrite H1.
  assert (Hpass: unary_pass (tk t) = true) by (rewrite Hk; reflexivity).
  rewrite (unary_pass_eq _ _ _ _ H2 Hpass).
  rewrite (postfix_eq P). unfold bind at 1. rewrite H3. unfold bind at 1. unfold complit_of at 1. unfold ret at 1.
  unfold bind at 1. rewrite (primary_eq P). unfold bind at 1. rewrite H4. cbn [okind_is]. rewrite HisID.
  unfold p_identifier. unfold bind at 1. rewrite H5. unfold bind at 1. unfold tcoord, tok_coord, cur_file.
  unfold bind at 1. unfold bind at 1. unfold bind at 1. unfold get at 1. unfold ret at 1. unfold ret at 1. unfold ret at 1. unfold ret at 1.
  apply H6.
Qed.

(* ---- a parenthesised operand ---- *)
Lemma paren_cast : forall X (lp rpt x n: tok) le l,
  kind_eqb (tk lp) K_LPAREN = true -> kind_eqb (tk rpt) K_RPAREN = true ->
  kind_in (tk x) tbl_DECL_START = false -> quiet (tk n) = true ->
  (forall s, Up s (x :: le ++ rpt :: n :: l) ->
     exists f0 N s', (forall f, f0 <= f -> p_expression P f s = Ok (N, s')) /\ Up s' (rpt :: n :: l) /\ strip N = X) ->
  forall s, Up s (lp :: x :: le ++ rpt :: n :: l) ->
  exists f0 N s', (forall f, f0 <= f -> p_cast_expression P f s = Ok (N, s')) /\ Up s' (n :: l) /\ strip N = X.
Proof.
  intros X lp rpt x n le l Hlp Hrp Hx Hq IH s HU.
  destruct (tptn_not_type s lp x _ HU Hlp Hx) as [s1 [H1 HU1]].
  destruct (peek_kind_up P s1 lp _ HU1) as [s2 [H2 [HU2 _]]].
  destruct (tptn_not_type s2 lp x _ HU2 Hlp Hx) as [s3 [H3 HU3]].
  destruct (peek_kind_up P s3 lp _ HU3) as [s4 [H4 [HU4 _]]].
  destruct (advance_up P s4 lp _ HU4) as [s5 [H5 [HU5 _]]].
  destruct (IH s5 HU5) as [f0 [N [s6 [H6 [HU6 HN]]]]].
  destruct (expect_up P s6 rpt _ K_RPAREN HU6 Hrp) as [s7 [H7 [HU7 _]]].
  destruct (suffixes_stop s7 n l HU7 Hq) as [s8 [H8 HU8]].
  exists (f0 + 5), N, s8. split; [|split; [exact HU8|exact HN]].
  intros f Hf. destruct f as [|[|[|[|f]]]]; try lia.
  rewrite (cast_eq P). unfold bind at 1. rewrite H1.
  assert (Hk: tk lp = K_LPAREN). { clear -Hlp. destruct (tk lp); vm_compute in Hlp; try discriminate Hlp; reflexivity. }
  assert (Hpass: unary_pass (tk lp) = true) by (rewrite Hk; reflexivity).
  rewrite (unary_pass_eq _ _ _ _ H2 Hpass).
  rewrite (postfix_eq P). unfold bind at 1. rewrite H3. unfold bind at 1. unfold complit_of at 1. unfold ret at 1.
  unfold bind at 1. rewrite (primary_eq P). unfold bind at 1. rewrite H4.
  assert (Hpp: primary_paren (tk lp) = true) by (rewrite Hk; reflexivity).
  unfold primary_paren in Hpp. do 4 (apply andb_true_iff in Hpp; destruct Hpp as [Hpp ?]).
  repeat match goal with X: negb _ = true |- _ => apply negb_true_iff in X; rewrite X end.
  match goal with X: okind_is _ K_LPAREN = true |- _ => rewrite X end.
  unfold bind at 1. rewrite H5. unfold bind at 1. rewrite (H6 f) by lia. unfold bind at 1. rewrite H7. unfold ret at 1.
  destruct f as [|f]; [lia|]. apply H8.
Qed.

(* ---- the same steps with their cost: token reads (ticks) against tokens consumed (idx) ---- *)
Lemma tptn_no_paren_c : forall (s: pstate) t l, Up s (t :: l) -> kind_eqb (tk t) K_LPAREN = false ->
  exists s1, (forall f, try_paren_type_name P (S f) s = Ok (None, s1)) /\ Up s1 (t :: l) /\ Same P s s1.
Proof.
  intros s t l HU Hk. destruct (accept_miss P s t l K_LPAREN HU Hk) as [s1 [Ha [HU1 HS]]].
  exists s1. split; [|split; [exact HU1|exact HS]]. intros f. rewrite tptn_eq. unfold bind at 1. rewrite mark_eq. unfold bind at 1. rewrite Ha. reflexivity.
Qed.

Lemma tptn_not_type_c : forall (s: pstate) lp x l, Up s (lp :: x :: l) -> kind_eqb (tk lp) K_LPAREN = true ->
  kind_in (tk x) tbl_DECL_START = false ->
  exists s1, (forall f, try_paren_type_name P (S f) s = Ok (None, s1)) /\ Up s1 (lp :: x :: l) /\
             idx P s1 = idx P s /\ ticks P s1 = (ticks P s + 1)%N /\ SC P s s1.
Proof.
  intros s lp x l HU Hk Hx. destruct (accept_hit P s lp (x :: l) K_LPAREN HU Hk) as [s2 [Ha [HU2 HA]]].
  destruct (peek_kind_up P s2 x l HU2) as [s3 [Hp [HU3 HS]]].
  destruct (Adv_Same P _ _ _ _ HA HS) as [Hb [Hi [Ht Hsc]]].
  destruct (reset_one P s3 lp (before P s) (idx P s) (x :: l) Hb Hi HU3) as [s4 [Hr [HU4 [_ [Hi4 [Ht4 Hsc4]]]]]].
  exists s4. split; [|split; [exact HU4|split; [exact Hi4|split; [congruence|exact (SC_trans P _ _ _ Hsc Hsc4)]]]]. intros f. rewrite tptn_eq. unfold bind at 1. rewrite mark_eq. unfold bind at 1. rewrite Ha.
  unfold bind at 1. unfold starts_declaration. unfold bind at 1. rewrite Hp. unfold ret at 1. cbn [okind_in]. rewrite Hx. cbn [negb].
  unfold bind at 1. rewrite Hr. reflexivity.
Qed.

Lemma tptn_not_type_cost : forall (s: pstate) lp x l, Up s (lp :: x :: l) -> kind_eqb (tk lp) K_LPAREN = true ->
  kind_in (tk x) tbl_DECL_START = false ->
  exists s1, (forall f, try_paren_type_name P (S f) s = Ok (None, s1)) /\ Up s1 (lp :: x :: l) /\
             idx P s1 = idx P s /\ ticks P s1 = (ticks P s + 1)%N.
Proof.
  intros s lp x l HU Hk Hx. destruct (tptn_not_type_c s lp x l HU Hk Hx) as [s1 [H1 [H2 [H3 [H4 _]]]]].
  exists s1. split; [exact H1|split; [exact H2|split; [exact H3|exact H4]]].
Qed.

Lemma suffixes_stop_c : forall (s: pstate) n l, Up s (n :: l) -> quiet (tk n) = true ->
  exists s1, (forall f e, p_postfix_suffixes P (S f) e s = Ok (e, s1)) /\ Up s1 (n :: l) /\ Same P s s1.
Proof.
  intros s n l HU Hq. destruct (quiet_facts _ Hq) as [H1 [H2 [H3 H4]]].
  destruct (accept_miss P s n l K_LBRACKET HU H1) as [s1 [Ha1 [HU1 HS1]]].
  destruct (accept_miss P s1 n l K_LPAREN HU1 H2) as [s2 [Ha2 [HU2 HS2]]].
  destruct (peek_kind_up P s2 n l HU2) as [s3 [Hp [HU3 HS3]]].
  exists s3. split; [|split; [exact HU3|exact (Same_trans P _ _ _ (Same_trans P _ _ _ HS1 HS2) HS3)]].
  intros f e. rewrite (UnaryShape.suffix_eq P). unfold bind at 1. rewrite Ha1. unfold bind at 1. rewrite Ha2.
  unfold bind at 1. rewrite Hp. rewrite H3, H4. reflexivity.
Qed.

Lemma paren_cast_c : forall X (lp rpt x n: tok) le l,
  kind_eqb (tk lp) K_LPAREN = true -> kind_eqb (tk rpt) K_RPAREN = true ->
  kind_in (tk x) tbl_DECL_START = false -> quiet (tk n) = true ->
  (forall s, Up s (x :: le ++ rpt :: n :: l) ->
     exists f0 N s', (forall f, f0 <= f -> p_expression P f s = Ok (N, s')) /\ Up s' (rpt :: n :: l) /\ strip N = X /\ Ran P s s' (S (length le))) ->
  forall s, Up s (lp :: x :: le ++ rpt :: n :: l) ->
  exists f0 N s', (forall f, f0 <= f -> p_cast_expression P f s = Ok (N, s')) /\ Up s' (n :: l) /\ strip N = X /\ Ran P s s' (S (S (S (length le)))).
Proof.
  intros X lp rpt x n le l Hlp Hrp Hx Hq IH s HU.
  destruct (tptn_not_type_c s lp x _ HU Hlp Hx) as [s1 [H1 [HU1 [Hi1 Ht1]]]].
  destruct (peek_kind_up P s1 lp _ HU1) as [s2 [H2 [HU2 HS2]]].
  destruct (tptn_not_type_c s2 lp x _ HU2 Hlp Hx) as [s3 [H3 [HU3 [Hi3 Ht3]]]].
  destruct (peek_kind_up P s3 lp _ HU3) as [s4 [H4 [HU4 HS4]]].
  destruct (advance_up P s4 lp _ HU4) as [s5 [H5 [HU5 HA5]]].
  destruct (IH s5 HU5) as [f0 [N [s6 [H6 [HU6 [HN HR6]]]]]].
  destruct (expect_up P s6 rpt _ K_RPAREN HU6 Hrp) as [s7 [H7 [HU7 HA7]]].
  destruct (suffixes_stop_c s7 n l HU7 Hq) as [s8 [H8 [HU8 HS8]]].
  exists (f0 + 5), N, s8. split; [|split; [exact HU8|split; [exact HN|cost_tac]]].
  intros f Hf. destruct f as [|[|[|[|f]]]]; try lia.
  rewrite (cast_eq P). unfold bind at 1. rewrite H1.
  assert (Hk: tk lp = K_LPAREN). { clear -Hlp. destruct (tk lp); vm_compute in Hlp; try discriminate Hlp; reflexivity. }
  assert (Hpass: unary_pass (tk lp) = true) by (rewrite Hk; reflexivity).
  rewrite (unary_pass_eq _ _ _ _ H2 Hpass).
  rewrite (postfix_eq P). unfold bind at 1. rewrite H3. unfold bind at 1. unfold complit_of at 1. unfold ret at 1.
  unfold bind at 1. rewrite (primary_eq P). unfold bind at 1. rewrite H4.
  assert (Hpp: primary_paren (tk lp) = true) by (rewrite Hk; reflexivity).
  unfold primary_paren in Hpp. do 4 (apply andb_true_iff in Hpp; destruct Hpp as [Hpp ?]).
  repeat match goal with X: negb _ = true |- _ => apply negb_true_iff in X; rewrite X end.
  match goal with X: okind_is _ K_LPAREN = true |- _ => rewrite X end.
  unfold bind at 1. rewrite H5. unfold bind at 1. rewrite (H6 f) by lia. unfold bind at 1. rewrite H7. unfold ret at 1.
  destruct f as [|f]; [lia|]. apply H8.
Qed.

(* ---- the token sequence of the generated text ---- *)
Notation keepL := (GenParen.keepL str str gprec rp).
Notation keepR := (GenParen.keepR str str gprec rp).
Notation flatten := (GenParen.flatten str str gprec rp).
Notation skel := (GenParen.skel str str gprec rp).
Notation gtree := (ClimbProofs.tree gt str).
Notation climb := (ClimbProofs.climb gt str gprec).
Notation inner := (ClimbProofs.inner gt str gprec).

Definition parkv (x: list (kind * str)) : list (kind * str) := (K_LPAREN, s2l "(") :: x ++ [(K_RPAREN, s2l ")")].
Fixpoint kv (t: gt) : list (kind * str) :=
  match t with
  | GLeaf _ _ a => [(K_ID, a)]
  | GBin _ _ o l r =>
    (if GenBinop.is_leaf l || keepL o l then kv l else parkv (kv l)) ++ (opk o, o) ::
    (if GenBinop.is_leaf r || keepR o r then kv r else parkv (kv r))
  end.
Definition kv_atom (a: gt) : list (kind * str) := if GenBinop.is_leaf a then kv a else parkv (kv a).
Definition kv_rest (r: list (str * gt)) : list (kind * str) :=
  concat (map (fun oa => (opk (fst oa), fst oa) :: kv_atom (snd oa)) r).

Definition AtomOK (a: gt) : Prop :=
  forall (s: pstate) la n l, Spell la (kv_atom a) -> Up s (la ++ n :: l) -> quiet (tk n) = true ->
  exists f0 N s', (forall f, f0 <= f -> p_cast_expression P f s = Ok (N, s')) /\ Up s' (n :: l) /\ strip N = emb unit a.
Definition ROK (r: list (str * gt)) : Prop := Forall (fun oa => prec_lookup_s (fst oa) <> None /\ AtomOK (snd oa)) r.

Fixpoint etree (T: gtree) : value unit :=
  match T with
  | Leaf _ _ a => emb unit a
  | Bin _ _ o l r => VNode C_BinaryOp [VStr o; etree l; etree r] None
  end.

Lemma etree_node : forall T, exists c fs co, etree T = VNode c fs co.
Proof. intros [a|o l r]; [destruct a|]; cbn; eexists; eexists; eexists; reflexivity. Qed.

Lemma head_quiet : forall r lr (stop: tok) l0, ROK r -> Spell lr (kv_rest r) -> bstop (tk stop) = true ->
  exists n l', lr ++ stop :: l0 = n :: l' /\ quiet (tk n) = true.
Proof.
  intros r lr stop l0 HR HS Hb. destruct r as [|[o a] r1].
  - apply Spell_nil_inv in HS. subst lr. exists stop, l0. split; [reflexivity|]. apply bstop_facts in Hb. tauto.
  - cbn [kv_rest map concat fst snd app] in HS. destruct (Spell_cons_inv _ _ _ _ HS) as [t [l2 [-> [Hk [_ _]]]]].
    exists t, (l2 ++ stop :: l0). split; [reflexivity|]. inversion HR as [|x y [Ho _] _]; subst. cbn [fst] in Ho.
    rewrite Hk. apply opk_facts. exact Ho.
Qed.

Definition SimC (fu: nat) : Prop := forall m h r T r', climb fu m h r = Some (T, r') -> ROK r ->
  forall (s: pstate) lr stop l0 hN, Spell lr (kv_rest r) -> Up s (lr ++ stop :: l0) -> bstop (tk stop) = true -> strip hN = etree h ->
  ROK r' /\ exists f0 N s' lr', (forall f, f0 <= f -> p_binary_climb P f m hN s = Ok (N, s')) /\
                               Spell lr' (kv_rest r') /\ Up s' (lr' ++ stop :: l0) /\ strip N = etree T.
Definition SimI (fu: nat) : Prop := forall p h r T r', inner fu p h r = Some (T, r') -> ROK r ->
  forall (s: pstate) lr stop l0 hN, Spell lr (kv_rest r) -> Up s (lr ++ stop :: l0) -> bstop (tk stop) = true -> strip hN = etree h ->
  ROK r' /\ exists f0 N s' lr', (forall f, f0 <= f -> p_binary_inner P f p hN s = Ok (N, s')) /\
                               Spell lr' (kv_rest r') /\ Up s' (lr' ++ stop :: l0) /\ strip N = etree T.

Lemma sim : forall fu, SimC fu /\ SimI fu.
Proof.
  induction fu as [|fu [IHC IHI]]; [split; intros ? ? ? ? ? H; discriminate H|]. split.
  - (* outer loop *)
    intros m h r T r' H HR s lr stop l0 hN HS HU Hb Hh. rewrite ClimbComplete.climb_S in H. destruct r as [|[o a] r1].
    + injection H as <- <-. split; [constructor|]. apply Spell_nil_inv in HS. subst lr. cbn [app] in HU.
      destruct (peek_up P s stop l0 HU) as [s1 [Hp [HU1 _]]]. destruct (bstop_facts _ Hb) as [_ Hprec].
      exists 1, hN, s1, []. split; [|split; [reflexivity|split; [exact HU1|exact Hh]]].
      intros f Hf. destruct f as [|f]; [lia|]. rewrite (climb_eq P). unfold bind at 1. rewrite Hp. rewrite Hprec. reflexivity.
    + cbn [kv_rest map concat fst snd] in HS. cbn [app] in HS. destruct (Spell_cons_inv _ _ _ _ HS) as [t [lr2 [-> [Hk [Hv HS2]]]]].
      inversion HR as [|x y [Ho HA] HR1]; subst x y. cbn [fst snd] in Ho, HA.
      destruct (opk_facts o Ho) as [Hprec _]. cbn [app] in HU.
      destruct (peek_up P s t _ HU) as [s1 [Hp [HU1 _]]].
      destruct (gprec o <? m) eqn:Elt.
      * injection H as <- <-. split; [exact HR|]. exists 1, hN, s1, (t :: lr2). split; [|split; [|split; [exact HU1|exact Hh]]].
        -- intros f Hf. destruct f as [|f]; [lia|]. rewrite (climb_eq P). unfold bind at 1. rewrite Hp. rewrite Hk, Hprec, Elt. reflexivity.
        -- unfold Spell. cbn [map kv_rest concat fst snd app]. rewrite Hk, Hv. f_equal. exact HS2.
      * destruct (inner fu (gprec o) (Leaf gt str a) r1) as [[rhs r2]|] eqn:EI; [|discriminate H].
        destruct (Spell_app_inv _ _ _ HS2) as [la [lr1 [-> [HSa HS1]]]].
        destruct (advance_up P s1 t _ HU1) as [s2 [Had [HU2 _]]].
        destruct (head_quiet r1 lr1 stop l0 HR1 HS1 Hb) as [n [l' [En Hqn]]].
        rewrite <- app_assoc in HU2. rewrite En in HU2.
        destruct (HA s2 la n l' HSa HU2 Hqn) as [fa [aN [s3 [Hcast [HU3 HaN]]]]].
        rewrite <- En in HU3.
        destruct (IHI _ _ _ _ _ EI HR1 s3 lr1 stop l0 aN HS1 HU3 Hb HaN) as [HR2 [fi [rN [s4 [lr2' [Hin [HS2' [HU4 HrN]]]]]]]].
        destruct (etree_node h) as [c [fs [co Eh]]]. rewrite Eh in Hh. destruct (strip_node_inv _ _ _ _ _ Hh) as [fs' [co' EhN]].
        set (bN := mkN P C_BinaryOp [VStr (tv t); hN; rN] co').
        assert (HbN: strip bN = etree (Bin gt str o h rhs)).
        { unfold bN, mkN. cbn [strip map etree]. rewrite Hv, HrN. rewrite EhN. rewrite <- EhN. rewrite <- Eh in Hh. rewrite Hh. reflexivity. }
        destruct (IHC _ _ _ _ _ H HR2 s4 lr2' stop l0 bN HS2' HU4 Hb HbN) as [HR' [fc [N [s5 [lr' [Hcl [HS' [HU5 HN]]]]]]]].
        split; [exact HR'|]. exists (S (Nat.max fa (Nat.max fi fc))), N, s5, lr'. split; [|split; [exact HS'|split; [exact HU5|exact HN]]].
        intros f Hf. destruct f as [|f]; [lia|]. rewrite (climb_eq P). unfold bind at 1. rewrite Hp. rewrite Hk, Hprec, Elt.
        unfold bind at 1. rewrite Had. unfold bind at 1. rewrite (Hcast f) by lia. unfold bind at 1. rewrite (Hin f) by lia.
        unfold bind at 1. unfold coordA, lift_opt. rewrite EhN. cbn [get_coord]. unfold ret at 1. rewrite <- EhN. apply Hcl. lia.
  - (* inner loop *)
    intros p h r T r' H HR s lr stop l0 hN HS HU Hb Hh. rewrite ClimbComplete.inner_S in H. destruct r as [|[o2 a2] r1].
    + injection H as <- <-. split; [constructor|]. apply Spell_nil_inv in HS. subst lr. cbn [app] in HU.
      destruct (peek_up P s stop l0 HU) as [s1 [Hp [HU1 _]]]. destruct (bstop_facts _ Hb) as [_ Hprec].
      exists 1, hN, s1, []. split; [|split; [reflexivity|split; [exact HU1|exact Hh]]].
      intros f Hf. destruct f as [|f]; [lia|]. rewrite (inner_eq P). unfold bind at 1. rewrite Hp. rewrite Hprec. reflexivity.
    + pose proof HS as HS0. cbn [kv_rest map concat fst snd] in HS. cbn [app] in HS. destruct (Spell_cons_inv _ _ _ _ HS) as [t [lr2 [-> [Hk [Hv HS2]]]]].
      inversion HR as [|x y [Ho HA] HR1]; subst x y. cbn [fst snd] in Ho, HA.
      destruct (opk_facts o2 Ho) as [Hprec _]. cbn [app] in HU.
      destruct (peek_up P s t _ HU) as [s1 [Hp [HU1 _]]].
      destruct (p <? gprec o2) eqn:Elt.
      * destruct (climb fu (gprec o2) h ((o2, a2) :: r1)) as [[rhs' r2]|] eqn:EC; [|discriminate H].
        destruct (IHC _ _ _ _ _ EC HR s1 (t :: lr2) stop l0 hN HS0 HU1 Hb Hh) as [HR2 [fc [cN [s2 [lr2' [Hcl [HS2' [HU2 HcN]]]]]]]].
        destruct (IHI _ _ _ _ _ H HR2 s2 lr2' stop l0 cN HS2' HU2 Hb HcN) as [HR' [fi [N [s3 [lr' [Hin [HS' [HU3 HN]]]]]]]].
        split; [exact HR'|]. exists (S (Nat.max fc fi)), N, s3, lr'. split; [|split; [exact HS'|split; [exact HU3|exact HN]]].
        intros f Hf. destruct f as [|f]; [lia|]. rewrite (inner_eq P). unfold bind at 1. rewrite Hp. rewrite Hk, Hprec, Elt.
        unfold bind at 1. rewrite (Hcl f) by lia. apply Hin. lia.
      * injection H as <- <-. split; [exact HR|]. exists 1, hN, s1, (t :: lr2). split; [|split; [exact HS0|split; [exact HU1|exact Hh]]].
        intros f Hf. destruct f as [|f]; [lia|]. rewrite (inner_eq P). unfold bind at 1. rewrite Hp. rewrite Hk, Hprec, Elt. reflexivity.
Qed.

(* ---- the generated sequence, its head and its atoms ---- *)
Lemma kv_flatten : forall t, kv t = kv_atom (fst (flatten t)) ++ kv_rest (snd (flatten t)).
Proof.
  induction t as [a|o l IHl r IHr].
  - cbn. reflexivity.
  - cbn [kv GenParen.flatten].
    assert (HL: (if GenBinop.is_leaf l || keepL o l then kv l else parkv (kv l)) =
                kv_atom (fst (if keepL o l then flatten l else (l, []))) ++ kv_rest (snd (if keepL o l then flatten l else (l, [])))).
    { destruct (keepL o l) eqn:E.
      - rewrite orb_true_r. exact IHl.
      - rewrite orb_false_r. cbn [fst snd kv_rest map concat]. rewrite app_nil_r. reflexivity. }
    assert (HRr: (if GenBinop.is_leaf r || keepR o r then kv r else parkv (kv r)) =
                kv_atom (fst (if keepR o r then flatten r else (r, []))) ++ kv_rest (snd (if keepR o r then flatten r else (r, [])))).
    { destruct (keepR o r) eqn:E.
      - rewrite orb_true_r. exact IHr.
      - rewrite orb_false_r. cbn [fst snd kv_rest map concat]. rewrite app_nil_r. reflexivity. }
    rewrite HL, HRr.
    destruct (if keepL o l then flatten l else (l, [])) as [hl ll].
    destruct (if keepR o r then flatten r else (r, [])) as [hr lr]. cbn [fst snd].
    unfold kv_rest. rewrite map_app, concat_app. cbn [map concat fst snd]. rewrite <- !app_assoc. reflexivity.
Qed.

Lemma etree_skel : forall t, etree (skel t) = emb unit t.
Proof.
  induction t as [a|o l IHl r IHr]; [reflexivity|]. cbn [GenParen.skel etree emb].
  destruct (keepL o l); destruct (keepR o r); cbn [etree]; rewrite ?IHl, ?IHr; reflexivity.
Qed.

Definition head_ok (kvs: list (kind * str)) : Prop :=
  exists k v rest, kvs = (k, v) :: rest /\
    (k = K_ID \/ (k = K_LPAREN /\ exists k2 v2 rest2, rest = (k2, v2) :: rest2 /\ (k2 = K_ID \/ k2 = K_LPAREN))).

Lemma head_ok_app : forall x y, head_ok x -> head_ok (x ++ y).
Proof.
  intros x y [k [v [rest [-> H]]]]. exists k, v, (rest ++ y). split; [reflexivity|]. destruct H as [H|[H [k2 [v2 [rest2 [-> H2]]]]]]; [left; exact H|].
  right. split; [exact H|]. exists k2, v2, (rest2 ++ y). split; [reflexivity|exact H2].
Qed.

Lemma kv_head : forall t, head_ok (kv t).
Proof.
  induction t as [a|o l IHl r IHr].
  - exists K_ID, a, []. split; [reflexivity|left; reflexivity].
  - cbn [kv]. apply head_ok_app. destruct (GenBinop.is_leaf l || keepL o l); [exact IHl|].
    destruct IHl as [k [v [rest [E H]]]]. unfold parkv. rewrite E. exists K_LPAREN, (s2l "("), (((k, v) :: rest) ++ [(K_RPAREN, s2l ")")]).
    split; [reflexivity|]. right. split; [reflexivity|]. exists k, v, (rest ++ [(K_RPAREN, s2l ")")]). split; [reflexivity|].
    destruct H as [H|[H _]]; [left|right]; exact H.
Qed.

Lemma flatten_ok : forall t, ops_known t -> (forall a, height a < height t -> ops_known a -> AtomOK a) ->
  GenBinop.is_leaf t = false -> AtomOK (fst (flatten t)) /\ ROK (snd (flatten t)).
Proof.
  induction t as [a|o l IHl r IHr]; intros Hok Hsm Hnl; [discriminate|].
  cbn [ops_known] in Hok. destruct Hok as [Ho [Hol Hor]]. cbn [GenParen.flatten].
  assert (HL: AtomOK (fst (if keepL o l then flatten l else (l, []))) /\ ROK (snd (if keepL o l then flatten l else (l, [])))).
  { destruct (keepL o l) eqn:E.
    - destruct l as [a|ol l1 l2]; [discriminate E|]. apply IHl; [exact Hol| |reflexivity].
      intros a Ha Hoa. apply Hsm; [|exact Hoa]. cbn [height] in *. lia.
    - cbn [fst snd]. split; [|constructor]. apply Hsm; [|exact Hol]. cbn [height]. lia. }
  assert (HRr: AtomOK (fst (if keepR o r then flatten r else (r, []))) /\ ROK (snd (if keepR o r then flatten r else (r, [])))).
  { destruct (keepR o r) eqn:E.
    - destruct r as [a|orr r1 r2]; [discriminate E|]. apply IHr; [exact Hor| |reflexivity].
      intros a Ha Hoa. apply Hsm; [|exact Hoa]. cbn [height] in *. lia.
    - cbn [fst snd]. split; [|constructor]. apply Hsm; [|exact Hor]. cbn [height]. lia. }
  destruct (if keepL o l then flatten l else (l, [])) as [hl ll].
  destruct (if keepR o r then flatten r else (r, [])) as [hr lr]. cbn [fst snd] in *.
  destruct HL as [HL1 HL2]. destruct HRr as [HR1 HR2]. split; [exact HL1|].
  unfold ROK. apply Forall_app. split; [exact HL2|]. constructor; [|exact HR2]. cbn [fst snd]. split; [exact Ho|exact HR1].
Qed.

Lemma leaf_atom_ok : forall a, AtomOK (GLeaf str str a).
Proof.
  intros a s la n l HS HU Hq. cbn in HS. destruct (Spell_cons_inv _ _ _ _ HS) as [t [l2 [-> [Hk [Hv HS2]]]]].
  apply Spell_nil_inv in HS2. subst l2. cbn [app] in HU.
  destruct (leaf_cast s t n l HU Hk Hq) as [N [s' [H [HU' HN]]]]. exists 5, N, s'. split; [exact H|split; [exact HU'|]].
  rewrite HN, Hv. reflexivity.
Qed.

(* the statement for one tree *)
Definition Main (t: gt) : Prop :=
  forall (s: pstate) le stop l0, Spell le (kv t) -> Up s (le ++ stop :: l0) -> estop (tk stop) = true ->
  exists f0 N s', (forall f, f0 <= f -> p_expression P f s = Ok (N, s')) /\ Up s' (stop :: l0) /\ strip N = emb unit t.

Lemma kind_eqb_eq : forall a b, kind_eqb a b = true -> a = b.
Proof. intros a b H. destruct a; destruct b; vm_compute in H; try discriminate H; reflexivity. Qed.

Lemma paren_atom_ok : forall t, GenBinop.is_leaf t = false -> Main t -> AtomOK t.
Proof.
  intros t Hnl HM s la n l HS HU Hq. unfold kv_atom in HS. rewrite Hnl in HS. unfold parkv in HS.
  destruct (Spell_cons_inv _ _ _ _ HS) as [lp [l2 [-> [Hlp [_ HS2]]]]].
  destruct (Spell_app_inv _ _ _ HS2) as [le [l3 [-> [HSe HS3]]]].
  destruct (Spell_cons_inv _ _ _ _ HS3) as [rpt [l4 [-> [Hrp [_ HS4]]]]]. apply Spell_nil_inv in HS4. subst l4.
  destruct (kv_head t) as [k [v [rest [Ek Hhead]]]]. rewrite Ek in HSe.
  destruct (Spell_cons_inv _ _ _ _ HSe) as [x [le' [-> [Hx [_ _]]]]].
  assert (Hxd: kind_in (tk x) tbl_DECL_START = false).
  { rewrite Hx. destruct Hhead as [->|[-> _]]; reflexivity. }
  cbn [app] in HU. rewrite <- app_assoc in HU. cbn [app] in HU.
  refine (paren_cast (emb unit t) lp rpt x n le' l _ _ Hxd Hq _ s HU).
  - rewrite Hlp. reflexivity.
  - rewrite Hrp. reflexivity.
  - intros s0 HU0. apply (HM s0 (x :: le') rpt (n :: l)).
    + rewrite <- Ek in HSe. exact HSe.
    + exact HU0.
    + rewrite Hrp. reflexivity.
Qed.

Lemma main_all : forall n t, height t <= n -> ops_known t -> Main t.
Proof.
  induction n as [|n IH]; intros t Hh Hok; [destruct t; cbn in Hh; lia|].
  assert (Hatoms: forall a, height a < height t -> ops_known a -> AtomOK a).
  { intros a Ha Hoa. destruct a as [x|o l r]; [apply leaf_atom_ok|]. apply paren_atom_ok; [reflexivity|]. apply IH; [lia|exact Hoa]. }
  assert (Hhd: AtomOK (fst (flatten t)) /\ ROK (snd (flatten t))).
  { destruct t as [x|o l r]; [cbn; split; [apply leaf_atom_ok|constructor]|]. apply flatten_ok; [exact Hok|exact Hatoms|reflexivity]. }
  destruct Hhd as [Hhd Hrs].
  intros s le stop l0 HS HU Hst. rewrite kv_flatten in HS. destruct (Spell_app_inv _ _ _ HS) as [la [lr [-> [HSa HSr]]]].
  destruct (estop_facts _ Hst) as [Hb [Hcond [Hasg Hcomma]]].
  (* the precedence-climbing run the grammar dictates *)
  assert (Hclimb: exists fu, climb fu 0 (Leaf gt str (fst (flatten t))) (snd (flatten t)) = Some (skel t, [])).
  { apply (ClimbComplete.climb_iff_grammar gt str gprec). apply (GenParen.generated_sequence_has_exactly_its_tree str str gprec rp). reflexivity. }
  destruct Hclimb as [fu Hclimb].
  (* first tokens *)
  assert (Hfirst: exists x1 tl, (la ++ lr) ++ stop :: l0 = x1 :: tl /\
            (tk x1 = K_ID \/ (tk x1 = K_LPAREN /\ exists x2 tl2, tl = x2 :: tl2 /\ (tk x2 = K_ID \/ tk x2 = K_LPAREN)))).
  { pose proof (kv_head t) as [k [v [rest [Ek Hk]]]]. rewrite kv_flatten in Ek.
    assert (HS': Spell (la ++ lr) ((k, v) :: rest)). { rewrite <- Ek. unfold Spell in *. rewrite map_app, HSa, HSr. reflexivity. }
    destruct (Spell_cons_inv _ _ _ _ HS') as [x1 [tl1 [E1 [Hk1 [_ HS1]]]]]. rewrite E1. exists x1, (tl1 ++ stop :: l0). split; [reflexivity|].
    destruct Hk as [->|[-> [k2 [v2 [rest2 [-> Hk2]]]]]]; [left; exact Hk1|]. right. split; [exact Hk1|].
    destruct (Spell_cons_inv _ _ _ _ HS1) as [x2 [tl2 [-> [Hk2' [_ _]]]]]. exists x2, (tl2 ++ stop :: l0). split; [reflexivity|].
    rewrite Hk2'. exact Hk2. }
  destruct Hfirst as [x1 [tl [Efirst Hx1]]].
  (* p_assignment_expression's look-ahead for a GNU statement expression *)
  assert (Hpre: exists s1, Up s1 ((la ++ lr) ++ stop :: l0) /\
     forall f, p_assignment_expression P (S f) s =
       bind P (p_conditional_expression P f) (fun e => bind P (peek P) (fun t0 =>
         match t0 with
         | Some t' => if kind_in (tk t') tbl_ASSIGNMENT_OPS then
                        bind P (advance P) (fun op => bind P (p_assignment_expression P f) (fun rhs => bind P (coordA P e) (fun ec =>
                        ret P (mkN P C_Assignment [VStr (tv op); e; rhs] ec))))
                      else ret P e
         | None => ret P e end)) s1).
  { rewrite Efirst in HU |- *. destruct (peek_kind_up P s x1 tl HU) as [s1 [Hp1 [HU1 _]]].
    destruct Hx1 as [Hid|[Hlp [x2 [tl2 [-> Hx2]]]]].
    - exists s1. split; [exact HU1|]. intros f. rewrite (assign_eq P). unfold bind at 1. rewrite Hp1. rewrite Hid. cbn [okind_is].
      change (kind_eqb K_ID K_LPAREN) with false. cbv iota. unfold bind at 1. unfold ret at 1. cbv iota. reflexivity.
    - destruct (peek2_up P s1 x1 x2 tl2 HU1) as [s2 [Hp2 [HU2 _]]]. exists s2. split; [exact HU2|]. intros f.
      rewrite (assign_eq P). unfold bind at 1. rewrite Hp1. rewrite Hlp. cbn [okind_is].
      change (kind_eqb K_LPAREN K_LPAREN) with true. cbv iota. unfold bind at 1. unfold bind at 1. rewrite Hp2. unfold ret at 1.
      assert (E: okind_is (Some (tk x2)) K_LBRACE = false). { destruct Hx2 as [->| ->]; reflexivity. }
      rewrite E. cbv iota. reflexivity. }
  destruct Hpre as [s1 [HU1 Hasn]].
  (* head operand *)
  destruct (head_quiet _ lr stop l0 Hrs HSr Hb) as [nq [lq [Enq Hnq]]].
  rewrite <- app_assoc in HU1. rewrite Enq in HU1.
  destruct (Hhd s1 la nq lq HSa HU1 Hnq) as [fa [aN [s2 [Hcast [HU2 HaN]]]]]. rewrite <- Enq in HU2.
  (* the climb *)
  destruct (sim fu) as [HC _].
  destruct (HC _ _ _ _ _ Hclimb Hrs s2 lr stop l0 aN HSr HU2 Hb HaN) as [_ [fc [N [s3 [lr' [Hcl [HS' [HU3 HN]]]]]]]].
  apply Spell_nil_inv in HS'. subst lr'. cbn [app] in HU3.
  destruct (accept_miss P s3 stop l0 K_CONDOP HU3 Hcond) as [s4 [Hq [HU4 _]]].
  destruct (peek_up P s4 stop l0 HU4) as [s5 [Hpk [HU5 _]]].
  destruct (accept_miss P s5 stop l0 K_COMMA HU5 Hcomma) as [s6 [Hcm [HU6 _]]].
  exists (S (S (S (Nat.max fa fc)))), N, s6. split; [|split; [exact HU6|rewrite HN; apply etree_skel]].
  intros f Hf. destruct f as [|[|[|f]]]; try lia.
  rewrite (expr_eq P). unfold bind at 1. rewrite Hasn. unfold bind at 1. rewrite (cond_eq P).
  unfold bind at 1. rewrite (Hcast f) by lia. unfold bind at 1. rewrite (Hcl f) by lia. unfold bind at 1. rewrite Hq. unfold ret at 1.
  unfold bind at 1. rewrite Hpk. rewrite Hasg. unfold ret at 1. unfold bind at 1. rewrite Hcm. reflexivity.
Qed.

(* parse . generate = id, token level, every binary-operator tree over identifiers *)
Theorem parse_of_generated_tokens : forall t, ops_known t ->
  forall (s: pstate) le stop l0, Spell le (kv t) -> Up s (le ++ stop :: l0) -> estop (tk stop) = true ->
  exists f0 N s', (forall f, f0 <= f -> p_expression P f s = Ok (N, s')) /\ Up s' (stop :: l0) /\ strip N = emb unit t.
Proof. intros t Hok. exact (main_all (height t) t (le_n _) Hok). Qed.
End RT.

(* ---- the token sequence kv is the generated text: its spellings, a blank on each side of an operator ---- *)
Definition spell1 (e: kind * str) : str :=
  match prec_of (fst e) with Some _ => s2l " " ++ snd e ++ s2l " " | None => snd e end.
Definition text_of (l: list (kind * str)) : str := concat (map spell1 l).

Lemma text_of_app : forall a b, text_of (a ++ b) = text_of a ++ text_of b.
Proof. intros a b. unfold text_of. rewrite map_app, concat_app. reflexivity. Qed.

Lemma text_of_parkv : forall x, text_of (parkv x) = GenBinop.par (text_of x).
Proof.
  intros x. unfold parkv, GenBinop.par. change ((K_LPAREN, s2l "(") :: x ++ [(K_RPAREN, s2l ")")]) with ([(K_LPAREN, s2l "(")] ++ x ++ [(K_RPAREN, s2l ")")]).
  rewrite !text_of_app. reflexivity.
Qed.

Theorem print_is_text : forall rp t, ops_known t -> GenBinop.print rp t = text_of (kv rp t).
Proof.
  intros rp. induction t as [a|o l IHl r IHr]; intros Hok.
  - cbn. rewrite app_nil_r. reflexivity.
  - cbn [ops_known] in Hok. destruct Hok as [Ho [Hol Hor]]. cbn [GenBinop.print kv].
    rewrite text_of_app. change ((opk o, o) :: ?x) with ([(opk o, o)] ++ x). rewrite text_of_app.
    assert (Eo: text_of [(opk o, o)] = s2l " " ++ o ++ s2l " ").
    { unfold text_of, spell1. cbn [map concat fst snd]. destruct (opk_facts o Ho) as [-> _]. rewrite app_nil_r. reflexivity. }
    rewrite Eo. rewrite <- !app_assoc.
    assert (EL: (if GenBinop.is_leaf l || GenParen.keepL str str gprec rp o l then GenBinop.print rp l else GenBinop.par (GenBinop.print rp l)) =
                text_of (if GenBinop.is_leaf l || GenParen.keepL str str gprec rp o l then kv rp l else parkv (kv rp l))).
    { destruct (GenBinop.is_leaf l || GenParen.keepL str str gprec rp o l); [apply IHl; exact Hol|]. rewrite text_of_parkv, (IHl Hol). reflexivity. }
    assert (ER: (if GenBinop.is_leaf r || GenParen.keepR str str gprec rp o r then GenBinop.print rp r else GenBinop.par (GenBinop.print rp r)) =
                text_of (if GenBinop.is_leaf r || GenParen.keepR str str gprec rp o r then kv rp r else parkv (kv rp r))).
    { destruct (GenBinop.is_leaf r || GenParen.keepR str str gprec rp o r); [apply IHr; exact Hor|]. rewrite text_of_parkv, (IHr Hor). reflexivity. }
    apply f_equal2; [exact EL|]. apply (f_equal (app (s2l " "))). apply (f_equal (app o)). apply (f_equal (app (s2l " "))). exact ER.
Qed.

(* ---- the hypotheses are satisfiable: `( a + b ) * c ;` at the start of a translation unit ---- *)
Definition ex_tree : GenParen.gt str str :=
  GBin str str (s2l "*") (GBin str str (s2l "+") (GLeaf str str (s2l "a")) (GLeaf str str (s2l "b"))) (GLeaf str str (s2l "c")).
Definition ex_items : list (pitem nat) :=
  [PTok nat K_LPAREN (s2l "(") 1 0; PTok nat K_ID (s2l "a") 2 0; PTok nat K_PLUS (s2l "+") 3 0; PTok nat K_ID (s2l "b") 4 0;
   PTok nat K_RPAREN (s2l ")") 5 0; PTok nat K_TIMES (s2l "*") 6 0; PTok nat K_ID (s2l "c") 7 0; PTok nat K_SEMI (s2l ";") 8 0].
Definition ex_state : pstate nat := mkPS nat ex_items 0 [] [] 0 [[]] 0 0%N.
Definition ex_toks : list (tok nat) :=
  [mkTok nat K_LPAREN (s2l "(") 1; mkTok nat K_ID (s2l "a") 2; mkTok nat K_PLUS (s2l "+") 3; mkTok nat K_ID (s2l "b") 4;
   mkTok nat K_RPAREN (s2l ")") 5; mkTok nat K_TIMES (s2l "*") 6; mkTok nat K_ID (s2l "c") 7].
Example roundtrip_hypotheses_satisfiable :
  ops_known ex_tree /\ Spell nat ex_toks (kv false ex_tree) /\ Up nat ex_state (ex_toks ++ [mkTok nat K_SEMI (s2l ";") 8]) /\
  estop K_SEMI = true /\ GenBinop.print false ex_tree = s2l "(a + b) * c".
Proof.
  split; [cbn; repeat split; discriminate|]. split; [vm_compute; reflexivity|]. split; [|split; vm_compute; reflexivity].
  apply Up_initial; [reflexivity|]. cbn [ex_state scopes raw ex_items ex_toks app].
  repeat (eapply UpR_cons; [vm_compute; reflexivity|]). apply UpR_nil.
Qed.
