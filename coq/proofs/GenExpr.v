(* C07, generator side of RoundTripX: for every expression of the language [ex] the generator MODEL
   (Generator.visit: visit_ID, visit_BinaryOp, visit_UnaryOp, visit_ArrayRef, visit_StructRef,
   visit_TernaryOp, visit_Assignment with _parenthesize_unless_simple / _parenthesize_if / _visit_expr)
   prints [ptext rp e], and that text is the concatenation of the spellings of the token sequence
   [xt rp e] with the blanks the generator puts around binary / assignment operators, ? and :. *)
From Coq Require Import String.
From Coq Require Import List NArith ZArith Bool Arith Lia.
Import ListNotations.
From PV Require Import Regex Base AstDefs AstSpec AstImpl GenTables NodeModel Generator ClimbProofs GenParen GenBinop.
From PV Require Import LexTables ParserTables LexerProofs TableProofs RoundTrip RoundTripGen RoundTripX.
Open Scope nat_scope.

Section GX.
Variable C : Type.
Variable rp : bool.
Notation node := (value C).

Fixpoint embC (e: ex) : node :=
  match e with
  | XId a => VNode C_ID [VStr a] None
  | XBin o l r => VNode C_BinaryOp [VStr o; embC l; embC r] None
  | XUn o x => VNode C_UnaryOp [VStr o; embC x] None
  | XIdx b i => VNode C_ArrayRef [embC b; embC i] None
  | XMem b ty f => VNode C_StructRef [embC b; VStr ty; VNode C_ID [VStr f] None] None
  | XCond c t f => VNode C_TernaryOp [embC c; embC t; embC f] None
  | XAsg o l r => VNode C_Assignment [VStr o; embC l; embC r] None
  end.

Definition wrapt (e: ex) (t: str) : str := if simple e then t else par t.
Fixpoint ptext (e: ex) : str :=
  match e with
  | XId a => a
  | XBin o l r =>
    (if simple l || keepLx rp o l then ptext l else par (ptext l)) ++ s " " ++ o ++ s " " ++
    (if simple r || keepRx rp o r then ptext r else par (ptext r))
  | XUn o x => o ++ wrapt x (ptext x)
  | XIdx b i => wrapt b (ptext b) ++ s "[" ++ ptext i ++ s "]"
  | XMem b ty f => wrapt b (ptext b) ++ ty ++ f
  | XCond c t f => s "(" ++ ptext c ++ s ") ? (" ++ ptext t ++ s ") : (" ++ ptext f ++ s ")"
  | XAsg o l r => ptext l ++ s " " ++ o ++ s " " ++ (if isasg r then par (ptext r) else ptext r)
  end.

(* ---- one-step equations of the generator model (by computation against Generator.v) ---- *)
Lemma visit_un_raw : forall f o x co,
  visit C rp (S f) (VNode C_UnaryOp [VStr o; x] co) =
  (if str_eqb o (s "sizeof") then gbind (visit C rp f x) (fun t => gret (s "sizeof(" ++ t ++ s ")"))
   else if str_eqb o (s "p++") then gbind (paren_unless_simple C rp f x) (fun t => gret (t ++ s "++"))
   else if str_eqb o (s "p--") then gbind (paren_unless_simple C rp f x) (fun t => gret (t ++ s "--"))
   else gbind (paren_unless_simple C rp f x) (fun t => gret (o ++ t))).
Proof. reflexivity. Qed.
Lemma visit_idx : forall f b i co,
  visit C rp (S f) (VNode C_ArrayRef [b; i] co) =
  gbind (paren_unless_simple C rp f b) (fun a => gbind (visit C rp f i) (fun t => gret (a ++ s "[" ++ t ++ s "]"))).
Proof. reflexivity. Qed.
Lemma visit_mem : forall f b ty fl co,
  visit C rp (S f) (VNode C_StructRef [b; VStr ty; fl] co) =
  gbind (paren_unless_simple C rp f b) (fun a => gbind (visit C rp f fl) (fun t => gret (a ++ ty ++ t))).
Proof. reflexivity. Qed.
Lemma visit_ternary : forall f c t e co,
  visit C rp (S f) (VNode C_TernaryOp [c; t; e] co) =
  gbind (visit_expr C rp f c) (fun a => gbind (visit_expr C rp f t) (fun b => gbind (visit_expr C rp f e) (fun c1 =>
  gret (s "(" ++ a ++ s ") ? (" ++ b ++ s ") : (" ++ c1 ++ s ")")))).
Proof. reflexivity. Qed.
Lemma visit_asg : forall f o l r co,
  visit C rp (S f) (VNode C_Assignment [VStr o; l; r] co) =
  gbind (visit_expr C rp f r) (fun rs => gbind (visit C rp f l) (fun ls =>
  gret (ls ++ s " " ++ o ++ s " " ++ (if is_c C C_Assignment r then s "(" ++ rs ++ s ")" else rs)))).
Proof. reflexivity. Qed.
Lemma pus_eq : forall f n, paren_unless_simple C rp (S f) n =
  gbind (visit_expr C rp f n) (fun x => if is_simple C n then gret x else gret (s "(" ++ x ++ s ")")).
Proof. reflexivity. Qed.

Lemma visit_expr_emb : forall f e, visit_expr C rp (S f) (embC e) = visit C rp f (embC e).
Proof. intros f e. destruct e; reflexivity. Qed.
Lemma is_simple_emb : forall e, is_simple C (embC e) = simple e.
Proof. destruct e; reflexivity. Qed.
Lemma is_asg_emb : forall e, is_c C C_Assignment (embC e) = isasg e.
Proof. destruct e; reflexivity. Qed.

Lemma cond_left_x : forall o l st, prec_lookup_s o <> None -> wf l ->
  GenBinop.cond C rp o false (embC l) st = GOk (negb (simple l || keepLx rp o l), st).
Proof.
  intros o l st Ho Hw. unfold GenBinop.cond. rewrite is_simple_emb. destruct l; try reflexivity.
  - cbn [simple orb keepLx embC]. change (is_c C C_BinaryOp (VNode C_BinaryOp [VStr o0; embC l1; embC l2] None)) with true. rewrite andb_true_r.
    destruct rp; [|reflexivity]. cbn [wf] in Hw. destruct Hw as (Ho0 & _).
    change (gattr C "op" (VNode C_BinaryOp [VStr o0; embC l1; embC l2] None)) with (@gret (value C) (VStr o0)).
    unfold as_str, gbind, gret, gcrash, gprec. cbv beta iota. cbn [andb].
    destruct (prec_lookup_s o0) as [pd|]; [|congruence]. destruct (prec_lookup_s o) as [pn|]; [|congruence]. reflexivity.
  - cbn [simple orb keepLx embC]. change (is_c C C_BinaryOp (VNode C_UnaryOp [VStr o0; embC l] None)) with false. rewrite andb_false_r. reflexivity.
  - cbn [simple orb keepLx embC]. change (is_c C C_BinaryOp (VNode C_TernaryOp [embC l1; embC l2; embC l3] None)) with false. rewrite andb_false_r. reflexivity.
  - cbn [simple orb keepLx embC]. change (is_c C C_BinaryOp (VNode C_Assignment [VStr o0; embC l1; embC l2] None)) with false. rewrite andb_false_r. reflexivity.
Qed.
Lemma cond_right_x : forall o r st, prec_lookup_s o <> None -> wf r ->
  GenBinop.cond C rp o true (embC r) st = GOk (negb (simple r || keepRx rp o r), st).
Proof.
  intros o l st Ho Hw. unfold GenBinop.cond. rewrite is_simple_emb. destruct l; try reflexivity.
  - cbn [simple orb keepRx embC]. change (is_c C C_BinaryOp (VNode C_BinaryOp [VStr o0; embC l1; embC l2] None)) with true. rewrite andb_true_r.
    destruct rp; [|reflexivity]. cbn [wf] in Hw. destruct Hw as (Ho0 & _).
    change (gattr C "op" (VNode C_BinaryOp [VStr o0; embC l1; embC l2] None)) with (@gret (value C) (VStr o0)).
    unfold as_str, gbind, gret, gcrash, gprec. cbv beta iota. cbn [andb].
    destruct (prec_lookup_s o0) as [pd|]; [|congruence]. destruct (prec_lookup_s o) as [pn|]; [|congruence]. reflexivity.
  - cbn [simple orb keepRx embC]. change (is_c C C_BinaryOp (VNode C_UnaryOp [VStr o0; embC l] None)) with false. rewrite andb_false_r. reflexivity.
  - cbn [simple orb keepRx embC]. change (is_c C C_BinaryOp (VNode C_TernaryOp [embC l1; embC l2; embC l3] None)) with false. rewrite andb_false_r. reflexivity.
  - cbn [simple orb keepRx embC]. change (is_c C C_BinaryOp (VNode C_Assignment [VStr o0; embC l1; embC l2] None)) with false. rewrite andb_false_r. reflexivity.
Qed.

(* the spelling of a prefix operator is not one of the three special op strings of UnaryOp *)
Lemma unop_not_special : forall o, unop_ok o = true ->
  str_eqb o (s "sizeof") = false /\ str_eqb o (s "p++") = false /\ str_eqb o (s "p--") = false.
Proof.
  intros o H. unfold unop_ok in H.
  assert (G: forall x, punct_kind_l x = None -> str_eqb o x = false).
  { intros x Hx. destruct (str_eqb o x) eqn:E; [|reflexivity]. apply str_eqb_eq in E. subst x. rewrite Hx in H. discriminate H. }
  repeat split; apply G; vm_compute; reflexivity.
Qed.

(* paren_unless_simple on an embedded expression *)
Lemma pus_emb : forall f e t st, visit C rp f (embC e) st = GOk (t, st) ->
  paren_unless_simple C rp (S (S f)) (embC e) st = GOk (wrapt e t, st).
Proof.
  intros f e t st H. rewrite pus_eq. unfold gbind at 1. rewrite visit_expr_emb. rewrite H. rewrite is_simple_emb.
  unfold wrapt, par. destruct (simple e); reflexivity.
Qed.

Theorem visit_prints_x : forall e, wf e -> forall fuel st, 3 * size e <= fuel -> visit C rp fuel (embC e) st = GOk (ptext e, st).
Proof.
  induction e as [a|o l IHl r IHr|o x IHx|b IHb i IHi|b IHb ty fld|c IHc t IHt f IHf|o l IHl r IHr]; intros Hw fuel st Hf; cbn [size] in Hf; cbn [wf] in Hw.
  - destruct fuel as [|fu]; [lia|]. reflexivity.
  - destruct Hw as (Ho & Hl & Hr). destruct fuel as [|[|[|fu]]]; try lia. cbn [embC]. rewrite visit_binop.
    unfold gbind at 1. rewrite visit_expr_emb. rewrite (IHl Hl) by lia.
    unfold gbind at 1. rewrite (cond_left_x o l st Ho Hl).
    unfold gbind at 1. rewrite visit_expr_emb. rewrite (IHr Hr) by lia.
    unfold gbind at 1. rewrite (cond_right_x o r st Ho Hr). unfold gret. cbn [ptext]. unfold par.
    destruct (simple l || keepLx rp o l); destruct (simple r || keepRx rp o r); reflexivity.
  - destruct Hw as (Ho & Hx). destruct (unop_not_special o Ho) as (H1 & H2 & H3). destruct fuel as [|[|[|fu]]]; try lia.
    cbn [embC]. rewrite visit_un_raw. rewrite H1, H2, H3. unfold gbind at 1. rewrite (pus_emb fu x (ptext x) st); [reflexivity|]. apply IHx; [exact Hx|lia].
  - destruct Hw as (Hb & Hi). destruct fuel as [|[|[|fu]]]; try lia. cbn [embC]. rewrite visit_idx.
    unfold gbind at 1. rewrite (pus_emb fu b (ptext b) st) by (apply IHb; [exact Hb|lia]).
    unfold gbind at 1. rewrite (IHi Hi) by lia. reflexivity.
  - destruct Hw as (Hm & Hb). destruct fuel as [|[|[|fu]]]; try lia. cbn [embC]. rewrite visit_mem.
    unfold gbind at 1. rewrite (pus_emb fu b (ptext b) st) by (apply IHb; [exact Hb|lia]). reflexivity.
  - destruct Hw as (Hc & Ht & Hff). destruct fuel as [|[|[|fu]]]; try lia. cbn [embC]. rewrite visit_ternary.
    unfold gbind at 1. rewrite visit_expr_emb. rewrite (IHc Hc) by lia.
    unfold gbind at 1. rewrite visit_expr_emb. rewrite (IHt Ht) by lia.
    unfold gbind at 1. rewrite visit_expr_emb. rewrite (IHf Hff) by lia. reflexivity.
  - destruct Hw as (Ho & Hnl & Hl & Hr). destruct fuel as [|[|[|fu]]]; try lia. cbn [embC]. rewrite visit_asg.
    unfold gbind at 1. rewrite visit_expr_emb. rewrite (IHr Hr) by lia.
    unfold gbind at 1. rewrite (IHl Hl) by lia. rewrite is_asg_emb. unfold gret. cbn [ptext]. unfold par. reflexivity.
Qed.
End GX.

(* ---- the text and the tokens ---- *)
Definition nb (c: N) : bool := negb (N.eqb c 32).
Definition despace (t: str) : str := filter nb t.

Lemma despace_app : forall a b, despace (a ++ b) = despace a ++ despace b.
Proof. intros a b. unfold despace. apply filter_app. Qed.

Lemma punct_noblank : forall o k, punct_kind_l o = Some k -> despace o = o.
Proof.
  intros o k H. unfold punct_kind_l in H. destruct (find (fun e => str_eqb (snd e) o) fixed_tokens) as [e|] eqn:E; [|discriminate H].
  apply find_some in E. destruct E as [Hin Heq]. apply str_eqb_eq in Heq. subst o.
  assert (G: forallb (fun e => str_eqb (despace (snd e)) (snd e)) fixed_tokens = true) by (vm_compute; reflexivity).
  apply str_eqb_eq. exact (proj1 (forallb_forall _ _) G e Hin).
Qed.

Lemma binop_punct : forall o, prec_lookup_s o <> None -> exists k, punct_kind_l o = Some k.
Proof.
  intros o H. destruct (prec_lookup_s o) as [p|] eqn:E; [|congruence]. unfold prec_lookup_s in E. apply assoc_str_In in E.
  pose proof (proj1 (forallb_forall _ _) op_entries_ok _ E) as Hk. unfold op_entry_ok in Hk. cbn [fst] in Hk.
  destruct (punct_kind_l o) as [k|]; [exists k; reflexivity|discriminate Hk].
Qed.

Fixpoint ids_nb (e: ex) : Prop :=
  match e with
  | XId a => despace a = a
  | XBin _ l r => ids_nb l /\ ids_nb r
  | XUn _ x => ids_nb x
  | XIdx b i => ids_nb b /\ ids_nb i
  | XMem b _ f => despace f = f /\ ids_nb b
  | XCond c t f => ids_nb c /\ ids_nb t /\ ids_nb f
  | XAsg _ l r => ids_nb l /\ ids_nb r
  end.

Definition spell (l: list (kind * str)) : str := concat (map snd l).
Lemma spell_app : forall a b, spell (a ++ b) = spell a ++ spell b.
Proof. intros a b. unfold spell. rewrite map_app, concat_app. reflexivity. Qed.
Lemma spell_parkv : forall x, spell (parkv x) = par (spell x).
Proof. intros x. unfold parkv, par. change ((K_LPAREN, s2l "(") :: x ++ [(K_RPAREN, s2l ")")]) with ([(K_LPAREN, s2l "(")] ++ x ++ [(K_RPAREN, s2l ")")]). rewrite !spell_app. reflexivity. Qed.
Lemma despace_par : forall x, despace (par x) = par (despace x).
Proof. intros x. unfold par. rewrite !despace_app. reflexivity. Qed.

(* the generated text, blanks removed, is the concatenation of the spellings of [xt rp e] *)
Theorem ptext_tokens : forall rp e, wf e -> ids_nb e -> despace (ptext rp e) = spell (xt rp e).
Proof.
  intros rp. induction e as [a|o l IHl r IHr|o x IHx|b IHb i IHi|b IHb ty fld|c IHc t IHt f IHf|o l IHl r IHr]; intros Hw Hn; cbn [wf] in Hw; cbn [ids_nb] in Hn.
  - cbn. rewrite app_nil_r. exact Hn.
  - destruct Hw as (Ho & Hl & Hr). destruct Hn as (Hnl & Hnr). destruct (binop_punct o Ho) as [k Hk].
    cbn [ptext xt]. rewrite !despace_app, spell_app. change ((opk o, o) :: ?y) with ([(opk o, o)] ++ y). rewrite spell_app.
    change (despace (s " ")) with (@nil N). cbn [app]. rewrite (punct_noblank o k Hk).
    change (spell [(opk o, o)]) with (o ++ []). rewrite app_nil_r.
    assert (EL: despace (if simple l || keepLx rp o l then ptext rp l else par (ptext rp l)) = spell (if keepLx rp o l then xt rp l else wrap l (xt rp l))).
    { unfold wrap. destruct (keepLx rp o l); [rewrite orb_true_r; apply IHl; assumption|]. rewrite orb_false_r.
      destruct (simple l); [apply IHl; assumption|]. rewrite despace_par, spell_parkv, (IHl Hl Hnl). reflexivity. }
    assert (ER: despace (if simple r || keepRx rp o r then ptext rp r else par (ptext rp r)) = spell (if keepRx rp o r then xt rp r else wrap r (xt rp r))).
    { unfold wrap. destruct (keepRx rp o r); [rewrite orb_true_r; apply IHr; assumption|]. rewrite orb_false_r.
      destruct (simple r); [apply IHr; assumption|]. rewrite despace_par, spell_parkv, (IHr Hr Hnr). reflexivity. }
    apply f_equal2; [exact EL|]. apply (f_equal (app o)). exact ER.
  - destruct Hw as (Ho & Hx). unfold unop_ok in Ho. destruct (punct_kind_l o) as [k|] eqn:Hk; [|discriminate Ho].
    cbn [ptext xt]. rewrite despace_app. change ((opk o, o) :: ?y) with ([(opk o, o)] ++ y). rewrite spell_app.
    rewrite (punct_noblank o k Hk). change (spell [(opk o, o)]) with (o ++ []). rewrite app_nil_r. f_equal.
    unfold wrapt, wrap. destruct (simple x); [apply IHx; assumption|]. rewrite despace_par, spell_parkv, (IHx Hx Hn). reflexivity.
  - destruct Hw as (Hb & Hi). destruct Hn as (Hnb & Hni). cbn [ptext xt]. rewrite !despace_app, spell_app.
    change ((K_LBRACKET, s2l "[") :: ?y) with ([(K_LBRACKET, s2l "[")] ++ y). rewrite !spell_app. rewrite (IHi Hi Hni).
    assert (EB: despace (wrapt b (ptext rp b)) = spell (wrap b (xt rp b))).
    { unfold wrapt, wrap. destruct (simple b); [apply IHb; assumption|]. rewrite despace_par, spell_parkv, (IHb Hb Hnb). reflexivity. }
    rewrite EB. reflexivity.
  - destruct Hw as (Hm & Hb). destruct Hn as (Hnf & Hnb). unfold memop_ok in Hm. destruct (punct_kind_l ty) as [k|] eqn:Hk; [|discriminate Hm].
    cbn [ptext xt]. rewrite !despace_app, spell_app. rewrite (punct_noblank ty k Hk), Hnf.
    assert (EB: despace (wrapt b (ptext rp b)) = spell (wrap b (xt rp b))).
    { unfold wrapt, wrap. destruct (simple b); [apply IHb; assumption|]. rewrite despace_par, spell_parkv, (IHb Hb Hnb). reflexivity. }
    rewrite EB. f_equal. unfold spell. cbn [map concat snd]. rewrite ?app_nil_r. reflexivity.
  - destruct Hw as (Hc & Ht & Hf). destruct Hn as (Hnc & Hnt & Hnf). cbn [ptext xt]. rewrite !despace_app.
    rewrite (IHc Hc Hnc), (IHt Ht Hnt), (IHf Hf Hnf).
    rewrite spell_app. change ((K_CONDOP, s2l "?") :: ?y) with ([(K_CONDOP, s2l "?")] ++ y). rewrite spell_app.
    rewrite spell_app. change ((K_COLON, s2l ":") :: ?y) with ([(K_COLON, s2l ":")] ++ y). rewrite spell_app. rewrite !spell_parkv.
    unfold par. rewrite <- !app_assoc. reflexivity.
  - destruct Hw as (Ho & Hnl & Hl & Hr). destruct Hn as (Hnll & Hnr). unfold asgop_ok in Ho. destruct (punct_kind_l o) as [k|] eqn:Hk; [|discriminate Ho].
    cbn [ptext xt]. rewrite !despace_app, spell_app. change ((opk o, o) :: ?y) with ([(opk o, o)] ++ y). rewrite spell_app.
    change (despace (s " ")) with (@nil N). cbn [app]. rewrite (punct_noblank o k Hk). change (spell [(opk o, o)]) with (o ++ []). rewrite app_nil_r.
    rewrite (IHl Hl Hnll). destruct (isasg r); [rewrite despace_par, spell_parkv|]; rewrite (IHr Hr Hnr); reflexivity.
Qed.

(* ---- the theorems apply to something: `a[i].f = -b * (c ? d : e)` ---- *)
Definition ex_x : ex :=
  XAsg (s2l "=") (XMem (XIdx (XId (s2l "a")) (XId (s2l "i"))) (s2l ".") (s2l "f"))
       (XBin (s2l "*") (XUn (s2l "-") (XId (s2l "b"))) (XCond (XId (s2l "c")) (XId (s2l "d")) (XId (s2l "e")))).
Example expression_example :
  wf ex_x /\ ids_nb ex_x /\
  visit nat false 40 (embC nat ex_x) 0%Z = GOk (s2l "a[i].f = (-b) * ((c) ? (d) : (e))", 0%Z) /\
  map fst (xt false ex_x) = [K_ID; K_LBRACKET; K_ID; K_RBRACKET; K_PERIOD; K_ID; K_EQUALS; K_LPAREN; K_MINUS; K_ID; K_RPAREN; K_TIMES;
                             K_LPAREN; K_LPAREN; K_ID; K_RPAREN; K_CONDOP; K_LPAREN; K_ID; K_RPAREN; K_COLON; K_LPAREN; K_ID; K_RPAREN; K_RPAREN].
Proof.
  split; [cbn; repeat split; solve [reflexivity | discriminate]|]. split; [cbn; repeat split|]. split; vm_compute; reflexivity.
Qed.
