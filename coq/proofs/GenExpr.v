(* C07, generator side of RoundTripX: for every expression of the language [ex] the generator MODEL
   (Generator.visit: visit_ID, visit_Constant, visit_BinaryOp, visit_UnaryOp, visit_ArrayRef,
   visit_StructRef, visit_FuncCall, visit_TernaryOp, visit_Assignment, visit_ExprList with
   _parenthesize_unless_simple / _parenthesize_if / _visit_expr) prints [ptext rp e], and that text,
   blanks removed, is the concatenation of the spellings of the token sequence [xt rp e]. *)
From Coq Require Import String.
From Coq Require Import List NArith ZArith Bool Arith Lia.
Import ListNotations.
From PV Require Import Regex Base AstDefs AstSpec AstImpl GenTables NodeModel Generator ClimbProofs GenParen GenBinop.
From PV Require Import LexTables ParserTables LexerProofs TableProofs RoundTrip RoundTripGen RoundTripX.
Open Scope nat_scope.

Section GX.
Variable C : Type.
Variable rp : bool.
Notation node := (value C).

(* the Typename node of a type name made of simple specifiers *)
Definition tdC (vs: list str) : node := VNode C_TypeDecl [VNone; VList []; VNone; VNode C_IdentifierType [VList (map (fun v => VStr v) vs)] None] None.
Definition tnC (vs: list str) : node := VNode C_Typename [VNone; VList []; VNone; tdC vs] None.

Fixpoint embC (e: ex) : node :=
  match e with
  | XId a => VNode C_ID [VStr a] None
  | XConst _ v ty => VNode C_Constant [VStr ty; VStr v] None
  | XBin o l r => VNode C_BinaryOp [VStr o; embC l; embC r] None
  | XUn o x | XPre o x => VNode C_UnaryOp [VStr o; embC x] None
  | XPost o x => VNode C_UnaryOp [VStr (112%N :: o); embC x] None
  | XSizeof x => VNode C_UnaryOp [VStr (s2l "sizeof"); embC x] None
  | XIdx b i => VNode C_ArrayRef [embC b; embC i] None
  | XMem b ty f => VNode C_StructRef [embC b; VStr ty; VNode C_ID [VStr f] None] None
  | XCall b args => VNode C_FuncCall [embC b; match args with [] => VNone | _ => VNode C_ExprList [VList (map embC args)] None end] None
  | XCond c t f => VNode C_TernaryOp [embC c; embC t; embC f] None
  | XAsg o l r => VNode C_Assignment [VStr o; embC l; embC r] None
  | XComma es => VNode C_ExprList [VList (map embC es)] None
  | XCast ty x => VNode C_Cast [tnC (map snd ty); embC x] None
  | XSizeofT ty => VNode C_UnaryOp [VStr (s2l "sizeof"); tnC (map snd ty)] None
  end.

Definition vxt (e: ex) (t: str) : str := if iscomma e then par t else t.       (* _visit_expr *)
Definition wrapt (e: ex) (t: str) : str := if simple e then t else par (vxt e t).
Fixpoint ptext (e: ex) : str :=
  match e with
  | XId a => a
  | XConst _ v _ => v
  | XBin o l r =>
    (if simple l || keepLx rp o l then ptext l else par (vxt l (ptext l))) ++ s " " ++ o ++ s " " ++
    (if simple r || keepRx rp o r then ptext r else par (vxt r (ptext r)))
  | XUn o x | XPre o x => o ++ wrapt x (ptext x)
  | XPost o x => wrapt x (ptext x) ++ o
  | XSizeof x => s "sizeof(" ++ ptext x ++ s ")"
  | XIdx b i => wrapt b (ptext b) ++ s "[" ++ ptext i ++ s "]"
  | XMem b ty f => wrapt b (ptext b) ++ ty ++ f
  | XCall b args => wrapt b (ptext b) ++ s "(" ++ join_str (s ", ") (map (fun a => vxt a (ptext a)) args) ++ s ")"
  | XCond c t f => s "(" ++ vxt c (ptext c) ++ s ") ? (" ++ vxt t (ptext t) ++ s ") : (" ++ vxt f (ptext f) ++ s ")"
  | XAsg o l r => ptext l ++ s " " ++ o ++ s " " ++ (if isasg r then par (ptext r) else vxt r (ptext r))
  | XComma es => join_str (s ", ") (map (fun a => vxt a (ptext a)) es)
  | XCast ty x => s "(" ++ join_str (s " ") (map snd ty) ++ s ")" ++ s " " ++ wrapt x (ptext x)
  | XSizeofT ty => s "sizeof(" ++ join_str (s " ") (map snd ty) ++ s ")"
  end.

(* ---- one-step equations of the generator model (by computation against Generator.v) ---- *)
Lemma visit_const : forall f v ty co st, visit C rp (S f) (VNode C_Constant [VStr ty; VStr v] co) st = GOk (v, st).
Proof. reflexivity. Qed.
Lemma visit_un_raw : forall f o x co,
  visit C rp (S f) (VNode C_UnaryOp [VStr o; x] co) =
  (if str_eqb o (s "sizeof") then gbind (visit C rp f x) (fun t => gret (s "sizeof(" ++ t ++ s ")"))
   else if str_eqb o (s "p++") then gbind (paren_unless_simple C rp f x) (fun t => gret (t ++ s "++"))
   else if str_eqb o (s "p--") then gbind (paren_unless_simple C rp f x) (fun t => gret (t ++ s "--"))
   else gbind (paren_unless_simple C rp f x) (fun t => gret (o ++ t))).
Proof. reflexivity. Qed.
Lemma visit_idx : forall f b i co,
  visit C rp (S f) (VNode C_ArrayRef [b; i] co) =
  gbind (paren_unless_simple C rp f b) (fun a => gbind (visit C rp f i) (fun t => gret (a ++ s "[" ++ t ++ s "]"))).
Proof. reflexivity. Qed.
Lemma visit_mem : forall f b ty fl co,
  visit C rp (S f) (VNode C_StructRef [b; VStr ty; fl] co) =
  gbind (paren_unless_simple C rp f b) (fun a => gbind (visit C rp f fl) (fun t => gret (a ++ ty ++ t))).
Proof. reflexivity. Qed.
Lemma visit_call : forall f b ar co,
  visit C rp (S f) (VNode C_FuncCall [b; ar] co) =
  gbind (paren_unless_simple C rp f b) (fun a =>
  gbind (match ar with VNone => gret [] | _ => visit C rp f ar end) (fun t => gret (a ++ s "(" ++ t ++ s ")"))).
Proof. reflexivity. Qed.
Lemma visit_exprlist : forall f es co,
  visit C rp (S f) (VNode C_ExprList [VList es] co) =
  gbind (mapM (visit_expr C rp f) es) (fun xs => gret (join_str (s ", ") xs)).
Proof. reflexivity. Qed.
Lemma visit_ternary : forall f c t e co,
  visit C rp (S f) (VNode C_TernaryOp [c; t; e] co) =
  gbind (visit_expr C rp f c) (fun a => gbind (visit_expr C rp f t) (fun b => gbind (visit_expr C rp f e) (fun c1 =>
  gret (s "(" ++ a ++ s ") ? (" ++ b ++ s ") : (" ++ c1 ++ s ")")))).
Proof. reflexivity. Qed.
Lemma visit_asg : forall f o l r co,
  visit C rp (S f) (VNode C_Assignment [VStr o; l; r] co) =
  gbind (visit_expr C rp f r) (fun rs => gbind (visit C rp f l) (fun ls =>
  gret (ls ++ s " " ++ o ++ s " " ++ (if is_c C C_Assignment r then s "(" ++ rs ++ s ")" else rs)))).
Proof. reflexivity. Qed.
Lemma visit_cast : forall f tt e co,
  visit C rp (S f) (VNode C_Cast [tt; e] co) =
  gbind (generate_type C rp f tt [] false) (fun t => gbind (paren_unless_simple C rp f e) (fun x => gret (s "(" ++ t ++ s ")" ++ s " " ++ x))).
Proof. reflexivity. Qed.

Lemma strs_of_strs : forall vs (st: Z), strs_of C (map (fun v => VStr v) vs) st = GOk (vs, st).
Proof. induction vs as [|v vs IH]; intros st; [reflexivity|]. cbn [map strs_of]. unfold gbind. rewrite IH. reflexivity. Qed.

(* _generate_type on such a Typename (emit_declname either way), and visit_Typename: the names joined by blanks *)
Lemma gen_td : forall f vs em st, generate_type C rp (S (S f)) (tdC vs) [] em st = GOk (join_str (s " ") vs, st).
Proof.
  intros f vs em st.
  change (generate_type C rp (S (S f)) (tdC vs) [] em st) with
    (gbind (join_strs C (s " ") (VList (map (fun v => VStr v) vs))) (fun ts0 => gret (ts0 ++ [])) st).
  unfold gbind at 1. unfold join_strs, join_list. unfold gbind at 1. rewrite strs_of_strs. unfold gret. rewrite app_nil_r. reflexivity.
Qed.
Lemma gen_tn : forall f vs em st, generate_type C rp (S (S (S f))) (tnC vs) [] em st = GOk (join_str (s " ") vs, st).
Proof. intros f vs em st. change (generate_type C rp (S (S (S f))) (tnC vs) [] em st) with (generate_type C rp (S (S f)) (tdC vs) [] em st). apply gen_td. Qed.
Lemma visit_tn : forall f vs st, visit C rp (S (S (S f))) (tnC vs) st = GOk (join_str (s " ") vs, st).
Proof. intros f vs st. change (visit C rp (S (S (S f))) (tnC vs) st) with (generate_type C rp (S (S f)) (tdC vs) [] true st). apply gen_td. Qed.

Lemma pus_eq : forall f n, paren_unless_simple C rp (S f) n =
  gbind (visit_expr C rp f n) (fun x => if is_simple C n then gret x else gret (s "(" ++ x ++ s ")")).
Proof. reflexivity. Qed.

(* _visit_expr: a comma expression gets parentheses, everything else is visited as it is *)
Lemma visit_expr_emb : forall f e, visit_expr C rp (S f) (embC e) =
  if iscomma e then gbind (visit C rp f (embC e)) (fun x => gret (s "(" ++ x ++ s ")")) else visit C rp f (embC e).
Proof. intros f e. destruct e; reflexivity. Qed.
Lemma is_simple_emb : forall e, is_simple C (embC e) = simple e.
Proof. destruct e; reflexivity. Qed.
Lemma is_asg_emb : forall e, is_c C C_Assignment (embC e) = isasg e.
Proof. destruct e; reflexivity. Qed.

Lemma vexpr_emb : forall f e t st, visit C rp f (embC e) st = GOk (t, st) -> visit_expr C rp (S f) (embC e) st = GOk (vxt e t, st).
Proof.
  intros f e t st H. rewrite visit_expr_emb. unfold vxt, par. destruct (iscomma e); [|exact H]. unfold gbind. rewrite H. reflexivity.
Qed.

Lemma cond_left_x : forall o l st, prec_lookup_s o <> None -> wf l ->
  GenBinop.cond C rp o false (embC l) st = GOk (negb (simple l || keepLx rp o l), st).
Proof.
  intros o l st Ho Hw. unfold GenBinop.cond. rewrite is_simple_emb. destruct l; try reflexivity.
  - cbn [simple orb keepLx embC]. change (is_c C C_BinaryOp (VNode C_BinaryOp [VStr o0; embC l1; embC l2] None)) with true. rewrite andb_true_r.
    destruct rp; [|reflexivity]. cbn [wf] in Hw. destruct Hw as (Ho0 & _).
    change (gattr C "op" (VNode C_BinaryOp [VStr o0; embC l1; embC l2] None)) with (@gret (value C) (VStr o0)).
    unfold as_str, gbind, gret, gcrash, gprec. cbv beta iota. cbn [andb].
    destruct (prec_lookup_s o0) as [pd|]; [|congruence]. destruct (prec_lookup_s o) as [pn|]; [|congruence]. reflexivity.
  - cbn [simple orb keepLx embC]. change (is_c C C_BinaryOp (VNode C_UnaryOp [VStr o0; embC l] None)) with false. rewrite andb_false_r. reflexivity.
  - cbn [simple orb keepLx embC]. change (is_c C C_BinaryOp (VNode C_UnaryOp [VStr o0; embC l] None)) with false. rewrite andb_false_r. reflexivity.
  - cbn [simple orb keepLx embC]. change (is_c C C_BinaryOp (VNode C_UnaryOp [VStr (112%N :: o0); embC l] None)) with false. rewrite andb_false_r. reflexivity.
  - cbn [simple orb keepLx embC]. change (is_c C C_BinaryOp (VNode C_UnaryOp [VStr (s2l "sizeof"); embC l] None)) with false. rewrite andb_false_r. reflexivity.
  - cbn [simple orb keepLx embC]. change (is_c C C_BinaryOp (VNode C_TernaryOp [embC l1; embC l2; embC l3] None)) with false. rewrite andb_false_r. reflexivity.
  - cbn [simple orb keepLx embC]. change (is_c C C_BinaryOp (VNode C_Assignment [VStr o0; embC l1; embC l2] None)) with false. rewrite andb_false_r. reflexivity.
  - cbn [simple orb keepLx embC]. change (is_c C C_BinaryOp (VNode C_ExprList [VList (map embC es)] None)) with false. rewrite andb_false_r. reflexivity.
  - cbn [simple orb keepLx embC]. change (is_c C C_BinaryOp (VNode C_Cast [tnC (map snd ty); embC l] None)) with false. rewrite andb_false_r. reflexivity.
  - cbn [simple orb keepLx embC]. change (is_c C C_BinaryOp (VNode C_UnaryOp [VStr (s2l "sizeof"); tnC (map snd ty)] None)) with false. rewrite andb_false_r. reflexivity.
Qed.
Lemma cond_right_x : forall o r st, prec_lookup_s o <> None -> wf r ->
  GenBinop.cond C rp o true (embC r) st = GOk (negb (simple r || keepRx rp o r), st).
Proof.
  intros o l st Ho Hw. unfold GenBinop.cond. rewrite is_simple_emb. destruct l; try reflexivity.
  - cbn [simple orb keepRx embC]. change (is_c C C_BinaryOp (VNode C_BinaryOp [VStr o0; embC l1; embC l2] None)) with true. rewrite andb_true_r.
    destruct rp; [|reflexivity]. cbn [wf] in Hw. destruct Hw as (Ho0 & _).
    change (gattr C "op" (VNode C_BinaryOp [VStr o0; embC l1; embC l2] None)) with (@gret (value C) (VStr o0)).
    unfold as_str, gbind, gret, gcrash, gprec. cbv beta iota. cbn [andb].
    destruct (prec_lookup_s o0) as [pd|]; [|congruence]. destruct (prec_lookup_s o) as [pn|]; [|congruence]. reflexivity.
  - cbn [simple orb keepRx embC]. change (is_c C C_BinaryOp (VNode C_UnaryOp [VStr o0; embC l] None)) with false. rewrite andb_false_r. reflexivity.
  - cbn [simple orb keepRx embC]. change (is_c C C_BinaryOp (VNode C_UnaryOp [VStr o0; embC l] None)) with false. rewrite andb_false_r. reflexivity.
  - cbn [simple orb keepRx embC]. change (is_c C C_BinaryOp (VNode C_UnaryOp [VStr (112%N :: o0); embC l] None)) with false. rewrite andb_false_r. reflexivity.
  - cbn [simple orb keepRx embC]. change (is_c C C_BinaryOp (VNode C_UnaryOp [VStr (s2l "sizeof"); embC l] None)) with false. rewrite andb_false_r. reflexivity.
  - cbn [simple orb keepRx embC]. change (is_c C C_BinaryOp (VNode C_TernaryOp [embC l1; embC l2; embC l3] None)) with false. rewrite andb_false_r. reflexivity.
  - cbn [simple orb keepRx embC]. change (is_c C C_BinaryOp (VNode C_Assignment [VStr o0; embC l1; embC l2] None)) with false. rewrite andb_false_r. reflexivity.
  - cbn [simple orb keepRx embC]. change (is_c C C_BinaryOp (VNode C_ExprList [VList (map embC es)] None)) with false. rewrite andb_false_r. reflexivity.
  - cbn [simple orb keepRx embC]. change (is_c C C_BinaryOp (VNode C_Cast [tnC (map snd ty); embC l] None)) with false. rewrite andb_false_r. reflexivity.
  - cbn [simple orb keepRx embC]. change (is_c C C_BinaryOp (VNode C_UnaryOp [VStr (s2l "sizeof"); tnC (map snd ty)] None)) with false. rewrite andb_false_r. reflexivity.
Qed.

(* the spelling of a prefix operator is not one of the three special op strings of UnaryOp *)
Lemma unop_not_special : forall o, unop_ok o = true ->
  str_eqb o (s "sizeof") = false /\ str_eqb o (s "p++") = false /\ str_eqb o (s "p--") = false.
Proof.
  intros o H. unfold unop_ok in H.
  assert (G: forall x, punct_kind_l x = None -> str_eqb o x = false).
  { intros x Hx. destruct (str_eqb o x) eqn:E; [|reflexivity]. apply str_eqb_eq in E. subst x. rewrite Hx in H. discriminate H. }
  repeat split; apply G; vm_compute; reflexivity.
Qed.

Lemma incdec_spelling : forall o, incdec_ok o = true -> o = s "++" \/ o = s "--".
Proof.
  intros o H. unfold incdec_ok in H. unfold punct_kind_l in H.
  destruct (find (fun e => str_eqb (snd e) o) fixed_tokens) as [[k sp]|] eqn:E; [|discriminate H]. cbn [option_map fst] in H.
  apply find_some in E. destruct E as [Hin Heq]. cbn [snd] in Heq. apply str_eqb_eq in Heq. subst o.
  assert (G: forallb (fun e => negb (kind_eqb (fst e) K_PLUSPLUS || kind_eqb (fst e) K_MINUSMINUS) || str_eqb (snd e) (s "++") || str_eqb (snd e) (s "--")) fixed_tokens = true) by (vm_compute; reflexivity).
  pose proof (proj1 (forallb_forall _ _) G _ Hin) as He. cbn [fst snd] in He. rewrite H in He. cbn [negb orb] in He.
  apply orb_true_iff in He. destruct He as [He|He]; apply str_eqb_eq in He; [left|right]; exact He.
Qed.

(* paren_unless_simple on an embedded expression *)
Lemma pus_emb : forall f e t st, visit C rp f (embC e) st = GOk (t, st) ->
  paren_unless_simple C rp (S (S f)) (embC e) st = GOk (wrapt e t, st).
Proof.
  intros f e t st H. rewrite pus_eq. unfold gbind at 1. rewrite (vexpr_emb f e t st H). rewrite is_simple_emb.
  unfold wrapt, vxt, par. destruct (simple e) eqn:Es.
  - destruct e; try discriminate Es; reflexivity.
  - reflexivity.
Qed.

(* mapM visit_expr over a list of embedded expressions *)
Lemma mapM_vexpr : forall f l st, (forall a, In a l -> visit C rp f (embC a) st = GOk (ptext a, st)) ->
  mapM (visit_expr C rp (S f)) (map embC l) st = GOk (map (fun a => vxt a (ptext a)) l, st).
Proof.
  intros f l st. induction l as [|x r IH]; intros H; [reflexivity|]. cbn [map mapM].
  unfold gbind at 1. rewrite (vexpr_emb f x (ptext x) st (H x (or_introl eq_refl))).
  unfold gbind at 1. rewrite IH by (intros a Ha; apply H; right; exact Ha). reflexivity.
Qed.

Lemma size_pos : forall e, 1 <= size e.
Proof. destruct e; cbn [size]; lia. Qed.

Theorem visit_prints_x : forall n e, size e <= n -> wf e -> forall fuel st, 3 * size e <= fuel -> visit C rp fuel (embC e) st = GOk (ptext e, st).
Proof.
  induction n as [|n IH]; intros e Hn Hw fuel st Hf; [pose proof (size_pos e); lia|].
  assert (IHl: forall l f, wfl l -> list_sum (map size l) <= n -> 3 * list_sum (map size l) <= f ->
               forall a, In a l -> visit C rp f (embC a) st = GOk (ptext a, st)).
  { intros l f Hwl Hs Hfl a Ha. pose proof (in_sum l a Ha) as Hsa. apply IH; [lia| |lia].
    exact (proj1 (Forall_forall _ _) (wfl_Forall l Hwl) a Ha). }
  destruct e as [a|k v ty|o l r|o x|o x|o x|x|b i|b ty fld|b args|c t f|o l r|es|ty x|ty]; cbn [size] in Hn, Hf; cbn [wf] in Hw.
  - destruct fuel as [|fu]; [lia|]. reflexivity.
  - destruct fuel as [|fu]; [lia|]. reflexivity.
  - destruct Hw as (Ho & Hl & Hr). destruct fuel as [|[|[|fu]]]; try lia. cbn [embC]. rewrite visit_binop.
    unfold gbind at 1. rewrite (vexpr_emb (S fu) l (ptext l) st) by (apply IH; [lia|exact Hl|lia]).
    unfold gbind at 1. rewrite (cond_left_x o l st Ho Hl).
    unfold gbind at 1. rewrite (vexpr_emb (S fu) r (ptext r) st) by (apply IH; [lia|exact Hr|lia]).
    unfold gbind at 1. rewrite (cond_right_x o r st Ho Hr). unfold gret. cbn [ptext]. unfold par, vxt.
    destruct (simple l || keepLx rp o l) eqn:EL; destruct (simple r || keepRx rp o r) eqn:ER; cbn [negb].
    + assert (Hcl: iscomma l = false) by (destruct l; try reflexivity; discriminate EL). assert (Hcr: iscomma r = false) by (destruct r; try reflexivity; discriminate ER).
      rewrite Hcl, Hcr. reflexivity.
    + assert (Hcl: iscomma l = false) by (destruct l; try reflexivity; discriminate EL). rewrite Hcl. reflexivity.
    + assert (Hcr: iscomma r = false) by (destruct r; try reflexivity; discriminate ER). rewrite Hcr. reflexivity.
    + reflexivity.
  - destruct Hw as (Ho & Hx). destruct (unop_not_special o Ho) as (H1 & H2 & H3). destruct fuel as [|[|[|fu]]]; try lia.
    cbn [embC]. rewrite visit_un_raw. rewrite H1, H2, H3. unfold gbind at 1. rewrite (pus_emb fu x (ptext x) st); [reflexivity|]. apply IH; [lia|exact Hx|lia].
  - destruct Hw as (Ho & Hx). destruct (incdec_spelling o Ho) as [-> | ->]; destruct fuel as [|[|[|fu]]]; try lia;
      cbn [embC]; rewrite visit_un_raw; cbv iota;
      change (str_eqb (s "++") (s "sizeof")) with false; change (str_eqb (s "++") (s "p++")) with false; change (str_eqb (s "++") (s "p--")) with false;
      change (str_eqb (s "--") (s "sizeof")) with false; change (str_eqb (s "--") (s "p++")) with false; change (str_eqb (s "--") (s "p--")) with false; cbv iota;
      unfold gbind at 1; (rewrite (pus_emb fu x (ptext x) st); [reflexivity|]); apply IH; try exact Hx; lia.
  - destruct Hw as (Ho & Hx). destruct (incdec_spelling o Ho) as [-> | ->]; destruct fuel as [|[|[|fu]]]; try lia;
      cbn [embC]; rewrite visit_un_raw;
      [change (str_eqb (112%N :: s "++") (s "sizeof")) with false; change (str_eqb (112%N :: s "++") (s "p++")) with true
      |change (str_eqb (112%N :: s "--") (s "sizeof")) with false; change (str_eqb (112%N :: s "--") (s "p++")) with false; change (str_eqb (112%N :: s "--") (s "p--")) with true];
      cbv iota; unfold gbind at 1; (rewrite (pus_emb fu x (ptext x) st); [reflexivity|]); apply IH; try exact Hx; lia.
  - destruct fuel as [|[|[|fu]]]; try lia. cbn [embC]. rewrite visit_un_raw. change (str_eqb (s2l "sizeof") (s "sizeof")) with true. cbv iota.
    unfold gbind at 1. rewrite (IH x) by (try exact Hw; lia). reflexivity.
  - destruct Hw as (Hb & Hi). destruct fuel as [|[|[|fu]]]; try lia. cbn [embC]. rewrite visit_idx.
    unfold gbind at 1. rewrite (pus_emb fu b (ptext b) st) by (apply IH; [lia|exact Hb|lia]).
    unfold gbind at 1. rewrite (IH i) by (try exact Hi; lia). reflexivity.
  - destruct Hw as (Hm & Hb). destruct fuel as [|[|[|fu]]]; try lia. cbn [embC]. rewrite visit_mem.
    unfold gbind at 1. rewrite (pus_emb fu b (ptext b) st) by (apply IH; [lia|exact Hb|lia]). reflexivity.
  - destruct Hw as (Hb & Hargs). pose proof (size_pos b) as Hpb. destruct fuel as [|[|[|fu]]]; try lia. cbn [embC]. rewrite visit_call.
    unfold gbind at 1. rewrite (pus_emb fu b (ptext b) st) by (apply IH; [lia|exact Hb|lia]).
    destruct args as [|a1 rest]; [reflexivity|]. unfold gbind at 1.
    pose proof (size_pos a1) as Hpa. change (list_sum (map size (a1 :: rest))) with (size a1 + list_sum (map size rest)) in Hf, Hn.
    rewrite visit_exprlist. unfold gbind at 1.
    rewrite (mapM_vexpr fu (a1 :: rest) st); [reflexivity|]. apply (IHl (a1 :: rest) fu Hargs).
    + change (list_sum (map size (a1 :: rest))) with (size a1 + list_sum (map size rest)). lia.
    + change (list_sum (map size (a1 :: rest))) with (size a1 + list_sum (map size rest)). lia.
  - destruct Hw as (Hc & Ht & Hff). destruct fuel as [|[|[|fu]]]; try lia. cbn [embC]. rewrite visit_ternary.
    unfold gbind at 1. rewrite (vexpr_emb (S fu) c (ptext c) st) by (apply IH; [lia|exact Hc|lia]).
    unfold gbind at 1. rewrite (vexpr_emb (S fu) t (ptext t) st) by (apply IH; [lia|exact Ht|lia]).
    unfold gbind at 1. rewrite (vexpr_emb (S fu) f (ptext f) st) by (apply IH; [lia|exact Hff|lia]). reflexivity.
  - destruct Hw as (Ho & Hnl & Hncl & Hl & Hr). destruct fuel as [|[|[|fu]]]; try lia. cbn [embC]. rewrite visit_asg.
    unfold gbind at 1. rewrite (vexpr_emb (S fu) r (ptext r) st) by (apply IH; [lia|exact Hr|lia]).
    unfold gbind at 1. rewrite (IH l) by (try exact Hl; lia). rewrite is_asg_emb. unfold gret. cbn [ptext]. unfold par, vxt.
    destruct (isasg r) eqn:Ea; [|reflexivity]. destruct r; try discriminate Ea. reflexivity.
  - destruct Hw as (Hlen & Hes). destruct fuel as [|[|fu]]; try lia.
    cbn [embC]. rewrite visit_exprlist. unfold gbind at 1.
    rewrite (mapM_vexpr fu es st); [reflexivity|]. apply (IHl es fu Hes); lia.
  - destruct Hw as (_ & Hx). pose proof (size_pos x) as Hpx. destruct fuel as [|[|[|[|[|fu]]]]]; try lia. cbn [embC]. rewrite visit_cast.
    unfold gbind at 1. rewrite gen_tn. unfold gbind at 1. rewrite (pus_emb (S (S fu)) x (ptext x) st) by (apply IH; [lia|exact Hx|lia]). reflexivity.
  - destruct fuel as [|[|[|[|[|[|fu]]]]]]; try lia. cbn [embC]. rewrite visit_un_raw. change (str_eqb (s2l "sizeof") (s "sizeof")) with true. cbv iota.
    unfold gbind at 1. rewrite visit_tn. reflexivity.
Qed.
End GX.

(* ---- the text and the tokens ---- *)
Definition nb (c: N) : bool := negb (N.eqb c 32).
Definition despace (t: str) : str := filter nb t.

Lemma despace_app : forall a b, despace (a ++ b) = despace a ++ despace b.
Proof. intros a b. unfold despace. apply filter_app. Qed.

Lemma punct_noblank : forall o k, punct_kind_l o = Some k -> despace o = o.
Proof.
  intros o k H. unfold punct_kind_l in H. destruct (find (fun e => str_eqb (snd e) o) fixed_tokens) as [e|] eqn:E; [|discriminate H].
  apply find_some in E. destruct E as [Hin Heq]. apply str_eqb_eq in Heq. subst o.
  assert (G: forallb (fun e => str_eqb (despace (snd e)) (snd e)) fixed_tokens = true) by (vm_compute; reflexivity).
  apply str_eqb_eq. exact (proj1 (forallb_forall _ _) G e Hin).
Qed.

Lemma binop_punct : forall o, prec_lookup_s o <> None -> exists k, punct_kind_l o = Some k.
Proof.
  intros o H. destruct (prec_lookup_s o) as [p|] eqn:E; [|congruence]. unfold prec_lookup_s in E. apply assoc_str_In in E.
  pose proof (proj1 (forallb_forall _ _) op_entries_ok _ E) as Hk. unfold op_entry_ok in Hk. cbn [fst] in Hk.
  destruct (punct_kind_l o) as [k|]; [exists k; reflexivity|discriminate Hk].
Qed.

Definition spell0 (l: list (kind * str)) : str := concat (map snd l).

(* identifiers, constants and type keywords are spelled without blanks *)
Fixpoint ids_nb (e: ex) : Prop :=
  match e with
  | XId a => despace a = a
  | XConst _ v _ => despace v = v
  | XBin _ l r => ids_nb l /\ ids_nb r
  | XUn _ x | XPre _ x | XPost _ x | XSizeof x => ids_nb x
  | XIdx b i => ids_nb b /\ ids_nb i
  | XMem b _ f => despace f = f /\ ids_nb b
  | XCall b args => ids_nb b /\ (fix nl (l: list ex) : Prop := match l with [] => True | x :: r => ids_nb x /\ nl r end) args
  | XCond c t f => ids_nb c /\ ids_nb t /\ ids_nb f
  | XAsg _ l r => ids_nb l /\ ids_nb r
  | XComma es => (fix nl (l: list ex) : Prop := match l with [] => True | x :: r => ids_nb x /\ nl r end) es
  | XCast ty x => despace (spell0 ty) = spell0 ty /\ ids_nb x
  | XSizeofT ty => despace (spell0 ty) = spell0 ty
  end.
Definition nbl (l: list ex) : Prop := (fix nl (l: list ex) : Prop := match l with [] => True | x :: r => ids_nb x /\ nl r end) l.
Lemma nbl_Forall : forall l, nbl l -> Forall ids_nb l.
Proof. induction l as [|x r IH]; intros H; [constructor|]. destruct H as [H1 H2]. constructor; [exact H1|apply IH; exact H2]. Qed.

Definition spell (l: list (kind * str)) : str := concat (map snd l).
Lemma spell_app : forall a b, spell (a ++ b) = spell a ++ spell b.
Proof. intros a b. unfold spell. rewrite map_app, concat_app. reflexivity. Qed.
Lemma spell_parkv : forall x, spell (parkv x) = par (spell x).
Proof. intros x. unfold parkv, par. change ((K_LPAREN, s2l "(") :: x ++ [(K_RPAREN, s2l ")")]) with ([(K_LPAREN, s2l "(")] ++ x ++ [(K_RPAREN, s2l ")")]). rewrite !spell_app. reflexivity. Qed.
Lemma despace_par : forall x, despace (par x) = par (despace x).
Proof. intros x. unfold par. rewrite !despace_app. reflexivity. Qed.

Lemma vx_text : forall e t k, despace t = spell k -> despace (vxt e t) = spell (vx e k).
Proof. intros e t k H. unfold vxt, vx. destruct (iscomma e); [rewrite despace_par, spell_parkv, H; reflexivity|exact H]. Qed.
Lemma wrap_text : forall e t k, despace t = spell k -> despace (wrapt e t) = spell (wrap e k).
Proof. intros e t k H. unfold wrapt, wrap. destruct (simple e); [exact H|]. rewrite despace_par, spell_parkv, (vx_text e t k H). reflexivity. Qed.

Lemma join_text : forall (ts: list str) (ks: list (list (kind * str))), Forall2 (fun t k => despace t = spell k) ts ks ->
  despace (join_str (s ", ") ts) = spell (commas ks).
Proof.
  intros ts ks H. induction H as [|t k ts ks Htk H IH]; [reflexivity|].
  destruct H as [|t2 k2 ts2 ks2 Htk2 H2]; [cbn; exact Htk|].
  change (join_str (s ", ") (t :: t2 :: ts2)) with (t ++ s ", " ++ join_str (s ", ") (t2 :: ts2)).
  change (commas (k :: k2 :: ks2)) with (k ++ (K_COMMA, s2l ",") :: commas (k2 :: ks2)).
  rewrite !despace_app, spell_app. change ((K_COMMA, s2l ",") :: ?y) with ([(K_COMMA, s2l ",")] ++ y). rewrite spell_app.
  rewrite IH, Htk. reflexivity.
Qed.

(* names joined by blanks: the blanks go *)
Lemma despace_join_blank : forall vs, despace (join_str (s " ") vs) = despace (concat vs).
Proof.
  induction vs as [|v vs IH]; [reflexivity|]. destruct vs as [|v2 vs2]; [cbn [join_str concat]; rewrite app_nil_r; reflexivity|].
  change (join_str (s " ") (v :: v2 :: vs2)) with (v ++ s " " ++ join_str (s " ") (v2 :: vs2)).
  change (concat (v :: v2 :: vs2)) with (v ++ concat (v2 :: vs2)). rewrite !despace_app, IH. reflexivity.
Qed.

(* the generated text, blanks removed, is the concatenation of the spellings of [xt rp e] *)
Theorem ptext_tokens : forall rp n e, size e <= n -> wf e -> ids_nb e -> despace (ptext rp e) = spell (xt rp e).
Proof.
  intros rp. induction n as [|n IH]; intros e Hsz Hw Hn; [pose proof (size_pos e); lia|].
  assert (IHl: forall l, wfl l -> nbl l -> list_sum (map size l) <= n ->
               Forall2 (fun t k => despace t = spell k) (map (fun a => vxt a (ptext rp a)) l) (map (fun a => vx a (xt rp a)) l)).
  { induction l as [|x r IHr]; intros Hwl Hnl Hs; [constructor|]. destruct Hwl as [Hwx Hwr]. destruct Hnl as [Hnx Hnr].
    change (list_sum (map size (x :: r))) with (size x + list_sum (map size r)) in Hs. cbn [map]. constructor.
    - apply vx_text. apply IH; [lia|exact Hwx|exact Hnx].
    - apply IHr; [exact Hwr|exact Hnr|lia]. }
  destruct e as [a|k v ty|o l r|o x|o x|o x|x|b i|b ty fld|b args|c t f|o l r|es|ty x|ty]; cbn [size] in Hsz; cbn [wf] in Hw; cbn [ids_nb] in Hn.
  - cbn. rewrite app_nil_r. exact Hn.
  - cbn. rewrite app_nil_r. exact Hn.
  - destruct Hw as (Ho & Hl & Hr). destruct Hn as (Hnl & Hnr). destruct (binop_punct o Ho) as [k Hk].
    assert (El: despace (ptext rp l) = spell (xt rp l)) by (apply IH; [lia|exact Hl|exact Hnl]).
    assert (Er: despace (ptext rp r) = spell (xt rp r)) by (apply IH; [lia|exact Hr|exact Hnr]).
    cbn [ptext xt]. rewrite !despace_app, spell_app. change ((opk o, o) :: ?y) with ([(opk o, o)] ++ y). rewrite spell_app.
    change (despace (s " ")) with (@nil N). cbn [app]. rewrite (punct_noblank o k Hk).
    change (spell [(opk o, o)]) with (o ++ []). rewrite app_nil_r.
    assert (EL: despace (if simple l || keepLx rp o l then ptext rp l else par (vxt l (ptext rp l))) = spell (if keepLx rp o l then xt rp l else wrap l (xt rp l))).
    { unfold wrap. destruct (keepLx rp o l); [rewrite orb_true_r; exact El|]. rewrite orb_false_r.
      destruct (simple l); [exact El|]. rewrite despace_par, spell_parkv, (vx_text l _ _ El). reflexivity. }
    assert (ER: despace (if simple r || keepRx rp o r then ptext rp r else par (vxt r (ptext rp r))) = spell (if keepRx rp o r then xt rp r else wrap r (xt rp r))).
    { unfold wrap. destruct (keepRx rp o r); [rewrite orb_true_r; exact Er|]. rewrite orb_false_r.
      destruct (simple r); [exact Er|]. rewrite despace_par, spell_parkv, (vx_text r _ _ Er). reflexivity. }
    apply f_equal2; [exact EL|]. apply (f_equal (app o)). exact ER.
  - destruct Hw as (Ho & Hx). unfold unop_ok in Ho. destruct (punct_kind_l o) as [k|] eqn:Hk; [|discriminate Ho].
    assert (Ex: despace (ptext rp x) = spell (xt rp x)) by (apply IH; [lia|exact Hx|exact Hn]).
    cbn [ptext xt]. rewrite despace_app. change ((opk o, o) :: ?y) with ([(opk o, o)] ++ y). rewrite spell_app.
    rewrite (punct_noblank o k Hk). change (spell [(opk o, o)]) with (o ++ []). rewrite app_nil_r. f_equal. apply wrap_text. exact Ex.
  - destruct Hw as (Ho & Hx). unfold incdec_ok in Ho. destruct (punct_kind_l o) as [k|] eqn:Hk; [|discriminate Ho].
    assert (Ex: despace (ptext rp x) = spell (xt rp x)) by (apply IH; [lia|exact Hx|exact Hn]).
    cbn [ptext xt]. rewrite despace_app. change ((opk o, o) :: ?y) with ([(opk o, o)] ++ y). rewrite spell_app.
    rewrite (punct_noblank o k Hk). change (spell [(opk o, o)]) with (o ++ []). rewrite app_nil_r. f_equal. apply wrap_text. exact Ex.
  - destruct Hw as (Ho & Hx). unfold incdec_ok in Ho. destruct (punct_kind_l o) as [k|] eqn:Hk; [|discriminate Ho].
    assert (Ex: despace (ptext rp x) = spell (xt rp x)) by (apply IH; [lia|exact Hx|exact Hn]).
    cbn [ptext xt]. rewrite despace_app, spell_app. rewrite (punct_noblank o k Hk), (wrap_text x _ _ Ex).
    f_equal. unfold spell. cbn [map concat snd]. rewrite app_nil_r. reflexivity.
  - assert (Ex: despace (ptext rp x) = spell (xt rp x)) by (apply IH; [lia|exact Hw|exact Hn]).
    cbn [ptext xt]. rewrite !despace_app. change ((K_SIZEOF, s2l "sizeof") :: ?y) with ([(K_SIZEOF, s2l "sizeof")] ++ y). rewrite spell_app, spell_parkv.
    rewrite Ex. reflexivity.
  - destruct Hw as (Hb & Hi). destruct Hn as (Hnb & Hni).
    assert (Eb: despace (ptext rp b) = spell (xt rp b)) by (apply IH; [lia|exact Hb|exact Hnb]).
    assert (Ei: despace (ptext rp i) = spell (xt rp i)) by (apply IH; [lia|exact Hi|exact Hni]).
    cbn [ptext xt]. rewrite !despace_app, spell_app.
    change ((K_LBRACKET, s2l "[") :: ?y) with ([(K_LBRACKET, s2l "[")] ++ y). rewrite !spell_app. rewrite Ei, (wrap_text b _ _ Eb). reflexivity.
  - destruct Hw as (Hm & Hb). destruct Hn as (Hnf & Hnb). unfold memop_ok in Hm. destruct (punct_kind_l ty) as [k|] eqn:Hk; [|discriminate Hm].
    assert (Eb: despace (ptext rp b) = spell (xt rp b)) by (apply IH; [lia|exact Hb|exact Hnb]).
    cbn [ptext xt]. rewrite !despace_app, spell_app. rewrite (punct_noblank ty k Hk), Hnf, (wrap_text b _ _ Eb).
    f_equal. unfold spell. cbn [map concat snd]. rewrite ?app_nil_r. reflexivity.
  - destruct Hw as (Hb & Hargs). destruct Hn as (Hnb & Hnargs).
    assert (Eb: despace (ptext rp b) = spell (xt rp b)) by (apply IH; [lia|exact Hb|exact Hnb]).
    cbn [ptext xt]. rewrite !despace_app, spell_app. change ((K_LPAREN, s2l "(") :: ?y) with ([(K_LPAREN, s2l "(")] ++ y). rewrite !spell_app.
    rewrite (wrap_text b _ _ Eb). rewrite (join_text _ _ (IHl args Hargs Hnargs ltac:(lia))). reflexivity.
  - destruct Hw as (Hc & Ht & Hf). destruct Hn as (Hnc & Hnt & Hnf).
    assert (Ec: despace (ptext rp c) = spell (xt rp c)) by (apply IH; [lia|exact Hc|exact Hnc]).
    assert (Et: despace (ptext rp t) = spell (xt rp t)) by (apply IH; [lia|exact Ht|exact Hnt]).
    assert (Ef: despace (ptext rp f) = spell (xt rp f)) by (apply IH; [lia|exact Hf|exact Hnf]).
    cbn [ptext xt]. rewrite !despace_app. rewrite (vx_text c _ _ Ec), (vx_text t _ _ Et), (vx_text f _ _ Ef).
    rewrite spell_app. change ((K_CONDOP, s2l "?") :: ?y) with ([(K_CONDOP, s2l "?")] ++ y). rewrite spell_app.
    rewrite spell_app. change ((K_COLON, s2l ":") :: ?y) with ([(K_COLON, s2l ":")] ++ y). rewrite spell_app. rewrite !spell_parkv.
    unfold par. rewrite <- !app_assoc. reflexivity.
  - destruct Hw as (Ho & Hnl & Hncl & Hl & Hr). destruct Hn as (Hnll & Hnr). unfold asgop_ok in Ho. destruct (punct_kind_l o) as [k|] eqn:Hk; [|discriminate Ho].
    assert (El: despace (ptext rp l) = spell (xt rp l)) by (apply IH; [lia|exact Hl|exact Hnll]).
    assert (Er: despace (ptext rp r) = spell (xt rp r)) by (apply IH; [lia|exact Hr|exact Hnr]).
    cbn [ptext xt]. rewrite !despace_app, spell_app. change ((opk o, o) :: ?y) with ([(opk o, o)] ++ y). rewrite spell_app.
    change (despace (s " ")) with (@nil N). cbn [app]. rewrite (punct_noblank o k Hk). change (spell [(opk o, o)]) with (o ++ []). rewrite app_nil_r.
    rewrite El. destruct (isasg r); [rewrite despace_par, spell_parkv, Er|rewrite (vx_text r _ _ Er)]; reflexivity.
  - destruct Hw as (Hlen & Hes). cbn [ptext xt]. apply join_text. apply IHl; [exact Hes|exact Hn|lia].
  - destruct Hw as (_ & Hx). destruct Hn as (Hty & Hnx).
    assert (Ex: despace (ptext rp x) = spell (xt rp x)) by (apply IH; [lia|exact Hx|exact Hnx]).
    cbn [ptext xt]. rewrite !despace_app. change ((K_LPAREN, s2l "(") :: ?y) with ([(K_LPAREN, s2l "(")] ++ y). rewrite !spell_app.
    change ((K_RPAREN, s2l ")") :: ?y) with ([(K_RPAREN, s2l ")")] ++ y). rewrite spell_app.
    rewrite (wrap_text x _ _ Ex), (despace_join_blank (map snd ty)). unfold spell0 in Hty. change (spell ty) with (concat (map snd ty)). rewrite Hty. reflexivity.
  - cbn [ptext xt]. rewrite !despace_app. change ((K_SIZEOF, s2l "sizeof") :: ?y) with ([(K_SIZEOF, s2l "sizeof")] ++ y). rewrite spell_app.
    change ((K_LPAREN, s2l "(") :: ?y) with ([(K_LPAREN, s2l "(")] ++ y). rewrite !spell_app.
    rewrite (despace_join_blank (map snd ty)). unfold spell0 in Hn. change (spell ty) with (concat (map snd ty)). rewrite Hn. reflexivity.
Qed.

(* ---- the theorems apply to something: `a[i].f = -b * (c ? d : e), g(1, (x, y))` ---- *)
Definition ex_x : ex :=
  XComma [XAsg (s2l "=") (XMem (XIdx (XId (s2l "a")) (XId (s2l "i"))) (s2l ".") (s2l "f"))
            (XBin (s2l "*") (XUn (s2l "-") (XId (s2l "b"))) (XCond (XId (s2l "c")) (XId (s2l "d")) (XId (s2l "e"))));
          XCall (XId (s2l "g")) [XConst K_INT_CONST_DEC (s2l "1") (s2l "int"); XComma [XId (s2l "x"); XId (s2l "y")]]].
Example expression_example :
  wf ex_x /\ ids_nb ex_x /\
  visit nat false 80 (embC nat ex_x) 0%Z = GOk (s2l "a[i].f = (-b) * ((c) ? (d) : (e)), g(1, (x, y))", 0%Z) /\
  map fst (xt false ex_x) = [K_ID; K_LBRACKET; K_ID; K_RBRACKET; K_PERIOD; K_ID; K_EQUALS; K_LPAREN; K_MINUS; K_ID; K_RPAREN; K_TIMES;
                             K_LPAREN; K_LPAREN; K_ID; K_RPAREN; K_CONDOP; K_LPAREN; K_ID; K_RPAREN; K_COLON; K_LPAREN; K_ID; K_RPAREN; K_RPAREN;
                             K_COMMA; K_ID; K_LPAREN; K_INT_CONST_DEC; K_COMMA; K_LPAREN; K_ID; K_COMMA; K_ID; K_RPAREN; K_RPAREN].
Proof.
  split; [cbn; repeat split; solve [reflexivity | discriminate | lia]|]. split; [cbn; repeat split|]. split; vm_compute; reflexivity.
Qed.

(* casts and sizeof of a type name: `((unsigned long) (a + 1)) * (sizeof(int))` *)
Definition ex_c : ex :=
  XBin (s2l "*") (XCast [(K_UNSIGNED, s2l "unsigned"); (K_LONG, s2l "long")] (XBin (s2l "+") (XId (s2l "a")) (XConst K_INT_CONST_DEC (s2l "1") (s2l "int"))))
       (XSizeofT [(K_INT, s2l "int")]).
Example cast_example :
  wf ex_c /\ ids_nb ex_c /\
  visit nat false 80 (embC nat ex_c) 0%Z = GOk (s2l "((unsigned long) (a + 1)) * (sizeof(int))", 0%Z) /\
  map fst (xt false ex_c) = [K_LPAREN; K_LPAREN; K_UNSIGNED; K_LONG; K_RPAREN; K_LPAREN; K_ID; K_PLUS; K_INT_CONST_DEC; K_RPAREN; K_RPAREN; K_TIMES;
                             K_LPAREN; K_SIZEOF; K_LPAREN; K_INT; K_RPAREN; K_RPAREN].
Proof.
  split; [cbn; repeat split; first [reflexivity | discriminate | lia | (left; split; [discriminate|repeat constructor])]|]. split; [cbn; repeat split|]. split; vm_compute; reflexivity.
Qed.
