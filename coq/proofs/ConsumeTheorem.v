(* C18 / C06: a successful parse consumed every item, and every item was a token. *)
From Coq Require Import List NArith Bool Arith Lia.
Import ListNotations.
From PV Require Import Regex Base LexTables ParserTables AstDefs AstSpec AstImpl PyRepr NodeModel ParserBase ParserDecl ParserMain ConsumeProofs.
Open Scope nat_scope.

Lemma peek_none_in : forall P (s s': pstate P), peek P s = Ok (None, s') -> In None (after P s').
Proof.
  intros P s s' H. unfold peek, peek_k, bind in H.
  destruct (fill P 1 s) as [[u s1]| | |]; try discriminate.
  unfold get in H. cbv beta iota in H.
  destruct (nth_error (after P s1) (Nat.pred 1)) as [o|] eqn:En.
  - unfold ret in H. cbv beta in H. injection H as Eo Es. subst.
    cbn in En. destruct (after P s'); [discriminate|]. injection En as En. subst. left. reflexivity.
  - discriminate.
Qed.

Section CT.
Variable P : Type.
(* CParser.parse succeeded  ==>  every item the lexer produced was a token, and all were delivered *)
Theorem parse_ok_all_tokens : forall fuel items eof file ast s',
  parse_tokens P fuel (init_pstate P items eof file) = Ok (ast, s') ->
  forallb (is_tok P) items = true /\ raw P s' = [].
Proof.
  intros fuel items eof file ast s' H. unfold parse_tokens, bind in H.
  destruct (p_translation_unit P fuel (init_pstate P items eof file)) as [[ext s1]| | |] eqn:E1; try discriminate.
  assert (J0: J P (init_pstate P items eof file)) by (intros Hin; cbn in Hin; destruct Hin).
  destruct (good_p_translation_unit P fuel _ _ _ J0 E1) as [R1 J1].
  destruct (peek P s1) as [[t s2]| | |] eqn:E2; try discriminate.
  destruct (good_peek P _ _ _ J1 E2) as [R2 J2].
  destruct t as [t'|].
  - unfold bind in H. destruct (tok_coord P t' s2) as [[c s3]| | |]; discriminate.
  - assert (Hs: s2 = s') by (unfold ret in H; cbv beta in H; injection H as _ Hs; exact Hs). subst s2.
    (* peek returned the end-of-input sentinel: it is in the buffer, so the lexer is exhausted *)
    assert (Hin: In None (after P s' ++ before P s')) by (apply in_or_app; left; eapply peek_none_in; exact E2).
    specialize (J2 Hin). split; [|exact J2].
    destruct (R_trans P _ _ _ R1 R2) as [d [Ed Fd]]. cbn in Ed. rewrite J2, app_nil_r in Ed. subst. exact Fd.
Qed.
End CT.

(* the same statement on the whole pipeline (Api.run_parse = lexer + token stream + parser):
   if parse(text) succeeds, the lexer reported no error on text (no illegal character, no malformed
   literal, no comment, no bad directive) and did not crash *)
From PV Require Import UnicodeTables Lexer Api.
Definition is_rtok (i: raw_item) : bool := match i with RTok _ _ _ _ _ => true | _ => false end.

Theorem parse_ok_no_lexer_error : forall text file r,
  run_parse text file = Ok r ->
  forallb is_rtok (fst (fst (raw_lex (S (length text)) (init_lexst file) text))) = true.
Proof.
  intros text file [ast s'] H. unfold run_parse in H.
  destruct (raw_lex (S (length text)) (init_lexst file) text) as [[items stf] c] eqn:E. cbn [fst].
  apply parse_ok_all_tokens in H. destruct H as [H _].
  rewrite forallb_forall in *. intros i Hi. specialize (H (to_pitem i) (in_map _ _ _ Hi)).
  destruct i; cbn in *; congruence.
Qed.
