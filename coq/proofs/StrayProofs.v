(* C18: the characters '@', '`' and '\' can never start a token.  Whenever the lexer model stands in
   front of one of them (outside a literal or pragma text, i.e. at a token boundary), what it emits is an
   error item - and by ConsumeTheorem.parse_ok_no_lexer_error a parse that saw an error item fails. *)
From Coq Require Import List NArith Bool Arith Lia.
Import ListNotations.
From PV Require Import Regex Base UnicodeTables LexTables PyRepr Lexer RegexLemmas LexerProofs LexNoCrash IntLiteral.
Open Scope nat_scope.

(* can a word of r start with c?  (over-approximation) *)
Fixpoint firstc (c: N) (r: re) : bool :=
  match r with
  | Eps | NotAhead _ | AtEnd => false
  | Chr cs => cset_mem c cs
  | Seq a b => firstc c a || (nullable a && firstc c b)
  | Alt a b => firstc c a || firstc c b
  | Star a => firstc c a
  end.

Lemma in_re_nil_nullable : forall r w, in_re r w -> w = [] -> nullable r = true.
Proof.
  intros r w H. induction H; intros E; cbn [nullable]; try reflexivity.
  - discriminate.
  - apply app_eq_nil in E. destruct E as [-> ->]. rewrite IHin_re1, IHin_re2; reflexivity.
  - rewrite IHin_re; [reflexivity|exact E].
  - rewrite IHin_re; [apply orb_true_r|exact E].
Qed.

Lemma firstc_sound : forall r w, in_re r w -> forall c w', w = c :: w' -> firstc c r = true.
Proof.
  intros r w H. induction H; intros c0 w' E; cbn [firstc]; try discriminate.
  - injection E as -> _. assumption.
  - destruct x as [|x0 x'].
    + cbn [app] in E. rewrite (in_re_nil_nullable _ _ H eq_refl), (IHin_re2 _ _ E). cbn. apply orb_true_r.
    + cbn [app] in E. injection E as -> _. rewrite (IHin_re1 _ _ eq_refl). reflexivity.
  - rewrite (IHin_re _ _ E). reflexivity.
  - rewrite (IHin_re _ _ E). apply orb_true_r.
  - destruct x as [|x0 x'].
    + cbn [app] in E. apply (IHin_re2 _ _ E).
    + cbn [app] in E. injection E as -> _. apply (IHin_re1 _ _ eq_refl).
Qed.

Definition STRAY : list N := [64; 96; 92]%N.    (* @ ` \ *)

(* table facts: a rule whose words can start with a stray character is an error rule; no fixed token starts with one *)
Lemma stray_rules : forallb (fun c => forallb (fun r => negb (firstc c (rre r)) || match ract r with A_ERROR _ => true | _ => false end) regex_rules) STRAY = true.
Proof. vm_compute. reflexivity. Qed.
Lemma stray_fixed : forallb (fun c => match bucket_of c fixed_by_first with None => true | Some _ => false end) STRAY = true.
Proof. vm_compute. reflexivity. Qed.
Lemma stray_not_special : forallb (fun c => negb (is_blank c) && negb (N.eqb c 10) && negb (N.eqb c 35)) STRAY = true.
Proof. vm_compute. reflexivity. Qed.

Definition is_err (i: raw_item) : bool := match i with RErr _ _ _ _ => true | _ => false end.

Theorem stray_char_is_reported : forall n0 st c rest, In c STRAY ->
  let items := fst (fst (lex_iter n0 st (c :: rest))) in items <> [] /\ forallb is_err items = true.
Proof.
  intros n0 st c rest Hc. cbv zeta.
  pose proof stray_not_special as T0. rewrite forallb_forall in T0. specialize (T0 _ Hc).
  apply andb_true_iff in T0. destruct T0 as [T0 T3]. apply andb_true_iff in T0. destruct T0 as [T1 T2].
  unfold lex_iter. destruct (is_blank c); [discriminate|]. destruct (N.eqb c 10); [discriminate|]. destruct (N.eqb c 35); [discriminate|].
  unfold match_token, choose_best.
  assert (Hfx: fixed_match (c :: rest) = None).
  { unfold fixed_match. pose proof stray_fixed as T. rewrite forallb_forall in T. specialize (T _ Hc).
    destruct (bucket_of c fixed_by_first); [discriminate|reflexivity]. }
  rewrite Hfx.
  destruct (first_rule regex_rules n0 (c :: rest)) as [[r len]|] eqn:Ef.
  - destruct (first_rule_match _ _ _ _ _ Ef) as [Hin [s' Hm]].
    destruct (match_re_lang _ _ _ _ _ Hm) as [Hl _].
    pose proof (match_re_sound _ _ _ _ _ Hm) as (p & Hp & Hlen & Hnn).
    assert (Hlen1: 1 <= len).
    { pose proof rules_not_nullable as Hn. rewrite forallb_forall in Hn. specialize (Hn _ Hin).
      assert (Hn': nullable (rre r) = false) by (destruct (nullable (rre r)); [discriminate|reflexivity]).
      specialize (Hnn Hn'). subst len. destruct p; [congruence|cbn; lia]. }
    assert (Hf: firstc c (rre r) = true).
    { destruct len as [|len']; [lia|]. cbn [firstn] in Hl. eapply firstc_sound; [exact Hl|reflexivity]. }
    pose proof stray_rules as T. rewrite forallb_forall in T. specialize (T _ Hc). rewrite forallb_forall in T. specialize (T _ Hin).
    rewrite Hf in T. cbn [negb orb] in T.
    pose proof error_rules_have_messages as Tm. rewrite forallb_forall in Tm. specialize (Tm _ Hin). unfold rule_has_msg in Tm.
    destruct (ract r) as [k| |msg]; try discriminate.
    destruct (str_eqb (rname r) name_BAD_CHAR_CONST).
    + cbn [fst]. split; [discriminate|reflexivity].
    + destruct msg as [mm|]; [|discriminate]. cbn [fst]. split; [discriminate|reflexivity].
  - cbn [fst]. split; [discriminate|reflexivity].
Qed.
