(* C07: the token-level parse . generate = id argument of RoundTrip.v, made generic in the operands.
   Part 1: the four levels of the expression ladder as statements about a token sequence (CastS,
   CondS, AsgS, ExprS) and the wrappers between them (a cast-expression followed by a token that
   cannot continue it is a conditional-expression, ... ; a parenthesised expression is a
   cast-expression).  Part 2: trees of binary operators over ARBITRARY operands (leaves printed by
   [ltoks], denoting [lemb]) - if every leaf operand is parsed back by p_cast_expression, the whole
   printed sequence is parsed back by p_conditional_expression, for both settings of
   reduce_parentheses. *)
From Coq Require Import String.
From Coq Require Import List NArith Bool Arith Lia.
Import ListNotations.
From PV Require Import Regex Base AstDefs AstSpec AstImpl GenTables NodeModel Generator ClimbProofs ClimbComplete GenParen GenBinop.
From PV Require Import LexTables ParserTables PyRepr ParserBase ParserDecl ParserMain LexerProofs TableProofs.
From PV Require Import BinaryRefine ExprShape UnaryShape CoordProofs StreamLib RoundTrip.
Open Scope nat_scope.

(* a token that cannot continue a conditional-expression *)
Definition cstop (k: kind) : bool := bstop k && negb (kind_eqb k K_CONDOP).
Lemma cstop_facts : forall k, cstop k = true -> bstop k = true /\ kind_eqb k K_CONDOP = false.
Proof. intros k H. unfold cstop in H. apply andb_true_iff in H. destruct H as [H1 H2]. apply negb_true_iff in H2. tauto. Qed.
Lemma estop_cstop : forall k, estop k = true -> cstop k = true.
Proof. intros k H. destruct (estop_facts _ H) as [Hb [Hc _]]. unfold cstop. rewrite Hb, Hc. reflexivity. Qed.

(* a token that cannot continue an assignment-expression (a comma can follow one) *)
Definition astop (k: kind) : bool := cstop k && negb (kind_in k tbl_ASSIGNMENT_OPS).
Lemma astop_facts : forall k, astop k = true -> cstop k = true /\ kind_in k tbl_ASSIGNMENT_OPS = false.
Proof. intros k H. unfold astop in H. apply andb_true_iff in H. destruct H as [H1 H2]. apply negb_true_iff in H2. tauto. Qed.
Lemma estop_astop : forall k, estop k = true -> astop k = true.
Proof. intros k H. unfold astop. rewrite (estop_cstop _ H). destruct (estop_facts _ H) as [_ [_ [Ha _]]]. rewrite Ha. reflexivity. Qed.
Lemma comma_astop : astop K_COMMA = true.
Proof. reflexivity. Qed.

(* the first tokens of something an expression can start with (no declaration start, no `({`) *)
Definition startk (k: kind) : bool := negb (kind_in k tbl_DECL_START) && negb (kind_eqb k K_RPAREN).
Lemma startk_facts : forall k, startk k = true -> kind_in k tbl_DECL_START = false /\ kind_eqb k K_RPAREN = false.
Proof. intros k H. unfold startk in H. apply andb_true_iff in H. destruct H as [H1 H2]. apply negb_true_iff in H1. apply negb_true_iff in H2. tauto. Qed.

Definition first_ok (kvs: list (kind * str)) : Prop :=
  exists k v rest, kvs = (k, v) :: rest /\ startk k = true /\ kind_eqb k K_LBRACE = false /\
    (kind_eqb k K_LPAREN = true ->
     exists k2 v2 rest2, rest = (k2, v2) :: rest2 /\ kind_eqb k2 K_LBRACE = false).

Lemma first_ok_app : forall x y, first_ok x -> first_ok (x ++ y).
Proof.
  intros x y [k [v [rest [-> [H1 [H2 H3]]]]]]. exists k, v, (rest ++ y). split; [reflexivity|]. split; [exact H1|]. split; [exact H2|].
  intros Hl. destruct (H3 Hl) as [k2 [v2 [rest2 [-> H4]]]]. exists k2, v2, (rest2 ++ y). split; [reflexivity|exact H4].
Qed.

Lemma first_ok_parkv : forall x, first_ok x -> first_ok (parkv x).
Proof.
  intros x [k [v [rest [-> [H1 [H2 _]]]]]]. unfold parkv. exists K_LPAREN, (s2l "("), (((k, v) :: rest) ++ [(K_RPAREN, s2l ")")]).
  split; [reflexivity|]. split; [reflexivity|]. split; [reflexivity|]. intros _.
  exists k, v, (rest ++ [(K_RPAREN, s2l ")")]). split; [reflexivity|exact H2].
Qed.

Section Levels.
Variable P : Type.
Notation pstate := (ParserBase.pstate P).
Notation tok := (ParserBase.tok P).
Notation Up := (StreamLib.Up P).
Notation Spell := (RoundTrip.Spell P).

Definition LevelS (run: nat -> M P (ParserBase.node P)) (stopk: kind -> bool) (kvs: list (kind * str)) (X: value unit) : Prop :=
  forall (s: pstate) le (stop: tok) l0, Spell le kvs -> Up s (le ++ stop :: l0) -> stopk (tk stop) = true ->
  exists f0 N s', (forall f, f0 <= f -> run f s = Ok (N, s')) /\ Up s' (stop :: l0) /\ strip N = X /\ Ran P s s' (length le).

Definition CastS := LevelS (p_cast_expression P) quiet.
Definition CondS := LevelS (p_conditional_expression P) cstop.
Definition AsgS := LevelS (p_assignment_expression P) astop.
Definition ExprS := LevelS (p_expression P) estop.

(* binary-expression with nothing to climb over, then no `?` *)
Lemma cast_to_cond : forall kvs X, CastS kvs X -> CondS kvs X.
Proof.
  intros kvs X HC s le stop l0 HS HU Hst. destruct (cstop_facts _ Hst) as [Hb Hq]. destruct (bstop_facts _ Hb) as [Hquiet Hprec].
  destruct (HC s le stop l0 HS HU Hquiet) as [f0 [N [s1 [H1 [HU1 [HN HR1]]]]]].
  destruct (peek_up P s1 stop l0 HU1) as [s2 [Hp [HU2 HS2]]].
  destruct (accept_miss P s2 stop l0 K_CONDOP HU2 Hq) as [s3 [Ha [HU3 HS3]]].
  exists (S (S f0)), N, s3. split; [|split; [exact HU3|split; [exact HN|cost_tac]]].
  intros f Hf. destruct f as [|[|f]]; try lia. rewrite (cond_eq P). unfold bind at 1. rewrite (H1 (S f)) by lia.
  unfold bind at 1. rewrite (climb_eq P). unfold bind at 1. rewrite Hp. rewrite Hprec. unfold ret at 1.
  unfold bind at 1. rewrite Ha. reflexivity.
Qed.

(* the look-ahead of p_assignment_expression for a GNU statement expression `({` finds none *)
Definition asg_body (f: nat) : M P (ParserBase.node P) :=
  bind P (p_conditional_expression P f) (fun e => bind P (peek P) (fun t0 =>
    match t0 with
    | Some t' => if kind_in (tk t') tbl_ASSIGNMENT_OPS then
                   bind P (advance P) (fun op => bind P (p_assignment_expression P f) (fun rhs => bind P (coordA P e) (fun ec =>
                   ret P (mkN P C_Assignment [VStr (tv op); e; rhs] ec))))
                 else ret P e
    | None => ret P e end)).

Lemma asg_pre : forall kvs (s: pstate) le rest, first_ok kvs -> Spell le kvs -> Up s (le ++ rest) ->
  exists s2, Up s2 (le ++ rest) /\ (forall f, p_assignment_expression P (S f) s = asg_body f s2) /\ Same P s s2.
Proof.
  intros kvs s le rest [k [v [rest0 [Ek [_ [_ Hlp]]]]]] HS HU. subst kvs.
  destruct (RoundTrip.Spell_cons_inv P _ _ _ _ HS) as [x1 [tl [El [Hk1 [_ HStl]]]]]. subst le. cbn [app] in HU |- *.
  destruct (peek_kind_up P s x1 _ HU) as [s1 [Hp1 [HU1 HS1]]].
  destruct (kind_eqb k K_LPAREN) eqn:Elp.
  - destruct (Hlp eq_refl) as [k2 [v2 [rest2 [-> Hk2]]]].
    destruct (RoundTrip.Spell_cons_inv P _ _ _ _ HStl) as [x2 [tl2 [-> [Hkx2 [_ _]]]]]. cbn [app] in HU1 |- *.
    destruct (peek2_up P s1 x1 x2 _ HU1) as [s2 [Hp2 [HU2 HS2]]]. exists s2. split; [exact HU2|]. split; [|exact (Same_trans P _ _ _ HS1 HS2)]. intros f.
    rewrite (assign_eq P). unfold bind at 1. rewrite Hp1. rewrite Hk1. cbn [okind_is]. rewrite Elp.
    unfold bind at 1. unfold bind at 1. rewrite Hp2. unfold ret at 1. cbn [okind_is]. rewrite Hkx2, Hk2. reflexivity.
  - exists s1. split; [exact HU1|]. split; [|exact HS1]. intros f. rewrite (assign_eq P). unfold bind at 1. rewrite Hp1. rewrite Hk1. cbn [okind_is]. rewrite Elp.
    unfold bind at 1. unfold ret at 1. reflexivity.
Qed.

Lemma cond_to_asg : forall kvs X, first_ok kvs -> CondS kvs X -> AsgS kvs X.
Proof.
  intros kvs X Hfo HC s le stop l0 HS HU Hst.
  destruct (astop_facts _ Hst) as [Hcst Hasg].
  destruct (asg_pre kvs s le (stop :: l0) Hfo HS HU) as [s2 [HU2 [Hasn HS2]]].
  destruct (HC s2 le stop l0 HS HU2 Hcst) as [f0 [N [s3 [H3 [HU3 [HN HR3]]]]]].
  destruct (peek_up P s3 stop l0 HU3) as [s4 [Hpk [HU4 HS4]]].
  exists (S f0), N, s4. split; [|split; [exact HU4|split; [exact HN|cost_tac]]].
  intros f Hf. destruct f as [|f]; [lia|]. rewrite Hasn. unfold asg_body. unfold bind at 1. rewrite (H3 f) by lia.
  unfold bind at 1. rewrite Hpk. rewrite Hasg. reflexivity.
Qed.

Lemma asg_to_expr : forall kvs X, AsgS kvs X -> ExprS kvs X.
Proof.
  intros kvs X HA s le stop l0 HS HU Hst. destruct (estop_facts _ Hst) as [_ [_ [_ Hcomma]]].
  destruct (HA s le stop l0 HS HU (estop_astop _ Hst)) as [f0 [N [s1 [H1 [HU1 [HN HR1]]]]]].
  destruct (accept_miss P s1 stop l0 K_COMMA HU1 Hcomma) as [s2 [Ha [HU2 HS2]]].
  exists (S f0), N, s2. split; [|split; [exact HU2|split; [exact HN|cost_tac]]].
  intros f Hf. destruct f as [|f]; [lia|]. rewrite (expr_eq P). unfold bind at 1. rewrite (H1 f) by lia.
  unfold bind at 1. rewrite Ha. reflexivity.
Qed.

Lemma cond_to_expr : forall kvs X, first_ok kvs -> CondS kvs X -> ExprS kvs X.
Proof. intros kvs X Hf HC. apply asg_to_expr. apply cond_to_asg; assumption. Qed.

(* ( expression ) *)
Lemma paren_to_cast : forall kvs X, first_ok kvs -> ExprS kvs X -> CastS (parkv kvs) X.
Proof.
  intros kvs X [k [v [rest [Ek [Hds _]]]]] HE s la n l HS HU Hq. unfold parkv in HS.
  destruct (RoundTrip.Spell_cons_inv P _ _ _ _ HS) as [lp [l2 [-> [Hlp [_ HS2]]]]].
  destruct (RoundTrip.Spell_app_inv P _ _ _ HS2) as [le [l3 [-> [HSe HS3]]]].
  destruct (RoundTrip.Spell_cons_inv P _ _ _ _ HS3) as [rpt [l4 [-> [Hrp [_ HS4]]]]]. apply (RoundTrip.Spell_nil_inv P) in HS4. subst l4.
  pose proof HSe as HSe0. rewrite Ek in HSe. destruct (RoundTrip.Spell_cons_inv P _ _ _ _ HSe) as [x [le' [-> [Hx [_ _]]]]].
  cbn [app] in HU. rewrite <- app_assoc in HU. cbn [app] in HU.
  assert (Hlen: forall (a b c: tok) l1, length (a :: (b :: l1) ++ [c]) = S (S (S (length l1)))) by (intros; cbn [length app]; rewrite app_length; cbn [length]; lia).
  rewrite Hlen.
  refine (paren_cast_c P X lp rpt x n le' l _ _ _ Hq _ s HU).
  - rewrite Hlp. reflexivity.
  - rewrite Hrp. reflexivity.
  - rewrite Hx. exact (proj1 (startk_facts _ Hds)).
  - intros s0 HU0. apply (HE s0 (x :: le') rpt (n :: l)); [exact HSe0|exact HU0|rewrite Hrp; reflexivity].
Qed.
End Levels.

(* ================= Part 2: trees of binary operators over arbitrary operands ================= *)
Section GenBin.
Variable P : Type.
Variable rp : bool.
Variable base : Type.
Variable ltoks : base -> list (kind * str).      (* a leaf operand as the generator prints it (parenthesised if need be) *)
Variable lemb : base -> value unit.              (* the tree it denotes *)
Variable lemb_node : forall b, exists c fs co, lemb b = VNode c fs co.

Notation gt := (GenParen.gt base str).
Notation pstate := (ParserBase.pstate P).
Notation tok := (ParserBase.tok P).
Notation Up := (StreamLib.Up P).
Notation Spell := (RoundTrip.Spell P).
Notation keepL := (GenParen.keepL base str gprec rp).
Notation keepR := (GenParen.keepR base str gprec rp).
Notation flatten := (GenParen.flatten base str gprec rp).
Notation skel := (GenParen.skel base str gprec rp).
Notation gtree := (ClimbProofs.tree gt str).
Notation climb := (ClimbProofs.climb gt str gprec).
Notation inner := (ClimbProofs.inner gt str gprec).

Fixpoint kvg (t: gt) : list (kind * str) :=
  match t with
  | GLeaf _ _ b => ltoks b
  | GBin _ _ o l r =>
    (if keepL o l then kvg l else match l with GLeaf _ _ b => ltoks b | GBin _ _ _ _ _ => parkv (kvg l) end) ++ (opk o, o) ::
    (if keepR o r then kvg r else match r with GLeaf _ _ b => ltoks b | GBin _ _ _ _ _ => parkv (kvg r) end)
  end.
Definition katom (a: gt) : list (kind * str) := match a with GLeaf _ _ b => ltoks b | GBin _ _ _ _ _ => parkv (kvg a) end.
Definition kv_rest (r: list (str * gt)) : list (kind * str) :=
  concat (map (fun oa => (opk (fst oa), fst oa) :: katom (snd oa)) r).

Fixpoint embg (t: gt) : value unit :=
  match t with
  | GLeaf _ _ b => lemb b
  | GBin _ _ o l r => VNode C_BinaryOp [VStr o; embg l; embg r] None
  end.
Fixpoint opsg (t: gt) : Prop :=
  match t with GLeaf _ _ _ => True | GBin _ _ o l r => prec_lookup_s o <> None /\ opsg l /\ opsg r end.
Fixpoint hg (t: gt) : nat := match t with GLeaf _ _ _ => 1 | GBin _ _ _ l r => S (Nat.max (hg l) (hg r)) end.
Fixpoint leavesg (Q: base -> Prop) (t: gt) : Prop :=
  match t with GLeaf _ _ b => Q b | GBin _ _ _ l r => leavesg Q l /\ leavesg Q r end.

Definition AtomOK (a: gt) : Prop := CastS P (katom a) (embg a).
Definition ROK (r: list (str * gt)) : Prop := Forall (fun oa => prec_lookup_s (fst oa) <> None /\ AtomOK (snd oa)) r.

Fixpoint etree (T: gtree) : value unit :=
  match T with
  | Leaf _ _ a => embg a
  | Bin _ _ o l r => VNode C_BinaryOp [VStr o; etree l; etree r] None
  end.

Lemma embg_node : forall a, exists c fs co, embg a = VNode c fs co.
Proof. intros [b|o l r]; [apply lemb_node|]. cbn. eexists. eexists. eexists. reflexivity. Qed.
Lemma etree_node : forall T, exists c fs co, etree T = VNode c fs co.
Proof. intros [a|o l r]; [apply embg_node|]. cbn. eexists. eexists. eexists. reflexivity. Qed.

Lemma head_quiet : forall r lr (stop: tok) l0, ROK r -> Spell lr (kv_rest r) -> bstop (tk stop) = true ->
  exists n l', lr ++ stop :: l0 = n :: l' /\ quiet (tk n) = true.
Proof.
  intros r lr stop l0 HR HS Hb. destruct r as [|[o a] r1].
  - apply (RoundTrip.Spell_nil_inv P) in HS. subst lr. exists stop, l0. split; [reflexivity|]. apply bstop_facts in Hb. tauto.
  - cbn [kv_rest map concat fst snd app] in HS. destruct (RoundTrip.Spell_cons_inv P _ _ _ _ HS) as [t [l2 [-> [Hk [_ _]]]]].
    exists t, (l2 ++ stop :: l0). split; [reflexivity|]. inversion HR as [|x y [Ho _] _]; subst. cbn [fst] in Ho.
    rewrite Hk. apply opk_facts. exact Ho.
Qed.

Definition SimC (fu: nat) : Prop := forall m h r T r', climb fu m h r = Some (T, r') -> ROK r ->
  forall (s: pstate) lr stop l0 hN, Spell lr (kv_rest r) -> Up s (lr ++ stop :: l0) -> bstop (tk stop) = true -> strip hN = etree h ->
  ROK r' /\ exists f0 N s' lr', (forall f, f0 <= f -> p_binary_climb P f m hN s = Ok (N, s')) /\
                               Spell lr' (kv_rest r') /\ Up s' (lr' ++ stop :: l0) /\ strip N = etree T /\
                               idx P s' + length lr' = idx P s + length lr /\ N.to_nat (ticks P s') + 3 * length lr' <= N.to_nat (ticks P s) + 3 * length lr /\ SC P s s'.
Definition SimI (fu: nat) : Prop := forall p h r T r', inner fu p h r = Some (T, r') -> ROK r ->
  forall (s: pstate) lr stop l0 hN, Spell lr (kv_rest r) -> Up s (lr ++ stop :: l0) -> bstop (tk stop) = true -> strip hN = etree h ->
  ROK r' /\ exists f0 N s' lr', (forall f, f0 <= f -> p_binary_inner P f p hN s = Ok (N, s')) /\
                               Spell lr' (kv_rest r') /\ Up s' (lr' ++ stop :: l0) /\ strip N = etree T /\
                               idx P s' + length lr' = idx P s + length lr /\ N.to_nat (ticks P s') + 3 * length lr' <= N.to_nat (ticks P s) + 3 * length lr /\ SC P s s'.

Lemma sim : forall fu, SimC fu /\ SimI fu.
Proof.
  induction fu as [|fu [IHC IHI]]; [split; intros ? ? ? ? ? H; discriminate H|]. split.
  - intros m h r T r' H HR s lr stop l0 hN HS HU Hb Hh. rewrite ClimbComplete.climb_S in H. destruct r as [|[o a] r1].
    + injection H as <- <-. split; [constructor|]. apply (RoundTrip.Spell_nil_inv P) in HS. subst lr. cbn [app] in HU.
      destruct (peek_up P s stop l0 HU) as [s1 [Hp [HU1 HS1]]]. destruct (bstop_facts _ Hb) as [_ Hprec].
      exists 1, hN, s1, []. split; [|split; [reflexivity|split; [exact HU1|split; [exact Hh|cost_tac]]]].
      intros f Hf. destruct f as [|f]; [lia|]. rewrite (climb_eq P). unfold bind at 1. rewrite Hp. rewrite Hprec. reflexivity.
    + cbn [kv_rest map concat fst snd] in HS. cbn [app] in HS. destruct (RoundTrip.Spell_cons_inv P _ _ _ _ HS) as [t [lr2 [-> [Hk [Hv HS2]]]]].
      inversion HR as [|x y [Ho HA] HR1]; subst x y. cbn [fst snd] in Ho, HA.
      destruct (opk_facts o Ho) as [Hprec _]. cbn [app] in HU.
      destruct (peek_up P s t _ HU) as [s1 [Hp [HU1 HSm1]]].
      destruct (gprec o <? m) eqn:Elt.
      * injection H as <- <-. split; [exact HR|]. exists 1, hN, s1, (t :: lr2). split; [|split; [|split; [exact HU1|split; [exact Hh|cost_tac]]]].
        -- intros f Hf. destruct f as [|f]; [lia|]. rewrite (climb_eq P). unfold bind at 1. rewrite Hp. rewrite Hk, Hprec, Elt. reflexivity.
        -- unfold RoundTrip.Spell. cbn [map kv_rest concat fst snd app]. rewrite Hk, Hv. f_equal. exact HS2.
      * destruct (inner fu (gprec o) (Leaf gt str a) r1) as [[rhs r2]|] eqn:EI; [|discriminate H].
        destruct (RoundTrip.Spell_app_inv P _ _ _ HS2) as [la [lr1 [-> [HSa HS1]]]].
        destruct (advance_up P s1 t _ HU1) as [s2 [Had [HU2 HA2]]].
        destruct (head_quiet r1 lr1 stop l0 HR1 HS1 Hb) as [n [l' [En Hqn]]].
        rewrite <- app_assoc in HU2. rewrite En in HU2.
        destruct (HA s2 la n l' HSa HU2 Hqn) as [fa [aN [s3 [Hcast [HU3 [HaN HR3]]]]]].
        rewrite <- En in HU3.
        destruct (IHI _ _ _ _ _ EI HR1 s3 lr1 stop l0 aN HS1 HU3 Hb HaN) as [HR2 [fi [rN [s4 [lr2' [Hin [HS2' [HU4 [HrN HP4]]]]]]]]].
        destruct (etree_node h) as [c [fs [co Eh]]]. rewrite Eh in Hh. destruct (strip_node_inv _ _ _ _ _ Hh) as [fs' [co' EhN]].
        set (bN := mkN P C_BinaryOp [VStr (tv t); hN; rN] co').
        assert (HbN: strip bN = etree (Bin gt str o h rhs)).
        { unfold bN, mkN. cbn [strip map etree]. rewrite Hv, HrN. rewrite <- Eh in Hh. rewrite Hh. reflexivity. }
        destruct (IHC _ _ _ _ _ H HR2 s4 lr2' stop l0 bN HS2' HU4 Hb HbN) as [HR' [fc [N [s5 [lr' [Hcl [HS' [HU5 [HN HP5]]]]]]]]].
        split; [exact HR'|]. exists (S (Nat.max fa (Nat.max fi fc))), N, s5, lr'. split; [|split; [exact HS'|split; [exact HU5|split; [exact HN|clear - HSm1 HA2 HR3 HP4 HP5; cost_tac]]]].
        intros f Hf. destruct f as [|f]; [lia|]. rewrite (climb_eq P). unfold bind at 1. rewrite Hp. rewrite Hk, Hprec, Elt.
        unfold bind at 1. rewrite Had. unfold bind at 1. rewrite (Hcast f) by lia. unfold bind at 1. rewrite (Hin f) by lia.
        unfold bind at 1. unfold coordA, lift_opt. rewrite EhN. cbn [get_coord]. unfold ret at 1. rewrite <- EhN. apply Hcl. lia.
  - intros p h r T r' H HR s lr stop l0 hN HS HU Hb Hh. rewrite ClimbComplete.inner_S in H. destruct r as [|[o2 a2] r1].
    + injection H as <- <-. split; [constructor|]. apply (RoundTrip.Spell_nil_inv P) in HS. subst lr. cbn [app] in HU.
      destruct (peek_up P s stop l0 HU) as [s1 [Hp [HU1 HS1]]]. destruct (bstop_facts _ Hb) as [_ Hprec].
      exists 1, hN, s1, []. split; [|split; [reflexivity|split; [exact HU1|split; [exact Hh|cost_tac]]]].
      intros f Hf. destruct f as [|f]; [lia|]. rewrite (inner_eq P). unfold bind at 1. rewrite Hp. rewrite Hprec. reflexivity.
    + pose proof HS as HS0. cbn [kv_rest map concat fst snd] in HS. cbn [app] in HS. destruct (RoundTrip.Spell_cons_inv P _ _ _ _ HS) as [t [lr2 [-> [Hk [Hv HS2]]]]].
      inversion HR as [|x y [Ho HA] HR1]; subst x y. cbn [fst snd] in Ho, HA.
      destruct (opk_facts o2 Ho) as [Hprec _]. cbn [app] in HU.
      destruct (peek_up P s t _ HU) as [s1 [Hp [HU1 HSm1]]].
      destruct (p <? gprec o2) eqn:Elt.
      * destruct (climb fu (gprec o2) h ((o2, a2) :: r1)) as [[rhs' r2]|] eqn:EC; [|discriminate H].
        destruct (IHC _ _ _ _ _ EC HR s1 (t :: lr2) stop l0 hN HS0 HU1 Hb Hh) as [HR2 [fc [cN [s2 [lr2' [Hcl [HS2' [HU2 [HcN HP2]]]]]]]]].
        destruct (IHI _ _ _ _ _ H HR2 s2 lr2' stop l0 cN HS2' HU2 Hb HcN) as [HR' [fi [N [s3 [lr' [Hin [HS' [HU3 [HN HP3]]]]]]]]].
        split; [exact HR'|]. exists (S (Nat.max fc fi)), N, s3, lr'. split; [|split; [exact HS'|split; [exact HU3|split; [exact HN|clear - HSm1 HP2 HP3; cost_tac]]]].
        intros f Hf. destruct f as [|f]; [lia|]. rewrite (inner_eq P). unfold bind at 1. rewrite Hp. rewrite Hk, Hprec, Elt.
        unfold bind at 1. rewrite (Hcl f) by lia. apply Hin. lia.
      * injection H as <- <-. split; [exact HR|]. exists 1, hN, s1, (t :: lr2). split; [|split; [exact HS0|split; [exact HU1|split; [exact Hh|cost_tac]]]].
        intros f Hf. destruct f as [|f]; [lia|]. rewrite (inner_eq P). unfold bind at 1. rewrite Hp. rewrite Hk, Hprec, Elt. reflexivity.
Qed.

Lemma kvg_flatten : forall t, kvg t = katom (fst (flatten t)) ++ kv_rest (snd (flatten t)).
Proof.
  induction t as [b|o l IHl r IHr].
  - cbn. rewrite app_nil_r. reflexivity.
  - cbn [kvg GenParen.flatten].
    assert (HL: (if keepL o l then kvg l else match l with GLeaf _ _ b => ltoks b | GBin _ _ _ _ _ => parkv (kvg l) end) =
                katom (fst (if keepL o l then flatten l else (l, []))) ++ kv_rest (snd (if keepL o l then flatten l else (l, [])))).
    { destruct (keepL o l) eqn:E; [exact IHl|]. cbn [fst snd kv_rest map concat]. rewrite app_nil_r. reflexivity. }
    assert (HRr: (if keepR o r then kvg r else match r with GLeaf _ _ b => ltoks b | GBin _ _ _ _ _ => parkv (kvg r) end) =
                katom (fst (if keepR o r then flatten r else (r, []))) ++ kv_rest (snd (if keepR o r then flatten r else (r, [])))).
    { destruct (keepR o r) eqn:E; [exact IHr|]. cbn [fst snd kv_rest map concat]. rewrite app_nil_r. reflexivity. }
    rewrite HL, HRr.
    destruct (if keepL o l then flatten l else (l, [])) as [hl ll].
    destruct (if keepR o r then flatten r else (r, [])) as [hr lr]. cbn [fst snd].
    unfold kv_rest. rewrite map_app, concat_app. cbn [map concat fst snd]. rewrite <- !app_assoc. reflexivity.
Qed.

Lemma etree_skel : forall t, etree (skel t) = embg t.
Proof.
  induction t as [b|o l IHl r IHr]; [reflexivity|]. cbn [GenParen.skel etree embg].
  destruct (keepL o l); destruct (keepR o r); cbn [etree]; rewrite ?IHl, ?IHr; reflexivity.
Qed.

Section WithQ.
Variable Q : base -> Prop.

Lemma flatten_ok : forall t, opsg t -> leavesg Q t -> (forall a, hg a < hg t -> opsg a -> leavesg Q a -> AtomOK a) ->
  (exists o l r, t = GBin _ _ o l r) -> AtomOK (fst (flatten t)) /\ ROK (snd (flatten t)).
Proof.
  induction t as [b|o l IHl r IHr]; intros Hok HQ Hsm Hnl; [destruct Hnl as [? [? [? ?]]]; discriminate|].
  cbn [opsg] in Hok. destruct Hok as [Ho [Hol Hor]]. cbn [leavesg] in HQ. destruct HQ as [HQl HQr]. cbn [GenParen.flatten].
  assert (HL: AtomOK (fst (if keepL o l then flatten l else (l, []))) /\ ROK (snd (if keepL o l then flatten l else (l, [])))).
  { destruct (keepL o l) eqn:E.
    - destruct l as [b|ol l1 l2]; [discriminate E|]. apply IHl; [exact Hol|exact HQl| |eexists; eexists; eexists; reflexivity].
      intros a Ha Hoa Hqa. apply Hsm; [|exact Hoa|exact Hqa]. cbn [hg] in *. lia.
    - cbn [fst snd]. split; [|constructor]. apply Hsm; [|exact Hol|exact HQl]. cbn [hg]. lia. }
  assert (HRr: AtomOK (fst (if keepR o r then flatten r else (r, []))) /\ ROK (snd (if keepR o r then flatten r else (r, [])))).
  { destruct (keepR o r) eqn:E.
    - destruct r as [b|orr r1 r2]; [discriminate E|]. apply IHr; [exact Hor|exact HQr| |eexists; eexists; eexists; reflexivity].
      intros a Ha Hoa Hqa. apply Hsm; [|exact Hoa|exact Hqa]. cbn [hg] in *. lia.
    - cbn [fst snd]. split; [|constructor]. apply Hsm; [|exact Hor|exact HQr]. cbn [hg]. lia. }
  destruct (if keepL o l then flatten l else (l, [])) as [hl ll].
  destruct (if keepR o r then flatten r else (r, [])) as [hr lr]. cbn [fst snd] in *.
  destruct HL as [HL1 HL2]. destruct HRr as [HR1 HR2]. split; [exact HL1|].
  unfold ROK. apply Forall_app. split; [exact HL2|]. constructor; [|exact HR2]. cbn [fst snd]. split; [exact Ho|exact HR1].
Qed.
End WithQ.

Definition LeafOK (b: base) : Prop := first_ok (ltoks b) /\ CastS P (ltoks b) (lemb b).

Lemma first_ok_kvg : forall t, leavesg LeafOK t -> first_ok (kvg t).
Proof.
  induction t as [b|o l IHl r IHr]; intros HQ; [exact (proj1 HQ)|]. cbn [leavesg] in HQ. destruct HQ as [HQl _].
  cbn [kvg]. apply first_ok_app. destruct (keepL o l); [exact (IHl HQl)|]. destruct l as [b|ol l1 l2]; [exact (proj1 HQl)|].
  apply first_ok_parkv. exact (IHl HQl).
Qed.

(* a tree of binary operators whose leaf operands are parsed back is parsed back, at the conditional-expression level *)
Theorem binop_cond : forall n t, hg t <= n -> opsg t -> leavesg LeafOK t -> (exists o l r, t = GBin _ _ o l r) ->
  CondS P (kvg t) (embg t).
Proof.
  induction n as [|n IH]; intros t Hh Hok HQ Hbin; [destruct t; cbn in Hh; lia|].
  assert (Hatoms: forall a, hg a < hg t -> opsg a -> leavesg LeafOK a -> AtomOK a).
  { intros a Ha Hoa Hqa. destruct a as [b|o l r]; [exact (proj2 Hqa)|]. unfold AtomOK. cbn [katom].
    apply paren_to_cast; [apply first_ok_kvg; exact Hqa|]. apply cond_to_expr; [apply first_ok_kvg; exact Hqa|].
    apply IH; [lia|exact Hoa|exact Hqa|eexists; eexists; eexists; reflexivity]. }
  destruct (flatten_ok LeafOK t Hok HQ Hatoms Hbin) as [Hhd Hrs].
  intros s le stop l0 HS HU Hst. destruct (cstop_facts _ Hst) as [Hb Hcond].
  rewrite kvg_flatten in HS. destruct (RoundTrip.Spell_app_inv P _ _ _ HS) as [la [lr [-> [HSa HSr]]]].
  assert (Hclimb: exists fu, climb fu 0 (Leaf gt str (fst (flatten t))) (snd (flatten t)) = Some (skel t, [])).
  { apply (ClimbComplete.climb_iff_grammar gt str gprec). apply (GenParen.generated_sequence_has_exactly_its_tree base str gprec rp). reflexivity. }
  destruct Hclimb as [fu Hclimb].
  destruct (head_quiet _ lr stop l0 Hrs HSr Hb) as [nq [lq [Enq Hnq]]].
  rewrite <- app_assoc in HU. rewrite Enq in HU.
  destruct (Hhd s la nq lq HSa HU Hnq) as [fa [aN [s2 [Hcast [HU2 [HaN HR2]]]]]]. rewrite <- Enq in HU2.
  destruct (sim fu) as [HC _].
  destruct (HC _ _ _ _ _ Hclimb Hrs s2 lr stop l0 aN HSr HU2 Hb HaN) as [_ [fc [N [s3 [lr' [Hcl [HS' [HU3 [HN HP3]]]]]]]]].
  apply (RoundTrip.Spell_nil_inv P) in HS'. subst lr'. cbn [app] in HU3.
  destruct (accept_miss P s3 stop l0 K_CONDOP HU3 Hcond) as [s4 [Hq [HU4 HS4]]].
  exists (S (Nat.max fa fc)), N, s4. split; [|split; [exact HU4|split; [rewrite HN; apply etree_skel|clear - HR2 HP3 HS4; cost_tac]]].
  intros f Hf. destruct f as [|f]; [lia|]. rewrite (cond_eq P).
  unfold bind at 1. rewrite (Hcast f) by lia. unfold bind at 1. rewrite (Hcl f) by lia. unfold bind at 1. rewrite Hq. reflexivity.
Qed.
End GenBin.
