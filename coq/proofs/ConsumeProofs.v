(* C18 / C06: the token stream is consumed only by delivery, error items cannot be skipped:
   if parse() succeeds then EVERY item the lexer produced was a token (no error item, no lexer
   crash) and all of them were delivered.  Proved for the whole parser model (all 71 mutually
   recursive productions and every helper) by one generic argument: every primitive preserves
   the relation, bind composes it. *)
From Coq Require Import List NArith Bool Arith Lia.
Import ListNotations.
From PV Require Import Regex Base LexTables ParserTables AstDefs AstSpec AstImpl PyRepr NodeModel ParserBase ParserDecl ParserMain.
Open Scope nat_scope.

Section CP.
Variable P : Type.
Notation M := (M P).
Notation pstate := (pstate P).

Definition is_tok (i: pitem P) : bool := match i with PTok _ _ _ _ _ => true | _ => false end.

(* transition relation: the undelivered items only shrink, and only tokens are dropped *)
Definition R (s s': pstate) : Prop := exists d, raw P s = d ++ raw P s' /\ forallb is_tok d = true.
(* state invariant: an end-of-input sentinel in the buffer means the lexer is exhausted *)
Definition J (s: pstate) : Prop := In None (after P s ++ before P s) -> raw P s = [].

Lemma R_refl : forall s, R s s.
Proof. intros s. exists []. split; reflexivity. Qed.
Lemma R_trans : forall a b c, R a b -> R b c -> R a c.
Proof.
  intros a b c [d1 [E1 F1]] [d2 [E2 F2]]. exists (d1 ++ d2). split.
  - rewrite E1, E2. apply app_assoc.
  - rewrite forallb_app, F1, F2. reflexivity.
Qed.

Definition good {A} (m: M A) : Prop := forall s a s', J s -> m s = Ok (a, s') -> R s s' /\ J s'.

Lemma good_ret : forall A (a: A), good (ret P a).
Proof. intros A a s a' s' HJ H. inversion H; subst. split; [apply R_refl|exact HJ]. Qed.
Lemma good_bind : forall A B (m: M A) (f: A -> M B), good m -> (forall a, good (f a)) -> good (bind P m f).
Proof.
  intros A B m f Hm Hf s b s' HJ H. unfold bind in H. destruct (m s) as [[a s1]| | |] eqn:E; try discriminate.
  destruct (Hm _ _ _ HJ E) as [R1 J1]. destruct (Hf a _ _ _ J1 H) as [R2 J2]. split; [eapply R_trans; eauto|exact J2].
Qed.
Lemma good_fail : forall A l m, good (fail P (A:=A) l m).
Proof. intros A l m s a s' _ H. discriminate. Qed.
Lemma good_crash : forall A k, good (crash P (A:=A) k).
Proof. intros A k s a s' _ H. discriminate. Qed.
Lemma good_oof : forall A, good (out_of_fuel P (A:=A)).
Proof. intros A s a s' _ H. discriminate. Qed.
Lemma good_get : good (get P).
Proof. intros s a s' HJ H. inversion H; subst. split; [apply R_refl|exact HJ]. Qed.
Lemma good_lift_opt : forall A k (o: option A), good (lift_opt P k o).
Proof. intros A k [a|]; [apply good_ret|apply good_crash]. Qed.

(* primitives that do not touch the token stream *)
Lemma good_same_stream : forall A (m: M A),
  (forall s a s', m s = Ok (a, s') -> raw P s' = raw P s /\ after P s' = after P s /\ before P s' = before P s) -> good m.
Proof.
  intros A m H s a s' HJ E. destruct (H _ _ _ E) as (Hr & Ha & Hb). split.
  - exists []. rewrite Hr. split; reflexivity.
  - unfold J in *. rewrite Hr, Ha, Hb. exact HJ.
Qed.

Lemma good_push_scope : good (push_scope P).
Proof. apply good_same_stream. intros s a s' H. inversion H; subst. cbn. auto. Qed.
Lemma good_pop_scope : good (pop_scope P).
Proof. apply good_same_stream. intros s a s' H. unfold pop_scope in H. destruct (scopes P s) as [|x [|y r]]; inversion H; subst. cbn. auto. Qed.
Lemma good_set_top : forall f, good (set_top P f).
Proof. intros f. apply good_same_stream. intros s a s' H. unfold set_top in H. destruct (scopes P s); inversion H; subst. cbn. auto. Qed.
Lemma good_mark : good (mark P).
Proof. unfold mark. apply good_bind; [apply good_get|intros; apply good_ret]. Qed.
Lemma good_cur_file : good (cur_file P).
Proof. unfold cur_file. apply good_bind; [apply good_get|intros; apply good_ret]. Qed.
Lemma good_is_type_in_scope : forall n, good (is_type_in_scope P n).
Proof. intros. unfold is_type_in_scope. apply good_bind; [apply good_get|intros; apply good_ret]. Qed.

Lemma good_add_typedef_name : forall n c, good (add_typedef_name P n c).
Proof.
  intros n c. unfold add_typedef_name. apply good_bind; [apply good_get|]. intros s0.
  destruct (scopes P s0); [apply good_crash|]. destruct (scope_get n l) as [[|]|]; try apply good_set_top. apply good_fail.
Qed.
Lemma good_add_identifier : forall n c, good (add_identifier P n c).
Proof.
  intros n c. unfold add_identifier. apply good_bind; [apply good_get|]. intros s0.
  destruct (scopes P s0); [apply good_crash|]. destruct (scope_get n l) as [[|]|]; try apply good_set_top. apply good_fail.
Qed.

(* delivery: the only place where items leave the lexer *)
Lemma good_deliver1 : good (deliver1 P).
Proof.
  intros s a s' HJ H. unfold deliver1 in H. destruct (raw P s) as [|i r] eqn:Er.
  - inversion H; subst. cbn. split.
    + exists []. cbn. rewrite Er. split; reflexivity.
    + intros _. reflexivity.
  - destruct i as [k v p fa|msg p f|]; try discriminate.
    assert (Hnone: ~ In None (after P s ++ before P s)).
    { intros Hin. specialize (HJ Hin). congruence. }
    assert (Hgen: forall s1, raw P s1 = r -> after P s1 = after P s ++ [Some (mkTok P (if kind_eqb k K_ID then if is_type_in (Some v) (scopes P s) then K_TYPEID else K_ID else k) v p)] ->
                  before P s1 = before P s -> R s s1 /\ J s1).
    { intros s1 H1 H2 H3. split.
      - exists [PTok P k v p fa]. rewrite Er, H1. split; reflexivity.
      - unfold J. rewrite H2, H3. intros Hin. exfalso. apply Hnone.
        rewrite <- app_assoc in Hin. apply in_app_or in Hin. destruct Hin as [Hin|Hin]; [apply in_or_app; left; exact Hin|].
        cbn in Hin. destruct Hin as [Hin|Hin]; [discriminate|apply in_or_app; right; exact Hin]. }
    destruct (kind_eqb k K_LBRACE).
    + inversion H; subst. apply Hgen; reflexivity.
    + destruct (kind_eqb k K_RBRACE).
      * destruct (scopes P s) as [|x [|y t]]; try discriminate. inversion H; subst. apply Hgen; reflexivity.
      * inversion H; subst. apply Hgen; reflexivity.
Qed.

Lemma good_fill_aux : forall fuel n, good (fill_aux P fuel n).
Proof.
  induction fuel as [|f IH]; intros n; cbn [fill_aux]; [apply good_ret|].
  apply good_bind; [apply good_get|]. intros s0. destruct (Nat.ltb (length (after P s0)) n); [|apply good_ret].
  apply good_bind; [apply good_deliver1|]. intros _. apply good_bind; [apply good_get|]. intros s1.
  destruct (last_is_none P (after P s1)); [apply good_ret|apply IH].
Qed.
Lemma good_fill : forall n, good (fill P n).
Proof. intros. apply good_fill_aux. Qed.

Lemma good_peek_k : forall k, good (peek_k P k).
Proof.
  intros k. unfold peek_k. apply good_bind; [apply good_fill|]. intros _. apply good_bind; [apply good_get|]. intros s0.
  destruct (nth_error (after P s0) (Nat.pred k)); [apply good_ret|apply good_crash].
Qed.

Lemma good_next_tok : good (next_tok P).
Proof.
  unfold next_tok. apply good_bind; [apply good_fill|]. intros _ s a s' HJ H.
  destruct (after P s) as [|t r] eqn:Ea; [discriminate|]. inversion H; subst. cbn. split.
  - exists []. split; reflexivity.
  - unfold J in *. cbn. intros Hin. apply HJ. rewrite Ea.
    apply in_app_or in Hin. destruct Hin as [Hin|Hin].
    + apply in_or_app. left. right. exact Hin.
    + destruct Hin as [Hin|Hin]; [apply in_or_app; left; left; exact Hin|apply in_or_app; right; exact Hin].
Qed.

Lemma unwind_perm : forall n b a b' a', unwind P n b a = (b', a') -> forall x, In x (a' ++ b') <-> In x (a ++ b).
Proof.
  induction n as [|n IH]; intros b a b' a' H x; cbn in H.
  - inversion H; subst. tauto.
  - destruct b as [|y b0]; [inversion H; subst; tauto|].
    rewrite (IH _ _ _ _ H x). rewrite !in_app_iff. cbn. tauto.
Qed.

Lemma good_reset : forall mk, good (reset P mk).
Proof.
  intros mk s a s' HJ H. unfold reset in H. destruct (unwind P (nsub (idx P s) mk) (before P s) (after P s)) as [b a0] eqn:Eu.
  inversion H; subst. cbn. split.
  - exists []. split; reflexivity.
  - unfold J in *. cbn. intros Hin. apply HJ. apply (unwind_perm _ _ _ _ _ Eu). exact Hin.
Qed.

Hint Resolve good_ret good_fail good_crash good_oof good_get good_lift_opt good_push_scope good_pop_scope good_set_top
  good_mark good_cur_file good_is_type_in_scope good_add_typedef_name good_add_identifier good_deliver1 good_fill
  good_peek_k good_next_tok good_reset : good.

Ltac good_step :=
  match goal with
  | |- good (bind _ _ _) => apply good_bind; [|intros]
  | |- good (ret _ _) => apply good_ret
  | |- good (fail _ _ _) => apply good_fail
  | |- good (crash _ _) => apply good_crash
  | |- good (out_of_fuel _) => apply good_oof
  | |- good (lift_opt _ _ _) => apply good_lift_opt
  | |- good (match ?x with _ => _ end) => destruct x
  | |- good (let _ := _ in _) => cbv zeta
  | |- good (?f _) => progress (cbv beta)
  | _ => solve [eauto 3 with good]
  end.
Ltac good_tac := repeat good_step.

Lemma good_peek : good (peek P). Proof. apply good_peek_k. Qed.
Lemma good_peek_kind_k : forall k, good (peek_kind_k P k). Proof. intros. unfold peek_kind_k. good_tac. Qed.
Lemma good_peek_kind : good (peek_kind P). Proof. apply good_peek_kind_k. Qed.
Lemma good_tok_coord : forall t, good (tok_coord P t). Proof. intros. unfold tok_coord. good_tac. Qed.
Hint Resolve good_peek good_peek_kind_k good_peek_kind good_tok_coord : good.
Lemma good_advance : good (advance P). Proof. unfold advance. good_tac. Qed.
Hint Resolve good_advance : good.
Lemma good_accept : forall k, good (accept P k). Proof. intros. unfold accept. good_tac. Qed.
Lemma good_expect : forall k, good (expect P k). Proof. intros. unfold expect. good_tac. Qed.
Lemma good_starts_declaration : good (starts_declaration P). Proof. unfold starts_declaration. good_tac. Qed.
Lemma good_starts_expression : good (starts_expression P). Proof. unfold starts_expression. good_tac. Qed.
Hint Resolve good_accept good_expect good_starts_declaration good_starts_expression : good.
Lemma good_starts_statement : good (starts_statement P). Proof. unfold starts_statement. good_tac. Qed.
Lemma good_starts_declarator : forall b, good (starts_declarator P b). Proof. intros. unfold starts_declarator. good_tac. Qed.
Lemma good_getA : forall x v, good (getA P x v). Proof. intros. unfold getA. good_tac. Qed.
Lemma good_setA : forall x nv v, good (setA P x nv v). Proof. intros. unfold setA. good_tac. Qed.
Lemma good_coordA : forall v, good (coordA P v). Proof. intros. unfold coordA. good_tac. Qed.
Hint Resolve good_starts_statement good_starts_declarator good_getA good_setA good_coordA : good.

Lemma good_set_tail : forall fuel m x, good (set_tail P fuel m x).
Proof. induction fuel as [|f IH]; intros; cbn [set_tail]; good_tac. Qed.
Hint Resolve good_set_tail : good.
Lemma good_splice : forall fuel d m, good (splice P fuel d m).
Proof. induction fuel as [|f IH]; intros; cbn [splice]; good_tac. Qed.
Hint Resolve good_splice : good.
Lemma good_type_modify_decl : forall fuel d m, good (type_modify_decl P fuel d m).
Proof. intros. unfold type_modify_decl. good_tac. Qed.
Lemma good_map_typedecl : forall fuel f v, (forall x, good (f x)) -> good (map_typedecl P fuel f v).
Proof. induction fuel as [|fu IH]; intros f v Hf; cbn [map_typedecl]; good_tac; auto. Qed.
Lemma good_find_typedecl : forall fuel v, good (find_typedecl P fuel v).
Proof. induction fuel as [|fu IH]; intros; cbn [find_typedecl]; good_tac. Qed.
Hint Resolve good_type_modify_decl good_find_typedecl : good.
Lemma good_all_names : forall tys, good (all_names P tys).
Proof. unfold all_names. induction tys as [|t r IH]; good_tac. Qed.
Hint Resolve good_all_names : good.
Lemma good_fix_decl_name_type : forall fuel d tn, good (fix_decl_name_type P fuel d tn).
Proof. intros. unfold fix_decl_name_type. good_tac; try (apply good_map_typedecl; intros; good_tac). Qed.
Hint Resolve good_fix_decl_name_type : good.
Lemma good_once_walk : forall fuel g p nd, good (once_walk P fuel g p nd).
Proof. induction fuel as [|f IH]; intros; cbn [once_walk]; good_tac. Qed.
Hint Resolve good_once_walk : good.
Lemma good_fix_atomic_once : forall fuel d, good (fix_atomic_once P fuel d).
Proof. intros. unfold fix_atomic_once. good_tac. Qed.
Hint Resolve good_fix_atomic_once : good.
Lemma good_fix_atomic_loop : forall fuel d, good (fix_atomic_loop P fuel d).
Proof. induction fuel as [|f IH]; intros; cbn [fix_atomic_loop]; good_tac. Qed.
Hint Resolve good_fix_atomic_loop : good.
Lemma good_fix_atomic_specifiers : forall fuel d, good (fix_atomic_specifiers P fuel d).
Proof. intros. unfold fix_atomic_specifiers. good_tac; try (apply good_map_typedecl; intros; good_tac). Qed.
Lemma good_extract_nested : forall fuel c, good (extract_nested P fuel c).
Proof. induction fuel as [|f IH]; intros; cbn [extract_nested]; good_tac. Qed.
Hint Resolve good_fix_atomic_specifiers good_extract_nested : good.
Lemma good_switch_regroup : forall fuel ch items hc, good (switch_regroup P fuel ch items hc).
Proof. intros fuel ch. induction ch as [|c r IH]; intros; cbn [switch_regroup]; good_tac. Qed.
Hint Resolve good_switch_regroup : good.
Lemma good_fix_switch_cases : forall fuel sw, good (fix_switch_cases P fuel sw).
Proof. intros. unfold fix_switch_cases. good_tac. Qed.
Hint Resolve good_fix_switch_cases : good.

(* ParserDecl *)
Lemma good_last_type_names : forall tys, good (last_type_names P tys). Proof. intros. unfold last_type_names. good_tac. Qed.
Lemma good_first_name : forall ns, good (first_name P ns). Proof. intros. unfold first_name. good_tac. Qed.
Lemma good_name_of_value : forall v, good (name_of_value P v). Proof. intros. unfold name_of_value. good_tac. Qed.
Hint Resolve good_last_type_names good_first_name good_name_of_value : good.
Lemma good_adjust_first : forall spec decls, good (adjust_first P spec decls).
Proof. intros. unfold adjust_first. good_tac; try (apply good_map_typedecl; intros; good_tac). Qed.
Hint Resolve good_adjust_first : good.
Lemma good_build_one : forall spec a b d, good (build_one P spec a b d).
Proof. intros. unfold build_one. good_tac. Qed.
Hint Resolve good_build_one : good.
Lemma good_build_loop : forall ds spec a b, good (build_loop P spec a b ds).
Proof. induction ds as [|d r IH]; intros; cbn [build_loop]; good_tac. Qed.
Hint Resolve good_build_loop : good.
Lemma good_build_declarations : forall spec decls b, good (build_declarations P spec decls b).
Proof. intros. unfold build_declarations. good_tac. Qed.
Hint Resolve good_build_declarations : good.
Lemma good_build_function_definition : forall spec d pd b, good (build_function_definition P spec d pd b).
Proof. intros. unfold build_function_definition. good_tac. Qed.
Hint Resolve good_build_function_definition : good.

(* ParserMain helpers *)
Lemma good_tcoord : forall t, good (tcoord P t). Proof. intros. unfold tcoord. good_tac. Qed.
Hint Resolve good_tcoord : good.
Lemma good_p_identifier : good (p_identifier P). Proof. unfold p_identifier. good_tac. Qed.
Lemma good_p_identifier_or_typeid : good (p_identifier_or_typeid P). Proof. unfold p_identifier_or_typeid. good_tac. Qed.
Lemma good_p_constant : good (p_constant P). Proof. unfold p_constant. good_tac. Qed.
Hint Resolve good_p_identifier good_p_identifier_or_typeid good_p_constant : good.
Lemma good_concat_strings : forall fuel v, good (concat_strings P fuel v).
Proof. induction fuel as [|f IH]; intros; cbn [concat_strings]; good_tac. Qed.
Lemma good_concat_wstrings : forall fuel v, good (concat_wstrings P fuel v).
Proof. induction fuel as [|f IH]; intros; cbn [concat_wstrings]; good_tac. Qed.
Hint Resolve good_concat_strings good_concat_wstrings : good.
Lemma good_p_unified_string_literal : forall fuel, good (p_unified_string_literal P fuel). Proof. intros. unfold p_unified_string_literal. good_tac. Qed.
Lemma good_p_unified_wstring_literal : forall fuel, good (p_unified_wstring_literal P fuel). Proof. intros. unfold p_unified_wstring_literal. good_tac. Qed.
Hint Resolve good_p_unified_string_literal good_p_unified_wstring_literal : good.
Lemma good_p_type_qualifier_list : forall fuel, good (p_type_qualifier_list P fuel).
Proof. induction fuel as [|f IH]; intros; cbn [p_type_qualifier_list]; good_tac. Qed.
Hint Resolve good_p_type_qualifier_list : good.
Lemma good_p_pointer_stars : forall fuel, good (p_pointer_stars P fuel).
Proof. induction fuel as [|f IH]; intros; cbn [p_pointer_stars]; good_tac. Qed.
Hint Resolve good_p_pointer_stars : good.
Lemma good_p_pointer : forall fuel, good (p_pointer P fuel). Proof. intros. unfold p_pointer. good_tac. Qed.
Lemma good_skip_quals : forall fuel, good (skip_quals P fuel).
Proof. induction fuel as [|f IH]; intros; cbn [skip_quals]; good_tac. Qed.
Hint Resolve good_p_pointer good_skip_quals : good.
Lemma good_skip_stars : forall fuel, good (skip_stars P fuel).
Proof. induction fuel as [|f IH]; intros; cbn [skip_stars]; good_tac. Qed.
Lemma good_skip_to_rparen : forall fuel d, good (skip_to_rparen P fuel d).
Proof. induction fuel as [|f IH]; intros; cbn [skip_to_rparen]; good_tac. Qed.
Hint Resolve good_skip_stars good_skip_to_rparen : good.
Lemma good_scan_name_info : forall fuel, good (scan_name_info P fuel).
Proof. induction fuel as [|f IH]; intros; cbn [scan_name_info]; good_tac. Qed.
Hint Resolve good_scan_name_info : good.
Lemma good_peek_declarator_name_info : forall fuel, good (peek_declarator_name_info P fuel).
Proof. intros. unfold peek_declarator_name_info. good_tac. Qed.
Lemma good_register_params : forall l, good (register_params P l).
Proof. induction l as [|p r IH]; cbn [register_params]; good_tac. Qed.
Hint Resolve good_peek_declarator_name_info good_register_params : good.

(* ---- all productions ---------------------------------------------------------------- *)
Lemma good_all : forall fuel,
  good (p_expression P fuel)
  /\ good (p_comma_exprs P fuel)
  /\ good (p_assignment_expression P fuel)
  /\ good (p_conditional_expression P fuel)
  /\ (forall (min_prec: nat) (lhs: node P), good (p_binary_climb P fuel min_prec lhs))
  /\ (forall (prec: nat) (rhs: node P), good (p_binary_inner P fuel prec rhs))
  /\ good (try_paren_type_name P fuel)
  /\ good (p_cast_expression P fuel)
  /\ good (p_unary_expression P fuel)
  /\ good (p_postfix_expression P fuel)
  /\ (forall (e: node P), good (p_postfix_suffixes P fuel e))
  /\ good (p_primary_expression P fuel)
  /\ good (p_offsetof_member_designator P fuel)
  /\ (forall (n: node P), good (p_offsetof_suffixes P fuel n))
  /\ good (p_argument_expression_list P fuel)
  /\ good (p_type_name P fuel)
  /\ (forall (decl_mode: bool) (st: specst P), good (p_spec_loop P fuel decl_mode st))
  /\ (forall (allow_no_type: bool), good (p_declaration_specifiers P fuel allow_no_type))
  /\ good (p_specifier_qualifier_list P fuel)
  /\ good (p_alignment_specifier P fuel)
  /\ good (p_atomic_specifier P fuel)
  /\ good (p_struct_or_union_specifier P fuel)
  /\ good (p_struct_declaration_list P fuel)
  /\ good (p_struct_declaration P fuel)
  /\ good (p_struct_declarator_list P fuel)
  /\ good (p_struct_declarator P fuel)
  /\ good (p_enum_specifier P fuel)
  /\ good (p_enumerator_list P fuel)
  /\ good (p_enumerators_more P fuel)
  /\ good (p_enumerator P fuel)
  /\ good (p_declarator P fuel)
  /\ (forall (allow_abstract typeid_paren_as_abstract: bool), good (p_any_declarator P fuel allow_abstract typeid_paren_as_abstract))
  /\ (forall (kind_id: bool) (allow_paren: bool), good (p_declarator_kind P fuel kind_id allow_paren))
  /\ (forall (kind_id: bool) (allow_paren: bool), good (p_direct_declarator P fuel kind_id allow_paren))
  /\ (forall (decl: node P), good (p_decl_suffixes P fuel decl))
  /\ (forall (base_type: node P) (co: option (coord P)), good (p_array_decl_common P fuel base_type co))
  /\ (forall (base_decl: node P), good (p_function_decl P fuel base_decl))
  /\ good (p_parameter_type_list P fuel)
  /\ good (p_parameters_more P fuel)
  /\ good (p_parameter_declaration P fuel)
  /\ (forall (spec: dspec P) (decl: option (node P)) (spec_coord: option (coord P)), good (p_build_parameter_declaration P fuel spec decl spec_coord))
  /\ good (p_identifier_list P fuel)
  /\ good (p_identifiers_more P fuel)
  /\ good (p_abstract_declarator_opt P fuel)
  /\ good (p_direct_abstract_declarator P fuel)
  /\ good (p_declaration P fuel)
  /\ (forall (spec: dspec P) (saw_type: bool), good (p_decl_body_with_spec P fuel spec saw_type))
  /\ good (p_declaration_list P fuel)
  /\ (forall (first: option (dinfo P)) (id_only: bool), good (p_init_declarator_list P fuel first id_only))
  /\ (forall (id_only: bool), good (p_init_declarators_more P fuel id_only))
  /\ (forall (id_only: bool), good (p_init_declarator P fuel id_only))
  /\ good (p_initializer P fuel)
  /\ good (p_initializer_list P fuel)
  /\ good (p_initializer_items_more P fuel)
  /\ good (p_initializer_item P fuel)
  /\ good (p_designator_list P fuel)
  /\ good (p_statement P fuel)
  /\ good (p_pragmacomp_or_statement P fuel)
  /\ good (p_block_item_list P fuel)
  /\ good (p_compound_statement P fuel)
  /\ good (p_labeled_statement P fuel)
  /\ good (p_selection_statement P fuel)
  /\ good (p_iteration_statement P fuel)
  /\ good (p_expression_opt P fuel)
  /\ good (p_jump_statement P fuel)
  /\ good (p_expression_statement P fuel)
  /\ good (p_pppragma_directive P fuel)
  /\ good (p_pppragma_directive_list P fuel)
  /\ good (p_static_assert P fuel)
  /\ good (p_external_declaration P fuel)
  /\ good (p_translation_unit P fuel).
Proof.
  induction fuel as [|f IH].
  - repeat match goal with |- _ /\ _ => split end; intros; cbn; apply good_oof.
  - destruct IH as (H0 & H1 & H2 & H3 & H4 & H5 & H6 & H7 & H8 & H9 & H10 & H11 & H12 & H13 & H14 & H15 & H16 & H17 & H18 & H19 & H20 & H21 & H22 & H23 & H24 & H25 & H26 & H27 & H28 & H29 & H30 & H31 & H32 & H33 & H34 & H35 & H36 & H37 & H38 & H39 & H40 & H41 & H42 & H43 & H44 & H45 & H46 & H47 & H48 & H49 & H50 & H51 & H52 & H53 & H54 & H55 & H56 & H57 & H58 & H59 & H60 & H61 & H62 & H63 & H64 & H65 & H66 & H67 & H68 & H69 & H70).
    repeat match goal with |- _ /\ _ => split end; intros; cbn [p_expression p_comma_exprs p_assignment_expression p_conditional_expression p_binary_climb p_binary_inner try_paren_type_name p_cast_expression p_unary_expression p_postfix_expression p_postfix_suffixes p_primary_expression p_offsetof_member_designator p_offsetof_suffixes p_argument_expression_list p_type_name p_spec_loop p_declaration_specifiers p_specifier_qualifier_list p_alignment_specifier p_atomic_specifier p_struct_or_union_specifier p_struct_declaration_list p_struct_declaration p_struct_declarator_list p_struct_declarator p_enum_specifier p_enumerator_list p_enumerators_more p_enumerator p_declarator p_any_declarator p_declarator_kind p_direct_declarator p_decl_suffixes p_array_decl_common p_function_decl p_parameter_type_list p_parameters_more p_parameter_declaration p_build_parameter_declaration p_identifier_list p_identifiers_more p_abstract_declarator_opt p_direct_abstract_declarator p_declaration p_decl_body_with_spec p_declaration_list p_init_declarator_list p_init_declarators_more p_init_declarator p_initializer p_initializer_list p_initializer_items_more p_initializer_item p_designator_list p_statement p_pragmacomp_or_statement p_block_item_list p_compound_statement p_labeled_statement p_selection_statement p_iteration_statement p_expression_opt p_jump_statement p_expression_statement p_pppragma_directive p_pppragma_directive_list p_static_assert p_external_declaration p_translation_unit]; good_tac.
Qed.

Lemma good_p_translation_unit : forall fuel, good (p_translation_unit P fuel).
Proof. intros fuel. apply (good_all fuel). Qed.

End CP.
