(* C12 - a parser's result depends only on (text, filename), never on its history.  Property theorems only. *)
From Coq Require Import List NArith Bool Arith.
Import ListNotations.
From PV Require Import Regex Base StateFacts StateProofs.

Theorem C12_parser_state_reset_by_parse :
  subset parser_attrs_after_init parse_resets_attrs = true
  /\ mem_str (s2l "self.clex.input") parse_resets_calls = true
  /\ subset parser_attrs (s2l "clex" :: parse_resets_attrs) = true.
Proof. exact parser_state_reset_by_parse. Qed.
Print Assumptions C12_parser_state_reset_by_parse.

Theorem C12_lexer_state_reset_by_input :
  mem_str (s2l "self._init_state") lexer_input_calls = true
  /\ subset lexer_attrs_after_init lexer_init_state_attrs = true.
Proof. exact lexer_state_reset_by_input. Qed.
Print Assumptions C12_lexer_state_reset_by_input.

Theorem C12_tokenstream_fresh : subset tokenstream_attrs tokenstream_init_attrs = true.
Proof. exact tokenstream_fresh. Qed.
Print Assumptions C12_tokenstream_fresh.

Theorem C12_generator_only_indent : subset generator_attrs_after_init [s2l "indent_level"] = true.
Proof. exact generator_only_indent. Qed.
Print Assumptions C12_generator_only_indent.

(* a call that begins by re-assigning all the state it uses: its result is the same for arbitrary prior
   states, hence after any sequence of earlier calls, whatever they did *)
Theorem C12_history_independent : forall (St In Out: Type) (fresh: In -> St) (body: St -> Out * St) st st' x,
  fst (call St In Out fresh body st x) = fst (call St In Out fresh body st' x).
Proof. exact call_history_independent. Qed.
Print Assumptions C12_history_independent.

Theorem C12_reused_equals_fresh : forall (St In Out: Type) (fresh: In -> St) (body: St -> Out * St) xs st st0,
  run_calls St In Out fresh body st xs = map (fun x => fst (call St In Out fresh body st0 x)) xs.
Proof. exact reused_equals_fresh. Qed.
Print Assumptions C12_reused_equals_fresh.
