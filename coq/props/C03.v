(* C03 - declaration ASTs encode C declarator semantics for every declared name
   Property theorems only; the statements below are checked by the kernel on the whole-pipeline model
   (lexer -> token stream -> parser -> transforms), proofs in proofs/DeclExamples.v. *)
From Coq Require Import List NArith Bool Arith.
Import ListNotations.
From PV Require Import Regex Base LexTables NodeModel ParserBase ParserDecl ParserMain Api DeclExamples AstSpec DeclProofs.

(* array of pointers to functions returning pointer to int: derivations from the identifier outward *)
Theorem C03_inside_out :
  outcome_str (s2l "int *(*fp[3])(char, int *);") = s2l "OK|(FileAST [(Decl 'fp' [] [] [] [] (ArrayDecl (PtrDecl [] (FuncDecl (ParamList [(Typename None [] None (TypeDecl None [] None (IdentifierType ['char']))),(Typename None [] None (PtrDecl [] (TypeDecl None [] None (IdentifierType ['int']))))]) (PtrDecl [] (TypeDecl 'fp' [] None (IdentifierType ['int']))))) (Constant 'int' '3') []) None None)])".
Proof. exact ex_C03_inside_out. Qed.
Print Assumptions C03_inside_out.

(* specifiers shared by several declarators apply to each *)
Theorem C03_shared_specifiers :
  outcome_str (s2l "static const int a, *b, c[2];") = s2l "OK|(FileAST [(Decl 'a' ['const'] [] ['static'] [] (TypeDecl 'a' ['const'] None (IdentifierType ['int'])) None None),(Decl 'b' ['const'] [] ['static'] [] (PtrDecl [] (TypeDecl 'b' ['const'] None (IdentifierType ['int']))) None None),(Decl 'c' ['const'] [] ['static'] [] (ArrayDecl (TypeDecl 'c' ['const'] None (IdentifierType ['int'])) (Constant 'int' '2') []) None None)])".
Proof. exact ex_C03_shared_specifiers. Qed.
Print Assumptions C03_shared_specifiers.

(* _Atomic(T) means the _Atomic-qualified T *)
Theorem C03_atomic_specifier :
  outcome_str (s2l "_Atomic(int) x;") = s2l "OK|(FileAST [(Decl 'x' ['_Atomic'] [] [] [] (TypeDecl 'x' ['_Atomic'] None (IdentifierType ['int'])) None None)])".
Proof. exact ex_C03_atomic_specifier. Qed.
Print Assumptions C03_atomic_specifier.

(* witness: with several declarators the shared _Atomic(...) node is mutated - the second declaration is named x as well *)
Theorem C03_atomic_shared_refuted :
  outcome_str (s2l "_Atomic(int) x, *p;") = s2l "OK|(FileAST [(Decl 'x' ['_Atomic'] [] [] [] (TypeDecl 'x' ['_Atomic'] None (IdentifierType ['int'])) None None),(Decl 'p' ['_Atomic'] [] [] [] (PtrDecl [] (TypeDecl 'x' ['_Atomic'] None (IdentifierType ['int']))) None None)])".
Proof. exact ex_C03_atomic_shared_refuted. Qed.
Print Assumptions C03_atomic_shared_refuted.

(* _type_modify_decl splices the modifier chain between the declarator's own chain and its TypeDecl,
   for a declarator chain and a modifier chain (pointer prefix, array / function suffix) of ANY length *)
Theorem C03_modify_splice : forall (P: Type) ld fs co lm fuel s, lm <> [] -> (length ld + length lm <= fuel)%nat ->
  type_modify_decl P fuel (build P ld (typedecl P fs co)) (build P lm VNone) s
  = Ok (build P (ld ++ lm) (typedecl P fs co), s).
Proof. exact modify_splice. Qed.
Print Assumptions C03_modify_splice.
