(* C03 - declaration ASTs encode C declarator semantics for every declared name
   Property theorems only; the statements below are checked by the kernel on the whole-pipeline model
   (lexer -> token stream -> parser -> transforms), proofs in proofs/DeclExamples.v. *)
From Coq Require Import List NArith Bool Arith.
Import ListNotations.
From PV Require Import Regex Base LexTables NodeModel ParserBase ParserDecl ParserMain Api DeclExamples AstSpec DeclProofs DeclRefine BuildDecls.

(* array of pointers to functions returning pointer to int: derivations from the identifier outward *)
Theorem C03_inside_out :
  outcome_str (s2l "int *(*fp[3])(char, int *);") = s2l "OK|(FileAST [(Decl 'fp' [] [] [] [] (ArrayDecl (PtrDecl [] (FuncDecl (ParamList [(Typename None [] None (TypeDecl None [] None (IdentifierType ['char']))),(Typename None [] None (PtrDecl [] (TypeDecl None [] None (IdentifierType ['int']))))]) (PtrDecl [] (TypeDecl 'fp' [] None (IdentifierType ['int']))))) (Constant 'int' '3') []) None None)])".
Proof. exact ex_C03_inside_out. Qed.
Print Assumptions C03_inside_out.

(* specifiers shared by several declarators apply to each *)
Theorem C03_shared_specifiers :
  outcome_str (s2l "static const int a, *b, c[2];") = s2l "OK|(FileAST [(Decl 'a' ['const'] [] ['static'] [] (TypeDecl 'a' ['const'] None (IdentifierType ['int'])) None None),(Decl 'b' ['const'] [] ['static'] [] (PtrDecl [] (TypeDecl 'b' ['const'] None (IdentifierType ['int']))) None None),(Decl 'c' ['const'] [] ['static'] [] (ArrayDecl (TypeDecl 'c' ['const'] None (IdentifierType ['int'])) (Constant 'int' '2') []) None None)])".
Proof. exact ex_C03_shared_specifiers. Qed.
Print Assumptions C03_shared_specifiers.

(* _Atomic(T) means the _Atomic-qualified T *)
Theorem C03_atomic_specifier :
  outcome_str (s2l "_Atomic(int) x;") = s2l "OK|(FileAST [(Decl 'x' ['_Atomic'] [] [] [] (TypeDecl 'x' ['_Atomic'] None (IdentifierType ['int'])) None None)])".
Proof. exact ex_C03_atomic_specifier. Qed.
Print Assumptions C03_atomic_specifier.

(* witness: with several declarators the shared _Atomic(...) node is mutated - the second declaration is named x as well *)
Theorem C03_atomic_shared_refuted :
  outcome_str (s2l "_Atomic(int) x, *p;") = s2l "OK|(FileAST [(Decl 'x' ['_Atomic'] [] [] [] (TypeDecl 'x' ['_Atomic'] None (IdentifierType ['int'])) None None),(Decl 'p' ['_Atomic'] [] [] [] (PtrDecl [] (TypeDecl 'x' ['_Atomic'] None (IdentifierType ['int']))) None None)])".
Proof. exact ex_C03_atomic_shared_refuted. Qed.
Print Assumptions C03_atomic_shared_refuted.

(* _type_modify_decl splices the modifier chain between the declarator's own chain and its TypeDecl,
   for a declarator chain and a modifier chain (pointer prefix, array / function suffix) of ANY length *)
Theorem C03_modify_splice : forall (P: Type) ld fs co lm fuel s, lm <> [] -> (length ld + length lm <= fuel)%nat ->
  type_modify_decl P fuel (build P ld (typedecl P fs co)) (build P lm VNone) s
  = Ok (build P (ld ++ lm) (typedecl P fs co), s).
Proof. exact modify_splice. Qed.
Print Assumptions C03_modify_splice.

(* whenever _type_modify_decl returns at all, it returns that splice - no bound on the chain lengths *)
Theorem C03_modify_ok : forall (P: Type) fuel ld fs co lm (s: pstate P) r s', lm <> [] ->
  type_modify_decl P fuel (build P ld (typedecl P fs co)) (build P lm VNone) s = Ok (r, s') ->
  r = build P (ld ++ lm) (typedecl P fs co) /\ s' = s.
Proof. exact modify_ok. Qed.
Print Assumptions C03_modify_ok.

(* the declarator productions of the whole-parser model (pointer_opt direct-declarator, ( declarator ),
   [..] and (..) suffixes; ParserMain.p_declarator_kind / p_direct_declarator / p_decl_suffixes), for every
   token stream, state and fuel: the node returned is the chain of the derivations C99 6.7.5.1-3 assigns to the
   declarator D that was read (RunK: which tokens and sub-productions, in which order), applied from the
   identifier outwards - suffixes left to right, then the pointer prefix with the star nearest the
   identifier outermost, a parenthesised declarator first - ending in the TypeDecl made from the identifier *)
Theorem C03_declarator_refines : forall (P: Type) f kid ap s r s',
  p_declarator_kind P f kid ap s = Ok (r, s') ->
  exists D, RunK P kid ap s D s' /\ r = build P (derivs P D) (leaf P D).
Proof. exact declarator_refines. Qed.
Print Assumptions C03_declarator_refines.

(* `* q1 * q2 ... *qn`: the pointer chain has the LAST star outermost (pointer nearest the identifier) *)
Theorem C03_pointer_order : forall (P: Type) f (s s': pstate P) p, p_pointer P f s = Ok (Some p, s') ->
  exists stars, stars <> [] /\ p_pointer_stars P f s = Ok (stars, s') /\ p = build P (rev (map (mkptr P) stars)) VNone.
Proof. exact p_pointer_ok. Qed.
Print Assumptions C03_pointer_order.

(* "each declared entity gets its own Decl": the loop of _build_declarations over a declarator list of ANY length
   returns exactly one node per declarator, in source order, the i-th built by build_one from the i-th declarator *)
Theorem C03_one_decl_per_declarator : forall (P: Type) ds spec it tns (s: pstate P) decls spec' s',
  build_loop P spec it tns ds s = Ok ((decls, spec'), s') ->
  Forall2 (fun d r => exists sp sp' sa sb, build_one P sp it tns d sa = Ok ((r, sp'), sb)) ds decls.
Proof. exact build_loop_one_per_declarator. Qed.
Print Assumptions C03_one_decl_per_declarator.

(* COMPLETENESS for the simplest declarations, on the whole-parser model (proofs/DeclTrip.v): for every non-empty run T of simple
   type-specifier keywords, every identifier x and every initializer the assignment-expression level parses back (InitOK: none, or
   `= e`), p_declaration turns the tokens `T x [= e] ;` - from any state whose scope stack holds no typedef name - into exactly ONE Decl
   named x whose type is TypeDecl(x) over ONE IdentifierType listing the keywords of T in source order (the base type exactly as
   spelled), with the initializer in its slot, no qualifiers / storage / function specifiers / alignment / bit-field width. *)
From PV Require StreamLib RoundTrip DeclTrip.
Theorem C03_plain_declaration : forall (P: Type) ty x ki Xi, ty <> [] ->
  Forall (fun kv => ParserBase.kind_in (fst kv) ParserTables.tbl_TYPE_SPEC_SIMPLE = true) ty -> DeclTrip.InitOK P ki Xi ->
  forall (s: ParserBase.pstate P) le (stop: ParserBase.tok P) l0, RoundTrip.Spell P le (DeclTrip.dtoks ty x ki) -> StreamLib.Up P s (le ++ stop :: l0) ->
  StreamLib.NoTD (ParserBase.scopes P s) ->
  exists f0 Ns s', (forall f, (f0 <= f)%nat -> ParserMain.p_declaration P f s = ParserBase.Ok (Ns, s')) /\ StreamLib.Up P s' (stop :: l0) /\
    map (@RoundTrip.strip (ParserBase.coord P)) Ns = [DeclTrip.dembed ty x Xi] /\ StreamLib.Ran P s s' (length le).
Proof. exact DeclTrip.decl_run. Qed.
Print Assumptions C03_plain_declaration.

(* "specifiers shared by several declarators apply to each of them": the declaration `T x1 [= e1] , x2 [= e2] , ... ;` with ANY number of
   declarators becomes one Decl per declarator, in source order, each named after its declarator, each with the type T spells and its
   own initializer (proofs/DeclTrip.v: p_init_declarators_more by induction on the list, build_loop / build_one per declarator - the shared
   specifier is handed on unchanged - and every declared name enters the scope). *)
Theorem C03_declarator_list : forall (P: Type) ty x ki Xi ds, ty <> [] ->
  Forall (fun kv => ParserBase.kind_in (fst kv) ParserTables.tbl_TYPE_SPEC_SIMPLE = true) ty -> DeclTrip.InitOK P ki Xi ->
  Forall (fun d => DeclTrip.InitOK P (snd (fst d)) (snd d)) ds ->
  forall (s: ParserBase.pstate P) le (stop: ParserBase.tok P) l0, RoundTrip.Spell P le (DeclTrip.dltoks ty x ki ds) -> StreamLib.Up P s (le ++ stop :: l0) ->
  StreamLib.NoTD (ParserBase.scopes P s) ->
  exists f0 Ns s', (forall f, (f0 <= f)%nat -> ParserMain.p_declaration P f s = ParserBase.Ok (Ns, s')) /\ StreamLib.Up P s' (stop :: l0) /\
    map (@RoundTrip.strip (ParserBase.coord P)) Ns = DeclTrip.dembed ty x Xi :: map (fun d => DeclTrip.dembed ty (fst (fst d)) (snd d)) ds /\
    StreamLib.Ran P s s' (List.length le).
Proof. exact DeclTrip.decl_list_run. Qed.
Print Assumptions C03_declarator_list.
