(* C19 - every fake libc header preprocesses and parses via parse_file.  Property theorems only
   (the glue of pycparser/__init__.py; cpp itself and the header files are outside any model). *)
From Coq Require Import List NArith Bool.
Import ListNotations.
From PV Require Import Regex Base CppArgs CppProofs.

Theorem C19_path_list_shape : forall cpp args file,
  exists mid, path_list cpp args file = cpp :: mid ++ [file]
              /\ mid = match args with ArgList l => l | ArgStr [] => [] | ArgStr s => [s] end.
Proof. exact path_list_shape. Qed.
Print Assumptions C19_path_list_shape.

Theorem C19_str_equals_singleton_list : forall cpp s file, s <> [] ->
  path_list cpp (ArgStr s) file = path_list cpp (ArgList [s]) file.
Proof. exact str_equals_singleton_list. Qed.
Print Assumptions C19_str_equals_singleton_list.

Theorem C19_parse_file_is_manual_pipeline : forall (Text Ast: Type) run_cpp read_file (parse: Text -> str -> Ast) file cpp args,
  parse_file Text Ast run_cpp read_file parse file true cpp args
  = parse (preprocess_file Text run_cpp file cpp args) file.
Proof. exact parse_file_is_manual_pipeline. Qed.
Print Assumptions C19_parse_file_is_manual_pipeline.
