(* C14 - node classes and tree traversal conform to the declarative AST specification.
   Property theorems only; proofs are in proofs/NodeProofs.v. *)
From Coq Require Import List NArith Bool Arith.
Import ListNotations.
From PV Require Import Regex Base AstDefs AstSpec AstImpl AstGenImpl PyRepr NodeModel NodeProofs.

(* the checked-in classes are exactly what the templates give for the cfg (all 49 classes):
   slots, constructor parameters and assignments, children(), __iter__, attr_names *)
Theorem C14_conformance : ast_impl = map template ast_spec.
Proof. exact impl_conforms_to_spec. Qed.
Print Assumptions C14_conformance.

(* ... and the template function is what the real _ast_gen.py computes on this cfg *)
Theorem C14_generator : ast_gen_impl = map template ast_spec.
Proof. exact generator_is_template. Qed.
Print Assumptions C14_generator.

Theorem C14_ctor_order :
  forallb (fun p => list_str_eqb (ci_params (fst p)) (map fst (cs_entries (snd p)) ++ [s_coord])
                    && Nat.eqb (ci_ndefaults (fst p)) 1) (combine ast_impl ast_spec) = true
  /\ length ast_impl = length ast_spec.
Proof. exact ctor_order. Qed.
Print Assumptions C14_ctor_order.

Theorem C14_attr_names :
  forallb (fun p => list_str_eqb (ci_attr_names (fst p)) (entries_of_kind EAttr (snd p))) (combine ast_impl ast_spec) = true.
Proof. exact attr_names_are_plain_fields. Qed.
Print Assumptions C14_attr_names.

(* children() and iteration agree on every instance of every class, whatever the field values *)
Theorem C14_children_iter_agree : forall (P: Type) (v: value P),
  option_map (map snd) (children P v) = iter P v.
Proof. exact children_iter_agree. Qed.
Print Assumptions C14_children_iter_agree.

(* NodeVisitor: the per-instance method cache is transparent (for every AST, every set of visit_X methods and every
   cache whose entries were produced by this visitor class, visit() yields exactly the events of the cache-free
   traversal), a visit_X method intercepts exactly the nodes of class X, and the generic traversal reaches every
   reachable node exactly once, in pre-order *)
From PV Require Import VisitProofs.
Theorem C14_visit_cache_transparent : forall (P: Type) handler_of f m (v: value P) ev m', cache_ok handler_of m ->
  visit P handler_of f m v = Some (ev, m') -> spec_visit P handler_of f v = Some ev /\ cache_ok handler_of m'.
Proof. exact visit_cache_transparent. Qed.
Print Assumptions C14_visit_cache_transparent.

Theorem C14_intercept_exactly : forall (P: Type) handler_of f (v: value P) ev, spec_visit P handler_of f v = Some ev ->
  Forall (fun e => snd e = match handler_of (fst e) with H_generic => false | _ => true end) ev.
Proof. exact intercept_exactly. Qed.
Print Assumptions C14_intercept_exactly.

Theorem C14_generic_visit_is_preorder : forall (P: Type) f (v: value P),
  spec_visit P (fun _ => H_generic) f v = option_map (map (fun c => (c, false))) (preorder P f v).
Proof. exact generic_visit_is_preorder. Qed.
Print Assumptions C14_generic_visit_is_preorder.

(* show() prints exactly one line per reachable node: for every AST whose header lines (class name, attribute
   values as show renders them, coordinate text) contain no newline, every offset and every combination of
   show's options, the number of newlines in the output = the number of nodes of the pre-order traversal *)
From PV Require Import ShowProofs.
Theorem C14_show_one_line_per_node : forall (P: Type) pr coord_str o f offset my_name (v: value P) out,
  show P pr coord_str o f offset my_name v = Some out -> headers_ok P pr coord_str o f offset my_name v ->
  exists nodes, preorder P f v = Some nodes /\ nl out = length nodes.
Proof. exact show_one_line_per_node. Qed.
Print Assumptions C14_show_one_line_per_node.
