(* C16 - parsing work grows linearly with input size - no backtracking blow-up
   Property theorems only; the statements below are checked by the kernel on the whole-pipeline model
   (lexer -> token stream -> parser -> transforms), proofs in proofs/CostExamples.v. *)
From Coq Require Import List NArith Bool Arith.
Import ListNotations.
From PV Require Import Regex Base LexTables NodeModel ParserBase ParserDecl ParserMain Api CostExamples UnicodeTables PyRepr Lexer LexerProofs BinaryRefine StreamLib RoundTrip RoundTripGen RoundTripX StmtTrip.

(* witness of exponential growth: nesting depth 1 *)
Theorem C16_complit_1 :
  ticks_of (s2l "int x = (int[1]){0};") = 20%N.
Proof. exact ex_C16_complit_1. Qed.
Print Assumptions C16_complit_1.

(* witness of exponential growth: nesting depth 2 *)
Theorem C16_complit_2 :
  ticks_of (s2l "int x = (int[(int[1]){0}]){0};") = 48%N.
Proof. exact ex_C16_complit_2. Qed.
Print Assumptions C16_complit_2.

(* witness of exponential growth: nesting depth 3 *)
Theorem C16_complit_3 :
  ticks_of (s2l "int x = (int[(int[(int[1]){0}]){0}]){0};") = 104%N.
Proof. exact ex_C16_complit_3. Qed.
Print Assumptions C16_complit_3.

(* witness of exponential growth: nesting depth 4 *)
Theorem C16_complit_4 :
  ticks_of (s2l "int x = (int[(int[(int[(int[1]){0}]){0}]){0}]){0};") = 216%N.
Proof. exact ex_C16_complit_4. Qed.
Print Assumptions C16_complit_4.

(* witness of exponential growth: nesting depth 5 *)
Theorem C16_complit_5 :
  ticks_of (s2l "int x = (int[(int[(int[(int[(int[1]){0}]){0}]){0}]){0}]){0};") = 440%N.
Proof. exact ex_C16_complit_5. Qed.
Print Assumptions C16_complit_5.

(* witness of exponential growth: nesting depth 6 *)
Theorem C16_complit_6 :
  ticks_of (s2l "int x = (int[(int[(int[(int[(int[(int[1]){0}]){0}]){0}]){0}]){0}]){0};") = 888%N.
Proof. exact ex_C16_complit_6. Qed.
Print Assumptions C16_complit_6.

(* a linear family at k=8 *)
Theorem C16_linear_8 :
  ticks_of (s2l "int v0 = 0; int v1 = 1; int v2 = 2; int v3 = 3; int v4 = 4; int v5 = 5; int v6 = 6; int v7 = 7;") = 48%N.
Proof. exact ex_C16_linear_8. Qed.
Print Assumptions C16_linear_8.

(* ... and at k=16: exactly twice the token reads *)
Theorem C16_linear_16 :
  ticks_of (s2l "int v0 = 0; int v1 = 1; int v2 = 2; int v3 = 3; int v4 = 4; int v5 = 5; int v6 = 6; int v7 = 7; int v8 = 8; int v9 = 9; int v10 = 10; int v11 = 11; int v12 = 12; int v13 = 13; int v14 = 14; int v15 = 15;") = 96%N.
Proof. exact ex_C16_linear_16. Qed.
Print Assumptions C16_linear_16.

(* the lexer's loop runs at most once per character: |text|+1 iterations always suffice (each removes a non-empty prefix) *)
Theorem C16_lex_iterations_linear : forall text file,
  snd (raw_lex (S (length text)) (init_lexst file) text) = true.
Proof. exact lex_terminates. Qed.
Print Assumptions C16_lex_iterations_linear.

From Coq Require Import ZArith.
(* the precedence-climbing loops of the parser model never re-read a token: for every token stream, the
   token reads (_TokenStream.next() calls, speculative ones included) of a whole binary expression are one
   per operator plus what the operand runs spend themselves (n) - no backtracking in operator parsing *)
Theorem C16_binary_expression_cost : forall (P: Type) f lhs0 s t s',
  p_binary_climb P f 0 lhs0 s = Ok (t, s') ->
  exists l n, SeqT P s l n s' /\ Z.of_N (ticks P s') = (Z.of_N (ticks P s) + Z.of_nat (length l) + n)%Z.
Proof. exact binary_expression_cost. Qed.
Print Assumptions C16_binary_expression_cost.

(* the whole expression parser is linear on everything the generator prints for the expression language [ex]
   (identifiers, constants, unary / binary / conditional / assignment / comma operators, ++ / --, sizeof e,
   subscripts, member accesses, calls, parentheses as the generator places them), of ANY size and nesting depth:
   whenever the whole-parser model finds the tokens [le] of such an expression followed by a token that cannot
   continue it, p_expression returns, has consumed exactly these |le| tokens (idx) and has called
   _TokenStream.next() at most 3 |le| times (ticks), the speculative "( type-name )" attempts included: a token
   is re-read at most twice.  (Casts and compound literals are outside [ex]: see the C16_complit_* witnesses.) *)
Theorem C16_generated_expression_linear : forall (P: Type) rp (e: ex), wf e ->
  forall (s: ParserBase.pstate P) le stop l0, Spell P le (xt rp e) -> Up P s (le ++ stop :: l0) -> estop (tk stop) = true ->
  exists f0 N s', (forall f, (f0 <= f)%nat -> p_expression P f s = Ok (N, s')) /\ Up P s' (stop :: l0) /\
    idx P s' = (idx P s + length le)%nat /\ (N.to_nat (ticks P s') <= N.to_nat (ticks P s) + 3 * length le)%nat.
Proof.
  intros P rp e Hw s le stop l0 HS HU Hst.
  destruct (parse_of_generated_expression_cost P rp e Hw s le stop l0 HS HU Hst) as [f0 [N [s' [H [HU' [_ [Hi [Ht _]]]]]]]].
  exists f0, N, s'. split; [exact H|split; [exact HU'|split; [exact Hi|exact Ht]]].
Qed.
Print Assumptions C16_generated_expression_linear.

(* ... and the statement parser is linear on everything the generator prints for the statement language [st]
   (expression statements, empty statements, return / break / continue / goto, if / if-else, while, do-while,
   for with optional clauses, nested blocks) over those expressions, of ANY size and nesting depth: in a block-item
   position p_statement consumes exactly the |le| generated tokens and calls next() at most 3 |le| times *)
Theorem C16_generated_statement_linear : forall (P: Type) rp (x: st), swf x ->
  forall (s: ParserBase.pstate P) le stop l0, Spell P le (stoks rp x) -> Up P s (le ++ stop :: l0) ->
  (sopen x = true -> kind_eqb (tk stop) K_ELSE = false) ->
  exists f0 N s', (forall f, (f0 <= f)%nat -> p_statement P f s = Ok (N, s')) /\ Up P s' (stop :: l0) /\
    idx P s' = (idx P s + length le)%nat /\ (N.to_nat (ticks P s') <= N.to_nat (ticks P s) + 3 * length le)%nat.
Proof.
  intros P rp x Hw s le stop l0 HS HU Hop.
  destruct (parse_of_generated_block_item_cost P rp x Hw s le stop l0 HS HU Hop) as [f0 [N [s' [H [HU' [_ [Hi [Ht _]]]]]]]].
  exists f0, N, s'. split; [exact H|split; [exact HU'|split; [exact Hi|exact Ht]]].
Qed.
Print Assumptions C16_generated_statement_linear.

(* ... and with declarations `T x;` / `T x = e;` among the block items (the declarator's name is found by a speculative scan that is
   always reset - _peek_declarator_name_info - so the declared identifier is read twice): still at most 3 reads per token *)
Theorem C16_generated_statement_with_declarations_linear : forall (P: Type) rp (x: st), swfD x ->
  forall (s: ParserBase.pstate P) le stop l0, Spell P le (stoks rp x) -> Up P s (le ++ stop :: l0) ->
  (sopen x = true -> kind_eqb (tk stop) K_ELSE = false) -> NoTD (ParserBase.scopes P s) ->
  exists f0 N s', (forall f, (f0 <= f)%nat -> p_statement P f s = Ok (N, s')) /\ Up P s' (stop :: l0) /\
    idx P s' = (idx P s + length le)%nat /\ (N.to_nat (ticks P s') <= N.to_nat (ticks P s) + 3 * length le)%nat.
Proof. exact statements_with_decls_linear. Qed.
Print Assumptions C16_generated_statement_with_declarations_linear.

(* ... and the WHOLE parse of a program (function definitions `T f ( ) { ... }` over that language, proofs/FuncTrip.v): parse_tokens,
   from the initial state of parse() to the end of the input, consumes all n tokens and calls next() at most 3 n times *)
From PV Require FuncTrip.
Theorem C16_generated_program_linear : forall (P: Type) rp (p: list FuncTrip.fdef), Forall FuncTrip.fwf p ->
  forall items le eof file, Spell P le (FuncTrip.prog_toks rp p) -> UpR P [[]] items le -> List.length items = List.length le ->
  exists f0 N s', (forall fu, (f0 <= fu)%nat -> parse_tokens P fu (init_pstate P items eof file) = Ok (N, s')) /\
    idx P s' = List.length le /\ (N.to_nat (ticks P s') <= 3 * List.length le)%nat.
Proof.
  intros P rp p Hp items le eof file HS HU Hl. destruct (FuncTrip.parse_of_generated_program P rp p Hp items le eof file HS HU Hl) as [f0 [N [s' [H [_ [Hi Ht]]]]]].
  exists f0, N, s'. split; [exact H|split; [exact Hi|exact Ht]].
Qed.
Print Assumptions C16_generated_program_linear.

(* ... also for translation units that mix file-scope object declarations and function definitions *)
Theorem C16_generated_unit_linear : forall (P: Type) rp (u: list FuncTrip.edecl), Forall FuncTrip.ewf u ->
  forall items le eof file, Spell P le (FuncTrip.unit_toks rp u) -> UpR P [[]] items le -> List.length items = List.length le ->
  exists f0 N s', (forall fu, (f0 <= fu)%nat -> parse_tokens P fu (init_pstate P items eof file) = Ok (N, s')) /\
    idx P s' = List.length le /\ (N.to_nat (ticks P s') <= 3 * List.length le)%nat.
Proof.
  intros P rp u Hu items le eof file HS HU Hl. destruct (FuncTrip.parse_of_generated_unit P rp u Hu items le eof file HS HU Hl) as [f0 [N [s' [H [_ [Hi Ht]]]]]].
  exists f0, N, s'. split; [exact H|split; [exact Hi|exact Ht]].
Qed.
Print Assumptions C16_generated_unit_linear.

(* the hypotheses of the two theorems are satisfiable and the accounting is the model's own: on `( a + b ) * c ;`
   p_expression consumes the 7 tokens with 9 calls of next() (the parenthesis is read three times) *)
Theorem C16_linear_example :
  wf ex_cost_e /\ Spell nat ex_toks (xt false ex_cost_e) /\
  Up nat ex_state (ex_toks ++ [mkTok nat K_SEMI (s2l ";") 8]) /\ estop K_SEMI = true /\
  match p_expression nat 60 ex_state with Ok (_, s') => (idx nat s', ticks nat s') = (7%nat, 9%N) | _ => False end.
Proof. exact cost_hypotheses_satisfiable. Qed.
Print Assumptions C16_linear_example.
