(* C01 - every valid C99 / supported-C11 translation unit is accepted.  Property theorems only. *)
From Coq Require Import List NArith Bool Arith String.
Import ListNotations.
From PV Require Import Regex Base LexTables ParserTables CSpec TableProofs.

Theorem C01_keywords_covered : forallb (fun s => is_some (kw_kind s)) (c99_keywords ++ c11_keywords) = true.
Proof. exact keywords_covered. Qed.
Print Assumptions C01_keywords_covered.

Theorem C01_keyword_classes_distinct : nodup_kinds (map snd keyword_map) = true.
Proof. exact keyword_classes_distinct. Qed.
Print Assumptions C01_keyword_classes_distinct.

Theorem C01_punctuators_covered : forallb (fun s => is_some (punct_kind s)) c99_punctuators = true.
Proof. exact punctuators_covered. Qed.
Print Assumptions C01_punctuators_covered.

(* full statement including the digraphs of 6.4.6p3 is refuted: they are not tokens of the lexer *)
Theorem C01_digraphs_covered_refuted : forallb (fun s => is_some (punct_kind s)) c99_digraphs = false.
Proof. exact digraphs_covered_refuted. Qed.
Print Assumptions C01_digraphs_covered_refuted.

Theorem C01_decl_start_covers_c99 :
  forallb (fun s => okmem (kw_kind s) tbl_DECL_START)
          (c99_storage_class ++ c99_type_qualifier ++ c99_function_spec ++ c99_type_spec_kw ++
           ["_Alignas"; "_Atomic"; "_Noreturn"; "_Thread_local"]%string) = true
  /\ kmem K_TYPEID tbl_DECL_START = true.
Proof. exact decl_start_covers_c99. Qed.
Print Assumptions C01_decl_start_covers_c99.

Theorem C01_decl_expr_disjoint : forallb (fun k => negb (kmem k tbl_STARTS_EXPRESSION)) tbl_DECL_START = true.
Proof. exact decl_expr_disjoint. Qed.
Print Assumptions C01_decl_expr_disjoint.

Theorem C01_starts_expression_covers :
  forallb (fun k => kmem k tbl_STARTS_EXPRESSION)
    ([K_ID; K_LPAREN; K_SIZEOF; K_uALIGNOF] ++ tbl_INT_CONST ++ tbl_FLOAT_CONST ++ tbl_CHAR_CONST ++ tbl_STRING_LITERAL ++ tbl_WSTR_LITERAL) = true
  /\ forallb (fun s => okmem (punct_kind s) tbl_STARTS_EXPRESSION) ["++"; "--"; "&"; "*"; "+"; "-"; "~"; "!"]%string = true.
Proof. exact starts_expression_covers. Qed.
Print Assumptions C01_starts_expression_covers.

Theorem C01_starts_statement_covers :
  forallb (fun s => okmem (kw_kind s) tbl_STARTS_STATEMENT)
    ["if"; "switch"; "while"; "do"; "for"; "goto"; "break"; "continue"; "return"; "case"; "default"]%string = true
  /\ forallb (fun s => okmem (punct_kind s) tbl_STARTS_STATEMENT) ["{"; ";"]%string = true.
Proof. exact starts_statement_covers. Qed.
Print Assumptions C01_starts_statement_covers.

Theorem C01_operators_covered :
  (forallb (fun e => match punct_kind (fst e) with
                     | Some k => match prec_lookup k with Some p => Nat.eqb p (snd e) | None => false end
                     | None => false end) c99_binary_levels = true
   /\ List.length tbl_BINARY_PRECEDENCE = List.length c99_binary_levels)
  /\ (forallb (fun s => okmem (punct_kind s) tbl_ASSIGNMENT_OPS) c99_assignment_ops = true
      /\ List.length tbl_ASSIGNMENT_OPS = List.length c99_assignment_ops).
Proof. exact (conj precedence_is_c99 assignment_ops_are_c99). Qed.
Print Assumptions C01_operators_covered.

(* ---- acceptance of an unbounded family of valid programs, on the whole-parser model (proofs/StmtTrip.v) ----
   Every statement of the language [StmtTrip.st] - expression statements over [RoundTripX.ex] (all C operators, calls,
   subscripts, member accesses, casts and sizeof with simple type names), jumps, labels, if / else, while, do, for,
   nested blocks: all of it valid C99 - written as the token sequence [stoks rp x] is ACCEPTED by p_statement, for every
   parser state that sees these tokens next and any following token (other than an `else` after an open if). *)
From PV Require ParserBase ParserMain StreamLib RoundTrip RoundTripX StmtTrip.
Theorem C01_generated_statements_accepted : forall (P: Type) rp (x: StmtTrip.st), StmtTrip.swf x ->
  forall (s: ParserBase.pstate P) le stop l0, RoundTrip.Spell P le (StmtTrip.stoks rp x) -> StreamLib.Up P s (le ++ stop :: l0) ->
  (StmtTrip.sopen x = true -> kind_eqb (ParserBase.tk stop) K_ELSE = false) ->
  exists f0 N s', forall f, (f0 <= f)%nat -> ParserMain.p_statement P f s = ParserBase.Ok (N, s').
Proof.
  intros P rp x Hw s le stop l0 HS HU Hop.
  destruct (StmtTrip.parse_of_generated_block_item P rp x Hw s le stop l0 HS HU Hop) as [f0 [N [s' [H _]]]]. exists f0, N, s'. exact H.
Qed.
Print Assumptions C01_generated_statements_accepted.

(* ... and with DECLARATIONS of objects as block items (`T x;`, `T x = e;`, T a run of simple type-specifier keywords), at any
   nesting depth, from every parser state whose scope stack holds no typedef name (the initial state of parse() is one):
   the statement is accepted (proofs/DeclTrip.v, StmtTrip.v). *)
Theorem C01_generated_statements_with_declarations_accepted : forall (P: Type) rp (x: StmtTrip.st), StmtTrip.swfD x ->
  forall (s: ParserBase.pstate P) le stop l0, RoundTrip.Spell P le (StmtTrip.stoks rp x) -> StreamLib.Up P s (le ++ stop :: l0) ->
  (StmtTrip.sopen x = true -> kind_eqb (ParserBase.tk stop) K_ELSE = false) -> StreamLib.NoTD (ParserBase.scopes P s) ->
  exists f0 N s', forall f, (f0 <= f)%nat -> ParserMain.p_statement P f s = ParserBase.Ok (N, s').
Proof. exact StmtTrip.statements_with_decls_accepted. Qed.
Print Assumptions C01_generated_statements_with_declarations_accepted.

(* ---- WHOLE TRANSLATION UNITS, on the top-level entry of the parser model (proofs/FuncTrip.v) ----
   Every program that is a sequence of function definitions `T f ( ) { block items }` - T a non-empty run of simple type-specifier
   keywords, the items declarations of objects and statements of the language above, nested to any depth - is ACCEPTED by
   parse_tokens (CParser.parse after its resets) started in its initial state, whenever the lexer delivers the tokens of the program
   (classified under the initial scope stack) and then the end of the input. *)
From PV Require FuncTrip.
Theorem C01_generated_programs_accepted : forall (P: Type) rp (p: list FuncTrip.fdef), Forall FuncTrip.fwf p ->
  forall items le eof file, RoundTrip.Spell P le (FuncTrip.prog_toks rp p) -> StreamLib.UpR P [[]] items le -> List.length items = List.length le ->
  exists f0 N s', forall fu, (f0 <= fu)%nat -> ParserMain.parse_tokens P fu (ParserMain.init_pstate P items eof file) = ParserBase.Ok (N, s').
Proof.
  intros P rp p Hp items le eof file HS HU Hl. destruct (FuncTrip.parse_of_generated_program P rp p Hp items le eof file HS HU Hl) as [f0 [N [s' [H _]]]].
  exists f0, N, s'. exact H.
Qed.
Print Assumptions C01_generated_programs_accepted.

(* ... and translation units that MIX file-scope object declarations (`T x;`, `T x = e;`) and function definitions, in any order and number *)
Theorem C01_generated_units_accepted : forall (P: Type) rp (u: list FuncTrip.edecl), Forall (FuncTrip.ewf) u ->
  forall items le eof file, RoundTrip.Spell P le (FuncTrip.unit_toks rp u) -> StreamLib.UpR P [[]] items le -> List.length items = List.length le ->
  exists f0 N s', forall fu, (f0 <= fu)%nat -> ParserMain.parse_tokens P fu (ParserMain.init_pstate P items eof file) = ParserBase.Ok (N, s').
Proof.
  intros P rp u Hu items le eof file HS HU Hl. destruct (FuncTrip.parse_of_generated_unit P rp u Hu items le eof file HS HU Hl) as [f0 [N [s' [H _]]]].
  exists f0, N, s'. exact H.
Qed.
Print Assumptions C01_generated_units_accepted.
