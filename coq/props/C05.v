(* C05 - statement ASTs mirror C's statement nesting and source order
   Property theorems only; the statements below are checked by the kernel on the whole-pipeline model
   (lexer -> token stream -> parser -> transforms), proofs in proofs/StmtExamples.v. *)
From Coq Require Import List NArith Bool Arith.
Import ListNotations.
From PV Require Import Regex Base LexTables NodeModel ParserBase ParserDecl ParserMain Api StmtExamples AstSpec StmtProofs ElseProofs StmtShape ParserBase ParserMain StreamLib RoundTrip RoundTripX StmtTrip.

(* the else belongs to the nearest unmatched if (C99 6.8.4.1p3) *)
Theorem C05_dangling_else :
  outcome_str (s2l "void f(){ if (a) if (b) x; else y; }") = s2l "OK|(FileAST [(FuncDef (Decl 'f' [] [] [] [] (FuncDecl None (TypeDecl 'f' [] None (IdentifierType ['void']))) None None) None (Compound [(If (ID 'a') (If (ID 'b') (ID 'x') (ID 'y')) None)]))])".
Proof. exact ex_C05_dangling_else. Qed.
Print Assumptions C05_dangling_else.

(* statements go under the nearest preceding label; consecutive labels stay siblings *)
Theorem C05_switch_regroup :
  outcome_str (s2l "void f(){ switch(x){ case 1: a; b; case 2: case 3: c; default: d; } }") = s2l "OK|(FileAST [(FuncDef (Decl 'f' [] [] [] [] (FuncDecl None (TypeDecl 'f' [] None (IdentifierType ['void']))) None None) None (Compound [(Switch (ID 'x') (Compound [(Case (Constant 'int' '1') [(ID 'a'),(ID 'b')]),(Case (Constant 'int' '2') []),(Case (Constant 'int' '3') [(ID 'c')]),(Default [(ID 'd')])]))]))])".
Proof. exact ex_C05_switch_regroup. Qed.
Print Assumptions C05_switch_regroup.

(* a declaration init lands in a DeclList *)
Theorem C05_for_decl :
  outcome_str (s2l "void f(){ for(int i=0;i<3;i++) x; }") = s2l "OK|(FileAST [(FuncDef (Decl 'f' [] [] [] [] (FuncDecl None (TypeDecl 'f' [] None (IdentifierType ['void']))) None None) None (Compound [(For (DeclList [(Decl 'i' [] [] [] [] (TypeDecl 'i' [] None (IdentifierType ['int'])) (Constant 'int' '0') None)]) (BinaryOp '<' (ID 'i') (Constant 'int' '3')) (UnaryOp 'p++' (ID 'i')) (ID 'x'))]))])".
Proof. exact ex_C05_for_decl. Qed.
Print Assumptions C05_for_decl.

(* each pragma once, verbatim, in place; a pragma-prefixed sub-statement is wrapped in a Compound *)
Theorem C05_pragma_once :
  outcome_str (s2l "void f(){
#pragma p1
 x;
 if (a)
#pragma p2
 y;
}") = s2l "OK|(FileAST [(FuncDef (Decl 'f' [] [] [] [] (FuncDecl None (TypeDecl 'f' [] None (IdentifierType ['void']))) None None) None (Compound [(Pragma 'p1'),(ID 'x'),(If (ID 'a') (Compound [(Pragma 'p2'),(ID 'y')]) None)]))])".
Proof. exact ex_C05_pragma_once. Qed.
Print Assumptions C05_pragma_once.

(* a static assertion as a sub-statement is one node, like any statement (was a Python list before the fix: commit) *)
Theorem C05_static_assert_stmt :
  outcome_str (s2l "void f(){ if (x) _Static_assert(1,""a""); }") = s2l "OK|(FileAST [(FuncDef (Decl 'f' [] [] [] [] (FuncDecl None (TypeDecl 'f' [] None (IdentifierType ['void']))) None None) None (Compound [(If (ID 'x') (StaticAssert (Constant 'int' '1') (Constant 'string' '""a""')) None),(EmptyStatement)]))])".
Proof. exact ex_C05_static_assert_stmt. Qed.
Print Assumptions C05_static_assert_stmt.

(* fix_switch_cases: for a switch body of ANY length whose label chains have ANY depth, the regrouped
   body is exactly: statements under the nearest preceding label, consecutive labels as siblings,
   statements before the first label in front (regroup_spec) - nothing lost, duplicated or reordered *)
Theorem C05_switch_regroup_correct : forall (P: Type) cs items cur fuel st,
  Forall (child_ok P) cs -> Forall (fun c => (child_depth P c < fuel)%nat) cs ->
  switch_regroup P fuel (map (child_node P) cs) (fst (state_of P items cur)) (snd (state_of P items cur)) st
  = Ok (regroup_spec P cs items cur, st).
Proof. exact switch_regroup_correct. Qed.
Print Assumptions C05_switch_regroup_correct.

(* an else belongs to the nearest if, on the whole-parser model, for every token stream, state and fuel:
   the if-production tries `else` immediately after its then-statement; when it does not take one, the
   token following the finished If node is not `else` (so no else is ever left for an enclosing if) *)
Theorem C05_else_binds_to_nearest_if : forall (P: Type) f s r s' t s0,
  p_selection_statement P (S f) s = Ok (r, s') ->
  advance P s = Ok (t, s0) -> kind_eqb (tk t) K_IF = true ->
  exists cond th sa el sb co,
    accept P K_ELSE sa = Ok (el, sb) /\
    match el with
    | Some e => kind_eqb (tk e) K_ELSE = true /\ exists es, r = mkN P C_If [cond; th; es] co
    | None => r = mkN P C_If [cond; th; VNone] co /\ s' = sb /\
              forall t1 s1, peek P s' = Ok (Some t1, s1) -> kind_eqb (tk t1) K_ELSE = false
    end.
Proof. exact else_binds_to_nearest_if. Qed.
Print Assumptions C05_else_binds_to_nearest_if.

(* loop bodies are the single following statement: whatever while / do / for returns has as its body exactly one
   value returned by a run of the statement production (stmt_here), for every token stream, state and fuel *)
Theorem C05_loop_body_is_one_statement : forall (P: Type) f,
  post P (fun r => exists st c, stmt_here P f st /\
          ((exists cond, r = mkN P C_While [cond; st] c) \/ (exists cond, r = mkN P C_DoWhile [cond; st] c) \/
           (exists init cond nx, r = mkN P C_For [init; cond; nx; st] c)))
       (p_iteration_statement P (S f)).
Proof. exact loop_body_is_one_statement. Qed.
Print Assumptions C05_loop_body_is_one_statement.

(* a label, `case e:` or `default:` attaches to the ONE statement that follows (an EmptyStatement when none can start there) *)
Theorem C05_label_attaches_to_next_statement : forall (P: Type) f,
  post P (fun r => exists st c, label_body P f st /\
          ((exists name, r = mkN P C_Label [VStr name; st] c) \/ (exists e, r = mkN P C_Case [e; VList [st]] c) \/
           r = mkN P C_Default [VList [st]] c))
       (p_labeled_statement P (S f)).
Proof. exact label_attaches_to_next_statement. Qed.
Print Assumptions C05_label_attaches_to_next_statement.

(* COMPLETENESS at token level (proofs/StmtTrip.v): every statement x built from expression statements, `;`, return /
   break / continue / goto, labelled statements (`name: statement`, the label attaches to the ONE statement after it), if with and without else, while, do-while, for with any of its clauses absent and
   brace-enclosed blocks, nested in any way - written as the token sequence [stoks rp x], is parsed by p_pragmacomp_or_statement (the production behind every
   sub-statement position) to exactly x: each `else` goes to the nearest if that can take it, loop bodies and branches are
   exactly one statement, nothing is lost or reordered.  Side conditions = C's dangling-else rule (swf, and no `else` after
   an if without else). *)
Theorem C05_statements_parse_back : forall (P: Type) rp (x: StmtTrip.st), StmtTrip.swf x ->
  forall (s: ParserBase.pstate P) le stop l0, RoundTrip.Spell P le (StmtTrip.stoks rp x) -> StreamLib.Up P s (le ++ stop :: l0) ->
  (StmtTrip.sopen x = true -> kind_eqb (ParserBase.tk stop) K_ELSE = false) ->
  exists f0 N s', (forall f, (f0 <= f)%nat -> ParserMain.p_pragmacomp_or_statement P f s = ParserBase.Ok (N, s')) /\
                  StreamLib.Up P s' (stop :: l0) /\ RoundTrip.strip N = StmtTrip.embs x.
Proof. exact StmtTrip.parse_of_generated_statement. Qed.
Print Assumptions C05_statements_parse_back.

(* "declarations and statements of a block appear in source order": the same completeness statement for statements whose
   blocks - at any depth - hold the declarations `T x;` / `T x = e;` among their items: the Compound node lists one Decl per
   declaration and one node per statement, in source order ([StmtTrip.embs]); the scope stack must hold no typedef name. *)
Theorem C05_blocks_with_declarations_parse_back : forall (P: Type) rp (x: StmtTrip.st), StmtTrip.swfD x ->
  forall (s: ParserBase.pstate P) le stop l0, RoundTrip.Spell P le (StmtTrip.stoks rp x) -> StreamLib.Up P s (le ++ stop :: l0) ->
  (StmtTrip.sopen x = true -> kind_eqb (ParserBase.tk stop) K_ELSE = false) -> StreamLib.NoTD (ParserBase.scopes P s) ->
  exists f0 N s', (forall f, (f0 <= f)%nat -> ParserMain.p_statement P f s = ParserBase.Ok (N, s')) /\
                  StreamLib.Up P s' (stop :: l0) /\ RoundTrip.strip N = StmtTrip.embs x /\ StreamLib.NoTD (ParserBase.scopes P s').
Proof. exact StmtTrip.parse_of_generated_statement_with_decls. Qed.
Print Assumptions C05_blocks_with_declarations_parse_back.
