(* C05 - statement ASTs mirror C's statement nesting and source order
   Property theorems only; the statements below are checked by the kernel on the whole-pipeline model
   (lexer -> token stream -> parser -> transforms), proofs in proofs/StmtExamples.v. *)
From Coq Require Import List NArith Bool Arith.
Import ListNotations.
From PV Require Import Regex Base LexTables NodeModel ParserBase ParserDecl ParserMain Api StmtExamples AstSpec StmtProofs.

(* the else belongs to the nearest unmatched if (C99 6.8.4.1p3) *)
Theorem C05_dangling_else :
  outcome_str (s2l "void f(){ if (a) if (b) x; else y; }") = s2l "OK|(FileAST [(FuncDef (Decl 'f' [] [] [] [] (FuncDecl None (TypeDecl 'f' [] None (IdentifierType ['void']))) None None) None (Compound [(If (ID 'a') (If (ID 'b') (ID 'x') (ID 'y')) None)]))])".
Proof. exact ex_C05_dangling_else. Qed.
Print Assumptions C05_dangling_else.

(* statements go under the nearest preceding label; consecutive labels stay siblings *)
Theorem C05_switch_regroup :
  outcome_str (s2l "void f(){ switch(x){ case 1: a; b; case 2: case 3: c; default: d; } }") = s2l "OK|(FileAST [(FuncDef (Decl 'f' [] [] [] [] (FuncDecl None (TypeDecl 'f' [] None (IdentifierType ['void']))) None None) None (Compound [(Switch (ID 'x') (Compound [(Case (Constant 'int' '1') [(ID 'a'),(ID 'b')]),(Case (Constant 'int' '2') []),(Case (Constant 'int' '3') [(ID 'c')]),(Default [(ID 'd')])]))]))])".
Proof. exact ex_C05_switch_regroup. Qed.
Print Assumptions C05_switch_regroup.

(* a declaration init lands in a DeclList *)
Theorem C05_for_decl :
  outcome_str (s2l "void f(){ for(int i=0;i<3;i++) x; }") = s2l "OK|(FileAST [(FuncDef (Decl 'f' [] [] [] [] (FuncDecl None (TypeDecl 'f' [] None (IdentifierType ['void']))) None None) None (Compound [(For (DeclList [(Decl 'i' [] [] [] [] (TypeDecl 'i' [] None (IdentifierType ['int'])) (Constant 'int' '0') None)]) (BinaryOp '<' (ID 'i') (Constant 'int' '3')) (UnaryOp 'p++' (ID 'i')) (ID 'x'))]))])".
Proof. exact ex_C05_for_decl. Qed.
Print Assumptions C05_for_decl.

(* each pragma once, verbatim, in place; a pragma-prefixed sub-statement is wrapped in a Compound *)
Theorem C05_pragma_once :
  outcome_str (s2l "void f(){
#pragma p1
 x;
 if (a)
#pragma p2
 y;
}") = s2l "OK|(FileAST [(FuncDef (Decl 'f' [] [] [] [] (FuncDecl None (TypeDecl 'f' [] None (IdentifierType ['void']))) None None) None (Compound [(Pragma 'p1'),(ID 'x'),(If (ID 'a') (Compound [(Pragma 'p2'),(ID 'y')]) None)]))])".
Proof. exact ex_C05_pragma_once. Qed.
Print Assumptions C05_pragma_once.

(* witness: a static assertion as a sub-statement puts a list into a statement slot *)
Theorem C05_static_assert_stmt_refuted :
  outcome_str (s2l "void f(){ if (x) _Static_assert(1,""a""); }") = s2l "OK|(FileAST [(FuncDef (Decl 'f' [] [] [] [] (FuncDecl None (TypeDecl 'f' [] None (IdentifierType ['void']))) None None) None (Compound [(If (ID 'x') [(StaticAssert (Constant 'int' '1') (Constant 'string' '""a""'))] None),(EmptyStatement)]))])".
Proof. exact ex_C05_static_assert_stmt_refuted. Qed.
Print Assumptions C05_static_assert_stmt_refuted.

(* fix_switch_cases: for a switch body of ANY length whose label chains have ANY depth, the regrouped
   body is exactly: statements under the nearest preceding label, consecutive labels as siblings,
   statements before the first label in front (regroup_spec) - nothing lost, duplicated or reordered *)
Theorem C05_switch_regroup_correct : forall (P: Type) cs items cur fuel st,
  Forall (child_ok P) cs -> Forall (fun c => (child_depth P c < fuel)%nat) cs ->
  switch_regroup P fuel (map (child_node P) cs) (fst (state_of P items cur)) (snd (state_of P items cur)) st
  = Ok (regroup_spec P cs items cur, st).
Proof. exact switch_regroup_correct. Qed.
Print Assumptions C05_switch_regroup_correct.
