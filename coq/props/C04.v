(* C04 - an identifier is a type name exactly where C scoping makes it one.  Property theorems only. *)
From Coq Require Import List NArith Bool Arith.
Import ListNotations.
From PV Require Import Regex Base LexTables ParserTables NodeModel ParserBase ScopeProofs.

Theorem C04_lookup_after_declare : forall n b top rest, is_type_in n (scope_set n b top :: rest) = b.
Proof. exact lookup_after_declare. Qed.
Print Assumptions C04_lookup_after_declare.

Theorem C04_lookup_other_name : forall n m b top rest, name_eqb m n = false ->
  is_type_in m (scope_set n b top :: rest) = is_type_in m (top :: rest).
Proof. exact lookup_other_name. Qed.
Print Assumptions C04_lookup_other_name.

Theorem C04_lookup_fresh_scope : forall n scs, is_type_in n ([] :: scs) = is_type_in n scs.
Proof. exact lookup_fresh_scope. Qed.
Print Assumptions C04_lookup_fresh_scope.

Theorem C04_inner_hides_outer : forall n b b' top outer rest,
  is_type_in n (scope_set n b top :: scope_set n b' outer :: rest) = b.
Proof. exact inner_hides_outer. Qed.
Print Assumptions C04_inner_hides_outer.

Theorem C04_undeclared_not_type : forall n scs,
  forallb (fun sc => match scope_get n sc with None => true | Some _ => false end) scs = true -> is_type_in n scs = false.
Proof. exact undeclared_not_type. Qed.
Print Assumptions C04_undeclared_not_type.

Theorem C04_add_identifier_clash : forall (P: Type) (s: pstate P) n c top rest,
  scopes P s = top :: rest -> scope_get n top = Some true -> exists l m, add_identifier P n c s = Err l m.
Proof. exact add_identifier_clash. Qed.
Print Assumptions C04_add_identifier_clash.

Theorem C04_add_typedef_clash : forall (P: Type) (s: pstate P) n c top rest,
  scopes P s = top :: rest -> scope_get n top = Some false -> exists l m, add_typedef_name P n c s = Err l m.
Proof. exact add_typedef_clash. Qed.
Print Assumptions C04_add_typedef_clash.

(* For every history of scope entries, scope exits and declarations accepted by the parser's scope
   operations, the stack-of-dictionaries model answers exactly as C's block-scope rule read off the
   history: the nearest declaration still in scope decides (specification lookup_back scans the
   history backwards, skipping closed blocks). *)
Theorem C04_scope_refines : forall evs scs n,
  run_events evs [[]] = Some scs -> is_type_in n scs = lookup_back (rev evs) 0 n.
Proof. exact scope_refines. Qed.
Print Assumptions C04_scope_refines.

Theorem C04_add_identifier_is_decl : forall (P: Type) (s s': pstate P) n c,
  add_identifier P n c s = Ok (tt, s') -> run_events [EDecl n false] (scopes P s) = Some (scopes P s').
Proof. exact add_identifier_is_decl. Qed.
Print Assumptions C04_add_identifier_is_decl.

Theorem C04_add_typedef_is_decl : forall (P: Type) (s s': pstate P) n c,
  add_typedef_name P n c s = Ok (tt, s') -> run_events [EDecl n true] (scopes P s) = Some (scopes P s').
Proof. exact add_typedef_is_decl. Qed.
Print Assumptions C04_add_typedef_is_decl.

(* ---- third phase: the classification is what the parser's decisions use (proofs/TypeDispatch.v) ---- *)
From PV Require Import AstDefs AstSpec AstImpl ParserDecl ParserMain StreamLib RoundTrip RoundTripGen TypeName TypeDispatch.

(* an identifier item that is delivered now (nothing buffered) becomes a TYPEID token exactly when the scope stack
   of this moment says its innermost visible declaration is a typedef - for every parser state and stream *)
Theorem C04_identifier_classified_by_scope : forall (P: Type) (s: pstate P) v p fa r t l,
  after P s = [] -> raw P s = PTok P K_ID v p fa :: r -> Up P s (t :: l) ->
  tk t = (if is_type_in (Some v) (scopes P s) then K_TYPEID else K_ID) /\ tv t = v.
Proof. exact identifier_classified_by_scope. Qed.
Print Assumptions C04_identifier_classified_by_scope.

(* at the start of a block item the parser goes to p_declaration exactly when the first token can start a
   declaration; nothing is consumed by the decision *)
Theorem C04_block_item_dispatch : forall (P: Type) (s: pstate P) t l, Up P s (t :: l) -> kind_eqb (tk t) K_RBRACE = false ->
  exists s2, Up P s2 (t :: l) /\ Same P s s2 /\ forall f,
    p_block_item_list P (S f) s =
    bind P (if kind_in (tk t) tbl_DECL_START then p_declaration P f else bind P (p_statement P f) (fun s0 => ret P (stmt_to_items P s0)))
           (fun items => bind P (p_block_item_list P f) (fun rest => ret P (items ++ rest))) s2.
Proof. exact block_item_dispatch. Qed.
Print Assumptions C04_block_item_dispatch.

(* ... so `T ...` at the start of a block item is a declaration exactly when T currently names a type *)
Theorem C04_identifier_block_item : forall (P: Type) (s: pstate P) v p fa r t l,
  after P s = [] -> raw P s = PTok P K_ID v p fa :: r -> Up P s (t :: l) ->
  exists s2, Up P s2 (t :: l) /\ Same P s s2 /\ forall f,
    p_block_item_list P (S f) s =
    bind P (if is_type_in (Some v) (scopes P s) then p_declaration P f else bind P (p_statement P f) (fun s0 => ret P (stmt_to_items P s0)))
           (fun items => bind P (p_block_item_list P f) (fun rest => ret P (items ++ rest))) s2.
Proof. exact identifier_block_item. Qed.
Print Assumptions C04_identifier_block_item.

(* `( x`: the cast, compound-literal and sizeof productions (all through try_paren_type_name) read a type name
   exactly when x can start a declaration - for an identifier: when it is a TYPEID ... *)
Theorem C04_paren_reads_type_name : forall (P: Type) (s: pstate P) lp x l, Up P s (lp :: x :: l) -> kind_eqb (tk lp) K_LPAREN = true ->
  kind_in (tk x) tbl_DECL_START = true ->
  exists s3, Up P s3 (x :: l) /\ idx P s3 = S (idx P s) /\ forall f,
    try_paren_type_name P (S f) s =
    bind P (p_type_name P f) (fun typ => bind P (accept P K_RPAREN) (fun rpn =>
      match rpn with
      | None => bind P (reset P (idx P s)) (fun _ => ret P None)
      | Some _ => ret P (Some (typ, idx P s, lp))
      end)) s3.
Proof. exact paren_type. Qed.
Print Assumptions C04_paren_reads_type_name.

(* ... and otherwise gives up without consuming anything: `(x)(y)` is then a call, `sizeof(x)` an expression operand *)
Theorem C04_paren_not_a_type_name : forall (P: Type) (s: pstate P) lp x l, Up P s (lp :: x :: l) -> kind_eqb (tk lp) K_LPAREN = true ->
  kind_in (tk x) tbl_DECL_START = false ->
  exists s1, (forall f, try_paren_type_name P (S f) s = Ok (None, s1)) /\ Up P s1 (lp :: x :: l) /\
             idx P s1 = idx P s /\ ticks P s1 = (ticks P s + 1)%N.
Proof. exact RoundTrip.tptn_not_type_cost. Qed.
Print Assumptions C04_paren_not_a_type_name.

Theorem C04_typeid_starts_declaration : kind_in K_TYPEID tbl_DECL_START = true /\ kind_in K_ID tbl_DECL_START = false.
Proof. exact typeid_starts_declaration. Qed.
Print Assumptions C04_typeid_starts_declaration.

(* the text `( T ) ( x )`, completely: whenever the whole-parser model sees these six tokens followed by a token that
   cannot continue a postfix expression, p_cast_expression returns - if T was delivered as a type name - the cast of x
   to the type T, and - if T was delivered as an ordinary identifier - the call of T with the argument x.  Which of the
   two T is delivered as is C04_identifier_classified_by_scope. *)
Theorem C04_paren_T_paren_x_is_a_cast : forall (P: Type) T x (s: pstate P) le stop l0,
  Spell P le (ptpx K_TYPEID T x) -> Up P s (le ++ stop :: l0) -> quiet (tk stop) = true ->
  exists f0 N s', (forall f, (f0 <= f)%nat -> p_cast_expression P f s = Ok (N, s')) /\ Up P s' (stop :: l0) /\
    strip N = VNode C_Cast [tn_emb [T]; VNode C_ID [VStr x] None] None.
Proof.
  intros P T x s le stop l0 HS HU Hq. destruct (paren_T_paren_x_type P T x s le stop l0 HS HU Hq) as [f0 [N [s' [H [HU' [HN _]]]]]].
  exists f0, N, s'. split; [exact H|split; [exact HU'|exact HN]].
Qed.
Print Assumptions C04_paren_T_paren_x_is_a_cast.

Theorem C04_paren_T_paren_x_is_a_call : forall (P: Type) T x (s: pstate P) le stop l0,
  Spell P le (ptpx K_ID T x) -> Up P s (le ++ stop :: l0) -> quiet (tk stop) = true ->
  exists f0 N s', (forall f, (f0 <= f)%nat -> p_cast_expression P f s = Ok (N, s')) /\ Up P s' (stop :: l0) /\
    strip N = VNode C_FuncCall [VNode C_ID [VStr T] None; VNode C_ExprList [VList [VNode C_ID [VStr x] None]] None] None.
Proof.
  intros P T x s le stop l0 HS HU Hq. destruct (paren_T_paren_x_object P T x s le stop l0 HS HU Hq) as [f0 [N [s' [H [HU' [HN _]]]]]].
  exists f0, N, s'. split; [exact H|split; [exact HU'|exact HN]].
Qed.
Print Assumptions C04_paren_T_paren_x_is_a_call.

(* non-vacuity, computed on the model: `T * x ; }` in a block whose enclosing scope declares T *)
Theorem C04_typedef_decides_declaration :
  first_class (p_block_item_list nat 60 (td_state true)) = Some C_Decl /\
  first_class (p_block_item_list nat 60 (td_state false)) = Some C_BinaryOp /\
  is_type_in (Some (s2l "T")) (scopes nat (td_state true)) = true /\ is_type_in (Some (s2l "T")) (scopes nat (td_state false)) = false.
Proof. exact typedef_decides_declaration. Qed.
Print Assumptions C04_typedef_decides_declaration.
