(* C04 - an identifier is a type name exactly where C scoping makes it one.  Property theorems only. *)
From Coq Require Import List NArith Bool Arith.
Import ListNotations.
From PV Require Import Regex Base LexTables ParserTables NodeModel ParserBase ScopeProofs.

Theorem C04_lookup_after_declare : forall n b top rest, is_type_in n (scope_set n b top :: rest) = b.
Proof. exact lookup_after_declare. Qed.
Print Assumptions C04_lookup_after_declare.

Theorem C04_lookup_other_name : forall n m b top rest, name_eqb m n = false ->
  is_type_in m (scope_set n b top :: rest) = is_type_in m (top :: rest).
Proof. exact lookup_other_name. Qed.
Print Assumptions C04_lookup_other_name.

Theorem C04_lookup_fresh_scope : forall n scs, is_type_in n ([] :: scs) = is_type_in n scs.
Proof. exact lookup_fresh_scope. Qed.
Print Assumptions C04_lookup_fresh_scope.

Theorem C04_inner_hides_outer : forall n b b' top outer rest,
  is_type_in n (scope_set n b top :: scope_set n b' outer :: rest) = b.
Proof. exact inner_hides_outer. Qed.
Print Assumptions C04_inner_hides_outer.

Theorem C04_undeclared_not_type : forall n scs,
  forallb (fun sc => match scope_get n sc with None => true | Some _ => false end) scs = true -> is_type_in n scs = false.
Proof. exact undeclared_not_type. Qed.
Print Assumptions C04_undeclared_not_type.

Theorem C04_add_identifier_clash : forall (P: Type) (s: pstate P) n c top rest,
  scopes P s = top :: rest -> scope_get n top = Some true -> exists l m, add_identifier P n c s = Err l m.
Proof. exact add_identifier_clash. Qed.
Print Assumptions C04_add_identifier_clash.

Theorem C04_add_typedef_clash : forall (P: Type) (s: pstate P) n c top rest,
  scopes P s = top :: rest -> scope_get n top = Some false -> exists l m, add_typedef_name P n c s = Err l m.
Proof. exact add_typedef_clash. Qed.
Print Assumptions C04_add_typedef_clash.

(* For every history of scope entries, scope exits and declarations accepted by the parser's scope
   operations, the stack-of-dictionaries model answers exactly as C's block-scope rule read off the
   history: the nearest declaration still in scope decides (specification lookup_back scans the
   history backwards, skipping closed blocks). *)
Theorem C04_scope_refines : forall evs scs n,
  run_events evs [[]] = Some scs -> is_type_in n scs = lookup_back (rev evs) 0 n.
Proof. exact scope_refines. Qed.
Print Assumptions C04_scope_refines.

Theorem C04_add_identifier_is_decl : forall (P: Type) (s s': pstate P) n c,
  add_identifier P n c s = Ok (tt, s') -> run_events [EDecl n false] (scopes P s) = Some (scopes P s').
Proof. exact add_identifier_is_decl. Qed.
Print Assumptions C04_add_identifier_is_decl.

Theorem C04_add_typedef_is_decl : forall (P: Type) (s s': pstate P) n c,
  add_typedef_name P n c s = Ok (tt, s') -> run_events [EDecl n true] (scopes P s) = Some (scopes P s').
Proof. exact add_typedef_is_decl. Qed.
Print Assumptions C04_add_typedef_is_decl.
