(* C09 - tokenisation is lossless, longest-match and position-exact.
   Property theorems only; proofs are in proofs/LexerProofs.v. *)
From Coq Require Import List NArith Bool Arith.
Import ListNotations.
From PV Require Import Regex Base UnicodeTables LexTables PyRepr Lexer RegexLemmas LexerProofs PositionProofs.

(* every iteration of the token() loop removes a non-empty prefix of the input *)
Theorem C09_progress : forall n0 st rest items st' rest',
  rest <> [] -> lex_iter n0 st rest = (items, st', rest') -> has_crash items = false ->
  exists p, p <> [] /\ rest = p ++ rest'.
Proof. exact lex_iter_progress. Qed.
Print Assumptions C09_progress.

(* on arbitrary text the lexer finishes: |text|+1 iterations always suffice *)
Theorem C09_terminates : forall text file,
  snd (raw_lex (S (length text)) (init_lexst file) text) = true.
Proof. exact lex_terminates. Qed.
Print Assumptions C09_terminates.

(* nothing is silently skipped and spellings are exact *)
Theorem C09_lossless : forall text file items stf,
  raw_lex (S (length text)) (init_lexst file) text = (items, stf, true) -> has_crash items = false ->
  exists segs, concat (map fst segs) = text /\ concat (map snd segs) = items /\ Forall seg_ok segs.
Proof. exact lex_lossless. Qed.
Print Assumptions C09_lossless.

(* punctuators by longest match *)
Theorem C09_fixed_longest : forall s k lit,
  In (k, lit) fixed_tokens -> starts_with lit s = true ->
  exists k' lit', fixed_match s = Some (k', lit') /\ (length lit <= length lit')%nat.
Proof. exact fixed_longest. Qed.
Print Assumptions C09_fixed_longest.

Theorem C09_choose_longer : forall n0 s,
  match choose_best n0 s, first_rule regex_rules n0 s, fixed_match s with
  | Some (BRegex r len), Some (r', len'), Some (_, lit) => r = r' /\ len = len' /\ (length lit <= len)%nat
  | Some (BFixed k len), Some (_, len'), Some (k', lit) => k = k' /\ len = length lit /\ (len' < len)%nat
  | Some (BRegex r len), Some (r', len'), None => r = r' /\ len = len'
  | Some (BFixed k len), None, Some (k', lit) => k = k' /\ len = length lit
  | None, None, None => True
  | _, _, _ => False
  end.
Proof. exact choose_best_longer. Qed.
Print Assumptions C09_choose_longer.

(* no regex rule can match the empty string (the lexer cannot stall on a token) *)
Theorem C09_rules_not_nullable : forallb (fun r => negb (nullable (rre r))) regex_rules = true.
Proof. exact rules_not_nullable. Qed.
Print Assumptions C09_rules_not_nullable.

(* non-vacuity: a concrete input meets the hypotheses of C09_lossless *)
Example C09_example :
  let text := s2l "int x = 0x1F; # 7 ""a.h""
 y" in
  exists items stf, raw_lex (S (length text)) (init_lexst (s2l "f.c")) text = (items, stf, true)
                    /\ has_crash items = false /\ length items = 6%nat.
Proof. eexists; eexists; vm_compute; repeat split; reflexivity. Qed.

(* position exactness: when the lexer's state agrees with the text consumed so far (PosInv), an
   error-free _match_token call yields exactly one token, spelled by the consumed characters, whose
   line is the current line and whose column is 1 + the number of characters since the last
   newline of the consumed text; the consumed characters contain no newline and the state agrees
   with the longer prefix afterwards *)
Theorem C09_token_position : forall n0 st pre rest items st' rest',
  PosInv pre st -> rest <> [] -> match_token n0 st rest = (items, st', rest') -> no_err items = true ->
  exists p k, rest = p ++ rest' /\ ~ In 10%N p /\ PosInv (pre ++ p) st' /\ l_lineno st' = l_lineno st /\
              items = [RTok k p (l_lineno st) (1 + lenN (last_line pre))%N (l_file st)].
Proof. exact match_token_position. Qed.
Print Assumptions C09_token_position.

(* blanks, tabs and newlines produce nothing, keep the agreement, and a newline starts a new line *)
Theorem C09_blank_newline_position : forall n0 st pre c rest items st' rest',
  PosInv pre st -> (is_blank c = true \/ c = 10%N) -> lex_iter n0 st (c :: rest) = (items, st', rest') ->
  items = [] /\ rest' = rest /\ PosInv (pre ++ [c]) st' /\
  l_lineno st' = (if N.eqb c 10 then (l_lineno st + 1)%N else l_lineno st).
Proof. exact blank_newline_position. Qed.
Print Assumptions C09_blank_newline_position.

(* no token rule and no fixed token can contain a newline (table theorems) *)
Theorem C09_token_rules_no_newline : forallb (fun r => negb (is_token_rule r) || no_chr 10%N (rre r)) regex_rules = true.
Proof. exact token_rules_no_newline. Qed.
Print Assumptions C09_token_rules_no_newline.
