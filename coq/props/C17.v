(* C17 - the AST (minus coordinates) depends only on the token sequence.
   Property theorems only; proofs are in proofs/ParamProofs.v. *)
From Coq Require Import List NArith Bool Arith.
Import ListNotations.
From PV Require Import Regex Base LexTables NodeModel ParserBase ParserDecl ParserMain ParamProofs Generator GenParam.

(* The whole parser commutes with every renaming g of positions and file names:
   re-laying out a program (which only changes positions / file names of the
   delivered items) changes the result by exactly that renaming. *)
Theorem C17_commutes : forall (P Q: Type) (g: P -> Q) fuel items eof file,
  parse_items fuel (map (pitem_map g) items) (g eof) (g file) = outcome_map g (parse_items fuel items eof file).
Proof. exact parse_commutes_with_renaming. Qed.
Print Assumptions C17_commutes.

(* Two item sequences that agree on token kinds and spellings (and on the error
   items) give the same outcome once provenance is erased: same accept/reject,
   same AST minus coordinates, same ParseError message text, same crash. *)
Theorem C17_layout : forall (P Q: Type) fuel (items1: list (pitem P)) (items2: list (pitem Q)) e1 f1 e2 f2,
  map (pitem_map erase) items1 = map (pitem_map erase) items2 ->
  outcome_map erase (parse_items fuel items1 e1 f1) = outcome_map erase (parse_items fuel items2 e2 f2).
Proof. exact outcome_layout_independent. Qed.
Print Assumptions C17_layout.

(* "the regenerated C text is identical for all such variants": two ASTs that differ only in
   coordinates generate the same text, for every AST and both generator configurations *)
Theorem C17_regenerated_text : forall (A1 A2: Type) rp fuel (v1: value A1) (v2: value A2),
  vmap A1 unit (fun _ => tt) v1 = vmap A2 unit (fun _ => tt) v2 ->
  match generate A1 rp fuel v1, generate A2 rp fuel v2 with
  | GOk x, GOk y => x = y
  | GCrash, GCrash => True
  | GFuel, GFuel => True
  | _, _ => False
  end.
Proof. exact gen_same_text_up_to_coords. Qed.
Print Assumptions C17_regenerated_text.
