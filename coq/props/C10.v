(* C10 - literals are accepted iff well-formed and classified by their spelling.  Property theorems only. *)
From Coq Require Import String.
From Coq Require Import List NArith Bool Arith.
Import ListNotations.
From PV Require Import Regex Base UnicodeTables LexTables PyRepr Lexer ParserTables NodeModel ParserBase ParserDecl LexerProofs LiteralProofs LitSpec LitBounded.

Theorem C10_rules_not_nullable : forallb (fun r => negb (nullable (rre r))) regex_rules = true.
Proof. exact rules_not_nullable. Qed.
Print Assumptions C10_rules_not_nullable.

Theorem C10_rule_order :
  before "BAD_STRING_LITERAL" "STRING_LITERAL" = true /\
  before "BAD_STRING_LITERAL" "WSTRING_LITERAL" = true /\
  before "HEX_FLOAT_CONST" "INT_CONST_HEX" = true /\
  before "FLOAT_CONST" "INT_CONST_OCT" = true /\
  before "FLOAT_CONST" "INT_CONST_DEC" = true /\
  before "INT_CONST_HEX" "INT_CONST_OCT" = true /\
  before "INT_CONST_BIN" "INT_CONST_OCT" = true /\
  before "BAD_CONST_OCT" "INT_CONST_OCT" = true /\
  before "INT_CONST_OCT" "INT_CONST_DEC" = true /\
  before "INT_CONST_CHAR" "CHAR_CONST" = true /\
  before "CHAR_CONST" "UNMATCHED_QUOTE" = true /\
  before "UNMATCHED_QUOTE" "BAD_CHAR_CONST" = true /\
  before "WSTRING_LITERAL" "ID" = true /\
  before "WCHAR_CONST" "ID" = true.
Proof. exact rule_order. Qed.
Print Assumptions C10_rule_order.

Theorem C10_error_rules_have_messages :
  forallb (fun r => match ract r with
                    | A_ERROR None => str_eqb (rname r) name_BAD_CHAR_CONST
                    | _ => true end) regex_rules = true.
Proof. exact error_rules_have_messages. Qed.
Print Assumptions C10_error_rules_have_messages.

Theorem C10_multichar_is_int : forall v: str, int_const_type true v = Some (s2l "int").
Proof. exact multichar_is_int. Qed.
Print Assumptions C10_multichar_is_int.

Theorem C10_no_suffix_is_int : forall v: str,
  forallb (fun c => negb (is_lL c) && negb (is_uU c)) (last_n 3 v) = true ->
  int_const_type false v = Some (s2l "int").
Proof. exact no_suffix_is_int. Qed.
Print Assumptions C10_no_suffix_is_int.

Theorem C10_suffix_typing :
  int_const_type false (s2l "10u") = Some (s2l "unsigned int") /\
  int_const_type false (s2l "10UL") = Some (s2l "unsigned long int") /\
  int_const_type false (s2l "0x1Fll") = Some (s2l "long long int") /\
  int_const_type false (s2l "7LLU") = Some (s2l "unsigned long long int") /\
  int_const_type false (s2l "0b1l") = Some (s2l "long int") /\
  float_const_type (s2l "1.5f") = Some (s2l "float") /\
  float_const_type (s2l "2e3L") = Some (s2l "long double") /\
  float_const_type (s2l "0x1p3") = Some (s2l "double").
Proof. exact suffix_typing. Qed.
Print Assumptions C10_suffix_typing.

(* bounded (the bound is in the statement), exhaustive, kernel-checked: over the 24-character literal
   alphabet, every string of length <= 4 is returned by the lexer model as ONE literal token of class K
   exactly when the independent C99 literal grammar accepts the whole string as a literal of class K *)
Theorem C10_literal_iff_wellformed_bounded : forall s,
  (length s <= 4)%nat -> Forall (fun c => In c lit_alphabet) s -> spec_class s = model_class s.
Proof. exact literal_iff_wellformed_bounded. Qed.
Print Assumptions C10_literal_iff_wellformed_bounded.

(* Unbounded: for EVERY text, every decimal / octal / hexadecimal / binary integer-constant token of the
   lexer model's token stream has a spelling  x ++ t  with x free of u/U/l/L and t one of the rule's finitely
   many suffixes (split computed from the regenerated rule table), and _parse_constant's classifier returns -
   never raising ValueError - exactly the type that suffix spells (`unsigned ` per u/U, `long ` per l/L, `int`).
   Uses: a denotational semantics of the regex ASTs for which the matcher is proved sound. *)
From PV Require Import ParserDecl IntLiteral.
Theorem C10_integer_tokens_typed_by_suffix : forall fuel st rest,
  Forall (fun i => match i with
                   | Lexer.RTok k v _ _ _ => is_int_kind k = true ->
                       exists x t, v = x ++ t /\ Forall (fun c => ~ In c BAD) x /\
                                   int_const_type false v = Some (spec_type t)
                   | _ => True end)
         (fst (fst (Lexer.raw_lex fuel st rest))).
Proof. exact lexer_int_tokens_typed. Qed.
Print Assumptions C10_integer_tokens_typed_by_suffix.

(* non-vacuity: 0x1FuLL is such a token and gets `unsigned long long int` *)
Example C10_int_typed_example :
  int_const_type false (s2l "0x1FuLL") = Some (s2l "unsigned long long int")
  /\ spec_type (s2l "uLL") = s2l "unsigned long long int".
Proof. vm_compute. split; reflexivity. Qed.

(* UNBOUNDED, floating constants (proofs/FloatLiteral.v): every FLOAT_CONST / HEX_FLOAT_CONST token the lexer can emit, from any
   text - any number of digits - is spelled  x ++ t  with x non-empty and not ending in f F l L (in a hexadecimal constant x
   ends in the decimal digits of the binary exponent although hex digits a-f occur before) and t one of "", f, F, l, L; and
   _parse_constant's classifier, which only looks at the last character, gives exactly the type that suffix spells -
   double / float / long double - and never raises IndexError *)
From PV Require FloatLiteral.
Theorem C10_floating_tokens_typed_by_suffix : forall fuel st rest,
  Forall (fun i => match i with
                   | Lexer.RTok k v _ _ _ => FloatLiteral.is_float_kind k = true ->
                       exists x t, v = x ++ t /\ x <> [] /\ FloatLiteral.lastgood x /\
                                   float_const_type v = Some (FloatLiteral.spec_ftype t)
                   | _ => True end)
         (fst (fst (Lexer.raw_lex fuel st rest))).
Proof. exact FloatLiteral.lexer_float_tokens_typed. Qed.
Print Assumptions C10_floating_tokens_typed_by_suffix.

(* non-vacuity: 0x1.fp3L is a long double although `f` occurs in it; 1e5f is a float; 1. is a double *)
Example C10_float_typed_example :
  float_const_type (s2l "0x1.fp3L") = Some (s2l "long double") /\ float_const_type (s2l "1e5f") = Some (s2l "float")
  /\ float_const_type (s2l "1.") = Some (s2l "double") /\ FloatLiteral.rulef_ok re_HEX_FLOAT_CONST = true.
Proof. vm_compute. repeat split; reflexivity. Qed.
