(* C15 - ASTs survive repr/eval, pickle and deepcopy unchanged.
   Property theorems only; proofs are in proofs/ReprProofs.v and proofs/NodeProofs.v. *)
From Coq Require Import List NArith Bool Arith.
Import ListNotations.
From PV Require Import Regex Base AstDefs AstSpec AstImpl PyRepr PyEval NodeModel NodeProofs ReprProofs ReprRoundtrip.

Theorem C15_slots_cover_init :
  forallb (fun ci => list_str_eqb (firstn (length (ci_slots ci) - 2) (ci_slots ci) ++ [s_coord]) (ci_params ci)) ast_impl = true.
Proof. exact slots_cover_init. Qed.
Print Assumptions C15_slots_cover_init.

Theorem C15_slots_tail :
  forallb (fun ci => list_str_eqb (skipn (length (ci_slots ci) - 2) (ci_slots ci)) [s_coord; s_weakref]) ast_impl = true.
Proof. exact slots_tail. Qed.
Print Assumptions C15_slots_tail.

(* slot state is total: every slot except __weakref__ is assigned by __init__ (pickle/deepcopy restore it completely) *)
Theorem C15_init_assigns_every_slot :
  forallb (fun ci => list_str_eqb (map fst (ci_assigns ci)) (firstn (length (ci_slots ci) - 1) (ci_slots ci))
                     && list_str_eqb (map snd (ci_assigns ci)) (ci_params ci)
                     && list_str_eqb (map fst (ci_assigns ci)) (ci_params ci)) ast_impl = true.
Proof. exact init_assigns_every_slot. Qed.
Print Assumptions C15_init_assigns_every_slot.

Theorem C15_repr_str_no_newline : forall pr s, ~ In 10%N (py_repr_with pr s).
Proof. exact repr_str_no_newline. Qed.
Print Assumptions C15_repr_str_no_newline.

(* eval(repr(s)) = s for every Python string (code points below 2^32) and every printability oracle;
   the text after the literal is left untouched *)
Theorem C15_unrepr_repr_str : forall pr s rest, Forall (fun c => (c < 4294967296)%N) s ->
  unrepr_str (py_repr_with pr s ++ rest) = Some (s, rest).
Proof. exact unrepr_repr_str. Qed.
Print Assumptions C15_unrepr_repr_str.

(* eval(repr(t)) == t at tree level: for every well-formed tree t (any depth f, any classes, any
   string contents with code points below 2^32, any coordinates) and every printability oracle,
   evaluating the text Node.__repr__ emits yields the same tree with coord = None. *)
From PV Require Import PyEvalTree EvalTreeProofs.
Theorem C15_eval_repr_tree : forall (P: Type) (pr: N -> bool) f (v: value P) fuel, wf P f v -> (f <= fuel)%nat ->
  pyeval P fuel (repr_value P pr f v) = Some (strip P v).
Proof. exact eval_repr_tree. Qed.
Print Assumptions C15_eval_repr_tree.

(* non-vacuity: a concrete tree with a list, nested nodes, None and strings needing escapes is well formed *)
Example C15_wf_example :
  wf nat 5 (VNode C_FuncCall [VNode C_ID [VStr [97; 39; 34; 92; 10]%N] (Some 7%nat);
                              VNode C_ExprList [VList [VNode C_Constant [VStr [105; 110; 116]%N; VStr [49]%N] None; VNode C_Return [VNone] None]] None] None).
Proof. cbn. repeat (first [split | constructor | reflexivity | (vm_compute; reflexivity)]). Qed.
