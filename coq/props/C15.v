(* C15 - ASTs survive repr/eval, pickle and deepcopy unchanged.
   Property theorems only; proofs are in proofs/ReprProofs.v and proofs/NodeProofs.v. *)
From Coq Require Import List NArith Bool Arith.
Import ListNotations.
From PV Require Import Regex Base AstDefs AstSpec AstImpl PyRepr PyEval NodeModel NodeProofs ReprProofs ReprRoundtrip.

Theorem C15_slots_cover_init :
  forallb (fun ci => list_str_eqb (firstn (length (ci_slots ci) - 2) (ci_slots ci) ++ [s_coord]) (ci_params ci)) ast_impl = true.
Proof. exact slots_cover_init. Qed.
Print Assumptions C15_slots_cover_init.

Theorem C15_slots_tail :
  forallb (fun ci => list_str_eqb (skipn (length (ci_slots ci) - 2) (ci_slots ci)) [s_coord; s_weakref]) ast_impl = true.
Proof. exact slots_tail. Qed.
Print Assumptions C15_slots_tail.

(* slot state is total: every slot except __weakref__ is assigned by __init__ (pickle/deepcopy restore it completely) *)
Theorem C15_init_assigns_every_slot :
  forallb (fun ci => list_str_eqb (map fst (ci_assigns ci)) (firstn (length (ci_slots ci) - 1) (ci_slots ci))
                     && list_str_eqb (map snd (ci_assigns ci)) (ci_params ci)
                     && list_str_eqb (map fst (ci_assigns ci)) (ci_params ci)) ast_impl = true.
Proof. exact init_assigns_every_slot. Qed.
Print Assumptions C15_init_assigns_every_slot.

Theorem C15_repr_str_no_newline : forall pr s, ~ In 10%N (py_repr_with pr s).
Proof. exact repr_str_no_newline. Qed.
Print Assumptions C15_repr_str_no_newline.

(* eval(repr(s)) = s for every Python string (code points below 2^32) and every printability oracle;
   the text after the literal is left untouched *)
Theorem C15_unrepr_repr_str : forall pr s rest, Forall (fun c => (c < 4294967296)%N) s ->
  unrepr_str (py_repr_with pr s ++ rest) = Some (s, rest).
Proof. exact unrepr_repr_str. Qed.
Print Assumptions C15_unrepr_repr_str.
