(* C07 - generated C re-parses to the same AST (parse . generate . parse = parse)
   Property theorems only; the statements below are checked by the kernel on the whole-pipeline model
   (lexer -> token stream -> parser -> transforms), proofs in proofs/GenExamples.v. *)
From Coq Require Import List NArith Bool Arith.
Import ListNotations.
From PV Require Import Regex Base LexTables NodeModel ParserBase ParserDecl ParserMain Api GenExamples ParserTables GenTables CSpec TableProofs Generator ParamProofs GenParam ClimbProofs GenParen GenBinop ParserBase ParserMain StreamLib RoundTrip RoundTripGen RoundTripX GenExpr StmtTrip GenStmt.

(* parse . generate . parse = parse and second generation = first (default configuration) *)
Theorem C07_roundtrip_decls :
  roundtrip_ok false (s2l "typedef int T; static const T a = 1, *b[3], (*fp)(int, char *); struct S { int x : 3; T y; } s = { .x = 1, .y = 2 };") = true.
Proof. exact ex_C07_roundtrip_decls. Qed.
Print Assumptions C07_roundtrip_decls.

(* ... and with reduce_parentheses *)
Theorem C07_roundtrip_rp_decls :
  roundtrip_ok true (s2l "typedef int T; static const T a = 1, *b[3], (*fp)(int, char *); struct S { int x : 3; T y; } s = { .x = 1, .y = 2 };") = true.
Proof. exact ex_C07_roundtrip_rp_decls. Qed.
Print Assumptions C07_roundtrip_rp_decls.

(* parse . generate . parse = parse and second generation = first (default configuration) *)
Theorem C07_roundtrip_exprs :
  roundtrip_ok false (s2l "int f(int a, int b) { return (a + b) * (a - b) / (a ? b : -a) + sizeof(int) + (int)a % b << 2 >= (a & b | a ^ b) && !a || ~b; }") = true.
Proof. exact ex_C07_roundtrip_exprs. Qed.
Print Assumptions C07_roundtrip_exprs.

(* ... and with reduce_parentheses *)
Theorem C07_roundtrip_rp_exprs :
  roundtrip_ok true (s2l "int f(int a, int b) { return (a + b) * (a - b) / (a ? b : -a) + sizeof(int) + (int)a % b << 2 >= (a & b | a ^ b) && !a || ~b; }") = true.
Proof. exact ex_C07_roundtrip_rp_exprs. Qed.
Print Assumptions C07_roundtrip_rp_exprs.

(* parse . generate . parse = parse and second generation = first (default configuration) *)
Theorem C07_roundtrip_stmts :
  roundtrip_ok false (s2l "void g(int n) { for (int i = 0; i < n; i++) { if (i) continue; else break; } while (n--) ; do n++; while (n < 3); switch (n) { case 1: case 2: n = 1; break; default: ; } L: goto L; }") = true.
Proof. exact ex_C07_roundtrip_stmts. Qed.
Print Assumptions C07_roundtrip_stmts.

(* ... and with reduce_parentheses *)
Theorem C07_roundtrip_rp_stmts :
  roundtrip_ok true (s2l "void g(int n) { for (int i = 0; i < n; i++) { if (i) continue; else break; } while (n--) ; do n++; while (n < 3); switch (n) { case 1: case 2: n = 1; break; default: ; } L: goto L; }") = true.
Proof. exact ex_C07_roundtrip_rp_stmts. Qed.
Print Assumptions C07_roundtrip_rp_stmts.

(* parse . generate . parse = parse and second generation = first (default configuration) *)
Theorem C07_roundtrip_nested_ops :
  roundtrip_ok false (s2l "int h(int a, int b, int c) { return a - (b - c) + a * (b + c) - (a - b) - c + a / (b / c) + (a << b) + c; }") = true.
Proof. exact ex_C07_roundtrip_nested_ops. Qed.
Print Assumptions C07_roundtrip_nested_ops.

(* ... and with reduce_parentheses *)
Theorem C07_roundtrip_rp_nested_ops :
  roundtrip_ok true (s2l "int h(int a, int b, int c) { return a - (b - c) + a * (b + c) - (a - b) - c + a / (b / c) + (a << b) + c; }") = true.
Proof. exact ex_C07_roundtrip_rp_nested_ops. Qed.
Print Assumptions C07_roundtrip_rp_nested_ops.

(* witness (known finding): a for-init declaration with several declarators does not round-trip *)
Theorem C07_forinit_multi_refuted :
  roundtrip_ok false (s2l "void f(void){ for (int *p = 0, *q = 0; ; ) ; }") = false.
Proof. exact ex_C07_forinit_multi_refuted. Qed.
Print Assumptions C07_forinit_multi_refuted.

(* witness (known finding): an assignment whose lvalue is a comma expression does not round-trip *)
Theorem C07_assign_lvalue_refuted :
  roundtrip_ok false (s2l "void f(void){ (a, b) = 1; }") = false.
Proof. exact ex_C07_assign_lvalue_refuted. Qed.
Print Assumptions C07_assign_lvalue_refuted.

(* CGenerator never looks at coordinates: for EVERY AST, every renaming or erasure of its coordinates
   leaves the generated text (and the crash / final-indentation outcome) unchanged - by parametricity
   of the generator model (all visit_* methods) in the coordinate type *)
Theorem C07_gen_ignores_coords : forall (A B: Type) (g: A -> B) rp fuel (v: value A),
  generate B rp fuel (vmap A B g v) = match generate A rp fuel v with
                                       | GOk x => GOk x | GCrash => GCrash | GFuel => GFuel end.
Proof. exact gen_ignores_coords. Qed.
Print Assumptions C07_gen_ignores_coords.

(* the generator's precedence_map is the parser's _BINARY_PRECEDENCE, operator by operator *)
Theorem C07_precedence_mirrored :
  forallb (fun e => match punct_kind_l (fst e) with
                    | Some k => match prec_lookup k with Some p => Nat.eqb p (snd e) | None => false end
                    | None => false end) gen_precedence_map = true
  /\ List.length gen_precedence_map = List.length tbl_BINARY_PRECEDENCE.
Proof. exact generator_precedence_mirrors_parser. Qed.
Print Assumptions C07_precedence_mirrored.

(* visit_BinaryOp's parenthesisation, both settings of reduce_parentheses, every tree of binary operators
   over identifiers of any depth: the generator MODEL (all of Generator.v) prints exactly the rendering of
   the flat operand/operator sequence [flatten t] (an operand = an identifier or a parenthesised subtree),
   and the only tree the stratified C grammar (ClimbProofs.D, the grammar the parser model is proved to
   implement in C02_binary_expression_refines) assigns to that sequence is the tree it was printed from *)
Theorem C07_generator_binop_text : forall (C: Type) rp (t: gt str str), ops_known t -> is_leaf t = false ->
  forall fuel st, (2 * height t <= S fuel)%nat ->
  visit C rp fuel (emb C t) st = GOk (render rp (flatten str str gprec rp t), st) /\
  forall T, D (gt str str) str gprec 0 (Leaf (gt str str) str (fst (flatten str str gprec rp t))) (snd (flatten str str gprec rp t)) T
            <-> T = skel str str gprec rp t.
Proof. exact generator_binop_text. Qed.
Print Assumptions C07_generator_binop_text.

(* non-vacuity: a - (b - c) * d  with reduce_parentheses: the right operand keeps its parentheses, the product does not get any *)
Example C07_binop_example :
  let t := GBin str str (s2l "-") (GLeaf str str (s2l "a"))
             (GBin str str (s2l "*") (GBin str str (s2l "-") (GLeaf str str (s2l "b")) (GLeaf str str (s2l "c"))) (GLeaf str str (s2l "d"))) in
  generate nat true 10 (emb nat t) = GOk (s2l "a - (b - c) * d", Z0) /\ print true t = s2l "a - (b - c) * d".
Proof. vm_compute. split; reflexivity. Qed.

(* parse . generate = id at token level, for EVERY tree of binary operators over identifiers (any size, any shape,
   both settings of reduce_parentheses).  [kv rp t] is the token sequence (kind, spelling) of the text the
   generator prints for t (C07_generated_text_is_its_tokens below).  Whenever the WHOLE-PARSER model
   (ParserMain.p_expression: expression -> assignment (with its two-token look-ahead for `({`) -> conditional ->
   precedence climbing -> cast (speculative `( type-name )` attempt, mark / reset) -> unary -> postfix (second
   speculative attempt, compound-literal test, suffix loop) -> primary -> `( expression )` recursively) finds
   tokens with these kinds and spellings next in its input - delivered lazily through the buffered token stream,
   identifiers classified against the scope stack (StreamLib.Up) - followed by a token that cannot continue an
   expression, it returns, for all sufficiently large fuel, exactly the tree the text was generated from
   (coordinates erased) and has consumed exactly those tokens. *)
Theorem C07_parse_of_generated_tokens : forall (P: Type) rp (t: gt str str), ops_known t ->
  forall (s: ParserBase.pstate P) le stop l0, Spell P le (kv rp t) -> Up P s (le ++ stop :: l0) -> estop (tk stop) = true ->
  exists f0 N s', (forall f, (f0 <= f)%nat -> p_expression P f s = Ok (N, s')) /\ Up P s' (stop :: l0) /\ strip N = emb unit t.
Proof. exact parse_of_generated_tokens. Qed.
Print Assumptions C07_parse_of_generated_tokens.

(* the generated text is the concatenation of those spellings, with a blank on each side of each operator *)
Theorem C07_generated_text_is_its_tokens : forall rp (t: gt str str), ops_known t -> print rp t = text_of (kv rp t).
Proof. exact print_is_text. Qed.
Print Assumptions C07_generated_text_is_its_tokens.

(* the hypotheses are satisfiable: `( a + b ) * c ;` as the first items of a translation unit *)
Example C07_roundtrip_hypotheses_satisfiable :
  ops_known ex_tree /\ Spell nat ex_toks (kv false ex_tree) /\ Up nat ex_state (ex_toks ++ [mkTok nat K_SEMI (s2l ";") 8%nat]) /\
  estop K_SEMI = true /\ print false ex_tree = s2l "(a + b) * c".
Proof. exact roundtrip_hypotheses_satisfiable. Qed.

(* The same for a larger expression language [ex]: identifiers, integer / floating / character constants, binary
   operators, the prefix operators - + ! ~ * & ++ --, postfix ++ --, sizeof(expression), sizeof(type-name) and casts (type-name) e
   with a type name made of simple type-specifier keywords (`int`, `unsigned long`, ...), subscripts, member accesses
   (. and ->), function calls with any number of arguments, the conditional operator, all (compound) assignments and comma expressions, nested in any way and to any
   depth.  [xt rp e] is the token sequence of the generated text, with operands parenthesised exactly as visit_BinaryOp /
   visit_UnaryOp / visit_ArrayRef / visit_StructRef / visit_FuncCall / visit_TernaryOp / visit_Assignment /
   visit_ExprList / _visit_expr do.
   Parser side: whenever the whole-parser model finds these tokens followed by a token that cannot continue an
   expression, p_expression returns exactly e (coordinates erased) and has consumed exactly these tokens. *)
Theorem C07_parse_of_generated_expression : forall (P: Type) rp (e: ex), wf e ->
  forall (s: ParserBase.pstate P) le stop l0, Spell P le (xt rp e) -> Up P s (le ++ stop :: l0) -> estop (tk stop) = true ->
  exists f0 N s', (forall f, (f0 <= f)%nat -> p_expression P f s = Ok (N, s')) /\ Up P s' (stop :: l0) /\ strip N = embx e.
Proof. exact parse_of_generated_expression. Qed.
Print Assumptions C07_parse_of_generated_expression.

(* generator side: the generator MODEL prints [ptext rp e] for every such expression and leaves the indentation alone *)
Theorem C07_generator_prints_expression : forall (C: Type) rp (e: ex), wf e -> forall fuel st, (3 * size e <= fuel)%nat ->
  visit C rp fuel (embC C e) st = GOk (ptext rp e, st).
Proof. intros C rp e Hw. exact (visit_prints_x C rp (size e) e (le_n _) Hw). Qed.
Print Assumptions C07_generator_prints_expression.

(* ... and that text, blanks removed, is the concatenation of the spellings of the tokens [xt rp e] *)
Theorem C07_expression_text_is_its_tokens : forall rp (e: ex), wf e -> ids_nb e -> despace (ptext rp e) = spell (xt rp e).
Proof. intros rp e. exact (ptext_tokens rp (size e) e (le_n _)). Qed.
Print Assumptions C07_expression_text_is_its_tokens.

(* non-vacuity: a[i].f = -b * (c ? d : e), g(1, (x, y)) *)
Example C07_expression_example :
  wf ex_x /\ ids_nb ex_x /\
  visit nat false 80 (embC nat ex_x) Z0 = GOk (s2l "a[i].f = (-b) * ((c) ? (d) : (e)), g(1, (x, y))", Z0) /\
  map fst (xt false ex_x) = [K_ID; K_LBRACKET; K_ID; K_RBRACKET; K_PERIOD; K_ID; K_EQUALS; K_LPAREN; K_MINUS; K_ID; K_RPAREN; K_TIMES;
                             K_LPAREN; K_LPAREN; K_ID; K_RPAREN; K_CONDOP; K_LPAREN; K_ID; K_RPAREN; K_COLON; K_LPAREN; K_ID; K_RPAREN; K_RPAREN;
                             K_COMMA; K_ID; K_LPAREN; K_INT_CONST_DEC; K_COMMA; K_LPAREN; K_ID; K_COMMA; K_ID; K_RPAREN; K_RPAREN].
Proof. exact expression_example. Qed.

(* ... and with casts and sizeof of a type name *)
Example C07_cast_example :
  wf ex_c /\ ids_nb ex_c /\
  visit nat false 80 (embC nat ex_c) Z0 = GOk (s2l "((unsigned long) (a + 1)) * (sizeof(int))", Z0) /\
  map fst (xt false ex_c) = [K_LPAREN; K_LPAREN; K_UNSIGNED; K_LONG; K_RPAREN; K_LPAREN; K_ID; K_PLUS; K_INT_CONST_DEC; K_RPAREN; K_RPAREN; K_TIMES;
                             K_LPAREN; K_SIZEOF; K_LPAREN; K_INT; K_RPAREN; K_RPAREN].
Proof. exact cast_example. Qed.

(* STATEMENTS over that expression language: expression statements, `;`, return / break / continue / goto, labelled statements, if with and
   without else, while, do-while, for with every clause present or absent, and brace-enclosed blocks of statements (the
   scope stack that `{` and `}` push and pop at token delivery is threaded through StreamLib.Up), nested in any way.  Parser side:
   whenever p_pragmacomp_or_statement (the production behind every sub-statement position) finds the tokens [stoks rp x]
   of the generated text, it returns exactly x.  The only side conditions are C's own dangling-else rule: in swf the
   then-branch of an if WITH an else does not end in an if without one (CGenerator adds no braces), and an if without
   else is not followed by the token `else`. *)
Theorem C07_parse_of_generated_statement : forall (P: Type) rp (x: st), swf x ->
  forall (s: ParserBase.pstate P) le stop l0, Spell P le (stoks rp x) -> Up P s (le ++ stop :: l0) ->
  (sopen x = true -> kind_eqb (tk stop) K_ELSE = false) ->
  exists f0 N s', (forall f, (f0 <= f)%nat -> p_pragmacomp_or_statement P f s = Ok (N, s')) /\ Up P s' (stop :: l0) /\ strip N = embs x.
Proof. exact parse_of_generated_statement. Qed.
Print Assumptions C07_parse_of_generated_statement.

(* generator side: _generate_stmt(add_indent=True) prints [gst rp lv x] at indentation level lv and restores the level *)
Theorem C07_generator_prints_statement : forall (C: Type) rp (x: st), swf x -> forall fuel lv, (cost x < fuel)%nat ->
  generate_stmt C rp fuel (embS C x) true lv = GOk (gst rp lv x, lv).
Proof. exact gst_prints_nodecl. Qed.
Print Assumptions C07_generator_prints_statement.

(* ... and that text, blanks and newlines removed, is the concatenation of the spellings of [stoks rp x] *)
Theorem C07_statement_text_is_its_tokens : forall rp (x: st), sexprs (eok rp) x -> forall lv, despace2 (gst rp lv x) = spell (stoks rp x).
Proof. exact gst_tokens. Qed.
Print Assumptions C07_statement_text_is_its_tokens.

(* ... WITH DECLARATIONS: blocks, at any nesting depth, may contain the declarations `T x;` and `T x = e;` as block items (T a run of
   simple type-specifier keywords, e any expression of the language - CGenerator prints a comma expression in parentheses).
   Parser side (proofs/DeclTrip.v, StmtTrip.v): from every parser state whose scope stack holds no typedef name, p_statement parses
   [stoks rp x] back to exactly x - p_declaration_specifiers, the speculative declarator scan with its reset, p_declarator,
   p_initializer, _build_declarations / _fix_decl_name_type and the scope update are all walked through - and the scope stack
   is again free of typedef names afterwards.  Generator side (GenStmt.v): visit_Decl / _generate_decl / _generate_type print
   `T x = e`, _generate_stmt adds `;`. *)
Theorem C07_parse_of_generated_statement_with_declarations : forall (P: Type) rp (x: st), swfD x ->
  forall (s: ParserBase.pstate P) le stop l0, Spell P le (stoks rp x) -> Up P s (le ++ stop :: l0) ->
  (sopen x = true -> kind_eqb (tk stop) K_ELSE = false) -> NoTD (ParserBase.scopes P s) ->
  exists f0 N s', (forall f, (f0 <= f)%nat -> p_statement P f s = Ok (N, s')) /\ Up P s' (stop :: l0) /\ strip N = embs x /\
    NoTD (ParserBase.scopes P s').
Proof. exact parse_of_generated_statement_with_decls. Qed.
Print Assumptions C07_parse_of_generated_statement_with_declarations.

Theorem C07_generator_prints_statement_with_declarations : forall (C: Type) rp (x: st), swfD x -> forall fuel lv, (cost x < fuel)%nat ->
  generate_stmt C rp fuel (embS C x) true lv = GOk (gst rp lv x, lv).
Proof. exact gst_prints_decls. Qed.
Print Assumptions C07_generator_prints_statement_with_declarations.

(* non-vacuity, both sides on one program: `{ int x = 1; unsigned long y; y = x + 2; { char c = (x, y); } }` is printed like this by the
   generator model, the text is the concatenation of its tokens, and the whole-parser model started on these tokens returns the tree *)
Example C07_declaration_example :
  swfD ex_d /\ (exists t, generate_stmt nat false 80 (embS nat ex_d) true Z0 = GOk (t, Z0) /\ despace2 t = spell (stoks false ex_d)) /\
  match p_statement nat 100 ex_d_state with Ok (N, s') => strip N = embs ex_d | _ => False end.
Proof. exact decl_example_both. Qed.

(* non-vacuity: a for loop whose body is a block with an if / else-if ladder (return, break), a do-while over a nested block
   with an empty block inside, and a goto *)
Example C07_statement_example :
  swf ex_s /\ exists t, generate_stmt nat false 80 (embS nat ex_s) true Z0 = GOk (t, Z0) /\ despace2 t = spell (stoks false ex_s).
Proof. destruct statement_example as [H [t [H1 [H2 _]]]]. split; [exact H|]. exists t. split; assumption. Qed.

(* ... and labels: `{ again: if (a) in: a++;  out: ; }` *)
Example C07_label_example :
  swf ex_l /\ exists t, generate_stmt nat false 80 (embS nat ex_l) true Z0 = GOk (t, Z0) /\ despace2 t = spell (stoks false ex_l).
Proof. destruct label_example as [H [t [H1 [H2 _]]]]. split; [exact H|]. exists t. split; assumption. Qed.

(* WHOLE PROGRAMS, parser side, on parse_tokens itself (proofs/FuncTrip.v): a sequence of function definitions `T f ( ) { ... }` over the
   statement language with declarations; the tokens of the program followed by the end of the input are parsed, from the initial state
   of parse(), to exactly the FileAST the program stands for ([prog_emb]: one FuncDef per definition, Decl > FuncDecl > TypeDecl >
   IdentifierType, no parameter list, the body a Compound), every token consumed, at most three next() calls per token.
   (Generator side of FuncDef / FileAST: by correspondence only.) *)
From PV Require FuncTrip.
Theorem C07_parse_of_generated_program : forall (P: Type) rp (p: list FuncTrip.fdef), Forall FuncTrip.fwf p ->
  forall items le eof file, Spell P le (FuncTrip.prog_toks rp p) -> UpR P [[]] items le -> List.length items = List.length le ->
  exists f0 N s', (forall fu, (f0 <= fu)%nat -> parse_tokens P fu (init_pstate P items eof file) = Ok (N, s')) /\
    strip N = FuncTrip.prog_emb rp p /\ ParserBase.idx P s' = List.length le /\ (N.to_nat (ParserBase.ticks P s') <= 3 * List.length le)%nat.
Proof. exact FuncTrip.parse_of_generated_program. Qed.
Print Assumptions C07_parse_of_generated_program.

(* non-vacuity: `int main ( ) { int x = 1 ; unsigned long y ; y = x + 2 ; { char c = ( x , y ) ; } return y ; } void g ( ) { }` meets the
   hypotheses, and the model's parse_tokens, evaluated in the kernel, returns prog_emb of it after 40 tokens *)
Example C07_program_example :
  Forall FuncTrip.fwf FuncTrip.ex_prog /\ Spell nat FuncTrip.ex_prog_toks (FuncTrip.prog_toks false FuncTrip.ex_prog) /\
  UpR nat [[]] FuncTrip.ex_prog_items FuncTrip.ex_prog_toks /\ List.length FuncTrip.ex_prog_items = List.length FuncTrip.ex_prog_toks /\
  match parse_tokens nat 200 (init_pstate nat FuncTrip.ex_prog_items 0 0) with
  | Ok (N, s') => strip N = FuncTrip.prog_emb false FuncTrip.ex_prog /\ ParserBase.idx nat s' = List.length FuncTrip.ex_prog_toks /\
                  (N.to_nat (ParserBase.ticks nat s') <= 3 * List.length FuncTrip.ex_prog_toks)%nat
  | _ => False
  end.
Proof. exact FuncTrip.program_example. Qed.

(* ... and BOTH SIDES for whole programs, on the same tree (proofs/GenProg.v): the generator model - visit_FileAST, visit_FuncDef, visit_Decl /
   _generate_decl / _generate_type with the FuncDecl modifier, visit_Compound at indentation 0 - prints [ptextP rp p] from [prog_emb rp p];
   that text with blanks and newlines removed is the concatenation of the spellings of [prog_toks rp p]; and the parser model's parse_tokens
   turns these tokens, followed by the end of the input, back into [prog_emb rp p].  parse . generate = id, token level, whole programs. *)
From PV Require GenProg.
Theorem C07_program_roundtrip : forall (P: Type) rp (p: list FuncTrip.fdef), p <> [] -> Forall FuncTrip.fwf p -> Forall (GenProg.fgen_ok) p -> Forall (GenProg.ftok_ok rp) p ->
  (forall fuel, (list_sum (map GenProg.fcost p) + 2 <= fuel)%nat -> visit unit rp fuel (FuncTrip.prog_emb rp p) Z0 = GOk (GenProg.ptextP rp p, Z0)) /\
  despace2 (GenProg.ptextP rp p) = spell (FuncTrip.prog_toks rp p) /\
  (forall items le eof file, Spell P le (FuncTrip.prog_toks rp p) -> UpR P [[]] items le -> List.length items = List.length le ->
   exists f0 N s', (forall fu, (f0 <= fu)%nat -> parse_tokens P fu (init_pstate P items eof file) = Ok (N, s')) /\ strip N = FuncTrip.prog_emb rp p).
Proof. exact GenProg.program_roundtrip. Qed.
Print Assumptions C07_program_roundtrip.

(* parser side for translation units that mix file-scope object declarations and function definitions (FuncTrip.parse_of_generated_unit):
   one Decl / FuncDef per external declaration, in source order; through the last branch of p_external_declaration (declarator, `=`,
   p_initializer, p_init_declarator_list with the first declarator already parsed, _build_declarations, `;`) *)
Theorem C07_parse_of_generated_unit : forall (P: Type) rp (u: list FuncTrip.edecl), Forall FuncTrip.ewf u ->
  forall items le eof file, Spell P le (FuncTrip.unit_toks rp u) -> UpR P [[]] items le -> List.length items = List.length le ->
  exists f0 N s', (forall fu, (f0 <= fu)%nat -> parse_tokens P fu (init_pstate P items eof file) = Ok (N, s')) /\
    strip N = FuncTrip.unit_emb rp u /\ ParserBase.idx P s' = List.length le /\ (N.to_nat (ParserBase.ticks P s') <= 3 * List.length le)%nat.
Proof. exact FuncTrip.parse_of_generated_unit. Qed.
Print Assumptions C07_parse_of_generated_unit.

(* non-vacuity: `int counter = 0; unsigned long limit; int next() { counter = counter + 1; return counter; } char flag = (counter, 1); void g() { }` *)
Example C07_unit_example :
  Forall FuncTrip.ewf FuncTrip.ex_unit /\ Spell nat FuncTrip.ex_unit_toks (FuncTrip.unit_toks false FuncTrip.ex_unit) /\
  UpR nat [[]] FuncTrip.ex_unit_items FuncTrip.ex_unit_toks /\ List.length FuncTrip.ex_unit_items = List.length FuncTrip.ex_unit_toks /\
  match parse_tokens nat 200 (init_pstate nat FuncTrip.ex_unit_items 0 0) with
  | Ok (N, s') => strip N = FuncTrip.unit_emb false FuncTrip.ex_unit /\ ParserBase.idx nat s' = List.length FuncTrip.ex_unit_toks /\
                  (N.to_nat (ParserBase.ticks nat s') <= 3 * List.length FuncTrip.ex_unit_toks)%nat
  | _ => False
  end.
Proof. exact FuncTrip.unit_example. Qed.

(* BOTH SIDES for translation units that mix object declarations and function definitions (GenProg.unit_roundtrip): visit_FileAST adds
   `;` and a newline after a Decl, nothing after a FuncDef; the text is the concatenation of the unit's tokens; parse_tokens turns them back. *)
Theorem C07_unit_roundtrip : forall (P: Type) rp (u: list FuncTrip.edecl), Forall FuncTrip.ewf u -> Forall GenProg.egen_ok u -> Forall (GenProg.etok_ok rp) u ->
  (forall fuel, (list_sum (map GenProg.ecost u) + 2 <= fuel)%nat -> visit unit rp fuel (FuncTrip.unit_emb rp u) Z0 = GOk (GenProg.utext rp u, Z0)) /\
  despace2 (GenProg.utext rp u) = spell (FuncTrip.unit_toks rp u) /\
  (forall items le eof file, Spell P le (FuncTrip.unit_toks rp u) -> UpR P [[]] items le -> List.length items = List.length le ->
   exists f0 N s', (forall fu, (f0 <= fu)%nat -> parse_tokens P fu (init_pstate P items eof file) = Ok (N, s')) /\ strip N = FuncTrip.unit_emb rp u).
Proof. exact GenProg.unit_roundtrip. Qed.
Print Assumptions C07_unit_roundtrip.
