(* C07 - generated C re-parses to the same AST.  Property theorems only. *)
From Coq Require Import List NArith Bool Arith String.
Import ListNotations.
From PV Require Import Regex Base LexTables ParserTables GenTables CSpec TableProofs ClimbProofs.

(* the generator's precedence_map is the parser's _BINARY_PRECEDENCE, operator by operator
   (through the lexer's own spelling table), and both are C99's level assignment *)
Theorem C07_precedence_mirrored :
  forallb (fun e => match punct_kind_l (fst e) with
                    | Some k => match prec_lookup k with Some p => Nat.eqb p (snd e) | None => false end
                    | None => false end) gen_precedence_map = true
  /\ List.length gen_precedence_map = List.length tbl_BINARY_PRECEDENCE.
Proof. exact generator_precedence_mirrors_parser. Qed.
Print Assumptions C07_precedence_mirrored.

Theorem C07_precedence_is_c99 :
  forallb (fun e => match punct_kind (fst e) with
                    | Some k => match prec_lookup k with Some p => Nat.eqb p (snd e) | None => false end
                    | None => false end) c99_binary_levels = true
  /\ List.length tbl_BINARY_PRECEDENCE = List.length c99_binary_levels.
Proof. exact precedence_is_c99. Qed.
Print Assumptions C07_precedence_is_c99.
