(* C06 - parse() either returns a FileAST or raises ParseError - nothing else
   Property theorems only; the statements below are checked by the kernel on the whole-pipeline model
   (lexer -> token stream -> parser -> transforms), proofs in proofs/CrashExamples.v. *)
From Coq Require Import List NArith Bool Arith.
Import ListNotations.
From PV Require Import Regex Base LexTables NodeModel ParserBase ParserDecl ParserMain Api CrashExamples LexerProofs LexNoCrash.

(* a stray } is a located ParseError (was an AssertionError before the fix) *)
Theorem C06_stray_rbrace :
  outcome_str (s2l "}") = s2l "E|f.c: Unmatched '}'".
Proof. exact ex_C06_stray_rbrace. Qed.
Print Assumptions C06_stray_rbrace.

(* two type specifiers where the last is not a plain name: ParseError (was AttributeError) *)
Theorem C06_int_struct :
  outcome_str (s2l "int struct T;") = s2l "E|f.c:1:1: Invalid declaration".
Proof. exact ex_C06_int_struct. Qed.
Print Assumptions C06_int_struct.

(* a multi-character constant made of suffix letters is an int constant (was ValueError) *)
Theorem C06_multichar :
  outcome_str (s2l "int x = 'uu';") = s2l "OK|(FileAST [(Decl 'x' [] [] [] [] (TypeDecl 'x' [] None (IdentifierType ['int'])) (Constant 'int' ""'uu'"") None)])".
Proof. exact ex_C06_multichar. Qed.
Print Assumptions C06_multichar.

(* the message starts with a source location (was '?: ...') *)
Theorem C06_located :
  outcome_str (s2l "const;") = s2l "E|f.c: Invalid declaration".
Proof. exact ex_C06_located. Qed.
Print Assumptions C06_located.

(* termination of the lexing half: tokenising any text finishes within |text|+1 iterations *)
Theorem C06_lex_terminates : forall text file,
  snd (Lexer.raw_lex (S (length text)) (Lexer.init_lexst file) text) = true.
Proof. exact lex_terminates. Qed.
Print Assumptions C06_lex_terminates.

(* the lexer never trips its own `assert msg is not None`: for every text the item stream has no crash item
   (every error rule of the regenerated rule table carries a message) *)
Theorem C06_lex_no_crash : forall fuel st rest, Lexer.has_crash (fst (fst (Lexer.raw_lex fuel st rest))) = false.
Proof. exact lex_no_crash. Qed.
Print Assumptions C06_lex_no_crash.
