(* C06 - parse() either returns a FileAST or raises ParseError - nothing else
   Property theorems only; the statements below are checked by the kernel on the whole-pipeline model
   (lexer -> token stream -> parser -> transforms), proofs in proofs/CrashExamples.v. *)
From Coq Require Import List NArith Bool Arith.
Import ListNotations.
From PV Require Import Regex Base LexTables NodeModel ParserBase ParserDecl ParserMain Api CrashExamples LexerProofs.

(* outcome of the whole-pipeline model on a text, coordinates erased, token counter dropped *)
Definition outcome_str (text: str) : str :=
  match run_parse text (s2l "f.c") with
  | Ok (ast, _) => s2l "OK|" ++ show_ast (N.to_nat 1000) false ast
  | Err l m => s2l "E|" ++ show_loc l ++ s2l ": " ++ m
  | Crash k => s2l "C|" ++ crash_name k
  | OutOfFuel => s2l "R"
  end.

(* witness: a stray } escapes as AssertionError (scope pop on an empty stack) *)
Theorem C06_stray_rbrace_refuted :
  outcome_str (s2l "}") = s2l "C|AssertionError".
Proof. exact C06_stray_rbrace_refuted. Qed.
Print Assumptions C06_stray_rbrace_refuted.

(* witness: AttributeError (specifier inspection assumes IdentifierType) *)
Theorem C06_int_struct_refuted :
  outcome_str (s2l "int struct T;") = s2l "C|AttributeError".
Proof. exact C06_int_struct_refuted. Qed.
Print Assumptions C06_int_struct_refuted.

(* witness: ValueError from the integer-suffix counter applied to a multi-character constant *)
Theorem C06_multichar_refuted :
  outcome_str (s2l "int x = 'uu';") = s2l "C|ValueError".
Proof. exact C06_multichar_refuted. Qed.
Print Assumptions C06_multichar_refuted.

(* witness: a ParseError whose message does not start with a source location *)
Theorem C06_unlocated_refuted :
  outcome_str (s2l "const;") = s2l "E|?: Invalid declaration".
Proof. exact C06_unlocated_refuted. Qed.
Print Assumptions C06_unlocated_refuted.

(* termination of the lexing half: tokenising any text finishes within |text|+1 iterations *)
Theorem C06_lex_terminates : forall text file,
  snd (Lexer.raw_lex (S (length text)) (Lexer.init_lexst file) text) = true.
Proof. exact lex_terminates. Qed.
Print Assumptions C06_lex_terminates.
