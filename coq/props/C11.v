(* C11 - coordinates point at the real source location of every construct and error.
   Property theorems only; proofs are in proofs/ParamProofs.v. *)
From Coq Require Import List NArith Bool Arith.
Import ListNotations.
From PV Require Import Regex Base LexTables NodeModel ParserBase ParserDecl ParserMain ParamProofs.

(* Provenance: every position and file name inside any coordinate of the AST,
   and inside the location of any ParseError, is one the parser was given (the
   position of a delivered token / error item, the file name in force after
   some item, or the initial / final file name).  The parser cannot invent,
   add to, or combine positions. *)
Theorem C11_provenance : forall (P: Type) (ok: P -> Prop) fuel items eof file,
  Forall (item_ok P ok) items -> ok eof -> ok file -> outcome_ok P ok (parse_items fuel items eof file).
Proof. exact coord_provenance. Qed.
Print Assumptions C11_provenance.

(* identifiers, constants and operators always carry a coordinate: every node returned by any of the fifteen
   expression productions of the whole-parser model (and every Compound) has coord = Some c - for every token
   stream, state and fuel.  One mutual induction: a node's coordinate comes from a token or from an operand
   that has one by induction. *)
From PV Require Import AstDefs AstSpec AstImpl PyRepr PostLib CoordProofs.
Theorem C11_expression_has_coordinate : forall (P: Type) f,
  post P (fun v => exists c, get_coord P v = Some (Some c)) (p_expression P f).
Proof. exact expression_has_coordinate. Qed.
Print Assumptions C11_expression_has_coordinate.

Theorem C11_all_expression_productions_have_coordinates : forall (P: Type) f, ALL P f.
Proof. exact all_have_coordinates. Qed.
Print Assumptions C11_all_expression_productions_have_coordinates.

(* identifiers and constants: exactly the token that spells them (proofs/CoordTokens.v).  For every parser state, whenever
   one of the three producers of identifier / literal nodes returns, the call consumed exactly the next token t of the
   stream (advance from the same state returns t and the same final state), the node spells tv t and its coordinate is
   tp t - the position the lexer gave to that very token (C11_provenance: a position of the input) - in the file in force *)
From PV Require Import CoordTokens.
Theorem C11_identifier_is_its_token : forall (P: Type) (s: pstate P) N s', p_identifier P s = Ok (N, s') ->
  exists t, advance P s = Ok (t, s') /\ tk t = K_ID /\ N = VNode C_ID [VStr (tv t)] (Some (mkCoord P (curfile P s') (tp t))).
Proof. exact identifier_is_its_token. Qed.
Print Assumptions C11_identifier_is_its_token.

Theorem C11_identifier_or_typeid_is_its_token : forall (P: Type) (s: pstate P) N s', p_identifier_or_typeid P s = Ok (N, s') ->
  exists t, advance P s = Ok (t, s') /\ (tk t = K_ID \/ tk t = K_TYPEID) /\ N = VNode C_ID [VStr (tv t)] (Some (mkCoord P (curfile P s') (tp t))).
Proof. exact identifier_or_typeid_is_its_token. Qed.
Print Assumptions C11_identifier_or_typeid_is_its_token.

Theorem C11_constant_is_its_token : forall (P: Type) (s: pstate P) N s', p_constant P s = Ok (N, s') ->
  exists t ty, advance P s = Ok (t, s') /\ N = VNode C_Constant [VStr ty; VStr (tv t)] (Some (mkCoord P (curfile P s') (tp t))).
Proof. exact constant_is_its_token. Qed.
Print Assumptions C11_constant_is_its_token.
