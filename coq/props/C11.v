(* C11 - coordinates point at the real source location of every construct and error.
   Property theorems only; proofs are in proofs/ParamProofs.v. *)
From Coq Require Import List NArith Bool Arith.
Import ListNotations.
From PV Require Import Regex Base LexTables NodeModel ParserBase ParserDecl ParserMain ParamProofs.

(* Provenance: every position and file name inside any coordinate of the AST,
   and inside the location of any ParseError, is one the parser was given (the
   position of a delivered token / error item, the file name in force after
   some item, or the initial / final file name).  The parser cannot invent,
   add to, or combine positions. *)
Theorem C11_provenance : forall (P: Type) (ok: P -> Prop) fuel items eof file,
  Forall (item_ok P ok) items -> ok eof -> ok file -> outcome_ok P ok (parse_items fuel items eof file).
Proof. exact coord_provenance. Qed.
Print Assumptions C11_provenance.
