(* C02 - expression ASTs follow C precedence, associativity and operator binding.
   Property theorems only. *)
From Coq Require Import List NArith Bool Arith String.
Import ListNotations.
From PV Require Import Regex Base LexTables ParserTables CSpec TableProofs ClimbProofs.

(* the binary precedence table regenerated from c_parser.py is C99's ten-level assignment (6.5.5 - 6.5.14) *)
Theorem C02_precedence_table :
  forallb (fun e => match punct_kind (fst e) with
                    | Some k => match prec_lookup k with Some p => Nat.eqb p (snd e) | None => false end
                    | None => false end) c99_binary_levels = true
  /\ List.length tbl_BINARY_PRECEDENCE = List.length c99_binary_levels.
Proof. exact precedence_is_c99. Qed.
Print Assumptions C02_precedence_table.

Theorem C02_assignment_ops :
  forallb (fun s => okmem (punct_kind s) tbl_ASSIGNMENT_OPS) c99_assignment_ops = true
  /\ List.length tbl_ASSIGNMENT_OPS = List.length c99_assignment_ops.
Proof. exact assignment_ops_are_c99. Qed.
Print Assumptions C02_assignment_ops.

(* the two nested loops of _parse_binary_expression return, for every operator/operand
   sequence of any length and any precedence function, a tree that the stratified C
   grammar (level p ::= level p+1 | level p  op_p  level p+1, i.e. left-associative
   levels) derives for exactly that sequence *)
Theorem C02_climb_sound : forall (atom op: Type) (prec: op -> nat) fuel a0 r t,
  climb atom op prec fuel 0 (Leaf atom op a0) r = Some (t, []) -> D atom op prec 0 (Leaf atom op a0) r t.
Proof. exact climb_sound. Qed.
Print Assumptions C02_climb_sound.

(* non-vacuity: a + b * c - d  groups as  (a + (b * c)) - d  under the regenerated table *)
Example C02_example :
  let prec k := match prec_lookup k with Some p => p | None => 0%nat end in
  climb nat kind prec 10%nat 0%nat (Leaf nat kind 0%nat) [(K_PLUS, 1%nat); (K_TIMES, 2%nat); (K_MINUS, 3%nat)]
  = Some (Bin nat kind K_MINUS (Bin nat kind K_PLUS (Leaf nat kind 0%nat) (Bin nat kind K_TIMES (Leaf nat kind 1%nat) (Leaf nat kind 2%nat))) (Leaf nat kind 3%nat), []).
Proof. vm_compute. reflexivity. Qed.

(* the stratified grammar is unambiguous: an operator/operand sequence has at most one tree *)
Theorem C02_grammar_unambiguous : forall (atom op: Type) (prec: op -> nat) p h l t1 t2,
  D atom op prec p h l t1 -> D atom op prec p h l t2 -> t1 = t2.
Proof. intros atom op prec p h l t1 t2 H1 H2. exact (D_unique atom op prec p h l t1 H1 t2 H2). Qed.
Print Assumptions C02_grammar_unambiguous.

(* the same on the whole-parser model (ParserMain.v, tied to c_parser.py by correspondence): for every
   token stream, state and fuel, the BinaryOp tree _parse_binary_expression returns is THE tree the
   stratified C grammar assigns to the operator tokens it consumed (Seq: each one peeked, found in
   the precedence table, advanced over) and the cast-expressions parsed between them; each BinaryOp
   takes the coordinate of its left operand; it stops where no binary operator follows. *)
From PV Require Import AstDefs AstSpec AstImpl PyRepr NodeModel ParserBase ParserDecl ParserMain BinaryRefine.
Theorem C02_binary_expression_refines : forall (P: Type) f lhs0 s t s',
  p_binary_climb P f 0 lhs0 s = Ok (t, s') ->
  exists l T, t = to_node P T /\ Seq P s l s' /\
              D (node P) (tok P) (bprec P) 0 (Leaf (node P) (tok P) lhs0) l T /\
              (forall T', D (node P) (tok P) (bprec P) 0 (Leaf (node P) (tok P) lhs0) l T' -> T' = T) /\
              (forall o s1, peek P s' = Ok (Some o, s1) -> prec_of (tk o) = None).
Proof. exact binary_expression_refines. Qed.
Print Assumptions C02_binary_expression_refines.

(* completeness: every operator/operand sequence for which the stratified grammar has a tree is accepted
   by the two loops, with exactly that tree - so precedence climbing computes the grammar's (unique) tree *)
From PV Require Import ClimbComplete.
Theorem C02_climb_iff_grammar : forall (atom op: Type) (prec: op -> nat) a0 l t,
  (exists fuel, climb atom op prec fuel 0 (Leaf atom op a0) l = Some (t, [])) <-> D atom op prec 0 (Leaf atom op a0) l t.
Proof. exact climb_iff_grammar. Qed.
Print Assumptions C02_climb_iff_grammar.

(* the upper rungs of the expression ladder on the whole-parser model (every token stream, state, fuel) *)
From PV Require Import ExprShape.
(* ?: is right-associative, with a full comma expression between ? and : *)
Theorem C02_conditional_right_assoc : forall (P: Type) f (s s': pstate P) r,
  p_conditional_expression P (S f) s = Ok (r, s') ->
  exists lhs0 s1 e s2 q s3,
    p_cast_expression P f s = Ok (lhs0, s1) /\ p_binary_climb P f 0 lhs0 s1 = Ok (e, s2) /\
    accept P K_CONDOP s2 = Ok (q, s3) /\
    match q with
    | None => r = e /\ s' = s3
    | Some _ => exists iftrue s4 c s5 iffalse ec,
        p_expression P f s3 = Ok (iftrue, s4) /\ expect P K_COLON s4 = Ok (c, s5) /\
        p_conditional_expression P f s5 = Ok (iffalse, s') /\
        get_coord P e = Some ec /\ r = mkN P C_TernaryOp [e; iftrue; iffalse] ec
    end.
Proof. exact conditional_right_assoc. Qed.
Print Assumptions C02_conditional_right_assoc.

(* assignment is right-associative *)
Theorem C02_assignment_right_assoc : forall (P: Type) f (s s': pstate P) r,
  p_assignment_expression P (S f) s = Ok (r, s') ->
  (exists e s1 t s2, p_conditional_expression P f s1 = Ok (e, s2) /\ peek P s2 = Ok (t, s') /\ r = e /\
                     match t with Some t' => kind_in (tk t') tbl_ASSIGNMENT_OPS = false | None => True end)
  \/ (exists e s1 s2 t' s3 op s4 rhs ec,
        p_conditional_expression P f s1 = Ok (e, s2) /\ peek P s2 = Ok (Some t', s3) /\
        kind_in (tk t') tbl_ASSIGNMENT_OPS = true /\ advance P s3 = Ok (op, s4) /\
        p_assignment_expression P f s4 = Ok (rhs, s') /\ get_coord P e = Some ec /\
        r = mkN P C_Assignment [VStr (tv op); e; rhs] ec)
  \/ (exists comp s1 s2 x, p_compound_statement P f s1 = Ok (comp, s2) /\ expect P K_RPAREN s2 = Ok (x, s') /\ r = comp).
Proof. exact assignment_right_assoc. Qed.
Print Assumptions C02_assignment_right_assoc.

(* a comma expression is one flat list in source order; a single operand is returned as it is *)
Theorem C02_comma_expression_flat : forall (P: Type) f (s s': pstate P) r,
  p_expression P (S f) s = Ok (r, s') ->
  exists e s1 c s2, p_assignment_expression P f s = Ok (e, s1) /\ accept P K_COMMA s1 = Ok (c, s2) /\
    match c with
    | None => r = e /\ s' = s2
    | Some _ => exists e2 s3 rest ec, p_assignment_expression P f s2 = Ok (e2, s3) /\ CommaRun P s3 rest s' /\
                                     get_coord P e = Some ec /\ r = mkN P C_ExprList [VList (e :: e2 :: rest)] ec
    end.
Proof. exact comma_expression_flat. Qed.
Print Assumptions C02_comma_expression_flat.

(* parentheses influence grouping only: ( expression ) returns the node of the inner expression unchanged *)
Theorem C02_parentheses_only_group : forall (P: Type) f (s s1 s': pstate P) k r,
  p_primary_expression P (S f) s = Ok (r, s') ->
  peek_kind P s = Ok (k, s1) -> okind_is k K_LPAREN = true ->
  exists x s2 s3 y, advance P s1 = Ok (x, s2) /\ p_expression P f s2 = Ok (r, s3) /\ expect P K_RPAREN s3 = Ok (y, s').
Proof. exact parentheses_only_group. Qed.
Print Assumptions C02_parentheses_only_group.

(* prefix operators, casts and sizeof bind tighter than any binary operator (their operand is a cast- or
   unary-expression: a binary operator can only enter through parentheses), postfix operators tighter still
   and left to right - on the whole-parser model, every token stream, state and fuel *)
From PV Require Import PostLib UnaryShape.
Theorem C02_unary_operand : forall (P: Type) f,
  post P (fun r =>
      (exists op e ec, (cast_here P f e \/ unary_here P f e) /\ r = mkN P C_UnaryOp [VStr op; e] ec)
   \/ (exists op typ c, came_from P (p_type_name P f) typ /\ r = mkN P C_UnaryOp [VStr op; typ] c)
   \/ (exists op typ c, r = mkN P C_UnaryOp [VStr op; typ] c /\ exists x, came_from P (try_paren_type_name P f) (Some x) /\ fst (fst x) = typ)
   \/ came_from P (p_postfix_expression P f) r)
  (p_unary_expression P (S f)).
Proof. exact unary_operand. Qed.
Print Assumptions C02_unary_operand.

Theorem C02_cast_operand : forall (P: Type) f,
  post P (fun r => (exists typ e c, cast_here P f e /\ r = mkN P C_Cast [typ; e] c) \/ unary_here P f r)
       (p_cast_expression P (S f)).
Proof. exact cast_operand. Qed.
Print Assumptions C02_cast_operand.

Theorem C02_postfix_left_to_right : forall (P: Type) f e,
  post P (fun r => exists sufs, r = fold_left (app_sfx P) sufs e) (p_postfix_suffixes P f e).
Proof. exact postfix_left_to_right. Qed.
Print Assumptions C02_postfix_left_to_right.

(* COMPLETENESS at token level (proofs/RoundTripX.v): for every expression e of the language [ex] (identifiers,
   constants, binary, prefix and postfix operators, sizeof of expressions and of type names, casts to type names made of
   simple type specifiers, subscripts, member accesses, calls, ?:, assignments, comma), the tokens
   [xt true e] - e written with ONLY the parentheses that C's precedence and associativity make necessary (the
   generator's reduce_parentheses rule for binary operators; operands of other operators in parentheses unless they
   are postfix expressions) - are parsed by the whole-parser model to exactly e: the parser groups unparenthesised
   operator sequences as C's grammar prescribes, whatever the size and shape of e. *)
From PV Require ParserBase ParserMain StreamLib RoundTrip RoundTripGen RoundTripX.
Theorem C02_minimal_parentheses_parse_back : forall (P: Type) (e: RoundTripX.ex), RoundTripX.wf e ->
  forall (s: ParserBase.pstate P) le stop l0, RoundTrip.Spell P le (RoundTripX.xt true e) ->
  StreamLib.Up P s (le ++ stop :: l0) -> RoundTrip.estop (ParserBase.tk stop) = true ->
  exists f0 N s', (forall f, (f0 <= f)%nat -> ParserMain.p_expression P f s = ParserBase.Ok (N, s')) /\
                  StreamLib.Up P s' (stop :: l0) /\ RoundTrip.strip N = RoundTripX.embx e.
Proof. intros P e. exact (RoundTripX.parse_of_generated_expression P true e). Qed.
Print Assumptions C02_minimal_parentheses_parse_back.

(* non-vacuity: ((a - b) - (c * d)) < e  is written  a - b - c * d < e : no parentheses at all *)
Example C02_grouping_example :
  let id x := RoundTripX.XId (s2l x) in
  let e := RoundTripX.XBin (s2l "<") (RoundTripX.XBin (s2l "-") (RoundTripX.XBin (s2l "-") (id "a") (id "b")) (RoundTripX.XBin (s2l "*") (id "c") (id "d"))) (id "e") in
  map fst (RoundTripX.xt true e) = [K_ID; K_MINUS; K_ID; K_MINUS; K_ID; K_TIMES; K_ID; K_LT; K_ID]
  /\ map fst (RoundTripX.xt true (RoundTripX.XBin (s2l "-") (id "a") (RoundTripX.XBin (s2l "-") (id "b") (id "c")))) = [K_ID; K_MINUS; K_LPAREN; K_ID; K_MINUS; K_ID; K_RPAREN].
Proof. vm_compute. split; reflexivity. Qed.
