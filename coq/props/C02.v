(* C02 - expression ASTs follow C precedence, associativity and operator binding.
   Property theorems only. *)
From Coq Require Import List NArith Bool Arith String.
Import ListNotations.
From PV Require Import Regex Base LexTables ParserTables CSpec TableProofs ClimbProofs.

(* the binary precedence table regenerated from c_parser.py is C99's ten-level assignment (6.5.5 - 6.5.14) *)
Theorem C02_precedence_table :
  forallb (fun e => match punct_kind (fst e) with
                    | Some k => match prec_lookup k with Some p => Nat.eqb p (snd e) | None => false end
                    | None => false end) c99_binary_levels = true
  /\ List.length tbl_BINARY_PRECEDENCE = List.length c99_binary_levels.
Proof. exact precedence_is_c99. Qed.
Print Assumptions C02_precedence_table.

Theorem C02_assignment_ops :
  forallb (fun s => okmem (punct_kind s) tbl_ASSIGNMENT_OPS) c99_assignment_ops = true
  /\ List.length tbl_ASSIGNMENT_OPS = List.length c99_assignment_ops.
Proof. exact assignment_ops_are_c99. Qed.
Print Assumptions C02_assignment_ops.

(* the two nested loops of _parse_binary_expression return, for every operator/operand
   sequence of any length and any precedence function, a tree that the stratified C
   grammar (level p ::= level p+1 | level p  op_p  level p+1, i.e. left-associative
   levels) derives for exactly that sequence *)
Theorem C02_climb_sound : forall (atom op: Type) (prec: op -> nat) fuel a0 r t,
  climb atom op prec fuel 0 (Leaf atom op a0) r = Some (t, []) -> D atom op prec 0 (Leaf atom op a0) r t.
Proof. exact climb_sound. Qed.
Print Assumptions C02_climb_sound.

(* non-vacuity: a + b * c - d  groups as  (a + (b * c)) - d  under the regenerated table *)
Example C02_example :
  let prec k := match prec_lookup k with Some p => p | None => 0%nat end in
  climb nat kind prec 10%nat 0%nat (Leaf nat kind 0%nat) [(K_PLUS, 1%nat); (K_TIMES, 2%nat); (K_MINUS, 3%nat)]
  = Some (Bin nat kind K_MINUS (Bin nat kind K_PLUS (Leaf nat kind 0%nat) (Bin nat kind K_TIMES (Leaf nat kind 1%nat) (Leaf nat kind 2%nat))) (Leaf nat kind 3%nat), []).
Proof. vm_compute. reflexivity. Qed.

(* the stratified grammar is unambiguous: an operator/operand sequence has at most one tree *)
Theorem C02_grammar_unambiguous : forall (atom op: Type) (prec: op -> nat) p h l t1 t2,
  D atom op prec p h l t1 -> D atom op prec p h l t2 -> t1 = t2.
Proof. intros atom op prec p h l t1 t2 H1 H2. exact (D_unique atom op prec p h l t1 H1 t2 H2). Qed.
Print Assumptions C02_grammar_unambiguous.

(* the same on the whole-parser model (ParserMain.v, tied to c_parser.py by correspondence): for every
   token stream, state and fuel, the BinaryOp tree _parse_binary_expression returns is THE tree the
   stratified C grammar assigns to the operator tokens it consumed (Seq: each one peeked, found in
   the precedence table, advanced over) and the cast-expressions parsed between them; each BinaryOp
   takes the coordinate of its left operand; it stops where no binary operator follows. *)
From PV Require Import AstDefs AstSpec AstImpl PyRepr NodeModel ParserBase ParserDecl ParserMain BinaryRefine.
Theorem C02_binary_expression_refines : forall (P: Type) f lhs0 s t s',
  p_binary_climb P f 0 lhs0 s = Ok (t, s') ->
  exists l T, t = to_node P T /\ Seq P s l s' /\
              D (node P) (tok P) (bprec P) 0 (Leaf (node P) (tok P) lhs0) l T /\
              (forall T', D (node P) (tok P) (bprec P) 0 (Leaf (node P) (tok P) lhs0) l T' -> T' = T) /\
              (forall o s1, peek P s' = Ok (Some o, s1) -> prec_of (tk o) = None).
Proof. exact binary_expression_refines. Qed.
Print Assumptions C02_binary_expression_refines.

(* completeness: every operator/operand sequence for which the stratified grammar has a tree is accepted
   by the two loops, with exactly that tree - so precedence climbing computes the grammar's (unique) tree *)
From PV Require Import ClimbComplete.
Theorem C02_climb_iff_grammar : forall (atom op: Type) (prec: op -> nat) a0 l t,
  (exists fuel, climb atom op prec fuel 0 (Leaf atom op a0) l = Some (t, [])) <-> D atom op prec 0 (Leaf atom op a0) l t.
Proof. exact climb_iff_grammar. Qed.
Print Assumptions C02_climb_iff_grammar.
