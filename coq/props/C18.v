(* C18 - structurally malformed input is always rejected
   Property theorems only; the statements below are checked by the kernel on the whole-pipeline model
   (lexer -> token stream -> parser -> transforms), proofs in proofs/RejectExamples.v. *)
From Coq Require Import List NArith Bool Arith.
Import ListNotations.
From PV Require Import Regex Base LexTables NodeModel ParserBase ParserDecl ParserMain Api RejectExamples UnicodeTables PyRepr Lexer RejectProofs ConsumeProofs ConsumeTheorem StrayProofs.

(* a stray '@' is rejected at its own position *)
Theorem C18_stray_at :
  outcome_str (s2l "int x @ = 1;") = s2l "E|f.c:1:7: Illegal character '@'".
Proof. exact ex_C18_stray_at. Qed.
Print Assumptions C18_stray_at.

(* a comment is not a token *)
Theorem C18_comment :
  outcome_str (s2l "int x; /* c */") = s2l "E|f.c:1:8: Comments are not supported, see https://github.com/eliben/pycparser#3using.".
Proof. exact ex_C18_comment. Qed.
Print Assumptions C18_comment.

(* a directive other than #line / #pragma is rejected *)
Theorem C18_directive :
  outcome_str (s2l "#define X 1
int x;") = s2l "E|f.c:1:1: Directives not supported yet".
Proof. exact ex_C18_directive. Qed.
Print Assumptions C18_directive.

(* a deleted ] is rejected *)
Theorem C18_missing_bracket :
  outcome_str (s2l "int f(int a) { return a[1; }") = s2l "E|f.c:1:26: before: ;".
Proof. exact ex_C18_missing_bracket. Qed.
Print Assumptions C18_missing_bracket.

(* a duplicated { is rejected *)
Theorem C18_extra_brace :
  outcome_str (s2l "int f(void) { { return 1; }") = s2l "E|f.c: At end of input".
Proof. exact ex_C18_extra_brace. Qed.
Print Assumptions C18_extra_brace.

(* a bracket of the wrong kind is rejected *)
Theorem C18_swapped_kind :
  outcome_str (s2l "int f(void) { return g(1]; }") = s2l "E|f.c:1:25: before: ]".
Proof. exact ex_C18_swapped_kind. Qed.
Print Assumptions C18_swapped_kind.

(* For ALL inputs: if parse() succeeds on the whole pipeline model then every item the lexer produced
   was a token - no "Illegal character", no malformed literal, no comment, no bad directive error was
   reported and skipped - and every token was delivered to the parser (proved by one invariant argument
   over all 71 mutually recursive productions and every helper). *)
Theorem C18_parse_ok_all_tokens : forall (P: Type) fuel items eof file ast s',
  parse_tokens P fuel (init_pstate P items eof file) = Ok (ast, s') ->
  forallb (is_tok P) items = true /\ raw P s' = [].
Proof. exact parse_ok_all_tokens. Qed.
Print Assumptions C18_parse_ok_all_tokens.

Theorem C18_parse_ok_no_lexer_error : forall text file r,
  run_parse text file = Ok r ->
  forallb is_rtok (fst (fst (raw_lex (S (length text)) (init_lexst file) text))) = true.
Proof. exact parse_ok_no_lexer_error. Qed.
Print Assumptions C18_parse_ok_no_lexer_error.

(* an error item cannot be skipped: asking for one more token raises ParseError at exactly its position *)
Theorem C18_deliver_error_item : forall (P: Type) (s: pstate P) msg p f r,
  raw P s = PErr P msg p f :: r -> deliver1 P s = Err (L_coord P (mkCoord P f p)) msg.
Proof. exact deliver_error_item. Qed.
Print Assumptions C18_deliver_error_item.

(* a character that starts no token becomes an "Illegal character" error item at its line and column *)
Theorem C18_illegal_char_reported : forall n0 st c rest,
  choose_best n0 (c :: rest) = None ->
  match_token n0 st (c :: rest) =
    ([RErr (msg_illegal c) (l_lineno st) (l_pos st - l_line_start st + 1)%N (l_file st)],
     mkLex (l_pos st + 1)%N (l_line_start st) (l_lineno st) (l_file st), rest).
Proof. exact illegal_char_reported. Qed.
Print Assumptions C18_illegal_char_reported.

(* '@', '`' and '\' can never start a token: wherever the lexer model stands in front of one of them
   (any state, any following text) it emits error items only - every rule of the regenerated table whose words
   can start with such a character is an error rule, and no fixed token starts with one.  With
   C18_parse_ok_no_lexer_error: such a text is rejected. *)
Theorem C18_stray_char_is_reported : forall n0 st c rest, In c STRAY ->
  let items := fst (fst (lex_iter n0 st (c :: rest))) in items <> [] /\ forallb is_err items = true.
Proof. exact stray_char_is_reported. Qed.
Print Assumptions C18_stray_char_is_reported.
