(* C08 - regenerated C means the same as the original to a C compiler
   Property theorems only; the statements below are checked by the kernel on the whole-pipeline model
   (lexer -> token stream -> parser -> transforms), proofs in proofs/RegenExamples.v. *)
From Coq Require Import List NArith Bool Arith.
Import ListNotations.
From PV Require Import Regex Base LexTables NodeModel ParserBase ParserDecl ParserMain Api RegenExamples Generator ParamProofs GenParam.

(* the regenerated text of a declaration list: every specifier, declarator and initializer token is there, in order *)
Theorem C08_regen_decls :
  regen false (s2l "static const int a = 1, *b[3]; int (*fp)(int, char *); struct S { int x : 3; } s = { .x = 1 };") = Some (s2l "static const int a = 1;
static const int *b[3];
int (*fp)(int, char *);
struct S
{
  int x : 3;
} s = {.x = 1};
").
Proof. exact ex_C08_regen_decls. Qed.
Print Assumptions C08_regen_decls.

(* operands keep their grouping (default configuration: every non-simple operand parenthesised) *)
Theorem C08_regen_exprs :
  regen false (s2l "int f(int a, int b) { return a - (b - a) + a * (b + 1) / (a ? b : -a) + sizeof(int) + (int)a % b; }") = Some (s2l "int f(int a, int b)
{
  return (((a - (b - a)) + ((a * (b + 1)) / ((a) ? (b) : (-a)))) + (sizeof(int))) + (((int) a) % b);
}

").
Proof. exact ex_C08_regen_exprs. Qed.
Print Assumptions C08_regen_exprs.

(* reduce_parentheses keeps exactly the parentheses the precedence levels require *)
Theorem C08_regen_exprs_rp :
  regen true (s2l "int f(int a, int b) { return a - (b - a) + a * (b + 1) - (a - b) - 1; }") = Some (s2l "int f(int a, int b)
{
  return a - (b - a) + a * (b + 1) - (a - b) - 1;
}

").
Proof. exact ex_C08_regen_exprs_rp. Qed.
Print Assumptions C08_regen_exprs_rp.

(* statements: nothing dropped, duplicated or reordered *)
Theorem C08_regen_stmts :
  regen false (s2l "void g(int n) { for (int i = 0; i < n; i++) if (i) continue; else break; switch (n) { case 1: case 2: n = 1; break; default: ; } }") = Some (s2l "void g(int n)
{
  for (int i = 0; i < n; i++)
    if (i)
    continue;
  else
    break;

  switch (n)
  {
    case 1:

    case 2:
      n = 1;
      break;

    default:
      ;

  }

}

").
Proof. exact ex_C08_regen_stmts. Qed.
Print Assumptions C08_regen_stmts.

(* witness (known finding): an identifier array designator comes back as a member designator *)
Theorem C08_designator_identifier_refuted :
  regen false (s2l "enum { N = 1 }; int a[3] = { [N] = 1 };") = Some (s2l "enum 
{
  N = 1
};
int a[3] = {.N = 1};
").
Proof. exact ex_C08_designator_identifier_refuted. Qed.
Print Assumptions C08_designator_identifier_refuted.

(* witness (known finding): the struct body is emitted once per declarator *)
Theorem C08_struct_body_twice_refuted :
  regen false (s2l "struct S { int a; } x, y;") = Some (s2l "struct S
{
  int a;
} x;
struct S
{
  int a;
} y;
").
Proof. exact ex_C08_struct_body_twice_refuted. Qed.
Print Assumptions C08_struct_body_twice_refuted.

(* what the generator emits does not depend on coordinates (all ASTs) - see C07 *)
Theorem C08_gen_ignores_coords : forall (A B: Type) (g: A -> B) rp fuel (v: value A),
  generate B rp fuel (vmap A B g v) = match generate A rp fuel v with
                                       | GOk x => GOk x | GCrash => GCrash | GFuel => GFuel end.
Proof. exact gen_ignores_coords. Qed.
Print Assumptions C08_gen_ignores_coords.
