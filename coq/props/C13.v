(* C13 - separate parser/generator instances never influence each other.  Property theorems only. *)
From Coq Require Import List NArith Bool Arith.
Import ListNotations.
From PV Require Import Regex Base StateFacts StateProofs.

(* no function or method writes to anything that outlives an instance *)
Theorem C13_no_shared_mutable : global_writes = [] /\ class_level_mutable_objects = [].
Proof. exact no_shared_mutable. Qed.
Print Assumptions C13_no_shared_mutable.

(* two instances whose steps read and write only their own record: every interleaving (at step
   granularity) leaves each exactly where running it alone leaves it *)
Theorem C13_interleaving_equals_solo : forall (S1 S2: Type) (step1: S1 -> S1) (step2: S2 -> S2) sched s,
  run_sched S1 S2 step1 step2 sched s =
  (iter step1 (length (filter (fun b => b) sched)) (fst s), iter step2 (length (filter negb sched)) (snd s)).
Proof. exact interleaving_equals_solo. Qed.
Print Assumptions C13_interleaving_equals_solo.
